// h-upstream: correspondence harness for C01 and C20 (iscp.Upstream on a connection that stays
// up) against Model/Upstream.v.  Drives the real iscp.Connect/OpenUpstream/WriteDataPoints/
// Flush/Close through an in-memory transport and a scripted broker with a ledger.
//
// Two families.  Event-history cases (kinds exhaustive-*, random, concurrent): a FlushPolicy wrapper
// delegates IsFlush to the library's own policy object but OWNS the ticker channel, so ticks are
// events and every step can be compared with the model.  Real-time cases (kind rt-interval, rt.go):
// no wrapper; the library's own tickers and its own (shared) policy objects run on the wall clock.
package main

import (
	"context"
	"encoding/json"
	"errors"
	"flag"
	"fmt"
	"hash/crc32"
	"os"
	"sort"
	"strings"
	"sync"
	"time"

	"github.com/aptpod/iscp-go/iscp"
	"github.com/aptpod/iscp-go/message"
	uuid "github.com/google/uuid"

	"verif/internal/broker"
	"verif/internal/coqfmt"
	"verif/internal/rng"
)

const wd = 3 * time.Second // watchdog for every library call and every awaited effect

// ---------------------------------------------------------------- case description (JSON, replayable)

type opIn struct {
	Op      string     `json:"op"` // write tick flush ack close
	ID      int        `json:"id,omitempty"`
	Lens    []int      `json:"lens,omitempty"`    // payload length per point
	Aliases [][2]int   `json:"aliases,omitempty"` // (alias, data id)
	Results [][2]int   `json:"results,omitempty"` // (seq or 0 = "oldest outstanding"/relative, code)
	RelSeq  bool       `json:"relseq,omitempty"`  // results refer to outstanding chunks by position
	N       int        `json:"n,omitempty"`       // write: N points of Len zero bytes each (instead of Lens; big-backlog histories)
	Len     int        `json:"len,omitempty"`
}

type caseIn struct {
	Policy   string  `json:"policy"` // none interval size intervalorsize immediate
	Thresh   int     `json:"thresh"`
	QoS      int     `json:"qos"`
	Rev0     [][2]int `json:"rev0"` // (data id, alias) in the open response
	Ops      []opIn  `json:"ops"`
	Writers  int     `json:"writers,omitempty"` // >0: concurrent mode
	RT       *rtIn   `json:"rt,omitempty"`      // real-time interval case (rt.go); everything above is unused then
	FL       *flIn   `json:"fl,omitempty"`      // concurrent-flushers case (flushers.go); everything above is unused then
	StoreFail []int  `json:"store_fail,omitempty"` // the k-th call of sentStorage.Store (1-based) returns an error, once each
	// ElMode: how the ElapsedTime of successive points is drawn (the library must keep WRITE order per
	// data id whatever the elapsed times are): 0 strictly increasing (1,2,3,...), 1 random in -4..19
	// (duplicates, negative values, ups and downs), 2 strictly decreasing, 3 sawtooth 30,10,20,7,3,5,5 (+40 per round)
	ElMode int `json:"elmode,omitempty"`
}

// elOf is the ElapsedTime of the n-th point (n from 1) of a case under the case's ElMode.
func elOf(mode int, n uint64, r *rng.R) int64 {
	switch mode {
	case 1:
		return int64(r.Intn(24)) - 4
	case 2:
		return 1_000_000 - int64(n)
	case 3:
		k := n - 1
		return []int64{30, 10, 20, 7, 3, 5, 5}[k%7] + 40*int64(k/7)
	}
	return int64(n)
}

// ---------------------------------------------------------------- flush policy and storage wrappers

type hookPolicy struct {
	real    iscp.FlushPolicy
	tick    chan time.Time
	isFlush chan bool
}

func (p *hookPolicy) Ticker() (<-chan time.Time, func()) { return p.tick, func() {} }
func (p *hookPolicy) IsFlush(size uint32) bool {
	r := p.real.IsFlush(size)
	select {
	case p.isFlush <- r:
	default:
	}
	return r
}

func realPolicy(c *caseIn) iscp.FlushPolicy {
	var cfg iscp.UpstreamConfig
	switch c.Policy {
	case "none":
		iscp.WithUpstreamFlushPolicyNone()(&cfg)
	case "interval":
		iscp.WithUpstreamFlushPolicyIntervalOnly(time.Hour)(&cfg)
	case "size":
		iscp.WithUpstreamFlushPolicyBufferSizeOnly(uint32(c.Thresh))(&cfg)
	case "intervalorsize":
		iscp.WithUpstreamFlushPolicyIntervalOrBufferSize(time.Hour, uint32(c.Thresh))(&cfg)
	case "immediate":
		iscp.WithUpstreamFlushPolicyImmediately()(&cfg)
	}
	return cfg.FlushPolicy
}

type sigStorage struct {
	iscp.VerifSentStorage
	stored chan uint32
	mu     sync.Mutex
	calls  int
	failAt map[int]bool
	failed chan uint32 // sequence numbers of the Store calls that were made to fail
}

func (s *sigStorage) Store(ctx context.Context, id uuid.UUID, seq uint32, d iscp.DataPointGroups) error {
	s.mu.Lock()
	s.calls++
	fail := s.failAt[s.calls]
	s.mu.Unlock()
	if fail {
		select {
		case s.failed <- seq:
		default:
		}
		return errors.New("verif: sent storage refuses this Store")
	}
	err := s.VerifSentStorage.Store(ctx, id, seq, d)
	select {
	case s.stored <- seq:
	default:
	}
	return err
}

// ---------------------------------------------------------------- observation

type ptT struct{ el, dig, ln uint64 }

func ptOf(p *message.DataPoint) ptT {
	return ptT{uint64(p.ElapsedTime), uint64(crc32.ChecksumIEEE(p.Payload)), uint64(len(p.Payload))}
}
// ptsTerm prints a point list; a run of >= 6 points with consecutive elapsed times and the same
// digest and length is printed as (prun first n dig len), literals hold <= 150 elements, the
// segments are joined by ++ (big-backlog histories stay small as Coq terms).
func ptsTerm(ps []ptT) string {
	var segs []string
	var lit []string
	flushLit := func() {
		for len(lit) > 0 {
			k := len(lit)
			if k > 150 {
				k = 150
			}
			segs = append(segs, coqfmt.List(lit[:k]))
			lit = lit[k:]
		}
	}
	for i := 0; i < len(ps); {
		j := i + 1
		for j < len(ps) && ps[j].el == ps[j-1].el+1 && ps[j].dig == ps[i].dig && ps[j].ln == ps[i].ln {
			j++
		}
		if j-i >= 6 {
			flushLit()
			segs = append(segs, fmt.Sprintf("prun %d %d %d %d", ps[i].el, j-i, ps[i].dig, ps[i].ln))
		} else {
			for k := i; k < j; k++ {
				lit = append(lit, fmt.Sprintf("(%d,%d,%d)", ps[k].el, ps[k].dig, ps[k].ln))
			}
		}
		i = j
	}
	flushLit()
	switch len(segs) {
	case 0:
		return "[]"
	case 1:
		if strings.HasPrefix(segs[0], "[") {
			return segs[0]
		}
		return "(" + segs[0] + ")"
	}
	return "(" + strings.Join(segs, " ++ ") + ")"
}

type grp struct {
	id      int
	isAlias bool
	alias   uint32
	pts     []ptT
}

type chunkObs struct {
	seq    uint32
	groups []grp
	ids    []int
	pos    int // arrival position in the broker log
}

type env struct {
	mu       sync.Mutex
	idOf     map[message.DataID]int
	dataID   map[int]*message.DataID
	aliasTbl map[uint32]int // alias -> data id, as handed out by the broker
	chunks   map[uint32]*chunkObs
	dupSeq   bool
	closeReq [][2]uint64
	closePos int
	npos     int
	sendHook []struct {
		seq uint32
		g   []grp
	}
	ackHook  [][2]uint64
	streamID uuid.UUID
	autoAck  bool
	autoAcked [][2]int
	aliasOnAck bool
	nextAlias  uint32
	autoAliases [][][2]int
}

func (e *env) did(id int) *message.DataID {
	if d, ok := e.dataID[id]; ok {
		return d
	}
	d := &message.DataID{Name: fmt.Sprintf("n%d", id), Type: "t"}
	e.dataID[id] = d
	e.idOf[*d] = id
	return d
}

func (e *env) groupsOf(gs []*message.DataPointGroup) []grp {
	var out []grp
	for _, g := range gs {
		var x grp
		switch v := g.DataIDOrAlias.(type) {
		case *message.DataID:
			id, ok := e.idOf[*v]
			if !ok {
				id = 900000
			}
			x.id = id
		case message.DataIDAlias:
			x.isAlias, x.alias = true, uint32(v)
			id, ok := e.aliasTbl[uint32(v)]
			if !ok {
				id = 900001
			}
			x.id = id
		}
		for _, p := range g.DataPoints {
			x.pts = append(x.pts, ptOf(p))
		}
		out = append(out, x)
	}
	sort.SliceStable(out, func(i, j int) bool { return out[i].id < out[j].id })
	return out
}

func wgroupsTerm(gs []grp) string {
	var s []string
	for _, g := range gs {
		s = append(s, fmt.Sprintf("(%d,(%s,%d),%s)", g.id, coqfmt.Bool(g.isAlias), g.alias, ptsTerm(g.pts)))
	}
	return coqfmt.List(s)
}
func groupsTerm(gs []grp) string {
	var s []string
	for _, g := range gs {
		s = append(s, fmt.Sprintf("(%d,%s)", g.id, ptsTerm(g.pts)))
	}
	return coqfmt.List(s)
}

type snapT struct {
	seq   uint32
	total uint64
	buf   []grp
}

func (e *env) snapshot(u *iscp.Upstream) snapT {
	st := u.State()
	var gs []grp
	for _, g := range st.DataPointsBuffer {
		e.mu.Lock()
		id, ok := e.idOf[*g.DataID]
		e.mu.Unlock()
		if !ok {
			id = 900000
		}
		x := grp{id: id}
		for _, p := range g.DataPoints {
			x.pts = append(x.pts, ptOf(p))
		}
		gs = append(gs, x)
	}
	sort.SliceStable(gs, func(i, j int) bool { return gs[i].id < gs[j].id })
	return snapT{st.LastIssuedSequenceNumber, st.TotalDataPoints, gs}
}

func snapTerm(s snapT) string {
	return fmt.Sprintf("(%d,%d,%s)", s.seq, s.total, groupsTerm(s.buf))
}

// ---------------------------------------------------------------- one case

type result struct {
	term     string
	observed map[string]interface{}
	direct   string
	nchunks  int
	aliasUse bool
	nids     int
	sf       string // the whole case term when Store failures were injected
}

func call(name string, f func() error) (err error, blocked bool) {
	ch := make(chan error, 1)
	go func() { ch <- f() }()
	select {
	case err = <-ch:
		return err, false
	case <-time.After(wd):
		return nil, true
	}
}

func runCase(c *caseIn, r *rng.R) (res result) {
	e := &env{idOf: map[message.DataID]int{}, dataID: map[int]*message.DataID{}, aliasTbl: map[uint32]int{},
		chunks: map[uint32]*chunkObs{}, closePos: -1, streamID: uuid.New()}
	var rev0 = map[uint32]*message.DataID{}
	for _, ia := range c.Rev0 {
		rev0[uint32(ia[1])] = e.did(ia[0])
		e.aliasTbl[uint32(ia[1])] = ia[0]
	}
	b := broker.New(func(s *broker.Session, m message.Message) {
		switch v := m.(type) {
		case *message.ConnectRequest:
			broker.AcceptConnect(s, v)
		case *message.UpstreamOpenRequest:
			s.Send(&message.UpstreamOpenResponse{RequestID: v.RequestID, AssignedStreamID: e.streamID, AssignedStreamIDAlias: 1,
				ResultCode: message.ResultCodeSucceeded, ServerTime: time.Unix(1700000000, 0), DataIDAliases: rev0})
		case *message.UpstreamChunk:
			e.mu.Lock()
			co := &chunkObs{seq: v.StreamChunk.SequenceNumber, groups: e.groupsOf(v.StreamChunk.DataPointGroups), pos: e.npos}
			e.npos++
			for _, d := range v.DataIDs {
				id, ok := e.idOf[*d]
				if !ok {
					id = 900000
				}
				co.ids = append(co.ids, id)
			}
			sort.Ints(co.ids)
			if _, dup := e.chunks[co.seq]; dup {
				e.dupSeq = true
			}
			e.chunks[co.seq] = co
			auto := e.autoAck
			ack := &message.UpstreamChunkAck{StreamIDAlias: 1, Results: []*message.UpstreamChunkResult{{SequenceNumber: co.seq, ResultCode: message.ResultCodeSucceeded}}}
			if auto {
				e.autoAcked = append(e.autoAcked, [2]int{int(co.seq), int(message.ResultCodeSucceeded)})
				if e.aliasOnAck {
					ack.DataIDAliases = map[uint32]*message.DataID{}
					var al [][2]int
					for _, id := range co.ids {
						e.nextAlias++
						ack.DataIDAliases[e.nextAlias] = e.dataID[id]
						e.aliasTbl[e.nextAlias] = id
						al = append(al, [2]int{int(e.nextAlias), id})
					}
					e.autoAliases = append(e.autoAliases, al)
				}
			}
			e.mu.Unlock()
			if auto {
				s.Send(ack)
			}
		case *message.UpstreamCloseRequest:
			e.mu.Lock()
			e.closeReq = append(e.closeReq, [2]uint64{v.TotalDataPoints, uint64(v.FinalSequenceNumber)})
			if e.closePos < 0 {
				e.closePos = e.npos
			}
			e.npos++
			e.mu.Unlock()
			s.Send(&message.UpstreamCloseResponse{RequestID: v.RequestID, ResultCode: message.ResultCodeSucceeded})
		}
	})
	defer b.Release()

	pol := &hookPolicy{real: realPolicy(c), tick: make(chan time.Time), isFlush: make(chan bool, 64)}
	var usePol iscp.FlushPolicy = pol
	if c.Writers > 0 {
		var cfg iscp.UpstreamConfig
		switch c.Policy {
		case "interval":
			iscp.WithUpstreamFlushPolicyIntervalOnly(3 * time.Millisecond)(&cfg)
		case "intervalorsize":
			iscp.WithUpstreamFlushPolicyIntervalOrBufferSize(3*time.Millisecond, uint32(c.Thresh))(&cfg)
		default:
			cfg.FlushPolicy = realPolicy(c)
		}
		usePol = cfg.FlushPolicy
	}
	st := &sigStorage{VerifSentStorage: iscp.VerifNewInmemSentStorageNoPayload(), stored: make(chan uint32, 4096),
		failAt: map[int]bool{}, failed: make(chan uint32, 64)}
	for _, k := range c.StoreFail {
		st.failAt[k] = true
	}
	var failedSeqs []int
	var conn *iscp.Conn
	err, blocked := call("connect", func() error {
		var err error
		conn, err = iscp.Connect(b.Address, broker.TransportName, iscp.VerifWithSentStorage(st),
			iscp.WithConnPingInterval(time.Hour), iscp.WithConnPingTimeout(time.Hour))
		return err
	})
	if blocked || err != nil {
		res.direct = fmt.Sprintf("harness: connect failed: %v blocked=%v", err, blocked)
		return
	}
	defer func() {
		ctx, cancel := context.WithTimeout(context.Background(), time.Second)
		defer cancel()
		go conn.Close(ctx)
	}()
	var up *iscp.Upstream
	qos := []message.QoS{message.QoSUnreliable, message.QoSReliable, message.QoSPartial}[c.QoS%3]
	err, blocked = call("open", func() error {
		ctx, cancel := context.WithTimeout(context.Background(), wd)
		defer cancel()
		var err error
		up, err = conn.OpenUpstream(ctx, "sess", iscp.WithUpstreamFlushPolicy(usePol), iscp.WithUpstreamQoS(qos),
			iscp.WithUpstreamCloseTimeout(2*time.Second),
			iscp.WithUpstreamSendDataPointsHooker(iscp.SendDataPointsHookerFunc(func(id uuid.UUID, ch iscp.UpstreamChunk) {
				var gs []grp
				e.mu.Lock()
				for _, g := range ch.DataPointGroups {
					did, ok := e.idOf[*g.DataID]
					if !ok {
						did = 900000
					}
					x := grp{id: did}
					for _, p := range g.DataPoints {
						x.pts = append(x.pts, ptOf(p))
					}
					gs = append(gs, x)
				}
				sort.SliceStable(gs, func(i, j int) bool { return gs[i].id < gs[j].id })
				e.sendHook = append(e.sendHook, struct {
					seq uint32
					g   []grp
				}{ch.SequenceNumber, gs})
				e.mu.Unlock()
			})),
			iscp.WithUpstreamReceiveAckHooker(iscp.ReceiveAckHookerFunc(func(id uuid.UUID, r iscp.UpstreamChunkResult) {
				e.mu.Lock()
				e.ackHook = append(e.ackHook, [2]uint64{uint64(r.SequenceNumber), uint64(r.ResultCode)})
				e.mu.Unlock()
			})))
		return err
	})
	if blocked || err != nil {
		res.direct = fmt.Sprintf("harness: open failed: %v blocked=%v", err, blocked)
		return
	}
	sess := b.Current()

	var opsT, retsT, snapsT []string
	var elapsed uint64
	outstanding := map[uint32]bool{} // stored and not yet acknowledged
	acked := 0
	emit := func(op string, ret int, sn snapT) {
		opsT = append(opsT, op)
		retsT = append(retsT, fmt.Sprint(ret))
		snapsT = append(snapsT, snapTerm(sn))
	}
	// a chunk is "outstanding" once the broker has received it (acks are causal: a broker never
	// acknowledges a chunk it has not seen) and until it has been acknowledged
	arrived := func(seq uint32) bool {
		return broker.WaitFor(wd, func() bool {
			e.mu.Lock()
			defer e.mu.Unlock()
			_, ok := e.chunks[seq]
			return ok
		})
	}
	lost := ""
	drainStored := func() {
		for {
			select {
			case s := <-st.stored:
				if !arrived(s) {
					lost = fmt.Sprintf("chunk %d was cut (stored) but never reached the broker", s)
				}
				outstanding[s] = true
			case s := <-st.failed:
				failedSeqs = append(failedSeqs, int(s))
			default:
				return
			}
		}
	}
	waitStored := func() bool {
		select {
		case s := <-st.stored:
			if !arrived(s) {
				lost = fmt.Sprintf("chunk %d was cut (stored) but never reached the broker", s)
			}
			outstanding[s] = true
			return true
		case s := <-st.failed:
			failedSeqs = append(failedSeqs, int(s))
			return true
		case <-time.After(wd):
			return false
		}
	}
	bad := func(msg string) result {
		res.direct = msg
		return res
	}
	retOf := func(err error) int {
		if err != nil {
			return 1
		}
		return 0
	}
	sendAck := func(aliases [][2]int, results [][2]int) string {
		ack := &message.UpstreamChunkAck{StreamIDAlias: 1, DataIDAliases: map[uint32]*message.DataID{}}
		var newAliases []uint32
		cur := up.State().DataIDAliases
		e.mu.Lock()
		for _, ai := range aliases {
			ack.DataIDAliases[uint32(ai[0])] = e.did(ai[1])
			e.aliasTbl[uint32(ai[0])] = ai[1]
			has := false
			for _, d := range cur {
				if *d == *e.did(ai[1]) {
					has = true
				}
			}
			if !has {
				newAliases = append(newAliases, uint32(ai[0]))
			}
		}
		before := len(e.ackHook)
		e.mu.Unlock()
		var waitRemoved []uint32
		for _, rc := range results {
			ack.Results = append(ack.Results, &message.UpstreamChunkResult{SequenceNumber: uint32(rc[0]), ResultCode: message.ResultCode(rc[1])})
			if outstanding[uint32(rc[0])] {
				waitRemoved = append(waitRemoved, uint32(rc[0]))
			}
		}
		if err := sess.Send(ack); err != nil {
			return "harness: broker could not send ack: " + err.Error()
		}
		ok := broker.WaitFor(wd, func() bool {
			e.mu.Lock()
			n := len(e.ackHook)
			e.mu.Unlock()
			if n < before+len(results) {
				return false
			}
			if len(newAliases) > 0 {
				cur := up.State().DataIDAliases
				for _, a := range newAliases {
					if _, ok := cur[a]; !ok {
						return false
					}
				}
			}
			if len(waitRemoved) > 0 {
				m, _ := st.List(context.Background(), e.streamID)
				for _, s := range waitRemoved {
					if _, still := m[s]; still {
						return false
					}
				}
			}
			return true
		})
		if !ok {
			return fmt.Sprintf("ack not fully processed within %v (results %v, aliases %v): ack hook, alias table or sent storage not updated", wd, results, aliases)
		}
		for _, s := range waitRemoved {
			delete(outstanding, s)
		}
		acked += len(results)
		return ""
	}
	aliasesTerm := func(a [][2]int) string {
		var s []string
		for _, x := range a {
			s = append(s, fmt.Sprintf("(%d,%d)", x[0], x[1]))
		}
		return coqfmt.List(s)
	}

	sequential := c.Writers == 0
	if !sequential {
		// ---- concurrent mode: writers own disjoint data ids; a flusher; Close races with them.
		e.mu.Lock()
		e.autoAck = true
		e.aliasOnAck = c.QoS%2 == 0
		e.nextAlias = 100
		e.mu.Unlock()
		type wr struct {
			term string
			ret  int
		}
		perWriter := make([][]wr, c.Writers)
		var wg sync.WaitGroup
		var el sync.Mutex
		stop := make(chan struct{})
		nw := 6 + r.Intn(10)
		seeds := make([]uint64, c.Writers)
		for i := range seeds {
			seeds[i] = r.U64()
		}
		blockedW := make(chan string, 16)
		for w := 0; w < c.Writers; w++ {
			wg.Add(1)
			go func(w int) {
				defer wg.Done()
				rr := rng.New(seeds[w])
				for k := 0; k < nw; k++ {
					id := (w+1)*10 + 1 + rr.Intn(2)
					np := 1 + rr.Intn(2)
					var dps []*message.DataPoint
					var pts []ptT
					el.Lock()
					for j := 0; j < np; j++ {
						elapsed++
						p := &message.DataPoint{ElapsedTime: time.Duration(elOf(c.ElMode, elapsed, rr)), Payload: rr.Bytes(rr.Intn(6))}
						dps = append(dps, p)
						pts = append(pts, ptOf(p))
					}
					e.mu.Lock()
					did := e.did(id)
					e.mu.Unlock()
					el.Unlock()
					err, blocked := call("write", func() error {
						ctx, cancel := context.WithTimeout(context.Background(), wd)
						defer cancel()
						return up.WriteDataPoints(ctx, did, dps...)
					})
					if blocked {
						blockedW <- "WriteDataPoints did not return within the watchdog (concurrent mode)"
						return
					}
					perWriter[w] = append(perWriter[w], wr{fmt.Sprintf("Write %d %s", id, ptsTerm(pts)), retOf(err)})
					if rr.Chance(1, 3) {
						time.Sleep(time.Duration(rr.Intn(300)) * time.Microsecond)
					}
				}
			}(w)
		}
		wg.Add(1)
		go func() {
			defer wg.Done()
			rr := rng.New(r.U64())
			for k := 0; k < 3; k++ {
				select {
				case <-stop:
					return
				case <-time.After(time.Duration(rr.Intn(500)) * time.Microsecond):
				}
				ctx, cancel := context.WithTimeout(context.Background(), wd)
				up.Flush(ctx)
				cancel()
			}
		}()
		time.Sleep(time.Duration(r.Intn(1500)) * time.Microsecond)
		cerr, cblocked := call("close", func() error {
			ctx, cancel := context.WithTimeout(context.Background(), wd)
			defer cancel()
			return up.Close(ctx)
		})
		close(stop)
		wg.Wait()
		select {
		case m := <-blockedW:
			return bad(m)
		default:
		}
		if cblocked {
			return bad("Upstream.Close did not return within the watchdog (concurrent mode, every chunk acknowledged at once)")
		}
		sn := e.snapshot(up)
		for _, ws := range perWriter {
			for _, x := range ws {
				emit(x.term, x.ret, sn)
			}
		}
		time.Sleep(3 * time.Millisecond) // let the last acknowledgements be sent
		e.mu.Lock()
		aa := append([][2]int(nil), e.autoAcked...)
		al := append([][][2]int(nil), e.autoAliases...)
		e.mu.Unlock()
		for i, a := range aa {
			if i < len(al) {
				emit("Alias "+aliasesTerm(al[i]), 0, sn)
			}
			emit("Results "+aliasesTerm([][2]int{a}), 0, sn)
		}
		acked = len(aa)
		emit("Close", retOf(cerr), sn)
	} else {
	closed := false
	// all points of a case live in one backing array and every write passes a window of it with
	// spare capacity, as a caller slicing one batch would
	npts := 1024
	for _, op := range c.Ops {
		npts += len(op.Lens) + op.N
	}
	backing := make([]*message.DataPoint, 0, npts)
	for _, op := range c.Ops {
		if lost != "" {
			return bad(lost)
		}
		switch op.Op {
		case "write":
			var pts []ptT
			start := len(backing)
			for _, ln := range op.Lens {
				elapsed++
				p := &message.DataPoint{ElapsedTime: time.Duration(elOf(c.ElMode, elapsed, r)), Payload: r.Bytes(ln)}
				backing = append(backing, p)
				pts = append(pts, ptOf(p))
			}
			if op.N > 0 {
				zero := make([]byte, op.Len) // one shared all-zero payload: same digest for the whole run
				pt0 := ptOf(&message.DataPoint{Payload: zero})
				for k := 0; k < op.N; k++ {
					elapsed++
					backing = append(backing, &message.DataPoint{ElapsedTime: time.Duration(elapsed), Payload: zero})
					pts = append(pts, ptT{elapsed, pt0.dig, pt0.ln})
				}
			}
			dps := backing[start:len(backing)]
			e.mu.Lock()
			did := e.did(op.ID)
			e.mu.Unlock()
			err, blocked := call("write", func() error {
				ctx, cancel := context.WithTimeout(context.Background(), wd)
				defer cancel()
				return up.WriteDataPoints(ctx, did, dps...)
			})
			if blocked {
				return bad("WriteDataPoints did not return within the watchdog")
			}
			if err == nil {
				select {
				case f := <-pol.isFlush:
					if f {
						if !waitStored() {
							// validateState may have refused; fall through to the snapshot
						}
					}
				case <-time.After(wd):
					return bad("accepted write was never appended to the buffer (no IsFlush call within the watchdog)")
				}
			}
			emit(fmt.Sprintf("Write %d %s", op.ID, ptsTerm(pts)), retOf(err), e.snapshot(up))
		case "tick":
			for i := 0; i < 2; i++ {
				select {
				case pol.tick <- time.Now():
				case <-time.After(wd):
					if !closed {
						return bad("flush loop did not take a tick within the watchdog")
					}
				}
			}
			drainStored()
			sn := e.snapshot(up)
			emit("Tick", 0, sn)
			emit("Tick", 0, sn)
		case "flushc":
			// Flush calls whose context is already cancelled (the flush loop may or may not pick the
			// request up), then two ticks as a barrier with the flush loop; equivalent to one Tick
			for i := 0; i < 1+len(op.Lens); i++ {
				_, blocked := call("flush-cancelled", func() error {
					ctx, cancel := context.WithCancel(context.Background())
					cancel()
					return up.Flush(ctx)
				})
				if blocked {
					return bad("Flush with a cancelled context did not return within the watchdog")
				}
			}
			for i := 0; i < 2; i++ {
				select {
				case pol.tick <- time.Now():
				case <-time.After(wd):
					if !closed {
						return bad("flush loop did not take a tick within the watchdog")
					}
				}
			}
			drainStored()
			sn := e.snapshot(up)
			emit("Tick", 0, sn)
			emit("Tick", 0, sn)
			emit("Tick", 0, sn)
		case "flush":
			err, blocked := call("flush", func() error {
				ctx, cancel := context.WithTimeout(context.Background(), wd)
				defer cancel()
				return up.Flush(ctx)
			})
			if blocked {
				return bad("Flush did not return within the watchdog")
			}
			drainStored()
			emit("Flush", retOf(err), e.snapshot(up))
		case "ack":
			drainStored()
			results := op.Results
			if op.RelSeq {
				// results refer to outstanding chunks by rank (oldest first); rank beyond = last issued + k
				var outs []int
				for s := range outstanding {
					outs = append(outs, int(s))
				}
				sort.Ints(outs)
				results = nil
				for _, rc := range op.Results {
					if rc[0] < len(outs) {
						results = append(results, [2]int{outs[rc[0]], rc[1]})
					} else {
						results = append(results, [2]int{int(up.State().LastIssuedSequenceNumber) + 1 + rc[0], rc[1]})
					}
				}
			}
			if msg := sendAck(op.Aliases, results); msg != "" {
				return bad(msg)
			}
			sn := e.snapshot(up)
			emit("Alias "+aliasesTerm(op.Aliases), 0, sn)
			emit("Results "+aliasesTerm(results), 0, sn)
		case "close":
			drainStored()
			if !closed && len(outstanding) > 0 {
				var rs [][2]int
				for s := range outstanding {
					rs = append(rs, [2]int{int(s), int(message.ResultCodeSucceeded)})
				}
				sort.Slice(rs, func(i, j int) bool { return rs[i][0] < rs[j][0] })
				if msg := sendAck(nil, rs); msg != "" {
					return bad(msg)
				}
				sn := e.snapshot(up)
				emit("Alias []", 0, sn)
				emit("Results "+aliasesTerm(rs), 0, sn)
			}
			e.mu.Lock()
			e.autoAck = true
			e.mu.Unlock()
			err, blocked := call("close", func() error {
				ctx, cancel := context.WithTimeout(context.Background(), wd)
				defer cancel()
				return up.Close(ctx)
			})
			if blocked {
				return bad("Upstream.Close did not return within the watchdog although every chunk was acknowledged")
			}
			closed = true
			sn := e.snapshot(up)
			emit("Close", retOf(err), sn)
			e.mu.Lock()
			aa := e.autoAcked
			e.autoAcked = nil
			e.mu.Unlock()
			if len(aa) > 0 {
				emit("Results "+aliasesTerm(aa), 0, sn)
				acked += len(aa)
			}
		}
	}
	}
	// hooks are delivered asynchronously: wait until they are all in (bounded)
	broker.WaitFor(500*time.Millisecond, func() bool {
		e.mu.Lock()
		defer e.mu.Unlock()
		return len(e.sendHook) >= len(e.chunks)+len(failedSeqs) && len(e.ackHook) >= acked
	})
	time.Sleep(2 * time.Millisecond)

	e.mu.Lock()
	defer e.mu.Unlock()
	var seqs []int
	for s := range e.chunks {
		seqs = append(seqs, int(s))
	}
	sort.Ints(seqs)
	var chunksT []string
	after := false
	idset := map[int]bool{}
	for _, s := range seqs {
		co := e.chunks[uint32(s)]
		var ids []string
		for _, i := range co.ids {
			ids = append(ids, fmt.Sprint(i))
		}
		chunksT = append(chunksT, fmt.Sprintf("(%d,%s,%s)", co.seq, wgroupsTerm(co.groups), coqfmt.List(ids)))
		if e.closePos >= 0 && co.pos > e.closePos {
			after = true
		}
		for _, g := range co.groups {
			idset[g.id] = true
			if g.isAlias {
				res.aliasUse = true
			}
		}
	}
	if e.dupSeq {
		res.direct = "two chunks with the same sequence number reached the broker"
	}
	sort.SliceStable(e.sendHook, func(i, j int) bool { return e.sendHook[i].seq < e.sendHook[j].seq })
	var shT []string
	for _, h := range e.sendHook {
		shT = append(shT, fmt.Sprintf("(%d,%s)", h.seq, groupsTerm(h.g)))
	}
	var ahT, clT, rev0T []string
	for _, h := range e.ackHook {
		ahT = append(ahT, fmt.Sprintf("(%d,%d)", h[0], h[1]))
	}
	for _, c := range e.closeReq {
		clT = append(clT, fmt.Sprintf("(%d,%d)", c[0], c[1]))
	}
	for _, ia := range c.Rev0 {
		rev0T = append(rev0T, fmt.Sprintf("(%d,%d)", ia[0], ia[1]))
	}
	polT := map[string]string{"none": "PNone", "interval": "PInterval", "size": fmt.Sprintf("(PSize %d)", c.Thresh),
		"intervalorsize": fmt.Sprintf("(PIntervalOrSize %d)", c.Thresh), "immediate": "PImmediate"}[c.Policy]
	res.term = fmt.Sprintf("mkUpCase %s %s %s %s %s %s %s %s %s %s "+coqfmt.Bool(sequential), polT, coqfmt.List(rev0T), coqfmt.List(opsT),
		coqfmt.List(retsT), coqfmt.List(snapsT), coqfmt.List(chunksT), coqfmt.List(shT), coqfmt.List(ahT), coqfmt.List(clT), coqfmt.Bool(after))
	if len(c.StoreFail) > 0 {
		sort.Ints(failedSeqs)
		var fin, fobs []string
		ks := append([]int(nil), c.StoreFail...)
		sort.Ints(ks)
		for _, k := range ks {
			fin = append(fin, fmt.Sprint(k))
		}
		for _, k := range failedSeqs {
			fobs = append(fobs, fmt.Sprint(k))
		}
		res.sf = fmt.Sprintf("SF (mkSfCase %s %s (%s))", coqfmt.List(fin), coqfmt.List(fobs), res.term)
	}
	res.nchunks = len(seqs)
	res.nids = len(idset)
	res.observed = map[string]interface{}{"store_failed_seqs": failedSeqs, "chunks": len(seqs), "close": e.closeReq, "sendhooks": len(e.sendHook), "ackhooks": len(e.ackHook), "chunk_after_close": after}
	return
}

// ---------------------------------------------------------------- generators

func genCase(r *rng.R) *caseIn {
	c := &caseIn{Policy: []string{"none", "interval", "size", "intervalorsize", "immediate"}[r.Intn(5)], QoS: r.Intn(3)}
	c.Thresh = []int{0, 1, 8, 20, 64}[r.Intn(5)]
	nids := 1 + r.Intn(5)
	nextAlias := 1
	aliased := map[int]bool{}
	if r.Chance(1, 4) {
		for id := 1; id <= nids; id++ {
			if r.Chance(1, 3) {
				c.Rev0 = append(c.Rev0, [2]int{id, nextAlias})
				aliased[id] = true
				nextAlias++
			}
		}
	}
	c.ElMode = []int{0, 1, 1, 2, 3, 3}[r.Intn(6)]
	nops := 3 + r.Intn(14)
	ackStyle := r.Intn(4) // 0 none until close, 1 eager, 2 batched/reordered, 3 with duplicates and failures
	for i := 0; i < nops; i++ {
		k := r.Intn(10)
		switch {
		case k < 6:
			op := opIn{Op: "write", ID: 1 + r.Intn(nids)}
			np := []int{0, 1, 1, 1, 2, 3}[r.Intn(6)]
			for j := 0; j < np; j++ {
				ln := []int{0, 1, 3, c.Thresh, c.Thresh + 1, 7}[r.Intn(6)]
				op.Lens = append(op.Lens, ln)
			}
			c.Ops = append(c.Ops, op)
		case k < 8:
			if r.Chance(1, 5) {
				c.Ops = append(c.Ops, opIn{Op: "flushc", Lens: make([]int, r.Intn(3))})
			} else {
				c.Ops = append(c.Ops, opIn{Op: "flush"})
			}
		case k < 9 && (c.Policy == "interval" || c.Policy == "intervalorsize"):
			c.Ops = append(c.Ops, opIn{Op: "tick"})
		default:
			if ackStyle == 0 {
				continue
			}
			op := opIn{Op: "ack", RelSeq: true}
			n := 1 + r.Intn(3)
			perm := r.Perm(3)
			for j := 0; j < n; j++ {
				rank := j
				if ackStyle >= 2 {
					rank = perm[j]
				}
				code := int(message.ResultCodeSucceeded)
				if ackStyle == 3 && r.Chance(1, 4) {
					code = int(message.ResultCodeInvalidPayload)
				}
				op.Results = append(op.Results, [2]int{rank, code})
				if ackStyle == 3 && r.Chance(1, 5) {
					op.Results = append(op.Results, [2]int{rank, code}) // duplicated result
				}
			}
			if r.Chance(1, 2) {
				for id := 1; id <= nids; id++ {
					if !aliased[id] && r.Chance(1, 2) {
						op.Aliases = append(op.Aliases, [2]int{nextAlias, id})
						aliased[id] = true
						nextAlias++
					}
				}
			}
			c.Ops = append(c.Ops, op)
		}
	}
	if r.Chance(9, 10) {
		c.Ops = append(c.Ops, opIn{Op: "close"})
		if r.Chance(1, 4) {
			c.Ops = append(c.Ops, opIn{Op: "write", ID: 1, Lens: []int{1}})
			c.Ops = append(c.Ops, opIn{Op: "flush"})
		}
	}
	return c
}

func genConcurrent(r *rng.R) *caseIn {
	return &caseIn{Policy: []string{"interval", "size", "intervalorsize", "immediate"}[r.Intn(4)], Thresh: []int{4, 12, 40}[r.Intn(3)],
		QoS: r.Intn(3), Writers: 2 + r.Intn(3), ElMode: r.Intn(4)}
}

// all op sequences of length n over a small alphabet, per policy
func genExhaustive(n int, add func(*caseIn, string)) {
	exCount := 0
	alpha := []opIn{
		{Op: "write", ID: 1, Lens: []int{3}},
		{Op: "write", ID: 2, Lens: []int{0, 6}},
		{Op: "write", ID: 1, Lens: nil},
		{Op: "flush"},
		{Op: "ack", RelSeq: true, Results: [][2]int{{0, int(message.ResultCodeSucceeded)}}, Aliases: [][2]int{{7, 1}}},
	}
	for _, pol := range []string{"none", "size", "immediate", "interval"} {
		a := alpha
		if pol == "interval" {
			a = append(append([]opIn(nil), alpha...), opIn{Op: "tick"})
		}
		idx := make([]int, n)
		for {
			c := &caseIn{Policy: pol, Thresh: 4, QoS: 1, ElMode: exCount % 4}
			exCount++
			for _, i := range idx {
				c.Ops = append(c.Ops, a[i])
			}
			c.Ops = append(c.Ops, opIn{Op: "close"})
			add(c, "exhaustive-"+pol)
			k := n - 1
			for k >= 0 {
				idx[k]++
				if idx[k] < len(a) {
					break
				}
				idx[k] = 0
				k--
			}
			if k < 0 {
				break
			}
		}
	}
}

// sequential histories with failing Store calls: the k-th cut's Store returns an error (once each)
func genStoreFail(r *rng.R) *caseIn {
	c := genCase(r)
	ks := []int{1 + r.Intn(3)}
	if r.Chance(1, 3) {
		ks = append(ks, ks[0]+1+r.Intn(2))
	}
	c.StoreFail = ks
	// make sure there is something after the failure: more writes, a Flush and a Close
	tail := []opIn{{Op: "write", ID: 1, Lens: []int{c.Thresh + 1}}, {Op: "flush"}, {Op: "write", ID: 2, Lens: []int{1, 2}}, {Op: "flush"}, {Op: "close"}}
	var ops []opIn
	for _, op := range c.Ops {
		if op.Op == "close" {
			break
		}
		ops = append(ops, op)
	}
	c.Ops = append(ops, tail...)
	return c
}

// big-backlog histories: 5000-9000 points buffered without a cut under a policy that must not cut
func genBacklog(r *rng.R, allShapes bool) []*caseIn {
	type pc struct {
		pol    string
		thresh int
		ln     int
	}
	pcs := []pc{{"none", 0, 0}, {"none", 0, 1}, {"size", 20000, 1}, {"size", 64, 0}, {"interval", 0, 1}, {"intervalorsize", 20000, 1}}
	var out []*caseIn
	for xi, x := range pcs {
		for shape := 0; shape < 3; shape++ {
			if shape == 1 && !allShapes && xi != 0 && xi != 2 {
				continue // the many-small-writes shape is the expensive one to judge (a snapshot per write)
			}
			c := &caseIn{Policy: x.pol, Thresh: x.thresh, QoS: r.Intn(3)}
			switch shape {
			case 0: // one huge write, then a small one
				c.Ops = append(c.Ops, opIn{Op: "write", ID: 1, N: 5000 + r.Intn(4000), Len: x.ln})
				c.Ops = append(c.Ops, opIn{Op: "write", ID: 2, N: 7, Len: x.ln})
			case 1: // many small writes to one id
				w, k := 110+r.Intn(40), 40+r.Intn(10)
				for i := 0; i < w; i++ {
					c.Ops = append(c.Ops, opIn{Op: "write", ID: 1, N: k, Len: x.ln})
				}
			case 2: // a few huge writes of 5000 points to two ids (5000 one-byte points stay below 20000 bytes... two do not)
				c.Ops = append(c.Ops, opIn{Op: "write", ID: 1, N: 5000, Len: x.ln})
				if x.thresh == 0 || x.ln == 0 {
					c.Ops = append(c.Ops, opIn{Op: "write", ID: 2, N: 5000, Len: x.ln})
				} else {
					c.Ops = append(c.Ops, opIn{Op: "write", ID: 2, N: 4000, Len: x.ln})
				}
			}
			if x.pol == "interval" || x.pol == "intervalorsize" {
				c.Ops = append(c.Ops, opIn{Op: "tick"})
				c.Ops = append(c.Ops, opIn{Op: "write", ID: 1, N: 4200, Len: x.ln})
			}
			c.Ops = append(c.Ops, opIn{Op: "flush"}, opIn{Op: "write", ID: 1, Lens: []int{1}}, opIn{Op: "close"})
			out = append(out, c)
		}
	}
	return out
}

func main() {
	seed := flag.Uint64("seed", 1, "seed")
	tier := flag.String("tier", "quick", "quick|thorough")
	out := flag.String("out", "", "output directory")
	replay := flag.String("replay", "", "replay file")
	only := flag.String("only", "", "rt = only the real-time family")
	flag.Parse()
	w := coqfmt.NewWriter(*out, "C01", "From Iscp Require Import Model.Upstream.", "upx_case", "upx_judge", 120)
	r := rng.New(*seed)
	var mu sync.Mutex
	type job struct {
		c    *caseIn
		kind string
		seed uint64
	}
	var jobs []job
	add := func(c *caseIn, kind string) { jobs = append(jobs, job{c, kind, r.U64()}) }

	if *replay != "" {
		b, err := os.ReadFile(*replay)
		if err != nil {
			fmt.Fprintln(os.Stderr, err)
			os.Exit(2)
		}
		var rf struct {
			Input    caseIn `json:"input"`
			CaseSeed uint64 `json:"case_seed"`
		}
		if err := json.Unmarshal(b, &rf); err != nil {
			fmt.Fprintln(os.Stderr, err)
			os.Exit(2)
		}
		jobs = append(jobs, job{&rf.Input, "replay", rf.CaseSeed})
	} else if *only == "rt" {
		for _, c := range genRT(r.Fork(), *tier) {
			add(&caseIn{Policy: "rt-" + c.Mode, RT: c}, "rt-interval")
		}
	} else {
		exn := 3
		nrand := 500
		if *tier == "thorough" {
			exn = 4
			nrand = 6000
		}
		genExhaustive(exn, add)
		for i := 0; i < nrand; i++ {
			add(genCase(r.Fork()), "random")
		}
		nconc := 150
		if *tier == "thorough" {
			nconc = 2000
		}
		for i := 0; i < nconc; i++ {
			add(genConcurrent(r.Fork()), "concurrent")
		}
		// Store failures: every op sequence of length 2 per policy with the 1st / 2nd Store failing, and random ones
		for _, k := range []int{1, 2} {
			k := k
			genExhaustive(2, func(c *caseIn, kind string) {
				c.StoreFail = []int{k}
				c.Ops = append(c.Ops[:len(c.Ops)-1], opIn{Op: "write", ID: 2, Lens: []int{0, 6}}, opIn{Op: "flush"}, opIn{Op: "write", ID: 1, Lens: []int{3}}, opIn{Op: "flush"}, opIn{Op: "close"})
				add(c, "storefail")
			})
		}
		nsf := 250
		if *tier == "thorough" {
			nsf = 2500
		}
		for i := 0; i < nsf; i++ {
			add(genStoreFail(r.Fork()), "storefail")
		}
		nbl := 1
		if *tier == "thorough" {
			nbl = 4
		}
		for i := 0; i < nbl; i++ {
			for _, c := range genBacklog(r.Fork(), *tier == "thorough") {
				add(c, "backlog")
			}
		}
		for _, c := range genFlushers(r.Fork(), *tier) {
			add(&caseIn{Policy: "fl-" + c.Policy, FL: c}, "flushers")
		}
		// real-time family last: it forks the generator after every event-history case was drawn
		for _, c := range genRT(r.Fork(), *tier) {
			add(&caseIn{Policy: "rt-" + c.Mode, RT: c}, "rt-interval")
		}
	}
	results := make([]coqfmt.Case, len(jobs))
	sem := make(chan struct{}, 8)
	var wg sync.WaitGroup
	for i, j := range jobs {
		if j.c.RT != nil {
			continue
		}
		wg.Add(1)
		sem <- struct{}{}
		go func(i int, j job) {
			defer wg.Done()
			defer func() { <-sem }()
			if j.c.FL != nil {
				term, obs, direct, anomalies := runFlushers(j.c.FL, rng.New(j.seed))
				if strings.HasPrefix(direct, "harness:") {
					fmt.Fprintln(os.Stderr, direct)
					os.Exit(3)
				}
				if term == "" {
					term = "FL (mkFlCase PNone 0 0 0 [] [] [] false)"
				}
				mu.Lock()
				results[i] = coqfmt.Case{Term: term, Input: j.c, Observed: obs, Seed: j.seed, Nontrivial: anomalies == 0 && direct == "", Kind: j.kind, Direct: direct}
				mu.Unlock()
				return
			}
			res := runCase(j.c, rng.New(j.seed))
			nt := res.nchunks >= 2 && res.nids >= 2 && res.aliasUse
			cs := coqfmt.Case{Term: "UC (" + res.term + ")", Input: j.c, Observed: res.observed, Seed: j.seed, Nontrivial: nt, Kind: j.kind, Direct: res.direct}
			if res.direct != "" && strings.HasPrefix(res.direct, "harness:") {
				fmt.Fprintln(os.Stderr, res.direct)
				os.Exit(3)
			}
			if res.term == "" {
				cs.Term = "UC (mkUpCase PNone [] [] [] [] [] [] [] [] false false)"
			} else if res.sf != "" {
				cs.Term = res.sf
			}
			mu.Lock()
			results[i] = cs
			mu.Unlock()
		}(i, j)
	}
	wg.Wait()
	// real-time family: after the event-history cases (no competition for the cores), 16 at a time,
	// except the cases that use the library's package-level DEFAULT policy object: that object is
	// shared by every default-policy stream of the PROCESS, so these run one after the other (else
	// state a change hangs on the object would be smeared over unrelated cases and hidden);
	// a miss is then re-run ALONE up to 3 times and kept only if it misses every time
	rtFirst := map[int]rtRes{}
	rsem := make(chan struct{}, 16)
	t0rt := time.Now()
	runOne := func(i int, j job) {
		res := runRT(j.c.RT, rng.New(j.seed))
		mu.Lock()
		rtFirst[i] = res
		mu.Unlock()
	}
	wg.Add(1)
	go func() {
		defer wg.Done()
		for i, j := range jobs {
			if j.c.RT != nil && j.c.RT.Mode == "default" {
				runOne(i, j)
			}
		}
	}()
	for i, j := range jobs {
		if j.c.RT == nil || j.c.RT.Mode == "default" {
			continue
		}
		wg.Add(1)
		rsem <- struct{}{}
		go func(i int, j job) {
			defer wg.Done()
			defer func() { <-rsem }()
			runOne(i, j)
		}(i, j)
	}
	wg.Wait()
	rtRetried := 0
	for i, j := range jobs {
		if j.c.RT == nil {
			continue
		}
		res := rtFirst[i]
		if res.miss {
			rtRetried++
		}
		res = runRTRetry(j.c.RT, j.seed, res, func(f func()) { f() })
		if strings.HasPrefix(res.direct, "harness:") {
			fmt.Fprintln(os.Stderr, res.direct)
			os.Exit(3)
		}
		cs := coqfmt.Case{Term: res.term, Input: j.c, Observed: res.observed, Seed: j.seed, Kind: j.kind, Direct: res.direct,
			Nontrivial: j.c.RT.Streams >= 2 && j.c.RT.Neighbour != "none" && !res.miss}
		if res.term == "" {
			cs.Term = "RT (mkRtCase 0 0 [] false [] [] [])"
		}
		results[i] = cs
	}
	rtWall := time.Since(t0rt)
	for i, cs := range results {
		w.Add(cs)
		w.Count("policy:" + jobs[i].c.Policy)
		w.Count(fmt.Sprintf("ops:%d", len(jobs[i].c.Ops)/4*4))
	}
	rule := "exhaustive: every op sequence of fixed length over {write id1, write id2 (0-byte and 6-byte point), zero-point write, flush, ack oldest outstanding + alias, tick} per policy, then close; random: 3-16 ops over 1-5 data ids, 0-3 points per write with payload lengths straddling the size threshold, policies none/interval/size/interval-or-size/immediate, QoS x3, ack styles none/eager/reordered/duplicated+failure codes, aliases handed out in the open response and mid-stream, ops after close; elapsed times of successive points increasing, random with duplicates and negative values, decreasing or sawtooth (ElMode), so per-data-id WRITE order differs from elapsed-time order in about 2/3 of the cases. non-trivial = >=2 chunks, >=2 data ids and at least one group transmitted in alias form; distinct = distinct Coq case terms"
	rule += "; storefail: the same histories with the k-th sentStorage.Store call (k in 1..5, one or two of them) returning an error once, followed by more writes, Flush and Close, every policy; backlog: 4200-9000 zero/one-byte points buffered without a cut under none, size (threshold never exceeded), interval-only between ticks, as one huge write, 110-150 writes of 40-50 points, or two huge writes to two ids"
	rule += "; flushers: 4-8 goroutines each with its own data id looping {write 1-2 points; Flush; State()} for 300 rounds (600 thorough) on one upstream under none / 1 MiB size / 1 h interval policies (only Flush cuts); every round judged: after a nil Flush no own-id point buffered and every own-id point accepted before in a chunk with sequence number <= the snapshot's last issued one; the Coq case shows the last three rounds of the first anomalous goroutine (else goroutine 1)"
	rule += "; rt-interval (real clock, no policy wrapper): 1-3 streams on one connection opened with no flush-policy option (the library's shared default object, 100 ms / 10000 B), IntervalOnly(d) or IntervalOrBufferSize(d,64), d in {20,50} ms, private or one shared policy object; a neighbour cuts by size every 2-5 ms, is closed, or all streams resume after a link cut; 2 small writes per stream under test at random phases; each must reach the broker within interval+slack ms (a miss is re-run alone 3 times); non-trivial = >=2 streams with a neighbour action and no miss"
	extra := map[string]interface{}{"rt_wall_ms": rtWall.Milliseconds(), "rt_first_pass_misses_retried": rtRetried}
	if err := w.Flush(*seed, *tier, rule, false, extra); err != nil {
		fmt.Fprintln(os.Stderr, err)
		os.Exit(2)
	}
}

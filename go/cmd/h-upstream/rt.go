// Real-time family of h-upstream (kind rt-interval).
//
// The event-history cases in main.go inject a FlushPolicy wrapper that owns the ticker channel, so
// the library's real time.Ticker and its real - possibly SHARED - policy objects are never run.
// The cases here use no wrapper at all: streams are opened (a) with NO flush-policy option (every
// such stream gets the one package-level default object of upstream_options.go: 100 ms / 10000
// bytes), (b) with WithUpstreamFlushPolicyIntervalOnly(d), (c) with
// WithUpstreamFlushPolicyIntervalOrBufferSize(d, n) - a private object per stream or ONE object
// handed to every stream - one, two and three streams on one connection.  A neighbour meanwhile
// cuts by size faster than the interval, is closed, or everybody resumes after a link cut; the
// streams under test get small writes, and each small write's chunk must reach the broker within
// interval + slack on the wall clock.  Judged by rt_ok in Model/Upstream.v (bit 4 = C20).
package main

import (
	"context"
	"errors"
	"fmt"
	"sync"
	"sync/atomic"
	"time"

	"github.com/aptpod/iscp-go/iscp"
	"github.com/aptpod/iscp-go/message"
	"github.com/aptpod/iscp-go/transport"
	uuid "github.com/google/uuid"

	"verif/internal/broker"
	"verif/internal/coqfmt"
	"verif/internal/memtr"
	"verif/internal/rng"
)

const (
	rtDefaultIntervalMs = 100    // iscp/upstream.go defaultFlushInterval
	rtDefaultThresh     = 10_000 // iscp/upstream.go defaultFlushBufferSize
	rtSmallBase         = 1_000_000
)

type rtIn struct {
	Mode       string `json:"mode"`        // default | interval | intervalorsize
	IntervalMs int    `json:"interval_ms"` // default mode: the library's 100 ms
	Thresh     int    `json:"thresh"`      // default mode: the library's 10000 bytes; interval mode: size of the neighbour's writes only
	Streams    int    `json:"streams"`
	Shared     bool   `json:"shared"`    // one policy object for every stream (default mode: always, it is the package-level object)
	Neighbour  string `json:"neighbour"` // none | size | close | sever | sever-size
	Actor      int    `json:"actor"`     // the neighbour that pumps / is closed; every other stream is under test
	SlackMs    int    `json:"slack_ms"`
	Writes     int    `json:"writes"`   // small writes per stream under test
	PumpUs     int    `json:"pump_us"`  // the pumping neighbour writes thresh+1 bytes this often
	PhaseUs    []int  `json:"phase_us"` // pause before each small write (phase against the ticker)
	SmallLen   int    `json:"small_len"`
}

type rtSmall struct {
	stream  int
	id      uint64
	t1      time.Time // WriteDataPoints returned nil
	refused string
}

type rtBroker struct {
	mu       sync.Mutex
	b        *broker.Broker
	n        int
	ids      []uuid.UUID
	idxOfID  map[uuid.UUID]int
	idxOf    map[uint32]int // stream alias -> stream index
	seen     map[[2]uint32]bool
	arrived  []uint64
	smallAt  map[[2]uint64]time.Time
	smallSeq map[[2]uint64]uint32
	closeTot [][]uint64
	resumes  int
	gateOpen atomic.Bool
}

func newRTBroker(n int) *rtBroker {
	m := &rtBroker{n: n, ids: make([]uuid.UUID, n), idxOfID: map[uuid.UUID]int{}, idxOf: map[uint32]int{}, seen: map[[2]uint32]bool{},
		arrived: make([]uint64, n), smallAt: map[[2]uint64]time.Time{}, smallSeq: map[[2]uint64]uint32{}, closeTot: make([][]uint64, n)}
	for i := range m.ids {
		m.ids[i] = uuid.New()
		m.idxOfID[m.ids[i]] = i
	}
	m.gateOpen.Store(true)
	m.b = broker.New(func(s *broker.Session, msg message.Message) {
		switch v := msg.(type) {
		case *message.ConnectRequest:
			broker.AcceptConnect(s, v)
		case *message.UpstreamOpenRequest:
			var k int
			fmt.Sscanf(v.SessionID, "s%d", &k)
			if k < 0 || k >= n {
				k = 0
			}
			m.mu.Lock()
			alias := uint32(k + 1)
			m.idxOf[alias] = k
			id := m.ids[k]
			m.mu.Unlock()
			s.Send(&message.UpstreamOpenResponse{RequestID: v.RequestID, AssignedStreamID: id, AssignedStreamIDAlias: alias,
				ResultCode: message.ResultCodeSucceeded, ServerTime: time.Unix(1700000000, 0)})
		case *message.UpstreamResumeRequest:
			m.mu.Lock()
			k, ok := m.idxOfID[v.StreamID]
			m.resumes++
			alias := uint32(100 + m.resumes)
			if ok {
				m.idxOf[alias] = k
			}
			m.mu.Unlock()
			if !ok {
				s.Send(&message.UpstreamResumeResponse{RequestID: v.RequestID, ResultCode: message.ResultCodeStreamNotFound})
				return
			}
			s.Send(&message.UpstreamResumeResponse{RequestID: v.RequestID, AssignedStreamIDAlias: alias, ResultCode: message.ResultCodeSucceeded})
		case *message.UpstreamChunk:
			at := time.Now()
			m.mu.Lock()
			k, ok := m.idxOf[v.StreamIDAlias]
			if ok && !m.seen[[2]uint32{uint32(k), v.StreamChunk.SequenceNumber}] {
				m.seen[[2]uint32{uint32(k), v.StreamChunk.SequenceNumber}] = true
				for _, g := range v.StreamChunk.DataPointGroups {
					m.arrived[k] += uint64(len(g.DataPoints))
					for _, p := range g.DataPoints {
						if el := uint64(p.ElapsedTime); el >= rtSmallBase {
							key := [2]uint64{uint64(k), el}
							if _, dup := m.smallAt[key]; !dup {
								m.smallAt[key] = at
								m.smallSeq[key] = v.StreamChunk.SequenceNumber
							}
						}
					}
				}
			}
			m.mu.Unlock()
			s.Send(&message.UpstreamChunkAck{StreamIDAlias: v.StreamIDAlias, Results: []*message.UpstreamChunkResult{{SequenceNumber: v.StreamChunk.SequenceNumber, ResultCode: message.ResultCodeSucceeded}}})
		case *message.UpstreamCloseRequest:
			m.mu.Lock()
			if k, ok := m.idxOfID[v.StreamID]; ok {
				m.closeTot[k] = append(m.closeTot[k], v.TotalDataPoints)
			}
			m.mu.Unlock()
			s.Send(&message.UpstreamCloseResponse{RequestID: v.RequestID, ResultCode: message.ResultCodeSucceeded})
		}
	})
	m.b.OnDial = func(idx int, _ transport.DialConfig) error {
		if idx > 0 && !m.gateOpen.Load() {
			return errors.New("verif broker: dial refused")
		}
		return nil
	}
	return m
}

type rtRes struct {
	term     string
	observed map[string]interface{}
	direct   string
	miss     bool // some small write was held beyond the bound, not delivered, or totals differ
}

func rtList(xs []uint64) string {
	var s []string
	for _, x := range xs {
		s = append(s, fmt.Sprint(x))
	}
	return coqfmt.List(s)
}

func runRT(c *rtIn, r *rng.R) (res rtRes) {
	n := c.Streams
	m := newRTBroker(n)
	defer m.b.Release()
	fail := func(msg string) rtRes {
		res.direct = msg
		res.miss = true
		return res
	}
	var conn *iscp.Conn
	err, blocked := call("connect", func() error {
		var err error
		conn, err = iscp.Connect(m.b.Address, broker.TransportName, iscp.WithConnPingInterval(10*time.Millisecond), iscp.WithConnPingTimeout(2*time.Second))
		return err
	})
	if blocked || err != nil {
		return fail(fmt.Sprintf("harness: connect failed: %v blocked=%v", err, blocked))
	}
	defer func() {
		m.gateOpen.Store(false)
		ctx, cancel := context.WithTimeout(context.Background(), time.Second)
		go func() { defer cancel(); conn.Close(ctx) }()
	}()

	interval := time.Duration(c.IntervalMs) * time.Millisecond
	bound := interval + time.Duration(c.SlackMs)*time.Millisecond
	polOpt := func() []iscp.UpstreamOption {
		switch c.Mode {
		case "interval":
			return []iscp.UpstreamOption{iscp.WithUpstreamFlushPolicyIntervalOnly(interval)}
		case "intervalorsize":
			return []iscp.UpstreamOption{iscp.WithUpstreamFlushPolicyIntervalOrBufferSize(interval, uint32(c.Thresh))}
		}
		return nil // default: NO flush-policy option
	}
	var sharedOpt []iscp.UpstreamOption
	if c.Shared && c.Mode != "default" {
		var cfg iscp.UpstreamConfig
		for _, o := range polOpt() {
			o(&cfg)
		}
		sharedOpt = []iscp.UpstreamOption{iscp.WithUpstreamFlushPolicy(cfg.FlushPolicy)} // ONE object for every stream
	}
	ups := make([]*iscp.Upstream, n)
	for i := range ups {
		qos := []message.QoS{message.QoSReliable, message.QoSUnreliable}[i%2]
		opts := []iscp.UpstreamOption{iscp.WithUpstreamQoS(qos), iscp.WithUpstreamCloseTimeout(2 * time.Second)}
		if sharedOpt != nil {
			opts = append(opts, sharedOpt...)
		} else {
			opts = append(opts, polOpt()...)
		}
		i := i
		err, blocked := call("open", func() error {
			ctx, cancel := context.WithTimeout(context.Background(), wd)
			defer cancel()
			var err error
			ups[i], err = conn.OpenUpstream(ctx, fmt.Sprintf("s%d", i), opts...)
			return err
		})
		if blocked || err != nil {
			return fail(fmt.Sprintf("harness: open failed: %v blocked=%v", err, blocked))
		}
		time.Sleep(2 * time.Millisecond) // sequential opens: each flush loop starts after the previous one
	}
	sameObj := n > 1
	for i := 1; i < n; i++ {
		if ups[i].Config.FlushPolicy != ups[0].Config.FlushPolicy {
			sameObj = false
		}
	}

	accepted := make([]uint64, n)
	var accMu sync.Mutex
	did := &message.DataID{Name: "n1", Type: "t"}
	closedActor := false

	if c.Neighbour == "sever" || c.Neighbour == "sever-size" {
		// one outage that every stream resumes from
		m.gateOpen.Store(false)
		m.b.Current().Link.Sever(memtr.Loud)
		if !broker.WaitFor(wd, func() bool { return m.b.DialCount.Load() > 1 }) {
			return fail("the client never noticed the dead link (rt-interval)")
		}
		time.Sleep(3 * time.Millisecond)
		m.gateOpen.Store(true)
		if !broker.WaitFor(wd, func() bool { m.mu.Lock(); defer m.mu.Unlock(); return m.resumes >= n }) {
			m.mu.Lock()
			k := m.resumes
			m.mu.Unlock()
			return fail(fmt.Sprintf("only %d of %d upstreams sent a resume request after the redial (rt-interval)", k, n))
		}
		time.Sleep(15 * time.Millisecond)
	}
	if c.Neighbour == "close" {
		err, blocked := call("close-neighbour", func() error {
			ctx, cancel := context.WithTimeout(context.Background(), wd)
			defer cancel()
			return ups[c.Actor].Close(ctx)
		})
		if blocked {
			return fail("Upstream.Close of the neighbour did not return within the watchdog (rt-interval)")
		}
		if err != nil {
			return fail("harness: close of the neighbour failed: " + err.Error())
		}
		closedActor = true
		time.Sleep(5 * time.Millisecond)
	}
	stopPump := make(chan struct{})
	var pumpWG sync.WaitGroup
	pumpBlocked := make(chan string, 1)
	if c.Neighbour == "size" || c.Neighbour == "sever-size" {
		payload := r.Bytes(c.Thresh + 1) // one write exceeds the threshold: a size-triggered cut per write
		pumpWG.Add(1)
		go func() {
			defer pumpWG.Done()
			el := uint64(0)
			for {
				select {
				case <-stopPump:
					return
				default:
				}
				el++
				p := &message.DataPoint{ElapsedTime: time.Duration(el), Payload: payload}
				err, blocked := call("pump", func() error {
					ctx, cancel := context.WithTimeout(context.Background(), wd)
					defer cancel()
					return ups[c.Actor].WriteDataPoints(ctx, did, p)
				})
				if blocked {
					select {
					case pumpBlocked <- "WriteDataPoints of the pumping neighbour did not return within the watchdog (rt-interval)":
					default:
					}
					return
				}
				if err == nil {
					accMu.Lock()
					accepted[c.Actor]++
					accMu.Unlock()
				}
				select {
				case <-stopPump:
					return
				case <-time.After(time.Duration(c.PumpUs) * time.Microsecond):
				}
			}
		}()
		time.Sleep(time.Duration(3*c.PumpUs) * time.Microsecond)
	}

	// the streams under test: small writes, each awaited at the broker up to the bound
	var victims []int
	for i := 0; i < n; i++ {
		if c.Neighbour != "none" && c.Neighbour != "sever" && i == c.Actor {
			continue
		}
		victims = append(victims, i)
	}
	smalls := make([][]rtSmall, n)
	var vwg sync.WaitGroup
	vblocked := make(chan string, 8)
	for _, v := range victims {
		vwg.Add(1)
		go func(v int) {
			defer vwg.Done()
			for w := 0; w < c.Writes; w++ {
				ph := 0
				if len(c.PhaseUs) > 0 {
					ph = c.PhaseUs[(v*c.Writes+w)%len(c.PhaseUs)]
				}
				time.Sleep(time.Duration(ph) * time.Microsecond)
				id := uint64(rtSmallBase + v*1000 + w)
				p := &message.DataPoint{ElapsedTime: time.Duration(id), Payload: make([]byte, c.SmallLen)}
				err, blocked := call("small-write", func() error {
					ctx, cancel := context.WithTimeout(context.Background(), wd)
					defer cancel()
					return ups[v].WriteDataPoints(ctx, did, p)
				})
				t1 := time.Now()
				if blocked {
					select {
					case vblocked <- fmt.Sprintf("small WriteDataPoints to upstream %d did not return within the watchdog (rt-interval)", v):
					default:
					}
					return
				}
				sm := rtSmall{stream: v, id: id, t1: t1}
				if err != nil {
					sm.refused = err.Error()
					smalls[v] = append(smalls[v], sm)
					continue
				}
				accMu.Lock()
				accepted[v]++
				accMu.Unlock()
				smalls[v] = append(smalls[v], sm)
				key := [2]uint64{uint64(v), id}
				deadline := t1.Add(bound)
				for time.Now().Before(deadline) {
					m.mu.Lock()
					_, ok := m.smallAt[key]
					m.mu.Unlock()
					if ok {
						break
					}
					time.Sleep(200 * time.Microsecond)
				}
			}
		}(v)
	}
	vwg.Wait()
	close(stopPump)
	pumpWG.Wait()
	select {
	case msg := <-vblocked:
		return fail(msg)
	default:
	}
	select {
	case msg := <-pumpBlocked:
		return fail(msg)
	default:
	}

	// close every stream that is still open; Close flushes, so a held point arrives now at the latest
	closeRet := make([]string, n)
	var cwg sync.WaitGroup
	var closeBlocked atomic.Bool
	for i := range ups {
		if closedActor && i == c.Actor {
			closeRet[i] = "nil"
			continue
		}
		cwg.Add(1)
		go func(i int) {
			defer cwg.Done()
			err, blocked := call("close", func() error {
				ctx, cancel := context.WithTimeout(context.Background(), wd)
				defer cancel()
				return ups[i].Close(ctx)
			})
			if blocked {
				closeBlocked.Store(true)
				return
			}
			closeRet[i] = fmt.Sprint(err)
			if err == nil {
				closeRet[i] = "nil"
			}
		}(i)
	}
	cwg.Wait()
	if closeBlocked.Load() {
		return fail("Upstream.Close did not return within the watchdog although the broker acknowledges every chunk on reception (rt-interval)")
	}
	broker.WaitFor(300*time.Millisecond, func() bool {
		m.mu.Lock()
		defer m.mu.Unlock()
		for i := 0; i < n; i++ {
			if len(m.closeTot[i]) == 0 {
				return false
			}
		}
		return true
	})

	m.mu.Lock()
	defer m.mu.Unlock()
	var delays []uint64
	var delaysT []string
	var carried [][3]uint64
	delivered := true
	boundMs := uint64(c.IntervalMs + c.SlackMs)
	refused := ""
	for _, v := range victims {
		for _, sm := range smalls[v] {
			if sm.refused != "" {
				refused = fmt.Sprintf("small write to upstream %d was refused: %s", v, sm.refused)
				continue
			}
			key := [2]uint64{uint64(v), sm.id}
			at, ok := m.smallAt[key]
			var d uint64
			if !ok {
				delivered = false
				d = 99999
			} else if at.After(sm.t1) {
				d = uint64(at.Sub(sm.t1) / time.Millisecond)
			}
			if d > boundMs {
				res.miss = true
			}
			delays = append(delays, d)
			delaysT = append(delaysT, fmt.Sprint(d))
			carried = append(carried, [3]uint64{uint64(v), uint64(m.smallSeq[key]), d})
		}
		if len(smalls[v]) < c.Writes {
			delivered = false
		}
	}
	closeTot := make([]uint64, n)
	for i := 0; i < n; i++ {
		if len(m.closeTot[i]) == 1 {
			closeTot[i] = m.closeTot[i][0]
		} else {
			closeTot[i] = 88888888 + uint64(len(m.closeTot[i])) // none or several close requests
		}
		if accepted[i] != m.arrived[i] || accepted[i] != closeTot[i] {
			res.miss = true
		}
	}
	if !delivered {
		res.miss = true
	}
	if refused != "" {
		res.direct = refused + " (rt-interval: every stream under test is open and its connection is up)"
		res.miss = true
	}
	res.term = fmt.Sprintf("RT (mkRtCase %d %d %s %s %s %s %s)", c.IntervalMs, c.SlackMs, coqfmt.List(delaysT), coqfmt.Bool(delivered),
		rtList(accepted), rtList(m.arrived), rtList(closeTot))
	res.observed = map[string]interface{}{"delays_ms": delays, "small_writes(stream,chunk seq,delay ms)": carried, "bound_ms": boundMs,
		"accepted": accepted, "arrived": append([]uint64(nil), m.arrived...), "close_totals": closeTot, "close_ret": closeRet,
		"same_policy_object": sameObj, "resumes": m.resumes}
	return
}

// runRTRetry re-runs a miss alone (the caller holds every worker slot) up to 3 more times and
// keeps the miss only if it misses every time: the machine is shared and loaded.
func runRTRetry(c *rtIn, seed uint64, first rtRes, alone func(func())) rtRes {
	res := first
	attempts := 1
	for res.miss && attempts < 4 {
		alone(func() { res = runRT(c, rng.New(seed+uint64(attempts))) })
		attempts++
	}
	if res.observed != nil {
		res.observed["attempts"] = attempts
	}
	return res
}

// ---------------------------------------------------------------- generator

func genRT(r *rng.R, tier string) []*rtIn {
	slack := 150
	if tier == "thorough" {
		slack = 250
	}
	var out []*rtIn
	add := func(mode string, ms, thresh, streams int, shared bool, nb string, actor int) {
		c := &rtIn{Mode: mode, IntervalMs: ms, Thresh: thresh, Streams: streams, Shared: shared, Neighbour: nb, Actor: actor,
			SlackMs: slack, Writes: 2, PumpUs: 2000 + r.Intn(3000), SmallLen: 1 + r.Intn(8)}
		for i := 0; i < 4; i++ {
			c.PhaseUs = append(c.PhaseUs, r.Intn(ms*1000))
		}
		out = append(out, c)
	}
	rounds := 1
	if tier == "thorough" {
		rounds = 3
	}
	for k := 0; k < rounds; k++ {
		// (a) no flush-policy option: the library's package-level default object, shared by construction
		d, t := rtDefaultIntervalMs, rtDefaultThresh
		add("default", d, t, 1, true, "none", 0)
		add("default", d, t, 2, true, "none", 0)
		add("default", d, t, 2, true, "size", 0)
		add("default", d, t, 2, true, "size", 1)
		add("default", d, t, 2, true, "close", 0)
		add("default", d, t, 2, true, "close", 1)
		add("default", d, t, 2, true, "sever", 0)
		add("default", d, t, 2, true, "sever-size", 0)
		add("default", d, t, 2, true, "sever-size", 1)
		add("default", d, t, 3, true, "none", 0)
		add("default", d, t, 3, true, "size", 0)
		add("default", d, t, 3, true, "size", 1)
		add("default", d, t, 3, true, "close", 1)
		add("default", d, t, 3, true, "sever", 0)
		// (b), (c) explicit policies: a private object per stream, or one object handed to every stream
		for _, mode := range []string{"interval", "intervalorsize"} {
			for _, ms := range []int{20, 50} {
				th := 64
				add(mode, ms, th, 1, false, "none", 0)
				for _, shared := range []bool{false, true} {
					add(mode, ms, th, 2, shared, "size", 0)
					add(mode, ms, th, 2, shared, "size", 1)
					add(mode, ms, th, 2, shared, "close", 0)
					add(mode, ms, th, 2, shared, "sever", 0)
				}
				add(mode, ms, th, 3, true, "size", 0)
				add(mode, ms, th, 3, true, "sever-size", 1)
			}
		}
	}
	return out
}

// Package memtr is an in-memory transport pair for the correspondence harnesses: bounded FIFO
// queues, a byte log, and a link that can die loudly (reads fail at once) or silently (reads
// hang, writes vanish), with an optional slow-return Write.
package memtr

import (
	"sync"
	"sync/atomic"
	"time"

	"github.com/aptpod/iscp-go/transport"
)

type Mode int32

const (
	Up Mode = iota
	Loud
	Silent
)

type Link struct {
	c2s, s2c chan []byte
	mode     atomic.Int32
	deadOnce sync.Once
	dead     chan struct{} // closed on loud sever or client close
	cliOnce  sync.Once
	cliDone  chan struct{} // closed on client Close
	srvOnce  sync.Once
	srvDone  chan struct{} // closed on server Close
	// WriteDelay makes the client's Write return this long after the bytes were accepted.
	WriteDelay atomic.Int64
	rx, tx     atomic.Uint64
	Params     transport.NegotiationParams
	ClientCloses atomic.Int32
	// stall (see stall.go): while set, the client's Write neither accepts nor fails until the link dies.
	stall   atomic.Bool
	stalled atomic.Int32
	// unrel (see unreliable.go): optional datagram-like channel pair; nil unless EnableUnreliable was called.
	unrel atomic.Pointer[unrelQ]
}

func NewLink(params transport.NegotiationParams) *Link {
	return &Link{c2s: make(chan []byte, 1<<15), s2c: make(chan []byte, 1<<15),
		dead: make(chan struct{}), cliDone: make(chan struct{}), srvDone: make(chan struct{}), Params: params}
}

// Sever kills the link in the given mode (idempotent; the first mode wins for Loud).
func (l *Link) Sever(m Mode) {
	l.mode.Store(int32(m))
	if m == Loud {
		l.deadOnce.Do(func() { close(l.dead) })
	}
}

func (l *Link) Mode() Mode { return Mode(l.mode.Load()) }

// ---- client side: transport.Transport + transport.Closer

type Client struct{ l *Link }

func (l *Link) Client() *Client { return &Client{l} }

var _ transport.Transport = (*Client)(nil)
var _ transport.Closer = (*Client)(nil)

func (c *Client) Read() ([]byte, error) {
	select {
	case <-c.l.dead:
		return nil, transport.ErrAlreadyClosed
	case <-c.l.cliDone:
		return nil, transport.ErrAlreadyClosed
	default:
	}
	select {
	case <-c.l.dead:
		return nil, transport.ErrAlreadyClosed
	case <-c.l.cliDone:
		return nil, transport.ErrAlreadyClosed
	case m := <-c.l.s2c:
		c.l.rx.Add(uint64(len(m)))
		return m, nil
	}
}

func (c *Client) Write(b []byte) error {
	select {
	case <-c.l.dead:
		return transport.ErrAlreadyClosed
	case <-c.l.cliDone:
		return transport.ErrAlreadyClosed
	default:
	}
	if c.l.Mode() == Silent {
		return nil // vanishes
	}
	if c.l.stall.Load() {
		return c.l.stallWrite()
	}
	cp := append([]byte(nil), b...)
	select {
	case c.l.c2s <- cp:
	case <-c.l.dead:
		return transport.ErrAlreadyClosed
	}
	c.l.tx.Add(uint64(len(b)))
	if d := c.l.WriteDelay.Load(); d > 0 {
		time.Sleep(time.Duration(d))
	}
	return nil
}

func (c *Client) Close() error { return c.CloseWithStatus(transport.CloseStatusNormal) }
func (c *Client) CloseWithStatus(transport.CloseStatus) error {
	c.l.ClientCloses.Add(1)
	c.l.cliOnce.Do(func() { close(c.l.cliDone) })
	return nil
}
func (c *Client) RxBytesCounterValue() uint64 { return c.l.rx.Load() }
func (c *Client) TxBytesCounterValue() uint64 { return c.l.tx.Load() }
func (c *Client) AsUnreliable() (transport.UnreliableTransport, bool) { return c.l.asUnreliable() }
func (c *Client) NegotiationParams() transport.NegotiationParams     { return c.l.Params }
func (c *Client) Name() transport.Name                               { return transport.Name("memtr") }

// ---- server side: transport.ReadWriter for encoding.Transport

type Server struct{ l *Link }

func (l *Link) Server() *Server { return &Server{l} }

// ClientClosed is closed when the client end has been closed.
func (l *Link) ClientClosed() <-chan struct{} { return l.cliDone }

func (s *Server) Read() ([]byte, error) {
	select {
	case m := <-s.l.c2s:
		return m, nil
	default:
	}
	select {
	case m := <-s.l.c2s:
		return m, nil
	case <-s.l.srvDone:
		return nil, transport.ErrAlreadyClosed
	case <-s.l.cliDone:
		// drain what was written before the close
		select {
		case m := <-s.l.c2s:
			return m, nil
		default:
		}
		return nil, transport.EOF
	case <-s.l.dead:
		select {
		case m := <-s.l.c2s:
			return m, nil
		default:
		}
		return nil, transport.EOF
	}
}

func (s *Server) Write(b []byte) error {
	if s.l.Mode() != Up {
		return transport.ErrAlreadyClosed
	}
	select {
	case <-s.l.cliDone:
		return transport.ErrAlreadyClosed
	default:
	}
	cp := append([]byte(nil), b...)
	select {
	case s.l.s2c <- cp:
		return nil
	case <-s.l.cliDone:
		return transport.ErrAlreadyClosed
	}
}

func (s *Server) Close() error {
	s.l.srvOnce.Do(func() { close(s.l.srvDone) })
	return nil
}
func (s *Server) RxBytesCounterValue() uint64 { return s.l.tx.Load() }
func (s *Server) TxBytesCounterValue() uint64 { return s.l.rx.Load() }

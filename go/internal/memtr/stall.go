package memtr

import "github.com/aptpod/iscp-go/transport"

// SetStallClientWrites(true) makes the peer stop reading: from then on every client Write blocks
// (the bytes are neither accepted nor refused) until the link is severed loudly or the client end
// is closed, and then fails. Off by default; nothing changes for links that never call it.
func (l *Link) SetStallClientWrites(on bool) { l.stall.Store(on) }

// StalledClientWrites is the number of client Writes currently blocked by the stall.
func (l *Link) StalledClientWrites() int { return int(l.stalled.Load()) }

func (l *Link) stallWrite() error {
	l.stalled.Add(1)
	defer l.stalled.Add(-1)
	select {
	case <-l.dead:
	case <-l.cliDone:
	}
	return transport.ErrAlreadyClosed
}

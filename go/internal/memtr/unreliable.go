package memtr

import "github.com/aptpod/iscp-go/transport"

// Optional unreliable (datagram-like) channel of a Link: a second pair of in-memory queues next
// to the reliable one. Off by default: a Link on which EnableUnreliable was never called answers
// AsUnreliable() with (nil, false) exactly as before. The queues keep message boundaries and
// order and lose nothing (the harness decides what the broker sends where); both directions end
// when the link dies loudly or the client end is closed.

type unrelQ struct{ c2s, s2c chan []byte }

// EnableUnreliable gives the link an unreliable channel. Call it before the client asks
// AsUnreliable (i.e. before the dialer returns the client end).
func (l *Link) EnableUnreliable() {
	l.unrel.CompareAndSwap(nil, &unrelQ{c2s: make(chan []byte, 1<<15), s2c: make(chan []byte, 1<<15)})
}

func (l *Link) asUnreliable() (transport.UnreliableTransport, bool) {
	q := l.unrel.Load()
	if q == nil {
		return nil, false
	}
	return &UnreliableClient{l, q}, true
}

// UnreliableClient is the client end of the unreliable channel.
type UnreliableClient struct {
	l *Link
	q *unrelQ
}

var _ transport.UnreliableTransport = (*UnreliableClient)(nil)

func (u *UnreliableClient) IsUnreliable() {}

func (u *UnreliableClient) Read() ([]byte, error) {
	select {
	case <-u.l.dead:
		return nil, transport.ErrAlreadyClosed
	case <-u.l.cliDone:
		return nil, transport.ErrAlreadyClosed
	default:
	}
	select {
	case <-u.l.dead:
		return nil, transport.ErrAlreadyClosed
	case <-u.l.cliDone:
		return nil, transport.ErrAlreadyClosed
	case m := <-u.q.s2c:
		return m, nil
	}
}

func (u *UnreliableClient) Write(b []byte) error {
	select {
	case <-u.l.dead:
		return transport.ErrAlreadyClosed
	case <-u.l.cliDone:
		return transport.ErrAlreadyClosed
	default:
	}
	if u.l.Mode() != Up {
		return nil // a datagram into a dead link vanishes
	}
	select {
	case u.q.c2s <- append([]byte(nil), b...):
	default: // full: dropped, as a datagram would be
	}
	return nil
}

// UnreliableServer is the broker end of the unreliable channel (nil when not enabled).
type UnreliableServer struct {
	l *Link
	q *unrelQ
}

func (l *Link) UnreliableServer() *UnreliableServer {
	q := l.unrel.Load()
	if q == nil {
		return nil
	}
	return &UnreliableServer{l, q}
}

func (s *UnreliableServer) Read() ([]byte, error) {
	select {
	case m := <-s.q.c2s:
		return m, nil
	case <-s.l.srvDone:
		return nil, transport.ErrAlreadyClosed
	case <-s.l.cliDone:
		return nil, transport.EOF
	case <-s.l.dead:
		return nil, transport.EOF
	}
}

func (s *UnreliableServer) Write(b []byte) error {
	if s.l.Mode() != Up {
		return transport.ErrAlreadyClosed
	}
	select {
	case <-s.l.cliDone:
		return transport.ErrAlreadyClosed
	default:
	}
	select {
	case s.q.s2c <- append([]byte(nil), b...):
		return nil
	case <-s.l.cliDone:
		return transport.ErrAlreadyClosed
	}
}

// Close of either unreliable end is a no-op: the channel lives and dies with the link.
func (u *UnreliableClient) Close() error                { return nil }
func (u *UnreliableClient) RxBytesCounterValue() uint64 { return 0 }
func (u *UnreliableClient) TxBytesCounterValue() uint64 { return 0 }
func (s *UnreliableServer) Close() error                { return nil }
func (s *UnreliableServer) RxBytesCounterValue() uint64 { return 0 }
func (s *UnreliableServer) TxBytesCounterValue() uint64 { return 0 }

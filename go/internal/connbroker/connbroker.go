// Package connbroker is a scripted broker for the connection-lifecycle harnesses (h-conn, h-close):
// it answers the handshake, open/resume/close requests, metadata, calls, chunks and pings of the
// real client, labels every client message with the harness's small integer labels, keeps one
// ordered log per transport incarnation, and can be told to cut the link instead of answering the
// next message of a kind, to fail handshakes, to refuse resumes and to delay dials.
package connbroker

import (
	"fmt"
	"strconv"
	"strings"
	"sync"
	"sync/atomic"
	"time"

	"github.com/aptpod/iscp-go/message"
	"github.com/aptpod/iscp-go/transport"
	uuid "github.com/google/uuid"

	"verif/internal/broker"
	"verif/internal/memtr"
)

// Rec is one client message as the broker saw it.
type Rec struct {
	Sess  int    // transport incarnation (dial attempt, 0-based)
	Gen   int    // established wire connection number (0 = first), -1 during a handshake that failed
	Kind  string // connect openup opendown resumeup resumedown closeup closedown meta call chunk dack mack disconnect other
	Label int    // harness label of the stream / request, -1 unknown
	Alias uint32
	Tok   string
	At    time.Time
	N     int // position in the incarnation's message stream (pings not counted)
}

type streamInfo struct {
	label int
	down  bool
	alias uint32 // alias on the current wire connection
}

type B struct {
	*broker.Broker
	mu      sync.Mutex
	streams map[uuid.UUID]*streamInfo
	byLabel map[int]uuid.UUID
	log     []Rec
	genOf   map[int]int // session -> generation (established only)
	gens    int
	last    time.Time

	// one-shot behaviours
	severOn       string // kind: cut the link instead of answering the next message(s) of this kind
	severLeft     int    // how many more messages of that kind are cut (SeverOn: 1)
	severSilent   bool   // the cut is silent (reads hang, writes vanish: only keepalive notices)
	handshakeFail int    // cut this many upcoming handshakes instead of answering
	refuse        map[int]bool
	refusedOn     map[int]int  // label -> generation on which its resume was refused
	holdClose     map[int]bool // labels whose close responses are withheld until ReleaseClose
	heldCloses    map[int][]func()
	closeCodes    map[int]message.ResultCode // label -> result code of the answers to its close requests
	heldAcks      []func()                   // acknowledgements of upstream chunks withheld while NoAnswer("chunk")
	conflictLeft  map[int]int                // label -> how many more of its resume requests are answered RESUME_REQUEST_CONFLICT
	conflictDef   int                        // default for labels not yet in conflictLeft
	conflicted    map[int]int                // label -> conflict answers given so far
	conflictsOn   map[[2]int]int             // (label, generation) -> conflict answers given on that wire connection
	noAnswer      map[string]bool            // kinds never answered (pending calls / metadata)
	DialDelay     atomic.Int64
	DialRefuse    atomic.Int32 // refuse this many dials outright (no transport)
	WriteDelay    atomic.Int64 // slow-return Write knob for every new link
	DialStarted   chan int
	nextAlias     uint32
}

func New() *B {
	b := &B{streams: map[uuid.UUID]*streamInfo{}, byLabel: map[int]uuid.UUID{}, genOf: map[int]int{},
		refuse: map[int]bool{}, refusedOn: map[int]int{}, conflictLeft: map[int]int{}, conflicted: map[int]int{}, conflictsOn: map[[2]int]int{}, holdClose: map[int]bool{}, heldCloses: map[int][]func(){}, noAnswer: map[string]bool{}, DialStarted: make(chan int, 256), nextAlias: 10}
	b.Broker = broker.New(b.handle)
	b.Broker.OnDial = func(idx int, c transport.DialConfig) error {
		select {
		case b.DialStarted <- idx:
		default:
		}
		if d := b.DialDelay.Load(); d > 0 {
			time.Sleep(time.Duration(d))
		}
		if b.DialRefuse.Load() > 0 {
			b.DialRefuse.Add(-1)
			return fmt.Errorf("verif: dial refused")
		}
		return nil
	}
	return b
}

func (b *B) SeverOn(kind string) {
	b.mu.Lock()
	b.severOn, b.severLeft, b.severSilent = kind, 1, false
	b.mu.Unlock()
}

// SeverOnN cuts the link instead of answering each of the next n messages of the kind (each on the
// incarnation it arrives on); silent: the death is noticed only by keepalive.
func (b *B) SeverOnN(kind string, n int, silent bool) {
	b.mu.Lock()
	b.severOn, b.severLeft, b.severSilent = kind, n, silent
	b.mu.Unlock()
}
func (b *B) FailHandshakes(n int)         { b.mu.Lock(); b.handshakeFail = n; b.mu.Unlock() }
func (b *B) RefuseResume(label int)       { b.mu.Lock(); b.refuse[label] = true; b.mu.Unlock() }
func (b *B) NoAnswer(kind string, v bool) { b.mu.Lock(); b.noAnswer[kind] = v; b.mu.Unlock() }

// Log returns a snapshot of all labelled client messages.
func (b *B) Log() []Rec {
	b.mu.Lock()
	defer b.mu.Unlock()
	return append([]Rec(nil), b.log...)
}

// Gens returns the number of established wire connections so far.
func (b *B) Gens() int { b.mu.Lock(); defer b.mu.Unlock(); return b.gens }

// LastActivity returns the time of the last logged client message.
func (b *B) LastActivity() time.Time { b.mu.Lock(); defer b.mu.Unlock(); return b.last }

// CurrentEstablished returns the session of the newest established wire connection.
func (b *B) CurrentEstablished() *broker.Session {
	b.mu.Lock()
	best, bg := -1, -1
	for s, g := range b.genOf {
		if g > bg {
			best, bg = s, g
		}
	}
	b.mu.Unlock()
	if best < 0 {
		return nil
	}
	ss := b.Sessions()
	if best >= len(ss) {
		return nil
	}
	return ss[best]
}

func (b *B) StreamID(label int) (uuid.UUID, uint32, bool) {
	b.mu.Lock()
	defer b.mu.Unlock()
	id, ok := b.byLabel[label]
	if !ok {
		return uuid.UUID{}, 0, false
	}
	return id, b.streams[id].alias, true
}

func labelOf(s, prefix string) int {
	if !strings.HasPrefix(s, prefix) {
		return -1
	}
	n, err := strconv.Atoi(s[len(prefix):])
	if err != nil {
		return -1
	}
	return n
}

func (b *B) rec(s *broker.Session, kind string, label int, alias uint32, tok string) (sever bool) {
	b.mu.Lock()
	defer b.mu.Unlock()
	g, ok := b.genOf[s.Idx]
	if !ok {
		g = -1
	}
	n := 0
	for _, r := range b.log {
		if r.Sess == s.Idx {
			n++
		}
	}
	b.last = time.Now()
	b.log = append(b.log, Rec{Sess: s.Idx, Gen: g, Kind: kind, Label: label, Alias: alias, Tok: tok, At: b.last, N: n})
	k := kind
	if k == "resumeup" || k == "resumedown" {
		k = "resume"
	}
	if k == "openup" || k == "opendown" {
		k = "open"
	}
	if b.severOn != "" && b.severOn == k {
		b.severLeft--
		if b.severLeft <= 0 {
			b.severOn = ""
		}
		if b.severSilent {
			s.Link.Sever(memtr.Silent) // the handler's own loud Sever afterwards does not undo the silence for reads
			return false
		}
		return true
	}
	return false
}

func (b *B) handle(s *broker.Session, m message.Message) {
	ok := message.ResultCodeSucceeded
	switch v := m.(type) {
	case *message.Ping, *message.Pong:
		return
	case *message.ConnectRequest:
		tok := ""
		if v.ExtensionFields != nil {
			tok = v.ExtensionFields.AccessToken
		}
		b.rec(s, "connect", -1, 0, tok)
		b.mu.Lock()
		fail := b.handshakeFail > 0
		if fail {
			b.handshakeFail--
		} else {
			b.genOf[s.Idx] = b.gens
			b.gens++
		}
		b.mu.Unlock()
		if fail {
			s.Link.Sever(memtr.Loud)
			return
		}
		if d := b.WriteDelay.Load(); d > 0 {
			s.Link.WriteDelay.Store(d)
		}
		broker.AcceptConnect(s, v)
	case *message.UpstreamOpenRequest:
		label := labelOf(v.SessionID, "s")
		if b.rec(s, "openup", label, 0, "") {
			s.Link.Sever(memtr.Loud)
			return
		}
		b.mu.Lock()
		id := uuid.New()
		b.nextAlias++
		al := b.nextAlias
		b.streams[id] = &streamInfo{label: label, alias: al}
		b.byLabel[label] = id
		b.mu.Unlock()
		s.Send(&message.UpstreamOpenResponse{RequestID: v.RequestID, AssignedStreamID: id, AssignedStreamIDAlias: al,
			ResultCode: ok, ServerTime: time.Unix(1700000000, 0)})
	case *message.DownstreamOpenRequest:
		label := -1
		if len(v.DownstreamFilters) > 0 {
			label = labelOf(v.DownstreamFilters[0].SourceNodeID, "n")
		}
		if b.rec(s, "opendown", label, v.DesiredStreamIDAlias, "") {
			s.Link.Sever(memtr.Loud)
			return
		}
		b.mu.Lock()
		id := uuid.New()
		b.streams[id] = &streamInfo{label: label, down: true, alias: v.DesiredStreamIDAlias}
		b.byLabel[label] = id
		b.mu.Unlock()
		s.Send(&message.DownstreamOpenResponse{RequestID: v.RequestID, AssignedStreamID: id, ResultCode: ok, ServerTime: time.Unix(1700000000, 0)})
	case *message.UpstreamResumeRequest:
		b.mu.Lock()
		si, known := b.streams[v.StreamID]
		label := -1
		if known && !si.down {
			label = si.label
		}
		refuse := b.refuse[label]
		delete(b.refuse, label)
		b.nextAlias++
		al := b.nextAlias
		b.mu.Unlock()
		if b.rec(s, "resumeup", label, 0, "") {
			s.Link.Sever(memtr.Loud)
			return
		}
		if known && b.takeConflict(label) {
			b.noteConflict(label, s.Idx)
			s.Send(&message.UpstreamResumeResponse{RequestID: v.RequestID, ResultCode: message.ResultCodeResumeRequestConflict, ResultString: "conflict"})
			return
		}
		if refuse {
			b.noteRefused(label, s.Idx)
		}
		if refuse || !known {
			s.Send(&message.UpstreamResumeResponse{RequestID: v.RequestID, ResultCode: message.ResultCodeStreamNotFound, ResultString: "refused"})
			return
		}
		b.mu.Lock()
		si.alias = al
		b.mu.Unlock()
		s.Send(&message.UpstreamResumeResponse{RequestID: v.RequestID, AssignedStreamIDAlias: al, ResultCode: ok})
	case *message.DownstreamResumeRequest:
		b.mu.Lock()
		si, known := b.streams[v.StreamID]
		label := -1
		if known && si.down && si.alias == v.DesiredStreamIDAlias {
			label = si.label
		}
		refuse := b.refuse[label]
		delete(b.refuse, label)
		b.mu.Unlock()
		if b.rec(s, "resumedown", label, v.DesiredStreamIDAlias, "") {
			s.Link.Sever(memtr.Loud)
			return
		}
		if known && b.takeConflict(label) {
			b.noteConflict(label, s.Idx)
			s.Send(&message.DownstreamResumeResponse{RequestID: v.RequestID, ResultCode: message.ResultCodeResumeRequestConflict, ResultString: "conflict"})
			return
		}
		if refuse {
			b.noteRefused(label, s.Idx)
		}
		if refuse || !known {
			s.Send(&message.DownstreamResumeResponse{RequestID: v.RequestID, ResultCode: message.ResultCodeStreamNotFound, ResultString: "refused"})
			return
		}
		s.Send(&message.DownstreamResumeResponse{RequestID: v.RequestID, ResultCode: ok})
	case *message.UpstreamCloseRequest:
		b.mu.Lock()
		label := -1
		if si, known := b.streams[v.StreamID]; known {
			label = si.label
		}
		b.mu.Unlock()
		if b.rec(s, "closeup", label, 0, "") {
			s.Link.Sever(memtr.Loud)
			return
		}
		code := b.closeCode(label)
		b.answerClose(label, func() {
			s.Send(&message.UpstreamCloseResponse{RequestID: v.RequestID, ResultCode: code, ResultString: "close answer"})
		})
	case *message.DownstreamCloseRequest:
		b.mu.Lock()
		label := -1
		if si, known := b.streams[v.StreamID]; known {
			label = si.label
		}
		b.mu.Unlock()
		if b.rec(s, "closedown", label, 0, "") {
			s.Link.Sever(memtr.Loud)
			return
		}
		code := b.closeCode(label)
		b.answerClose(label, func() {
			s.Send(&message.DownstreamCloseResponse{RequestID: v.RequestID, ResultCode: code, ResultString: "close answer"})
		})
	case *message.UpstreamMetadata:
		label := -1
		if bt, isbt := v.Metadata.(*message.BaseTime); isbt {
			label = labelOf(bt.Name, "m")
		}
		if b.rec(s, "meta", label, 0, "") {
			s.Link.Sever(memtr.Loud)
			return
		}
		b.mu.Lock()
		na := b.noAnswer["meta"]
		b.mu.Unlock()
		if !na {
			s.Send(&message.UpstreamMetadataAck{RequestID: v.RequestID, ResultCode: ok})
		}
	case *message.UpstreamCall:
		label := labelOf(v.Name, "c")
		if b.rec(s, "call", label, 0, "") {
			s.Link.Sever(memtr.Loud)
			return
		}
		b.mu.Lock()
		na := b.noAnswer["call"]
		b.mu.Unlock()
		if !na {
			s.Send(&message.UpstreamCallAck{CallID: v.CallID, ResultCode: ok})
		}
	case *message.UpstreamChunk:
		label := -1
		b.mu.Lock()
		for _, si := range b.streams {
			if !si.down && si.alias == v.StreamIDAlias {
				label = si.label
			}
		}
		na := b.noAnswer["chunk"]
		b.mu.Unlock()
		b.rec(s, "chunk", label, v.StreamIDAlias, "")
		if na {
			b.mu.Lock()
			al, sq := v.StreamIDAlias, v.StreamChunk.SequenceNumber
			b.heldAcks = append(b.heldAcks, func() {
				s.Send(&message.UpstreamChunkAck{StreamIDAlias: al, Results: []*message.UpstreamChunkResult{{SequenceNumber: sq, ResultCode: ok}}})
			})
			b.mu.Unlock()
		}
		if !na {
			s.Send(&message.UpstreamChunkAck{StreamIDAlias: v.StreamIDAlias, Results: []*message.UpstreamChunkResult{
				{SequenceNumber: v.StreamChunk.SequenceNumber, ResultCode: ok}}})
		}
	case *message.DownstreamChunkAck:
		b.rec(s, "dack", -1, v.StreamIDAlias, "")
		s.Send(&message.DownstreamChunkAckComplete{StreamIDAlias: v.StreamIDAlias, AckID: v.AckID, ResultCode: ok})
	case *message.DownstreamMetadataAck:
		b.rec(s, "mack", -1, 0, "")
	case *message.Disconnect:
		b.rec(s, "disconnect", -1, 0, "")
	default:
		b.rec(s, "other", -1, 0, "")
	}
}

// SendChunk sends one downstream chunk for the stream with the given label on session s.
func (b *B) SendChunk(s *broker.Session, label int, seq uint32) error {
	id, alias, ok := b.StreamID(label)
	if !ok {
		return fmt.Errorf("unknown stream")
	}
	_ = id
	return s.Send(&message.DownstreamChunk{StreamIDAlias: alias,
		UpstreamOrAlias: &message.UpstreamInfo{SessionID: "up", SourceNodeID: fmt.Sprintf("n%d", label), StreamID: uuid.UUID{1}},
		StreamChunk: &message.StreamChunk{SequenceNumber: seq, DataPointGroups: []*message.DataPointGroup{
			{DataIDOrAlias: &message.DataID{Name: "d", Type: "t"}, DataPoints: []*message.DataPoint{{ElapsedTime: time.Duration(seq), Payload: []byte{1}}}}}}})
}

// GenOf returns the generation of a session (-1: its handshake was never answered).
func (b *B) GenOf(sess int) int {
	b.mu.Lock()
	defer b.mu.Unlock()
	g, ok := b.genOf[sess]
	if !ok {
		return -1
	}
	return g
}

// Disarm clears a pending SeverOn and returns whether it was still armed.
func (b *B) Disarm() bool {
	b.mu.Lock()
	defer b.mu.Unlock()
	armed := b.severOn != ""
	b.severOn = ""
	return armed
}

func (b *B) noteRefused(label, sess int) {
	b.mu.Lock()
	defer b.mu.Unlock()
	if g, ok := b.genOf[sess]; ok {
		b.refusedOn[label] = g
	}
}

// RefusedOn reports the generation on which the resume of the stream was refused.
func (b *B) RefusedOn(label int) (int, bool) {
	b.mu.Lock()
	defer b.mu.Unlock()
	g, ok := b.refusedOn[label]
	return g, ok
}

// HoldClose withholds the responses to the close requests of a stream until ReleaseClose.
func (b *B) HoldClose(label int) { b.mu.Lock(); b.holdClose[label] = true; b.mu.Unlock() }

// ReleaseClose answers every withheld close request of the stream, in arrival order.
func (b *B) ReleaseClose(label int) {
	b.mu.Lock()
	delete(b.holdClose, label)
	fs := b.heldCloses[label]
	delete(b.heldCloses, label)
	b.mu.Unlock()
	for _, f := range fs {
		f()
	}
}

func (b *B) answerClose(label int, f func()) {
	b.mu.Lock()
	if b.holdClose[label] {
		b.heldCloses[label] = append(b.heldCloses[label], f)
		b.mu.Unlock()
		return
	}
	b.mu.Unlock()
	f()
}

// DownAliases returns the stream id alias of every downstream the broker knows, by label.
func (b *B) DownAliases() map[int]uint32 {
	b.mu.Lock()
	defer b.mu.Unlock()
	m := map[int]uint32{}
	for _, si := range b.streams {
		if si.down {
			m[si.label] = si.alias
		}
	}
	return m
}

// SendToClient writes an arbitrary broker message on the newest established session.
func (b *B) SendToClient(m message.Message) error {
	s := b.CurrentEstablished()
	if s == nil {
		return fmt.Errorf("no session")
	}
	return s.Send(m)
}

// SendMetadata sends one downstream metadata item (a BaseTime) for the stream with the given label.
func (b *B) SendMetadata(s *broker.Session, label int, n uint32) error {
	_, alias, ok := b.StreamID(label)
	if !ok {
		return fmt.Errorf("unknown stream")
	}
	return s.Send(&message.DownstreamMetadata{RequestID: message.RequestID(1000 + 2*n + 1), StreamIDAlias: alias,
		SourceNodeID: fmt.Sprintf("n%d", label), Metadata: &message.BaseTime{SessionID: "up", Name: fmt.Sprintf("q%d", n), BaseTime: time.Unix(1700000000, 0)}})
}

// FlushHeldAcks sends every withheld upstream chunk acknowledgement, one message each, in a burst.
func (b *B) FlushHeldAcks() int {
	b.mu.Lock()
	fs := b.heldAcks
	b.heldAcks = nil
	b.mu.Unlock()
	for _, f := range fs {
		f()
	}
	return len(fs)
}

// ConflictResumes makes the broker answer the next n resume requests of EVERY stream with
// RESUME_REQUEST_CONFLICT (n = 0 switches it off).
func (b *B) ConflictResumes(n int) {
	b.mu.Lock()
	b.conflictDef = n
	b.conflictLeft = map[int]int{}
	b.mu.Unlock()
}

func (b *B) takeConflict(label int) bool {
	b.mu.Lock()
	defer b.mu.Unlock()
	if _, seen := b.conflictLeft[label]; !seen {
		b.conflictLeft[label] = b.conflictDef
	}
	if b.conflictLeft[label] > 0 {
		b.conflictLeft[label]--
		b.conflicted[label]++
		return true
	}
	return false
}

// Conflicted returns how many RESUME_REQUEST_CONFLICT answers the stream has been given.
func (b *B) Conflicted(label int) int { b.mu.Lock(); defer b.mu.Unlock(); return b.conflicted[label] }

func (b *B) noteConflict(label, sess int) {
	b.mu.Lock()
	defer b.mu.Unlock()
	if g, ok := b.genOf[sess]; ok {
		b.conflictsOn[[2]int{label, g}]++
	}
}

// ConflictsOn returns how many RESUME_REQUEST_CONFLICT answers the stream got on that generation.
func (b *B) ConflictsOn(label, gen int) int {
	b.mu.Lock()
	defer b.mu.Unlock()
	return b.conflictsOn[[2]int{label, gen}]
}

// RefuseClose makes the broker answer every close request of the stream with the given failure code.
func (b *B) RefuseClose(label int, code message.ResultCode) {
	b.mu.Lock()
	if b.closeCodes == nil {
		b.closeCodes = map[int]message.ResultCode{}
	}
	b.closeCodes[label] = code
	b.mu.Unlock()
}

func (b *B) closeCode(label int) message.ResultCode {
	b.mu.Lock()
	defer b.mu.Unlock()
	if c, ok := b.closeCodes[label]; ok {
		return c
	}
	return message.ResultCodeSucceeded
}

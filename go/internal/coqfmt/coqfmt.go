// Package coqfmt prints harness data as Coq terms and writes cases files and run metadata.
package coqfmt

import (
	"crypto/sha256"
	"encoding/hex"
	"encoding/json"
	"fmt"
	"os"
	"path/filepath"
	"strings"
)

func N(n uint64) string { return fmt.Sprintf("%d", n) }

func Bool(b bool) string {
	if b {
		return "true"
	}
	return "false"
}

func Bytes(b []byte) string {
	var sb strings.Builder
	sb.WriteByte('[')
	for i, x := range b {
		if i > 0 {
			sb.WriteByte(';')
		}
		fmt.Fprintf(&sb, "%d", x)
	}
	sb.WriteByte(']')
	return sb.String()
}

func List(items []string) string { return "[" + strings.Join(items, "; ") + "]" }

func Opt(s string, ok bool) string {
	if !ok {
		return "None"
	}
	return "(Some " + s + ")"
}

func Pair(a, b string) string { return "(" + a + ", " + b + ")" }

func Str(s string) string { return "\"" + strings.ReplaceAll(s, "\"", "\"\"") + "\"" }

// Case is one correspondence case: a Coq term plus a human-readable description for replay files.
type Case struct {
	Term       string      `json:"-"`
	Input      interface{} `json:"input"`
	Observed   interface{} `json:"observed,omitempty"`
	Seed       uint64      `json:"case_seed"`
	Nontrivial bool        `json:"nontrivial"`
	Kind       string      `json:"kind,omitempty"`
	// Sig is a stable signature of the case's shape, matched against KNOWN_FINDINGS.json.
	Sig string `json:"sig,omitempty"`
	// Direct is set when the harness itself (not the Coq judge) saw the property fail on the
	// implementation (panic, hang, crash of a child process): a failing input by construction.
	Direct string `json:"direct_violation,omitempty"`
}

// Meta is what a harness run reports besides the cases.
type Meta struct {
	Property     string                 `json:"property"`
	Seed         uint64                 `json:"seed"`
	Tier         string                 `json:"tier"`
	Evaluations  int                    `json:"evaluations"`
	DistinctNT   int                    `json:"distinct_nontrivial"`
	Rule         string                 `json:"rule"`
	Distribution map[string]int         `json:"distribution"`
	Samples      []interface{}          `json:"samples"`
	Shards       []string               `json:"shards"`
	Exhaustive   bool                   `json:"exhaustive"`
	Extra        map[string]interface{} `json:"extra,omitempty"`
}

// Writer collects cases and writes sharded Coq files.
type Writer struct {
	Dir      string
	Prop     string
	Imports  string // e.g. "From Iscp Require Import Model.Segment."
	CaseType string // e.g. "seg_case"
	Judge    string // e.g. "seg_judge"
	PerShard int
	Cases    []Case
	Dist     map[string]int
	seen     map[string]bool
	distinct int
}

func NewWriter(dir, prop, imports, caseType, judge string, perShard int) *Writer {
	return &Writer{Dir: dir, Prop: prop, Imports: imports, CaseType: caseType, Judge: judge,
		PerShard: perShard, Dist: map[string]int{}, seen: map[string]bool{}}
}

func (w *Writer) Add(c Case) {
	w.Cases = append(w.Cases, c)
	h := sha256.Sum256([]byte(c.Term))
	k := hex.EncodeToString(h[:8])
	if c.Nontrivial && !w.seen[k] {
		w.seen[k] = true
		w.distinct++
	}
	if c.Kind != "" {
		w.Dist["kind:"+c.Kind]++
	}
}

func (w *Writer) Count(key string) { w.Dist[key]++ }

// Flush writes shards (Coq), cases.jsonl (human-readable, index-aligned) and meta.json.
func (w *Writer) Flush(seed uint64, tier, rule string, exhaustive bool, extra map[string]interface{}) error {
	if err := os.MkdirAll(w.Dir, 0o755); err != nil {
		return err
	}
	old, _ := filepath.Glob(filepath.Join(w.Dir, "Cases_*.v"))
	for _, f := range old {
		os.Remove(f)
	}
	var shards []string
	for i := 0; i < len(w.Cases); i += w.PerShard {
		j := i + w.PerShard
		if j > len(w.Cases) {
			j = len(w.Cases)
		}
		name := fmt.Sprintf("Cases_%s_%03d", w.Prop, len(shards))
		var sb strings.Builder
		sb.WriteString("From Coq Require Import List NArith ZArith String Bool.\n" + w.Imports + "\nImport ListNotations.\nOpen Scope N_scope.\nOpen Scope string_scope.\n")
		fmt.Fprintf(&sb, "Definition cases : list %s := [\n", w.CaseType)
		for k := i; k < j; k++ {
			sb.WriteString(w.Cases[k].Term)
			if k+1 < j {
				sb.WriteString(";\n")
			}
		}
		sb.WriteString("\n].\n")
		fmt.Fprintf(&sb, "Definition verdicts := Eval vm_compute in map %s cases.\nPrint verdicts.\n", w.Judge)
		if err := os.WriteFile(filepath.Join(w.Dir, name+".v"), []byte(sb.String()), 0o644); err != nil {
			return err
		}
		shards = append(shards, name+".v")
	}
	f, err := os.Create(filepath.Join(w.Dir, "cases.jsonl"))
	if err != nil {
		return err
	}
	enc := json.NewEncoder(f)
	for _, c := range w.Cases {
		if err := enc.Encode(c); err != nil {
			return err
		}
	}
	f.Close()
	var samples []interface{}
	for i := 0; i < len(w.Cases) && len(samples) < 3; i += 1 + len(w.Cases)/3 {
		samples = append(samples, map[string]interface{}{"input": w.Cases[i].Input, "observed": w.Cases[i].Observed})
	}
	m := Meta{Property: w.Prop, Seed: seed, Tier: tier, Evaluations: len(w.Cases), DistinctNT: w.distinct,
		Rule: rule, Distribution: w.Dist, Samples: samples, Shards: shards, Exhaustive: exhaustive, Extra: extra}
	b, _ := json.MarshalIndent(m, "", " ")
	return os.WriteFile(filepath.Join(w.Dir, "meta.json"), b, 0o644)
}

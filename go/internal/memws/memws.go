// Package memws is an in-memory websocket.Conn pair for the C13 harness.
//
// Like the coder/nhooyr backends it serialises whole messages: Writer() blocks until the
// previous writer has been closed, and the message becomes visible to the peer (and is
// appended to the wire log) when the writer is closed.  Options make the scheduling hostile:
// Writer() can yield/sleep before taking the message lock (so a goroutine that prepared its
// bytes first can obtain the writer second), readers hand out the message in small chunks and
// can report io.EOF either together with the last bytes or only on a further Read call.
package memws

import (
	"context"
	"errors"
	"io"
	"runtime"
	"sync"
	"sync/atomic"
	"time"

	"github.com/aptpod/iscp-go/transport"
	"github.com/aptpod/iscp-go/transport/websocket"
)

type Options struct {
	DelayWriter bool   // yield / sleep pseudo-randomly before acquiring the message lock
	Chunk       int    // reader chunk size, 0 = whole message
	EOFSeparate bool   // io.EOF only on the Read after the last byte (as coder does for fragmented messages)
	Strict      bool   // Reader() fails when the previous message was not read to io.EOF (coder's rule)
	Seed        uint64 // for the pseudo-random delays
}

// Log is the ordered list of messages one endpoint put on the wire.
type Log struct {
	mu   sync.Mutex
	msgs [][]byte
}

func (l *Log) add(b []byte) {
	l.mu.Lock()
	l.msgs = append(l.msgs, b)
	l.mu.Unlock()
}

func (l *Log) Messages() [][]byte {
	l.mu.Lock()
	defer l.mu.Unlock()
	return append([][]byte(nil), l.msgs...)
}

type Conn struct {
	opt       Options
	peer      *Conn
	in        chan []byte
	wlock     chan struct{}
	Sent      *Log
	ctr       uint64
	closed    chan struct{}
	closeOnce sync.Once

	rmu       sync.Mutex
	last      *reader
	Undrained int // number of messages whose reader never reported io.EOF before the next Reader()
}

var _ websocket.Conn = (*Conn)(nil)

var ErrClosed = errors.New("memws: closed")
var ErrNotDrained = errors.New("memws: previous message not read to completion")

// Pair returns two connected endpoints.
func Pair(opt Options) (*Conn, *Conn) {
	mk := func() *Conn {
		return &Conn{opt: opt, in: make(chan []byte, 1<<14), wlock: make(chan struct{}, 1), Sent: &Log{}, closed: make(chan struct{})}
	}
	a, b := mk(), mk()
	a.peer, b.peer = b, a
	return a, b
}

func mix(z uint64) uint64 {
	z += 0x9e3779b97f4a7c15
	z = (z ^ (z >> 30)) * 0xbf58476d1ce4e5b9
	z = (z ^ (z >> 27)) * 0x94d049bb133111eb
	return z ^ (z >> 31)
}

func (c *Conn) Close() error { return c.CloseWithStatus(transport.CloseStatusNormal) }

func (c *Conn) CloseWithStatus(transport.CloseStatus) error {
	c.closeOnce.Do(func() { close(c.closed) })
	return nil
}

func (c *Conn) Ping(context.Context) error { return nil }

func (c *Conn) Writer(ctx context.Context, _ websocket.MessageType) (io.WriteCloser, error) {
	if c.opt.DelayWriter {
		k := mix(c.opt.Seed + atomic.AddUint64(&c.ctr, 1))
		switch k % 4 {
		case 0:
		case 1:
			for i := 0; i < int((k>>8)%8)+1; i++ {
				runtime.Gosched()
			}
		default:
			time.Sleep(time.Duration(20+(k>>8)%400) * time.Microsecond)
		}
	}
	select {
	case c.wlock <- struct{}{}:
	case <-ctx.Done():
		return nil, ctx.Err()
	case <-c.closed:
		return nil, ErrClosed
	}
	return &writer{c: c}, nil
}

type writer struct {
	c    *Conn
	buf  []byte
	done bool
}

func (w *writer) Write(p []byte) (int, error) {
	if w.done {
		return 0, errors.New("memws: write on closed writer")
	}
	w.buf = append(w.buf, p...)
	if w.c.opt.DelayWriter {
		runtime.Gosched()
	}
	return len(p), nil
}

func (w *writer) Close() error {
	if w.done {
		return errors.New("memws: writer already closed")
	}
	w.done = true
	b := w.buf
	if b == nil {
		b = []byte{}
	}
	w.c.Sent.add(b)
	var err error
	select {
	case w.c.peer.in <- b:
	default:
		err = errors.New("memws: queue full")
	}
	<-w.c.wlock
	return err
}

func (c *Conn) Reader(ctx context.Context) (websocket.MessageType, io.Reader, error) {
	c.rmu.Lock()
	if c.last != nil && !c.last.drained {
		c.Undrained++
		if c.opt.Strict {
			c.rmu.Unlock()
			return 0, nil, ErrNotDrained
		}
	}
	c.last = nil
	c.rmu.Unlock()
	select {
	case b := <-c.in:
		r := &reader{data: b, chunk: c.opt.Chunk, eofSeparate: c.opt.EOFSeparate}
		c.rmu.Lock()
		c.last = r
		c.rmu.Unlock()
		return websocket.MessageBinary, r, nil
	case <-ctx.Done():
		return 0, nil, ctx.Err()
	case <-c.closed:
		return 0, nil, ErrClosed
	}
}

type reader struct {
	data        []byte
	off         int
	chunk       int
	eofSeparate bool
	drained     bool
}

func (r *reader) Read(p []byte) (int, error) {
	if r.off == len(r.data) {
		r.drained = true
		return 0, io.EOF
	}
	if len(p) == 0 {
		return 0, nil
	}
	n := len(r.data) - r.off
	if n > len(p) {
		n = len(p)
	}
	if r.chunk > 0 && n > r.chunk {
		n = r.chunk
	}
	copy(p, r.data[r.off:r.off+n])
	r.off += n
	if r.off == len(r.data) && !r.eofSeparate {
		r.drained = true
		return n, io.EOF
	}
	return n, nil
}

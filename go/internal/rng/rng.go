// Package rng is a splitmix64 PRNG: every random choice of a harness run derives from one seed.
package rng

type R struct{ s uint64 }

func New(seed uint64) *R { return &R{s: seed} }

func (r *R) U64() uint64 {
	r.s += 0x9e3779b97f4a7c15
	z := r.s
	z = (z ^ (z >> 30)) * 0xbf58476d1ce4e5b9
	z = (z ^ (z >> 27)) * 0x94d049bb133111eb
	return z ^ (z >> 31)
}

// Intn returns a value in [0,n).
func (r *R) Intn(n int) int {
	if n <= 0 {
		return 0
	}
	return int(r.U64() % uint64(n))
}

func (r *R) Bool() bool { return r.U64()&1 == 1 }

// Chance returns true with probability num/den.
func (r *R) Chance(num, den int) bool { return r.Intn(den) < num }

func (r *R) Bytes(n int) []byte {
	b := make([]byte, n)
	for i := range b {
		b[i] = byte(r.U64())
	}
	return b
}

// Perm returns a random permutation of 0..n-1.
func (r *R) Perm(n int) []int {
	p := make([]int, n)
	for i := range p {
		p[i] = i
	}
	for i := n - 1; i > 0; i-- {
		j := r.Intn(i + 1)
		p[i], p[j] = p[j], p[i]
	}
	return p
}

// Fork derives an independent stream (used for per-case sub-seeds).
func (r *R) Fork() *R { return New(r.U64()) }

// Package ioshape provides the io.Reader / io.Writer shapes through which the codec harnesses
// (h-codec, h-fuzz) feed DecodeFrom / EncodeTo: everything the io contracts allow and that
// bytes.Reader / bytes.Buffer never do.
package ioshape

import (
	"bytes"
	"io"
	"testing/iotest"

	"verif/internal/rng"
)

// reader shapes
const (
	Plain         = iota // bytes.Reader: (n, nil) ... (0, EOF)
	DataErr              // iotest.DataErrReader: the last data together with io.EOF
	OneByte              // iotest.OneByteReader
	Half                 // iotest.HalfReader
	Chunked              // random chunk sizes 1..k, (n, io.EOF) on the last chunk
	ZeroSometimes        // returns (0, nil) now and then, small chunks otherwise
	NReaderShapes
)

var ReaderNames = []string{"bytes.Reader", "data-with-EOF", "one-byte", "half", "chunked-last-with-EOF", "zero-nil-sometimes"}

type chunked struct {
	b    []byte
	r    *rng.R
	k    int
	zero bool // ZeroSometimes: (0, nil) with probability 1/3, EOF separately
}

func (c *chunked) Read(p []byte) (int, error) {
	if len(p) == 0 {
		return 0, nil
	}
	if c.zero {
		if len(c.b) == 0 {
			return 0, io.EOF
		}
		if c.r.Chance(1, 3) {
			return 0, nil
		}
	} else if len(c.b) == 0 {
		return 0, io.EOF
	}
	n := 1 + c.r.Intn(c.k)
	if n > len(p) {
		n = len(p)
	}
	if n > len(c.b) {
		n = len(c.b)
	}
	copy(p, c.b[:n])
	c.b = c.b[n:]
	if len(c.b) == 0 && !c.zero {
		return n, io.EOF
	}
	return n, nil
}

// Reader returns b behind the given shape.
func Reader(shape int, b []byte, r *rng.R) io.Reader {
	switch shape {
	case DataErr:
		return iotest.DataErrReader(bytes.NewReader(b))
	case OneByte:
		return iotest.OneByteReader(bytes.NewReader(b))
	case Half:
		return iotest.HalfReader(bytes.NewReader(b))
	case Chunked:
		return &chunked{b: b, r: r, k: []int{1, 3, 16, 100, 700}[r.Intn(5)]}
	case ZeroSometimes:
		return &chunked{b: b, r: r, k: []int{1, 7, 64}[r.Intn(3)], zero: true}
	}
	return bytes.NewReader(b)
}

// Counting counts what the consumer pulled (placed on top of the shape).
type Counting struct {
	R io.Reader
	N int
}

func (c *Counting) Read(p []byte) (int, error) {
	n, err := c.R.Read(p)
	c.N += n
	return n, err
}

// writer shapes (io.Writer permits a short write only together with an error, so the shapes differ in
// how they take the bytes, not in what they return)
const (
	Buffer        = iota // bytes.Buffer
	CountOnly            // counts and stores
	Pieces               // stores in pieces of at most 5 bytes, reports the full length
	NWriterShapes
)

var WriterNames = []string{"bytes.Buffer", "counting", "pieces"}

type Sink struct {
	Shape int
	Got   []byte
	Calls int
}

func (s *Sink) Write(p []byte) (int, error) {
	s.Calls++
	if s.Shape == Pieces {
		for i := 0; i < len(p); i += 5 {
			j := i + 5
			if j > len(p) {
				j = len(p)
			}
			s.Got = append(s.Got, p[i:j]...)
		}
		return len(p), nil
	}
	s.Got = append(s.Got, p...)
	return len(p), nil
}

// Package broker is a scripted iSCP broker over memtr links: every dial of a registered address
// creates a Session (one transport incarnation) whose client messages are decoded and handed to
// the harness's handler; helpers answer the handshake and pings.
package broker

import (
	"fmt"
	"sync"
	"sync/atomic"
	"time"

	"github.com/aptpod/iscp-go/encoding"
	"github.com/aptpod/iscp-go/encoding/protobuf"
	"github.com/aptpod/iscp-go/iscp"
	"github.com/aptpod/iscp-go/message"
	"github.com/aptpod/iscp-go/transport"

	"verif/internal/memtr"
)

const TransportName = iscp.TransportName("verif-memtr")

var (
	registry sync.Map // address -> *Broker
	regOnce  sync.Once
	addrSeq  atomic.Uint64
)

type dialer struct{}

func (dialer) Dial(c transport.DialConfig) (transport.Transport, error) {
	v, ok := registry.Load(c.Address)
	if !ok {
		return nil, fmt.Errorf("verif broker: unknown address %q", c.Address)
	}
	return v.(*Broker).dial(c)
}

// Handler is called in the session's reader goroutine for every decoded client message.
type Handler func(s *Session, m message.Message)

type Broker struct {
	Address string
	mu      sync.Mutex
	sess    []*Session
	// OnDial may refuse a dial (returning an error) or configure the new session.
	OnDial  func(idx int, c transport.DialConfig) error
	Handler Handler
	// AutoPong answers client pings (default true via New).
	AutoPong atomic.Bool
	// PongDelay delays every pong.
	PongDelay atomic.Int64
	DialCount atomic.Int32
	newSess   chan *Session
	// Unreliable (default off): every link dialled while it is set also has memtr's unreliable
	// (datagram-like) channel, so the client's transport answers AsUnreliable() with ok.
	Unreliable atomic.Bool
}

func New(h Handler) *Broker {
	regOnce.Do(func() { iscp.VerifRegisterDialer(TransportName, func() transport.Dialer { return dialer{} }) })
	b := &Broker{Address: fmt.Sprintf("verif-%d", addrSeq.Add(1)), Handler: h, newSess: make(chan *Session, 64)}
	b.AutoPong.Store(true)
	registry.Store(b.Address, b)
	return b
}

func (b *Broker) Release() { registry.Delete(b.Address) }

func (b *Broker) dial(c transport.DialConfig) (transport.Transport, error) {
	idx := int(b.DialCount.Add(1)) - 1
	if b.OnDial != nil {
		if err := b.OnDial(idx, c); err != nil {
			return nil, err
		}
	}
	l := memtr.NewLink(transport.NegotiationParams{Encoding: transport.EncodingNameProtobuf})
	if b.Unreliable.Load() {
		l.EnableUnreliable()
	}
	s := &Session{Idx: idx, B: b, Link: l, Dial: c}
	s.Enc = encoding.NewTransport(&encoding.TransportConfig{Transport: l.Server(), Encoding: protobuf.NewEncoding()})
	b.mu.Lock()
	b.sess = append(b.sess, s)
	b.mu.Unlock()
	go s.loop()
	select {
	case b.newSess <- s:
	default:
	}
	return l.Client(), nil
}

// Sessions returns a snapshot of all incarnations so far.
func (b *Broker) Sessions() []*Session {
	b.mu.Lock()
	defer b.mu.Unlock()
	return append([]*Session(nil), b.sess...)
}

// Current returns the latest incarnation (nil if none).
func (b *Broker) Current() *Session {
	b.mu.Lock()
	defer b.mu.Unlock()
	if len(b.sess) == 0 {
		return nil
	}
	return b.sess[len(b.sess)-1]
}

// WaitSession waits for incarnation idx to exist.
func (b *Broker) WaitSession(idx int, d time.Duration) *Session {
	deadline := time.Now().Add(d)
	for time.Now().Before(deadline) {
		b.mu.Lock()
		if len(b.sess) > idx {
			s := b.sess[idx]
			b.mu.Unlock()
			return s
		}
		b.mu.Unlock()
		time.Sleep(200 * time.Microsecond)
	}
	return nil
}

type Logged struct {
	N   int // position in the session's client message stream (0-based)
	Msg message.Message
	At  time.Time
}

type Session struct {
	Idx  int
	B    *Broker
	Link *memtr.Link
	Enc  *encoding.Transport
	Dial transport.DialConfig

	mu     sync.Mutex
	log    []Logged
	Token  string
	Conn   *message.ConnectRequest
	done   atomic.Bool
	wmu    sync.Mutex
	Pings  atomic.Int32
}

func (s *Session) loop() {
	defer s.done.Store(true)
	for {
		m, err := s.Enc.Read()
		if err != nil {
			return
		}
		s.mu.Lock()
		n := len(s.log)
		s.log = append(s.log, Logged{N: n, Msg: m, At: time.Now()})
		s.mu.Unlock()
		switch v := m.(type) {
		case *message.ConnectRequest:
			s.mu.Lock()
			s.Conn = v
			if v.ExtensionFields != nil {
				s.Token = v.ExtensionFields.AccessToken
			}
			s.mu.Unlock()
		case *message.Ping:
			s.Pings.Add(1)
			if s.B.AutoPong.Load() {
				if d := s.B.PongDelay.Load(); d > 0 {
					id := v.RequestID
					go func() {
						time.Sleep(time.Duration(d))
						s.Send(&message.Pong{RequestID: id})
					}()
				} else {
					s.Send(&message.Pong{RequestID: v.RequestID})
				}
			}
		}
		if s.B.Handler != nil {
			s.B.Handler(s, m)
		}
	}
}

// Send writes a broker message to the client (serialised).
func (s *Session) Send(m message.Message) error {
	s.wmu.Lock()
	defer s.wmu.Unlock()
	return s.Enc.Write(m)
}

// Log returns a snapshot of the client messages received so far.
func (s *Session) Log() []Logged {
	s.mu.Lock()
	defer s.mu.Unlock()
	return append([]Logged(nil), s.log...)
}

func (s *Session) Done() bool { return s.done.Load() }

// AcceptConnect is the standard handshake answer.
func AcceptConnect(s *Session, m *message.ConnectRequest) {
	s.Send(&message.ConnectResponse{RequestID: m.RequestID, ProtocolVersion: m.ProtocolVersion,
		ResultCode: message.ResultCodeSucceeded, ResultString: "OK"})
}

// WaitFor polls cond until it holds or the deadline passes.
func WaitFor(d time.Duration, cond func() bool) bool {
	deadline := time.Now().Add(d)
	for {
		if cond() {
			return true
		}
		if time.Now().After(deadline) {
			return false
		}
		time.Sleep(100 * time.Microsecond)
	}
}

package broker

import (
	"errors"

	"github.com/aptpod/iscp-go/encoding"
	"github.com/aptpod/iscp-go/encoding/protobuf"
	"github.com/aptpod/iscp-go/message"
)

// SendUnreliable writes a broker message to the client on the link's unreliable channel
// (Broker.Unreliable must have been set before the dial).
func (s *Session) SendUnreliable(m message.Message) error {
	us := s.Link.UnreliableServer()
	if us == nil {
		return errors.New("verif broker: the link has no unreliable channel")
	}
	s.wmu.Lock()
	defer s.wmu.Unlock()
	enc := encoding.NewTransport(&encoding.TransportConfig{Transport: us, Encoding: protobuf.NewEncoding()})
	return enc.Write(m)
}

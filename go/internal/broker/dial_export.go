package broker

import "github.com/aptpod/iscp-go/transport"

// Dial dials a registered broker address directly, exactly as the registered dialer does: for
// harnesses that wrap the client end of the link in a transport of their own (h-keepalive: a
// transport whose Close takes time) and register it under another transport name.
func Dial(c transport.DialConfig) (transport.Transport, error) { return dialer{}.Dial(c) }

// Package c13util holds the Go mirrors of the small helper functions of coq/Model/Window.v
// (piece expansion, digest, observed-bytes formatting) shared by the C13 harnesses.
package c13util

import (
	"fmt"
	"strings"

	"verif/internal/coqfmt"
)

// Piece mirrors Model/Window.v `piece`: Kind "lit" (Bytes), "rnd" (Seed, N), "back" (D, N).
type Piece struct {
	Kind  string `json:"k"`
	Bytes []byte `json:"b,omitempty"`
	Seed  uint64 `json:"s,omitempty"`
	D     int    `json:"d,omitempty"`
	N     int    `json:"n,omitempty"`
}

func LcgBytes(n int, x uint64) []byte {
	out := make([]byte, 0, n+1)
	for len(out) < n {
		x = (69069*x + 12345) & 2147483647
		out = append(out, byte(x>>16), byte(x>>8))
	}
	return out[:n]
}

// ExpandPiece mirrors expand_piece (including its behaviour on out-of-range requests).
func ExpandPiece(hist []byte, p Piece) []byte {
	switch p.Kind {
	case "lit":
		return append([]byte(nil), p.Bytes...)
	case "rnd":
		return LcgBytes(p.N, p.Seed)
	case "back":
		skip := len(hist) - p.D
		if skip < 0 {
			skip = 0 // N subtraction truncates at 0
		}
		rest := hist[skip:]
		n := p.N
		if n > len(rest) {
			n = len(rest)
		}
		return append([]byte(nil), rest[:n]...)
	}
	panic("unknown piece kind " + p.Kind)
}

func ExpandMsg(hist []byte, ps []Piece) []byte {
	h := append([]byte(nil), hist...)
	var m []byte
	for _, p := range ps {
		b := ExpandPiece(h, p)
		m = append(m, b...)
		h = append(h, b...)
	}
	return m
}

// ExpandMsgs expands the messages of one writer (history = everything that writer wrote before).
func ExpandMsgs(ms [][]Piece) [][]byte {
	var hist []byte
	out := make([][]byte, 0, len(ms))
	for _, ps := range ms {
		m := ExpandMsg(hist, ps)
		if m == nil {
			m = []byte{}
		}
		out = append(out, m)
		hist = append(hist, m...)
	}
	return out
}

func PieceTerm(p Piece) string {
	switch p.Kind {
	case "lit":
		return "PLit " + coqfmt.Bytes(p.Bytes)
	case "rnd":
		return fmt.Sprintf("PRnd %d %d", p.Seed, p.N)
	case "back":
		return fmt.Sprintf("PBack %d %d", p.D, p.N)
	}
	panic("unknown piece kind " + p.Kind)
}

func MsgTerm(ps []Piece) string {
	items := make([]string, len(ps))
	for i, p := range ps {
		items[i] = PieceTerm(p)
	}
	return coqfmt.List(items)
}

func WritersTerm(ws [][][]Piece) string {
	var wsT []string
	for _, w := range ws {
		var msT []string
		for _, m := range w {
			msT = append(msT, MsgTerm(m))
		}
		wsT = append(wsT, coqfmt.List(msT))
	}
	return coqfmt.List(wsT)
}

// Digest mirrors Model/Window.v `digest`.
func Digest(b []byte) uint64 {
	var h uint64
	for _, x := range b {
		h = (257*h + uint64(x) + 1) & (1<<61 - 1)
	}
	return h
}

// FullLimit is the length up to which observed bytes are recorded in full.
const FullLimit = 96

// Obs formats observed bytes as an `obsb` term.
func Obs(b []byte) string {
	if len(b) <= FullLimit {
		return "OFull " + coqfmt.Bytes(b)
	}
	return fmt.Sprintf("ODig %d %d", len(b), Digest(b))
}

func OptObs(b []byte, ok bool) string {
	if !ok {
		return "None"
	}
	return "(Some (" + Obs(b) + "))"
}

func BytesList(bs [][]byte) string {
	items := make([]string, len(bs))
	for i, b := range bs {
		items[i] = coqfmt.Bytes(b)
	}
	return coqfmt.List(items)
}

func OptBytes(b []byte, ok bool) string {
	if !ok {
		return "None"
	}
	return "(Some " + coqfmt.Bytes(b) + ")"
}

func Join(items []string) string { return strings.Join(items, " ") }

// Package fakequic is an in-memory quic.Connection for the C13/C14 harness (no UDP).
//
// One Conn has one outgoing uni stream (OpenUniStream) whose every Write call is logged in
// order and forwarded to the peer's incoming stream, and a datagram path: SendDatagram only
// logs (the harness decides what is delivered to the peer, in which order) and
// ReceiveDatagram hands out what the harness injected with Deliver.
package fakequic

import (
	"context"
	"errors"
	"io"
	"net"
	"runtime"
	"sync"
	"sync/atomic"
	"time"

	quic "github.com/quic-go/quic-go"
)

type Options struct {
	Yield     bool // yield/sleep inside stream Write and SendDatagram (hostile scheduling for concurrent writers)
	YieldAll  bool `json:",omitempty"` // with Yield: EVERY stream Write sleeps 50 us before it takes the wire and 50 us after it released it (SendDatagram: before), so that between two Write calls of one goroutine the other writers get their turn (near-deterministic interleaving)
	ReadChunk int  // the receive stream hands out at most this many bytes per Read (0 = no limit)
	Seed      uint64
}

type Conn struct {
	opt  Options
	peer *Conn
	wire *sync.Mutex // shared by the pair: log order = forwarding order

	mu       sync.Mutex
	cond     *sync.Cond
	writes   [][]byte // every Write call on the send stream, in order
	inbuf    []byte   // bytes forwarded by the peer's send stream, not yet read
	dgrams   [][]byte // every SendDatagram payload, in order
	closed   bool
	ctr      uint64
	dgIn     chan []byte
	dgCalls  int64 // number of ReceiveDatagram calls started
	closedCh chan struct{}
	ctx      context.Context
	cancel   context.CancelFunc
}

var _ quic.Connection = (*Conn)(nil)

func Pair(opt Options) (*Conn, *Conn) {
	mk := func() *Conn {
		c := &Conn{opt: opt, dgIn: make(chan []byte, 1<<16), closedCh: make(chan struct{})}
		c.cond = sync.NewCond(&c.mu)
		c.ctx, c.cancel = context.WithCancel(context.Background())
		return c
	}
	a, b := mk(), mk()
	a.peer, b.peer = b, a
	a.wire = &sync.Mutex{}
	b.wire = a.wire
	return a, b
}

func mix(z uint64) uint64 {
	z += 0x9e3779b97f4a7c15
	z = (z ^ (z >> 30)) * 0xbf58476d1ce4e5b9
	z = (z ^ (z >> 27)) * 0x94d049bb133111eb
	return z ^ (z >> 31)
}

func (c *Conn) yield() {
	if !c.opt.Yield {
		return
	}
	if c.opt.YieldAll {
		time.Sleep(50 * time.Microsecond)
		return
	}
	k := mix(c.opt.Seed + atomic.AddUint64(&c.ctr, 1))
	switch k % 3 {
	case 0:
	case 1:
		runtime.Gosched()
	default:
		time.Sleep(time.Duration(10+(k>>8)%200) * time.Microsecond)
	}
}

func closedErr() error { return &quic.ApplicationError{ErrorCode: 0, Remote: false} }

// Writes returns the logged stream Write calls.
func (c *Conn) Writes() [][]byte {
	c.mu.Lock()
	defer c.mu.Unlock()
	return append([][]byte(nil), c.writes...)
}

// Datagrams returns the logged SendDatagram payloads.
func (c *Conn) Datagrams() [][]byte {
	c.mu.Lock()
	defer c.mu.Unlock()
	return append([][]byte(nil), c.dgrams...)
}

// Deliver hands one datagram to this connection's ReceiveDatagram.
func (c *Conn) Deliver(b []byte) { c.dgIn <- append([]byte(nil), b...) }

// ReceiveCalls is the number of ReceiveDatagram calls started so far: when it reaches n+1, the
// first n delivered datagrams have been fully processed by the (single) receiving goroutine.
func (c *Conn) ReceiveCalls() int64 { return atomic.LoadInt64(&c.dgCalls) }

// ---- quic.Connection ----

func (c *Conn) AcceptStream(ctx context.Context) (quic.Stream, error) {
	select {
	case <-ctx.Done():
		return nil, ctx.Err()
	case <-c.closedCh:
		return nil, closedErr()
	}
}

func (c *Conn) AcceptUniStream(ctx context.Context) (quic.ReceiveStream, error) {
	select {
	case <-c.closedCh:
		return nil, closedErr()
	default:
	}
	return &recvStream{c: c}, nil
}

func (c *Conn) OpenStream() (quic.Stream, error) { return nil, errors.New("fakequic: no bidi streams") }
func (c *Conn) OpenStreamSync(context.Context) (quic.Stream, error) {
	return nil, errors.New("fakequic: no bidi streams")
}
func (c *Conn) OpenUniStream() (quic.SendStream, error) { return &sendStream{c: c}, nil }
func (c *Conn) OpenUniStreamSync(context.Context) (quic.SendStream, error) {
	return &sendStream{c: c}, nil
}
func (c *Conn) LocalAddr() net.Addr  { return &net.UDPAddr{} }
func (c *Conn) RemoteAddr() net.Addr { return &net.UDPAddr{} }

func (c *Conn) CloseWithError(quic.ApplicationErrorCode, string) error {
	c.mu.Lock()
	if !c.closed {
		c.closed = true
		close(c.closedCh)
		c.cancel()
	}
	c.cond.Broadcast()
	c.mu.Unlock()
	return nil
}

func (c *Conn) Context() context.Context              { return c.ctx }
func (c *Conn) ConnectionState() quic.ConnectionState { return quic.ConnectionState{} }

func (c *Conn) SendDatagram(p []byte) error {
	c.yield()
	c.mu.Lock()
	defer c.mu.Unlock()
	if c.closed {
		return closedErr()
	}
	c.dgrams = append(c.dgrams, append([]byte(nil), p...))
	return nil
}

func (c *Conn) ReceiveDatagram(ctx context.Context) ([]byte, error) {
	atomic.AddInt64(&c.dgCalls, 1)
	select {
	case b := <-c.dgIn:
		return b, nil
	case <-ctx.Done():
		return nil, ctx.Err()
	case <-c.closedCh:
		return nil, closedErr()
	}
}

// ---- streams ----

type sendStream struct{ c *Conn }

func (s *sendStream) StreamID() quic.StreamID { return 2 }
func (s *sendStream) Write(p []byte) (int, error) {
	n, err := s.write(p)
	if s.c.opt.Yield && s.c.opt.YieldAll { // the bytes are accepted and on the wire: let the other writers run before returning
		time.Sleep(50 * time.Microsecond)
	}
	return n, err
}

func (s *sendStream) write(p []byte) (int, error) {
	s.c.yield()
	s.c.wire.Lock()
	defer s.c.wire.Unlock()
	s.c.mu.Lock()
	if s.c.closed {
		s.c.mu.Unlock()
		return 0, closedErr()
	}
	s.c.writes = append(s.c.writes, append([]byte(nil), p...))
	s.c.mu.Unlock()
	peer := s.c.peer
	peer.mu.Lock()
	peer.inbuf = append(peer.inbuf, p...)
	peer.cond.Broadcast()
	peer.mu.Unlock()
	return len(p), nil
}
func (s *sendStream) Close() error                     { return nil }
func (s *sendStream) CancelWrite(quic.StreamErrorCode) {}
func (s *sendStream) Context() context.Context         { return s.c.ctx }
func (s *sendStream) SetWriteDeadline(time.Time) error { return nil }

type recvStream struct{ c *Conn }

func (r *recvStream) StreamID() quic.StreamID { return 3 }
func (r *recvStream) Read(p []byte) (int, error) {
	c := r.c
	c.mu.Lock()
	defer c.mu.Unlock()
	for len(c.inbuf) == 0 && !c.closed {
		c.cond.Wait()
	}
	if len(c.inbuf) == 0 {
		return 0, closedErr()
	}
	if len(p) == 0 {
		return 0, nil
	}
	n := len(c.inbuf)
	if n > len(p) {
		n = len(p)
	}
	if c.opt.ReadChunk > 0 && n > c.opt.ReadChunk {
		n = c.opt.ReadChunk
	}
	copy(p, c.inbuf[:n])
	c.inbuf = c.inbuf[n:]
	return n, nil
}
func (r *recvStream) CancelRead(quic.StreamErrorCode) {}
func (r *recvStream) SetReadDeadline(time.Time) error { return nil }

var _ io.Reader = (*recvStream)(nil)

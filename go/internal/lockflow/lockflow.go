// Package lockflow is the shared front end of the translators T3 (gen-lockcfg), T4 (gen-waits)
// and T5 (gen-guards): it loads the library packages of /repo with full type information,
// builds one control-flow graph per function and function literal (golang.org/x/tools/go/cfg)
// and annotates every CFG node with the lock events, calls, blocking statements and (when a
// guard map is given) guarded-field accesses of its statements, in evaluation order.
//
// It fails loudly (error naming file:line) on lock-related syntax it does not understand.
package lockflow

import (
	"fmt"
	"go/ast"
	"go/printer"
	"go/token"
	"go/types"
	"os"
	"sort"
	"strings"

	"golang.org/x/tools/go/cfg"
	"golang.org/x/tools/go/packages"
	"golang.org/x/tools/go/types/typeutil"
)

// Dirs are the package trees (relative to the repository root) that are translated.
var Dirs = []string{"iscp", "wire", "transport", "encoding", "internal"}

type Lock struct {
	Name string // selector path, e.g. "u.mu", "s.RWMutex", "u.receivedAck.L"
	Mode string // "R" or "W"
}

func (l Lock) String() string { return l.Name + ":" + l.Mode }

type Event struct {
	Kind   string // Acq Rel DeferRel CondWait Call Block Access Go DeferCall
	Lock   Lock   // Acq Rel DeferRel CondWait
	Class  string // declaring "pkg.Struct.field" of the mutex (or "local:<name>")
	Callee string // Call Go DeferCall
	Subst  [][2]string
	BKind  string // Block: send recv range-recv select cond-wait wg-wait eg-wait sleep
	Chan   string // Block: rendered channel expression (send/recv/range), or cond
	Alts   []string
	Evid   []string
	Line   int
	Pos    token.Pos
	// Access
	Struct, Field, AKind string // AKind: R W A
	Base                 string // rendered base expression
	InCtor               bool
	// filled by the dataflow
	Held []Lock
}

type Node struct {
	Events []Event
	Succs  []int
	Exit   bool
	Live   bool
	Kind   string
	// dataflow: state at entry (nil = unreachable)
	In *State
}

type Func struct {
	Name      string
	Pkg       *packages.Package
	RelPkg    string
	File      string // relative to the repo root
	Line      int
	Decl      *ast.FuncDecl // nil for literals
	Lit       *ast.FuncLit
	Body      *ast.BlockStmt
	Parent    *Func
	Usage     string // decl | go | defer | call | arg:<callee> | value
	Nodes     []Node
	EntryHeld []Lock // only for immediately deferred literals with net releases
	Recv      string // receiver identifier ("" if none)
	Params    []string
	Obj       *types.Func
	nlits     int

	MentionsLock bool
	HasBlock     bool
	HasAccess    bool
	Balanced     bool
	Why          string
	Escapes      bool // referenced other than as the callee of a static call / exported / method (may be called through an interface)
}

type GuardSpec struct {
	Struct string   `json:"struct"` // "iscp.Upstream" (package path relative to module + type name)
	Field  string   `json:"field"`
	Guard  string   `json:"guard"` // sibling field naming the mutex ("mu", "RWMutex", ...)
	RW     bool     `json:"rw"`    // guard is an RWMutex: reads may hold it in read mode
	Note   string   `json:"note,omitempty"`
	Status string   `json:"status"`          // enforced | suspected (a genuine unsynchronised access is argued in Note)
	Known  []string `json:"known,omitempty"` // suspected: the functions that contain the unsynchronised accesses
}

type Prog struct {
	Fset    *token.FileSet
	Repo    string
	ModPath string
	Pkgs    []*packages.Package
	Funcs   []*Func
	ByName  map[string]*Func
	byObj   map[string]*Func
	Guards  map[string]GuardSpec // "Struct.Field"
	// cond aliases: "pkg.Struct.cond" -> sibling field holding the same mutex
	CondAlias map[string]string
	// channels: make() capacities and closes seen, keyed by field/var name
	ChanCap      map[string][]int
	DeferClosed  map[string]bool
	Closed       map[string]bool
	FieldUsers   map[string][]string // "pkg.Struct.field" -> "func:line:how" (only for tracked fields)
	aliasOf      map[*Func]map[types.Object]localAlias
	TrackFields  map[string]bool
	IfaceCallers map[string][]string // interface method full name -> functions calling it (tracked names only)
	IfaceMethods map[string]bool     // names of methods that are called through an interface somewhere
}

func fatalf(format string, a ...any) {
	fmt.Fprintf(os.Stderr, "lockflow: "+format+"\n", a...)
	os.Exit(2)
}

func (p *Prog) pos(n token.Pos) string {
	ps := p.Fset.Position(n)
	return fmt.Sprintf("%s:%d", p.rel(ps.Filename), ps.Line)
}

func (p *Prog) rel(file string) string {
	r := strings.TrimPrefix(file, p.Repo)
	return strings.TrimPrefix(r, "/")
}

func (p *Prog) relPkg(path string) string {
	if path == p.ModPath {
		return "."
	}
	return strings.TrimPrefix(path, p.ModPath+"/")
}

// Load type-checks the library packages of repo and builds all annotated CFGs.
func Load(repo string, guards []GuardSpec, track []string) *Prog {
	repo = strings.TrimRight(repo, "/")
	p := &Prog{Repo: repo, ByName: map[string]*Func{}, byObj: map[string]*Func{}, Guards: map[string]GuardSpec{},
		CondAlias: map[string]string{}, ChanCap: map[string][]int{}, DeferClosed: map[string]bool{}, Closed: map[string]bool{},
		FieldUsers: map[string][]string{}, TrackFields: map[string]bool{}, IfaceCallers: map[string][]string{}, IfaceMethods: map[string]bool{}}
	for _, g := range guards {
		p.Guards[g.Struct+"."+g.Field] = g
	}
	for _, t := range track {
		p.TrackFields[t] = true
	}
	var patterns []string
	for _, d := range Dirs {
		patterns = append(patterns, "./"+d+"/...")
	}
	conf := &packages.Config{
		Mode: packages.NeedName | packages.NeedFiles | packages.NeedCompiledGoFiles | packages.NeedImports |
			packages.NeedDeps | packages.NeedTypes | packages.NeedSyntax | packages.NeedTypesInfo | packages.NeedModule,
		Dir:   repo,
		Tests: false,
		Env:   append(os.Environ(), "GOFLAGS=-mod=mod", "GOPROXY=off"),
	}
	pkgs, err := packages.Load(conf, patterns...)
	if err != nil {
		fatalf("packages.Load: %v", err)
	}
	sort.Slice(pkgs, func(i, j int) bool { return pkgs[i].PkgPath < pkgs[j].PkgPath })
	for _, pk := range pkgs {
		if len(pk.Errors) > 0 {
			fatalf("package %s does not type-check: %v", pk.PkgPath, pk.Errors[0])
		}
		if pk.Module == nil {
			fatalf("package %s has no module", pk.PkgPath)
		}
		p.ModPath = pk.Module.Path
		p.Fset = pk.Fset
	}
	p.Pkgs = pkgs
	// pass 1: declare functions (so that calls can be resolved), cond aliases, channel facts
	for _, pk := range pkgs {
		for _, f := range pk.Syntax {
			fname := p.Fset.Position(f.Pos()).Filename
			if strings.HasSuffix(fname, "_test.go") {
				continue
			}
			for _, d := range f.Decls {
				fd, ok := d.(*ast.FuncDecl)
				if !ok || fd.Body == nil {
					continue
				}
				obj := pk.TypesInfo.Defs[fd.Name].(*types.Func)
				fn := &Func{Name: p.funcName(obj), Pkg: pk, RelPkg: p.relPkg(pk.PkgPath), File: p.rel(fname),
					Line: p.Fset.Position(fd.Pos()).Line, Decl: fd, Body: fd.Body, Usage: "decl", Obj: obj}
				if fd.Recv != nil && len(fd.Recv.List) == 1 && len(fd.Recv.List[0].Names) == 1 {
					fn.Recv = fd.Recv.List[0].Names[0].Name
				}
				for _, fl := range fd.Type.Params.List {
					for _, nm := range fl.Names {
						fn.Params = append(fn.Params, nm.Name)
					}
					if len(fl.Names) == 0 {
						fn.Params = append(fn.Params, "_")
					}
				}
				if old := p.ByName[fn.Name]; old != nil {
					// e.g. several init functions or build-tagged duplicates
					fn.Name = fmt.Sprintf("%s@%d", fn.Name, fn.Line)
				}
				p.Funcs = append(p.Funcs, fn)
				p.ByName[fn.Name] = fn
				p.byObj[obj.FullName()] = fn
			}
			p.scanFacts(pk, f)
		}
	}
	// pass 2: build CFGs (literals are appended to p.Funcs while iterating)
	for i := 0; i < len(p.Funcs); i++ {
		p.build(p.Funcs[i])
	}
	for _, fn := range p.Funcs {
		p.dataflow(fn)
	}
	return p
}

func (p *Prog) funcName(obj *types.Func) string {
	obj = obj.Origin()
	pk := "?"
	if obj.Pkg() != nil {
		pk = p.relPkg(obj.Pkg().Path())
	}
	sig := obj.Type().(*types.Signature)
	if r := sig.Recv(); r != nil {
		t := r.Type()
		if pt, ok := t.(*types.Pointer); ok {
			t = pt.Elem()
		}
		if nt, ok := t.(*types.Named); ok {
			return pk + "." + nt.Obj().Name() + "." + obj.Name()
		}
		return pk + ".?." + obj.Name()
	}
	return pk + "." + obj.Name()
}

// scanFacts records sync.NewCond aliases, channel capacities and close() sites of one file.
func (p *Prog) scanFacts(pk *packages.Package, f *ast.File) {
	info := pk.TypesInfo
	ast.Inspect(f, func(n ast.Node) bool {
		switch x := n.(type) {
		case *ast.CompositeLit:
			t := info.TypeOf(x)
			if t == nil {
				return true
			}
			nt, _ := deref(t).(*types.Named)
			if nt == nil {
				return true
			}
			sname := p.relPkg(nt.Obj().Pkg().Path()) + "." + nt.Obj().Name()
			// F1: sync.NewCond(&v) together with F2: &v  => F1.L aliases F2
			condOf := map[string]string{} // ident -> field
			addrOf := map[string]string{}
			for _, el := range x.Elts {
				kv, ok := el.(*ast.KeyValueExpr)
				if !ok {
					continue
				}
				key, ok := kv.Key.(*ast.Ident)
				if !ok {
					continue
				}
				if c, ok := kv.Value.(*ast.CallExpr); ok {
					if isPkgFunc(info, c, "sync", "NewCond") && len(c.Args) == 1 {
						if u, ok := c.Args[0].(*ast.UnaryExpr); ok && u.Op == token.AND {
							if id, ok := u.X.(*ast.Ident); ok {
								condOf[id.Name] = key.Name
							}
						}
					}
					if isBuiltin(info, c, "make") && len(c.Args) >= 1 {
						if _, ok := info.TypeOf(c.Args[0]).Underlying().(*types.Chan); ok {
							p.ChanCap[key.Name] = append(p.ChanCap[key.Name], chanCap(info, c))
						}
					}
				}
				if u, ok := kv.Value.(*ast.UnaryExpr); ok && u.Op == token.AND {
					if id, ok := u.X.(*ast.Ident); ok {
						if _, dup := addrOf[id.Name]; dup && isMutexT(info.TypeOf(id)) {
							fatalf("%s: the address of mutex %s is stored in two fields; aliasing not understood", p.Fset.Position(u.Pos()), id.Name)
						}
						addrOf[id.Name] = key.Name
					}
				}
			}
			for v, cf := range condOf {
				if mf, ok := addrOf[v]; ok {
					p.CondAlias[sname+"."+cf] = mf
				}
			}
		case *ast.AssignStmt:
			for i, r := range x.Rhs {
				c, ok := r.(*ast.CallExpr)
				if !ok || !isBuiltin(info, c, "make") || len(c.Args) < 1 || i >= len(x.Lhs) {
					continue
				}
				if _, ok := info.TypeOf(c.Args[0]).Underlying().(*types.Chan); !ok {
					continue
				}
				p.ChanCap[lastName(x.Lhs[i])] = append(p.ChanCap[lastName(x.Lhs[i])], chanCap(info, c))
			}
		case *ast.DeferStmt:
			if isBuiltin(info, x.Call, "close") && len(x.Call.Args) == 1 {
				p.DeferClosed[lastName(x.Call.Args[0])] = true
			}
			if fl, ok := x.Call.Fun.(*ast.FuncLit); ok {
				ast.Inspect(fl.Body, func(m ast.Node) bool {
					if c, ok := m.(*ast.CallExpr); ok && isBuiltin(info, c, "close") && len(c.Args) == 1 {
						p.DeferClosed[lastName(c.Args[0])] = true
					}
					return true
				})
			}
		case *ast.CallExpr:
			if isBuiltin(info, x, "close") && len(x.Args) == 1 {
				p.Closed[lastName(x.Args[0])] = true
			}
		}
		return true
	})
}

func chanCap(info *types.Info, c *ast.CallExpr) int {
	if len(c.Args) < 2 {
		return 0
	}
	if tv, ok := info.Types[c.Args[1]]; ok && tv.Value != nil {
		var n int
		fmt.Sscanf(tv.Value.String(), "%d", &n)
		return n
	}
	return -1 // dynamic capacity
}

func lastName(e ast.Expr) string {
	switch x := e.(type) {
	case *ast.Ident:
		return x.Name
	case *ast.SelectorExpr:
		return x.Sel.Name
	case *ast.ParenExpr:
		return lastName(x.X)
	case *ast.StarExpr:
		return lastName(x.X)
	case *ast.IndexExpr:
		return lastName(x.X)
	}
	return "?"
}

func deref(t types.Type) types.Type {
	if pt, ok := t.Underlying().(*types.Pointer); ok {
		return pt.Elem()
	}
	return t
}

func isBuiltin(info *types.Info, c *ast.CallExpr, name string) bool {
	id, ok := unparen(c.Fun).(*ast.Ident)
	if !ok || id.Name != name {
		return false
	}
	_, ok = info.Uses[id].(*types.Builtin)
	return ok
}

func isPkgFunc(info *types.Info, c *ast.CallExpr, pkg, name string) bool {
	sel, ok := unparen(c.Fun).(*ast.SelectorExpr)
	if !ok || sel.Sel.Name != name {
		return false
	}
	fn, ok := info.Uses[sel.Sel].(*types.Func)
	return ok && fn.Pkg() != nil && fn.Pkg().Path() == pkg
}

func unparen(e ast.Expr) ast.Expr {
	for {
		p, ok := e.(*ast.ParenExpr)
		if !ok {
			return e
		}
		e = p.X
	}
}

// ---------------------------------------------------------------------------------------------
// per-function construction

type selectInfo struct {
	stmt    *ast.SelectStmt
	hasDef  bool
	emitted bool
	alts    []string
	evid    []string
}

type fnBuilder struct {
	p       *Prog
	fn      *Func
	info    *types.Info
	cur     *[]Event
	comm    map[ast.Stmt]*selectInfo    // select comm statement -> its select
	commRcv map[*ast.UnaryExpr]bool     // receive expressions that are select alternatives
	ctorVar map[string]string           // local ident -> struct name it was freshly allocated as
	alias   map[types.Object]localAlias // local variable bound to the (map / slice) value or element of a guarded field
}

// localAlias: `chs := X.f[k]` / `m := X.f` / `for _, v := range X.f` where f is a guarded field and the
// local has map or slice type: the local names mutable storage that belongs to the guarded
// field, so indexing it is an access to that field - with whatever locks are held THEN.
type localAlias struct{ sname, field, base string }

func (p *Prog) build(fn *Func) {
	fb := &fnBuilder{p: p, fn: fn, info: fn.Pkg.TypesInfo, comm: map[ast.Stmt]*selectInfo{}, commRcv: map[*ast.UnaryExpr]bool{}, ctorVar: map[string]string{},
		alias: map[types.Object]localAlias{}}
	fb.prepass()
	fb.findAliases()
	g := cfg.New(fn.Body, fb.mayReturn)
	fn.Nodes = make([]Node, len(g.Blocks))
	for i, b := range g.Blocks {
		nd := &fn.Nodes[i]
		nd.Live = b.Live
		nd.Kind = b.Kind.String()
		for _, s := range b.Succs {
			nd.Succs = append(nd.Succs, int(s.Index))
		}
		nd.Exit = len(b.Succs) == 0
		fb.cur = &nd.Events
		if b.Kind == cfg.KindRangeLoop {
			if rs, ok := b.Stmt.(*ast.RangeStmt); ok {
				if _, ok := fb.info.TypeOf(rs.X).Underlying().(*types.Chan); ok {
					fb.block("range-recv", rs.X, rs.Pos(), nil)
				}
			}
		}
		for _, n := range b.Nodes {
			fb.visit(n)
		}
	}
	for i := range fn.Nodes {
		for _, e := range fn.Nodes[i].Events {
			switch e.Kind {
			case "Acq", "Rel", "DeferRel", "CondWait":
				fn.MentionsLock = true
			case "Block":
				fn.HasBlock = true
			case "Access":
				fn.HasAccess = true
			}
		}
	}
	if len(fn.EntryHeld) > 0 {
		fn.MentionsLock = true
	}
	fb.condWakers()
}

// condWakers attaches waker evidence to the cond.Wait events of this function: for every
// cancellation waker found in its body (nested literals included) that Broadcasts / Signals the
// same condition variable -
//
//	context.AfterFunc(ctx, f)            f a literal, a local bound to a literal, or a method value
//	go func() { <-ctx.Done(); ... }()    containing the Broadcast
//
// - one entry "waker-locked" when the Broadcast runs between Lock and Unlock of some mutex inside
// the waker, and "waker-bare" when it does not (in particular the bare method value
// cond.Broadcast).  A bare Broadcast that fires between the waiter's predicate check and its
// Wait() wakes nobody: the lost wake-up.  The Coq side (cond_wakers_ok) rejects every bare waker
// and demands the locked ones for the protocols whose bound rests on them.
func (fb *fnBuilder) condWakers() {
	type site struct{ node, idx int }
	waits := map[string][]site{}
	for i := range fb.fn.Nodes {
		for j, e := range fb.fn.Nodes[i].Events {
			if e.Kind == "Block" && e.BKind == "cond-wait" {
				waits[e.Chan] = append(waits[e.Chan], site{i, j})
			}
		}
	}
	if len(waits) == 0 || fb.fn.Body == nil {
		return
	}
	info := fb.info
	isCondNotify := func(c *ast.CallExpr) (cond string, ok bool) {
		sel, ok2 := unparen(c.Fun).(*ast.SelectorExpr)
		if !ok2 || (sel.Sel.Name != "Broadcast" && sel.Sel.Name != "Signal") {
			return "", false
		}
		if f, ok3 := info.Uses[sel.Sel].(*types.Func); !ok3 || f.Pkg() == nil || f.Pkg().Path() != "sync" {
			return "", false
		}
		return fb.renderLoose(sel.X), true
	}
	// classify a waker body: which conds it notifies, and whether a Lock precedes the notify
	classify := func(body *ast.BlockStmt) map[string]string {
		res := map[string]string{}
		locked := false
		ast.Inspect(body, func(n ast.Node) bool {
			c, ok := n.(*ast.CallExpr)
			if !ok {
				return true
			}
			if sel, ok := unparen(c.Fun).(*ast.SelectorExpr); ok && (sel.Sel.Name == "Lock" || sel.Sel.Name == "RLock") {
				locked = true
			}
			if cond, ok := isCondNotify(c); ok {
				if locked {
					res[cond] = "waker-locked"
				} else if res[cond] == "" {
					res[cond] = "waker-bare"
				}
			}
			return true
		})
		return res
	}
	// local identifiers bound to function literals
	lits := map[types.Object]*ast.FuncLit{}
	ast.Inspect(fb.fn.Body, func(n ast.Node) bool {
		if as, ok := n.(*ast.AssignStmt); ok && len(as.Lhs) == len(as.Rhs) {
			for i, l := range as.Lhs {
				if id, ok := l.(*ast.Ident); ok {
					if fl, ok := unparen(as.Rhs[i]).(*ast.FuncLit); ok {
						if o := info.ObjectOf(id); o != nil {
							lits[o] = fl
						}
					}
				}
			}
		}
		return true
	})
	add := func(cond, ev string) {
		for _, st := range waits[cond] {
			e := &fb.fn.Nodes[st.node].Events[st.idx]
			e.Evid = append(e.Evid, ev)
		}
	}
	ast.Inspect(fb.fn.Body, func(n ast.Node) bool {
		switch x := n.(type) {
		case *ast.CallExpr:
			if isPkgFunc(info, x, "context", "AfterFunc") && len(x.Args) == 2 {
				switch f := unparen(x.Args[1]).(type) {
				case *ast.FuncLit:
					for c, ev := range classify(f.Body) {
						add(c, ev)
					}
				case *ast.Ident:
					if fl := lits[info.ObjectOf(f)]; fl != nil {
						for c, ev := range classify(fl.Body) {
							add(c, ev)
						}
					}
				case *ast.SelectorExpr:
					// method value cond.Broadcast / cond.Signal
					if (f.Sel.Name == "Broadcast" || f.Sel.Name == "Signal") && info.Uses[f.Sel] != nil {
						if fn, ok := info.Uses[f.Sel].(*types.Func); ok && fn.Pkg() != nil && fn.Pkg().Path() == "sync" {
							add(fb.renderLoose(f.X), "waker-bare")
						}
					}
				}
			}
		case *ast.GoStmt:
			if fl, ok := unparen(x.Call.Fun).(*ast.FuncLit); ok {
				// only goroutines that wait for a cancellation: <-X.Done()
				waitsDone := false
				ast.Inspect(fl.Body, func(m ast.Node) bool {
					if u, ok := m.(*ast.UnaryExpr); ok && u.Op == token.ARROW {
						if c, ok := unparen(u.X).(*ast.CallExpr); ok {
							if s, ok := unparen(c.Fun).(*ast.SelectorExpr); ok && s.Sel.Name == "Done" {
								waitsDone = true
							}
						}
					}
					return true
				})
				if waitsDone {
					for c, ev := range classify(fl.Body) {
						add(c, ev)
					}
				}
			}
		}
		return true
	})
}

func (fb *fnBuilder) mayReturn(c *ast.CallExpr) bool {
	if isBuiltin(fb.info, c, "panic") {
		return false
	}
	if sel, ok := unparen(c.Fun).(*ast.SelectorExpr); ok {
		if fn, ok := fb.info.Uses[sel.Sel].(*types.Func); ok && fn.Pkg() != nil {
			full := fn.Pkg().Path() + "." + fn.Name()
			switch full {
			case "os.Exit", "log.Fatal", "log.Fatalf", "log.Fatalln", "log.Panic", "log.Panicf", "log.Panicln", "runtime.Goexit":
				return false
			}
		}
	}
	return true
}

// prepass: select statements of this function (not of nested literals), constructor variables
func (fb *fnBuilder) prepass() {
	ast.Inspect(fb.fn.Body, func(n ast.Node) bool {
		switch x := n.(type) {
		case *ast.FuncLit:
			return false
		case *ast.SelectStmt:
			si := &selectInfo{stmt: x}
			if len(x.Body.List) == 0 {
				fatalf("%s: empty select {} is not understood", fb.p.pos(x.Pos()))
			}
			for _, cl := range x.Body.List {
				cc := cl.(*ast.CommClause)
				if cc.Comm == nil {
					si.hasDef = true
					continue
				}
				fb.comm[cc.Comm] = si
				var rcv *ast.UnaryExpr
				switch c := cc.Comm.(type) {
				case *ast.SendStmt:
					si.alts = append(si.alts, "send "+fb.renderLoose(c.Chan))
				case *ast.ExprStmt:
					rcv, _ = unparen(c.X).(*ast.UnaryExpr)
				case *ast.AssignStmt:
					if len(c.Rhs) == 1 {
						rcv, _ = unparen(c.Rhs[0]).(*ast.UnaryExpr)
					}
				}
				if rcv != nil && rcv.Op == token.ARROW {
					fb.commRcv[rcv] = true
					si.alts = append(si.alts, "recv "+fb.renderLoose(rcv.X))
					if ev := fb.chanEvidence(rcv.X); ev != "" {
						si.evid = append(si.evid, ev)
					}
				} else if _, ok := cc.Comm.(*ast.SendStmt); !ok {
					fatalf("%s: select alternative not understood", fb.p.pos(cc.Pos()))
				}
			}
		case *ast.AssignStmt:
			// v := &T{...} / v := T{...} / v = new(T)
			for i, r := range x.Rhs {
				if i >= len(x.Lhs) {
					break
				}
				id, ok := x.Lhs[i].(*ast.Ident)
				if !ok {
					continue
				}
				if s := fb.freshStruct(r); s != "" {
					fb.ctorVar[id.Name] = s
				}
			}
		case *ast.ValueSpec:
			for i, r := range x.Values {
				if i < len(x.Names) {
					if s := fb.freshStruct(r); s != "" {
						fb.ctorVar[x.Names[i].Name] = s
					}
				}
			}
		}
		return true
	})
}

func (fb *fnBuilder) freshStruct(e ast.Expr) string {
	e = unparen(e)
	if u, ok := e.(*ast.UnaryExpr); ok && u.Op == token.AND {
		e = unparen(u.X)
	}
	switch x := e.(type) {
	case *ast.CompositeLit:
		if nt, ok := deref(fb.info.TypeOf(x)).(*types.Named); ok && nt.Obj().Pkg() != nil {
			return fb.p.relPkg(nt.Obj().Pkg().Path()) + "." + nt.Obj().Name()
		}
	case *ast.CallExpr:
		if isBuiltin(fb.info, x, "new") && len(x.Args) == 1 {
			if nt, ok := fb.info.TypeOf(x.Args[0]).(*types.Named); ok && nt.Obj().Pkg() != nil {
				return fb.p.relPkg(nt.Obj().Pkg().Path()) + "." + nt.Obj().Name()
			}
		}
	}
	return ""
}

// chanEvidence classifies the channel expression of a receive: context, timer, ...
func (fb *fnBuilder) chanEvidence(ch ast.Expr) string {
	ch = unparen(ch)
	if c, ok := ch.(*ast.CallExpr); ok {
		if sel, ok := unparen(c.Fun).(*ast.SelectorExpr); ok {
			if fn, ok := fb.info.Uses[sel.Sel].(*types.Func); ok {
				switch fn.FullName() {
				case "(context.Context).Done":
					return "ctx-done"
				case "time.After", "time.Tick":
					return "timer"
				}
				if sel.Sel.Name == "Done" || sel.Sel.Name == "Closed" {
					return "done-chan"
				}
			}
		}
	}
	if t := fb.info.TypeOf(ch); t != nil {
		if c, ok := t.Underlying().(*types.Chan); ok {
			if nt, ok := c.Elem().(*types.Named); ok && nt.Obj().Pkg() != nil && nt.Obj().Pkg().Path() == "time" && nt.Obj().Name() == "Time" {
				return "timer"
			}
		}
	}
	return ""
}

func (fb *fnBuilder) emit(e Event) {
	if e.Line == 0 {
		e.Line = fb.p.Fset.Position(e.Pos).Line
	}
	*fb.cur = append(*fb.cur, e)
}

func (fb *fnBuilder) block(kind string, ch ast.Expr, pos token.Pos, alts []string) {
	e := Event{Kind: "Block", BKind: kind, Pos: pos, Alts: alts}
	if ch != nil {
		e.Chan = fb.renderLoose(ch)
		nm := lastName(ch)
		if ev := fb.chanEvidence(ch); ev != "" {
			e.Evid = append(e.Evid, ev)
		}
		if fb.p.DeferClosed[nm] || fb.calleeDeferCloses(ch) {
			e.Evid = append(e.Evid, "close-in-defer")
		} else if fb.p.Closed[nm] {
			e.Evid = append(e.Evid, "closed-somewhere")
		}
		if kind == "send" && fb.deleteBeforeSend(ch, pos) {
			e.Evid = append(e.Evid, "delete-before-send")
		}
		if caps, ok := fb.p.ChanCap[nm]; ok {
			min := 1 << 30
			for _, c := range caps {
				if c < min {
					min = c
				}
			}
			if min > 0 {
				e.Evid = append(e.Evid, fmt.Sprintf("buffered:%d", min))
			} else if min == 0 {
				e.Evid = append(e.Evid, "unbuffered")
			}
		}
	}
	fb.emit(e)
}

// deleteBeforeSend: ch is a local that was read out of a map (`ch, ok := X.m[k]`) and the same
// function deletes from that map (`delete(X.m, ...)`) between that lookup and the send: the
// registration is consumed before the value is handed over, so the channel receives at most one
// value per registration (with capacity >= 1 the send cannot wait).
func (fb *fnBuilder) deleteBeforeSend(ch ast.Expr, sendPos token.Pos) bool {
	id, ok := unparen(ch).(*ast.Ident)
	if !ok || fb.fn.Body == nil {
		return false
	}
	obj := fb.info.ObjectOf(id)
	var mapExpr string
	var defPos token.Pos
	ast.Inspect(fb.fn.Body, func(n ast.Node) bool {
		as, ok := n.(*ast.AssignStmt)
		if !ok || len(as.Rhs) != 1 || len(as.Lhs) == 0 || as.Pos() >= sendPos {
			return true
		}
		l, ok := as.Lhs[0].(*ast.Ident)
		if !ok || fb.info.ObjectOf(l) != obj {
			return true
		}
		if ix, ok := unparen(as.Rhs[0]).(*ast.IndexExpr); ok {
			if _, isMap := fb.info.TypeOf(ix.X).Underlying().(*types.Map); isMap {
				mapExpr, defPos = fb.renderLoose(ix.X), as.Pos()
			}
		}
		return true
	})
	if mapExpr == "" {
		return false
	}
	found := false
	ast.Inspect(fb.fn.Body, func(n ast.Node) bool {
		c, ok := n.(*ast.CallExpr)
		if !ok || c.Pos() <= defPos || c.Pos() >= sendPos {
			return true
		}
		if isBuiltin(fb.info, c, "delete") && len(c.Args) == 2 && fb.renderLoose(c.Args[0]) == mapExpr {
			found = true
		}
		return true
	})
	return found
}

// calleeDeferCloses: ch is a call f(...) of a library function whose body closes a channel in a
// defer (the orDone / xxxOrDone helpers: the returned channel is closed when the producer exits)
func (fb *fnBuilder) calleeDeferCloses(ch ast.Expr) bool {
	c, ok := unparen(ch).(*ast.CallExpr)
	if !ok {
		return false
	}
	callee := typeutil.StaticCallee(fb.info, c)
	if callee == nil {
		return false
	}
	target := fb.p.byObj[callee.Origin().FullName()]
	if target == nil {
		return false
	}
	found := false
	ast.Inspect(target.Body, func(n ast.Node) bool {
		if d, ok := n.(*ast.DeferStmt); ok && isBuiltin(target.Pkg.TypesInfo, d.Call, "close") {
			found = true
		}
		return true
	})
	return found
}

func (fb *fnBuilder) children(n ast.Node) {
	ast.Inspect(n, func(c ast.Node) bool {
		if c == n {
			return true
		}
		if c != nil {
			fb.visit(c)
		}
		return false
	})
}

func (fb *fnBuilder) visit(n ast.Node) {
	switch x := n.(type) {
	case nil:
		return
	case *ast.FuncLit:
		fb.literal(x, "value")
		return
	case *ast.DeferStmt:
		fb.deferStmt(x)
		return
	case *ast.GoStmt:
		fb.goStmt(x)
		return
	case *ast.CallExpr:
		fb.call(x, "")
		return
	case *ast.SendStmt:
		fb.selectHead(x)
		fb.visit(x.Chan)
		fb.visit(x.Value)
		if fb.comm[x] == nil {
			fb.block("send", x.Chan, x.Pos(), nil)
		}
		return
	case *ast.ExprStmt:
		fb.selectHead(x)
		fb.visit(x.X)
		return
	case *ast.AssignStmt:
		fb.selectHead(x)
		for _, r := range x.Rhs {
			fb.visit(r)
		}
		for _, l := range x.Lhs {
			if x.Tok == token.DEFINE {
				if _, ok := l.(*ast.Ident); ok {
					continue
				}
			}
			fb.lhs(l)
		}
		return
	case *ast.IncDecStmt:
		fb.lhs(x.X)
		return
	case *ast.UnaryExpr:
		if x.Op == token.ARROW {
			fb.visit(x.X)
			if !fb.commRcv[x] {
				fb.block("recv", x.X, x.Pos(), nil)
			}
			return
		}
		if x.Op == token.AND {
			fb.addrOf(x, "W")
			return
		}
	case *ast.SelectorExpr:
		fb.selector(x, "R")
		return
	case *ast.IndexExpr:
		if fb.aliasAccess(x.X, "R", x.Pos()) {
			fb.visit(x.Index)
			return
		}
	case *ast.KeyValueExpr:
		// struct literal key: a field name, not an access; map literal key: an expression
		if id, ok := x.Key.(*ast.Ident); ok {
			if v, ok := fb.info.Uses[id].(*types.Var); ok && v.IsField() {
				// F: &mu with a local mutex variable: the recognised constructor pattern (see scanFacts)
				if u, ok := unparen(x.Value).(*ast.UnaryExpr); ok && u.Op == token.AND {
					if mid, ok := unparen(u.X).(*ast.Ident); ok && isMutexT(fb.info.TypeOf(mid)) {
						return
					}
				}
				fb.visit(x.Value)
				return
			}
		}
		fb.visit(x.Key)
		fb.visit(x.Value)
		return
	case *ast.Ident:
		// a local alias of a guarded map / slice used as a whole (ranged over, passed on, len):
		// a read of the guarded field's storage with the locks held HERE
		if fb.aliasAccess(x, "R", x.Pos()) {
			return
		}
		// a library function used as a value escapes (its callers are not all known)
		if fn, ok := fb.info.Uses[x].(*types.Func); ok {
			if callee := fb.p.byObj[fn.Origin().FullName()]; callee != nil {
				callee.Escapes = true
			}
		}
		return
	}
	fb.children(n)
}

// selectHead emits the Block event of a select statement when its first alternative is reached.
func (fb *fnBuilder) selectHead(s ast.Stmt) {
	si := fb.comm[s]
	if si == nil || si.emitted {
		return
	}
	si.emitted = true
	if si.hasDef {
		return
	}
	e := Event{Kind: "Block", BKind: "select", Pos: si.stmt.Pos(), Alts: si.alts, Evid: dedup(si.evid)}
	fb.emit(e)
}

func dedup(xs []string) []string {
	seen := map[string]bool{}
	var out []string
	for _, x := range xs {
		if !seen[x] {
			seen[x] = true
			out = append(out, x)
		}
	}
	return out
}

func (fb *fnBuilder) isMutexType(t types.Type) bool { return isMutexT(t) }

func isMutexT(t types.Type) bool {
	if t == nil {
		return false
	}
	if nt, ok := t.(*types.Named); ok && nt.Obj().Pkg() != nil && nt.Obj().Pkg().Path() == "sync" {
		return nt.Obj().Name() == "Mutex" || nt.Obj().Name() == "RWMutex"
	}
	return false
}

func (fb *fnBuilder) addrOf(x *ast.UnaryExpr, kind string) {
	inner := unparen(x.X)
	if t := fb.info.TypeOf(inner); fb.isMutexType(t) {
		if _, ok := inner.(*ast.CompositeLit); !ok {
			fatalf("%s: address of a mutex taken (&%s): lock may escape; not understood", fb.p.pos(x.Pos()), fb.renderLoose(inner))
		}
	}
	if sel, ok := inner.(*ast.SelectorExpr); ok {
		fb.selector(sel, kind)
		return
	}
	if ix, ok := inner.(*ast.IndexExpr); ok {
		// &X.f[i]
		fb.lhsBase(ix.X)
		fb.visit(ix.Index)
		return
	}
	fb.visit(inner)
}

func (fb *fnBuilder) lhs(e ast.Expr) {
	switch x := unparen(e).(type) {
	case *ast.Ident:
	case *ast.SelectorExpr:
		fb.selector(x, "W")
	case *ast.IndexExpr:
		if !fb.aliasAccess(x.X, "W", x.Pos()) {
			fb.lhsBase(x.X)
		}
		fb.visit(x.Index)
	case *ast.StarExpr:
		fb.visit(x.X)
	default:
		fb.visit(e)
	}
}

// lhsBase: the collection whose element is being written
func (fb *fnBuilder) lhsBase(e ast.Expr) {
	switch x := unparen(e).(type) {
	case *ast.SelectorExpr:
		fb.selector(x, "W")
	case *ast.IndexExpr:
		if !fb.aliasAccess(x.X, "W", x.Pos()) {
			fb.lhsBase(x.X)
		}
		fb.visit(x.Index)
	default:
		fb.visit(e)
	}
}

// selector handles X.f in non-call position.
func (fb *fnBuilder) selector(x *ast.SelectorExpr, kind string) {
	if fn, ok := fb.info.Uses[x.Sel].(*types.Func); ok {
		switch fn.FullName() {
		case "(*sync.Mutex).Lock", "(*sync.Mutex).Unlock", "(*sync.Mutex).TryLock",
			"(*sync.RWMutex).Lock", "(*sync.RWMutex).Unlock", "(*sync.RWMutex).RLock", "(*sync.RWMutex).RUnlock",
			"(*sync.RWMutex).TryLock", "(*sync.RWMutex).TryRLock", "(*sync.RWMutex).RLocker",
			"(sync.Locker).Lock", "(sync.Locker).Unlock", "(*sync.Cond).Wait":
			fatalf("%s: lock method %s used as a value; not understood", fb.p.pos(x.Pos()), fn.FullName())
		}
		// method value of a library function: the function escapes
		if callee := fb.p.byObj[fn.Origin().FullName()]; callee != nil {
			callee.Escapes = true
		}
		fb.visit(x.X)
		return
	}
	if sel := fb.info.Selections[x]; sel != nil && sel.Kind() == types.FieldVal {
		fb.fieldAccess(x, sel, kind)
		// a write to X.f.g where f is a struct value is a write to f's storage too
		sub := kind
		if kind != "R" {
			if inner, ok := unparen(x.X).(*ast.SelectorExpr); ok {
				if _, isPtr := fb.info.TypeOf(inner).Underlying().(*types.Pointer); isPtr {
					sub = "R"
				}
				fb.selector(inner, sub)
				return
			}
		}
		if inner, ok := unparen(x.X).(*ast.SelectorExpr); ok {
			fb.selector(inner, "R")
			return
		}
		fb.visit(x.X)
		return
	}
	// package-qualified identifier or similar
	if id, ok := x.X.(*ast.Ident); ok {
		if _, ok := fb.info.Uses[id].(*types.PkgName); ok {
			if fn, ok := fb.info.Uses[x.Sel].(*types.Func); ok {
				if callee := fb.p.byObj[fn.FullName()]; callee != nil {
					callee.Escapes = true
				}
			}
			return
		}
	}
	fb.visit(x.X)
}

// guardedField reports whether x selects a field of the guard map (struct name, field, base path).
func (fb *fnBuilder) guardedField(x *ast.SelectorExpr) (sname, fname, base string, ok bool) {
	sel := fb.info.Selections[x]
	if sel == nil || sel.Kind() != types.FieldVal {
		return
	}
	t := sel.Recv()
	idx := sel.Index()
	base, okb := fb.render(x.X)
	for i, k := range idx {
		st, isSt := deref(t).Underlying().(*types.Struct)
		if !isSt {
			return "", "", "", false
		}
		f := st.Field(k)
		if i == len(idx)-1 {
			nt, _ := deref(t).(*types.Named)
			if nt == nil || nt.Obj().Pkg() == nil {
				return "", "", "", false
			}
			sname = fb.p.relPkg(nt.Obj().Pkg().Path()) + "." + nt.Obj().Name()
			if _, g := fb.p.Guards[sname+"."+f.Name()]; g && okb {
				return sname, f.Name(), base, true
			}
			return "", "", "", false
		}
		base = base + "." + f.Name()
		t = f.Type()
	}
	return "", "", "", false
}

// findAliases records the locals of this function (nested literals included: they capture them)
// that are bound to the value or to an element of a guarded field and have map or slice type.
func (fb *fnBuilder) findAliases() {
	if len(fb.p.Guards) == 0 || fb.fn.Body == nil {
		return
	}
	isContainer := func(id *ast.Ident) bool {
		o := fb.info.ObjectOf(id)
		if o == nil || o.Type() == nil {
			return false
		}
		switch o.Type().Underlying().(type) {
		case *types.Map, *types.Slice:
			return true
		}
		return false
	}
	source := func(e ast.Expr) (localAlias, bool) {
		e = unparen(e)
		if ix, ok := e.(*ast.IndexExpr); ok {
			e = unparen(ix.X)
		}
		if se, ok := e.(*ast.SelectorExpr); ok {
			if sn, f, b, ok := fb.guardedField(se); ok {
				return localAlias{sn, f, b}, true
			}
		}
		return localAlias{}, false
	}
	bind := func(l ast.Expr, r ast.Expr) {
		id, ok := l.(*ast.Ident)
		if !ok || id.Name == "_" || !isContainer(id) {
			return
		}
		if a, ok := source(r); ok {
			fb.alias[fb.info.ObjectOf(id)] = a
		}
	}
	ast.Inspect(fb.fn.Body, func(n ast.Node) bool {
		switch x := n.(type) {
		case *ast.AssignStmt:
			if len(x.Lhs) == len(x.Rhs) {
				for i := range x.Lhs {
					bind(x.Lhs[i], x.Rhs[i])
				}
			} else if len(x.Rhs) == 1 && len(x.Lhs) == 2 { // v, ok := X.f[k]
				bind(x.Lhs[0], x.Rhs[0])
			}
		case *ast.RangeStmt:
			if x.Value != nil {
				bind(x.Value, x.X)
			}
		}
		return true
	})
	// the aliases are visible in the literals nested in this function too
	if fb.fn.Parent != nil {
		if pa := fb.p.aliasOf[fb.fn.Parent]; pa != nil {
			for o, a := range pa {
				if _, ok := fb.alias[o]; !ok {
					fb.alias[o] = a
				}
			}
		}
	}
	if fb.p.aliasOf == nil {
		fb.p.aliasOf = map[*Func]map[types.Object]localAlias{}
	}
	fb.p.aliasOf[fb.fn] = fb.alias
}

// aliasAccess emits the access of `local[k]` when local is an alias of a guarded field.
func (fb *fnBuilder) aliasAccess(e ast.Expr, kind string, pos token.Pos) bool {
	id, ok := unparen(e).(*ast.Ident)
	if !ok {
		return false
	}
	a, ok := fb.alias[fb.info.ObjectOf(id)]
	if !ok {
		return false
	}
	fb.emit(Event{Kind: "Access", Struct: a.sname, Field: a.field, AKind: kind, Base: a.base, Pos: pos})
	return true
}

func (fb *fnBuilder) fieldAccess(x *ast.SelectorExpr, sel *types.Selection, kind string) {
	// walk the (possibly promoted) path to the declaring struct
	t := sel.Recv()
	idx := sel.Index()
	base, okb := fb.render(x.X)
	for i, k := range idx {
		st, ok := deref(t).Underlying().(*types.Struct)
		if !ok {
			return
		}
		f := st.Field(k)
		if i == len(idx)-1 {
			nt, _ := deref(t).(*types.Named)
			if nt == nil || nt.Obj().Pkg() == nil {
				return
			}
			sname := fb.p.relPkg(nt.Obj().Pkg().Path()) + "." + nt.Obj().Name()
			key := sname + "." + f.Name()
			if fb.p.TrackFields[key] {
				fb.p.FieldUsers[key] = append(fb.p.FieldUsers[key], fmt.Sprintf("%s:%d:%s", fb.fn.Name, fb.p.Fset.Position(x.Pos()).Line, kind))
			}
			if _, ok := fb.p.Guards[key]; ok {
				if !okb {
					fatalf("%s: access to guarded field %s through an expression that cannot be named: %s", fb.p.pos(x.Pos()), key, fb.renderLoose(x.X))
				}
				inCtor := false
				if id, ok := unparen(x.X).(*ast.Ident); ok && fb.ctorVar[id.Name] == sname {
					inCtor = true
				}
				fb.emit(Event{Kind: "Access", Struct: sname, Field: f.Name(), AKind: kind, Base: base, Pos: x.Pos(), InCtor: inCtor})
			}
			return
		}
		base = base + "." + f.Name()
		t = f.Type()
	}
}

// render gives the selector path of an expression, or false if it has none.
func (fb *fnBuilder) render(e ast.Expr) (string, bool) {
	switch x := e.(type) {
	case *ast.Ident:
		return x.Name, true
	case *ast.ParenExpr:
		return fb.render(x.X)
	case *ast.StarExpr:
		return fb.render(x.X)
	case *ast.SelectorExpr:
		b, ok := fb.render(x.X)
		if !ok {
			return "", false
		}
		// spell out promoted (embedded) fields
		if sel := fb.info.Selections[x]; sel != nil && len(sel.Index()) > 1 {
			t := sel.Recv()
			idx := sel.Index()
			for _, k := range idx[:len(idx)-1] {
				st, ok := deref(t).Underlying().(*types.Struct)
				if !ok {
					return "", false
				}
				b += "." + st.Field(k).Name()
				t = st.Field(k).Type()
			}
		}
		return b + "." + x.Sel.Name, true
	}
	return "", false
}

func (fb *fnBuilder) renderLoose(e ast.Expr) string {
	if s, ok := fb.render(e); ok {
		return s
	}
	switch x := unparen(e).(type) {
	case *ast.CallExpr:
		return fb.renderLoose(x.Fun) + "()"
	case *ast.SelectorExpr:
		return fb.renderLoose(x.X) + "." + x.Sel.Name
	case *ast.IndexExpr:
		return fb.renderLoose(x.X) + "[]"
	case *ast.UnaryExpr:
		return x.Op.String() + fb.renderLoose(x.X)
	}
	return fmt.Sprintf("<%T>", e)
}

// mutexOf names the mutex a lock method is applied to: recv is the X of X.Lock().
func (fb *fnBuilder) mutexOf(sel *ast.SelectorExpr) (name, class string) {
	name, ok := fb.render(sel.X)
	if !ok {
		fatalf("%s: lock operation on an expression that is not a selector path: %s", fb.p.pos(sel.Pos()), fb.renderLoose(sel.X))
	}
	class = "local:" + name
	t := fb.info.TypeOf(sel.X)
	// promoted method through embedded mutex: spell the embedded field(s)
	if s := fb.info.Selections[sel]; s != nil && len(s.Index()) > 1 {
		idx := s.Index()
		t = s.Recv()
		for _, k := range idx[:len(idx)-1] {
			st, ok := deref(t).Underlying().(*types.Struct)
			if !ok {
				fatalf("%s: cannot resolve promoted lock method", fb.p.pos(sel.Pos()))
			}
			if nt, ok := deref(t).(*types.Named); ok && nt.Obj().Pkg() != nil {
				class = fb.p.relPkg(nt.Obj().Pkg().Path()) + "." + nt.Obj().Name() + "." + st.Field(k).Name()
			}
			name += "." + st.Field(k).Name()
			t = st.Field(k).Type()
		}
		return
	}
	// X = Y.f : class is the declaring struct of f ; cond alias: Y.cond.L -> Y.<alias>
	if inner, ok := unparen(sel.X).(*ast.SelectorExpr); ok {
		if fs := fb.info.Selections[inner]; fs != nil && fs.Kind() == types.FieldVal {
			owner := fs.Recv()
			idx := fs.Index()
			for _, k := range idx[:len(idx)-1] {
				owner = deref(owner).Underlying().(*types.Struct).Field(k).Type()
			}
			if nt, ok := deref(owner).(*types.Named); ok && nt.Obj().Pkg() != nil {
				oname := fb.p.relPkg(nt.Obj().Pkg().Path()) + "." + nt.Obj().Name()
				class = oname + "." + inner.Sel.Name
				if oname == "sync.Cond" && inner.Sel.Name == "L" {
					// Y.cond.L
					if cs, ok := unparen(inner.X).(*ast.SelectorExpr); ok {
						if cfs := fb.info.Selections[cs]; cfs != nil && cfs.Kind() == types.FieldVal {
							cowner := cfs.Recv()
							cidx := cfs.Index()
							for _, k := range cidx[:len(cidx)-1] {
								cowner = deref(cowner).Underlying().(*types.Struct).Field(k).Type()
							}
							if cnt, ok := deref(cowner).(*types.Named); ok && cnt.Obj().Pkg() != nil {
								cname := fb.p.relPkg(cnt.Obj().Pkg().Path()) + "." + cnt.Obj().Name()
								class = cname + "." + cs.Sel.Name + ".L"
								if alias, ok := fb.p.CondAlias[cname+"."+cs.Sel.Name]; ok {
									y, _ := fb.render(cs.X)
									name = y + "." + alias
									class = cname + "." + alias
								}
							}
						}
					}
				}
			}
		}
	}
	return
}

func (fb *fnBuilder) condMutex(sel *ast.SelectorExpr) (name, class string) {
	// sel = X.Wait ; the mutex is X.L
	fake := &ast.SelectorExpr{X: &ast.SelectorExpr{X: sel.X, Sel: ast.NewIdent("L")}, Sel: ast.NewIdent("Lock")}
	// render by hand (the fake nodes have no type info): reuse the alias logic through the cond field
	x, ok := fb.render(sel.X)
	if !ok {
		fatalf("%s: cond.Wait on an expression that is not a selector path", fb.p.pos(sel.Pos()))
	}
	_ = fake
	name, class = x+".L", "local:"+x+".L"
	if cs, ok := unparen(sel.X).(*ast.SelectorExpr); ok {
		if cfs := fb.info.Selections[cs]; cfs != nil && cfs.Kind() == types.FieldVal {
			cowner := cfs.Recv()
			cidx := cfs.Index()
			for _, k := range cidx[:len(cidx)-1] {
				cowner = deref(cowner).Underlying().(*types.Struct).Field(k).Type()
			}
			if cnt, ok := deref(cowner).(*types.Named); ok && cnt.Obj().Pkg() != nil {
				cname := fb.p.relPkg(cnt.Obj().Pkg().Path()) + "." + cnt.Obj().Name()
				class = cname + "." + cs.Sel.Name + ".L"
				if alias, ok := fb.p.CondAlias[cname+"."+cs.Sel.Name]; ok {
					y, _ := fb.render(cs.X)
					name = y + "." + alias
					class = cname + "." + alias
				}
			}
		}
	}
	return
}

// lockOp classifies a call as a lock operation. how = "" (plain), "defer", "go".
func (fb *fnBuilder) lockOp(c *ast.CallExpr) (op string, mode string, sel *ast.SelectorExpr) {
	sel, ok := unparen(c.Fun).(*ast.SelectorExpr)
	if !ok {
		return "", "", nil
	}
	fn, ok := fb.info.Uses[sel.Sel].(*types.Func)
	if !ok {
		return "", "", nil
	}
	switch fn.FullName() {
	case "(*sync.Mutex).Lock", "(*sync.RWMutex).Lock", "(sync.Locker).Lock":
		return "Acq", "W", sel
	case "(*sync.RWMutex).RLock":
		return "Acq", "R", sel
	case "(*sync.Mutex).Unlock", "(*sync.RWMutex).Unlock", "(sync.Locker).Unlock":
		return "Rel", "W", sel
	case "(*sync.RWMutex).RUnlock":
		return "Rel", "R", sel
	case "(*sync.Cond).Wait":
		return "CondWait", "W", sel
	case "(*sync.Mutex).TryLock", "(*sync.RWMutex).TryLock", "(*sync.RWMutex).TryRLock", "(*sync.RWMutex).RLocker":
		fatalf("%s: %s is not understood by the lock translator", fb.p.pos(c.Pos()), fn.FullName())
	}
	return "", "", nil
}

func (fb *fnBuilder) call(c *ast.CallExpr, how string) {
	info := fb.info
	if op, mode, sel := fb.lockOp(c); op != "" {
		switch op {
		case "Acq", "Rel":
			name, class := fb.mutexOf(sel)
			fb.emit(Event{Kind: op, Lock: Lock{name, mode}, Class: class, Pos: c.Pos()})
		case "CondWait":
			name, class := fb.condMutex(sel)
			fb.emit(Event{Kind: "CondWait", Lock: Lock{name, "W"}, Class: class, Pos: c.Pos()})
			e := Event{Kind: "Block", BKind: "cond-wait", Pos: c.Pos(), Chan: fb.renderLoose(sel.X)}
			fb.emit(e)
		}
		return
	}
	// sync.NewCond(&mu) / sync.NewCond(&sync.Mutex{}): the Locker of a condition variable (aliases: scanFacts)
	if isPkgFunc(info, c, "sync", "NewCond") && len(c.Args) == 1 {
		if u, ok := unparen(c.Args[0]).(*ast.UnaryExpr); ok && u.Op == token.AND {
			switch unparen(u.X).(type) {
			case *ast.Ident, *ast.CompositeLit:
				return
			}
		}
		fatalf("%s: sync.NewCond with a Locker that is neither &localMutex nor a fresh mutex; aliasing not understood", fb.p.pos(c.Pos()))
	}
	// type conversion?
	if tv, ok := info.Types[c.Fun]; ok && tv.IsType() {
		for _, a := range c.Args {
			fb.visit(a)
		}
		return
	}
	// builtins with write effect on their first argument
	if isBuiltin(info, c, "delete") || isBuiltin(info, c, "copy") || isBuiltin(info, c, "clear") {
		if len(c.Args) > 0 {
			fb.lhsBase(c.Args[0])
			for _, a := range c.Args[1:] {
				fb.visit(a)
			}
		}
		return
	}
	// sync/atomic: &X.f arguments are atomic accesses
	isAtomic := false
	if sel, ok := unparen(c.Fun).(*ast.SelectorExpr); ok {
		if fn, ok := info.Uses[sel.Sel].(*types.Func); ok && fn.Pkg() != nil && fn.Pkg().Path() == "sync/atomic" {
			isAtomic = true
		}
	}
	// callee expression
	switch f := unparen(c.Fun).(type) {
	case *ast.FuncLit:
		fb.literal(f, "call")
	case *ast.SelectorExpr:
		if _, ok := info.Uses[f.Sel].(*types.Func); ok {
			// method or package function: the receiver expression is evaluated
			if s := info.Selections[f]; s != nil {
				fb.visit(f.X)
			}
		} else {
			fb.visit(f) // field of function type
		}
	case *ast.Ident:
	default:
		fb.visit(c.Fun)
	}
	callee := typeutil.StaticCallee(info, c)
	var target *Func
	if callee != nil {
		target = fb.p.byObj[callee.Origin().FullName()]
	}
	calleeName := ""
	if target != nil {
		calleeName = target.Name
	} else if callee != nil {
		calleeName = "ext:" + callee.FullName()
	} else if sel, ok := unparen(c.Fun).(*ast.SelectorExpr); ok {
		if fn, ok := info.Uses[sel.Sel].(*types.Func); ok {
			calleeName = "iface:" + fn.FullName()
			fb.p.IfaceMethods[fn.Name()] = true
		}
	}
	for _, a := range c.Args {
		if fl, ok := unparen(a).(*ast.FuncLit); ok {
			fb.literal(fl, "arg:"+calleeName)
			continue
		}
		if isAtomic {
			if u, ok := unparen(a).(*ast.UnaryExpr); ok && u.Op == token.AND {
				fb.addrOf(u, "A")
				continue
			}
		}
		fb.visit(a)
	}
	// blocking library calls
	if callee != nil {
		switch callee.FullName() {
		case "(*sync.WaitGroup).Wait":
			fb.block("wg-wait", nil, c.Pos(), nil)
		case "(*golang.org/x/sync/errgroup.Group).Wait":
			fb.block("eg-wait", nil, c.Pos(), nil)
		case "time.Sleep":
			e := Event{Kind: "Block", BKind: "sleep", Pos: c.Pos(), Evid: []string{"timer"}}
			fb.emit(e)
		}
	}
	if calleeName == "iface:(io.Writer).Write" {
		fb.emit(Event{Kind: "Call", Callee: "io.Writer.Write", Pos: c.Pos()})
		return
	}
	if target == nil {
		return
	}
	ev := Event{Kind: "Call", Callee: target.Name, Pos: c.Pos()}
	switch how {
	case "go":
		ev.Kind = "Go"
	case "defer":
		ev.Kind = "DeferCall"
	}
	// substitution callee-name -> caller expression (receiver and parameters)
	if sel, ok := unparen(c.Fun).(*ast.SelectorExpr); ok && target.Recv != "" {
		if s, ok := fb.render(sel.X); ok {
			// promoted method: spell the embedded path
			if ss := info.Selections[sel]; ss != nil && len(ss.Index()) > 1 {
				t := ss.Recv()
				for _, k := range ss.Index()[:len(ss.Index())-1] {
					st := deref(t).Underlying().(*types.Struct)
					s += "." + st.Field(k).Name()
					t = st.Field(k).Type()
				}
			}
			ev.Subst = append(ev.Subst, [2]string{target.Recv, s})
		}
	}
	for i, a := range c.Args {
		if i < len(target.Params) && target.Params[i] != "_" {
			if s, ok := fb.render(a); ok {
				ev.Subst = append(ev.Subst, [2]string{target.Params[i], s})
			}
		}
	}
	fb.emit(ev)
}

func (fb *fnBuilder) deferStmt(d *ast.DeferStmt) {
	c := d.Call
	if op, mode, sel := fb.lockOp(c); op != "" {
		if op != "Rel" {
			fatalf("%s: deferred %s of a lock is not understood", fb.p.pos(d.Pos()), op)
		}
		name, class := fb.mutexOf(sel)
		fb.emit(Event{Kind: "DeferRel", Lock: Lock{name, mode}, Class: class, Pos: d.Pos()})
		return
	}
	if fl, ok := unparen(c.Fun).(*ast.FuncLit); ok {
		child := fb.literal(fl, "defer")
		for _, a := range c.Args {
			fb.visit(a)
		}
		// net releases of the literal become deferred releases of the parent
		for _, l := range child.EntryHeld {
			fb.emit(Event{Kind: "DeferRel", Lock: l, Class: "deferred-literal", Pos: d.Pos()})
		}
		return
	}
	fb.call(c, "defer")
}

func (fb *fnBuilder) goStmt(g *ast.GoStmt) {
	c := g.Call
	if op, _, _ := fb.lockOp(c); op != "" {
		fatalf("%s: go statement on a lock method is not understood", fb.p.pos(g.Pos()))
	}
	if fl, ok := unparen(c.Fun).(*ast.FuncLit); ok {
		fb.literal(fl, "go")
		for _, a := range c.Args {
			fb.visit(a)
		}
		return
	}
	fb.call(c, "go")
}

func (fb *fnBuilder) literal(fl *ast.FuncLit, usage string) *Func {
	top := fb.fn
	top.nlits++
	child := &Func{Name: fmt.Sprintf("%s$%d", top.Name, top.nlits), Pkg: top.Pkg, RelPkg: top.RelPkg, File: top.File,
		Line: fb.p.Fset.Position(fl.Pos()).Line, Lit: fl, Body: fl.Body, Parent: top, Usage: usage}
	for _, f := range fl.Type.Params.List {
		for _, nm := range f.Names {
			child.Params = append(child.Params, nm.Name)
		}
	}
	if usage == "defer" {
		// net releases: Rel events not matched by an Acq inside the literal (nested literals excluded)
		cnt := map[Lock]int{}
		var order []Lock
		ast.Inspect(fl.Body, func(n ast.Node) bool {
			switch x := n.(type) {
			case *ast.FuncLit:
				return false
			case *ast.CallExpr:
				if op, mode, sel := fb.lockOp(x); op == "Acq" || op == "Rel" {
					name, _ := fb.mutexOf(sel)
					l := Lock{name, mode}
					if _, ok := cnt[l]; !ok {
						order = append(order, l)
					}
					if op == "Acq" {
						cnt[l]--
					} else {
						cnt[l]++
					}
				}
			}
			return true
		})
		for _, l := range order {
			for i := 0; i < cnt[l]; i++ {
				child.EntryHeld = append(child.EntryHeld, l)
			}
		}
	}
	fb.p.Funcs = append(fb.p.Funcs, child)
	fb.p.ByName[child.Name] = child
	return child
}

// ---------------------------------------------------------------------------------------------
// dataflow (the same computation as Model/LockCfg.v: solve + check)

type State struct {
	Held, Def map[Lock]int
}

func (s *State) clone() *State {
	n := &State{Held: map[Lock]int{}, Def: map[Lock]int{}}
	for k, v := range s.Held {
		n.Held[k] = v
	}
	for k, v := range s.Def {
		n.Def[k] = v
	}
	return n
}

func eqMap(a, b map[Lock]int) bool {
	for k, v := range a {
		if v != b[k] {
			return false
		}
	}
	for k, v := range b {
		if v != a[k] {
			return false
		}
	}
	return true
}

func (s *State) eq(t *State) bool { return eqMap(s.Held, t.Held) && eqMap(s.Def, t.Def) }

func (s *State) HeldList() []Lock {
	var out []Lock
	for k, v := range s.Held {
		for i := 0; i < v; i++ {
			out = append(out, k)
		}
	}
	sort.Slice(out, func(i, j int) bool { return out[i].String() < out[j].String() })
	return out
}

// transfer applies the events of node i to a copy of st; annotate records Held on events.
func transfer(nd *Node, st *State, annotate bool) (*State, string) {
	s := st.clone()
	for k := range nd.Events {
		e := &nd.Events[k]
		if annotate {
			e.Held = s.HeldList()
		}
		switch e.Kind {
		case "Acq":
			s.Held[e.Lock]++
		case "Rel":
			if s.Held[e.Lock] == 0 {
				return nil, fmt.Sprintf("line %d: release of %s which is not held", e.Line, e.Lock)
			}
			s.Held[e.Lock]--
		case "DeferRel":
			s.Def[e.Lock]++
		case "CondWait":
			if s.Held[e.Lock] == 0 {
				return nil, fmt.Sprintf("line %d: cond.Wait without holding %s", e.Line, e.Lock)
			}
		}
	}
	return s, ""
}

func (p *Prog) dataflow(fn *Func) {
	fn.Balanced = true
	if len(fn.Nodes) == 0 {
		return
	}
	init := &State{Held: map[Lock]int{}, Def: map[Lock]int{}}
	for _, l := range fn.EntryHeld {
		init.Held[l]++
	}
	fn.Nodes[0].In = init
	fail := func(why string) {
		if fn.Balanced {
			fn.Balanced = false
			fn.Why = why
		}
	}
	// propagate (first-discovered state wins), same order as the Coq solver: rounds over node indices
	for round := 0; round < len(fn.Nodes); round++ {
		changed := false
		for i := range fn.Nodes {
			nd := &fn.Nodes[i]
			if nd.In == nil {
				continue
			}
			out, _ := transfer(nd, nd.In, false)
			if out == nil {
				continue
			}
			for _, s := range nd.Succs {
				if fn.Nodes[s].In == nil {
					fn.Nodes[s].In = out
					changed = true
				}
			}
		}
		if !changed {
			break
		}
	}
	// check
	for i := range fn.Nodes {
		nd := &fn.Nodes[i]
		if nd.In == nil {
			continue
		}
		out, why := transfer(nd, nd.In, true)
		if out == nil {
			fail(fmt.Sprintf("node %d: %s", i, why))
			continue
		}
		for _, s := range nd.Succs {
			if !fn.Nodes[s].In.eq(out) {
				fail(fmt.Sprintf("node %d -> node %d: held %v/deferred %v on this edge, but node %d is also entered with held %v/deferred %v",
					i, s, out.HeldList(), listOf(out.Def), s, fn.Nodes[s].In.HeldList(), listOf(fn.Nodes[s].In.Def)))
			}
		}
		if len(nd.Succs) == 0 && !eqMap(out.Held, out.Def) {
			fail(fmt.Sprintf("exit node %d: held %v but deferred releases %v", i, out.HeldList(), listOf(out.Def)))
		}
	}
}

func listOf(m map[Lock]int) []Lock {
	s := &State{Held: m}
	return s.HeldList()
}

// ---------------------------------------------------------------------------------------------
// Coq printing helpers

func CoqStr(s string) string { return "\"" + strings.ReplaceAll(s, "\"", "\"\"") + "\"" }

func CoqIdent(s string) string {
	var b strings.Builder
	for _, r := range s {
		switch {
		case r >= 'a' && r <= 'z', r >= 'A' && r <= 'Z', r >= '0' && r <= '9':
			b.WriteRune(r)
		case r == '$':
			b.WriteString("_lit")
		default:
			b.WriteRune('_')
		}
	}
	return b.String()
}

func CoqLock(l Lock) string { return "(" + CoqStr(l.Name) + ", " + l.Mode + ")" }

func CoqLocks(ls []Lock) string {
	var parts []string
	for _, l := range ls {
		parts = append(parts, CoqLock(l))
	}
	return "[" + strings.Join(parts, "; ") + "]"
}

func CoqStrs(ss []string) string {
	var parts []string
	for _, s := range ss {
		parts = append(parts, CoqStr(s))
	}
	return "[" + strings.Join(parts, "; ") + "]"
}

// ---------------------------------------------------------------------------------------------
// context arguments (C08: every wait on behalf of an API call listens on the CALLER's context)

// CtxArg is one call, inside a function that has a context.Context parameter, of a function whose
// first argument is a context: what is passed there.
type CtxArg struct {
	Func   string // enclosing function (literals: f$n)
	Line   int
	Callee string
	Arg    string // source text of the argument
	Kind   string // caller | mixed | stored | background | other
}

func isCtxType(t types.Type) bool {
	n, ok := t.(*types.Named)
	return ok && n.Obj().Pkg() != nil && n.Obj().Pkg().Path() == "context" && n.Obj().Name() == "Context"
}

// CtxArgs classifies the context argument of every call made by the functions that have a
// context parameter.  "caller" = the parameter itself or a context derived from it
// (context.With*(ctx, ...), any call that is handed a derived context and returns a context);
// a local counts as derived at a use when every assignment to it that precedes the use in the
// source is derived; "mixed" = some preceding assignment is derived (or it is the parameter) and
// some is not (e.g. `reqCtx := ctx; if ... { reqCtx = d.ctx }`); "stored" = a field such as
// u.ctx / d.ctx; "background"; "other".
func CtxArgs(p *Prog) []CtxArg {
	var out []CtxArg
	for _, fn := range p.Funcs {
		var ft *ast.FuncType
		if fn.Decl != nil {
			ft = fn.Decl.Type
		} else if fn.Lit != nil {
			ft = fn.Lit.Type
		}
		if ft == nil || ft.Params == nil || fn.Body == nil {
			continue
		}
		info := fn.Pkg.TypesInfo
		params := map[types.Object]bool{}
		for _, f := range ft.Params.List {
			if t := info.TypeOf(f.Type); t != nil && isCtxType(t) {
				for _, nm := range f.Names {
					if o := info.ObjectOf(nm); o != nil {
						params[o] = true
					}
				}
			}
		}
		if len(params) == 0 {
			continue
		}
		own := func(n ast.Node) bool { // do not descend into literals that have their own context parameter
			if fl, ok := n.(*ast.FuncLit); ok && fl.Type.Params != nil {
				for _, f := range fl.Type.Params.List {
					if t := info.TypeOf(f.Type); t != nil && isCtxType(t) {
						return false
					}
				}
			}
			return true
		}
		type asg struct {
			pos token.Pos
			rhs ast.Expr
		}
		asgs := map[types.Object][]asg{}
		ast.Inspect(fn.Body, func(n ast.Node) bool {
			if !own(n) {
				return false
			}
			as, ok := n.(*ast.AssignStmt)
			if !ok {
				return true
			}
			for i, l := range as.Lhs {
				id, ok := l.(*ast.Ident)
				if !ok || id.Name == "_" {
					continue
				}
				o := info.ObjectOf(id)
				if o == nil || o.Type() == nil || !isCtxType(o.Type()) {
					continue
				}
				var rhs ast.Expr
				if len(as.Rhs) == len(as.Lhs) {
					rhs = as.Rhs[i]
				} else if len(as.Rhs) == 1 && i == 0 {
					rhs = as.Rhs[0]
				}
				asgs[o] = append(asgs[o], asg{as.Pos(), rhs})
			}
			return true
		})
		var exprKind func(e ast.Expr, at token.Pos) string
		kindAt := func(o types.Object, at token.Pos) string {
			ncaller, nother := 0, 0
			if params[o] {
				ncaller++
			}
			for _, a := range asgs[o] {
				if a.pos >= at {
					continue
				}
				if a.rhs != nil && exprKind(a.rhs, a.pos) == "caller" {
					ncaller++
				} else {
					nother++
				}
			}
			switch {
			case ncaller > 0 && nother == 0:
				return "caller"
			case ncaller > 0:
				return "mixed"
			}
			return "other"
		}
		exprKind = func(e ast.Expr, at token.Pos) string {
			switch x := unparen(e).(type) {
			case *ast.Ident:
				if o := info.ObjectOf(x); o != nil {
					return kindAt(o, at)
				}
			case *ast.SelectorExpr:
				return "stored"
			case *ast.CallExpr:
				if isPkgFunc(info, x, "context", "Background") || isPkgFunc(info, x, "context", "TODO") {
					return "background"
				}
				if t := info.TypeOf(x); t != nil {
					isCtx := isCtxType(t)
					if tup, ok := t.(*types.Tuple); ok {
						for k := 0; k < tup.Len(); k++ {
							isCtx = isCtx || isCtxType(tup.At(k).Type())
						}
					}
					if !isCtx {
						return "other"
					}
				}
				res := "other"
				for _, a := range x.Args {
					if t := info.TypeOf(a); t != nil && isCtxType(t) {
						switch exprKind(a, at) {
						case "caller":
							return "caller"
						case "mixed":
							res = "mixed"
						}
					}
				}
				return res
			}
			return "other"
		}
		src := func(e ast.Expr) string {
			var sb strings.Builder
			printer.Fprint(&sb, p.Fset, e)
			return sb.String()
		}
		clean := func(full string) string {
			full = strings.NewReplacer("(*", "", "(", "", ")", "").Replace(full)
			return strings.TrimPrefix(full, "github.com/aptpod/iscp-go/")
		}
		ast.Inspect(fn.Body, func(n ast.Node) bool {
			if !own(n) {
				return false
			}
			c, ok := n.(*ast.CallExpr)
			if !ok || len(c.Args) == 0 {
				return true
			}
			t := info.TypeOf(c.Args[0])
			if t == nil || !isCtxType(t) {
				return true
			}
			callee := src(c.Fun)
			if sel, ok := unparen(c.Fun).(*ast.SelectorExpr); ok {
				if f, ok := info.Uses[sel.Sel].(*types.Func); ok {
					callee = clean(f.FullName())
				}
			} else if id, ok := unparen(c.Fun).(*ast.Ident); ok {
				if f, ok := info.Uses[id].(*types.Func); ok {
					callee = clean(f.FullName())
				}
			}
			out = append(out, CtxArg{Func: fn.Name, Line: p.Fset.Position(c.Pos()).Line, Callee: callee, Arg: src(c.Args[0]),
				Kind: exprKind(c.Args[0], c.Pos())})
			return true
		})
	}
	return out
}

(* Lemmas about Model/Correlate.v: the table, C06 (wire), C16 (e2e). *)
From Coq Require Import List NArith ZArith Bool Lia ZifyN ZifyNat ZifyBool Arith.
From Iscp Require Import Lib.ListMap Model.Correlate.
Import ListNotations.
Open Scope N_scope.
Ltac Zify.zify_post_hook ::= Z.div_mod_to_equations.

(* ------------------------------------------------------------------------------------------ *)
(* small facts *)

Lemma eqb_false_ne a b : (a =? b) = false <-> a <> b.
Proof. apply N.eqb_neq. Qed.

Lemma lookup_insert {V} k k' (v : V) m :
  lookup k' (insert k v m) = if k =? k' then Some v else lookup k' m.
Proof.
  destruct (k =? k') eqn:E.
  - apply N.eqb_eq in E; subst. apply lookup_insert_same.
  - apply N.eqb_neq in E. apply lookup_insert_other. congruence.
Qed.

Lemma lookup_remove {V} k k' (m : lmap V) :
  lookup k' (remove k m) = if k =? k' then None else lookup k' m.
Proof.
  destruct (k =? k') eqn:E.
  - apply N.eqb_eq in E; subst. apply lookup_remove_same.
  - apply N.eqb_neq in E. apply lookup_remove_other. congruence.
Qed.

Lemma fold_left_app_one {A B} (f : A -> B -> A) l x a :
  fold_left f (l ++ [x]) a = f (fold_left f l a) x.
Proof. now rewrite fold_left_app. Qed.

Lemma t_route_cases {P} k (p : P) t :
  (lookup k (t_pend t) = None /\ t_route k p t = (t, RIgnored)) \/
  (exists w q, lookup k (t_pend t) = Some w /\ lookup w (t_slot t) = Some q /\ t_route k p t = (t, RBlocked w)) \/
  (exists w, lookup k (t_pend t) = Some w /\ lookup w (t_slot t) = None /\
             t_route k p t = (mkT (remove k (t_pend t)) (insert w p (t_slot t)), RDelivered w)).
Proof.
  unfold t_route. destruct (lookup k (t_pend t)) as [w|] eqn:Ep; [|left; split; reflexivity].
  right. destruct (lookup w (t_slot t)) as [q|] eqn:Esl.
  - left. exists w, q. repeat split; assumption.
  - right. exists w. repeat split; assumption.
Qed.

Lemma t_take_cases {P} w (t : table P) :
  (lookup w (t_slot t) = None /\ t_take w t = (t, None)) \/
  (exists p, lookup w (t_slot t) = Some p /\ t_take w t = (mkT (t_pend t) (remove w (t_slot t)), Some p)).
Proof.
  unfold t_take. destruct (lookup w (t_slot t)) as [p|] eqn:E; [right; exists p|left]; split; reflexivity.
Qed.

(* ========================================================================================== *)
(* C06 *)

Lemma wrun_cons s e evs : wrun s (e :: evs) = wrun (wstep s e) evs.
Proof. reflexivity. Qed.
Lemma wrun_app s a b : wrun s (a ++ b) = wrun (wrun s a) b.
Proof. unfold wrun. apply fold_left_app. Qed.
Lemma wsolo_run_cons id c kind s e evs :
  wsolo_run id c kind s (e :: evs) = wsolo_run id c kind (wsolo_step id c kind s e) evs.
Proof. reflexivity. Qed.

(* --- global invariant of the wire model: holds in every reachable state, unconditionally --- *)
Record wG (s : wstate) : Prop := mkWG {
  g_pend_lt : forall k w, lookup k (t_pend (w_tab s)) = Some w -> w < w_n s;
  g_slot_lt : forall w p, lookup w (t_slot (w_tab s)) = Some p -> w < w_n s;
  g_st_lt : forall w x, lookup w (w_st s) = Some x -> w < w_n s;
  g_pend_empty : forall k w, lookup k (t_pend (w_tab s)) = Some w -> lookup w (t_slot (w_tab s)) = None;
  g_inj : forall k1 k2 w, lookup k1 (t_pend (w_tab s)) = Some w -> lookup k2 (t_pend (w_tab s)) = Some w -> k1 = k2;
  g_stuck : w_stuck s = false
}.

Lemma wG_init : wG winit.
Proof. constructor; cbn; intros; try discriminate; reflexivity. Qed.

Lemma slot_none_of_lt s w : wG s -> w_n s <= w -> lookup w (t_slot (w_tab s)) = None.
Proof.
  intros G Hle. destruct (lookup w (t_slot (w_tab s))) eqn:E; [|reflexivity].
  apply (g_slot_lt s G) in E. lia.
Qed.

Lemma wG_step s e : wG s -> wG (wstep s e).
Proof.
  intros G. destruct e as [kind | id ty m | c | c]; cbn [wstep]; unfold set_status.
  - (* Issue *)
    destruct (kind =? 0) eqn:Ek.
    + constructor; cbn [w_tab w_n w_st w_stuck set_status].
      * intros k w H. apply (g_pend_lt s G) in H. lia.
      * intros w p H. apply (g_slot_lt s G) in H. lia.
      * intros w x H. rewrite lookup_insert in H. destruct (w_n s =? w) eqn:E.
        -- apply N.eqb_eq in E. lia.
        -- apply (g_st_lt s G) in H. lia.
      * apply (g_pend_empty s G).
      * apply (g_inj s G).
      * apply (g_stuck s G).
    + constructor; cbn [w_tab w_n w_st w_stuck set_status t_register t_pend t_slot].
      * intros k w H. rewrite lookup_insert in H. destruct (w_cur s =? k).
        -- injection H as <-. lia.
        -- apply (g_pend_lt s G) in H. lia.
      * intros w p H. apply (g_slot_lt s G) in H. lia.
      * intros w x H. rewrite lookup_insert in H. destruct (w_n s =? w) eqn:E.
        -- apply N.eqb_eq in E. lia.
        -- apply (g_st_lt s G) in H. lia.
      * intros k w H. rewrite lookup_insert in H. destruct (w_cur s =? k).
        -- injection H as <-. apply slot_none_of_lt; [exact G | lia].
        -- apply (g_pend_empty s G) in H. exact H.
      * intros k1 k2 w H1 H2. rewrite lookup_insert in H1, H2.
        destruct (w_cur s =? k1) eqn:E1, (w_cur s =? k2) eqn:E2.
        -- apply N.eqb_eq in E1, E2. congruence.
        -- injection H1 as <-. apply (g_pend_lt s G) in H2. lia.
        -- injection H2 as <-. apply (g_pend_lt s G) in H1. lia.
        -- eapply (g_inj s G); eassumption.
      * apply (g_stuck s G).
  - (* Respond *)
    destruct (t_route_cases id (ty, m) (w_tab s)) as [[Ep Er] | [[w [q [Ep [Esl Er]]]] | [w [Ep [Esl Er]]]]]; rewrite Er.
    + destruct G; constructor; assumption.
    + rewrite (g_pend_empty s G _ _ Ep) in Esl. discriminate.
    + constructor; cbn [w_tab w_n w_st w_stuck t_pend t_slot].
      * intros k w' H. rewrite lookup_remove in H. destruct (id =? k); [discriminate|].
        apply (g_pend_lt s G) in H. exact H.
      * intros w' p H. rewrite lookup_insert in H. destruct (w =? w') eqn:E.
        -- apply N.eqb_eq in E; subst. apply (g_pend_lt s G) in Ep. exact Ep.
        -- apply (g_slot_lt s G) in H. exact H.
      * apply (g_st_lt s G).
      * intros k w' H. rewrite lookup_remove in H. destruct (id =? k) eqn:Ek; [discriminate|].
        rewrite lookup_insert. destruct (w =? w') eqn:E.
        -- apply N.eqb_eq in E; subst. apply N.eqb_neq in Ek. exfalso. apply Ek.
           eapply (g_inj s G); eassumption.
        -- eapply (g_pend_empty s G); eassumption.
      * intros k1 k2 w' H1 H2. rewrite lookup_remove in H1, H2.
        destruct (id =? k1); [discriminate|]. destruct (id =? k2); [discriminate|].
        eapply (g_inj s G); eassumption.
      * apply (g_stuck s G).
  - (* Wake *)
    destruct (lookup c (w_st s)) as [[kind st]|] eqn:Es; [|exact G].
    destruct st; try exact G.
    destruct (t_take_cases c (w_tab s)) as [[Esl Er] | [[ty m] [Esl Er]]]; rewrite Er; [exact G|].
    constructor; cbn [w_tab w_n w_st w_stuck t_pend t_slot].
    + apply (g_pend_lt s G).
    + intros w p H. rewrite lookup_remove in H. destruct (c =? w); [discriminate|].
      apply (g_slot_lt s G) in H. exact H.
    + intros w x H. rewrite lookup_insert in H. destruct (c =? w) eqn:E.
      * apply N.eqb_eq in E; subst. eapply (g_st_lt s G); eassumption.
      * eapply (g_st_lt s G); eassumption.
    + intros k w H. rewrite lookup_remove. destruct (c =? w); [reflexivity|].
      eapply (g_pend_empty s G); eassumption.
    + apply (g_inj s G).
    + apply (g_stuck s G).
  - (* Cancel *)
    destruct (lookup c (w_st s)) as [[kind st]|] eqn:Es; [|exact G].
    destruct st; try exact G.
    constructor; cbn [w_tab w_n w_st w_stuck set_status]; try apply G.
    intros w x H. rewrite lookup_insert in H. destruct (c =? w) eqn:E.
    + apply N.eqb_eq in E; subst. eapply (g_st_lt s G); eassumption.
    + eapply (g_st_lt s G); eassumption.
Qed.

Lemma wG_run evs : forall s, wG s -> wG (wrun s evs).
Proof. induction evs as [|e evs IH]; intros s G; [exact G|]. rewrite wrun_cons. apply IH, wG_step, G. Qed.

Lemma never_blocks evs : w_stuck (wrun winit evs) = false.
Proof. apply g_stuck, wG_run, wG_init. Qed.

(* --- the generator --- *)
Definition ids_upto (n : nat) : list N := map (fun i => (2 * N.of_nat i) mod two32) (seq 0 n).

Record wGen (s : wstate) (n : nat) : Prop := mkWGen {
  gen_n : w_n s = N.of_nat n;
  gen_cur : w_cur s = (2 * N.of_nat n) mod two32;
  gen_ids : w_ids s = ids_upto n
}.

Lemma ids_upto_S n : ids_upto (S n) = ids_upto n ++ [(2 * N.of_nat n) mod two32].
Proof. unfold ids_upto. rewrite seq_S, map_app. reflexivity. Qed.

Lemma wGen_step s n e :
  wGen s n -> wGen (wstep s e) (match e with Issue _ => S n | _ => n end).
Proof.
  intros [Hn Hc Hi]. destruct e as [kind | id ty m | c | c]; cbn [wstep].
  - assert (Hc' : (w_cur s + 2) mod two32 = (2 * N.of_nat (S n)) mod two32).
    { rewrite Hc. unfold two32. lia. }
    destruct (kind =? 0); constructor; cbn [w_n w_cur w_ids]; try lia; try exact Hc';
      rewrite ids_upto_S, Hi, Hc; reflexivity.
  - destruct (t_route_cases id (ty, m) (w_tab s)) as [[Ep Er] | [[w [q [Ep [Esl Er]]]] | [w [Ep [Esl Er]]]]];
      rewrite Er; constructor; assumption.
  - destruct (lookup c (w_st s)) as [[kind st]|]; [|constructor; assumption].
    destruct st; try (constructor; assumption).
    destruct (t_take_cases c (w_tab s)) as [[Esl Er] | [[ty m] [Esl Er]]]; rewrite Er; constructor; assumption.
  - destruct (lookup c (w_st s)) as [[kind st]|]; [|constructor; assumption].
    destruct st; constructor; assumption.
Qed.

Lemma wGen_run evs : forall s n, wGen s n -> wGen (wrun s evs) (n + count_issues evs)%nat.
Proof.
  induction evs as [|e evs IH]; intros s n G; cbn [count_issues].
  - rewrite Nat.add_0_r. exact G.
  - rewrite wrun_cons. apply (wGen_step s n e) in G. apply IH in G.
    destruct e; cbn [count_issues]; try exact G. rewrite <- plus_n_Sm. exact G.
Qed.

Lemma wGen_init : wGen winit 0.
Proof. constructor; reflexivity. Qed.

Lemma ids_run evs : w_ids (wrun winit evs) = ids_upto (count_issues evs).
Proof. exact (gen_ids _ _ (wGen_run evs winit 0%nat wGen_init)). Qed.

Lemma small_id i : N.of_nat i < two31 -> (2 * N.of_nat i) mod two32 = 2 * N.of_nat i.
Proof. unfold two31, two32. intros H. apply N.mod_small. lia. Qed.

Lemma ids_upto_small n : N.of_nat n <= two31 ->
  ids_upto n = map (fun i => 2 * N.of_nat i) (seq 0 n).
Proof.
  intros H. unfold ids_upto. apply map_ext_in. intros i Hi. apply in_seq in Hi.
  apply small_id. lia.
Qed.

Lemma NoDup_map_inj {A B} (f : A -> B) l :
  (forall a b, In a l -> In b l -> f a = f b -> a = b) -> NoDup l -> NoDup (map f l).
Proof.
  intros Hinj Hnd. induction Hnd as [|x l Hx Hnd IH]; cbn; constructor.
  - intros Hin. apply in_map_iff in Hin as [y [Hy Hyl]]. apply Hx.
    assert (y = x) by (apply Hinj; [right; exact Hyl | left; reflexivity | exact Hy]). now subst.
  - apply IH. intros a b Ha Hb. apply Hinj; right; assumption.
Qed.

Lemma ids_even_distinct evs :
  N.of_nat (count_issues evs) <= two31 ->
  let ids := w_ids (wrun winit evs) in
  ids = map (fun i => 2 * N.of_nat i) (seq 0 (count_issues evs)) /\
  NoDup ids /\ Forall (fun x => N.even x = true /\ x < two32) ids.
Proof.
  intros H ids. subst ids. rewrite ids_run, ids_upto_small by exact H. split; [reflexivity|]. split.
  - apply NoDup_map_inj; [|apply seq_NoDup]. intros a b _ _. lia.
  - apply Forall_forall. intros x Hx. apply in_map_iff in Hx as [i [<- Hi]]. apply in_seq in Hi. split.
    + rewrite N.even_mul. reflexivity.
    + unfold two31, two32 in *. lia.
Qed.

(* --- one caller against the whole model --- *)
Definition wabs (k c : N) (s : wstate) : wsolo :=
  mkS (match lookup k (t_pend (w_tab s)) with Some w => w =? c | None => false end)
      (lookup c (t_slot (w_tab s)))
      (match lookup c (w_st s) with Some (_, st) => st | None => WWaiting end).

Record winv (k c kind : N) (s : wstate) : Prop := mkWinv {
  i_lt : c < w_n s;
  i_only : forall k', lookup k' (t_pend (w_tab s)) = Some c -> k' = k;
  i_kind : exists st, lookup c (w_st s) = Some (kind, st)
}.

Lemma wstep_abs k c kind s e :
  winv k c kind s -> (forall kd, e = Issue kd -> w_cur s <> k) ->
  wabs k c (wstep s e) = wsolo_step k c kind (wabs k c s) e /\ winv k c kind (wstep s e).
Proof.
  intros [Hlt Honly [st0 Hkind]] Hsafe.
  destruct e as [kd | id ty m | c' | c']; cbn [wstep wsolo_step]; unfold set_status.
  - (* Issue *)
    specialize (Hsafe kd eq_refl).
    assert (Hne : (w_cur s =? k) = false) by (apply N.eqb_neq; exact Hsafe).
    assert (Hnc : (w_n s =? c) = false) by (apply N.eqb_neq; lia).
    destruct (kd =? 0); (split; [unfold wabs; cbn [w_tab w_st set_status t_register t_pend t_slot];
      rewrite ?lookup_insert, ?Hne, ?Hnc; reflexivity|]).
    + constructor; cbn [w_n w_tab w_st set_status]; [lia | exact Honly |].
      exists st0. rewrite lookup_insert, Hnc. exact Hkind.
    + constructor; cbn [w_n w_tab w_st set_status t_register t_pend]; [lia | |].
      * intros k' H. rewrite lookup_insert in H. destruct (w_cur s =? k').
        -- injection H as H. lia.
        -- apply Honly, H.
      * exists st0. rewrite lookup_insert, Hnc. exact Hkind.
  - (* Respond *)
    destruct (t_route_cases id (ty, m) (w_tab s)) as [[Ep Er] | [[w [q [Ep [Esl Er]]]] | [w [Ep [Esl Er]]]]]; rewrite Er.
    + split; [|constructor; cbn [w_n w_tab w_st]; eauto].
      unfold wabs; cbn [w_tab w_st s_pend s_slot s_st].
      destruct (id =? k) eqn:Eid; cbn [andb]; [|reflexivity].
      apply N.eqb_eq in Eid; subst id. rewrite Ep. reflexivity.
    + (* blocked: table unchanged *)
      split; [|constructor; cbn [w_n w_tab w_st]; eauto].
      unfold wabs; cbn [w_tab w_st s_pend s_slot s_st].
      destruct (id =? k) eqn:Eid; cbn [andb]; [|reflexivity].
      apply N.eqb_eq in Eid; subst id. rewrite Ep.
      destruct (w =? c) eqn:Ew; [|reflexivity].
      apply N.eqb_eq in Ew; subst w. rewrite Esl. reflexivity.
    + split.
      * unfold wabs; cbn [w_tab w_st t_pend t_slot s_pend s_slot s_st].
        rewrite lookup_remove, lookup_insert.
        destruct (id =? k) eqn:Eid; cbn [andb].
        -- apply N.eqb_eq in Eid; subst id. rewrite Ep.
           destruct (w =? c) eqn:Ew.
           ++ apply N.eqb_eq in Ew; subst w. rewrite Esl. reflexivity.
           ++ reflexivity.
        -- destruct (w =? c) eqn:Ew; [|reflexivity].
           apply N.eqb_eq in Ew; subst w. apply Honly in Ep. apply N.eqb_neq in Eid. congruence.
      * constructor; cbn [w_n w_tab w_st t_pend]; [exact Hlt | | eauto].
        intros k' H. rewrite lookup_remove in H. destruct (id =? k'); [discriminate|]. apply Honly, H.
  - (* Wake *)
    destruct (c' =? c) eqn:Ec.
    + apply N.eqb_eq in Ec; subst c'. rewrite Hkind.
      assert (Ha : wabs k c s = mkS (match lookup k (t_pend (w_tab s)) with Some w => w =? c | None => false end)
                                    (lookup c (t_slot (w_tab s))) st0)
        by (unfold wabs; rewrite Hkind; reflexivity).
      rewrite Ha; cbn [s_st s_slot s_pend].
      destruct st0; try (split; [rewrite Ha; reflexivity | constructor; eauto]).
      destruct (t_take_cases c (w_tab s)) as [[Esl Er] | [[ty m] [Esl Er]]]; rewrite Er, Esl.
      * split; [rewrite Ha, Esl; reflexivity | constructor; eauto].
      * split.
        -- unfold wabs; cbn [w_tab w_st t_pend t_slot].
           rewrite lookup_remove_same, lookup_insert_same. reflexivity.
        -- constructor; cbn [w_n w_tab w_st t_pend]; [exact Hlt | exact Honly |].
           eexists. apply lookup_insert_same.
    + assert (Hne : c' <> c) by (apply N.eqb_neq; exact Ec).
      destruct (lookup c' (w_st s)) as [[kind' st']|] eqn:Es; [|split; [reflexivity | constructor; eauto]].
      destruct st'; try (split; [reflexivity | constructor; eauto]).
      destruct (t_take_cases c' (w_tab s)) as [[Esl Er] | [[ty m] [Esl Er]]]; rewrite Er;
        [split; [reflexivity | constructor; eauto]|].
      split.
      * unfold wabs; cbn [w_tab w_st t_pend t_slot set_status].
        rewrite lookup_remove_other, lookup_insert_other by congruence. reflexivity.
      * constructor; cbn [w_n w_tab w_st t_pend set_status]; [exact Hlt | exact Honly |].
        exists st0. rewrite lookup_insert_other by congruence. exact Hkind.
  - (* Cancel *)
    destruct (c' =? c) eqn:Ec.
    + apply N.eqb_eq in Ec; subst c'. rewrite Hkind.
      assert (Ha : wabs k c s = mkS (match lookup k (t_pend (w_tab s)) with Some w => w =? c | None => false end)
                                    (lookup c (t_slot (w_tab s))) st0)
        by (unfold wabs; rewrite Hkind; reflexivity).
      rewrite Ha; cbn [s_st s_slot s_pend].
      destruct st0; try (split; [rewrite Ha; reflexivity | constructor; eauto]).
      split.
      * unfold wabs; cbn [w_tab w_st set_status]. rewrite lookup_insert_same. reflexivity.
      * constructor; cbn [w_n w_tab w_st set_status]; [exact Hlt | exact Honly |].
        eexists. apply lookup_insert_same.
    + assert (Hne : c' <> c) by (apply N.eqb_neq; exact Ec).
      destruct (lookup c' (w_st s)) as [[kind' st']|] eqn:Es; [|split; [reflexivity | constructor; eauto]].
      destruct st'; try (split; [reflexivity | constructor; eauto]).
      split.
      * unfold wabs; cbn [w_tab w_st set_status]. rewrite lookup_insert_other by congruence. reflexivity.
      * constructor; cbn [w_n w_tab w_st set_status]; [exact Hlt | exact Honly |].
        exists st0. rewrite lookup_insert_other by congruence. exact Hkind.
Qed.

Lemma wrun_abs c kind evs : forall s n,
  winv (2 * c) c kind s -> wGen s n ->
  N.of_nat (n + count_issues evs) <= two31 ->
  wabs (2 * c) c (wrun s evs) = wsolo_run (2 * c) c kind (wabs (2 * c) c s) evs
  /\ winv (2 * c) c kind (wrun s evs).
Proof.
  induction evs as [|e evs IH]; intros s n Hinv Hgen Hb; [split; [reflexivity | exact Hinv]|].
  rewrite wrun_cons, wsolo_run_cons.
  assert (Hsafe : forall kd, e = Issue kd -> w_cur s <> 2 * c).
  { intros kd ->. cbn [count_issues] in Hb. rewrite (gen_cur s n Hgen).
    pose proof (i_lt _ _ _ _ Hinv) as Hlt. rewrite (gen_n s n Hgen) in Hlt.
    rewrite small_id by lia. lia. }
  destruct (wstep_abs (2 * c) c kind s e Hinv Hsafe) as [Habs Hinv'].
  rewrite <- Habs.
  apply (IH _ (match e with Issue _ => S n | _ => n end) Hinv' (wGen_step s n e Hgen)).
  destruct e; cbn [count_issues] in Hb |- *; lia.
Qed.

Lemma after_issue_split c evs kind rest :
  after_issue c evs = Some (kind, rest) ->
  exists pre, evs = pre ++ Issue kind :: rest /\ count_issues pre = c.
Proof.
  revert c. induction evs as [|e evs IH]; intros c H; [discriminate|].
  destruct e as [k | id ty m | w | w]; cbn [after_issue] in H.
  - destruct c as [|c'].
    + injection H as <- <-. exists []. split; reflexivity.
    + apply IH in H as [pre [-> Hc]]. exists (Issue k :: pre). split; [reflexivity|]. cbn. now rewrite Hc.
  - apply IH in H as [pre [-> Hc]]. exists (Respond id ty m :: pre). split; [reflexivity | exact Hc].
  - apply IH in H as [pre [-> Hc]]. exists (Wake w :: pre). split; [reflexivity | exact Hc].
  - apply IH in H as [pre [-> Hc]]. exists (Cancel w :: pre). split; [reflexivity | exact Hc].
Qed.

Lemma count_issues_app a b : count_issues (a ++ b) = (count_issues a + count_issues b)%nat.
Proof. induction a as [|e a IH]; [reflexivity|]. destruct e; cbn; rewrite ?IH; reflexivity. Qed.

Lemma after_issue_none c evs : after_issue c evs = None -> (count_issues evs <= c)%nat.
Proof.
  revert c. induction evs as [|e evs IH]; intros c H; [cbn; lia|].
  destruct e; cbn [after_issue count_issues] in *; try (apply IH, H).
  destruct c; [discriminate|]. apply IH in H. lia.
Qed.

Lemma wsolo_unrouted id c kind evs pend slot :
  s_st (wsolo_run id c kind (mkS pend slot WUnrouted) evs) = WUnrouted.
Proof.
  revert pend slot. induction evs as [|e evs IH]; intros pend slot; [reflexivity|].
  rewrite wsolo_run_cons. destruct e as [k | id' ty m | w | w]; cbn [wsolo_step s_pend s_slot s_st].
  - apply IH.
  - destruct ((id' =? id) && pend); [|apply IH]. destruct slot; apply IH.
  - destruct (w =? c); apply IH.
  - destruct (w =? c); apply IH.
Qed.

(* the main refinement: in the full model every caller has the status its one-caller
   specification gives it *)
Lemma own_response evs c :
  N.of_nat (count_issues evs) <= two31 ->
  wstatus_of (wrun winit evs) (N.of_nat c) = wspec (2 * N.of_nat c) c evs.
Proof.
  intros Hb. unfold wspec. destruct (after_issue c evs) as [[kind rest]|] eqn:Ea.
  - apply after_issue_split in Ea as [pre [-> Hc]].
    rewrite count_issues_app in Hb. cbn [count_issues] in Hb.
    rewrite wrun_app, wrun_cons.
    set (s0 := wrun winit pre).
    assert (G0 : wG s0) by apply wG_run, wG_init.
    assert (Gen0 : wGen s0 c).
    { pose proof (wGen_run pre winit 0%nat wGen_init) as H. rewrite Hc in H. exact H. }
    set (s1 := wstep s0 (Issue kind)).
    assert (Gen1 : wGen s1 (S c)) by apply (wGen_step s0 c (Issue kind) Gen0).
    assert (Hcur : w_cur s0 = 2 * N.of_nat c).
    { rewrite (gen_cur _ _ Gen0). apply small_id. lia. }
    assert (Hn : w_n s0 = N.of_nat c) by apply (gen_n _ _ Gen0).
    assert (Hslot : lookup (N.of_nat c) (t_slot (w_tab s0)) = None).
    { apply slot_none_of_lt; [exact G0 | lia]. }
    assert (Hnotin : forall k', lookup k' (t_pend (w_tab s0)) = Some (N.of_nat c) -> False).
    { intros k' H. apply (g_pend_lt s0 G0) in H. lia. }
    assert (Hinv : winv (2 * N.of_nat c) (N.of_nat c) kind s1).
    { subst s1. cbn [wstep]. unfold set_status. destruct (kind =? 0); constructor;
        cbn [w_n w_tab w_st set_status t_register t_pend]; try lia.
      - eexists. rewrite Hn. apply lookup_insert_same.
      - intros k' H. rewrite lookup_insert in H. destruct (w_cur s0 =? k') eqn:E.
        + apply N.eqb_eq in E. lia.
        + exfalso. eapply Hnotin, H.
      - eexists. rewrite Hn. apply lookup_insert_same. }
    destruct (wrun_abs (N.of_nat c) kind rest s1 (S c) Hinv Gen1 ltac:(lia)) as [Habs Hinv'].
    assert (Hst : wstatus_of (wrun s1 rest) (N.of_nat c) = Some (s_st (wabs (2 * N.of_nat c) (N.of_nat c) (wrun s1 rest)))).
    { destruct (i_kind _ _ _ _ Hinv') as [st Hl]. unfold wstatus_of, wabs; cbn [s_st]. rewrite Hl. reflexivity. }
    fold s0. fold s1. rewrite Hst, Habs.
    subst s1. cbn [wstep]. unfold set_status. destruct (kind =? 0) eqn:Ek.
    + unfold wabs; cbn [w_tab w_st set_status]. rewrite Hn, lookup_insert_same.
      rewrite wsolo_unrouted. reflexivity.
    + f_equal. f_equal. unfold wabs, wsolo_init; cbn [w_tab w_st set_status t_register t_pend t_slot].
      rewrite Hn, lookup_insert_same, Hslot, Hcur, lookup_insert_same, N.eqb_refl. reflexivity.
  - (* caller c does not exist *)
    apply after_issue_none in Ea.
    pose proof (wG_run evs winit wG_init) as G.
    pose proof (wGen_run evs winit 0%nat wGen_init) as Gen. cbn [Nat.add] in Gen.
    unfold wstatus_of. destruct (lookup (N.of_nat c) (w_st (wrun winit evs))) as [[k st]|] eqn:E; [|reflexivity].
    apply (g_st_lt _ G) in E. rewrite (gen_n _ _ Gen) in E. lia.
Qed.

(* --- unknown / duplicate responses --- *)
Lemma unknown_ignored s id ty m :
  lookup id (t_pend (w_tab s)) = None -> wstep s (Respond id ty m) = s.
Proof.
  intros H. cbn [wstep]. destruct (t_route_cases id (ty, m) (w_tab s)) as [[Ep Er] | [[w [q [Ep _]]] | [w [Ep _]]]];
    try congruence. rewrite Er. destruct s; reflexivity.
Qed.

Lemma respond_clears s id ty m :
  wG s -> lookup id (t_pend (w_tab (wstep s (Respond id ty m)))) = None.
Proof.
  intros G. cbn [wstep].
  destruct (t_route_cases id (ty, m) (w_tab s)) as [[Ep Er] | [[w [q [Ep [Esl Er]]]] | [w [Ep [Esl Er]]]]]; rewrite Er.
  - exact Ep.
  - rewrite (g_pend_empty s G _ _ Ep) in Esl. discriminate.
  - cbn [w_tab t_pend]. apply lookup_remove_same.
Qed.

Lemma duplicate_ignored evs id ty m ty' m' :
  let s := wrun winit evs in
  wstep (wstep s (Respond id ty m)) (Respond id ty' m') = wstep s (Respond id ty m).
Proof.
  intros s. apply unknown_ignored, respond_clears. apply wG_run, wG_init.
Qed.

(* --- cancellation of one caller is invisible to every other caller --- *)
Lemma count_issues_drop_cancel c evs : count_issues (drop_cancel c evs) = count_issues evs.
Proof.
  induction evs as [|e evs IH]; [reflexivity|]. unfold drop_cancel in *. cbn [filter].
  destruct e as [k | id ty m | w | w]; cbn [count_issues]; rewrite ?IH; try reflexivity.
  destruct (negb (w =? c)); cbn [count_issues]; exact IH.
Qed.

Lemma after_issue_drop_cancel c c' evs :
  after_issue c' (drop_cancel c evs) =
  match after_issue c' evs with Some (k, rest) => Some (k, drop_cancel c rest) | None => None end.
Proof.
  revert c'. induction evs as [|e evs IH]; intros c'; [reflexivity|]. unfold drop_cancel in *. cbn [filter].
  destruct e as [k | id ty m | w | w]; cbn [after_issue]; try apply IH.
  - destruct c'; [reflexivity | apply IH].
  - destruct (negb (w =? c)); cbn [after_issue]; apply IH.
Qed.

Lemma wsolo_run_drop_cancel id c c' kind evs : c <> c' -> forall s,
  wsolo_run id c' kind s (drop_cancel c evs) = wsolo_run id c' kind s evs.
Proof.
  intros Hne. induction evs as [|e evs IH]; intros s; [reflexivity|]. unfold drop_cancel in *. cbn [filter].
  destruct e as [k | id' ty m | w | w]; try (rewrite !wsolo_run_cons; apply IH).
  destruct (w =? c) eqn:E; cbn [negb].
  - apply N.eqb_eq in E; subst w. rewrite (wsolo_run_cons _ _ _ _ (Cancel c)). cbn [wsolo_step].
    assert (Hf : (c =? c') = false) by (apply N.eqb_neq; exact Hne). rewrite Hf. apply IH.
  - rewrite !wsolo_run_cons. apply IH.
Qed.

Lemma cancel_isolated evs c c' :
  N.of_nat (count_issues evs) <= two31 -> c <> N.of_nat c' ->
  wstatus_of (wrun winit (drop_cancel c evs)) (N.of_nat c') = wstatus_of (wrun winit evs) (N.of_nat c').
Proof.
  intros Hb Hne. rewrite !own_response by (rewrite ?count_issues_drop_cancel; exact Hb).
  unfold wspec. rewrite after_issue_drop_cancel. destruct (after_issue c' evs) as [[k rest]|]; [|reflexivity].
  destruct (k =? 0); [reflexivity|]. rewrite wsolo_run_drop_cancel by exact Hne. reflexivity.
Qed.

(* --- what a caller returns is the first response bearing its id --- *)
Fixpoint first_response (id : N) (evs : list wev) : option (N * N) :=
  match evs with
  | [] => None
  | Respond id' ty m :: evs' => if id' =? id then Some (ty, m) else first_response id evs'
  | _ :: evs' => first_response id evs'
  end.

Lemma wsolo_got_first id c kind evs : forall s ty m,
  s_st (wsolo_run id c kind s evs) = WGot ty m ->
  match s_st s with
  | WGot ty' m' => ty' = ty /\ m' = m
  | WWaiting =>
      match s_slot s with
      | Some p => p = (ty, m) /\ ty = kind
      | None => s_pend s = true /\ first_response id evs = Some (ty, m) /\ ty = kind
      end
  | _ => False
  end.
Proof.
  induction evs as [|e evs IH]; intros s ty m H.
  - cbn in H. rewrite H. split; reflexivity.
  - rewrite wsolo_run_cons in H. apply IH in H. clear IH.
    destruct e as [k | id' ty' m' | w | w]; cbn [wsolo_step first_response] in *; unfold wrong_type_outcome in *.
    + exact H.
    + destruct (id' =? id) eqn:Eid; cbn [andb] in H.
      * destruct (s_pend s) eqn:Ep.
        -- destruct (s_slot s) eqn:Esl.
           ++ rewrite Esl in H. exact H.
           ++ cbn [s_st s_slot s_pend] in H. destruct (s_st s); try exact H.
              destruct H as [H1 H2]. repeat split; congruence.
        -- rewrite Ep in H. destruct (s_st s); try exact H. destruct (s_slot s); [exact H|].
           destruct H as [H _]; discriminate.
      * exact H.
    + destruct (w =? c).
      * destruct (s_st s) eqn:Est; try (rewrite Est in H; exact H).
        destruct (s_slot s) as [[t1 m1]|] eqn:Esl.
        -- cbn [s_st s_slot s_pend] in H. destruct (t1 =? kind) eqn:Et.
           ++ destruct H as [-> ->]. apply N.eqb_eq in Et. split; [reflexivity | congruence].
           ++ destruct H.
        -- rewrite Est, Esl in H. exact H.
      * exact H.
    + destruct (w =? c).
      * destruct (s_st s) eqn:Est; try (rewrite Est in H; exact H). cbn [s_st] in H. destruct H.
      * exact H.
Qed.

Lemma got_is_first evs c ty m :
  N.of_nat (count_issues evs) <= two31 ->
  wstatus_of (wrun winit evs) (N.of_nat c) = Some (WGot ty m) ->
  exists kind rest, after_issue c evs = Some (kind, rest) /\ ty = kind /\
                    first_response (2 * N.of_nat c) rest = Some (ty, m).
Proof.
  intros Hb H. rewrite own_response in H by exact Hb. unfold wspec in H.
  destruct (after_issue c evs) as [[kind rest]|]; [|discriminate].
  destruct (kind =? 0); [discriminate|]. injection H as H.
  apply wsolo_got_first in H. cbn in H. destruct H as [_ [H1 H2]]. eauto.
Qed.

(* --- wrong-typed responses (F15, repaired) --- *)
(* under broker_wf no caller is ever handed the malformed-message error *)
Lemma wsolo_no_malformed id c kind evs : forall s,
  (forall ty m, In (Respond id ty m) evs -> ty = kind) ->
  s_st s <> WMalformed -> (forall ty m, s_slot s = Some (ty, m) -> ty = kind) ->
  s_st (wsolo_run id c kind s evs) <> WMalformed.
Proof.
  induction evs as [|e evs IH]; intros s Hwt Hst Hsl; [exact Hst|].
  rewrite wsolo_run_cons. apply IH.
  - intros ty m Hin. apply (Hwt ty m). right. exact Hin.
  - destruct e as [k | id' ty m | w | w]; cbn [wsolo_step]; try exact Hst.
    + destruct ((id' =? id) && s_pend s); [|exact Hst]. destruct (s_slot s); exact Hst.
    + destruct (w =? c); [|exact Hst]. destruct (s_st s) eqn:Est; try (rewrite Est; discriminate).
      * destruct (s_slot s) as [[ty m]|] eqn:E; [|rewrite Est; discriminate]. cbn [s_st].
        rewrite (Hsl ty m eq_refl), N.eqb_refl. discriminate.
      * exfalso. apply Hst. reflexivity.
    + destruct (w =? c); [|exact Hst]. destruct (s_st s) eqn:Est; try (rewrite Est; discriminate).
      * cbn [s_st]. discriminate.
      * exfalso. apply Hst. reflexivity.
  - destruct e as [k | id' ty m | w | w]; cbn [wsolo_step]; try exact Hsl.
    + destruct (id' =? id) eqn:Eid; cbn [andb]; [|exact Hsl].
      destruct (s_pend s); [|exact Hsl]. destruct (s_slot s) eqn:E; [rewrite E; exact Hsl|].
      cbn [s_slot]. intros ty' m' [= <- <-]. apply N.eqb_eq in Eid; subst id'.
      apply (Hwt ty m). left. reflexivity.
    + destruct (w =? c); [|exact Hsl]. destruct (s_st s); try exact Hsl.
      destruct (s_slot s) as [[ty m]|] eqn:E; [|rewrite E; exact Hsl]. cbn [s_slot]. discriminate.
    + destruct (w =? c); [|exact Hsl]. destruct (s_st s); exact Hsl.
Qed.

Lemma no_malformed_under_wf evs c :
  N.of_nat (count_issues evs) <= two31 ->
  (forall kind rest ty m, after_issue c evs = Some (kind, rest) ->
                          In (Respond (2 * N.of_nat c) ty m) rest -> ty = kind) ->
  wstatus_of (wrun winit evs) (N.of_nat c) <> Some WMalformed.
Proof.
  intros Hb Hwt. rewrite own_response by exact Hb. unfold wspec.
  destruct (after_issue c evs) as [[kind rest]|] eqn:Ea; [|discriminate].
  destruct (kind =? 0); [discriminate|]. intros [= H]. revert H.
  apply wsolo_no_malformed; cbn; try discriminate.
  intros ty m Hin. eapply Hwt; [reflexivity | exact Hin].
Qed.

(* the former F15 witness (an UpstreamCloseResponse, tag 4, bearing the id of a pending
   UpstreamMetadata request, kind 8): the caller now gets the malformed-message error.  With the
   former code (wrong_type_outcome = WPanicked) this very history computed Some WPanicked. *)
Lemma wrong_type_is_error :
  wstatus_of (wrun winit [Issue 0; Issue 8; Respond 2 4 7; Wake 1]) 1 = Some WMalformed.
Proof. vm_compute. reflexivity. Qed.

(* ========================================================================================== *)
(* C16 *)

Lemma erun_cons s e evs : erun s (e :: evs) = erun (estep s e) evs.
Proof. reflexivity. Qed.
Lemma erun_app s a b : erun s (a ++ b) = erun (erun s a) b.
Proof. unfold erun. apply fold_left_app. Qed.
Lemma esolo_run_cons id c k s e evs :
  esolo_run id c k s (e :: evs) = esolo_run id c k (esolo_step id c k s e) evs.
Proof. reflexivity. Qed.

(* --- table-level invariant --- *)
Record tG {P} (n : N) (t : table P) : Prop := mkTG {
  tg_lt : forall k w, lookup k (t_pend t) = Some w -> w < n;
  tg_slot_lt : forall w p, lookup w (t_slot t) = Some p -> w < n;
  tg_empty : forall k w, lookup k (t_pend t) = Some w -> lookup w (t_slot t) = None;
  tg_inj : forall k1 k2 w, lookup k1 (t_pend t) = Some w -> lookup k2 (t_pend t) = Some w -> k1 = k2
}.

Lemma tG_empty_table {P} n : tG n (@t_empty P).
Proof. constructor; cbn; intros; discriminate. Qed.

Lemma tG_mono {P} n n' (t : table P) : n <= n' -> tG n t -> tG n' t.
Proof.
  intros Hle [H1 H2 H3 H4]. constructor; try assumption.
  - intros k w H. apply H1 in H. lia.
  - intros w p H. apply H2 in H. lia.
Qed.

Lemma tG_register {P} n k (t : table P) : tG n t -> tG (n + 1) (t_register k n t).
Proof.
  intros [H1 H2 H3 H4]. constructor; cbn [t_register t_pend t_slot].
  - intros k' w H. rewrite lookup_insert in H. destruct (k =? k').
    + injection H as <-. lia.
    + apply H1 in H. lia.
  - intros w p H. apply H2 in H. lia.
  - intros k' w H. rewrite lookup_insert in H. destruct (k =? k').
    + injection H as <-. destruct (lookup n (t_slot t)) eqn:E; [|reflexivity]. apply H2 in E. lia.
    + eapply H3, H.
  - intros k1 k2 w Ha Hb. rewrite lookup_insert in Ha, Hb.
    destruct (k =? k1) eqn:E1, (k =? k2) eqn:E2.
    + apply N.eqb_eq in E1, E2. congruence.
    + injection Ha as <-. apply H1 in Hb. lia.
    + injection Hb as <-. apply H1 in Ha. lia.
    + eapply H4; eassumption.
Qed.

Lemma tG_route {P} n k (p : P) t :
  tG n t -> tG n (fst (t_route k p t)) /\ (forall w, snd (t_route k p t) <> RBlocked w).
Proof.
  intros G. pose proof G as [H1 H2 H3 H4].
  destruct (t_route_cases k p t) as [[Ep Er] | [[w [q [Ep [Esl Er]]]] | [w [Ep [Esl Er]]]]]; rewrite Er; cbn [fst snd].
  - split; [exact G | discriminate].
  - rewrite (H3 _ _ Ep) in Esl. discriminate.
  - split; [|discriminate]. constructor; cbn [t_pend t_slot].
    + intros k' w' H. rewrite lookup_remove in H. destruct (k =? k'); [discriminate|]. eapply H1, H.
    + intros w' p' H. rewrite lookup_insert in H. destruct (w =? w') eqn:E.
      * apply N.eqb_eq in E; subst. eapply H1, Ep.
      * eapply H2, H.
    + intros k' w' H. rewrite lookup_remove in H. destruct (k =? k') eqn:Ek; [discriminate|].
      rewrite lookup_insert. destruct (w =? w') eqn:E.
      * apply N.eqb_eq in E; subst. apply N.eqb_neq in Ek. exfalso. apply Ek. eapply H4; eassumption.
      * eapply H3, H.
    + intros k1 k2 w' Ha Hb. rewrite lookup_remove in Ha, Hb.
      destruct (k =? k1); [discriminate|]. destruct (k =? k2); [discriminate|]. eapply H4; eassumption.
Qed.

Lemma tG_take {P} n w (t : table P) : tG n t -> tG n (fst (t_take w t)).
Proof.
  intros G. pose proof G as [H1 H2 H3 H4].
  destruct (t_take_cases w t) as [[E Er] | [p [E Er]]]; rewrite Er; cbn [fst]; [exact G|].
  constructor; cbn [t_pend t_slot]; try assumption.
  - intros w' p' H. rewrite lookup_remove in H. destruct (w =? w'); [discriminate|]. eapply H2, H.
  - intros k w' H. rewrite lookup_remove. destruct (w =? w'); [reflexivity|]. eapply H3, H.
Qed.

(* --- one waiter's view of a table --- *)
Definition pendb (id c : N) (m : lmap N) : bool :=
  match lookup id m with Some w => w =? c | None => false end.
Definition tonly {P} (id c : N) (t : table P) : Prop :=
  forall k', lookup k' (t_pend t) = Some c -> k' = id.

Lemma abs_register {P} id c k w (t : table P) :
  k <> id -> w <> c -> tonly id c t ->
  pendb id c (t_pend (t_register k w t)) = pendb id c (t_pend t)
  /\ t_slot (t_register k w t) = t_slot t /\ tonly id c (t_register k w t).
Proof.
  intros Hk Hw Ho. unfold tonly in *. cbn [t_register t_pend t_slot]. repeat split.
  - unfold pendb. rewrite lookup_insert. destruct (k =? id) eqn:E; [apply N.eqb_eq in E; congruence | reflexivity].
  - intros k' H. rewrite lookup_insert in H. destruct (k =? k'); [congruence | apply Ho, H].
Qed.

Lemma abs_route {P} id c k (p : P) t :
  tonly id c t ->
  let t' := fst (t_route k p t) in
  let hit := (k =? id) && pendb id c (t_pend t) in
  pendb id c (t_pend t') = (if hit then match lookup c (t_slot t) with None => false | Some _ => true end
                            else pendb id c (t_pend t))
  /\ lookup c (t_slot t') = (if hit then match lookup c (t_slot t) with None => Some p | Some q => Some q end
                             else lookup c (t_slot t))
  /\ tonly id c t'.
Proof.
  intros Ho t' hit. subst t' hit. unfold tonly in *.
  destruct (t_route_cases k p t) as [[Ep Er] | [[w [q [Ep [Esl Er]]]] | [w [Ep [Esl Er]]]]]; rewrite Er; cbn [fst].
  - repeat split; try exact Ho; unfold pendb;
      (destruct (k =? id) eqn:Ek; cbn [andb]; [apply N.eqb_eq in Ek; subst k; rewrite Ep; reflexivity | reflexivity]).
  - repeat split; try exact Ho; unfold pendb;
      (destruct (k =? id) eqn:Ek; cbn [andb]; [|reflexivity]; apply N.eqb_eq in Ek; subst k; rewrite Ep;
       destruct (w =? c) eqn:Ew; [|reflexivity]; apply N.eqb_eq in Ew; subst w; rewrite Esl; reflexivity).
  - cbn [t_pend t_slot]. repeat split.
    + unfold pendb. rewrite lookup_remove. destruct (k =? id) eqn:Ek; cbn [andb].
      * apply N.eqb_eq in Ek; subst k. rewrite Ep. destruct (w =? c) eqn:Ew; [|reflexivity].
        apply N.eqb_eq in Ew; subst w. rewrite Esl. reflexivity.
      * reflexivity.
    + unfold pendb. rewrite lookup_insert. destruct (k =? id) eqn:Ek; cbn [andb].
      * apply N.eqb_eq in Ek; subst k. rewrite Ep. destruct (w =? c) eqn:Ew.
        -- apply N.eqb_eq in Ew; subst w. rewrite Esl. reflexivity.
        -- reflexivity.
      * destruct (w =? c) eqn:Ew; [|reflexivity]. apply N.eqb_eq in Ew; subst w.
        apply Ho in Ep. apply N.eqb_neq in Ek. congruence.
    + intros k' H. rewrite lookup_remove in H. destruct (k =? k'); [discriminate | apply Ho, H].
Qed.

Lemma abs_take_other {P} id c w (t : table P) :
  w <> c -> tonly id c t ->
  t_pend (fst (t_take w t)) = t_pend t /\ lookup c (t_slot (fst (t_take w t))) = lookup c (t_slot t)
  /\ tonly id c (fst (t_take w t)).
Proof.
  intros Hw Ho. unfold tonly in *. destruct (t_take_cases w t) as [[E Er] | [p [E Er]]]; rewrite Er; cbn [fst t_pend t_slot].
  - repeat split; exact Ho.
  - repeat split; [|exact Ho]. rewrite lookup_remove_other by congruence. reflexivity.
Qed.

(* --- global invariant of the e2e model --- *)
Record eG (s : estate) : Prop := mkEG {
  eg_ack : tG (e_n s) (e_ack s);
  eg_rep : tG (e_n s) (e_rep s);
  eg_st_lt : forall w x, lookup w (e_st s) = Some x -> w < e_n s;
  eg_stuck : e_stuck s = false
}.

Lemma eG_init : eG einit.
Proof. constructor; cbn; intros; try discriminate; try apply tG_empty_table; reflexivity. Qed.

Lemma st_insert_lt {V} n c (x : V) (m : lmap V) :
  c < n -> (forall w y, lookup w m = Some y -> w < n) -> forall w y, lookup w (insert c x m) = Some y -> w < n.
Proof.
  intros Hc H w y Hl. rewrite lookup_insert in Hl. destruct (c =? w) eqn:E.
  - apply N.eqb_eq in E. lia.
  - eapply H, Hl.
Qed.

Lemma st_new_lt {V} n (x : V) (m : lmap V) :
  (forall w y, lookup w m = Some y -> w < n) -> forall w y, lookup w (insert n x m) = Some y -> w < n + 1.
Proof.
  intros H w y Hl. rewrite lookup_insert in Hl. destruct (n =? w) eqn:E.
  - apply N.eqb_eq in E. lia.
  - apply H in Hl. lia.
Qed.

Lemma eG_step s e : eG s -> eG (estep s e).
Proof.
  intros [Ga Gr Gs Gk].
  assert (Hmono : forall P (t : table P), tG (e_n s) t -> tG (e_n s + 1) t) by (intros; eapply tG_mono; [|eassumption]; lia).
  destruct e as [k id | id code m | d | c | c | | c | |]; cbn [estep].
  - (* ECall *)
    unfold e_call.
    destruct (e_closed s); [destruct k | destruct k];
      repeat match goal with |- context [if ?b then _ else _] => destruct b end;
      constructor; cbn [e_n e_ack e_rep e_st e_stuck];
      try (apply tG_register; assumption); try (apply Hmono; assumption);
      try (apply st_new_lt; assumption); try assumption.
  - (* EAck *)
    destruct (t_route id (code, m) (e_ack s)) as [t' r] eqn:Er.
    destruct (tG_route (e_n s) id (code, m) (e_ack s) Ga) as [Gt Hnb]. rewrite Er in Gt, Hnb. cbn [fst snd] in Gt, Hnb.
    constructor; cbn [e_n e_ack e_rep e_st e_stuck]; try assumption.
    destruct r; try assumption. exfalso. eapply Hnb. reflexivity.
  - (* EIn *)
    destruct (d_req d =? 0); [constructor; cbn [e_n e_ack e_rep e_st e_stuck]; assumption|].
    destruct (t_route (d_req d) d (e_rep s)) as [t' r] eqn:Er.
    destruct (tG_route (e_n s) (d_req d) d (e_rep s) Gr) as [Gt Hnb]. rewrite Er in Gt, Hnb. cbn [fst snd] in Gt, Hnb.
    constructor; cbn [e_n e_ack e_rep e_st e_stuck]; try assumption.
    destruct r; try assumption. exfalso. eapply Hnb. reflexivity.
  - (* EWake *)
    destruct (lookup c (e_st s)) as [[[k id] st]|] eqn:Es; [|constructor; assumption].
    assert (Hc : c < e_n s) by (eapply Gs, Es).
    destruct st; [| |constructor; assumption].
    + pose proof (tG_take (e_n s) c (e_ack s) Ga) as Gt.
      destruct (t_take c (e_ack s)) as [t' [[code m]|]] eqn:Et; [|constructor; assumption]. cbn [fst] in Gt.
      constructor; cbn [e_n e_ack e_rep e_st e_stuck]; try assumption. apply st_insert_lt; assumption.
    + pose proof (tG_take (e_n s) c (e_rep s) Gr) as Gt.
      destruct (t_take c (e_rep s)) as [t' [d|]] eqn:Et; [|constructor; assumption]. cbn [fst] in Gt.
      constructor; cbn [e_n e_ack e_rep e_st e_stuck]; try assumption. apply st_insert_lt; assumption.
  - (* ECancel *)
    destruct (lookup c (e_st s)) as [[[k id] st]|] eqn:Es; [|constructor; assumption].
    assert (Hc : c < e_n s) by (eapply Gs, Es).
    destruct st; [| |constructor; assumption];
      (constructor; cbn [e_with_st e_n e_ack e_rep e_st e_stuck]; try assumption; apply st_insert_lt; assumption).
  - constructor; cbn [e_n e_ack e_rep e_st e_stuck]; assumption.
  - (* ESeeClosed *)
    destruct (e_closed s); [|constructor; assumption].
    destruct (lookup c (e_st s)) as [[[k id] st]|] eqn:Es; [|constructor; assumption].
    assert (Hc : c < e_n s) by (eapply Gs, Es).
    destruct st; [| |constructor; assumption];
      (constructor; cbn [e_with_st e_n e_ack e_rep e_st e_stuck]; try assumption; apply st_insert_lt; assumption).
  - destruct (e_calls s); constructor; cbn [e_n e_ack e_rep e_st e_stuck]; assumption.
  - destruct (e_replies s); constructor; cbn [e_n e_ack e_rep e_st e_stuck]; assumption.
Qed.

Lemma eG_run evs : forall s, eG s -> eG (erun s evs).
Proof. induction evs as [|e evs IH]; intros s G; [exact G|]. rewrite erun_cons. apply IH, eG_step, G. Qed.

Lemma e_never_blocks evs : e_stuck (erun einit evs) = false.
Proof. apply eg_stuck, eG_run, eG_init. Qed.

(* --- one caller against the whole e2e model --- *)
Definition eabs (id c : N) (s : estate) : esolo :=
  mkES (pendb id c (t_pend (e_ack s))) (lookup c (t_slot (e_ack s)))
       (pendb id c (t_pend (e_rep s))) (lookup c (t_slot (e_rep s)))
       (e_closed s)
       (match lookup c (e_st s) with Some (_, _, st) => st | None => EWaitAck end).

Record einv (id c : N) (k : ekind) (s : estate) : Prop := mkEinv {
  ei_lt : c < e_n s;
  ei_ack : tonly id c (e_ack s);
  ei_rep : tonly id c (e_rep s);
  ei_kind : exists st, lookup c (e_st s) = Some (k, id, st)
}.

Lemma tonly_register {P} id c k w (t : table P) : w <> c -> tonly id c t -> tonly id c (t_register k w t).
Proof.
  intros Hw Ho k' H. cbn [t_register t_pend] in H. rewrite lookup_insert in H.
  destruct (k =? k'); [congruence | apply Ho, H].
Qed.

Lemma pendb_register {P} id c k w (t : table P) : k <> id -> pendb id c (t_pend (t_register k w t)) = pendb id c (t_pend t).
Proof.
  intros Hk. cbn [t_register t_pend]. unfold pendb. rewrite lookup_insert.
  destruct (k =? id) eqn:E; [apply N.eqb_eq in E; congruence | reflexivity].
Qed.

Ltac einv_same Hlt Hoa Hor Hkind st0 :=
  constructor; cbn [e_with_st e_n e_ack e_rep e_st]; [exact Hlt | exact Hoa | exact Hor | exists st0; exact Hkind].

Lemma estep_abs id c k s e :
  einv id c k s -> (forall k' id', e = ECall k' id' -> id' <> id) ->
  eabs id c (estep s e) = esolo_step id c k (eabs id c s) e /\ einv id c k (estep s e).
Proof.
  intros [Hlt Hoa Hor [st0 Hkind]] Hsafe.
  destruct e as [k' id' | id' code m | d | c' | c' | | c' | |]; cbn [estep esolo_step].
  - (* ECall *)
    specialize (Hsafe k' id' eq_refl).
    assert (Hnc : e_n s <> c) by lia.
    assert (Hst : forall x, lookup c (insert (e_n s) x (e_st s)) = Some (k, id, st0))
      by (intros x; rewrite lookup_insert_other by congruence; exact Hkind).
    unfold e_call.
    destruct (e_closed s) eqn:Ecl; [destruct k' | destruct k'];
      repeat match goal with |- context [if ?b then _ else _] => destruct b end;
      (split;
       [ unfold eabs; cbn [e_n e_ack e_rep e_st e_closed]; rewrite ?pendb_register by exact Hsafe;
         cbn [t_register t_slot]; rewrite ?Hst, ?Hkind, ?Ecl; reflexivity
       | constructor; cbn [e_n e_ack e_rep e_st];
         [ lia
         | try (apply tonly_register; [exact Hnc | exact Hoa]); try exact Hoa
         | try (apply tonly_register; [exact Hnc | exact Hor]); try exact Hor
         | exists st0; apply Hst ] ]).
  - (* EAck *)
    destruct (abs_route id c id' (code, m) (e_ack s) Hoa) as [H1 [H2 H3]].
    destruct (t_route id' (code, m) (e_ack s)) as [t' r] eqn:Er. cbn [fst] in H1, H2, H3.
    split.
    + unfold eabs; cbn [e_n e_ack e_rep e_st e_closed es_apend es_aslot es_rpend es_rslot es_closed es_st].
      rewrite H1, H2.
      destruct (id' =? id); destruct (pendb id c (t_pend (e_ack s))); cbn [andb]; try reflexivity.
      destruct (lookup c (t_slot (e_ack s))); reflexivity.
    + constructor; cbn [e_n e_ack e_rep e_st]; [exact Hlt | exact H3 | exact Hor | exists st0; exact Hkind].
  - (* EIn *)
    destruct (d_req d =? 0) eqn:E0; cbn [negb andb].
    + split; [reflexivity|]. einv_same Hlt Hoa Hor Hkind st0.
    + destruct (abs_route id c (d_req d) d (e_rep s) Hor) as [H1 [H2 H3]].
      destruct (t_route (d_req d) d (e_rep s)) as [t' r] eqn:Er. cbn [fst] in H1, H2, H3.
      split.
      * unfold eabs; cbn [e_n e_ack e_rep e_st e_closed es_apend es_aslot es_rpend es_rslot es_closed es_st].
        rewrite H1, H2.
        destruct (d_req d =? id); destruct (pendb id c (t_pend (e_rep s))); cbn [andb]; try reflexivity.
        destruct (lookup c (t_slot (e_rep s))); reflexivity.
      * constructor; cbn [e_n e_ack e_rep e_st]; [exact Hlt | exact Hoa | exact H3 | exists st0; exact Hkind].
  - (* EWake *)
    destruct (c' =? c) eqn:Ec.
    + apply N.eqb_eq in Ec; subst c'. rewrite Hkind.
      assert (Ha : eabs id c s = mkES (pendb id c (t_pend (e_ack s))) (lookup c (t_slot (e_ack s)))
                                     (pendb id c (t_pend (e_rep s))) (lookup c (t_slot (e_rep s))) (e_closed s) st0)
        by (unfold eabs; rewrite Hkind; reflexivity).
      rewrite Ha; cbn [es_apend es_aslot es_rpend es_rslot es_closed es_st].
      destruct st0.
      * destruct (t_take_cases c (e_ack s)) as [[Esl Er] | [[code m] [Esl Er]]]; rewrite Er, Esl.
        -- split; [rewrite Ha, Esl; reflexivity | einv_same Hlt Hoa Hor Hkind EWaitAck].
        -- split.
           ++ unfold eabs; cbn [e_n e_ack e_rep e_st e_closed t_pend t_slot].
              rewrite lookup_remove_same, lookup_insert_same. reflexivity.
           ++ constructor; cbn [e_n e_ack e_rep e_st]; [exact Hlt | exact Hoa | exact Hor |].
              eexists. apply lookup_insert_same.
      * destruct (t_take_cases c (e_rep s)) as [[Esl Er] | [d [Esl Er]]]; rewrite Er, Esl.
        -- split; [rewrite Ha, Esl; reflexivity | einv_same Hlt Hoa Hor Hkind EWaitReply].
        -- split.
           ++ unfold eabs; cbn [e_n e_ack e_rep e_st e_closed t_pend t_slot].
              rewrite lookup_remove_same, lookup_insert_same. reflexivity.
           ++ constructor; cbn [e_n e_ack e_rep e_st]; [exact Hlt | exact Hoa | exact Hor |].
              eexists. apply lookup_insert_same.
      * split; [rewrite Ha; reflexivity | einv_same Hlt Hoa Hor Hkind (EDone r)].
    + assert (Hne : c' <> c) by (apply N.eqb_neq; exact Ec).
      assert (Hst : forall x, lookup c (insert c' x (e_st s)) = Some (k, id, st0))
        by (intros x; rewrite lookup_insert_other by congruence; exact Hkind).
      destruct (lookup c' (e_st s)) as [[[k1 id1] st1]|] eqn:Es; [|split; [reflexivity | einv_same Hlt Hoa Hor Hkind st0]].
      destruct st1; [| |split; [reflexivity | einv_same Hlt Hoa Hor Hkind st0]].
      * destruct (abs_take_other id c c' (e_ack s) Hne Hoa) as [H1 [H2 H3]].
        destruct (t_take c' (e_ack s)) as [t' [[code m]|]] eqn:Et; [|split; [reflexivity | einv_same Hlt Hoa Hor Hkind st0]].
        cbn [fst] in H1, H2, H3. split.
        -- unfold eabs; cbn [e_n e_ack e_rep e_st e_closed]. rewrite H1, H2, Hst, Hkind. reflexivity.
        -- constructor; cbn [e_n e_ack e_rep e_st]; [exact Hlt | exact H3 | exact Hor | exists st0; apply Hst].
      * destruct (abs_take_other id c c' (e_rep s) Hne Hor) as [H1 [H2 H3]].
        destruct (t_take c' (e_rep s)) as [t' [d|]] eqn:Et; [|split; [reflexivity | einv_same Hlt Hoa Hor Hkind st0]].
        cbn [fst] in H1, H2, H3. split.
        -- unfold eabs; cbn [e_n e_ack e_rep e_st e_closed]. rewrite H1, H2, Hst, Hkind. reflexivity.
        -- constructor; cbn [e_n e_ack e_rep e_st]; [exact Hlt | exact Hoa | exact H3 | exists st0; apply Hst].
  - (* ECancel *)
    destruct (c' =? c) eqn:Ec.
    + apply N.eqb_eq in Ec; subst c'. rewrite Hkind.
      assert (Ha : eabs id c s = mkES (pendb id c (t_pend (e_ack s))) (lookup c (t_slot (e_ack s)))
                                     (pendb id c (t_pend (e_rep s))) (lookup c (t_slot (e_rep s))) (e_closed s) st0)
        by (unfold eabs; rewrite Hkind; reflexivity).
      rewrite Ha; cbn [es_apend es_aslot es_rpend es_rslot es_closed es_st].
      destruct st0;
        [ | | split; [rewrite Ha; reflexivity | einv_same Hlt Hoa Hor Hkind (EDone r)] ];
        (split;
         [ unfold eabs; cbn [e_with_st e_n e_ack e_rep e_st e_closed]; rewrite lookup_insert_same; reflexivity
         | constructor; cbn [e_with_st e_n e_ack e_rep e_st]; [exact Hlt | exact Hoa | exact Hor |];
           eexists; apply lookup_insert_same ]).
    + assert (Hne : c' <> c) by (apply N.eqb_neq; exact Ec).
      assert (Hst : forall x, lookup c (insert c' x (e_st s)) = Some (k, id, st0))
        by (intros x; rewrite lookup_insert_other by congruence; exact Hkind).
      destruct (lookup c' (e_st s)) as [[[k1 id1] st1]|] eqn:Es; [|split; [reflexivity | einv_same Hlt Hoa Hor Hkind st0]].
      destruct st1; [| |split; [reflexivity | einv_same Hlt Hoa Hor Hkind st0]];
        (split;
         [ unfold eabs; cbn [e_with_st e_n e_ack e_rep e_st e_closed]; rewrite Hst, Hkind; reflexivity
         | constructor; cbn [e_with_st e_n e_ack e_rep e_st]; [exact Hlt | exact Hoa | exact Hor | exists st0; apply Hst] ]).
  - (* EClose *)
    split; [unfold eabs; cbn [e_n e_ack e_rep e_st e_closed es_apend es_aslot es_rpend es_rslot es_st]; reflexivity|].
    einv_same Hlt Hoa Hor Hkind st0.
  - (* ESeeClosed *)
    assert (Ha : eabs id c s = mkES (pendb id c (t_pend (e_ack s))) (lookup c (t_slot (e_ack s)))
                                   (pendb id c (t_pend (e_rep s))) (lookup c (t_slot (e_rep s))) (e_closed s) st0)
      by (unfold eabs; rewrite Hkind; reflexivity).
    destruct (e_closed s) eqn:Ecl.
    + destruct (c' =? c) eqn:Ec; cbn [andb].
      * apply N.eqb_eq in Ec; subst c'. rewrite Hkind, Ha; cbn [es_apend es_aslot es_rpend es_rslot es_closed es_st].
        destruct st0;
          [ | | split; [rewrite Ha; reflexivity | einv_same Hlt Hoa Hor Hkind (EDone r)] ];
          (split;
           [ unfold eabs; cbn [e_with_st e_n e_ack e_rep e_st e_closed]; rewrite lookup_insert_same, Ecl; reflexivity
           | constructor; cbn [e_with_st e_n e_ack e_rep e_st]; [exact Hlt | exact Hoa | exact Hor |];
             eexists; apply lookup_insert_same ]).
      * assert (Hne : c' <> c) by (apply N.eqb_neq; exact Ec).
        assert (Hst : forall x, lookup c (insert c' x (e_st s)) = Some (k, id, st0))
          by (intros x; rewrite lookup_insert_other by congruence; exact Hkind).
        destruct (lookup c' (e_st s)) as [[[k1 id1] st1]|] eqn:Es; [|split; [reflexivity | einv_same Hlt Hoa Hor Hkind st0]].
        destruct st1; [| |split; [reflexivity | einv_same Hlt Hoa Hor Hkind st0]];
          (split;
           [ unfold eabs; cbn [e_with_st e_n e_ack e_rep e_st e_closed]; rewrite Hst, Hkind, Ecl; reflexivity
           | constructor; cbn [e_with_st e_n e_ack e_rep e_st]; [exact Hlt | exact Hoa | exact Hor | exists st0; apply Hst] ]).
    + rewrite Ha; cbn [es_closed]. rewrite andb_false_r. split; [reflexivity | einv_same Hlt Hoa Hor Hkind st0].
  - (* ERecvCall *)
    destruct (e_calls s); (split; [reflexivity | einv_same Hlt Hoa Hor Hkind st0]).
  - destruct (e_replies s); (split; [reflexivity | einv_same Hlt Hoa Hor Hkind st0]).
Qed.

Lemma erun_abs id c k evs : forall s,
  einv id c k s -> ~ In id (call_ids evs) ->
  eabs id c (erun s evs) = esolo_run id c k (eabs id c s) evs /\ einv id c k (erun s evs).
Proof.
  induction evs as [|e evs IH]; intros s Hinv Hfresh; [split; [reflexivity | exact Hinv]|].
  rewrite erun_cons, esolo_run_cons.
  assert (Hsafe : forall k' id', e = ECall k' id' -> id' <> id).
  { intros k' id' -> Heq. apply Hfresh. cbn [call_ids]. left. exact Heq. }
  destruct (estep_abs id c k s e Hinv Hsafe) as [Habs Hinv'].
  rewrite <- Habs. apply IH; [exact Hinv'|].
  intros Hin. apply Hfresh. destruct e; cbn [call_ids]; try exact Hin. right. exact Hin.
Qed.

(* --- bookkeeping: caller indices, closedness and the keys present in the tables --- *)
Fixpoint count_calls (evs : list eev) : nat :=
  match evs with
  | [] => O
  | ECall _ _ :: evs' => S (count_calls evs')
  | _ :: evs' => count_calls evs'
  end.
Fixpoint has_close (evs : list eev) : bool :=
  match evs with
  | [] => false
  | EClose :: _ => true
  | _ :: evs' => has_close evs'
  end.

Record eK (s : estate) (L : list N) : Prop := mkEK {
  ek_ack : forall k w, lookup k (t_pend (e_ack s)) = Some w -> In k L;
  ek_rep : forall k w, lookup k (t_pend (e_rep s)) = Some w -> In k L
}.

Lemma keys_register {P} (L : list N) k w (t : table P) :
  (forall k' w', lookup k' (t_pend t) = Some w' -> In k' L) ->
  forall k' w', lookup k' (t_pend (t_register k w t)) = Some w' -> In k' (L ++ [k]).
Proof.
  intros H k' w' Hl. cbn [t_register t_pend] in Hl. rewrite lookup_insert in Hl. apply in_or_app.
  destruct (k =? k') eqn:E; [apply N.eqb_eq in E; subst; right; left; reflexivity | left; eapply H, Hl].
Qed.

Lemma keys_weaken {P} (L L' : list N) (t : table P) :
  (forall k' w', lookup k' (t_pend t) = Some w' -> In k' L) ->
  forall k' w', lookup k' (t_pend t) = Some w' -> In k' (L ++ L').
Proof. intros H k' w' Hl. apply in_or_app. left. eapply H, Hl. Qed.

Lemma keys_route {P} (L : list N) k (p : P) t :
  (forall k' w', lookup k' (t_pend t) = Some w' -> In k' L) ->
  forall k' w', lookup k' (t_pend (fst (t_route k p t))) = Some w' -> In k' L.
Proof.
  intros H k' w' Hl.
  destruct (t_route_cases k p t) as [[Ep Er] | [[w [q [Ep [Esl Er]]]] | [w [Ep [Esl Er]]]]]; rewrite Er in Hl; cbn [fst] in Hl;
    try (eapply H, Hl).
  cbn [t_pend] in Hl. rewrite lookup_remove in Hl. destruct (k =? k'); [discriminate | eapply H, Hl].
Qed.

Lemma keys_take {P} (L : list N) w (t : table P) :
  (forall k' w', lookup k' (t_pend t) = Some w' -> In k' L) ->
  forall k' w', lookup k' (t_pend (fst (t_take w t))) = Some w' -> In k' L.
Proof.
  intros H k' w' Hl. destruct (t_take_cases w t) as [[E Er] | [p [E Er]]]; rewrite Er in Hl; cbn [fst t_pend] in Hl; eapply H, Hl.
Qed.

Record eC (s : estate) (n : nat) (cl : bool) : Prop := mkEC {
  ec_n : e_n s = N.of_nat n;
  ec_cl : e_closed s = cl
}.

Lemma eKC_step s L n cl e :
  eK s L -> eC s n cl ->
  eK (estep s e) (L ++ match e with ECall _ id => [id] | _ => [] end)
  /\ eC (estep s e) (match e with ECall _ _ => S n | _ => n end) (match e with EClose => true | _ => cl end).
Proof.
  intros [Ka Kr] [Cn Cc].
  destruct e as [k id | id code m | d | c | c | | c | |]; cbn [estep]; rewrite ?app_nil_r.
  - unfold e_call.
    destruct (e_closed s) eqn:Ecl; [destruct k | destruct k];
      repeat match goal with |- context [if ?b then _ else _] => destruct b end;
      (split; [constructor; cbn [e_ack e_rep];
               first [apply keys_register; assumption | apply keys_weaken; assumption]
              | constructor; cbn [e_n e_closed]; [lia | congruence]]).
  - pose proof (keys_route L id (code, m) (e_ack s) Ka) as H.
    destruct (t_route id (code, m) (e_ack s)) as [t' r]. cbn [fst] in H.
    split; constructor; cbn [e_ack e_rep e_n e_closed]; assumption.
  - destruct (d_req d =? 0); [split; constructor; cbn [e_ack e_rep e_n e_closed]; assumption|].
    pose proof (keys_route L (d_req d) d (e_rep s) Kr) as H.
    destruct (t_route (d_req d) d (e_rep s)) as [t' r]. cbn [fst] in H.
    split; constructor; cbn [e_ack e_rep e_n e_closed]; assumption.
  - destruct (lookup c (e_st s)) as [[[k id] st]|]; [|split; constructor; assumption].
    destruct st; [| |split; constructor; assumption].
    + pose proof (keys_take L c (e_ack s) Ka) as H.
      destruct (t_take c (e_ack s)) as [t' [[code m]|]]; [|split; constructor; assumption]. cbn [fst] in H.
      split; constructor; cbn [e_ack e_rep e_n e_closed]; assumption.
    + pose proof (keys_take L c (e_rep s) Kr) as H.
      destruct (t_take c (e_rep s)) as [t' [d|]]; [|split; constructor; assumption]. cbn [fst] in H.
      split; constructor; cbn [e_ack e_rep e_n e_closed]; assumption.
  - destruct (lookup c (e_st s)) as [[[k id] st]|]; [|split; constructor; assumption].
    destruct st; split; constructor; cbn [e_with_st e_ack e_rep e_n e_closed]; assumption.
  - split; constructor; cbn [e_ack e_rep e_n e_closed]; try assumption. reflexivity.
  - destruct (e_closed s) eqn:Ecl; [|split; constructor; first [assumption | congruence]].
    destruct (lookup c (e_st s)) as [[[k id] st]|]; [|split; constructor; first [assumption | congruence]].
    destruct st; split; constructor; cbn [e_with_st e_ack e_rep e_n e_closed]; first [assumption | congruence].
  - destruct (e_calls s); split; constructor; cbn [e_ack e_rep e_n e_closed]; assumption.
  - destruct (e_replies s); split; constructor; cbn [e_ack e_rep e_n e_closed]; assumption.
Qed.

Lemma eKC_run evs : forall s L n cl,
  eK s L -> eC s n cl ->
  eK (erun s evs) (L ++ call_ids evs) /\ eC (erun s evs) (n + count_calls evs) (cl || has_close evs).
Proof.
  induction evs as [|e evs IH]; intros s L n cl K C.
  - cbn. rewrite app_nil_r, Nat.add_0_r, orb_false_r. split; assumption.
  - rewrite erun_cons. destruct (eKC_step s L n cl e K C) as [K' C'].
    destruct (IH _ _ _ _ K' C') as [K2 C2].
    destruct e; cbn [call_ids count_calls has_close]; rewrite ?app_nil_r in *;
      rewrite ?orb_true_l, ?orb_true_r in *; try (split; assumption).
    rewrite <- app_assoc in K2. rewrite <- plus_n_Sm. split; assumption.
Qed.

Lemma eKC_init : eK einit [] /\ eC einit 0 false.
Proof. split; constructor; cbn; intros; try discriminate; reflexivity. Qed.

Lemma call_ids_app a b : call_ids (a ++ b) = call_ids a ++ call_ids b.
Proof. induction a as [|e a IH]; [reflexivity|]. destruct e; cbn; rewrite ?IH; reflexivity. Qed.

Lemma e_after_call_split c evs : forall closed k id cl rest,
  e_after_call c closed evs = Some (k, id, cl, rest) ->
  exists pre, evs = pre ++ ECall k id :: rest /\ count_calls pre = c /\ cl = closed || has_close pre.
Proof.
  revert c. induction evs as [|e evs IH]; intros c closed k id cl rest H; [discriminate|].
  destruct e as [k' id' | ? ? ? | ? | ? | ? | | ? | |]; cbn [e_after_call] in H;
    try (apply IH in H as [pre [-> [Hc Hcl]]]; eexists (_ :: pre); repeat split; [exact Hc | exact Hcl]).
  - destruct c as [|c'].
    + injection H as <- <- <- <-. exists []. repeat split. cbn. now rewrite orb_false_r.
    + apply IH in H as [pre [-> [Hc Hcl]]]. exists (ECall k' id' :: pre). repeat split; [cbn; now rewrite Hc | exact Hcl].
  - apply IH in H as [pre [-> [Hc Hcl]]]. exists (EClose :: pre). repeat split; [exact Hc|].
    cbn [has_close]. rewrite Hcl. now rewrite orb_true_r.
Qed.

Lemma has_key_false {V} k (m : lmap V) : lookup k m = None -> has_key k m = false.
Proof. unfold has_key. now intros ->. Qed.

Lemma not_in_keys {P} (L : list N) id (t : table P) :
  (forall k w, lookup k (t_pend t) = Some w -> In k L) -> ~ In id L -> lookup id (t_pend t) = None.
Proof. intros H Hn. destruct (lookup id (t_pend t)) eqn:E; [|reflexivity]. exfalso. eapply Hn, H, E. Qed.

(* the main refinement for C16: a caller that starts on an open connection with a fresh id has, in
   the full model, exactly the status its one-caller specification gives it *)
Lemma e_own evs c st :
  NoDup (call_ids evs) -> espec c evs = Some st ->
  estatus_of (erun einit evs) (N.of_nat c) = Some st.
Proof.
  intros Hnd Hspec. unfold espec in Hspec.
  destruct (e_after_call c false evs) as [[[[k id] cl] rest]|] eqn:Ea; [|discriminate].
  destruct cl; [discriminate|]. injection Hspec as <-.
  apply e_after_call_split in Ea as [pre [-> [Hc Hcl]]]. cbn [orb] in Hcl.
  rewrite call_ids_app in Hnd. cbn [call_ids] in Hnd.
  assert (Hfpre : ~ In id (call_ids pre)).
  { apply NoDup_remove_2 in Hnd. intros H. apply Hnd, in_or_app. left. exact H. }
  assert (Hfrest : ~ In id (call_ids rest)).
  { apply NoDup_remove_2 in Hnd. intros H. apply Hnd, in_or_app. right. exact H. }
  rewrite erun_app, erun_cons.
  set (s0 := erun einit pre).
  destruct eKC_init as [K0 C0].
  destruct (eKC_run pre einit [] 0%nat false K0 C0) as [K C]. fold s0 in K, C. cbn [app Nat.add orb] in K, C.
  rewrite Hc, <- Hcl in C. destruct C as [Cn Cc].
  assert (G0 : eG s0) by apply eG_run, eG_init.
  destruct K as [Ka Kr].
  assert (Hna : lookup id (t_pend (e_ack s0)) = None) by (eapply not_in_keys; eassumption).
  assert (Hnr : lookup id (t_pend (e_rep s0)) = None) by (eapply not_in_keys; eassumption).
  assert (Hsa : lookup (N.of_nat c) (t_slot (e_ack s0)) = None).
  { destruct (lookup (N.of_nat c) (t_slot (e_ack s0))) eqn:E; [|reflexivity].
    apply (tg_slot_lt _ _ (eg_ack s0 G0)) in E. lia. }
  assert (Hsr : lookup (N.of_nat c) (t_slot (e_rep s0)) = None).
  { destruct (lookup (N.of_nat c) (t_slot (e_rep s0))) eqn:E; [|reflexivity].
    apply (tg_slot_lt _ _ (eg_rep s0 G0)) in E. lia. }
  assert (Hoa : tonly id (N.of_nat c) (e_ack s0)).
  { intros k' H. apply (tg_lt _ _ (eg_ack s0 G0)) in H. lia. }
  assert (Hor : tonly id (N.of_nat c) (e_rep s0)).
  { intros k' H. apply (tg_lt _ _ (eg_rep s0 G0)) in H. lia. }
  set (s1 := estep s0 (ECall k id)).
  assert (H1 : einv id (N.of_nat c) k s1 /\ eabs id (N.of_nat c) s1 = esolo_init k).
  { subst s1. cbn [estep]. rewrite Cc. unfold e_call.
    rewrite (has_key_false _ _ Hna), (has_key_false _ _ Hnr).
    assert (Hself : forall P (t : table P), tonly id (N.of_nat c) t -> tonly id (N.of_nat c) (t_register id (e_n s0) t)).
    { intros P t Ho k' H. cbn [t_register t_pend] in H. rewrite lookup_insert in H.
      destruct (id =? k') eqn:E; [apply N.eqb_eq in E; congruence | apply Ho, H]. }
    destruct k; (split;
      [ constructor; cbn [e_n e_ack e_rep e_st]; [lia | try apply Hself; assumption | try apply Hself; assumption |];
        eexists; rewrite Cn; apply lookup_insert_same
      | unfold eabs, esolo_init, pendb; cbn [e_n e_ack e_rep e_st e_closed t_register t_pend t_slot];
        rewrite Cn, ?lookup_insert_same, ?Hna, ?Hnr, ?Hsa, ?Hsr, ?N.eqb_refl, Cc; reflexivity ]). }
  destruct H1 as [Hinv Hinit].
  destruct (erun_abs id (N.of_nat c) k rest s1 Hinv Hfrest) as [Habs Hinv'].
  destruct (ei_kind _ _ _ _ Hinv') as [st Hl].
  unfold estatus_of. rewrite Hl. f_equal.
  rewrite <- Hinit, <- Habs. unfold eabs; cbn [es_st]. rewrite Hl. reflexivity.
Qed.

(* --- fresh call ids on the wire --- *)
Lemma sent_nodup evs : forall s,
  NoDup (map fst (e_sent s) ++ call_ids evs) -> NoDup (map fst (e_sent (erun s evs))).
Proof.
  induction evs as [|e evs IH]; intros s H; [cbn in H; rewrite app_nil_r in H; exact H|].
  rewrite erun_cons. apply IH.
  destruct e as [k id | id code m | d | c | c | | c | |]; cbn [estep call_ids] in *; try exact H.
  - unfold e_call.
    destruct (e_closed s); [destruct k | destruct k];
      repeat match goal with |- context [if ?b then _ else _] => destruct b end;
      cbn [e_sent]; rewrite ?map_app; cbn [map fst]; rewrite <- ?app_assoc; cbn [app];
      first [exact H | eapply NoDup_remove_1; exact H].
  - destruct (t_route id (code, m) (e_ack s)); exact H.
  - destruct (d_req d =? 0); [exact H|]. destruct (t_route (d_req d) d (e_rep s)); exact H.
  - destruct (lookup c (e_st s)) as [[[k id] st]|]; [|exact H]. destruct st; try exact H.
    + destruct (t_take c (e_ack s)) as [t' [[code m]|]]; exact H.
    + destruct (t_take c (e_rep s)) as [t' [d|]]; exact H.
  - destruct (lookup c (e_st s)) as [[[k id] st]|]; [|exact H]. destruct st; exact H.
  - destruct (e_closed s); [|exact H].
    destruct (lookup c (e_st s)) as [[[k id] st]|]; [|exact H]. destruct st; exact H.
  - destruct (e_calls s); exact H.
  - destruct (e_replies s); exact H.
Qed.

Lemma fresh_ids_sent evs :
  NoDup (call_ids evs) -> NoDup (map fst (e_sent (erun einit evs))).
Proof. intros H. apply sent_nodup. exact H. Qed.

(* --- the reply a call-and-wait caller returns is the first incoming reply bearing its call id --- *)
Fixpoint first_reply (id : N) (evs : list eev) : option (N * N * N) :=
  match evs with
  | [] => None
  | EIn d :: evs' => if negb (d_req d =? 0) && (d_req d =? id) then Some d else first_reply id evs'
  | _ :: evs' => first_reply id evs'
  end.

Fixpoint first_ack (id : N) (evs : list eev) : option (N * N) :=
  match evs with
  | [] => None
  | EAck id' code m :: evs' => if id' =? id then Some (code, m) else first_ack id evs'
  | _ :: evs' => first_ack id evs'
  end.

Lemma esolo_reply_first id c k evs : forall s d,
  es_st (esolo_run id c k s evs) = EDone (RGotReply d) ->
  match es_st s with
  | EDone r => r = RGotReply d
  | _ => match es_rslot s with
         | Some d' => d' = d
         | None => es_rpend s = true /\ first_reply id evs = Some d
         end
  end.
Proof.
  induction evs as [|e evs IH]; intros s d H.
  - cbn in H. rewrite H. reflexivity.
  - rewrite esolo_run_cons in H. apply IH in H. clear IH.
    destruct e as [k' id' | id' code m | d1 | c' | c' | | c' | |]; cbn [esolo_step first_reply] in *; try exact H.
    + destruct ((id' =? id) && es_apend s); [|exact H]. destruct (es_aslot s); exact H.
    + destruct (negb (d_req d1 =? 0) && (d_req d1 =? id)) eqn:Ec; cbn [andb] in H.
      * destruct (es_rpend s) eqn:Ep.
        -- destruct (es_rslot s) eqn:Esl.
           ++ rewrite Esl in H. exact H.
           ++ cbn [es_st es_rslot es_rpend] in H. destruct (es_st s); try exact H; split; congruence.
        -- rewrite Ep in H. destruct (es_st s); try exact H; destruct (es_rslot s); try exact H;
             destruct H as [H _]; discriminate.
      * exact H.
    + destruct (c' =? c); [|exact H].
      destruct (es_st s) eqn:Est.
      * destruct (es_aslot s) as [[code m]|] eqn:Ea; [|rewrite Est in H; exact H].
        cbn [es_st es_rslot es_rpend] in H.
        destruct k; destruct (code =? 0); try discriminate; exact H.
      * destruct (es_rslot s) as [d1|] eqn:Er; [|rewrite Est, Er in H; exact H].
        cbn [es_st] in H. congruence.
      * rewrite Est in H. exact H.
    + destruct (c' =? c); [|exact H].
      destruct (es_st s) eqn:Est; cbn [es_st] in H; try (destruct (es_closed s); discriminate).
      rewrite Est in H. exact H.
    + destruct ((c' =? c) && es_closed s); [|exact H].
      destruct (es_st s) eqn:Est; cbn [es_st] in H; try discriminate. rewrite Est in H. exact H.
Qed.

Lemma first_reply_req id evs d : first_reply id evs = Some d -> d_req d = id /\ id <> 0.
Proof.
  induction evs as [|e evs IH]; [discriminate|]. destruct e; cbn [first_reply]; try exact IH.
  destruct (negb (d_req d0 =? 0) && (d_req d0 =? id)) eqn:E; [|exact IH].
  intros [= <-]. apply andb_true_iff in E as [E1 E2]. apply N.eqb_eq in E2.
  apply negb_true_iff, N.eqb_neq in E1. split; congruence.
Qed.

Lemma reply_own evs c d :
  NoDup (call_ids evs) -> espec c evs = Some (EDone (RGotReply d)) ->
  exists k id rest, e_after_call c false evs = Some (k, id, false, rest) /\
                    first_reply id rest = Some d /\ d_req d = id.
Proof.
  intros Hnd Hs. unfold espec in Hs.
  destruct (e_after_call c false evs) as [[[[k id] cl] rest]|] eqn:Ea; [|discriminate].
  destruct cl; [discriminate|]. injection Hs as Hs.
  apply esolo_reply_first in Hs. cbn in Hs. destruct Hs as [_ Hf].
  exists k, id, rest. repeat split; [exact Hf | apply (first_reply_req _ _ _ Hf)].
Qed.

(* --- the result of SendCall / SendReplyCall is the first ack bearing the caller's call id --- *)
Definition ack_result (code m : N) : eresult := if code =? 0 then RAcked else RFailed code m.

Lemma esolo_ack_first id c k evs : k <> KCallWait -> forall s r,
  es_st (esolo_run id c k s evs) = EDone r ->
  match es_st s with
  | EDone r' => r' = r
  | EWaitReply => True
  | EWaitAck =>
      r = RCancelled \/ r = RClosed \/
      match es_aslot s with
      | Some (code, m) => r = ack_result code m
      | None => es_apend s = true /\ exists code m, first_ack id evs = Some (code, m) /\ r = ack_result code m
      end
  end.
Proof.
  intros Hk. induction evs as [|e evs IH]; intros s r H.
  - cbn in H. rewrite H. reflexivity.
  - rewrite esolo_run_cons in H. apply IH in H. clear IH.
    destruct e as [k' id' | id' code m | d1 | c' | c' | | c' | |]; cbn [esolo_step first_ack] in *; try exact H.
    + destruct (id' =? id) eqn:Eid; cbn [andb] in H.
      * destruct (es_apend s) eqn:Ep.
        -- destruct (es_aslot s) as [[c0 m0]|] eqn:Esl.
           ++ rewrite Esl in H. exact H.
           ++ cbn [es_st es_aslot es_apend] in H. destruct (es_st s); try exact H.
              destruct H as [H | [H | H]]; [left; exact H | right; left; exact H |].
              right. right. split; [reflexivity|]. exists code, m. split; [reflexivity | exact H].
        -- rewrite Ep in H. destruct (es_st s); try exact H. destruct (es_aslot s) as [[c0 m0]|]; [exact H|].
           destruct H as [H | [H | [H _]]]; [left; exact H | right; left; exact H | discriminate].
      * exact H.
    + destruct (negb (d_req d1 =? 0) && (d_req d1 =? id) && es_rpend s); [|exact H].
      destruct (es_rslot s); exact H.
    + destruct (c' =? c); [|exact H].
      destruct (es_st s) eqn:Est.
      * destruct (es_aslot s) as [[code m]|] eqn:Ea; [|rewrite Est, Ea in H; exact H].
        cbn [es_st] in H. right. right. unfold ack_result.
        destruct k; try congruence; destruct (code =? 0); congruence.
      * exact I.
      * rewrite Est in H. exact H.
    + destruct (c' =? c); [|exact H].
      destruct (es_st s) eqn:Est; cbn [es_st] in H.
      * destruct (es_closed s); [right; left | left]; congruence.
      * exact I.
      * rewrite Est in H. exact H.
    + destruct ((c' =? c) && es_closed s); [|exact H].
      destruct (es_st s) eqn:Est; cbn [es_st] in H.
      * right. left. congruence.
      * exact I.
      * rewrite Est in H. exact H.
Qed.

Lemma ack_own evs c r :
  NoDup (call_ids evs) -> espec c evs = Some (EDone r) ->
  forall k id rest, e_after_call c false evs = Some (k, id, false, rest) -> k <> KCallWait ->
  r = RCancelled \/ r = RClosed \/
  exists code m, first_ack id rest = Some (code, m) /\ r = ack_result code m.
Proof.
  intros Hnd Hs k id rest Ea Hk. unfold espec in Hs. rewrite Ea in Hs. injection Hs as Hs.
  apply (esolo_ack_first _ _ _ _ Hk) in Hs. cbn in Hs.
  destruct Hs as [H | [H | [_ H]]]; [left; exact H | right; left; exact H | right; right; exact H].
Qed.

(* --- acks for one call id are invisible to every caller with another id --- *)
Lemma call_ids_drop_acks i evs : call_ids (drop_acks i evs) = call_ids evs.
Proof.
  induction evs as [|e evs IH]; [reflexivity|]. unfold drop_acks in *. cbn [filter].
  destruct e; cbn [call_ids]; rewrite ?IH; try reflexivity.
  destruct (negb (id =? i)); cbn [call_ids]; exact IH.
Qed.

Lemma e_after_call_drop_acks i evs : forall c closed,
  e_after_call c closed (drop_acks i evs) =
  match e_after_call c closed evs with
  | Some (k, id, cl, rest) => Some (k, id, cl, drop_acks i rest)
  | None => None
  end.
Proof.
  induction evs as [|e evs IH]; intros c closed; [reflexivity|]. unfold drop_acks in *. cbn [filter].
  destruct e; cbn [e_after_call]; try apply IH.
  - destruct c; [reflexivity | apply IH].
  - destruct (negb (id =? i)); cbn [e_after_call]; apply IH.
Qed.

Lemma esolo_run_drop_acks i id c k evs : i <> id -> forall s,
  esolo_run id c k s (drop_acks i evs) = esolo_run id c k s evs.
Proof.
  intros Hne. induction evs as [|e evs IH]; intros s; [reflexivity|]. unfold drop_acks in *. cbn [filter].
  destruct e as [k' id' | id' code m | d1 | c' | c' | | c' | |]; try (rewrite !esolo_run_cons; apply IH).
  destruct (id' =? i) eqn:E; cbn [negb].
  - apply N.eqb_eq in E; subst id'. rewrite (esolo_run_cons _ _ _ _ (EAck i code m)). cbn [esolo_step].
    assert (Hf : (i =? id) = false) by (apply N.eqb_neq; exact Hne). rewrite Hf. cbn [andb]. apply IH.
  - rewrite !esolo_run_cons. apply IH.
Qed.

Lemma error_isolated evs i c st :
  NoDup (call_ids evs) -> espec c evs = Some st ->
  (forall k id cl rest, e_after_call c false evs = Some (k, id, cl, rest) -> id <> i) ->
  estatus_of (erun einit (drop_acks i evs)) (N.of_nat c) = estatus_of (erun einit evs) (N.of_nat c).
Proof.
  intros Hnd Hs Hid. rewrite (e_own evs c st Hnd Hs).
  apply e_own; [rewrite call_ids_drop_acks; exact Hnd|].
  unfold espec in *. rewrite e_after_call_drop_acks.
  destruct (e_after_call c false evs) as [[[[k id] cl] rest]|] eqn:Ea; [|discriminate].
  destruct cl; [discriminate|]. rewrite esolo_run_drop_acks; [exact Hs|].
  intros Heq. eapply Hid; [reflexivity | symmetry; exact Heq].
Qed.

(* --- inboxes: within capacity, received ++ queued = arrived, in order --- *)
Lemma inbox_run (reply : bool) evs : forall s : estate,
  let got (s : estate) := if reply then e_rreplies s else e_rcalls s in
  let q (s : estate) := if reply then e_replies s else e_calls s in
  N.of_nat (length (got s ++ q s) + length (incoming reply evs)) <= inbox_cap ->
  got (erun s evs) ++ q (erun s evs) = (got s ++ q s) ++ incoming reply evs.
Proof.
  induction evs as [|e evs IH]; intros s got q Hb; [cbn; now rewrite app_nil_r|].
  rewrite erun_cons.
  assert (Hstep : got (estep s e) ++ q (estep s e) =
                  (got s ++ q s) ++ match e with
                                    | EIn d => if Bool.eqb (negb (d_req d =? 0)) reply then [d] else []
                                    | _ => [] end).
  { subst got q. destruct e as [k id | id code m | d | c | c | | c | |]; cbn [estep]; rewrite ?app_nil_r.
    - unfold e_call. destruct (e_closed s); [destruct k | destruct k];
        repeat match goal with |- context [if ?b then _ else _] => destruct b end; reflexivity.
    - destruct (t_route id (code, m) (e_ack s)); destruct reply; reflexivity.
    - cbn [incoming] in Hb.
      destruct (d_req d =? 0) eqn:E0; cbn [negb].
      + destruct reply; cbn [Bool.eqb e_rreplies e_replies e_rcalls e_calls]; rewrite ?app_nil_r; [reflexivity|].
        cbn [Bool.eqb negb] in Hb. unfold push_inbox.
        assert (Hlt : (N.of_nat (length (e_calls s)) <? inbox_cap) = true).
        { apply N.ltb_lt. rewrite app_length in Hb. cbn [length] in Hb. lia. }
        rewrite Hlt. now rewrite app_assoc.
      + destruct (t_route (d_req d) d (e_rep s)) as [t' r].
        destruct reply; cbn [Bool.eqb e_rreplies e_replies e_rcalls e_calls]; rewrite ?app_nil_r; [|reflexivity].
        cbn [Bool.eqb negb] in Hb. unfold push_inbox.
        assert (Hlt : (N.of_nat (length (e_replies s)) <? inbox_cap) = true).
        { apply N.ltb_lt. rewrite app_length in Hb. cbn [length] in Hb. lia. }
        rewrite Hlt. now rewrite app_assoc.
    - destruct (lookup c (e_st s)) as [[[k id] st]|]; [|destruct reply; reflexivity].
      destruct st; try (destruct reply; reflexivity).
      + destruct (t_take c (e_ack s)) as [t' [[code m]|]]; destruct reply; reflexivity.
      + destruct (t_take c (e_rep s)) as [t' [d|]]; destruct reply; reflexivity.
    - destruct (lookup c (e_st s)) as [[[k id] st]|]; [|destruct reply; reflexivity].
      destruct st; destruct reply; reflexivity.
    - destruct reply; reflexivity.
    - destruct (e_closed s); [|destruct reply; reflexivity].
      destruct (lookup c (e_st s)) as [[[k id] st]|]; [|destruct reply; reflexivity].
      destruct st; destruct reply; reflexivity.
    - destruct (e_calls s) as [|d q0] eqn:Eq; destruct reply; cbn [e_rreplies e_replies e_rcalls e_calls];
        rewrite ?Eq, ?app_nil_r; try reflexivity.
      rewrite <- app_assoc. reflexivity.
    - destruct (e_replies s) as [|d q0] eqn:Eq; destruct reply; cbn [e_rreplies e_replies e_rcalls e_calls];
        rewrite ?Eq, ?app_nil_r; try reflexivity.
      rewrite <- app_assoc. reflexivity. }
  fold (got (estep s e)) (q (estep s e)). subst got q. cbv beta in *.
  rewrite IH.
  - rewrite Hstep, <- app_assoc. f_equal.
    destruct e; cbn [incoming]; try reflexivity. destruct (Bool.eqb (negb (d_req d =? 0)) reply); reflexivity.
  - rewrite Hstep. rewrite app_length.
    destruct e; cbn [incoming length] in Hb |- *; rewrite ?Nat.add_0_r; try exact Hb.
    destruct (Bool.eqb (negb (d_req d =? 0)) reply); cbn [length] in Hb |- *; lia.
Qed.

Lemma inbox_once_in_order (reply : bool) evs :
  N.of_nat (length (incoming reply evs)) <= inbox_cap ->
  let s := erun einit evs in
  (if reply then e_rreplies s ++ e_replies s else e_rcalls s ++ e_calls s) = incoming reply evs.
Proof.
  intros Hb s. subst s. pose proof (inbox_run reply evs einit) as H. cbv beta zeta in H.
  destruct reply; cbn [einit e_rreplies e_replies e_rcalls e_calls app length Nat.add] in H; apply H; exact Hb.
Qed.

(* F15 repaired (wrong_type_outcome = WMalformed): no caller ever panics, with no hypothesis on the
   broker.  Stated for any non-panicking wrong_type_outcome, then instantiated. *)
Lemma wsolo_never_panics_if_repaired id c kind evs : wrong_type_outcome <> WPanicked -> forall s,
  s_st s <> WPanicked -> s_st (wsolo_run id c kind s evs) <> WPanicked.
Proof.
  intros Hrep. induction evs as [|e evs IH]; intros s Hst; [exact Hst|].
  rewrite wsolo_run_cons. apply IH.
  destruct e as [k | id' ty m | w | w]; cbn [wsolo_step]; try exact Hst.
  - destruct ((id' =? id) && s_pend s); [|exact Hst]. destruct (s_slot s); exact Hst.
  - destruct (w =? c); [|exact Hst]. destruct (s_st s) eqn:Est; try (rewrite Est; discriminate).
    + destruct (s_slot s) as [[ty m]|]; [|rewrite Est; discriminate]. cbn [s_st].
      destruct (ty =? kind); [discriminate | exact Hrep].
    + exfalso. apply Hst. reflexivity.
  - destruct (w =? c); [|exact Hst]. destruct (s_st s) eqn:Est; try (rewrite Est; discriminate).
    + cbn [s_st]. discriminate.
    + exfalso. apply Hst. reflexivity.
Qed.

Lemma no_panic_if_repaired evs c :
  wrong_type_outcome <> WPanicked -> N.of_nat (count_issues evs) <= two31 ->
  wstatus_of (wrun winit evs) (N.of_nat c) <> Some WPanicked.
Proof.
  intros Hrep Hb. rewrite own_response by exact Hb. unfold wspec.
  destruct (after_issue c evs) as [[kind rest]|]; [|discriminate].
  destruct (kind =? 0); [discriminate|]. intros [= H]. revert H.
  apply wsolo_never_panics_if_repaired; [exact Hrep | cbn; discriminate].
Qed.

Lemma never_panics evs c :
  N.of_nat (count_issues evs) <= two31 ->
  wstatus_of (wrun winit evs) (N.of_nat c) <> Some WPanicked.
Proof. apply no_panic_if_repaired. unfold wrong_type_outcome. discriminate. Qed.

(* --- why c16_own needs fresh ids: a second caller that draws the id of a call still waiting for
       its ack is refused ("already exist call id") although the broker acknowledges that id, and
       its one-caller specification says it should have been acknowledged --- *)
Lemma own_needs_distinct_ids :
  let evs := [ECall KCall 7; ECall KCall 7; EAck 7 0 1; EWake 0; EWake 1] in
  espec 1 evs = Some (EDone RAcked) /\
  estatus_of (erun einit evs) 1 = Some (EDone RExists) /\
  ~ NoDup (call_ids evs).
Proof.
  split; [vm_compute; reflexivity|]. split; [vm_compute; reflexivity|].
  cbn. intros H. inversion H as [|x l Hin _]; subst. apply Hin. left. reflexivity.
Qed.

(* --- any number of further responses bearing an id that has just been answered (identical copies
       or not) change nothing: they are never delivered to anybody and never block the dispatcher
       (never_blocks holds for every history) --- *)
Lemma duplicates_ignored evs id ty m (ps : list (N * N)) :
  let s1 := wstep (wrun winit evs) (Respond id ty m) in
  wrun s1 (map (fun p => Respond id (fst p) (snd p)) ps) = s1.
Proof.
  intros s1.
  assert (Hc : lookup id (t_pend (w_tab s1)) = None) by (apply respond_clears, wG_run, wG_init).
  induction ps as [|p ps IH]; [reflexivity|].
  cbn [map]. rewrite wrun_cons, unknown_ignored by exact Hc. exact IH.
Qed.

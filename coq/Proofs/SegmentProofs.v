(* Lemmas about Model/Segment.v.  Property theorems are restated in Props/C14.v. *)
From Coq Require Import List NArith Bool Lia Arith Permutation ZArith ZifyN ZifyNat ZifyBool.
From Iscp Require Import Lib.ListMap Lib.Bytes Model.Segment.
Import ListNotations.
Open Scope N_scope.

(* ---------- header round trip ---------- *)

Definition header_ok (d : dgram) : Prop :=
  d_seq d < 4294967296 /\ d_max d < 65536 /\ d_idx d < 65536.

Lemma decode_encode_dgram d : header_ok d -> decode_dgram (encode_dgram d) = Some d.
Proof.
  intros (Hs & Hm & Hi). destruct d as [s mx ix pay]; cbn in *.
  unfold encode_dgram, be32, be16; cbn [app d_seq d_max d_idx d_pay decode_dgram].
  now rewrite rd32_be32, !rd16_be16.
Qed.

Lemma decode_short raw : (length raw < 8)%nat -> decode_dgram raw = None.
Proof.
  intros H. do 8 (destruct raw as [|? raw]; [reflexivity|]). cbn in H. lia.
Qed.

Lemma decode_long raw : (8 <= length raw)%nat -> exists d, decode_dgram raw = Some d.
Proof.
  intros H. do 8 (destruct raw as [|? raw]; [cbn in H; lia|]). eexists; reflexivity.
Qed.

(* ---------- sender ---------- *)

Lemma chop_length n P m : length (chop n P m) = S n.
Proof. revert m; induction n as [|n IH]; intros m; cbn [chop length]; [reflexivity | now rewrite IH]. Qed.

Lemma chop_concat n P m : concat (chop n P m) = m.
Proof.
  revert m; induction n as [|n IH]; intros m; cbn [chop concat].
  - now rewrite app_nil_r.
  - now rewrite IH, firstn_skipn.
Qed.

Lemma number_spec i l :
  number i l = map (fun k => (i + N.of_nat k, nth k l [])) (seq 0 (length l)).
Proof.
  revert i; induction l as [|x l IH]; intros i; cbn [number length seq map]; [reflexivity|].
  f_equal; [f_equal; lia|].
  rewrite IH, <- seq_shift, map_map. apply map_ext. intros k. cbn [nth]. f_equal. lia.
Qed.

Definition seg_of (s : N) (n : nat) (pieces : list (list N)) (k : nat) : dgram :=
  mkD s (N.of_nat n) (N.of_nat k) (nth k pieces []).

Lemma split_spec P s m ds :
  0 < P -> split P s m = Some ds ->
  exists pieces n, length pieces = S n /\ concat pieces = m /\ N.of_nat n <= 65535 /\
                   ds = map (seg_of s n pieces) (seq 0 (S n)).
Proof.
  intros HP. unfold split.
  destruct (N.of_nat (length m) <=? P) eqn:E1.
  - intros [= <-]. exists [m], 0%nat. cbn. rewrite app_nil_r. repeat split; lia.
  - destruct (max_u16 <? N.of_nat (length m) / P) eqn:E2; [discriminate|].
    intros [= <-].
    set (n := N.to_nat (N.of_nat (length m) / P)).
    exists (chop n (N.to_nat P) m), n.
    rewrite chop_length, chop_concat. repeat split.
    + unfold max_u16 in E2. apply N.ltb_ge in E2. lia.
    + rewrite number_spec, chop_length, map_map. apply map_ext. intros k.
      unfold seg_of; cbn [fst snd]. f_equal; lia.
Qed.

Lemma split_refuses P s m :
  split P s m = None <-> (P < N.of_nat (length m) /\ 65535 < N.of_nat (length m) / P).
Proof.
  unfold split, max_u16.
  destruct (N.of_nat (length m) <=? P) eqn:E1.
  - apply N.leb_le in E1. split; [discriminate | lia].
  - apply N.leb_gt in E1.
    destruct (65535 <? N.of_nat (length m) / P) eqn:E2.
    + apply N.ltb_lt in E2. split; [auto | reflexivity].
    + apply N.ltb_ge in E2. split; [discriminate | lia].
Qed.

(* sequence numbers of the sender: start at 0, injective on any window of 2^32 messages *)
Lemma seq_iter k s : s < 4294967296 ->
  Nat.iter k seq_next s = (s + N.of_nat k) mod 4294967296.
Proof.
  intros Hs. induction k as [|k IH].
  - cbn [Nat.iter]. rewrite N.add_0_r, N.mod_small; auto.
  - change (Nat.iter (S k) seq_next s) with (seq_next (Nat.iter k seq_next s)).
    rewrite IH. unfold seq_next.
    rewrite N.add_mod_idemp_l by lia. f_equal. lia.
Qed.

Lemma seq_first : seq_next seq_init = 0.
Proof. reflexivity. Qed.

Lemma seq_injective_window i j s : s < 4294967296 ->
  (i < j)%nat -> N.of_nat j - N.of_nat i < 4294967296 ->
  Nat.iter i seq_next s <> Nat.iter j seq_next s.
Proof.
  intros Hs Hij Hw. rewrite !seq_iter by assumption. lia.
Qed.

(* ---------- receiver ---------- *)

Lemma set_slot_length i v l : length (set_slot i v l) = length l.
Proof. revert i; induction l as [|x l IH]; intros [|i]; cbn; auto. Qed.

Lemma set_slot_same i v l : (i < length l)%nat -> nth_error (set_slot i v l) i = Some (Some v).
Proof.
  revert i; induction l as [|x l IH]; intros [|i] H; cbn in *; try lia; auto. apply IH; lia.
Qed.

Lemma set_slot_other i j v l : i <> j -> nth_error (set_slot i v l) j = nth_error l j.
Proof.
  revert i j; induction l as [|x l IH]; intros [|i] [|j] H; cbn; auto; try congruence.
Qed.

Lemma nth_error_repeat_None (k i : nat) :
  (i < k)%nat -> nth_error (repeat (@None (list N)) k) i = Some None.
Proof. revert i; induction k as [|k IH]; intros [|i] H; cbn; try lia; auto. apply IH; lia. Qed.

Lemma nth_error_ext_eq {A} (l1 l2 : list A) :
  (forall i, nth_error l1 i = nth_error l2 i) -> l1 = l2.
Proof.
  revert l2; induction l1 as [|x l1 IH]; intros [|y l2] H; auto.
  - specialize (H 0%nat); discriminate.
  - specialize (H 0%nat); discriminate.
  - f_equal; [specialize (H 0%nat); cbn in H; congruence|].
    apply IH. intros i. exact (H (S i)).
Qed.

Lemma build_all pieces : build (map Some pieces) = concat pieces.
Proof. unfold build. rewrite map_map. f_equal. now rewrite map_id. Qed.

Definition outs_for (s : N) (outs : list (option (N * list N))) : list (list N) :=
  concat (map (fun o => match o with
                        | Some (s', m) => if s' =? s then [m] else []
                        | None => []
                        end) outs).

Lemma NoDup_app_l {A} (a b : list A) : NoDup (a ++ b) -> NoDup a.
Proof.
  induction a as [|x a IH]; cbn; intros H; [constructor|].
  inversion H as [|? ? H1 H2]; subst. constructor; [|auto].
  intros Hin. apply H1. apply in_or_app. now left.
Qed.

Lemma NoDup_map_inj_in {A B} (f : A -> B) (l : list A) :
  (forall x y, In x l -> In y l -> f x = f y -> x = y) -> NoDup l -> NoDup (map f l).
Proof.
  induction l as [|a l IH]; cbn [map]; intros Hinj H; [constructor|].
  inversion H as [|? ? H1 H2]; subst. constructor.
  - intros Hin. apply in_map_iff in Hin as (y & Hy & Hyl).
    assert (y = a) as -> by (apply Hinj; [now right | now left | exact Hy]). contradiction.
  - apply IH; [|exact H2]. intros x y Hx Hy. apply Hinj; now right.
Qed.

Lemma outs_for_cons s a l : outs_for s (a :: l) = outs_for s [a] ++ outs_for s l.
Proof. unfold outs_for. cbn [map concat]. now rewrite app_nil_r. Qed.

Section Reasm.
  Variables (ex s : N) (pieces : list (list N)) (n : nat).
  Hypothesis Hlen : length pieces = S n.

  Notation myd := (seg_of s n pieces).

  Definition item := (N * option dgram)%type.

  Definition dstep (bs : buffers) (it : item) : buffers * option (N * list N) :=
    match snd it with
    | None => (bs, None)
    | Some d => receive_d ex (fst it) bs d
    end.

  Fixpoint drun (bs : buffers) (its : list item) : list (option (N * list N)) :=
    match its with
    | [] => []
    | it :: its' => snd (dstep bs it) :: drun (fst (dstep bs it)) its'
    end.

  Definition mine_idx (it : item) : list nat :=
    match snd it with
    | Some d => if d_seq d =? s then [N.to_nat (d_idx d)] else []
    | None => []
    end.
  Definition idxs (its : list item) : list nat := concat (map mine_idx its).

  Definition wf_item (it : item) : Prop :=
    forall d, snd it = Some d -> d_seq d = s -> exists i, (i <= n)%nat /\ d = myd i.

  Definition slots_ok (got : list nat) (slots : list (option (list N))) : Prop :=
    length slots = S n /\
    forall i, (i <= n)%nat ->
      (In i got -> nth_error slots i = Some (Some (nth i pieces []))) /\
      (~ In i got -> nth_error slots i = Some None).

  Definition st_ok (got : list nat) (bs : buffers) : Prop :=
    match got with
    | [] => lookup s bs = None
    | _ => exists b, lookup s bs = Some b /\ r_cnt b = N.of_nat (length got) /\ slots_ok got (r_slots b)
    end.

  Lemma dstep_other bs it : mine_idx it = [] ->
    lookup s (fst (dstep bs it)) = lookup s bs /\ outs_for s [snd (dstep bs it)] = [].
  Proof.
    unfold mine_idx, dstep. destruct (snd it) as [d|]; [|now split].
    destruct (d_seq d =? s) eqn:E; [discriminate|]. intros _.
    apply N.eqb_neq in E. unfold receive_d.
    repeat match goal with
           | |- context [if ?c then _ else _] => destruct c
           end; cbn [fst snd]; unfold outs_for; cbn [map concat app];
      rewrite ?lookup_insert_other, ?lookup_remove_other by congruence;
      try (destruct (d_seq d =? s) eqn:E'; [apply N.eqb_eq in E'; congruence|]); now split.
  Qed.

  Lemma nomine its : forall bs, idxs its = [] -> outs_for s (drun bs its) = [].
  Proof.
    induction its as [|it its IH]; intros bs H; [reflexivity|].
    unfold idxs in H; cbn [map concat] in H. apply app_eq_nil in H as [H1 H2].
    cbn [drun]. rewrite outs_for_cons.
    destruct (dstep_other bs it H1) as [_ ->]. cbn [app]. now apply IH.
  Qed.

  Lemma st_ok_other got bs bs' : lookup s bs' = lookup s bs -> st_ok got bs -> st_ok got bs'.
  Proof. unfold st_ok. intros ->. auto. Qed.

  Lemma full_got got : NoDup got -> (forall i, In i got -> (i <= n)%nat) -> length got = S n ->
    forall i, (i <= n)%nat -> In i got.
  Proof.
    intros Hnd Hle Hl i Hi.
    assert (incl (seq 0 (S n)) got) as Hincl.
    { apply NoDup_length_incl; [exact Hnd | rewrite seq_length; lia |].
      intros j Hj. apply in_seq. specialize (Hle j Hj). lia. }
    apply Hincl. apply in_seq. lia.
  Qed.

  Lemma got_bound got : NoDup got -> (forall i, In i got -> (i <= n)%nat) -> (length got <= S n)%nat.
  Proof.
    intros Hnd Hle. rewrite <- (seq_length (S n) 0). apply NoDup_incl_length; [exact Hnd|].
    intros j Hj. apply in_seq. specialize (Hle j Hj). lia.
  Qed.

  Lemma slots_full got slots : slots_ok got slots -> (forall i, (i <= n)%nat -> In i got) ->
    slots = map Some pieces.
  Proof.
    intros [Hl Hs] Hall. apply nth_error_ext_eq. intros i.
    destruct (Nat.le_gt_cases i n) as [Hi|Hi].
    - destruct (Hs i Hi) as [H1 _]. rewrite (H1 (Hall i Hi)).
      rewrite nth_error_map. rewrite (nth_error_nth' pieces []) by lia. reflexivity.
    - assert (nth_error slots i = None) as -> by (apply nth_error_None; lia).
      symmetry. apply nth_error_None. rewrite map_length. lia.
  Qed.

  (* one step on a segment of our message that has not been received yet *)
  Lemma dstep_mine got bs t i :
    (i <= n)%nat -> ~ In i got -> NoDup got -> (forall j, In j got -> (j <= n)%nat) ->
    st_ok got bs ->
    let r := dstep bs (t, Some (myd i)) in
    if (length (i :: got) =? S n)%nat
    then snd r = Some (s, concat pieces) /\ lookup s (fst r) = None
    else snd r = None /\ st_ok (i :: got) (fst r).
  Proof.
    intros Hi Hni Hnd Hle Hst. cbn zeta. unfold dstep; cbn [snd fst].
    unfold receive_d. cbn [seg_of d_seq d_max d_idx d_pay].
    (* the buffer before this datagram *)
    set (b0 := match lookup s bs with
               | Some b => b
               | None => mkR 0 (repeat None (N.to_nat (N.of_nat n + 1))) 0
               end).
    assert (r_cnt b0 = N.of_nat (length got) /\ slots_ok got (r_slots b0)) as [Hc Hs].
    { unfold b0. destruct got as [|g got'].
      - cbn in Hst. rewrite Hst. cbn [r_cnt r_slots length]. split; [reflexivity|].
        split; [rewrite repeat_length; lia|].
        intros j Hj. split; [intros []|]. intros _. apply nth_error_repeat_None. lia.
      - destruct Hst as (b & -> & Hc & Hs). now split. }
    destruct Hs as [Hl Hs].
    cbn [r_cnt r_slots r_exp]. rewrite Hl.
    destruct (N.of_nat (S n) <=? N.of_nat i) eqn:E1; [apply N.leb_le in E1; lia|].
    rewrite set_slot_length, Hl, Hc, Nat2N.id.
    assert (slots_ok (i :: got) (set_slot i (nth i pieces []) (r_slots b0))) as Hs'.
    { split; [now rewrite set_slot_length|].
      intros j Hj. destruct (Nat.eq_dec i j) as [<-|Hne].
      - split; [intros _; apply set_slot_same; lia | intros H; exfalso; apply H; now left].
      - rewrite set_slot_other by assumption. destruct (Hs j Hj) as [H1 H2]. split.
        + intros [->|H]; [congruence | auto].
        + intros H. apply H2. intros H'. apply H. now right. }
    cbn [length]. destruct (S (length got) =? S n)%nat eqn:E2.
    - apply Nat.eqb_eq in E2.
      destruct (N.of_nat (S n) =? N.of_nat (length got) + 1) eqn:E3; [|apply N.eqb_neq in E3; lia].
      cbn [fst snd]. split; [|apply lookup_remove_same].
      do 2 f_equal.
      rewrite (slots_full (i :: got) _ Hs'); [apply build_all|].
      apply full_got; [constructor; assumption | | cbn [length]; lia].
      intros j [<-|Hj]; auto.
    - apply Nat.eqb_neq in E2.
      destruct (N.of_nat (S n) =? N.of_nat (length got) + 1) eqn:E3; [apply N.eqb_eq in E3; lia|].
      cbn [fst snd]. split; [reflexivity|].
      cbn [st_ok]. eexists. rewrite lookup_insert_same. split; [reflexivity|].
      cbn [r_cnt r_slots length]. split; [lia | exact Hs'].
  Qed.

  Lemma idxs_cons it its : idxs (it :: its) = mine_idx it ++ idxs its.
  Proof. reflexivity. Qed.

  Lemma main its : forall bs got,
    Forall wf_item its -> NoDup (got ++ idxs its) -> (forall i, In i got -> (i <= n)%nat) ->
    (length got <= n)%nat -> st_ok got bs ->
    outs_for s (drun bs its) =
      if (length got + length (idxs its) =? S n)%nat then [concat pieces] else [].
  Proof.
    induction its as [|it its IH]; intros bs got Hwf Hnd Hle Hlen' Hst.
    - cbn. destruct (length got + 0 =? S n)%nat eqn:E; [apply Nat.eqb_eq in E; lia | reflexivity].
    - inversion Hwf as [|? ? Hwf1 Hwf2]; subst.
      rewrite idxs_cons in *. cbn [drun].
      rewrite outs_for_cons.
      destruct (mine_idx it) as [|i rest] eqn:Emine.
      + destruct (dstep_other bs it Emine) as [Hlk ->]. cbn [app length].
        apply IH; auto. eapply st_ok_other; eauto.
      + (* a datagram of our message *)
        assert (rest = [] /\ exists t, it = (t, Some (myd i)) /\ (i <= n)%nat) as (-> & t & -> & Hi).
        { unfold mine_idx in Emine. destruct it as [t [d|]]; cbn [snd] in *; [|discriminate].
          destruct (d_seq d =? s) eqn:E; [|discriminate]. apply N.eqb_eq in E.
          injection Emine as <- <-. split; [reflexivity|].
          destruct (Hwf1 d eq_refl E) as (k & Hk & ->). exists t.
          cbn [seg_of d_idx]. rewrite Nat2N.id. split; auto. }
        cbn [app] in Hnd.
        assert (~ In i got /\ NoDup got /\ NoDup ((i :: got) ++ idxs its)) as (Hni & Hndg & Hnd').
        { assert (NoDup (i :: got ++ idxs its)) as H.
          { eapply Permutation_NoDup; [|exact Hnd]. symmetry. apply Permutation_middle. }
          inversion H as [|? ? Hn1 Hn2]; subst. repeat split.
          - intros Hin. apply Hn1. apply in_or_app. now left.
          - eapply NoDup_app_l; eauto.
          - cbn [app]. constructor; auto. }
        pose proof (dstep_mine got bs t i Hi Hni Hndg Hle Hst) as Hstep. cbn zeta in Hstep.
        assert (forall j, In j (i :: got) -> (j <= n)%nat) as Hle' by (intros j [<-|Hj]; auto).
        destruct (length (i :: got) =? S n)%nat eqn:E.
        * apply Nat.eqb_eq in E. destruct Hstep as [Ho Hlk].
          rewrite Ho. unfold outs_for at 1; cbn [map concat app]. rewrite N.eqb_refl. cbn [app].
          (* nothing of ours can follow *)
          assert (idxs its = []) as Hnil.
          { assert (forall j, In j ((i :: got) ++ idxs its) -> (j <= n)%nat) as Hall.
            { intros j Hj. apply in_app_or in Hj as [Hj|Hj]; [auto|].
              unfold idxs in Hj. apply in_concat in Hj as (l & Hl & Hjl).
              apply in_map_iff in Hl as (it' & <- & Hit').
              rewrite Forall_forall in Hwf2. specialize (Hwf2 it' Hit').
              unfold mine_idx in Hjl. destruct (snd it') as [d|] eqn:Ed; [|destruct Hjl].
              destruct (d_seq d =? s) eqn:Es; [|destruct Hjl]. destruct Hjl as [<-|[]].
              apply N.eqb_eq in Es. destruct (Hwf2 d Ed Es) as (k & Hk & ->).
              cbn [seg_of d_idx]. now rewrite Nat2N.id. }
            pose proof (got_bound _ Hnd' Hall) as Hb. rewrite app_length in Hb.
            destruct (idxs its); [reflexivity | cbn [length] in *; lia]. }
          rewrite Hnil, (nomine its _ Hnil). cbn [length] in *.
          destruct (length got + 1 =? S n)%nat eqn:E'; [reflexivity | apply Nat.eqb_neq in E'; lia].
        * apply Nat.eqb_neq in E. destruct Hstep as [Ho Hst']. rewrite Ho.
          unfold outs_for at 1; cbn [map concat app].
          assert (length (i :: got) <= n)%nat as Hlen''.
          { pose proof (got_bound (i :: got)) as Hb.
            assert (NoDup (i :: got)) as Hnd2 by (constructor; auto).
            specialize (Hb Hnd2 Hle'). lia. }
          rewrite (IH _ (i :: got) Hwf2 Hnd' Hle' Hlen'' Hst').
          cbn [length]. replace (length got + S (length (idxs its)))%nat
            with (S (length got) + length (idxs its))%nat by lia. reflexivity.
  Qed.
End Reasm.

(* ---------- raw-level statement ---------- *)

Definition recv_events (evs : list (N * list N)) : list sev := map (fun tr => Recv (fst tr) (snd tr)) evs.
Definition to_item (tr : N * list N) : item := (fst tr, decode_dgram (snd tr)).

Lemma srun_drun ex evs : forall bs,
  snd (srun ex bs (recv_events evs)) = drun ex bs (map to_item evs).
Proof.
  induction evs as [|[t raw] evs IH]; intros bs; [reflexivity|].
  cbn [recv_events map srun snd fst drun]. unfold sstep, receive, dstep, to_item; cbn [fst snd].
  destruct (decode_dgram raw) as [d|]; cbn [fst snd]; f_equal; apply IH.
Qed.

(* raw datagrams that carry sequence number s *)
Definition is_mine (s : N) (raw : list N) : bool :=
  match decode_dgram raw with Some d => d_seq d =? s | None => false end.
Definition mine_raws (s : N) (evs : list (N * list N)) : list (list N) :=
  filter (is_mine s) (map snd evs).

Lemma seg_header_ok s n pieces k : s < 4294967296 -> N.of_nat n <= 65535 -> (k <= n)%nat ->
  header_ok (seg_of s n pieces k).
Proof. intros. unfold header_ok, seg_of; cbn. lia. Qed.

Theorem reassembly P ex s m ds :
  0 < P -> s < 4294967296 -> split P s m = Some ds ->
  forall evs : list (N * list N),
    NoDup (mine_raws s evs) ->
    incl (mine_raws s evs) (map encode_dgram ds) ->
    outs_for s (snd (srun ex [] (recv_events evs))) =
      if (length (mine_raws s evs) =? length ds)%nat then [m] else [].
Proof.
  intros HP Hs Hsplit evs Hnd Hincl.
  destruct (split_spec P s m ds HP Hsplit) as (pieces & n & Hlen & Hcat & Hn & ->).
  rewrite srun_drun, map_length, seq_length.
  (* relate the raw view to the item view *)
  assert (forall raw, In raw (mine_raws s evs) ->
            exists k, (k <= n)%nat /\ decode_dgram raw = Some (seg_of s n pieces k)) as Hdec.
  { intros raw Hin. specialize (Hincl raw Hin). apply in_map_iff in Hincl as (d & <- & Hd).
    apply in_map_iff in Hd as (k & <- & Hk). apply in_seq in Hk. exists k. split; [lia|].
    apply decode_encode_dgram. apply seg_header_ok; auto; lia. }
  assert (Forall (wf_item s pieces n) (map to_item evs)) as Hwf.
  { apply Forall_forall. intros it Hit. apply in_map_iff in Hit as ([t raw] & <- & Hin).
    unfold wf_item, to_item; cbn [fst snd]. intros d Hd Hseq.
    assert (In raw (mine_raws s evs)) as Hm.
    { unfold mine_raws. apply filter_In. split; [apply in_map_iff; exists (t, raw); auto|].
      unfold is_mine. rewrite Hd. now apply N.eqb_eq. }
    destruct (Hdec raw Hm) as (k & Hk & Hdk). exists k. split; [exact Hk | congruence]. }
  (* indices of the item view = indices decoded from the raw view *)
  assert (forall l : list (N * list N),
             (forall raw, In raw (filter (is_mine s) (map snd l)) ->
                exists k, (k <= n)%nat /\ decode_dgram raw = Some (seg_of s n pieces k)) ->
             idxs s (map to_item l) =
             map (fun raw => match decode_dgram raw with Some d => N.to_nat (d_idx d) | None => 0%nat end)
                 (filter (is_mine s) (map snd l))) as Hidx.
  { induction l as [|[t raw] l IH]; intros Hd; [reflexivity|].
    cbn [map snd filter]. rewrite idxs_cons. unfold mine_idx at 1, to_item at 1; cbn [fst snd].
    unfold is_mine at 1. destruct (decode_dgram raw) as [d|] eqn:Ed.
    - destruct (d_seq d =? s) eqn:Es.
      + cbn [map app]. rewrite Ed. f_equal. apply IH. intros r Hr. apply Hd.
        cbn [map snd filter]. unfold is_mine at 1. rewrite Ed, Es. now right.
      + cbn [app]. apply IH. intros r Hr. apply Hd.
        cbn [map snd filter]. unfold is_mine at 1. now rewrite Ed, Es.
    - cbn [app]. apply IH. intros r Hr. apply Hd.
      cbn [map snd filter]. unfold is_mine at 1. now rewrite Ed. }
  specialize (Hidx evs Hdec). fold (mine_raws s evs) in Hidx.
  assert (NoDup (idxs s (map to_item evs))) as Hnd'.
  { rewrite Hidx. apply NoDup_map_inj_in; [|exact Hnd].
    intros r1 r2 H1 H2. destruct (Hdec r1 H1) as (k1 & Hk1 & D1), (Hdec r2 H2) as (k2 & Hk2 & D2).
    rewrite D1, D2. cbn [seg_of d_idx]. rewrite !Nat2N.id. intros ->.
    (* equal decodings of emitted segments: the raws are the encodings of the same segment *)
    specialize (Hincl r1 H1) as I1. specialize (Hincl r2 H2) as I2.
    apply in_map_iff in I1 as (d1 & <- & _). apply in_map_iff in I2 as (d2 & <- & _).
    clear - D1 D2. revert D1 D2.
    generalize (seg_of s n pieces k2). intros d D1 D2.
    (* decode is injective on encodings whose decoding is defined and equal *)
    assert (forall d0 d', decode_dgram (encode_dgram d0) = Some d' ->
              encode_dgram d0 = encode_dgram d') as Hinj.
    { intros [a b c p] d'. unfold encode_dgram, be32, be16; cbn [app d_seq d_max d_idx d_pay decode_dgram].
      intros [= <-]. cbn [d_seq d_max d_idx d_pay]. unfold be32, be16.
      pose proof (be32_rd32 (a / 16777216 mod 256) (a / 65536 mod 256) (a / 256 mod 256) (a mod 256)) as H32.
      pose proof (be16_rd16 (b / 256 mod 256) (b mod 256)) as H16b.
      pose proof (be16_rd16 (c / 256 mod 256) (c mod 256)) as H16c.
      unfold be32 in H32. unfold be16 in H16b, H16c.
      cbn [app].
      assert (forall x, x mod 256 < 256) as Hm by (intros; apply N.mod_lt; lia).
      injection (H32 (Hm _) (Hm _) (Hm _) (Hm _)) as -> -> -> ->.
      injection (H16b (Hm _) (Hm _)) as -> ->.
      injection (H16c (Hm _) (Hm _)) as -> ->. reflexivity. }
    rewrite (Hinj d1 d D1), (Hinj d2 d D2). reflexivity. }
  pose proof (main ex s pieces n Hlen (map to_item evs) [] []) as Hmain.
  cbn [app length Nat.add] in Hmain.
  rewrite Hmain; auto.
  - rewrite Hidx, map_length, Hcat. reflexivity.
  - intros i [].
  - lia.
  - reflexivity.
Qed.

(* nothing is ever handed up for a message with a missing segment - also with expiry events
   and arbitrary other traffic; corollary of [reassembly] for Recv-only histories, and proved
   directly for histories with Expire events by a counting invariant below. *)

Definition srun_outs ex bs evs := snd (srun ex bs evs).

Lemma receive_d_out_seq ex now bs d s m :
  snd (receive_d ex now bs d) = Some (s, m) -> s = d_seq d.
Proof.
  unfold receive_d.
  repeat match goal with |- context [if ?c then _ else _] => destruct c end;
    cbn [snd]; congruence.
Qed.

(* malformed datagrams *)
Lemma short_discarded ex now bs raw : (length raw < 8)%nat -> receive ex now bs raw = (bs, None).
Proof. intros H. unfold receive. now rewrite decode_short. Qed.

Lemma bad_index_no_output ex now bs d :
  lookup (d_seq d) bs = None -> d_max d < d_idx d -> snd (receive_d ex now bs d) = None.
Proof.
  intros Hl Hlt. unfold receive_d. rewrite Hl. cbn [r_cnt r_slots r_exp].
  rewrite repeat_length.
  destruct (N.of_nat (N.to_nat (d_max d + 1)) <=? d_idx d) eqn:E; [reflexivity|].
  apply N.leb_gt in E. lia.
Qed.

(* expiry: a buffer not touched for longer than the expiry time is forgotten *)
Lemma expire_forgets now bs s b :
  lookup s bs = Some b -> (forall k v, In (k, v) bs -> k = s -> r_exp v < now) ->
  lookup s (expire now bs) = None.
Proof.
  intros _ Hall. unfold expire. induction bs as [|[k v] bs IH]; [reflexivity|].
  cbn [filter snd]. destruct (r_exp v <? now) eqn:E; cbn [negb].
  - apply IH. intros k' v' Hin. apply Hall. now right.
  - cbn [lookup]. destruct (k =? s) eqn:Ek.
    + apply N.eqb_eq in Ek. apply N.ltb_ge in E.
      specialize (Hall k v (or_introl eq_refl) Ek). lia.
    + apply IH. intros k' v' Hin. apply Hall. now right.
Qed.

Lemma receive_sets_expiry ex now bs d b :
  lookup (d_seq d) (fst (receive_d ex now bs d)) = Some b -> r_exp b = now + ex.
Proof.
  unfold receive_d.
  repeat match goal with |- context [if ?c then _ else _] => destruct c end; cbn [fst].
  - rewrite lookup_insert_same. now intros [= <-].
  - now rewrite lookup_remove_same.
  - rewrite lookup_insert_same. now intros [= <-].
Qed.

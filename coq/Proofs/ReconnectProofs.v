(* Lemmas about Model/Reconnect.v (C18). *)
From Coq Require Import List NArith Bool Arith Lia.
From Iscp Require Import Lib.ListMap Model.Reconnect.
Import ListNotations.
Open Scope N_scope.

(* ---------- lists ---------- *)

Lemma upd_nth_length {A} (f : A -> A) l k : length (upd_nth k f l) = length l.
Proof. revert k; induction l as [|x l IH]; intros [|k]; cbn; auto. Qed.

Lemma upd_nth_app {A} (f : A -> A) pre c post :
  upd_nth (length pre) f (pre ++ c :: post) = pre ++ f c :: post.
Proof. induction pre as [|x pre IH]; cbn; [reflexivity | now rewrite IH]. Qed.

Lemma nth_error_mid {A} (pre : list A) c post : nth_error (pre ++ c :: post) (length pre) = Some c.
Proof. induction pre; cbn; auto. Qed.

Lemma upd_nth_map {A B} (g : A -> B) (f : A -> A) l k :
  (forall x, g (f x) = g x) -> map g (upd_nth k f l) = map g l.
Proof.
  intros H. revert k; induction l as [|x l IH]; intros [|k]; cbn; auto.
  - now rewrite H.
  - now rewrite IH.
Qed.

Definition logs (n : net) : list (list N) := concat (map i_log (n_incs n)).

Lemma concat_empty (post : list sinc) :
  Forall (fun i => i_log i = []) post -> concat (map i_log post) = [].
Proof. induction 1 as [|x l Hx _ IH]; cbn; [reflexivity | now rewrite Hx, IH]. Qed.

(* the current transport exists and every transport created after it has accepted nothing *)
Definition NI (n : net) : Prop :=
  exists pre c post, n_incs n = pre ++ c :: post /\ length pre = n_cur n /\
                     Forall (fun i => i_log i = []) post.

Lemma NI_nth n : NI n -> exists c, nth_error (n_incs n) (n_cur n) = Some c.
Proof. intros (pre & c & post & E & L & _). exists c. rewrite E, <- L. apply nth_error_mid. Qed.

(* ---------- dialling ---------- *)

Lemma logs_snoc incs cap cur s ds :
  logs (mkNet (incs ++ [new_inc cap]) cur s ds) = concat (map i_log incs).
Proof. unfold logs; cbn [n_incs]. rewrite map_app, concat_app. cbn. now rewrite app_nil_r. Qed.

Lemma NI_snoc incs cap cur s ds s' ds' :
  NI (mkNet incs cur s ds) -> NI (mkNet (incs ++ [new_inc cap]) cur s' ds').
Proof.
  intros (pre & c & post & E & L & F). cbn [n_incs n_cur] in *.
  exists pre, c, (post ++ [new_inc cap]). cbn [n_incs n_cur]. subst incs. split; [|split].
  - now rewrite <- app_assoc.
  - exact L.
  - apply Forall_app; split; [exact F | repeat constructor].
Qed.

Lemma NI_fresh incs cap s ds : NI (mkNet (incs ++ [new_inc cap]) (length incs) s ds).
Proof. exists incs, (new_inc cap), []. cbn. auto. Qed.

Lemma NI_same_incs n cur s ds s' ds' :
  NI (mkNet (n_incs n) cur s ds) -> NI (mkNet (n_incs n) cur s' ds').
Proof. intros (pre & c & post & E & L & F). exists pre, c, post. auto. Qed.

Lemma redial_spec tid th fuel : forall n,
  NI n ->
  let r := redial tid th fuel n in
  NI (fst r) /\ logs (fst r) = logs n /\
  (exists k, n_dials (fst r) = n_dials n ++ repeat (tid, true) k) /\
  (length (n_script (fst r)) <= length (n_script n))%nat /\
  (snd r = true -> (length (n_script (fst r)) < length (n_script n))%nat).
Proof.
  induction fuel as [|f IH]; intros n Hn; cbn [redial].
  - cbn. repeat split; auto. exists 0%nat. cbn. now rewrite app_nil_r. discriminate.
  - assert (Htl : (length (tl (n_script n)) <= length (n_script n))%nat)
      by (destruct (n_script n); cbn; lia).
    destruct (next_dial th (n_script n)) as [|hs cap] eqn:D.
    + specialize (IH (mkNet (n_incs n) (n_cur n) (tl (n_script n)) (n_dials n ++ [(tid, true)]))).
      cbn zeta in IH. destruct IH as (I1 & I2 & (k & I3) & I4 & I5).
      { destruct n; exact Hn. }
      cbn [n_incs n_cur n_script n_dials] in *.
      split; [exact I1|]. split; [exact I2|]. split.
      { exists (S k). rewrite I3, <- app_assoc. reflexivity. }
      split; [lia|]. intros H. specialize (I5 H). lia.
    + destruct hs.
      * cbn [fst snd]. split; [apply NI_fresh|]. split; [apply logs_snoc|]. split.
        { exists 1%nat. reflexivity. }
        cbn [n_script]. split; [exact Htl|]. intros _.
        destruct (n_script n) as [|d s]; cbn in *; [destruct th; discriminate | lia].
      * specialize (IH (mkNet (n_incs n ++ [new_inc cap]) (n_cur n) (tl (n_script n)) (n_dials n ++ [(tid, true)]))).
        cbn zeta in IH. destruct IH as (I1 & I2 & (k & I3) & I4 & I5).
        { destruct n as [incs cur s ds]. eapply NI_snoc. exact Hn. }
        cbn [n_incs n_cur n_script n_dials] in *.
        split; [exact I1|]. split; [rewrite I2; apply logs_snoc|]. split.
        { exists (S k). rewrite I3, <- app_assoc. reflexivity. }
        split; [lia|]. intros H. specialize (I5 H). lia.
Qed.

Lemma close_cur_NI n : NI n -> NI (close_cur n).
Proof.
  intros (pre & c & post & E & L & F). exists pre, (inc_close c), post. unfold close_cur; cbn [n_incs n_cur].
  rewrite E, <- L. split; [apply upd_nth_app | auto].
Qed.

Lemma close_cur_logs n : logs (close_cur n) = logs n.
Proof. unfold logs, close_cur; cbn [n_incs]. now rewrite upd_nth_map by reflexivity. Qed.

Lemma reconnect_spec b tid th n :
  NI n ->
  let r := reconnect b tid th n in
  NI (fst r) /\ logs (fst r) = logs n /\
  (exists k, n_dials (fst r) = n_dials n ++ repeat (tid, true) k) /\
  (length (n_script (fst r)) <= length (n_script n))%nat /\
  (snd r = true -> (length (n_script (fst r)) < length (n_script n))%nat).
Proof.
  intros Hn. unfold reconnect.
  pose proof (redial_spec tid th b (close_cur n) (close_cur_NI n Hn)) as H. cbn zeta in H.
  rewrite close_cur_logs in H. exact H.
Qed.

(* ---------- the write loop ---------- *)

Lemma wloop_one_spec b tid th bs fuel : forall n,
  NI n ->
  let r := wloop_one b tid th fuel n bs in
  NI (fst r) /\
  logs (fst r) = logs n ++ (match snd r with WLAccepted => [bs] | _ => [] end) /\
  (exists k, n_dials (fst r) = n_dials n ++ repeat (tid, true) k) /\
  ((length (n_script n) < fuel)%nat -> snd r <> WLFuel).
Proof.
  induction fuel as [|f IH]; intros n Hn; cbn zeta.
  - destruct Hn as (pre & c & post & E & L & F).
    cbn [wloop_one]. rewrite E, <- L, nth_error_mid.
    destruct (inc_accepts c); cbn [fst snd].
    + split. { exists pre, (inc_write bs c), post. cbn [n_incs n_cur]. rewrite upd_nth_app. auto. }
      split. { unfold logs; cbn [n_incs]. rewrite upd_nth_app, E, !map_app, !concat_app. cbn [map concat inc_write i_log].
               rewrite (concat_empty post F), !app_nil_r, <- app_assoc. reflexivity. }
      split. { exists 0%nat. cbn. now rewrite app_nil_r. }
      discriminate.
    + split. { exists pre, c, post. rewrite E. auto. }
      split. { now rewrite app_nil_r. }
      split. { exists 0%nat. cbn. now rewrite app_nil_r. }
      lia.
  - pose proof Hn as (pre & c & post & E & L & F).
    cbn [wloop_one]. rewrite E, <- L, nth_error_mid.
    destruct (inc_accepts c); cbn [fst snd].
    + split. { exists pre, (inc_write bs c), post. cbn [n_incs n_cur]. rewrite upd_nth_app. auto. }
      split. { unfold logs; cbn [n_incs]. rewrite upd_nth_app, E, !map_app, !concat_app. cbn [map concat inc_write i_log].
               rewrite (concat_empty post F), !app_nil_r, <- app_assoc. reflexivity. }
      split. { exists 0%nat. cbn. now rewrite app_nil_r. }
      discriminate.
    + idtac.
      pose proof (reconnect_spec b tid th n Hn) as (R1 & R2 & (k & R3) & R4 & R5).
      destruct (snd (reconnect b tid th n)) eqn:SR.
      * specialize (IH (fst (reconnect b tid th n)) R1). cbn zeta in IH.
        destruct IH as (I1 & I2 & (k' & I3) & I4).
        split; [exact I1|]. split; [now rewrite I2, R2|]. split.
        { exists (k + k')%nat. rewrite I3, R3, <- app_assoc, repeat_app. reflexivity. }
        intros Hf. apply I4. specialize (R5 eq_refl). lia.
      * cbn [fst snd]. split; [exact R1|]. split; [now rewrite R2, app_nil_r|]. split.
        { exists k. exact R3. }
        discriminate.
Qed.

(* ---------- invariant of the whole state ---------- *)

Record Inv (st : rstate) : Prop := mkInv {
  inv_ni : NI (rs_net st);
  inv_wloop : rs_wloop st = negb (rs_cancel st);
  inv_wait : rs_pr st = PWait -> rs_cancel st = false /\ rs_rdead st = false /\ rs_readq st = []
}.

(* what never changes *)
Definition konst (st st' : rstate) : Prop :=
  rs_budget st' = rs_budget st /\ rs_tid st' = rs_tid st /\ rs_tailhs st' = rs_tailhs st.

Lemma konst_refl st : konst st st. Proof. repeat split. Qed.
Lemma konst_trans a b c : konst a b -> konst b c -> konst a c.
Proof. unfold konst. intros (A1 & A2 & A3) (B1 & B2 & B3). repeat split; congruence. Qed.

Definition dials_ext (st st' : rstate) : Prop :=
  exists k, n_dials (rs_net st') = n_dials (rs_net st) ++ repeat (rs_tid st, true) k.

Lemma dials_ext_refl st : dials_ext st st.
Proof. exists 0%nat. cbn. now rewrite app_nil_r. Qed.
Lemma dials_ext_trans a b c : rs_tid b = rs_tid a -> dials_ext a b -> dials_ext b c -> dials_ext a c.
Proof.
  intros T (k & A) (k' & B). exists (k + k')%nat. rewrite B, A, T, <- app_assoc, repeat_app. reflexivity.
Qed.

Lemma cancel_st_props st :
  rs_net (cancel_st st) = rs_net st /\ rs_cancel (cancel_st st) = true /\
  rs_wloop (cancel_st st) = rs_wloop st /\ rs_readq (cancel_st st) = rs_readq st /\
  rs_rdead (cancel_st st) = rs_rdead st /\ rs_pr (cancel_st st) <> PWait /\
  (rs_pr st <> PWait -> rs_pr (cancel_st st) = rs_pr st) /\
  (rs_pr st = PWait -> rs_pr (cancel_st st) = PDone RErr) /\ konst st (cancel_st st).
Proof.
  unfold cancel_st. destruct (rs_pr st) eqn:P; cbn; rewrite ?P; repeat split; try congruence; try discriminate.
Qed.

Ltac sw := cbn [set_wloop set_net set_pr set_readq set_rdead set_cancel
                rs_net rs_wloop rs_cancel rs_pr rs_rdead rs_readq rs_tid rs_budget rs_tailhs].

Lemma write_one_spec st bs :
  Inv st ->
  let r := write_one st bs in
  Inv (fst r) /\ konst st (fst r) /\ dials_ext st (fst r) /\
  logs (rs_net (fst r)) = logs (rs_net st) ++ (match snd r with WOk => [bs] | _ => [] end) /\
  snd r <> WBlocked /\
  (rs_cancel st = true -> fst r = st /\ snd r = WErr) /\
  (rs_cancel st = false -> rs_cancel (fst r) = (match snd r with WErr => true | _ => false end)) /\
  rs_readq (fst r) = rs_readq st /\ rs_rdead (fst r) = rs_rdead st /\
  (rs_pr st <> PWait -> rs_pr (fst r) = rs_pr st) /\
  (rs_pr st = PWait -> rs_pr (fst r) = match snd r with WErr => PDone RErr | _ => PWait end).
Proof.
  intros Hi. pose proof Hi as [Hn Hw Hp]. unfold write_one.
  destruct (rs_cancel st) eqn:C.
  - cbn [fst snd]. split; [exact Hi|]. split; [apply konst_refl|]. split; [apply dials_ext_refl|].
    split; [now rewrite app_nil_r|]. split; [discriminate|]. split; [auto|]. split; [discriminate|].
    repeat split; auto. intros P. destruct (Hp P) as (X & _). congruence.
  - rewrite Hw. cbn [negb].
    pose proof (wloop_one_spec (rs_budget st) (rs_tid st) (rs_tailhs st) bs (S (length (n_script (rs_net st)))) (rs_net st) Hn)
      as (W1 & W2 & W3 & W4). cbn zeta in *.
    destruct (snd (wloop_one _ _ _ _ _ _)) eqn:SW; cbn [fst snd].
    + split. { constructor; cbn; auto. now rewrite C. now rewrite C. }
      split; [repeat split|]. split; [exact W3|]. split; [exact W2|]. split; [discriminate|].
      split; [discriminate|]. split; [auto|]. repeat split; auto.
    + destruct (cancel_st_props (set_net st (fst (wloop_one (rs_budget st) (rs_tid st) (rs_tailhs st)
                 (S (length (n_script (rs_net st)))) (rs_net st) bs)))) as (K1 & K2 & K3 & K4 & K5 & K6 & K7 & K8 & K9).
      split. { constructor; cbn [set_wloop rs_net rs_wloop rs_cancel rs_pr rs_rdead rs_readq].
               - rewrite K1. exact W1.
               - now rewrite K2.
               - intros P. now apply K6 in P. }
      split. { destruct K9 as (A & B & D). cbn [set_net rs_budget rs_tid rs_tailhs] in A, B, D. repeat split; sw; congruence. }
      split. { destruct W3 as (k & W3). exists k. sw. rewrite K1. exact W3. }
      split. { sw. rewrite K1. exact W2. }
      split; [discriminate|]. split; [discriminate|]. split. { intros _. sw. exact K2. }
      split. { sw. now rewrite K4. } split. { sw. now rewrite K5. }
      split. { intros P. sw. now apply K7. } intros P. sw. now apply K8.
    + exfalso. apply W4; [lia | reflexivity].
Qed.

Lemma write_batch_spec ws : forall st,
  Inv st ->
  let r := write_batch st ws in
  Inv (fst r) /\ konst st (fst r) /\ dials_ext st (fst r) /\
  logs (rs_net (fst r)) = logs (rs_net st) ++ oks ws (snd r) /\
  length (snd r) = length ws /\ ~ In WBlocked (snd r) /\
  (rs_cancel st = true -> fst r = st /\ Forall (fun x => x = WErr) (snd r)) /\
  (rs_cancel (fst r) = rs_cancel st || existsb (fun x => match x with WErr => true | _ => false end) (snd r)) /\
  rs_readq (fst r) = rs_readq st /\ rs_rdead (fst r) = rs_rdead st /\
  (rs_pr st <> PWait -> rs_pr (fst r) = rs_pr st) /\
  (rs_pr st = PWait -> rs_pr (fst r) = if rs_cancel (fst r) then PDone RErr else PWait).
Proof.
  induction ws as [|w ws IH]; intros st Hi; cbn [write_batch]; cbn zeta.
  - cbn [fst snd oks length In existsb]. rewrite app_nil_r, orb_false_r.
    split; [exact Hi|]. split; [apply konst_refl|]. split; [apply dials_ext_refl|].
    repeat split; auto. intros P. destruct Hi as [_ _ Hp]. destruct (Hp P) as (X & _). now rewrite X.
  - pose proof (write_one_spec st (snd w) Hi) as (A1 & A2 & A3 & A4 & A5 & A6 & A7 & A8 & A9 & A10 & A11).
    cbn zeta in *.
    specialize (IH (fst (write_one st (snd w))) A1). cbn zeta in IH.
    destruct IH as (B1 & B2 & B3 & B4 & B5 & B6 & B7 & B8 & B9 & B10 & B11 & B12).
    cbn [fst snd].
    split; [exact B1|]. split; [eapply konst_trans; eauto|].
    split. { apply (dials_ext_trans st (fst (write_one st (snd w))) _); [apply A2 | exact A3 | exact B3]. }
    split. { rewrite B4, A4, <- app_assoc. f_equal. destruct w as [wr p]; cbn [snd oks].
             destruct (snd (write_one st p)); reflexivity. }
    split. { cbn. now rewrite B5. }
    split. { cbn. intros [H|H]; [now apply A5 | now apply B6]. }
    split. { intros C. destruct (A6 C) as (E1 & E2). rewrite E1 in *. destruct (B7 C) as (F1 & F2).
             split; [exact F1|]. constructor; auto. }
    split. { rewrite B8. cbn [existsb]. destruct (rs_cancel st) eqn:C.
             - destruct (A6 eq_refl) as (E1 & E2). rewrite E1, C. reflexivity.
             - rewrite (A7 eq_refl). destruct (snd (write_one st (snd w))); reflexivity. }
    split; [congruence|]. split; [congruence|].
    split. { intros P. rewrite B11; auto. rewrite A10; auto. }
    intros P. specialize (A11 P).
    destruct Hi as [_ _ Hp]. destruct (Hp P) as (C & _).
    specialize (A7 C).
    destruct (snd (write_one st (snd w))) eqn:SW.
    + rewrite (B12 A11). reflexivity.
    + rewrite B11 by (rewrite A11; discriminate).
      rewrite A11. rewrite B8, A7. reflexivity.
    + now destruct A5.
Qed.

(* ---------- one event ---------- *)

Definition close_status_net (status : N) (n : net) : net :=
  mkNet (upd_nth (n_cur n) (inc_close_status status) (n_incs n)) (n_cur n) (n_script n) (n_dials n).

Lemma close_status_NI s n : NI n -> NI (close_status_net s n).
Proof.
  intros (pre & c & post & E & L & F). exists pre, (inc_close_status s c), post.
  unfold close_status_net; cbn [n_incs n_cur]. rewrite E, <- L. split; [apply upd_nth_app | auto].
Qed.

Lemma close_status_logs s n : logs (close_status_net s n) = logs n.
Proof. unfold logs, close_status_net; cbn [n_incs]. now rewrite upd_nth_map by reflexivity. Qed.

(* nothing queued for Read is a ping *)
Definition item_ok (x : option (list N)) : Prop :=
  match x with Some bs => is_ping bs = false | None => True end.
Definition PF (st : rstate) : Prop :=
  Forall item_ok (rs_readq st) /\ (forall bs, rs_pr st = PDone (ROk bs) -> is_ping bs = false).

Lemma do_close_spec st s :
  Inv st ->
  let st' := do_close st s in
  Inv st' /\ konst st st' /\ dials_ext st st' /\ logs (rs_net st') = logs (rs_net st) /\
  rs_cancel st' = true /\ rs_readq st' = rs_readq st /\ rs_rdead st' = rs_rdead st /\
  (rs_pr st <> PWait -> rs_pr st' = rs_pr st) /\ (rs_pr st = PWait -> rs_pr st' = PDone RErr).
Proof.
  intros [Hn Hw Hp]. cbn zeta. unfold do_close. fold (close_status_net s (rs_net st)).
  destruct (cancel_st_props (set_net st (close_status_net s (rs_net st)))) as (K1 & K2 & K3 & K4 & K5 & K6 & K7 & K8 & K9).
  split. { constructor; sw.
           - rewrite K1. sw. now apply close_status_NI.
           - now rewrite K2.
           - intros P. now apply K6 in P. }
  split. { destruct K9 as (A & B & D). cbn [set_net rs_budget rs_tid rs_tailhs] in A, B, D. repeat split; sw; congruence. }
  split. { exists 0%nat. sw. rewrite K1. cbn. now rewrite app_nil_r. }
  split. { sw. rewrite K1. sw. apply close_status_logs. }
  split. { sw. exact K2. }
  split. { sw. now rewrite K4. } split. { sw. now rewrite K5. }
  split. { intros P. sw. now apply K7. } intros P. sw. now apply K8.
Qed.

(* r.cancel() followed by the write loop's return *)
Definition over_st (st : rstate) : rstate := set_wloop (cancel_st st) false.

Lemma over_st_spec st :
  Inv st ->
  Inv (over_st st) /\ rs_net (over_st st) = rs_net st /\ konst st (over_st st) /\
  rs_cancel (over_st st) = true /\ rs_readq (over_st st) = rs_readq st /\ rs_rdead (over_st st) = rs_rdead st /\
  (rs_pr st <> PWait -> rs_pr (over_st st) = rs_pr st) /\ (rs_pr st = PWait -> rs_pr (over_st st) = PDone RErr) /\
  (PF st -> PF (over_st st)).
Proof.
  intros [Hn Hw Hp]. unfold over_st.
  destruct (cancel_st_props st) as (K1 & K2 & K3 & K4 & K5 & K6 & K7 & K8 & K9).
  split. { constructor; sw.
           - now rewrite K1.
           - now rewrite K2.
           - intros P. now apply K6 in P. }
  split. { sw. exact K1. }
  split. { destruct K9 as (A & B & D). repeat split; sw; congruence. }
  split. { sw. exact K2. }
  split. { sw. exact K4. } split. { sw. exact K5. }
  split. { intros P. sw. now apply K7. }
  split. { intros P. sw. now apply K8. }
  intros (F1 & F2). unfold PF; sw. rewrite K4. split; [exact F1|].
  intros bs E. destruct (rs_pr st) eqn:P.
  - rewrite K7 in E by discriminate. discriminate.
  - rewrite K8 in E by reflexivity. discriminate.
  - rewrite K7 in E by discriminate. now apply F2.
Qed.

Lemma item_res_ok x bs : item_ok x -> item_res x = ROk bs -> is_ping bs = false.
Proof. destruct x; cbn; intros H E; [congruence | discriminate]. Qed.

Lemma push_read_spec st x :
  Inv st -> reading st = true ->
  let st' := push_read st x in
  Inv st' /\ rs_net st' = rs_net st /\ konst st st' /\ rs_cancel st' = rs_cancel st /\
  rs_rdead st' = rs_rdead st /\ rs_pr st' <> PWait /\ (PF st -> item_ok x -> PF st').
Proof.
  intros [Hn Hw Hp] R. cbn zeta. unfold push_read. destruct (rs_pr st) eqn:P.
  - split. { constructor; sw; auto; rewrite ?P; try discriminate. }
    split; [reflexivity|]. split; [repeat split|]. split; [reflexivity|]. split; [reflexivity|].
    split. { sw. rewrite P. discriminate. }
    intros (F1 & F2) Hx. unfold PF; sw. split.
    + apply Forall_app; split; [exact F1 | repeat constructor; auto].
    + intros bs E. apply F2. congruence.
  - split. { constructor; sw; auto; try discriminate. }
    split; [reflexivity|]. split; [repeat split|]. split; [reflexivity|]. split; [reflexivity|].
    split. { sw. discriminate. }
    intros (F1 & F2) Hx. unfold PF; sw. split; [exact F1|].
    intros bs [= E]. eapply item_res_ok; eauto.
  - split. { constructor; sw; auto; rewrite ?P; try discriminate. }
    split; [reflexivity|]. split; [repeat split|]. split; [reflexivity|]. split; [reflexivity|].
    split. { sw. rewrite P. discriminate. }
    intros (F1 & F2) Hx. unfold PF; sw. split.
    + apply Forall_app; split; [exact F1 | repeat constructor; auto].
    + intros bs E. apply F2. congruence.
Qed.

Lemma kill_reader_spec st :
  Inv st ->
  let st' := kill_reader st in
  Inv st' /\ rs_net st' = rs_net st /\ konst st st' /\ rs_cancel st' = rs_cancel st /\
  rs_rdead st' = true /\ rs_readq st' = rs_readq st /\ (PF st -> PF st').
Proof.
  intros [Hn Hw Hp]. cbn zeta. unfold kill_reader. destruct (rs_pr st) eqn:P.
  - split. { constructor; sw; auto; rewrite ?P; try discriminate. }
    split; [reflexivity|]. split; [repeat split|]. split; [reflexivity|]. split; [reflexivity|].
    split; [reflexivity|]. intros (F1 & F2). unfold PF; sw. split; [exact F1|].
    intros bs E. apply F2. congruence.
  - split. { constructor; sw; auto; try discriminate. }
    split; [reflexivity|]. split; [repeat split|]. split; [reflexivity|]. split; [reflexivity|].
    split; [reflexivity|]. intros (F1 & F2). unfold PF; sw. split; [exact F1|]. discriminate.
  - split. { constructor; sw; auto; rewrite ?P; try discriminate. }
    split; [reflexivity|]. split; [repeat split|]. split; [reflexivity|]. split; [reflexivity|].
    split; [reflexivity|]. intros (F1 & F2). unfold PF; sw. split; [exact F1|].
    intros bs E. apply F2. congruence.
Qed.

Lemma read_start_spec st take :
  Inv st ->
  let st' := read_start st take in
  Inv st' /\ rs_net st' = rs_net st /\ konst st st' /\ rs_cancel st' = rs_cancel st /\
  rs_rdead st' = rs_rdead st /\ (PF st -> PF st') /\
  (rs_pr st = PNone -> rs_cancel st || rs_rdead st = true -> exists r, rs_pr st' = PDone r /\ r <> RBlocked).
Proof.
  intros Hi. pose proof Hi as [Hn Hw Hp]. cbn zeta. unfold read_start. destruct (rs_pr st) eqn:P.
  - destruct (rs_readq st) as [|x q] eqn:Q.
    + destruct (rs_cancel st || rs_rdead st) eqn:CR.
      * split. { constructor; sw; auto; try discriminate. }
        split; [reflexivity|]. split; [repeat split|]. split; [reflexivity|]. split; [reflexivity|].
        split. { intros (F1 & F2). unfold PF; sw. split; [exact F1 | discriminate]. }
        intros _ _. exists RErr. split; [reflexivity | discriminate].
      * apply orb_false_iff in CR as (C & D).
        split. { constructor; sw; auto. }
        split; [reflexivity|]. split; [repeat split|]. split; [reflexivity|]. split; [reflexivity|].
        split. { intros (F1 & F2). unfold PF; sw. split; [exact F1 | discriminate]. }
        intros _. discriminate.
    + destruct (rs_cancel st && negb take) eqn:CT.
      * split. { constructor; sw; auto; try discriminate. }
        split; [reflexivity|]. split; [repeat split|]. split; [reflexivity|]. split; [reflexivity|].
        split. { intros (F1 & F2). unfold PF; sw. split; [exact F1 | discriminate]. }
        intros _ _. exists RErr. split; [reflexivity | discriminate].
      * split. { constructor; sw; auto; try discriminate. }
        split; [reflexivity|]. split; [repeat split|]. split; [reflexivity|]. split; [reflexivity|].
        split. { intros (F1 & F2). rewrite Q in F1. inversion F1; subst. unfold PF; sw. split; [assumption|].
                 intros bs [= E]. eapply item_res_ok; eauto. }
        intros _ _. exists (item_res x). split; [reflexivity | destruct x; discriminate].
  - split; [exact Hi|]. split; [reflexivity|]. split; [repeat split|]. split; [reflexivity|].
    split; [reflexivity|]. split; [auto|]. discriminate.
  - split; [exact Hi|]. split; [reflexivity|]. split; [repeat split|]. split; [reflexivity|].
    split; [reflexivity|]. split; [auto|]. discriminate.
Qed.

Definition out_no_block (o : rout) : Prop := match o with OBatch rs => ~ In WBlocked rs | _ => True end.
Definition out_no_ping (o : rout) : Prop :=
  match o with ORead (ROk bs) => is_ping bs = false | _ => True end.

Lemma oks_all_err ws : oks ws (map (fun _ => WErr) ws) = [].
Proof. induction ws as [|w ws IH]; cbn; auto. Qed.

Lemma rstep_spec st e :
  Inv st ->
  let r := rstep st e in
  Inv (fst r) /\ konst st (fst r) /\ dials_ext st (fst r) /\
  logs (rs_net (fst r)) = logs (rs_net st) ++ accepted_of (e, snd r) /\
  out_no_block (snd r) /\
  (rs_cancel st = true -> rs_cancel (fst r) = true) /\
  (rs_rdead st = true -> rs_rdead (fst r) = true) /\
  (PF st -> PF (fst r) /\ out_no_ping (snd r)).
Proof.
  intros Hi. cbn zeta. destruct e as [ws|ws s ce|bs|normal cls|take| |s ce]; cbn [rstep].
  - (* Batch *)
    pose proof (write_batch_spec ws st Hi) as (B1 & B2 & B3 & B4 & B5 & B6 & B7 & B8 & B9 & B10 & B11 & B12).
    cbn zeta in *. cbn [fst snd accepted_of out_no_block out_no_ping].
    split; [exact B1|]. split; [exact B2|]. split; [exact B3|]. split; [exact B4|]. split; [exact B6|].
    split. { intros C. rewrite B8, C. reflexivity. }
    split. { intros D. congruence. }
    intros (F1 & F2). split; [|exact I]. split. { now rewrite B9. }
    intros b E. destruct (rs_pr st) eqn:P.
    + rewrite B11 in E by discriminate. discriminate.
    + rewrite B12 in E by reflexivity. destruct (rs_cancel (fst (write_batch st ws))); discriminate.
    + rewrite B11 in E by discriminate. now apply F2.
  - (* BatchClose *)
    pose proof (do_close_spec st s Hi) as (D1 & D2 & D3 & D4 & D5 & D6 & D7 & D8 & D9).
    cbn zeta in *. cbn [fst snd accepted_of out_no_block out_no_ping].
    split; [exact D1|]. split; [exact D2|]. split; [exact D3|].
    split. { rewrite D4, oks_all_err, app_nil_r. reflexivity. }
    split. { intros H. apply in_map_iff in H as (x & H & _). discriminate. }
    split; [auto|]. split; [congruence|].
    intros (F1 & F2). split; [|exact I]. split. { now rewrite D6. }
    intros b E. destruct (rs_pr st) eqn:P.
    + rewrite D8 in E by discriminate. discriminate.
    + rewrite D9 in E by reflexivity. discriminate.
    + rewrite D8 in E by discriminate. now apply F2.
  - (* Deliver *)
    destruct (reading st) eqn:R.
    + destruct (is_ping bs) eqn:PG.
      * pose proof (write_one_spec st pong Hi) as (A1 & A2 & A3 & A4 & A5 & A6 & A7 & A8 & A9 & A10 & A11).
        cbn zeta in *. cbn [fst snd accepted_of out_no_block out_no_ping].
        split; [exact A1|]. split; [exact A2|]. split; [exact A3|].
        split. { rewrite A4. destruct (snd (write_one st pong)); reflexivity. }
        split; [exact I|].
        split. { intros C. destruct (A6 C) as (E1 & _). now rewrite E1. }
        split; [congruence|].
        intros (F1 & F2). split; [|exact I]. split. { now rewrite A8. }
        intros b E. destruct (rs_pr st) eqn:P.
        -- rewrite A10 in E by discriminate. discriminate.
        -- rewrite A11 in E by reflexivity. destruct (snd (write_one st pong)); discriminate.
        -- rewrite A10 in E by discriminate. now apply F2.
      * pose proof (push_read_spec st (Some bs) Hi R) as (P1 & P2 & P3 & P4 & P5 & P6 & P7).
        cbn zeta in *. cbn [fst snd accepted_of out_no_block out_no_ping].
        split; [exact P1|]. split; [exact P3|].
        split. { exists 0%nat. rewrite P2. cbn. now rewrite app_nil_r. }
        split. { now rewrite P2, app_nil_r. }
        split; [exact I|]. split; [congruence|]. split; [congruence|].
        intros F. split; [|exact I]. apply P7; auto.
    + cbn [fst snd accepted_of out_no_block out_no_ping].
      split; [exact Hi|]. split; [apply konst_refl|]. split; [apply dials_ext_refl|].
      split; [now rewrite app_nil_r|]. repeat split; auto; apply H.
  - (* ReadFail *)
    destruct (reading st) eqn:R.
    + destruct normal.
      * pose proof (kill_reader_spec st Hi) as (K1 & K2 & K3 & K4 & K5 & K6 & K7).
        cbn zeta in *. cbn [fst snd accepted_of out_no_block out_no_ping].
        split; [exact K1|]. split; [exact K3|].
        split. { exists 0%nat. rewrite K2. cbn. now rewrite app_nil_r. }
        split. { now rewrite K2, app_nil_r. }
        split; [exact I|]. split; [congruence|]. split; [auto|].
        intros F. split; [auto | exact I].
      * pose proof Hi as [Hn Hw Hp].
        pose proof (reconnect_spec (rs_budget st) (rs_tid st) (rs_tailhs st) (rs_net st) Hn) as (R1 & R2 & R3 & R4 & R5).
        cbn zeta in *.
        destruct (snd (reconnect _ _ _ _)) eqn:SR; cbn [fst snd accepted_of out_no_block out_no_ping].
        -- split. { constructor; sw; auto. }
           split; [repeat split|]. split; [exact R3|]. split. { sw. now rewrite R2, app_nil_r. }
           split; [exact I|]. split; [auto|]. split; [auto|]. intros F. split; [exact F | exact I].
        -- set (st1 := set_net st (fst (reconnect (rs_budget st) (rs_tid st) (rs_tailhs st) (rs_net st)))).
           assert (I1 : Inv st1) by (constructor; unfold st1; sw; auto).
           assert (R' : reading st1 = true) by exact R.
           pose proof (push_read_spec st1 None I1 R') as (P1 & P2 & P3 & P4 & P5 & P6 & P7).
           pose proof (kill_reader_spec (push_read st1 None) P1) as (K1 & K2 & K3 & K4 & K5 & K6 & K7).
           cbn zeta in *.
           fold (over_st (kill_reader (push_read st1 None))).
           destruct (over_st_spec _ K1) as (O1 & O2 & O3 & O4 & O5 & O6 & O7 & O8 & O9).
           split; [exact O1|].
           split. { eapply konst_trans; [|exact O3]. eapply konst_trans; [|exact K3]. eapply konst_trans; [|exact P3]. repeat split. }
           split. { destruct R3 as (k & R3). exists k. rewrite O2, K2, P2. exact R3. }
           split. { rewrite O2, K2, P2. unfold st1; sw. now rewrite R2, app_nil_r. }
           split; [exact I|]. split. { intros _. exact O4. }
           split. { intros _. now rewrite O6. }
           intros F. split; [|exact I]. apply O9, K7, P7; [exact F | exact I].
    + cbn [fst snd accepted_of out_no_block out_no_ping].
      split; [exact Hi|]. split; [apply konst_refl|]. split; [apply dials_ext_refl|].
      split; [now rewrite app_nil_r|]. repeat split; auto; apply H.
  - (* ReadStart *)
    pose proof (read_start_spec st take Hi) as (S1 & S2 & S3 & S4 & S5 & S6 & S7).
    cbn zeta in *. cbn [fst snd accepted_of out_no_block out_no_ping].
    split; [exact S1|]. split; [exact S3|].
    split. { exists 0%nat. rewrite S2. cbn. now rewrite app_nil_r. }
    split. { now rewrite S2, app_nil_r. }
    split; [exact I|]. split; [congruence|]. split; [congruence|].
    intros F. split; [auto | exact I].
  - (* ReadJoin *)
    destruct (rs_pr st) eqn:P; cbn [fst snd accepted_of out_no_block out_no_ping].
    + split; [exact Hi|]. split; [apply konst_refl|]. split; [apply dials_ext_refl|].
      split; [now rewrite app_nil_r|]. repeat split; auto; apply H.
    + split; [exact Hi|]. split; [apply konst_refl|]. split; [apply dials_ext_refl|].
      split; [now rewrite app_nil_r|]. repeat split; auto; apply H.
    + destruct Hi as [Hn Hw Hp].
      split. { constructor; sw; auto; try discriminate. }
      split; [repeat split|]. split. { exists 0%nat. sw. cbn. now rewrite app_nil_r. }
      split. { sw. now rewrite app_nil_r. }
      split; [exact I|]. split; [auto|]. split; [auto|].
      intros (F1 & F2). split. { split; [exact F1|]. sw. discriminate. }
      destruct r; cbn; auto.
  - (* CloseE *)
    pose proof (do_close_spec st s Hi) as (D1 & D2 & D3 & D4 & D5 & D6 & D7 & D8 & D9).
    cbn zeta in *. cbn [fst snd accepted_of out_no_block out_no_ping].
    split; [exact D1|]. split; [exact D2|]. split; [exact D3|].
    split. { now rewrite D4, app_nil_r. }
    split; [exact I|]. split; [auto|]. split; [congruence|].
    intros (F1 & F2). split; [|exact I]. split. { now rewrite D6. }
    intros b E. destruct (rs_pr st) eqn:P.
    + rewrite D8 in E by discriminate. discriminate.
    + rewrite D9 in E by reflexivity. discriminate.
    + rewrite D8 in E by discriminate. now apply F2.
Qed.

(* ---------- histories ---------- *)

Lemma rrun_cons st e evs :
  rrun st (e :: evs) =
  (fst (rrun (fst (rstep st e)) evs), snd (rstep st e) :: snd (rrun (fst (rstep st e)) evs)).
Proof. reflexivity. Qed.

Lemma rrun_length evs : forall st, length (snd (rrun st evs)) = length evs.
Proof. induction evs as [|e evs IH]; intros st; [reflexivity|]. rewrite rrun_cons. cbn. now rewrite IH. Qed.

Lemma rrun_spec evs : forall st,
  Inv st ->
  let r := rrun st evs in
  Inv (fst r) /\ konst st (fst r) /\ dials_ext st (fst r) /\
  logs (rs_net (fst r)) = logs (rs_net st) ++ accepted_stream (combine evs (snd r)) /\
  Forall out_no_block (snd r) /\
  (rs_cancel st = true -> rs_cancel (fst r) = true) /\
  (rs_rdead st = true -> rs_rdead (fst r) = true) /\
  (PF st -> PF (fst r) /\ Forall out_no_ping (snd r)).
Proof.
  induction evs as [|e evs IH]; intros st Hi; cbn zeta.
  - cbn [rrun fst snd combine accepted_stream map concat]. rewrite app_nil_r.
    split; [exact Hi|]. split; [apply konst_refl|]. split; [apply dials_ext_refl|].
    split; [reflexivity|]. split; [constructor|]. split; [auto|]. split; [auto|]. intros F. split; [exact F | constructor].
  - rewrite rrun_cons. cbn [fst snd].
    pose proof (rstep_spec st e Hi) as (A1 & A2 & A3 & A4 & A5 & A6 & A7 & A8). cbn zeta in *.
    specialize (IH (fst (rstep st e)) A1). cbn zeta in IH.
    destruct IH as (B1 & B2 & B3 & B4 & B5 & B6 & B7 & B8).
    split; [exact B1|]. split; [eapply konst_trans; eauto|].
    split. { apply (dials_ext_trans st (fst (rstep st e)) _); [apply A2 | exact A3 | exact B3]. }
    split. { rewrite B4, A4, <- app_assoc. reflexivity. }
    split; [constructor; auto|]. split; [auto|]. split; [auto|].
    intros F. destruct (A8 F) as (F' & O). destruct (B8 F') as (F'' & O'). split; [exact F''|]. constructor; auto.
Qed.

(* ---------- Dial ---------- *)

Lemma dial0_spec tid th fuel : forall n,
  snd (dial0 tid th fuel n) = true ->
  let r := fst (dial0 tid th fuel n) in
  (exists cap, n_incs r = n_incs n ++ [new_inc cap]) /\ n_cur r = length (n_incs n) /\
  n_dials r = n_dials n ++ repeat (tid, false) (S (head_fails (n_script n))).
Proof.
  induction fuel as [|f IH]; intros n; cbn [dial0]; [discriminate|].
  destruct (next_dial th (n_script n)) as [|hs cap] eqn:D.
  - intros H. specialize (IH _ H). cbn zeta in *. cbn [n_incs n_cur n_script n_dials] in IH.
    destruct IH as (I1 & I2 & I3). split; [exact I1|]. split; [exact I2|].
    rewrite I3, <- app_assoc. f_equal.
    destruct (n_script n) as [|d s]; cbn in D.
    + (* script used up: a failing tail keeps failing, so the recursion cannot have succeeded *)
      exfalso. destruct th; [discriminate|].
      clear - H. revert H. generalize (n_dials n ++ [(tid, false)]). generalize (n_incs n) (n_cur n).
      induction f as [|f IHf]; intros incs cur ds; cbn; [discriminate | apply IHf].
    + subst d. reflexivity.
  - intros _. cbn zeta. cbn [fst n_incs n_cur n_dials]. split; [eauto|]. split; [reflexivity|].
    f_equal. destruct (n_script n) as [|d s]; cbn in D.
    + reflexivity.
    + subst d. reflexivity.
Qed.

Lemma rc_new_spec c st :
  rc_new c = Some st ->
  Inv st /\ PF st /\ logs (rs_net st) = [] /\ rs_tid st = rc_tid c /\ rs_cancel st = false /\ rs_rdead st = false /\
  rs_readq st = [] /\ rs_pr st = PNone /\
  n_dials (rs_net st) = repeat (rc_tid c, false) (S (head_fails (rc_script c))).
Proof.
  unfold rc_new. cbn zeta.
  destruct (snd (dial0 _ _ _ _)) eqn:SD; [|discriminate]. intros [= <-].
  pose proof (dial0_spec _ _ _ _ SD) as ((cap & D1) & D2 & D3). cbn zeta in *. cbn [n_incs n_dials n_script app] in *.
  sw. split.
  { constructor; sw; auto; try discriminate.
    exists [], (new_inc cap), []. rewrite D1, D2. cbn. auto. }
  split. { split; sw; [constructor | discriminate]. }
  split. { unfold logs. rewrite D1. reflexivity. }
  repeat split; auto.
Qed.

(* ---------- redial parameters ---------- *)

Lemma dials_ok_true tid k : dials_ok tid 0 (repeat (tid, true) k) = true.
Proof. induction k as [|k IH]; cbn; [reflexivity|]. now rewrite N.eqb_refl, IH. Qed.

Lemma dials_ok_shape tid n0 k : dials_ok tid n0 (repeat (tid, false) n0 ++ repeat (tid, true) k) = true.
Proof. induction n0 as [|n IH]; cbn; [apply dials_ok_true|]. now rewrite N.eqb_refl, IH. Qed.

Lemma run_dials c st evs :
  rc_new c = Some st ->
  exists k, n_dials (rs_net (fst (rrun st evs))) =
            repeat (rc_tid c, false) (S (head_fails (rc_script c))) ++ repeat (rc_tid c, true) k.
Proof.
  intros H. destruct (rc_new_spec c st H) as (Hi & _ & _ & T & _ & _ & _ & _ & D).
  destruct (rrun_spec evs st Hi) as (_ & _ & (k & E) & _). exists k. now rewrite E, D, T.
Qed.

Lemma run_dials_ok c st evs :
  rc_new c = Some st ->
  dials_ok (rc_tid c) (S (head_fails (rc_script c))) (n_dials (rs_net (fst (rrun st evs)))) = true.
Proof. intros H. destruct (run_dials c st evs H) as (k & E). rewrite E. apply dials_ok_shape. Qed.

(* a redial round that succeeds closes the old connection and installs a fresh, open one *)
Lemma redial_fresh tid th fuel : forall n,
  snd (redial tid th fuel n) = true ->
  exists cap, nth_error (n_incs (fst (redial tid th fuel n))) (n_cur (fst (redial tid th fuel n))) = Some (new_inc cap) /\
              (length (n_incs n) <= n_cur (fst (redial tid th fuel n)))%nat /\
              exists post, n_incs (fst (redial tid th fuel n)) = n_incs n ++ post.
Proof.
  induction fuel as [|f IH]; intros n; cbn [redial]; [discriminate|].
  destruct (next_dial th (n_script n)) as [|hs cap] eqn:D.
  - intros H. destruct (IH _ H) as (cap & E & L & post & P). cbn [n_incs] in *. eauto.
  - destruct hs.
    + intros _. cbn [fst n_incs n_cur]. exists cap. split.
      { apply nth_error_mid. }
      split; [lia | eauto].
    + intros H. destruct (IH _ H) as (cap' & E & L & post & P). cbn [n_incs] in *.
      exists cap'. split; [exact E|]. split. { rewrite app_length in L. cbn in L. lia. }
      exists ([new_inc cap] ++ post). now rewrite P, <- app_assoc.
Qed.

Lemma reconnect_replaces b tid th n old :
  nth_error (n_incs n) (n_cur n) = Some old ->
  snd (reconnect b tid th n) = true ->
  let n' := fst (reconnect b tid th n) in
  nth_error (n_incs n') (n_cur n) = Some (inc_close old) /\ (n_cur n < n_cur n')%nat /\
  exists cap, nth_error (n_incs n') (n_cur n') = Some (new_inc cap).
Proof.
  intros O S. unfold reconnect in *. cbn zeta.
  destruct (redial_fresh tid th b (close_cur n) S) as (cap & E & L & post & P).
  assert (Hlen : (n_cur n < length (n_incs n))%nat) by (apply nth_error_Some; congruence).
  assert (Hc : n_incs (close_cur n) = upd_nth (n_cur n) inc_close (n_incs n)) by reflexivity.
  rewrite Hc in L, P. rewrite upd_nth_length in L.
  split.
  - rewrite P. rewrite nth_error_app1 by (rewrite upd_nth_length; lia).
    clear - O. revert O. generalize (n_cur n). induction (n_incs n) as [|x l IH]; intros [|k]; cbn; try discriminate.
    + now intros [= ->].
    + apply IH.
  - split; [lia | eauto].
Qed.

(* ---------- the theorems' lemmas ---------- *)

Lemma once_in_order_run c st evs :
  rc_new c = Some st ->
  concat (map i_log (n_incs (rs_net (fst (rrun st evs))))) = accepted_stream (combine evs (snd (rrun st evs))).
Proof.
  intros H. destruct (rc_new_spec c st H) as (Hi & _ & L & _).
  destruct (rrun_spec evs st Hi) as (_ & _ & _ & E & _). unfold logs in *. now rewrite E, L.
Qed.

Lemma no_write_blocks c st evs rs :
  rc_new c = Some st -> In (OBatch rs) (snd (rrun st evs)) -> ~ In WBlocked rs.
Proof.
  intros H I. destruct (rc_new_spec c st H) as (Hi & _).
  destruct (rrun_spec evs st Hi) as (_ & _ & _ & _ & F & _).
  rewrite Forall_forall in F. exact (F _ I).
Qed.

Lemma reachable_inv c st evs : rc_new c = Some st -> Inv (fst (rrun st evs)).
Proof. intros H. destruct (rc_new_spec c st H) as (Hi & _). now destruct (rrun_spec evs st Hi). Qed.

(* a Read is left waiting only on a live transport with nothing queued *)
Lemma read_blocks_only_live c st evs :
  rc_new c = Some st ->
  let fin := fst (rrun st evs) in
  snd (rstep fin ReadJoin) = ORead RBlocked ->
  rs_cancel fin = false /\ rs_rdead fin = false /\ rs_readq fin = [].
Proof.
  intros H fin. pose proof (reachable_inv c st evs H) as [_ _ Hp]. fold fin in Hp.
  cbn [rstep]. destruct (rs_pr fin) eqn:P; cbn [snd]; try discriminate.
  - intros _. now apply Hp.
  - intros [= ->]. exfalso.
    (* a resolved Read is never RBlocked *)
    clear Hp. revert P. unfold fin. clear fin.
    destruct (rc_new_spec c st H) as (Hi & _ & _ & _ & _ & _ & _ & P0 & _).
    assert (G : forall evs st, Inv st -> rs_pr st <> PDone RBlocked -> rs_pr (fst (rrun st evs)) <> PDone RBlocked).
    { clear. induction evs as [|e evs IH]; intros st Hi P; [exact P|].
      rewrite rrun_cons; cbn [fst]. apply IH; [now destruct (rstep_spec st e Hi)|].
      destruct e as [ws|ws s ce|bs|normal cls|take| |s ce]; cbn [rstep].
      - destruct (write_batch_spec ws st Hi) as (_ & _ & _ & _ & _ & _ & _ & _ & _ & _ & B11 & B12). cbn zeta in *; cbn [fst].
        destruct (rs_pr st) eqn:Q.
        + rewrite B11; [congruence | discriminate].
        + rewrite B12 by reflexivity. destruct (rs_cancel _); discriminate.
        + rewrite B11; [congruence | discriminate].
      - destruct (do_close_spec st s Hi) as (_ & _ & _ & _ & _ & _ & _ & D8 & D9). cbn zeta in *; cbn [fst].
        destruct (rs_pr st) eqn:Q.
        + rewrite D8; [congruence | discriminate].
        + rewrite D9 by reflexivity. discriminate.
        + rewrite D8; [congruence | discriminate].
      - destruct (reading st); [|exact P]. destruct (is_ping bs); cbn [fst].
        + destruct (write_one_spec st pong Hi) as (_ & _ & _ & _ & _ & _ & _ & _ & _ & A10 & A11). cbn zeta in *.
          destruct (rs_pr st) eqn:Q.
          * rewrite A10; [congruence | discriminate].
          * rewrite A11 by reflexivity. destruct (snd _); discriminate.
          * rewrite A10; [congruence | discriminate].
        + unfold push_read. destruct (rs_pr st) eqn:Q; sw; rewrite ?Q; try congruence. discriminate.
      - destruct (reading st); [|exact P]. destruct normal; cbn [fst].
        + unfold kill_reader. destruct (rs_pr st) eqn:Q; sw; rewrite ?Q; try congruence; discriminate.
        + destruct (snd (reconnect _ _ _ _)); cbn [fst]; [exact P|].
          unfold cancel_st, kill_reader, push_read. sw. destruct (rs_pr st) eqn:Q; sw; rewrite ?Q; sw; rewrite ?Q; sw; rewrite ?Q; sw; try congruence; discriminate.
      - cbn [fst]. unfold read_start. destruct (rs_pr st) eqn:Q; [|congruence..].
        destruct (rs_readq st) as [|x q].
        + destruct (_ || _); sw; discriminate.
        + destruct (_ && _); sw; [discriminate|]. destruct x; discriminate.
      - destruct (rs_pr st) eqn:Q; cbn [fst]; sw; congruence.
      - destruct (do_close_spec st s Hi) as (_ & _ & _ & _ & _ & _ & _ & D8 & D9). cbn zeta in *; cbn [fst].
        destruct (rs_pr st) eqn:Q.
        + rewrite D8; [congruence | discriminate].
        + rewrite D9 by reflexivity. discriminate.
        + rewrite D8; [congruence | discriminate]. }
    apply G; [exact Hi | congruence].
Qed.

(* once the context is cancelled every Write fails and every Read returns *)
Lemma after_cancel c st evs :
  rc_new c = Some st ->
  let fin := fst (rrun st evs) in
  rs_cancel fin = true ->
  (forall e, rs_cancel (fst (rstep fin e)) = true) /\
  (forall bs, write_one fin bs = (fin, WErr)) /\
  (forall ws, snd (rstep fin (Batch ws)) = OBatch (map (fun _ => WErr) ws)) /\
  rs_pr fin <> PWait /\
  (forall take, rs_pr fin = PNone -> exists r, rs_pr (read_start fin take) = PDone r /\ r <> RBlocked).
Proof.
  intros H fin C. pose proof (reachable_inv c st evs H) as Hi. fold fin in Hi.
  split. { intros e. now apply (rstep_spec fin e Hi). }
  split. { intros bs. unfold write_one. now rewrite C. }
  split. { intros ws. cbn [rstep snd]. f_equal.
           destruct (write_batch_spec ws fin Hi) as (_ & _ & _ & _ & L & _ & B7 & _). cbn zeta in *.
           destruct (B7 C) as (_ & F). clear - L F. revert L F. generalize (snd (write_batch fin ws)).
           induction ws as [|w ws IH]; intros [|r rs]; cbn; try discriminate; auto.
           intros [= L] F. inversion F; subst. f_equal. now apply IH. }
  split. { intros P. destruct Hi as [_ _ Hp]. destruct (Hp P) as (X & _). congruence. }
  intros take P. apply (read_start_spec fin take Hi); [exact P | now rewrite C].
Qed.

(* when is the context cancelled: Close, or a failed Write / pong *)
Definition over_of (eo : rev * rout) : bool :=
  match eo with
  | (BatchClose _ _ _, _) | (CloseE _ _, _) => true
  | (_, OBatch rs) => existsb (fun x => match x with WErr => true | _ => false end) rs
  | (_, OPong false) => true
  | _ => false
  end.

(* ... or the read side giving up at this step (its redial round fails) *)
Definition rx_now (st : rstate) (e : rev) : bool :=
  match e with
  | ReadFail false _ => reading st && negb (snd (reconnect (rs_budget st) (rs_tid st) (rs_tailhs st) (rs_net st)))
  | _ => false
  end.
Definition over_of' (eo : rev * rout) : bool :=
  over_of eo || match eo with (ReadFail false _, OReadFail false) => true | _ => false end.

Lemma cancel_step st e :
  Inv st ->
  rs_cancel (fst (rstep st e)) = rs_cancel st || over_of (e, snd (rstep st e)) || rx_now st e.
Proof.
  intros Hi. destruct e as [ws|ws s ce|bs|normal cls|take| |s ce]; cbn [rstep rx_now]; rewrite ?orb_false_r.
  + destruct (write_batch_spec ws st Hi) as (_ & _ & _ & _ & _ & _ & _ & B8 & _). cbn zeta in *. cbn [fst snd over_of]. exact B8.
  + destruct (do_close_spec st s Hi) as (_ & _ & _ & _ & D5 & _). cbn zeta in *. cbn [fst snd over_of]. rewrite D5. now rewrite orb_true_r.
  + destruct (reading st) eqn:R; [|cbn; now rewrite orb_false_r].
    destruct (is_ping bs); cbn [fst snd over_of].
    * destruct (write_one_spec st pong Hi) as (_ & _ & _ & _ & A5 & A6 & A7 & _). cbn zeta in *.
      unfold reading in R. apply andb_true_iff in R as (R & _). apply negb_true_iff in R.
      rewrite (A7 R), R. destruct (snd (write_one st pong)); try reflexivity. now destruct A5.
    * destruct (push_read_spec st (Some bs) Hi R) as (_ & _ & _ & P4 & _). cbn zeta in *. rewrite P4. now rewrite ?orb_false_r.
  + destruct (reading st) eqn:R.
    * destruct normal; cbn [fst snd over_of andb].
      -- destruct (kill_reader_spec st Hi) as (_ & _ & _ & K4 & _). cbn zeta in *. rewrite K4. now rewrite ?orb_false_r.
      -- destruct (snd (reconnect _ _ _ _)); cbn [fst snd over_of negb]; sw; [now rewrite ?orb_false_r|].
         match goal with |- context [cancel_st ?x] =>
           destruct (cancel_st_props x) as (_ & K2 & _) end.
         sw. rewrite K2. now rewrite orb_true_r.
    * cbn [fst snd over_of]. destruct normal; cbn [andb]; now rewrite ?orb_false_r.
  + destruct (read_start_spec st take Hi) as (_ & _ & _ & S4 & _). cbn zeta in *. cbn [fst snd over_of]. rewrite S4. now rewrite ?orb_false_r.
  + destruct (rs_pr st); cbn [fst snd over_of]; sw; now rewrite ?orb_false_r.
  + destruct (do_close_spec st s Hi) as (_ & _ & _ & _ & D5 & _). cbn zeta in *. cbn [fst snd over_of]. rewrite D5. now rewrite orb_true_r.
Qed.

Lemma rx_now_out st e : rx_now st e = true -> over_of' (e, snd (rstep st e)) = true.
Proof.
  destruct e as [ws|ws s ce|bs|[|] cls|take| |s ce]; cbn [rx_now]; try discriminate.
  intros H. apply andb_true_iff in H as (R & S). apply negb_true_iff in S.
  cbn [rstep]. rewrite R, S. reflexivity.
Qed.

Lemma cancel_run evs : forall st,
  Inv st ->
  (rs_cancel st || existsb over_of (combine evs (snd (rrun st evs))) = true -> rs_cancel (fst (rrun st evs)) = true) /\
  (rs_cancel (fst (rrun st evs)) = true -> rs_cancel st || existsb over_of' (combine evs (snd (rrun st evs))) = true).
Proof.
  induction evs as [|e evs IH]; intros st Hi.
  - cbn. rewrite orb_false_r. auto.
  - rewrite rrun_cons. cbn [fst snd combine existsb].
    pose proof (rstep_spec st e Hi) as (A1 & _). destruct (IH _ A1) as (I1 & I2).
    pose proof (cancel_step st e Hi) as CS. split.
    + intros H. apply I1. rewrite CS.
      destruct (rs_cancel st); [reflexivity|]. destruct (over_of _); [reflexivity|]. cbn in H. cbn. now rewrite H, orb_true_r.
    + intros H. specialize (I2 H). rewrite CS in I2.
      destruct (rs_cancel st); [reflexivity|]. cbn [orb] in *.
      destruct (rx_now st e) eqn:X.
      * now rewrite (rx_now_out st e X).
      * rewrite orb_false_r in I2. unfold over_of' at 1.
        destruct (over_of (e, snd (rstep st e))); [reflexivity|]. cbn [orb] in *.
        rewrite I2. now rewrite orb_true_r.
Qed.

(* the read side: a failure the read loop does not survive ends it, and then no Read waits *)
Lemma after_rdead c st evs :
  rc_new c = Some st ->
  let fin := fst (rrun st evs) in
  rs_rdead fin = true ->
  (forall e, rs_rdead (fst (rstep fin e)) = true) /\ rs_pr fin <> PWait /\
  (forall take, rs_pr fin = PNone -> exists r, rs_pr (read_start fin take) = PDone r /\ r <> RBlocked).
Proof.
  intros H fin D. pose proof (reachable_inv c st evs H) as Hi. fold fin in Hi.
  split. { intros e. now apply (rstep_spec fin e Hi). }
  split. { intros P. destruct Hi as [_ _ Hp]. destruct (Hp P) as (_ & X & _). congruence. }
  intros take P. apply (read_start_spec fin take Hi); [exact P | rewrite D; apply orb_true_r].
Qed.

Lemma read_fail_ends_reader st normal cls :
  Inv st -> reading st = true ->
  snd (rstep st (ReadFail normal cls)) = OReadFail false -> rs_rdead (fst (rstep st (ReadFail normal cls))) = true.
Proof.
  intros Hi R. cbn [rstep]. rewrite R. destruct normal; cbn [fst snd].
  - intros _. now apply (kill_reader_spec st Hi).
  - destruct (snd (reconnect _ _ _ _)); cbn [fst snd]; [discriminate|]. intros _.
    match goal with |- context [cancel_st ?x] => destruct (cancel_st_props x) as (_ & _ & _ & _ & K5 & _) end.
    sw. rewrite K5. unfold kill_reader. destruct (rs_pr _); reflexivity.
Qed.

(* pings: never handed to Read, always answered while the read loop runs *)
Lemma reads_never_ping c st evs bs :
  rc_new c = Some st -> In (ORead (ROk bs)) (snd (rrun st evs)) -> is_ping bs = false.
Proof.
  intros H I. destruct (rc_new_spec c st H) as (Hi & F & _).
  destruct (rrun_spec evs st Hi) as (_ & _ & _ & _ & _ & _ & _ & G). destruct (G F) as (_ & O).
  rewrite Forall_forall in O. exact (O _ I).
Qed.

Lemma ping_answered st bs :
  reading st = true -> is_ping bs = true ->
  exists ok, snd (rstep st (Deliver bs)) = OPong ok /\
             rs_readq (fst (rstep st (Deliver bs))) = rs_readq st /\
             (ok = true <-> snd (write_one st pong) = WOk).
Proof.
  intros R P. cbn [rstep]. rewrite R, P. cbn [fst snd].
  exists (match snd (write_one st pong) with WOk => true | _ => false end). split; [reflexivity|]. split.
  - unfold write_one. destruct (rs_cancel st); [reflexivity|]. destruct (negb (rs_wloop st)); [reflexivity|].
    destruct (snd (wloop_one _ _ _ _ _ _)); cbn [fst]; sw; try reflexivity.
    unfold cancel_st. destruct (rs_pr _); reflexivity.
  - destruct (snd (write_one st pong)); split; congruence.
Qed.

(* ---------- the model satisfies the monitor ---------- *)

Definition Rel (st : rstate) (d : disc) : Prop :=
  d_cz d = rs_cancel st /\ d_q d = rs_readq st /\ d_pr d = rs_pr st /\ (d_rx d || d_rn d) = rs_rdead st /\
  (d_rx d = true -> d_cz d = true).

Lemma Rel_live st d : Rel st d -> d_live d = reading st.
Proof.
  intros (A & _ & _ & B & _). unfold d_live, reading. rewrite <- A, <- B.
  destruct (d_cz d), (d_rx d), (d_rn d); reflexivity.
Qed.

Lemma Rel_over st d st' :
  Rel st d -> rs_cancel st' = true -> rs_readq st' = rs_readq st -> rs_rdead st' = rs_rdead st ->
  (rs_pr st <> PWait -> rs_pr st' = rs_pr st) -> (rs_pr st = PWait -> rs_pr st' = PDone RErr) ->
  Rel st' (d_over d).
Proof.
  intros (A & B & C & D & E) H1 H2 H3 H4 H5.
  unfold Rel, d_over, d_wake; cbn [d_cz d_q d_pr d_rx d_rn]. rewrite H1, H2, H3.
  split; [reflexivity|]. split; [exact B|]. split; [|split; [exact D | reflexivity]].
  rewrite C. destruct (rs_pr st) eqn:P.
  - symmetry. apply H4. discriminate.
  - symmetry. now apply H5.
  - symmetry. apply H4. discriminate.
Qed.

Lemma write_one_sim st d bs :
  Inv st -> Rel st d ->
  match snd (write_one st bs) with
  | WOk => negb (d_cz d) && negb (d_rx d) = true /\ Rel (fst (write_one st bs)) d
  | WErr => Rel (fst (write_one st bs)) (d_over d)
  | WBlocked => False
  end.
Proof.
  intros Hi HR.
  destruct (write_one_spec st bs Hi) as (A1 & A2 & A3 & A4 & A5 & A6 & A7 & A8 & A9 & A10 & A11). cbn zeta in *.
  pose proof HR as (R1 & R2 & R3 & R4 & R5).
  destruct (snd (write_one st bs)) eqn:SW.
  - destruct (rs_cancel st) eqn:C. { destruct (A6 eq_refl) as (_ & X). discriminate. }
    assert (Rx : d_rx d = false).
    { destruct (d_rx d) eqn:X; [|reflexivity]. specialize (R5 eq_refl). congruence. }
    split. { rewrite R1, ?C, Rx. reflexivity. }
    unfold Rel. rewrite (A7 eq_refl), A8, A9. split; [congruence|]. split; [exact R2|]. split; [|split; [exact R4 | exact R5]].
    rewrite R3. destruct (rs_pr st) eqn:P.
    + symmetry. apply A10. discriminate.
    + symmetry. now apply A11.
    + symmetry. apply A10. discriminate.
  - apply (Rel_over st d); auto.
    destruct (rs_cancel st) eqn:C; [now destruct (A6 eq_refl) as (-> & _) | exact (A7 eq_refl)].
  - now apply A5.
Qed.

Lemma batch_sim ws : forall st d,
  Inv st -> Rel st d ->
  exists d', wres_all d (snd (write_batch st ws)) = Some d' /\ Rel (fst (write_batch st ws)) d'.
Proof.
  induction ws as [|w ws IH]; intros st d Hi HR; cbn [write_batch fst snd wres_all].
  - eauto.
  - pose proof (write_one_sim st d (snd w) Hi HR) as S.
    destruct (write_one_spec st (snd w) Hi) as (A1 & _).  cbn zeta in A1.
    destruct (snd (write_one st (snd w))) eqn:SW.
    + destruct S as (S1 & S2). rewrite S1. apply IH; auto.
    + apply IH; auto.
    + destruct S.
Qed.

Lemma rres_eqb_refl r : rres_eqb r r = true.
Proof. destruct r; cbn; auto. apply list_beq_N_eq. reflexivity. Qed.

Lemma step_sim st d e :
  Inv st -> Rel st d ->
  exists d', disc_step d (e, snd (rstep st e)) = Some d' /\ Rel (fst (rstep st e)) d'.
Proof.
  intros Hi HR. pose proof HR as (R1 & R2 & R3 & R4 & R5). pose proof (Rel_live st d HR) as RL.
  destruct e as [ws|ws s ce|bs|normal cls|take| |s ce]; cbn [rstep].
  - (* Batch *)
    destruct (write_batch_spec ws st Hi) as (_ & _ & _ & _ & B5 & _). cbn zeta in B5.
    destruct (batch_sim ws st d Hi HR) as (d' & E & R).
    exists d'. cbn [fst snd disc_step]. rewrite B5, Nat.eqb_refl. auto.
  - (* BatchClose *)
    destruct (do_close_spec st s Hi) as (_ & _ & _ & _ & D5 & D6 & D7 & D8 & D9). cbn zeta in *.
    pose proof (Rel_over st d (do_close st s) HR D5 D6 D7 D8 D9) as R.
    exists (d_over d). cbn [fst snd disc_step]. rewrite map_length, Nat.eqb_refl. cbn [andb].
    replace (forallb _ _) with true; [auto|].
    symmetry. clear. induction ws; cbn; auto.
  - (* Deliver *)
    rewrite <- RL. destruct (d_live d) eqn:L.
    + destruct (is_ping bs) eqn:PG; cbn [fst snd disc_step]; rewrite PG, L.
      * pose proof (write_one_sim st d pong Hi HR) as S. cbn [andb].
        destruct (snd (write_one st pong)).
        -- destruct S as (_ & S). eauto.
        -- exists (d_over d). auto.
        -- destruct S.
      * exists (d_push d (Some bs)). split; [reflexivity|].
        unfold Rel, push_read, d_push. rewrite R3. destruct (rs_pr st) eqn:P; sw; cbn [d_cz d_q d_pr d_rx d_rn]; repeat split; auto; try congruence; try (intros X5; try rewrite <- R1; auto; congruence).
    + cbn [fst snd disc_step]. rewrite L. exists d. destruct (is_ping bs); auto.
  - (* ReadFail *)
    rewrite <- RL. destruct (d_live d) eqn:L.
    + assert (Lx : d_rx d = false /\ d_rn d = false /\ d_cz d = false).
      { unfold d_live in L. destruct (d_cz d), (d_rx d), (d_rn d); try discriminate; auto. }
      destruct Lx as (Lx & Ln & Lc).
      destruct normal; cbn [fst snd disc_step]; rewrite ?L.
      * eexists. split; [reflexivity|].
        unfold Rel, kill_reader, d_wake. rewrite R3. destruct (rs_pr st) eqn:P; sw; cbn [d_cz d_q d_pr d_rx d_rn]; repeat split; auto; try congruence; try apply orb_true_r; try (intros X5; congruence).
      * destruct (snd (reconnect _ _ _ _)); cbn [fst snd disc_step]; rewrite ?L.
        -- exists d. split; [reflexivity | exact HR].
        -- eexists. split; [reflexivity|].
           unfold Rel, cancel_st, kill_reader, push_read, d_push. sw. rewrite R3.
           destruct (rs_pr st) eqn:P; sw; rewrite ?P; sw; rewrite ?P; sw; cbn [d_cz d_q d_pr d_rx d_rn orb]; repeat split; auto; try congruence; try (intros X5; try rewrite <- R1; auto; congruence).
    + cbn [fst snd disc_step]. rewrite L. exists d. auto.
  - (* ReadStart *)
    cbn [fst snd disc_step]. unfold read_start. rewrite R3. destruct (rs_pr st) eqn:P.
    + rewrite R2. destruct (rs_readq st) as [|x q] eqn:Q.
      * replace (d_cz d || d_rx d || d_rn d) with (rs_cancel st || rs_rdead st)
          by (rewrite <- R1, <- R4; now rewrite orb_assoc).
        eexists. split; [reflexivity|].
        unfold Rel. destruct (rs_cancel st || rs_rdead st); sw; cbn [d_cz d_q d_pr d_rx d_rn]; repeat split; auto; try congruence; try (intros X5; try rewrite <- R1; auto; congruence).
      * rewrite R1. destruct (rs_cancel st && negb take).
        -- eexists. split; [reflexivity|].
           unfold Rel; sw; cbn [d_cz d_q d_pr d_rx d_rn]. repeat split; auto; try congruence; try (intros X5; try rewrite <- R1; auto; congruence).
        -- eexists. split; [reflexivity|].
           unfold Rel; sw; cbn [d_cz d_q d_pr d_rx d_rn]. repeat split; auto; try congruence; try (intros X5; try rewrite <- R1; auto; congruence).
    + exists d. auto.
    + exists d. auto.
  - (* ReadJoin *)
    destruct (rs_pr st) eqn:P; cbn [fst snd disc_step]; rewrite R3.
    + exists d. auto.
    + exists d. auto.
    + rewrite rres_eqb_refl. eexists. split; [reflexivity|].
      unfold Rel; sw; cbn [d_cz d_q d_pr d_rx d_rn]. repeat split; auto; try congruence; try (intros X5; try rewrite <- R1; auto; congruence).
  - (* CloseE *)
    destruct (do_close_spec st s Hi) as (_ & _ & _ & _ & D5 & D6 & D7 & D8 & D9). cbn zeta in *.
    pose proof (Rel_over st d (do_close st s) HR D5 D6 D7 D8 D9) as R.
    exists (d_over d). cbn [fst snd disc_step]. auto.
Qed.

Lemma run_sim evs : forall st d,
  Inv st -> Rel st d -> disc_run d (combine evs (snd (rrun st evs))) = true.
Proof.
  induction evs as [|e evs IH]; intros st d Hi HR; [reflexivity|].
  rewrite rrun_cons. cbn [snd combine disc_run].
  destruct (step_sim st d e Hi HR) as (d' & E & R). rewrite E.
  apply IH; [now destruct (rstep_spec st e Hi) | exact R].
Qed.

Lemma filter_memb_self (l : list (list N)) : filter (fun b => memb_bs b l) l = l.
Proof.
  assert (G : forall l m, (forall x, In x l -> memb_bs x m = true) -> filter (fun b => memb_bs b m) l = l).
  { clear. induction l as [|x l IH]; intros m H; [reflexivity|]. cbn. rewrite H by (left; reflexivity).
    f_equal. apply IH. intros y Hy. apply H. now right. }
  apply G. intros x Hx. unfold memb_bs. apply existsb_exists. exists x. split; [exact Hx|].
  apply list_beq_N_eq. reflexivity.
Qed.

Lemma list_beq_bs_refl (l : list (list N)) : list_beq _ list_N_eqb l l = true.
Proof. apply list_beq_refl. intros x. apply list_beq_N_eq. reflexivity. Qed.

Lemma closed_over tr : closed_trace tr = true -> existsb over_of tr = true.
Proof.
  induction tr as [|[e o] tr IH]; cbn [closed_trace existsb fst]; [discriminate|].
  intros H. apply orb_true_iff in H as [H|H].
  - destruct e; try discriminate; reflexivity.
  - fold (closed_trace tr) in H. rewrite (IH H). apply orb_true_r.
Qed.

(* Close is final: after any history that contains a Close the context is cancelled, and
   nothing dials once the context is cancelled *)
Lemma closed_cancelled c st evs :
  rc_new c = Some st ->
  closed_trace (combine evs (snd (rrun st evs))) = true -> rs_cancel (fst (rrun st evs)) = true.
Proof.
  intros H CT. destruct (rc_new_spec c st H) as (Hi & _).
  apply (cancel_run evs st Hi). rewrite (closed_over _ CT). apply orb_true_r.
Qed.

Lemma no_dial_after_cancel st e :
  rs_cancel st = true -> n_dials (rs_net (fst (rstep st e))) = n_dials (rs_net st).
Proof.
  intros C. destruct e as [ws|ws s ce|bs|normal cls|take| |s ce]; cbn [rstep].
  - cbn [fst]. revert st C. induction ws as [|w ws IH]; intros st C; [reflexivity|].
    cbn [write_batch fst].
    assert (E : write_one st (snd w) = (st, WErr)) by (unfold write_one; now rewrite C).
    rewrite E. cbn [fst]. now apply IH.
  - cbn [fst]. unfold do_close, cancel_st. sw. destruct (rs_pr _); reflexivity.
  - unfold reading. rewrite C. reflexivity.
  - unfold reading. rewrite C. reflexivity.
  - cbn [fst]. unfold read_start. destruct (rs_pr st); [|reflexivity..].
    destruct (rs_readq st); [destruct (_ || _) | destruct (_ && _)]; reflexivity.
  - destruct (rs_pr st); reflexivity.
  - cbn [fst]. unfold do_close, cancel_st. sw. destruct (rs_pr _); reflexivity.
Qed.

(* cancellation does not depend on what the underlying close returned: the state after Close is
   the same for both outcomes, only the value handed back differs *)
Lemma close_outcome_irrelevant st s ce :
  fst (rstep st (CloseE s ce)) = do_close st s /\ snd (rstep st (CloseE s ce)) = OClose ce /\
  rs_cancel (fst (rstep st (CloseE s ce))) = true /\
  (forall ws, fst (rstep st (BatchClose ws s ce)) = do_close st s).
Proof.
  repeat split. cbn [rstep fst]. unfold do_close, cancel_st. sw. destruct (rs_pr _); reflexivity.
Qed.

Lemma model_satisfies_predicate c evs : rc_ok (model_case c evs) = true.
Proof.
  unfold model_case. destruct (rc_new c) as [st|] eqn:N; [|reflexivity].
  unfold rc_ok. cbn [rk_new rk_evs rk_outs rk_incs rk_dials rk_cfg rk_done rk_postclose negb].
  destruct (rc_new_spec c st N) as (Hi & _ & _ & _ & C0 & D0 & Q0 & P0 & _).
  rewrite rrun_length, Nat.eqb_refl. cbn [andb].
  apply andb_true_iff; split; [apply andb_true_iff; split; [apply andb_true_iff; split|]|].
  - unfold once_in_order. destruct (_ && _); [|reflexivity].
    assert (E : forall L, map (fun x : inc_o => fst (fst x)) (map inc_obs L) = map i_log L)
      by (intros L; rewrite map_map; apply map_ext; reflexivity).
    rewrite E, (once_in_order_run c st evs N).
    rewrite filter_memb_self. apply list_beq_bs_refl.
  - apply run_sim; [exact Hi|].
    unfold Rel, disc_init; cbn [d_cz d_q d_pr d_rx d_rn]. rewrite C0, D0, Q0, P0. repeat split; auto; discriminate.
  - apply (run_dials_ok c st evs N).
  - destruct (closed_trace _) eqn:CT; [|reflexivity].
    now rewrite (closed_cancelled c st evs N CT).
Qed.

(* F33 (fixed in the code, the model follows it): when the READ side exhausted its redial budget
   the context used not to be cancelled, so a later Write started a fresh round of attempts and
   could return nil.  The former witness, now a regression case: the Write fails. *)
Definition f33_cfg : rcfg := mkRC 1 1 [DOk true None; DFail; DOk true None] false.
Definition f33_evs : list rev := [ReadFail false 0; ReadStart false; ReadJoin; Batch [(1, [7])]].

Lemma f33_regression :
  rk_outs (model_case f33_cfg f33_evs) = [OReadFail false; OUnit; ORead RErr; OBatch [WErr]] /\
  rc_judge (model_case f33_cfg f33_evs) = 0.
Proof. vm_compute. auto. Qed.

(* the read side giving up cancels the context: every later Write fails *)
Lemma read_side_exhaustion_cancels st cls :
  Inv st -> reading st = true ->
  snd (rstep st (ReadFail false cls)) = OReadFail false ->
  rs_cancel (fst (rstep st (ReadFail false cls))) = true /\
  forall bs, snd (write_one (fst (rstep st (ReadFail false cls))) bs) = WErr.
Proof.
  intros Hi R. cbn [rstep]. rewrite R.
  destruct (snd (reconnect _ _ _ _)); cbn [fst snd]; [discriminate|]. intros _.
  match goal with |- rs_cancel (set_wloop (cancel_st ?x) false) = true /\ _ =>
    destruct (cancel_st_props x) as (_ & K2 & _) end.
  split; [sw; exact K2|]. intros bs. unfold write_one. sw. now rewrite K2.
Qed.

(* ---------- reads: nothing lost, nothing duplicated, order kept ---------- *)

(* the messages the read loop takes from the current connection: delivered while it runs, pings excepted *)
Definition taken (st : rstate) (e : rev) : list (list N) :=
  match e with
  | Deliver bs => if reading st && negb (is_ping bs) then [bs] else []
  | _ => []
  end.
Fixpoint arrivals (st : rstate) (evs : list rev) : list (list N) :=
  match evs with
  | [] => []
  | e :: evs' => taken st e ++ arrivals (fst (rstep st e)) evs'
  end.
Definition reads_of (outs : list rout) : list (list N) :=
  flat_map (fun o => match o with ORead (ROk bs) => [bs] | _ => [] end) outs.
Definition somes (q : list (option (list N))) : list (list N) :=
  flat_map (fun x => match x with Some b => [b] | None => [] end) q.
Definition pend_some (p : pread) : list (list N) := match p with PDone (ROk bs) => [bs] | _ => [] end.
Definition held (st : rstate) : list (list N) := pend_some (rs_pr st) ++ somes (rs_readq st).

Lemma somes_snoc q x : somes (q ++ [x]) = somes q ++ match x with Some b => [b] | None => [] end.
Proof. unfold somes. rewrite flat_map_app. cbn. now rewrite app_nil_r. Qed.

Lemma held_frozen st st' :
  rs_readq st' = rs_readq st ->
  (rs_pr st <> PWait -> rs_pr st' = rs_pr st) -> (rs_pr st = PWait -> pend_some (rs_pr st') = []) ->
  held st' = held st.
Proof.
  intros Q A B. unfold held. rewrite Q. f_equal. destruct (rs_pr st) eqn:P.
  - rewrite A; [reflexivity | discriminate].
  - now rewrite B.
  - rewrite A; [reflexivity | discriminate].
Qed.

Lemma push_read_held st x :
  Inv st -> held (push_read st x) = held st ++ match x with Some b => [b] | None => [] end.
Proof.
  intros [_ _ Hp]. unfold held, push_read. destruct (rs_pr st) eqn:P; sw; rewrite ?P.
  - now rewrite somes_snoc.
  - destruct (Hp eq_refl) as (_ & _ & ->). destruct x; reflexivity.
  - now rewrite somes_snoc, app_assoc.
Qed.

Lemma kill_reader_held st : held (kill_reader st) = held st.
Proof. unfold held, kill_reader. destruct (rs_pr st) eqn:P; sw; rewrite ?P; reflexivity. Qed.

Lemma step_reads st e :
  Inv st ->
  held st ++ taken st e = reads_of [snd (rstep st e)] ++ held (fst (rstep st e)).
Proof.
  intros Hi. destruct e as [ws|ws s ce|bs|normal cls|take| |s ce]; cbn [rstep taken].
  - destruct (write_batch_spec ws st Hi) as (_ & _ & _ & _ & _ & _ & _ & _ & B9 & _ & B11 & B12). cbn zeta in *.
    cbn [fst snd reads_of flat_map app]. rewrite app_nil_r. symmetry. apply held_frozen; auto.
    intros P. rewrite (B12 P). now destruct (rs_cancel _).
  - destruct (do_close_spec st s Hi) as (_ & _ & _ & _ & _ & D6 & _ & D8 & D9). cbn zeta in *.
    cbn [fst snd reads_of flat_map app]. rewrite app_nil_r. symmetry. apply held_frozen; auto.
    intros P. now rewrite (D9 P).
  - destruct (reading st) eqn:R; cbn [andb].
    + destruct (is_ping bs); cbn [negb fst snd reads_of flat_map app].
      * destruct (write_one_spec st pong Hi) as (_ & _ & _ & _ & _ & _ & _ & A8 & _ & A10 & A11). cbn zeta in *.
        rewrite app_nil_r. symmetry. apply held_frozen; auto.
        intros P. rewrite (A11 P). now destruct (snd _).
      * now rewrite push_read_held.
    + cbn [fst snd reads_of flat_map app]. now rewrite app_nil_r.
  - destruct (reading st) eqn:R; cbn [fst snd reads_of flat_map app]; [|now rewrite app_nil_r].
    destruct normal; cbn [fst snd reads_of flat_map app]; rewrite app_nil_r.
    + now rewrite kill_reader_held.
    + pose proof Hi as [Hn Hw Hp].
      pose proof (reconnect_spec (rs_budget st) (rs_tid st) (rs_tailhs st) (rs_net st) Hn) as (R1 & _). cbn zeta in R1.
      destruct (snd (reconnect _ _ _ _)); cbn [fst snd reads_of flat_map app]; [reflexivity|].
      set (st1 := set_net st (fst (reconnect (rs_budget st) (rs_tid st) (rs_tailhs st) (rs_net st)))).
      assert (I1 : Inv st1) by (constructor; unfold st1; sw; auto).
      assert (R' : reading st1 = true) by exact R.
      destruct (push_read_spec st1 None I1 R') as (P1 & _).
      destruct (kill_reader_spec _ P1) as (K1 & _).
      fold (over_st (kill_reader (push_read st1 None))).
      destruct (over_st_spec _ K1) as (_ & _ & _ & _ & O5 & _ & O7 & O8 & _).
      rewrite (held_frozen _ _ O5 O7) by (intros P; now rewrite (O8 P)).
      rewrite kill_reader_held, push_read_held by exact I1.
      now rewrite app_nil_r.
  - cbn [fst snd reads_of flat_map app]. rewrite app_nil_r. unfold held, read_start.
    destruct (rs_pr st) eqn:P; [|now rewrite P..].
    destruct (rs_readq st) as [|x q] eqn:Q.
    + destruct (_ || _); sw; rewrite ?Q; reflexivity.
    + destruct (_ && _); sw; rewrite ?Q; [reflexivity|]. destruct x; reflexivity.
  - unfold held. destruct (rs_pr st) eqn:P; cbn [fst snd reads_of flat_map app]; sw; rewrite ?P, ?app_nil_r; try reflexivity;
    try (destruct r; reflexivity).
  - destruct (do_close_spec st s Hi) as (_ & _ & _ & _ & _ & D6 & _ & D8 & D9). cbn zeta in *.
    cbn [fst snd reads_of flat_map app]. rewrite app_nil_r. symmetry. apply held_frozen; auto.
    intros P. now rewrite (D9 P).
Qed.

Lemma run_reads evs : forall st,
  Inv st ->
  held st ++ arrivals st evs = reads_of (snd (rrun st evs)) ++ held (fst (rrun st evs)).
Proof.
  induction evs as [|e evs IH]; intros st Hi.
  - cbn. now rewrite app_nil_r.
  - rewrite rrun_cons. cbn [fst snd arrivals].
    assert (RC : forall x l, reads_of (x :: l) = reads_of [x] ++ reads_of l)
      by (intros; unfold reads_of; cbn [flat_map]; now rewrite app_nil_r).
    rewrite RC, app_assoc, (step_reads st e Hi), <- !app_assoc. f_equal.
    apply IH. now destruct (rstep_spec st e Hi).
Qed.

Lemma reads_fifo c st evs :
  rc_new c = Some st ->
  arrivals st evs = reads_of (snd (rrun st evs)) ++ held (fst (rrun st evs)).
Proof.
  intros H. destruct (rc_new_spec c st H) as (Hi & _ & _ & _ & _ & _ & Q0 & P0 & _).
  rewrite <- (run_reads evs st Hi). unfold held. now rewrite Q0, P0.
Qed.

(* The read loop classifies a read error only as "the peer's NORMAL close" or not: the close
   status an error carries otherwise (going away, abnormal, internal error, none) changes nothing,
   and - the budget permitting - every such failure is answered by a redial, never by ending
   the reader. *)
Lemma read_fail_status_irrelevant st cls cls' :
  rstep st (ReadFail false cls) = rstep st (ReadFail false cls').
Proof. reflexivity. Qed.

Lemma non_normal_read_failure_redials st cls :
  Inv st -> reading st = true ->
  snd (reconnect (rs_budget st) (rs_tid st) (rs_tailhs st) (rs_net st)) = true ->
  let r := rstep st (ReadFail false cls) in
  snd r = OReadFail true /\ reading (fst r) = true /\
  rs_net (fst r) = fst (reconnect (rs_budget st) (rs_tid st) (rs_tailhs st) (rs_net st)) /\
  rs_readq (fst r) = rs_readq st /\ rs_pr (fst r) = rs_pr st.
Proof. intros Hi R S. cbn zeta. cbn [rstep]. rewrite R, S. cbn [fst snd]. repeat split. exact R. Qed.

(* the reader ends only by a cancellation (Close, exhausted budget), the peer's normal close, or
   a failed redial round *)
Lemma reader_ends_only st normal cls :
  Inv st -> reading st = true -> reading (fst (rstep st (ReadFail normal cls))) = false ->
  normal = true \/ snd (reconnect (rs_budget st) (rs_tid st) (rs_tailhs st) (rs_net st)) = false.
Proof.
  intros Hi R. destruct normal; [now left|]. right.
  destruct (snd (reconnect _ _ _ _)) eqn:S; [|reflexivity].
  destruct (non_normal_read_failure_redials st cls Hi R S) as (_ & X & _). cbn zeta in X. congruence.
Qed.

(* Lemmas about Model/Route.v: every operation reads and writes only the table entries of the alias
   it is addressed to; a message addressed to alias x goes to the channel registered under x in the
   table of its kind and to nobody else; close removes only the closing stream's entries. *)
From Coq Require Import List NArith Bool Lia.
From Iscp Require Import Lib.ListMap Model.Route.
Import ListNotations.
Open Scope N_scope.

(* the entries under alias x in the alias-keyed tables *)
Definition at_alias (x : N) (s : rt) :=
  (lookup x (t_acks s), lookup x (t_writers s), lookup x (t_dps s), lookup x (t_dpsU s), lookup x (t_ackc s), lookup x (t_meta s)).

Ltac lk := repeat (rewrite lookup_insert_other by congruence); repeat (rewrite lookup_remove_other by congruence).

(* frame: an operation addressed to alias a leaves the entries of every other alias alone *)
Lemma route_frame s o a x : op_alias s o = Some a -> x <> a -> at_alias x (fst (rstep s o)) = at_alias x s.
Proof.
  intros Ha Hx. unfold at_alias.
  destruct o as [sid al unrel hasU|rsid ral|al|sid|al|al unrel hasU|al|al node|sid al|sid|k al|al node]; cbn [op_alias] in Ha;
    try (injection Ha as ->); cbn [rstep].
  - cbn. now lk.
  - discriminate Ha.
  - reflexivity.
  - rewrite Ha. cbn. now lk.
  - reflexivity.
  - destruct (unrel && hasU); [destruct (lookup a (t_dpsU s)) | destruct (lookup a (t_dps s))]; cbn; now lk.
  - destruct (lookup a (t_ackc s)); cbn; now lk.
  - cbn. now lk.
  - reflexivity.
  - rewrite Ha. cbn. now lk.
  - reflexivity.
  - reflexivity.
Qed.

(* stream-id tables: an operation naming another stream leaves this stream's alias alone *)
Lemma route_frame_ids s o sid' :
  (forall sid a u h, o = OpenUp sid a u h -> sid <> sid') -> (forall sid, o = CloseUp sid -> sid <> sid') ->
  (forall sid a, o = DnAlias sid a -> sid <> sid') -> (forall sid, o = CloseDn sid -> sid <> sid') ->
  lookup sid' (t_upalias (fst (rstep s o))) = lookup sid' (t_upalias s) /\
  lookup sid' (t_dnalias (fst (rstep s o))) = lookup sid' (t_dnalias s).
Proof.
  intros H1 H2 H3 H4.
  destruct o as [sid al unrel hasU|rsid ral|al|sid|al|al unrel hasU|al|al node|sid al|sid|k al|al node]; cbn [rstep].
  - specialize (H1 _ _ _ _ eq_refl). cbn. split; [now lk | reflexivity].
  - now split.
  - now split.
  - specialize (H2 _ eq_refl). destruct (lookup sid (t_upalias s)); cbn; split; try reflexivity. now lk.
  - now split.
  - destruct (unrel && hasU); [destruct (lookup al (t_dpsU s)) | destruct (lookup al (t_dps s))]; now split.
  - destruct (lookup al (t_ackc s)); now split.
  - now split.
  - specialize (H3 _ _ eq_refl). cbn. split; [reflexivity | now lk].
  - specialize (H4 _ eq_refl). destruct (lookup sid (t_dnalias s)); cbn; split; try reflexivity. now lk.
  - now split.
  - now split.
Qed.

(* dispatch: a message of kind k addressed to x is delivered to the channel registered under x in
   the table of kind k - and to no other channel *)
Lemma route_deliver s k x ch : snd (rstep s (Recv k x)) = Deliver ch -> lookup x (tbl k s) = Some ch.
Proof. cbn [rstep snd]. destruct (lookup x (tbl k s)); congruence. Qed.

Lemma route_deliver_meta s x node ch : snd (rstep s (RecvMeta x node)) = Deliver ch ->
  exists m, lookup x (t_meta s) = Some m /\ lookup node m = Some ch.
Proof.
  cbn [rstep snd]. destruct (lookup x (t_meta s)) as [m|]; [|discriminate]. destruct (lookup node m) eqn:E; [|discriminate].
  intros [= ->]. eauto.
Qed.

(* dispatching never changes a table *)
Lemma route_recv_tables s k x : fst (rstep s (Recv k x)) = s.
Proof. reflexivity. Qed.
Lemma route_recvmeta_tables s x node : fst (rstep s (RecvMeta x node)) = s.
Proof. reflexivity. Qed.

(* channel identities are fresh: every channel in an alias-keyed table is below the counter, so a
   newly created channel is registered nowhere else *)
Definition below (n : N) (m : lmap N) : Prop := forall k v, lookup k m = Some v -> v < n.
Definition fresh_inv (s : rt) : Prop :=
  below (t_next s) (t_acks s) /\ below (t_next s) (t_dps s) /\ below (t_next s) (t_dpsU s) /\ below (t_next s) (t_ackc s).

Lemma below_insert n k v m : v < n -> below n m -> below n (insert k v m).
Proof.
  intros Hv Hb k' v' H. destruct (N.eq_dec k' k) as [->|Hne].
  - rewrite lookup_insert_same in H. now injection H as <-.
  - rewrite lookup_insert_other in H by exact Hne. eauto.
Qed.
Lemma below_remove n k m : below n m -> below n (remove k m).
Proof.
  intros Hb k' v' H. destruct (N.eq_dec k' k) as [->|Hne].
  - now rewrite lookup_remove_same in H.
  - rewrite lookup_remove_other in H by exact Hne. eauto.
Qed.
Lemma below_mono n n' m : n <= n' -> below n m -> below n' m.
Proof. intros Hn Hb k v H. specialize (Hb k v H). lia. Qed.

Lemma fresh_step s o : fresh_inv s -> fresh_inv (fst (rstep s o)) /\ t_next s <= t_next (fst (rstep s o)).
Proof.
  intros (A & B & C & D).
  assert (A1 : below (t_next s + 1) (t_acks s)) by (apply (below_mono (t_next s)); [lia | exact A]).
  assert (B1 : below (t_next s + 1) (t_dps s)) by (apply (below_mono (t_next s)); [lia | exact B]).
  assert (C1 : below (t_next s + 1) (t_dpsU s)) by (apply (below_mono (t_next s)); [lia | exact C]).
  assert (D1 : below (t_next s + 1) (t_ackc s)) by (apply (below_mono (t_next s)); [lia | exact D]).
  assert (Hn : t_next s < t_next s + 1) by lia.
  assert (Same : fresh_inv s /\ t_next s <= t_next s) by (split; [now repeat split | lia]).
  destruct o as [sid al unrel hasU|rsid ral|al|sid|al|al unrel hasU|al|al node|sid al|sid|k al|al node]; cbn [rstep].
  - cbn. split; [repeat split; auto; now apply below_insert | lia].
  - exact Same.
  - exact Same.
  - destruct (lookup sid (t_upalias s)); [|exact Same]. cbn. split; [repeat split; auto; now apply below_remove | lia].
  - exact Same.
  - destruct (unrel && hasU); [destruct (lookup al (t_dpsU s)) | destruct (lookup al (t_dps s))]; try exact Same;
      cbn; (split; [repeat split; auto; now apply below_insert | lia]).
  - destruct (lookup al (t_ackc s)); [exact Same|].
    cbn. split; [repeat split; auto; now apply below_insert | lia].
  - cbn. split; [repeat split; auto | lia].
  - exact Same.
  - destruct (lookup sid (t_dnalias s)); [|exact Same].
    cbn. split; [repeat split; auto; now apply below_remove | lia].
  - exact Same.
  - exact Same.
Qed.

Lemma fresh_run ops : forall s, fresh_inv s -> fresh_inv (fst (rrun_rt s ops)).
Proof.
  induction ops as [|o ops IH]; intros s H; [exact H|]. cbn [rrun_rt fst]. apply IH. now apply fresh_step.
Qed.

Lemma fresh_init : fresh_inv rt_init.
Proof. repeat split; intros k v H; discriminate H. Qed.

(* a channel created by an operation is not registered under any alias of any table before it *)
Lemma created_is_new s o ch : fresh_inv s -> snd (rstep s o) = Created ch ->
  forall k x, lookup x (tbl k s) <> Some ch.
Proof.
  intros (A & B & C & D) Hc.
  assert (Hch : ch = t_next s).
  { destruct o as [sid al unrel hasU|rsid ral|al|sid|al|al unrel hasU|al|al node|sid al|sid|k al|al node]; cbn [rstep snd] in Hc.
    - now injection Hc.
    - discriminate.
    - destruct (lookup al (t_acks s)); discriminate.
    - destruct (lookup sid (t_upalias s)); discriminate.
    - destruct (lookup al (t_writers s)); discriminate.
    - destruct (unrel && hasU); [destruct (lookup al (t_dpsU s)) | destruct (lookup al (t_dps s))]; try discriminate; now injection Hc.
    - destruct (lookup al (t_ackc s)); [discriminate|]. now injection Hc.
    - now injection Hc.
    - discriminate.
    - destruct (lookup sid (t_dnalias s)); discriminate.
    - destruct (lookup al (tbl k s)); discriminate.
    - destruct (lookup al (t_meta s)) as [m|]; [|discriminate]. destruct (lookup node m); discriminate. }
  subst ch. intros k x H. destruct k; cbn [tbl] in H; [apply A in H | apply B in H | apply C in H | apply D in H]; lia.
Qed.

(* operations that name no registered alias change nothing at all: the close of a stream id that has
   no alias entry on this connection (its resume still unanswered, or refused), and a refused open
   or resume *)
Lemma route_unregistered_noop s o :
  (exists sid, o = CloseUp sid /\ lookup sid (t_upalias s) = None) \/
  (exists sid, o = CloseDn sid /\ lookup sid (t_dnalias s) = None) \/
  (exists sid a, o = OpenUpRefused sid a) ->
  fst (rstep s o) = s.
Proof.
  intros [(sid & -> & H) | [(sid & -> & H) | (sid & a & ->)]]; cbn [rstep]; try rewrite H; reflexivity.
Qed.

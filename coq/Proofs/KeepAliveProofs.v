(* Lemmas about Model/KeepAlive.v (C15). *)
From Coq Require Import List NArith ZArith Bool Lia ZifyN ZifyNat ZifyBool.
From Iscp Require Import Lib.ListMap Model.KeepAlive.
Import ListNotations.
Open Scope N_scope.
Ltac Zify.zify_post_hook ::= Z.div_mod_to_equations.

#[local] Arguments N.add : simpl never.
#[local] Arguments N.sub : simpl never.
#[local] Arguments N.mul : simpl never.
#[local] Arguments N.modulo : simpl never.
#[local] Arguments N.div : simpl never.
#[local] Arguments N.eqb : simpl never.
#[local] Arguments N.leb : simpl never.
#[local] Arguments N.ltb : simpl never.

(* ------------------------------------------------------------------------------------------ *)
(* runs                                                                                        *)

Lemma krun_cons I TO s e r :
  krun I TO s (e :: r) =
  (fst (krun I TO (fst (kstep I TO s e)) r),
   snd (kstep I TO s e) ++ snd (krun I TO (fst (kstep I TO s e)) r)).
Proof. reflexivity. Qed.

Lemma krun_app I TO : forall a b s,
  krun I TO s (a ++ b) =
  (fst (krun I TO (fst (krun I TO s a)) b),
   snd (krun I TO s a) ++ snd (krun I TO (fst (krun I TO s a)) b)).
Proof.
  induction a as [|e a IH]; intros b s.
  - cbn [app krun fst snd]. now destruct (krun I TO s b).
  - rewrite <- app_comm_cons, !krun_cons. cbn [fst snd]. rewrite IH. cbn [fst snd].
    now rewrite app_assoc.
Qed.

Lemma count_ms_app a b : count_ms (a ++ b) = count_ms a + count_ms b.
Proof. induction a as [|[] a IH]; cbn [app count_ms]; lia. Qed.

Ltac blia :=
  repeat match goal with H : _ /\ _ |- _ => destruct H end;
  repeat split; try assumption; try reflexivity; try congruence; try lia.

(* ------------------------------------------------------------------------------------------ *)
(* the timing invariant                                                                        *)

Definition kwf (I TO : N) (s : kst) : Prop :=
  match k_ctl s with
  | KWaitReply _ dl =>
      k_now s < dl /\ dl <= k_now s + TO /\ k_closed s = false /\
      k_now s < k_tick_next s /\ k_tick_next s <= k_now s + I
  | KWaitTick =>
      k_tick_buf s = false /\ k_closed s = false /\
      k_now s < k_tick_next s /\ k_tick_next s <= k_now s + I
  | KDone => k_closed s = true
  | _ => True
  end.

Lemma kwf_init I TO : kwf I TO kinit.
Proof. exact Logic.I. Qed.

Lemma kwf_send_ping I TO s :
  k_now s < k_tick_next s -> k_tick_next s <= k_now s + I ->
  kwf I TO (fst (send_ping TO s)).
Proof.
  intros H1 H2. unfold send_ping.
  destruct (k_closed s); [reflexivity|].
  destruct (k_link s); cbn [negb]; [|reflexivity].
  destruct (TO =? 0) eqn:E; [reflexivity|].
  unfold kwf; cbn [fst k_ctl k_now k_closed k_tick_next]. blia.
Qed.

Lemma kwf_step I TO s e : 0 < I -> kwf I TO s -> kwf I TO (fst (kstep I TO s e)).
Proof.
  intros HI Hwf. destruct s as [now ctl tn tb nid reps cl lk].
  destruct e; cbn [kstep k_ctl k_now k_closed k_link k_tick_next k_tick_buf k_nextid k_replies].
  - (* EStart *)
    destruct ctl; try exact Hwf.
    destruct (I =? 0) eqn:E; [exact Logic.I|].
    apply kwf_send_ping; cbn [k_now k_tick_next]; blia.
  - (* EMs *)
    destruct ctl as [|id dl| | |]; cbn [running]; try exact Hwf; unfold kwf in Hwf; cbn [k_ctl k_now k_closed k_tick_next k_tick_buf] in Hwf.
    + destruct (dl <=? now + 1) eqn:E; cbn [fst]; unfold kwf; cbn [k_ctl k_now k_closed k_tick_next].
      * reflexivity.
      * destruct (now + 1 =? tn) eqn:F; blia.
    + destruct Hwf as (Hb & Hc & H1 & H2). subst tb. cbn [orb].
      destruct (now + 1 =? tn) eqn:F.
      * apply kwf_send_ping; cbn [k_now k_tick_next]; blia.
      * cbn [fst]. unfold kwf; cbn [k_ctl k_now k_closed k_tick_next k_tick_buf]. blia.
  - (* EPong *)
    unfold on_response; cbn [k_closed k_replies k_ctl k_now k_tick_next k_tick_buf k_nextid k_link].
    destruct cl; [exact Hwf|].
    destruct (lookup id reps) as [[]|]; try exact Hwf.
    destruct ctl as [|id' dl| | |]; try exact Hwf.
    destruct (id' =? id); [|exact Hwf].
    unfold kwf in Hwf; cbn [k_ctl k_now k_closed k_tick_next k_tick_buf] in Hwf. unfold after_reply; cbn [k_tick_buf].
    destruct tb.
    + apply kwf_send_ping; cbn [k_now k_tick_next]; blia.
    + cbn [fst set_ctl]. unfold kwf; cbn [k_ctl k_now k_closed k_tick_next k_tick_buf]. blia.
  - (* EResp *)
    unfold on_response; cbn [k_closed k_replies k_ctl k_now k_tick_next k_tick_buf k_nextid k_link].
    destruct cl; [exact Hwf|].
    destruct (lookup id reps) as [[]|]; try exact Hwf.
    destruct ctl as [|id' dl| | |]; try exact Hwf.
    destruct (id' =? id); [reflexivity|exact Hwf].
  - destruct cl; [exact Hwf|]. destruct lk; exact Hwf.
  - exact Hwf.
  - exact Hwf.
  - exact Hwf.
  - (* EAppClose *)
    destruct ctl; cbn [running fst]; unfold kwf; cbn [k_ctl k_closed]; try reflexivity; exact Logic.I.
  - exact Hwf.
Qed.

Lemma kwf_run I TO : forall evs s, 0 < I -> kwf I TO s -> kwf I TO (fst (krun I TO s evs)).
Proof.
  induction evs as [|e r IH]; intros s HI Hwf; [exact Hwf|].
  rewrite krun_cons; cbn [fst]. apply IH; [exact HI|]. now apply kwf_step.
Qed.

(* ------------------------------------------------------------------------------------------ *)
(* closed is absorbing; what closes                                                            *)

Lemma send_ping_closed TO s : k_closed s = true -> k_closed (fst (send_ping TO s)) = true.
Proof. intros H. unfold send_ping. now rewrite H. Qed.

Lemma closed_mono_step I TO s e : k_closed s = true -> k_closed (fst (kstep I TO s e)) = true.
Proof.
  intros H. destruct s as [now ctl tn tb nid reps cl lk]. cbn in H. subst cl.
  destruct e; cbn [kstep k_ctl k_closed]; try reflexivity.
  - destruct ctl; try reflexivity. destruct (I =? 0); [reflexivity|]. now apply send_ping_closed.
  - destruct ctl as [|id dl| | |]; cbn [running]; try reflexivity.
    + destruct (dl <=? _); reflexivity.
    + destruct (_ || _); [now apply send_ping_closed|reflexivity].
Qed.

Lemma closed_mono_run I TO : forall evs s, k_closed s = true -> k_closed (fst (krun I TO s evs)) = true.
Proof.
  induction evs as [|e r IH]; intros s H; [exact H|].
  rewrite krun_cons; cbn [fst]. apply IH. now apply closed_mono_step.
Qed.

Lemma link_mono_step I TO s e : k_link s = false -> k_link (fst (kstep I TO s e)) = false.
Proof.
  intros H. destruct s as [now ctl tn tb nid reps cl lk]. cbn in H. subst lk.
  destruct e; cbn [kstep k_ctl k_closed k_link k_replies k_tick_buf]; try reflexivity.
  - destruct ctl; try reflexivity. destruct (I =? 0); [reflexivity|].
    unfold send_ping; cbn [k_closed k_link]. destruct cl; reflexivity.
  - destruct ctl as [|id dl| | |]; cbn [running]; try reflexivity.
    + destruct (dl <=? _); reflexivity.
    + destruct (_ || _); [|reflexivity]. unfold send_ping; cbn [k_closed k_link]. destruct cl; reflexivity.
  - unfold on_response; cbn [k_closed k_replies k_ctl]. destruct cl; [reflexivity|].
    destruct (lookup id reps) as [[]|]; try reflexivity.
    destruct ctl as [|id' dl| | |]; try reflexivity. destruct (id' =? id); [|reflexivity].
    unfold after_reply; cbn [k_tick_buf]. destruct tb; [|reflexivity].
    unfold send_ping; cbn [k_closed k_link]. reflexivity.
  - unfold on_response; cbn [k_closed k_replies k_ctl]. destruct cl; [reflexivity|].
    destruct (lookup id reps) as [[]|]; try reflexivity.
    destruct ctl as [|id' dl| | |]; try reflexivity. destruct (id' =? id); reflexivity.
  - destruct cl; [reflexivity|]. reflexivity.
Qed.

Lemma link_mono_run I TO : forall evs s, k_link s = false -> k_link (fst (krun I TO s evs)) = false.
Proof.
  induction evs as [|e r IH]; intros s H; [exact H|].
  rewrite krun_cons; cbn [fst]. apply IH. now apply link_mono_step.
Qed.

Lemma send_ping_cause TO s :
  k_closed s = false -> k_closed (fst (send_ping TO s)) = true -> In OClose (snd (send_ping TO s)).
Proof.
  intros H. unfold send_ping. rewrite H.
  destruct (k_link s); cbn [negb]; [|intros _; now left].
  destruct (TO =? 0); cbn [fst snd k_closed]; [intros _; right; now left|discriminate].
Qed.

(* the connection context is cancelled only by the owner's Close or by the loop giving up *)
Lemma closed_cause_step I TO s e :
  k_closed s = false -> k_closed (fst (kstep I TO s e)) = true ->
  e = EAppClose \/ In OClose (snd (kstep I TO s e)).
Proof.
  intros H. destruct s as [now ctl tn tb nid reps cl lk]. cbn in H. subst cl.
  destruct e; cbn [kstep k_ctl k_closed k_link k_replies k_tick_buf]; try (cbn; discriminate).
  - destruct ctl; try (cbn; discriminate). destruct (I =? 0); [cbn; discriminate|].
    intros Hc; right. apply send_ping_cause; [reflexivity|exact Hc].
  - destruct ctl as [|id dl| | |]; cbn [running]; try (cbn; discriminate).
    + destruct (dl <=? _); cbn; [intros _; right; now left|discriminate].
    + destruct (_ || _); [|cbn; discriminate].
      intros Hc; right. apply send_ping_cause; [reflexivity|exact Hc].
  - unfold on_response; cbn [k_closed k_replies k_ctl].
    destruct (lookup id reps) as [[]|]; try (cbn; discriminate).
    destruct ctl as [|id' dl| | |]; try (cbn; discriminate).
    destruct (id' =? id); [|cbn; discriminate].
    unfold after_reply; cbn [k_tick_buf]. destruct tb; [|cbn; discriminate].
    intros Hc; right. apply send_ping_cause; [reflexivity|exact Hc].
  - unfold on_response; cbn [k_closed k_replies k_ctl].
    destruct (lookup id reps) as [[]|]; try (cbn; discriminate).
    destruct ctl as [|id' dl| | |]; try (cbn; discriminate).
    destruct (id' =? id); cbn; [intros _; right; now left|discriminate].
  - destruct lk; cbn; discriminate.
  - intros _; now left.
Qed.

Lemma closed_cause_run I TO : forall evs s,
  k_closed s = false -> k_closed (fst (krun I TO s evs)) = true ->
  In EAppClose evs \/ In OClose (snd (krun I TO s evs)).
Proof.
  induction evs as [|e r IH]; intros s H Hc; [cbn in Hc; congruence|].
  rewrite krun_cons in Hc |- *; cbn [fst snd] in Hc |- *.
  destruct (k_closed (fst (kstep I TO s e))) eqn:E.
  - destruct (closed_cause_step I TO s e H E) as [->|Hin]; [left; now left|].
    right. apply in_or_app. now left.
  - destruct (IH _ E Hc) as [Hin|Hin]; [left; now right|right; apply in_or_app; now right].
Qed.

(* ------------------------------------------------------------------------------------------ *)
(* detection                                                                                   *)

(* time to certain closure when no response is delivered any more *)
Definition ttl (TO : N) (s : kst) : N :=
  match k_ctl s with
  | KWaitReply _ dl => dl - k_now s
  | KWaitTick => (k_tick_next s - k_now s) + TO
  | _ => 0
  end.

Definition alive_ctl (c : kctl) : Prop := c <> KNotStarted /\ c <> KPanicked.

Lemma ttl_bound I TO s : kwf I TO s -> ttl TO s <= I + TO.
Proof.
  unfold kwf, ttl. destruct (k_ctl s); intros H; blia.
Qed.

Lemma send_ping_ttl TO s :
  alive_ctl (k_ctl (fst (send_ping TO s))) /\ ttl TO (fst (send_ping TO s)) <= TO.
Proof.
  unfold send_ping, alive_ctl.
  destruct (k_closed s); [cbn; split; [split; discriminate|blia]|].
  destruct (k_link s); cbn [negb]; [|cbn; split; [split; discriminate|blia]].
  destruct (TO =? 0); [cbn; split; [split; discriminate|blia]|].
  unfold ttl; cbn [fst k_ctl k_now]. split; [split; discriminate|blia].
Qed.

Lemma silent_step I TO s e :
  0 < I -> kwf I TO s -> is_response e = false -> alive_ctl (k_ctl s) ->
  alive_ctl (k_ctl (fst (kstep I TO s e))) /\
  ttl TO (fst (kstep I TO s e)) <= ttl TO s - (match e with EMs => 1 | _ => 0 end).
Proof.
  intros HI Hwf Hs [Hn Hp]. destruct s as [now ctl tn tb nid reps cl lk].
  cbn [k_ctl] in Hn, Hp.
  destruct e; try discriminate Hs;
    cbn [kstep k_ctl k_now k_closed k_link k_tick_next k_tick_buf k_nextid k_replies fst].
  - destruct ctl; try congruence; cbn [fst]; (split; [split; assumption|blia]).
  - destruct ctl as [|id dl| | |]; try congruence; cbn [running]; unfold kwf in Hwf; cbn [k_ctl k_now k_closed k_tick_next k_tick_buf] in Hwf.
    + destruct (dl <=? now + 1) eqn:E; cbn [fst]; unfold ttl, alive_ctl; cbn [k_ctl k_now k_tick_next].
      * split; [split; discriminate|blia].
      * split; [split; discriminate|blia].
    + destruct Hwf as (Hb & Hc & H1 & H2). subst tb. cbn [orb].
      destruct (now + 1 =? tn) eqn:F.
      * destruct (send_ping_ttl TO (mkK (now + 1) KWaitTick (tn + I) false nid reps cl lk)) as [Ha Ht].
        split; [exact Ha|]. unfold ttl at 2; cbn [k_ctl k_now k_tick_next]. blia.
      * cbn [fst]. unfold ttl, alive_ctl; cbn [k_ctl k_now k_tick_next].
        split; [split; discriminate|blia].
    + cbn [fst]. unfold ttl, alive_ctl; cbn [k_ctl]. split; [split; discriminate|blia].
  - destruct cl; [|destruct lk]; cbn [fst k_ctl]; (split; [split; assumption|]); unfold ttl; cbn [k_ctl k_now k_tick_next]; blia.
  - cbn [fst]. split; [split; assumption|]. unfold ttl; cbn [k_ctl k_now k_tick_next]; blia.
  - cbn [fst]. split; [split; assumption|]. unfold ttl; cbn [k_ctl k_now k_tick_next]; blia.
  - cbn [fst]. split; [split; assumption|]. unfold ttl; cbn [k_ctl k_now k_tick_next]; blia.
  - cbn [fst]. destruct ctl; try congruence; cbn [running]; unfold ttl, alive_ctl; cbn [k_ctl];
      (split; [split; discriminate|blia]).
  - cbn [fst]. split; [split; assumption|]. unfold ttl; cbn [k_ctl k_now k_tick_next]; blia.
Qed.

Definition silent (evs : list kev) : Prop := forall e, In e evs -> is_response e = false.

Lemma detect_run I TO : forall post s,
  0 < I -> kwf I TO s -> alive_ctl (k_ctl s) -> silent post ->
  ttl TO s <= count_ms post ->
  k_closed (fst (krun I TO s post)) = true.
Proof.
  induction post as [|e r IH]; intros s HI Hwf Ha Hs Ht.
  - cbn [krun fst count_ms] in *. destruct Ha as [Hn Hp].
    unfold kwf in Hwf; unfold ttl in Ht. destruct (k_ctl s); try congruence; try lia.
  - rewrite krun_cons; cbn [fst].
    assert (He : is_response e = false) by (apply Hs; now left).
    destruct (silent_step I TO s e HI Hwf He Ha) as [Ha' Ht'].
    apply IH; [exact HI|now apply kwf_step|exact Ha'|intros x Hx; apply Hs; now right|].
    destruct e; cbn [count_ms] in Ht; lia.
Qed.

Lemma detection I TO pre post :
  0 < I ->
  alive_ctl (k_ctl (fst (krun I TO kinit pre))) ->
  silent post ->
  I + TO <= count_ms post ->
  k_closed (fst (krun I TO kinit (pre ++ post))) = true /\
  (k_closed (fst (krun I TO kinit pre)) = true \/ In EAppClose post \/
   In OClose (snd (krun I TO (fst (krun I TO kinit pre)) post))).
Proof.
  intros HI Ha Hs Hc. rewrite krun_app; cbn [fst].
  assert (Hwf : kwf I TO (fst (krun I TO kinit pre))) by (apply kwf_run; [exact HI|apply kwf_init]).
  assert (Hcl : k_closed (fst (krun I TO (fst (krun I TO kinit pre)) post)) = true).
  { apply detect_run; try assumption. pose proof (ttl_bound I TO _ Hwf). lia. }
  split; [exact Hcl|].
  destruct (k_closed (fst (krun I TO kinit pre))) eqn:E; [now left|right].
  exact (closed_cause_run I TO post _ E Hcl).
Qed.

(* the loop has started and has not panicked once a ping has been written and no panic was seen *)
Lemma step_ctl_started I TO s e :
  k_ctl s <> KNotStarted -> k_ctl (fst (kstep I TO s e)) <> KNotStarted.
Proof.
  intros H. destruct s as [now ctl tn tb nid reps cl lk]. cbn [k_ctl] in H.
  assert (Hsp : forall s', k_ctl (fst (send_ping TO s')) <> KNotStarted).
  { intros s'. unfold send_ping. destruct (k_closed s'); [discriminate|].
    destruct (negb (k_link s')); [discriminate|]. destruct (TO =? 0); discriminate. }
  destruct e; cbn [kstep k_ctl k_closed k_link k_replies k_tick_buf]; try exact H.
  - destruct ctl; try discriminate; congruence.
  - destruct ctl as [|id dl| | |]; cbn [running]; try discriminate; try congruence.
    + destruct (dl <=? _); discriminate.
    + destruct (_ || _); [apply Hsp|discriminate].
  - unfold on_response; cbn [k_closed k_replies k_ctl]. destruct cl; [exact H|].
    destruct (lookup id reps) as [[]|]; try exact H.
    destruct ctl as [|id' dl| | |]; try discriminate; try congruence.
    destruct (id' =? id); [|discriminate]. unfold after_reply; cbn [k_tick_buf].
    destruct tb; [apply Hsp|discriminate].
  - unfold on_response; cbn [k_closed k_replies k_ctl]. destruct cl; [exact H|].
    destruct (lookup id reps) as [[]|]; try exact H.
    destruct ctl as [|id' dl| | |]; try discriminate; try congruence.
    destruct (id' =? id); discriminate.
  - destruct cl; [exact H|destruct lk; exact H].
  - destruct ctl; cbn [running fst k_ctl]; try discriminate; congruence.
Qed.

(* ------------------------------------------------------------------------------------------ *)
(* no false positive                                                                           *)

Definition pong_within (id bound : N) (evs : list kev) : Prop :=
  exists mid post, evs = mid ++ EPong id :: post /\ count_ms mid < bound.

(* every ping the loop writes is answered by a pong strictly within the timeout *)
Fixpoint answered (I TO : N) (s : kst) (evs : list kev) : Prop :=
  match evs with
  | [] => True
  | e :: r => (forall id, In (OPing id) (snd (kstep I TO s e)) -> pong_within id TO r)
              /\ answered I TO (fst (kstep I TO s e)) r
  end.

(* the broker answers a ping with a pong (never another response type under a ping's id) *)
Fixpoint well_typed (I TO : N) (s : kst) (evs : list kev) : Prop :=
  match evs with
  | [] => True
  | e :: r => match e with EResp id => lookup id (k_replies s) <> Some WPing | _ => True end
              /\ well_typed I TO (fst (kstep I TO s e)) r
  end.

Definition quiet (o : list kout) : Prop := ~ In OClose o /\ ~ In OPanic o.

Lemma quiet_app a b : quiet a -> quiet b -> quiet (a ++ b).
Proof. intros [A1 A2] [B1 B2]; split; intros H; apply in_app_or in H; tauto. Qed.

Lemma pw_skip id b e r :
  e <> EPong id -> e <> EMs -> pong_within id b (e :: r) -> pong_within id b r.
Proof.
  intros H1 H2 (mid & post & Heq & Hc). destruct mid as [|x mid]; cbn [app] in Heq.
  - congruence.
  - injection Heq as He Hr. subst x r. exists mid, post. split; [reflexivity|].
    destruct e; cbn [count_ms] in Hc; congruence || exact Hc.
Qed.

Lemma pw_ms id b r : pong_within id b (EMs :: r) -> 1 < b /\ pong_within id (b - 1) r.
Proof.
  intros (mid & post & Heq & Hc). destruct mid as [|x mid]; cbn [app] in Heq; [discriminate|].
  injection Heq as He Hr. subst x r. cbn [count_ms] in Hc. split; [lia|].
  exists mid, post. split; [reflexivity|lia].
Qed.

Definition pend (TO : N) (s : kst) (evs : list kev) : Prop :=
  match k_ctl s with
  | KWaitReply id dl =>
      lookup id (k_replies s) = Some WPing /\ id < two32 /\
      (exists k, k_nextid s = (id + 2 * (k + 1)) mod two32 /\ k + count_appreq evs + 1 < two31) /\
      pong_within id (dl - k_now s) evs
  | _ => True
  end.

Definition no_linkfail (evs : list kev) : Prop := ~ In ELinkFail evs.

Record nfp_inv (I TO : N) (s : kst) (evs : list kev) : Prop := mkInv {
  ni_wf : kwf I TO s;
  ni_link : k_link s = true;
  ni_id : k_nextid s < two32;
  ni_pend : pend TO s evs;
  ni_cnt : count_appreq evs + 1 < two31
}.

Lemma two32_pos : 0 < two32. Proof. reflexivity. Qed.

(* a ping written while the link is up and every ping is answered in time *)
Lemma send_ping_nfp TO s r :
  0 < TO -> k_link s = true -> k_nextid s < two32 -> count_appreq r + 1 < two31 ->
  (forall id, In (OPing id) (snd (send_ping TO s)) -> pong_within id TO r) ->
  quiet (snd (send_ping TO s)) /\
  k_link (fst (send_ping TO s)) = true /\ k_nextid (fst (send_ping TO s)) < two32 /\
  pend TO (fst (send_ping TO s)) r.
Proof.
  intros HTO Hl Hid Hc Hans. unfold send_ping in *. rewrite Hl in *. cbn [negb] in *.
  assert (Hm : (k_nextid s + 2) mod two32 < two32) by (apply N.mod_lt; discriminate).
  destruct (k_closed s).
  - cbn [fst snd k_link k_nextid]. repeat split; try assumption; try (intros []).
  - destruct (TO =? 0) eqn:E; [lia|].
    cbn [fst snd k_link k_nextid] in *. split; [split; intros [H|[]]; discriminate|].
    split; [reflexivity|]. split; [exact Hm|].
    unfold pend; cbn [k_ctl k_replies k_nextid k_now].
    split; [apply lookup_insert_same|]. split; [exact Hid|].
    split.
    + exists 0. split; [f_equal; lia|lia].
    + replace (k_now s + TO - k_now s) with TO by lia. apply Hans. now left.
Qed.

Lemma mod_shift_ne id k : id < two32 -> k + 1 < two31 -> (id + 2 * (k + 1)) mod two32 <> id.
Proof. unfold two32, two31. intros H1 H2 H. lia. Qed.

Lemma mod_shift_next id k : ((id + 2 * (k + 1)) mod two32 + 2) mod two32 = (id + 2 * (k + 1 + 1)) mod two32.
Proof.
  rewrite N.add_mod_idemp_l by discriminate. f_equal. lia.
Qed.

(* an event that is neither a tick of the clock, nor a new request, nor the awaited pong, and
   leaves the loop where it is, keeps the pending-ping invariant *)
Lemma pend_skip TO s s' e r :
  k_ctl s' = k_ctl s -> k_now s' = k_now s -> k_nextid s' = k_nextid s ->
  (forall id dl, k_ctl s = KWaitReply id dl -> lookup id (k_replies s) = Some WPing ->
                 lookup id (k_replies s') = Some WPing /\ e <> EPong id) ->
  e <> EMs -> e <> EAppReq ->
  pend TO s (e :: r) -> pend TO s' r.
Proof.
  intros Hctl Hnow Hnid Hrep H1 H2 Hp. unfold pend in *. rewrite Hctl, Hnow, Hnid.
  destruct (k_ctl s) as [|id dl| | |]; try exact Logic.I.
  destruct Hp as (A & B & (k & C & D) & E).
  destruct (Hrep id dl eq_refl A) as [A' Hne].
  split; [exact A'|]. split; [exact B|]. split.
  - exists k. split; [exact C|]. destruct e; cbn [count_appreq] in D; congruence || exact D.
  - apply (pw_skip id _ e); assumption.
Qed.

Lemma nfp_step I TO s e r :
  0 < I -> 0 < TO ->
  nfp_inv I TO s (e :: r) -> answered I TO s (e :: r) -> well_typed I TO s (e :: r) -> e <> ELinkFail ->
  quiet (snd (kstep I TO s e)) /\ nfp_inv I TO (fst (kstep I TO s e)) r.
Proof.
  intros HI HTO [Hwf Hl Hid Hp Hc] [Hans _] [Hty _] Hne.
  assert (Hwf' : kwf I TO (fst (kstep I TO s e))) by (now apply kwf_step).
  assert (Hc' : count_appreq r + 1 < two31) by (destruct e; cbn [count_appreq] in Hc; lia).
  assert (Qnil : quiet []) by (split; intros []).
  destruct s as [now ctl tn tb nid reps cl lk]. cbn [k_link k_nextid] in Hl, Hid. subst lk.
  (* the generic "nothing relevant changed" case *)
  assert (Keep : forall reps' outs,
     quiet outs ->
     e <> EMs -> e <> EAppReq ->
     (forall id dl, ctl = KWaitReply id dl -> lookup id reps = Some WPing ->
                    lookup id reps' = Some WPing /\ e <> EPong id) ->
     kwf I TO (mkK now ctl tn tb nid reps' cl true) ->
     quiet outs /\ nfp_inv I TO (mkK now ctl tn tb nid reps' cl true) r).
  { intros reps' outs Q H1 H2 Hrep Hw. split; [exact Q|]. constructor; try assumption; try reflexivity.
    apply (pend_skip TO (mkK now ctl tn tb nid reps cl true) _ e r); try reflexivity; assumption. }
  assert (KeepSame : forall outs,
     quiet outs -> e <> EMs -> e <> EAppReq ->
     (forall id dl, ctl = KWaitReply id dl -> e <> EPong id) ->
     quiet outs /\ nfp_inv I TO (mkK now ctl tn tb nid reps cl true) r).
  { intros outs Q H1 H2 H3. apply Keep; try assumption. intros id dl Hc1 Hl1. split; [exact Hl1|]. now apply (H3 id dl). }
  destruct e; try congruence;
    cbn [kstep k_ctl k_now k_closed k_link k_tick_next k_tick_buf k_nextid k_replies] in *.
  - (* EStart *)
    destruct ctl as [|id dl| | |];
      try (cbn [fst snd]; apply KeepSame; [exact Qnil|discriminate|discriminate|discriminate]).
    destruct (I =? 0) eqn:E; [lia|].
    match goal with |- context [send_ping TO ?s0] =>
      destruct (send_ping_nfp TO s0 r HTO eq_refl Hid Hc' Hans) as (Q & L & Id & P) end.
    split; [exact Q|]. constructor; assumption.
  - (* EMs *)
    destruct ctl as [|id dl| | |]; cbn [running] in *;
      try (cbn [fst snd] in *; split; [exact Qnil|]; constructor; try assumption; try reflexivity; exact Logic.I).
    + unfold pend in Hp; cbn [k_ctl k_replies k_nextid k_now] in Hp.
      destruct Hp as (A & B & (k & C & D) & E). apply pw_ms in E as [E1 E2].
      unfold kwf in Hwf; cbn [k_ctl k_now k_closed k_tick_next k_tick_buf] in Hwf.
      assert (F : (dl <=? now + 1) = false) by blia. rewrite F in *. cbn [fst snd] in *.
      split; [exact Qnil|]. constructor; try assumption; try reflexivity.
      unfold pend; cbn [k_ctl k_replies k_nextid k_now].
      split; [exact A|]. split; [exact B|]. split.
      * exists k. split; [exact C|]. cbn [count_appreq] in D. exact D.
      * replace (dl - (now + 1)) with (dl - now - 1) by lia. exact E2.
    + destruct (tb || (now + 1 =? tn)).
      * match goal with |- context [send_ping TO ?s0] =>
          destruct (send_ping_nfp TO s0 r HTO eq_refl Hid Hc' Hans) as (Q & L & Id & P) end.
        split; [exact Q|]. constructor; assumption.
      * cbn [fst snd] in *. split; [exact Qnil|]. constructor; try assumption; try reflexivity; exact Logic.I.
  - (* EPong *)
    unfold on_response in *; cbn [k_closed k_replies k_ctl k_now k_tick_next k_tick_buf k_nextid k_link] in *.
    destruct cl.
    { cbn [fst snd] in *. split; [exact Qnil|]. constructor; try assumption; try reflexivity.
      unfold pend; cbn [k_ctl].
      unfold kwf in Hwf; cbn [k_ctl k_now k_closed k_tick_next k_tick_buf] in Hwf.
      destruct ctl; try exact Logic.I. destruct Hwf as (_ & _ & Hx & _); discriminate. }
    destruct (lookup id reps) as [w|] eqn:Lk.
    2:{ cbn [fst snd]. apply KeepSame; [exact Qnil|discriminate|discriminate|].
        intros id' dl ->. unfold pend in Hp; cbn [k_ctl k_replies] in Hp. destruct Hp as (A & _).
        intros [= ->]. congruence. }
    destruct w.
    + (* the reply channel of a ping *)
      assert (Stale : forall id' dl, ctl = KWaitReply id' dl -> id' <> id ->
                quiet [] /\ nfp_inv I TO (mkK now ctl tn tb nid (remove id reps) false true) r).
      { intros id' dl Hc1 Hd. apply Keep; [exact Qnil|discriminate|discriminate| |].
        - intros i d Hc2 Hl2. rewrite Hc1 in Hc2. injection Hc2 as <- <-.
          split; [rewrite lookup_remove_other by assumption; exact Hl2|congruence].
        - unfold kwf in *; cbn [k_ctl k_now k_closed k_tick_next k_tick_buf] in *. exact Hwf. }
      destruct ctl as [|id' dl| | |];
        try (cbn [fst snd]; apply Keep; [exact Qnil|discriminate|discriminate|discriminate|exact Hwf]).
      destruct (id' =? id) eqn:Eid.
      * unfold after_reply in *; cbn [k_tick_buf] in *. destruct tb.
        -- match goal with |- context [send_ping TO ?s0] =>
             destruct (send_ping_nfp TO s0 r HTO eq_refl Hid Hc' Hans) as (Q & L & Id & P) end.
           split; [exact Q|]. constructor; assumption.
        -- cbn [fst snd set_ctl] in *. split; [exact Qnil|]. constructor; try assumption; try reflexivity; try exact Logic.I.
      * cbn [fst snd]. apply (Stale id' dl eq_refl).
        intros ->. rewrite N.eqb_refl in Eid. discriminate.
    + (* the reply channel of an application request *)
      cbn [fst snd]. apply Keep; [split; intros [H|[]]; discriminate|discriminate|discriminate| |].
      * intros i d -> Hl2. assert (i <> id) by (intros ->; congruence).
        split; [rewrite lookup_remove_other by assumption; exact Hl2|congruence].
      * unfold kwf in *; cbn [k_ctl k_now k_closed k_tick_next k_tick_buf] in *. exact Hwf.
  - (* EResp *)
    unfold on_response in *; cbn [k_closed k_replies k_ctl k_now k_tick_next k_tick_buf k_nextid k_link] in *.
    destruct cl.
    { cbn [fst snd] in *. split; [exact Qnil|]. constructor; try assumption; try reflexivity.
      unfold pend; cbn [k_ctl].
      unfold kwf in Hwf; cbn [k_ctl k_now k_closed k_tick_next k_tick_buf] in Hwf.
      destruct ctl; try exact Logic.I. destruct Hwf as (_ & _ & Hx & _); discriminate. }
    destruct (lookup id reps) as [w|] eqn:Lk.
    2:{ cbn [fst snd]. apply KeepSame; [exact Qnil|discriminate|discriminate|discriminate]. }
    destruct w; [congruence|].
    cbn [fst snd]. apply Keep; [split; intros [H|[]]; discriminate|discriminate|discriminate| |].
    + intros i d -> Hl2. assert (i <> id) by (intros ->; congruence).
      split; [rewrite lookup_remove_other by assumption; exact Hl2|discriminate].
    + unfold kwf in *; cbn [k_ctl k_now k_closed k_tick_next k_tick_buf] in *. exact Hwf.
  - (* EBrokerPing *)
    destruct cl; cbn [fst snd];
      (apply KeepSame; [first [exact Qnil|split; intros [H|[]]; discriminate]|discriminate|discriminate|discriminate]).
  - (* EAppReq *)
    cbn [fst snd] in *. split.
    { destruct cl; [exact Qnil|]. split; intros [H|[]]; discriminate. }
    constructor; try assumption; cbn [k_link k_nextid].
    + reflexivity.
    + apply N.mod_lt; discriminate.
    + unfold pend in *; cbn [k_ctl k_replies k_nextid k_now] in *.
      destruct ctl as [|id' dl| | |]; try exact Logic.I.
      destruct Hp as (A & B & (k & C & D) & E). cbn [count_appreq] in D.
      assert (Hne' : nid <> id') by (rewrite C; apply mod_shift_ne; [exact B|lia]).
      split; [rewrite lookup_insert_other by congruence; exact A|]. split; [exact B|]. split.
      * exists (k + 1). split; [rewrite C; apply mod_shift_next|lia].
      * apply (pw_skip id' _ EAppReq); [discriminate|discriminate|exact E].
  - (* EAppMsg *)
    cbn [fst snd]. apply KeepSame; [|discriminate|discriminate|discriminate].
    destruct cl; [exact Qnil|]. split; intros [H|[]]; discriminate.
  - (* EInMsg *)
    cbn [fst snd]. apply KeepSame; [exact Qnil|discriminate|discriminate|discriminate].
  - (* EAppClose *)
    cbn [fst snd] in *. split; [exact Qnil|]. constructor; try assumption; try reflexivity.
    unfold pend; cbn [k_ctl]. destruct ctl; cbn [running]; exact Logic.I.
Qed.

Lemma nfp_run I TO : forall evs s,
  0 < I -> 0 < TO ->
  nfp_inv I TO s evs -> answered I TO s evs -> well_typed I TO s evs -> no_linkfail evs ->
  quiet (snd (krun I TO s evs)) /\
  (k_closed (fst (krun I TO s evs)) = true -> k_closed s = true \/ In EAppClose evs).
Proof.
  induction evs as [|e r IH]; intros s HI HTO Hinv Hans Hty Hnl.
  - cbn [krun fst snd]. split; [split; intros []|]. intros H; now left.
  - assert (Hne : e <> ELinkFail) by (intros ->; apply Hnl; now left).
    destruct (nfp_step I TO s e r HI HTO Hinv Hans Hty Hne) as [Q Hinv'].
    destruct Hans as [_ Hans']. destruct Hty as [_ Hty'].
    assert (Hnl' : no_linkfail r) by (intros H; apply Hnl; now right).
    destruct (IH _ HI HTO Hinv' Hans' Hty' Hnl') as [Q' Hcl'].
    rewrite krun_cons; cbn [fst snd]. split; [now apply quiet_app|].
    intros Hc. destruct (Hcl' Hc) as [H|H]; [|right; now right].
    destruct (k_closed s) eqn:E; [now left|right].
    destruct (closed_cause_step I TO s e E H) as [->|Hin]; [now left|].
    exfalso. destruct Q as [Q1 _]. exact (Q1 Hin).
Qed.

Lemma nfp_inv_init I TO evs : count_appreq evs + 1 < two31 -> nfp_inv I TO kinit evs.
Proof.
  intros H. constructor; try assumption; try reflexivity; exact Logic.I.
Qed.

Lemma no_false_positive I TO evs :
  0 < I -> 0 < TO ->
  answered I TO kinit evs -> well_typed I TO kinit evs -> no_linkfail evs ->
  count_appreq evs + 1 < two31 ->
  ~ In OClose (snd (krun I TO kinit evs)) /\ ~ In OPanic (snd (krun I TO kinit evs)) /\
  (k_closed (fst (krun I TO kinit evs)) = true -> In EAppClose evs).
Proof.
  intros HI HTO Hans Hty Hnl Hc.
  destruct (nfp_run I TO evs kinit HI HTO (nfp_inv_init I TO evs Hc) Hans Hty Hnl) as [[Q1 Q2] Hcl].
  split; [exact Q1|]. split; [exact Q2|]. intros H. destruct (Hcl H) as [H'|H']; [discriminate|exact H'].
Qed.

(* ------------------------------------------------------------------------------------------ *)
(* pong echo                                                                                   *)

Lemma pongs_of_app a b : pongs_of (a ++ b) = pongs_of a ++ pongs_of b.
Proof. induction a as [|x a IH]; [reflexivity|]. destruct x; cbn [app pongs_of]; rewrite ?IH; reflexivity. Qed.

Lemma send_ping_pongs TO s : pongs_of (snd (send_ping TO s)) = [].
Proof.
  unfold send_ping. destruct (k_closed s); [reflexivity|].
  destruct (negb (k_link s)); [reflexivity|]. destruct (TO =? 0); reflexivity.
Qed.

(* the pongs written in one step: the id of the broker's ping if the connection is open and the
   write succeeds, nothing otherwise; no other step writes a pong *)
Lemma step_pongs I TO s e :
  pongs_of (snd (kstep I TO s e)) =
  match e with
  | EBrokerPing id => if k_closed s then [] else if k_link s then [id] else []
  | _ => []
  end.
Proof.
  destruct s as [now ctl tn tb nid reps cl lk].
  destruct e; cbn [kstep k_ctl k_closed k_link k_replies k_tick_buf]; try reflexivity.
  - destruct ctl; try reflexivity. destruct (I =? 0); [reflexivity|apply send_ping_pongs].
  - destruct ctl as [|id dl| | |]; cbn [running]; try reflexivity.
    + destruct (dl <=? _); reflexivity.
    + destruct (_ || _); [apply send_ping_pongs|reflexivity].
  - unfold on_response; cbn [k_closed k_replies k_ctl]. destruct cl; [reflexivity|].
    destruct (lookup id reps) as [[]|]; try reflexivity.
    destruct ctl as [|id' dl| | |]; try reflexivity. destruct (id' =? id); [|reflexivity].
    unfold after_reply; cbn [k_tick_buf]. destruct tb; [apply send_ping_pongs|reflexivity].
  - unfold on_response; cbn [k_closed k_replies k_ctl]. destruct cl; [reflexivity|].
    destruct (lookup id reps) as [[]|]; try reflexivity.
    destruct ctl as [|id' dl| | |]; try reflexivity. destruct (id' =? id); reflexivity.
  - destruct cl; [reflexivity|destruct lk; reflexivity].
  - destruct cl; [reflexivity|destruct lk; reflexivity].
  - destruct cl; [reflexivity|destruct lk; reflexivity].
Qed.

Lemma echo_run I TO : forall evs s,
  k_closed (fst (krun I TO s evs)) = false -> k_link (fst (krun I TO s evs)) = true ->
  pongs_of (snd (krun I TO s evs)) = bpings evs.
Proof.
  induction evs as [|e r IH]; intros s Hc Hl; [reflexivity|].
  rewrite krun_cons in *; cbn [fst snd] in *. rewrite pongs_of_app, step_pongs, (IH _ Hc Hl).
  assert (Hc1 : k_closed (fst (kstep I TO s e)) = false).
  { destruct (k_closed (fst (kstep I TO s e))) eqn:E; [|reflexivity].
    rewrite (closed_mono_run I TO r _ E) in Hc. discriminate. }
  assert (Hc0 : k_closed s = false).
  { destruct (k_closed s) eqn:E; [|reflexivity].
    rewrite (closed_mono_step I TO s e E) in Hc1. discriminate. }
  assert (Hl1 : k_link (fst (kstep I TO s e)) = true).
  { destruct (k_link (fst (kstep I TO s e))) eqn:E; [reflexivity|].
    rewrite (link_mono_run I TO r _ E) in Hl. discriminate. }
  assert (Hl0 : k_link s = true).
  { destruct (k_link s) eqn:E; [reflexivity|].
    rewrite (link_mono_step I TO s e E) in Hl1. discriminate. }
  rewrite Hc0, Hl0. destruct e; reflexivity.
Qed.

(* in general: the pongs are a subsequence of the broker's pings (same ids, same order, each at
   most once) *)
Inductive subseq : list N -> list N -> Prop :=
| ss_nil l : subseq [] l
| ss_keep x a b : subseq a b -> subseq (x :: a) (x :: b)
| ss_skip x a b : subseq a b -> subseq a (x :: b).

Lemma echo_subseq I TO : forall evs s, subseq (pongs_of (snd (krun I TO s evs))) (bpings evs).
Proof.
  induction evs as [|e r IH]; intros s; [constructor|].
  rewrite krun_cons; cbn [snd]. rewrite pongs_of_app, step_pongs.
  destruct e; cbn [bpings app]; try apply IH.
  destruct (k_closed s); [apply ss_skip, IH|].
  destruct (k_link s); [apply ss_keep, IH|apply ss_skip, IH].
Qed.

(* ------------------------------------------------------------------------------------------ *)
(* announced values                                                                            *)

Lemma or_default_idem d def : or_default (or_default d def) def = or_default d def.
Proof.
  unfold or_default. destruct (d =? 0) eqn:E; [|now rewrite E].
  destruct (def =? 0) eqn:F; reflexivity.
Qed.

Lemma announced_eq c :
  announced c =
  (dur_to_sec (if cf_interval c =? 0 then default_interval_ns else cf_interval c),
   dur_to_sec (if cf_timeout c =? 0 then default_timeout_ns else cf_timeout c)).
Proof.
  unfold announced, server_interval, server_timeout, or_default.
  destruct (cf_interval c =? 0) eqn:E1; destruct (cf_timeout c =? 0) eqn:E2;
    cbn -[dur_to_sec]; rewrite ?E1, ?E2; reflexivity.
Qed.

Lemma client_params c :
  client_interval c = (if cf_interval c =? 0 then default_interval_ns else cf_interval c) /\
  client_timeout c = (if cf_timeout c =? 0 then default_timeout_ns else cf_timeout c).
Proof. unfold client_interval, client_timeout. rewrite !or_default_idem. split; reflexivity. Qed.

Lemma dur_to_sec_floor d :
  d < two32 * ns_per_s ->
  dur_to_sec d * ns_per_s <= d /\ d < (dur_to_sec d + 1) * ns_per_s.
Proof. unfold dur_to_sec, two32, ns_per_s. intros H. lia. Qed.

Lemma dur_to_sec_wrap d : dur_to_sec d = (d / ns_per_s) mod two32.
Proof. reflexivity. Qed.

Lemma dur_to_sec_whole n : dur_to_sec (n * ns_per_s) = n mod two32.
Proof. unfold dur_to_sec. rewrite N.div_mul by discriminate. reflexivity. Qed.

(* ------------------------------------------------------------------------------------------ *)
(* the model clock                                                                             *)

Lemma send_ping_now TO s : k_now (fst (send_ping TO s)) = k_now s.
Proof.
  unfold send_ping. destruct (k_closed s); [reflexivity|].
  destruct (negb (k_link s)); [reflexivity|]. destruct (TO =? 0); reflexivity.
Qed.

Lemma now_step I TO s e :
  k_now (fst (kstep I TO s e)) = k_now s + (match e with EMs => 1 | _ => 0 end).
Proof.
  destruct s as [now ctl tn tb nid reps cl lk].
  destruct e; cbn [kstep k_ctl k_now k_closed k_link k_replies k_tick_buf].
  - destruct ctl; cbn [fst k_now]; try lia. destruct (I =? 0); [cbn; lia|].
    rewrite send_ping_now. cbn [k_now]. lia.
  - destruct ctl as [|id dl| | |]; cbn [running fst k_now]; try lia.
    + destruct (dl <=? _); cbn [fst k_now]; lia.
    + destruct (_ || _); [rewrite send_ping_now|]; cbn [fst k_now]; lia.
  - unfold on_response; cbn [k_closed k_replies k_ctl]. destruct cl; [cbn [fst k_now]; lia|].
    destruct (lookup id reps) as [[]|]; cbn [fst k_now]; try lia.
    destruct ctl as [|id' dl| | |]; cbn [fst k_now]; try lia.
    destruct (id' =? id); cbn [fst k_now]; try lia.
    unfold after_reply; cbn [k_tick_buf]. destruct tb; [rewrite send_ping_now|]; cbn [fst k_now set_ctl]; lia.
  - unfold on_response; cbn [k_closed k_replies k_ctl]. destruct cl; [cbn [fst k_now]; lia|].
    destruct (lookup id reps) as [[]|]; cbn [fst k_now]; try lia.
    destruct ctl as [|id' dl| | |]; cbn [fst k_now]; try lia.
    destruct (id' =? id); cbn [fst k_now set_ctl]; lia.
  - destruct cl; [|destruct lk]; cbn [fst k_now]; lia.
  - cbn [fst k_now]; lia.
  - cbn [fst k_now]; lia.
  - cbn [fst k_now]; lia.
  - cbn [fst k_now]; lia.
  - cbn [fst k_now]; lia.
Qed.

Lemma now_run I TO : forall evs s, k_now (fst (krun I TO s evs)) = k_now s + count_ms evs.
Proof.
  induction evs as [|e r IH]; intros s; [cbn [krun fst count_ms]; lia|].
  rewrite krun_cons; cbn [fst]. rewrite IH, now_step. destruct e; cbn [count_ms]; lia.
Qed.

(* ------------------------------------------------------------------------------------------ *)
(* boolean versions of the hypotheses of no_false_positive (used to exhibit instances)         *)

Fixpoint pong_withinb (id bound : N) (evs : list kev) : bool :=
  match evs with
  | [] => false
  | EPong i :: r => if i =? id then 0 <? bound else pong_withinb id bound r
  | EMs :: r => (1 <? bound) && pong_withinb id (bound - 1) r
  | _ :: r => pong_withinb id bound r
  end.

Lemma pw_cons id b e r : e <> EMs -> pong_within id b r -> pong_within id b (e :: r).
Proof.
  intros He (mid & post & -> & Hc). exists (e :: mid), post. split; [reflexivity|].
  destruct e; cbn [count_ms]; congruence || exact Hc.
Qed.

Lemma pong_withinb_sound id : forall evs b, pong_withinb id b evs = true -> pong_within id b evs.
Proof.
  induction evs as [|e r IH]; intros b H; [discriminate|].
  destruct e; cbn [pong_withinb] in H; try (apply pw_cons; [discriminate|now apply IH]).
  - apply andb_true_iff in H as [H1 H2]. destruct (IH _ H2) as (mid & post & -> & Hc).
    exists (EMs :: mid), post. split; [reflexivity|]. cbn [count_ms]. lia.
  - destruct (id0 =? id) eqn:E.
    + apply N.eqb_eq in E; subst id0. exists [], r. split; [reflexivity|]. cbn [count_ms]. lia.
    + apply pw_cons; [discriminate|now apply IH].
Qed.

Fixpoint answeredb (I TO : N) (s : kst) (evs : list kev) : bool :=
  match evs with
  | [] => true
  | e :: r =>
      forallb (fun o => match o with OPing id => pong_withinb id TO r | _ => true end) (snd (kstep I TO s e))
      && answeredb I TO (fst (kstep I TO s e)) r
  end.

Lemma answeredb_sound I TO : forall evs s, answeredb I TO s evs = true -> answered I TO s evs.
Proof.
  induction evs as [|e r IH]; intros s H; [exact Logic.I|].
  cbn [answeredb] in H. apply andb_true_iff in H as [H1 H2]. cbn [answered]. split; [|now apply IH].
  intros id Hin. rewrite forallb_forall in H1. apply pong_withinb_sound. exact (H1 _ Hin).
Qed.

Fixpoint well_typedb (I TO : N) (s : kst) (evs : list kev) : bool :=
  match evs with
  | [] => true
  | e :: r =>
      match e with
      | EResp id => match lookup id (k_replies s) with Some WPing => false | _ => true end
      | _ => true
      end && well_typedb I TO (fst (kstep I TO s e)) r
  end.

Lemma well_typedb_sound I TO : forall evs s, well_typedb I TO s evs = true -> well_typed I TO s evs.
Proof.
  induction evs as [|e r IH]; intros s H; [exact Logic.I|].
  cbn [well_typedb] in H. apply andb_true_iff in H as [H1 H2]. cbn [well_typed]. split; [|now apply IH].
  destruct e; try exact Logic.I. destruct (lookup id (k_replies s)) as [[]|]; congruence.
Qed.

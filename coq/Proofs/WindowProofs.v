(* Lemmas about Model/Window.v: mode selection, the sliding dictionary, writer/reader lockstep
   under the DEFLATE round-trip hypothesis. *)
From Coq Require Import List NArith Bool Lia ZArith ZifyN ZifyNat ZifyBool Arith.
From Iscp Require Import Lib.ListMap Lib.Bytes Model.Window.
Import ListNotations.
Open Scope N_scope.
Ltac Zify.zify_post_hook ::= Z.div_mod_to_equations.

(* ---------- the dictionary is the last W bytes of everything written ---------- *)

Lemma trim_skipn W w : trim W w = skipn (length w - N.to_nat W) w.
Proof.
  unfold trim, lenN. destruct (W <? N.of_nat (length w)) eqn:E.
  - apply N.ltb_lt in E. f_equal. lia.
  - apply N.ltb_ge in E. replace (length w - N.to_nat W)%nat with 0%nat by lia. reflexivity.
Qed.

Lemma skipn_skipn' {A} (x y : nat) : forall l : list A, skipn x (skipn y l) = skipn (y + x) l.
Proof.
  induction y as [|y IH]; intros l; [reflexivity|].
  destruct l as [|a l]; cbn [skipn Nat.add]; [now rewrite skipn_nil | apply IH].
Qed.

Lemma lastn_lastn_app {A} (W : nat) (a m : list A) :
  skipn (length (skipn (length a - W) a ++ m) - W) (skipn (length a - W) a ++ m)
  = skipn (length (a ++ m) - W) (a ++ m).
Proof.
  destruct (Nat.le_gt_cases (length a) W) as [Hle|Hgt].
  - replace (length a - W)%nat with 0%nat by lia. reflexivity.
  - set (k := (length a - W)%nat).
    assert (Ek : skipn k a ++ m = skipn k (a ++ m)).
    { rewrite skipn_app. replace (k - length a)%nat with 0%nat by lia. reflexivity. }
    rewrite Ek, skipn_skipn'. f_equal.
    rewrite skipn_length, !app_length. lia.
Qed.

Lemma win_next_trim W a m : win_next W (trim W a) m = trim W (a ++ m).
Proof. unfold win_next. rewrite !trim_skipn. apply lastn_lastn_app. Qed.

Lemma trim_length W w : lenN (trim W w) = N.min W (lenN w).
Proof. rewrite trim_skipn. unfold lenN. rewrite skipn_length. lia. Qed.

Lemma trim_suffix W w : exists pre, w = pre ++ trim W w.
Proof. rewrite trim_skipn. eexists. symmetry. apply firstn_skipn. Qed.

(* ---------- mode selection ---------- *)

Lemma mode_off_iff p base :
  mode_of (compress_config p base) = MOff <-> (np_level p = None \/ np_level p = Some 0).
Proof.
  unfold compress_config, mode_of. destruct (np_level p) as [l|]; cbn.
  - destruct (l =? 0) eqn:E; cbn.
    + apply N.eqb_eq in E. subst. tauto.
    + apply N.eqb_neq in E. split.
      * destruct (np_comp p), (cc_disable_ct base); discriminate.
      * intros [H|H]; [discriminate | congruence].
  - tauto.
Qed.

Lemma mode_negotiated p base l : np_level p = Some l -> l <> 0 ->
  mode_of (compress_config p base) =
    match np_comp p with
    | CPerMessage => MPerMsg
    | CTakeover => MTakeover
    | CNone => if cc_disable_ct base then MPerMsg else MTakeover
    end
  /\ cc_level (compress_config p base) = l
  /\ window_size (compress_config p base) = 2 ^ (match np_bits p with Some b => b | None => cc_bits base end).
Proof.
  intros Hl Hne. unfold compress_config, mode_of, window_size. rewrite Hl.
  apply N.eqb_neq in Hne. rewrite Hne. cbn.
  destruct (np_comp p), (cc_disable_ct base); cbn; auto.
Qed.

(* ---------- writer / reader lockstep ---------- *)

Section WSP.
  Variable deflate : N -> list N -> list N -> list N.
  Variable inflate : list N -> list N -> list N * bool.
  Hypothesis inflate_deflate : forall l d m, inflate d (deflate l d m) = (m, true).

  Notation ws_write := (ws_write deflate).
  Notation ws_read := (ws_read inflate).
  Notation tx_run := (tx_run deflate).
  Notation rx_run := (rx_run inflate).
  Notation tx_wins := (tx_wins deflate).
  Notation rx_wins := (rx_wins inflate).

  Lemma step_delivery c tx rx m : tx_win tx = rx_win rx ->
    snd (ws_read c rx (snd (ws_write c tx m))) = Some m.
  Proof.
    intros Hw. unfold Window.ws_write, Window.ws_read. destruct (mode_of c); cbn [fst snd].
    - reflexivity.
    - now rewrite inflate_deflate.
    - rewrite <- Hw. now rewrite inflate_deflate.
  Qed.

  Lemma step_windows c tx rx m : tx_win tx = rx_win rx ->
    tx_win (fst (ws_write c tx m)) = rx_win (fst (ws_read c rx (snd (ws_write c tx m)))).
  Proof.
    intros Hw. unfold Window.ws_write, Window.ws_read. destruct (mode_of c); cbn [fst snd].
    - exact Hw.
    - rewrite inflate_deflate. exact Hw.
    - rewrite <- Hw. rewrite inflate_deflate. cbn [fst snd rx_win tx_win]. reflexivity.
  Qed.

  Lemma step_counters c tx rx m : tx_win tx = rx_win rx ->
    tx_cnt (fst (ws_write c tx m)) = add64 (tx_cnt tx) (lenN (snd (ws_write c tx m))) /\
    rx_cnt (fst (ws_read c rx (snd (ws_write c tx m)))) = add64 (rx_cnt rx) (lenN (snd (ws_write c tx m))).
  Proof.
    intros Hw. unfold Window.ws_write, Window.ws_read. destruct (mode_of c); cbn [fst snd].
    - split; reflexivity.
    - rewrite inflate_deflate. split; reflexivity.
    - rewrite <- Hw. rewrite inflate_deflate. split; reflexivity.
  Qed.

  (* writer and reader hold the same dictionary before every message *)
  Lemma windows_equal c ms : forall tx rx, tx_win tx = rx_win rx ->
    rx_wins c rx (snd (tx_run c tx ms)) = tx_wins c tx ms.
  Proof.
    induction ms as [|m ms IH]; intros tx rx Hw; cbn [Window.tx_run Window.tx_wins Window.rx_wins fst snd].
    - reflexivity.
    - f_equal; [symmetry; exact Hw|]. apply IH. now apply step_windows.
  Qed.

  (* reads return the written messages, in order, one per call *)
  Lemma delivery c ms : forall tx rx, tx_win tx = rx_win rx ->
    snd (rx_run c rx (snd (tx_run c tx ms))) = map Some ms.
  Proof.
    induction ms as [|m ms IH]; intros tx rx Hw; cbn [Window.tx_run Window.rx_run map fst snd].
    - reflexivity.
    - f_equal; [now apply step_delivery|]. apply IH. now apply step_windows.
  Qed.

  (* both counters advance by the wire length of every message *)
  Lemma counters c ms : forall tx rx, tx_win tx = rx_win rx ->
    tx_cnt (fst (tx_run c tx ms)) = fold_left (fun a w => add64 a (lenN w)) (snd (tx_run c tx ms)) (tx_cnt tx) /\
    rx_cnt (fst (rx_run c rx (snd (tx_run c tx ms)))) =
      fold_left (fun a w => add64 a (lenN w)) (snd (tx_run c tx ms)) (rx_cnt rx).
  Proof.
    induction ms as [|m ms IH]; intros tx rx Hw; cbn [Window.tx_run Window.rx_run fold_left fst snd].
    - split; reflexivity.
    - destruct (step_counters c tx rx m Hw) as [Ht Hr].
      destruct (IH _ _ (step_windows c tx rx m Hw)) as [IHt IHr].
      rewrite IHt, IHr, Ht, Hr. split; reflexivity.
  Qed.

  (* in takeover mode the writer's dictionary is the last W bytes of everything written *)
  Lemma tx_window_is_suffix c ms : mode_of c = MTakeover -> forall tx pre,
    tx_win tx = trim (window_size c) pre ->
    tx_win (fst (tx_run c tx ms)) = trim (window_size c) (pre ++ concat ms).
  Proof.
    intros Hm. induction ms as [|m ms IH]; intros tx pre Hw; cbn [Window.tx_run concat fst snd].
    - now rewrite app_nil_r.
    - rewrite app_assoc. apply IH.
      unfold Window.ws_write. rewrite Hm. cbn [fst tx_win]. rewrite Hw. apply win_next_trim.
  Qed.

  (* outside takeover mode the dictionaries are never touched *)
  Lemma tx_window_unused c ms : mode_of c <> MTakeover -> forall tx,
    tx_win (fst (tx_run c tx ms)) = tx_win tx.
  Proof.
    intros Hm. induction ms as [|m ms IH]; intros tx; cbn [Window.tx_run fst snd]; [reflexivity|].
    rewrite IH. unfold Window.ws_write. destruct (mode_of c); try reflexivity. congruence.
  Qed.

  (* compression off: the wire bytes are the message bytes *)
  Lemma off_wire_is_message c ms : mode_of c = MOff -> forall tx, snd (tx_run c tx ms) = ms.
  Proof.
    intros Hm. induction ms as [|m ms IH]; intros tx; cbn [Window.tx_run fst snd]; [reflexivity|].
    rewrite IH. unfold Window.ws_write. rewrite Hm. reflexivity.
  Qed.
  Lemma tx_window_is_suffix0 c ms : mode_of c = MTakeover ->
    tx_win (fst (tx_run c tx0 ms)) = trim (window_size c) (concat ms).
  Proof.
    intros Hm. apply (tx_window_is_suffix c ms Hm tx0 []).
    rewrite trim_skipn. reflexivity.
  Qed.

  Lemma counters0 c ms :
    let wires := snd (tx_run c tx0 ms) in
    tx_cnt (fst (tx_run c tx0 ms)) = fold_left (fun a w => add64 a (lenN w)) wires 0 /\
    rx_cnt (fst (rx_run c rx0 wires)) = fold_left (fun a w => add64 a (lenN w)) wires 0.
  Proof. apply (counters c ms tx0 rx0). reflexivity. Qed.

  Lemma off_wire0 c ms : mode_of c = MOff -> snd (tx_run c tx0 ms) = ms.
  Proof. intros H. exact (off_wire_is_message c ms H tx0). Qed.
End WSP.

(* wins_after (the judge's DEFLATE-free dictionary evolution) is the writer's dictionary *)
Lemma wins_after_is_tx deflate c ms : forall tx,
  wins_after c (tx_win tx) ms = tl (tx_wins deflate c tx ms) ++
    match ms with [] => [] | _ => [tx_win (fst (tx_run deflate c tx ms))] end.
Proof.
  induction ms as [|m ms IH]; intros tx; [reflexivity|].
  cbn [wins_after tx_wins tx_run tl fst snd].
  assert (E : match mode_of c with MTakeover => win_next (window_size c) (tx_win tx) m | _ => tx_win tx end
              = tx_win (fst (ws_write deflate c tx m))).
  { unfold ws_write. destruct (mode_of c); reflexivity. }
  rewrite E, IH. destruct ms as [|m' ms]; reflexivity.
Qed.

(* What happens when the round-trip hypothesis fails in the way Go's compress/flate fails
   (F28: NewWriterDict emits the dictionary in front of an incompressible message when it
   chooses a stored block): the reader hands up dictionary ++ message. *)
Lemma dict_leak_breaks_delivery deflate inflate c tx rx m :
  mode_of c = MTakeover -> tx_win tx = rx_win rx -> tx_win tx <> [] ->
  inflate (tx_win tx) (deflate (cc_level c) (tx_win tx) m) = (tx_win tx ++ m, true) ->
  snd (ws_read inflate c rx (snd (ws_write deflate c tx m))) = Some (tx_win tx ++ m) /\
  tx_win tx ++ m <> m.
Proof.
  intros Hm Hw Hne Hleak. split.
  - unfold ws_write, ws_read. rewrite Hm. cbn [fst snd]. rewrite <- Hw, Hleak. reflexivity.
  - intros E. apply Hne. apply (f_equal (@length N)) in E. rewrite app_length in E.
    destruct (tx_win tx); [reflexivity | cbn in E; lia].
Qed.

(* rd_follow (the judge's leak-aware reader) without any leak: the outputs are the messages and
   the dictionaries are wins_after, i.e. the writer's *)
Lemma rd_follow_no_leak c ms : forall w,
  map fst (rd_follow c w (map (fun m => (m, false)) ms)) = ms /\
  map snd (rd_follow c w (map (fun m => (m, false)) ms)) = wins_after c w ms.
Proof.
  induction ms as [|m ms IH]; intros w; [split; reflexivity|].
  cbn [map rd_follow wins_after fst snd].
  destruct (IH (match mode_of c with MTakeover => win_next (window_size c) w m | _ => w end)) as [E1 E2].
  split; f_equal; assumption.
Qed.

(* a leak on a non-empty dictionary always shows: the reader's output is not the message *)
Lemma rd_follow_leak_shows c w m ms : w <> [] ->
  exists w', rd_follow c w ((m, true) :: ms) = (w ++ m, w') :: rd_follow c w' ms /\ w ++ m <> m.
Proof.
  intros Hne. cbn [rd_follow fst snd]. eexists. split; [reflexivity|].
  intros E. apply Hne. apply (f_equal (@length N)) in E. rewrite app_length in E.
  destruct w; [reflexivity | cbn in E; lia].
Qed.

(* F29, about the FORMER Transport.Read (drains = false; repaired in /repo by 1ebe65c): on a Conn
   with the coder/nhooyr rule, with compression on, every read after the first failed *)
Lemma former_read_strict_conn_loses_messages m r rest : m <> MOff ->
  conn_rule_gen false true m (r :: rest) = r :: map (fun _ => None) rest.
Proof. destruct m; [congruence | reflexivity | reflexivity]. Qed.

(* Read as it is now drains the message reader: the rule of the Conn has no effect ... *)
Lemma conn_rule_id strict m reads : conn_rule strict m reads = reads.
Proof.
  unfold conn_rule, conn_rule_gen, read_drains_to_eof. rewrite andb_false_r.
  destruct m, reads; reflexivity.
Qed.

(* ... so on a strict Conn as on a lenient one, for every configuration and message sequence,
   the peer's reads are the written messages, in order, one per call (under inflate_deflate) *)
Lemma delivery_on_any_conn deflate inflate :
  (forall l d m, inflate d (deflate l d m) = (m, true)) ->
  forall strict c ms tx rx, tx_win tx = rx_win rx ->
  conn_rule strict (mode_of c) (snd (rx_run inflate c rx (snd (tx_run deflate c tx ms)))) = map Some ms.
Proof. intros H strict c ms tx rx Hw. rewrite conn_rule_id. now apply (delivery deflate inflate H). Qed.

(* Lemmas about Model/Codec.v: the generic round trip of inverse conversion pairs, the primitive
   lemmas, the finite obligations over the generated tables, the codec wrappers. *)
From Coq Require Import List NArith ZArith Bool Lia ZifyN ZifyNat ZifyBool.
From Iscp Require Import Gen.Enums Gen.Conv Model.Codec.
Import ListNotations.
Open Scope Z_scope.

(* ---------- induction principle for the nested type ---------- *)

Definition is_leaf (c : conv) : bool :=
  match c with
  | Opt _ | NilOk _ | NilTo _ _ | MapList _ | MapVals _ | Struct _ _ | Oneof _ => false
  | _ => true
  end.

Section ConvInd.
  Variable P : conv -> Prop.
  Hypothesis Hleaf : forall c, is_leaf c = true -> P c.
  Hypothesis HOpt : forall c, P c -> P (Opt c).
  Hypothesis HNilOk : forall c, P c -> P (NilOk c).
  Hypothesis HNilTo : forall z c, P c -> P (NilTo z c).
  Hypothesis HMapList : forall c, P c -> P (MapList c).
  Hypothesis HMapVals : forall c, P c -> P (MapVals c).
  Hypothesis HStruct : forall n fs, Forall (fun ic => P (snd ic)) fs -> P (Struct n fs).
  Hypothesis HOneof : forall alts, Forall (fun a => P (snd (snd a))) alts -> P (Oneof alts).

  Fixpoint conv_ind' (c : conv) : P c :=
    match c with
    | Opt c1 => HOpt c1 (conv_ind' c1)
    | NilOk c1 => HNilOk c1 (conv_ind' c1)
    | NilTo z c1 => HNilTo z c1 (conv_ind' c1)
    | MapList c1 => HMapList c1 (conv_ind' c1)
    | MapVals c1 => HMapVals c1 (conv_ind' c1)
    | Struct n fs =>
        HStruct n fs ((fix G (fs : list (nat * conv)) : Forall (fun ic => P (snd ic)) fs :=
                         match fs with
                         | [] => Forall_nil _
                         | ic :: fs' => Forall_cons ic (conv_ind' (snd ic)) (G fs')
                         end) fs)
    | Oneof alts =>
        HOneof alts ((fix G (alts : list (N * (N * conv))) : Forall (fun a => P (snd (snd a))) alts :=
                        match alts with
                        | [] => Forall_nil _
                        | a :: alts' => Forall_cons a (conv_ind' (snd (snd a))) (G alts')
                        end) alts)
    | Copy => Hleaf Copy eq_refl
    | U8ToU32 => Hleaf U8ToU32 eq_refl
    | U32ToU8 => Hleaf U32ToU8 eq_refl
    | I64ToU64 => Hleaf I64ToU64 eq_refl
    | U64ToI64 => Hleaf U64ToI64 eq_refl
    | DurToSec => Hleaf DurToSec eq_refl
    | SecToDur => Hleaf SecToDur eq_refl
    | DurToMs => Hleaf DurToMs eq_refl
    | MsToDur => Hleaf MsToDur eq_refl
    | UuidToBytes => Hleaf UuidToBytes eq_refl
    | BytesToUuid => Hleaf BytesToUuid eq_refl
    | MustUuid => Hleaf MustUuid eq_refl
    | UuidToString => Hleaf UuidToString eq_refl
    | ParseUuid => Hleaf ParseUuid eq_refl
    | TimeToNanos => Hleaf TimeToNanos eq_refl
    | TimeToNanosOrZero => Hleaf TimeToNanosOrZero eq_refl
    | NanosToUtc => Hleaf NanosToUtc eq_refl
    | EnumTbl t => Hleaf (EnumTbl t) eq_refl
    end.
End ConvInd.

(* ---------- characterisation of the nested fixpoints ---------- *)

Fixpoint oseq {A} (l : list (outcome A)) : outcome (list A) :=
  match l with
  | [] => Ok []
  | o :: l' => obind o (fun y => omap (cons y) (oseq l'))
  end.

Lemma eval_struct n fs ws :
  eval (Struct n fs) (VStruct ws) =
  omap VStruct (oseq (map (fun ic => eval (snd ic) (nth (fst ic) ws VNil)) fs)).
Proof.
  cbn [eval]. f_equal. induction fs as [|[i c1] fs IH]; [reflexivity|].
  cbn [map oseq fst snd]. rewrite <- IH. reflexivity.
Qed.

Lemma eval_maplist c1 l :
  eval (MapList c1) (VList l) = omap VList (oseq (map (eval c1) l)).
Proof.
  cbn [eval]. f_equal. induction l as [|x l IH]; [reflexivity|].
  cbn [map oseq]. rewrite <- IH. reflexivity.
Qed.

Lemma eval_mapvals c1 l :
  eval (MapVals c1) (VMap l) =
  omap VMap (oseq (map (fun kx => omap (pair (fst kx)) (eval c1 (snd kx))) l)).
Proof.
  cbn [eval]. f_equal. induction l as [|[k x] l IH]; [reflexivity|].
  cbn [map oseq fst snd]. rewrite <- IH. destruct (eval c1 x); reflexivity.
Qed.

Lemma eval_oneof alts t x :
  eval (Oneof alts) (VOneof t x) =
  match lookupN t alts with
  | Some (t1, c1) => omap (VOneof t1) (eval c1 x)
  | None => Err
  end.
Proof.
  cbn [eval]. induction alts as [|[t0 [t1 c1]] alts IH]; [reflexivity|].
  cbn [lookupN]. destruct (t0 =? t)%N; [reflexivity | exact IH].
Qed.

Lemma in_range_struct n fs ws :
  in_range (Struct n fs) (VStruct ws) =
  Nat.eqb (length ws) n &&
  forallb (fun ic => Nat.ltb (fst ic) n && in_range (snd ic) (nth (fst ic) ws VNil)) fs.
Proof.
  cbn [in_range]. f_equal. induction fs as [|[i c1] fs IH]; [reflexivity|].
  cbn [forallb fst snd]. rewrite <- IH. reflexivity.
Qed.

Lemma in_range_oneof alts t x :
  in_range (Oneof alts) (VOneof t x) =
  match lookupN t alts with Some (_, c1) => in_range c1 x | None => false end.
Proof.
  cbn [in_range]. induction alts as [|[t0 [t1 c1]] alts IH]; [reflexivity|].
  cbn [lookupN]. destruct (t0 =? t)%N; [reflexivity | exact IH].
Qed.

Fixpoint canon_fields (fs : list (nat * conv)) (i : nat) (ws : list value) : list value :=
  match ws with
  | [] => []
  | w :: ws' => (match find_src i fs with Some c1 => canon c1 w | None => w end) :: canon_fields fs (S i) ws'
  end.

Lemma canon_struct n fs ws : canon (Struct n fs) (VStruct ws) = VStruct (canon_fields fs 0 ws).
Proof.
  cbn [canon]. f_equal.
  assert (P : forall w i,
    (fix pick (fs0 : list (nat * conv)) : value :=
       match fs0 with
       | [] => w
       | (j, c1) :: fs' => if Nat.eqb j i then canon c1 w else pick fs'
       end) fs = match find_src i fs with Some c1 => canon c1 w | None => w end).
  { intros w i. induction fs as [|[j c1] fs IHf]; [reflexivity|].
    cbn [find_src]. destruct (Nat.eqb j i); [reflexivity | exact IHf]. }
  generalize 0%nat as i. induction ws as [|w ws IH]; intros i; [reflexivity|].
  cbn [canon_fields]. rewrite <- IH, <- P. reflexivity.
Qed.

Lemma canon_oneof alts t x :
  canon (Oneof alts) (VOneof t x) =
  VOneof (canon_tag alts t) (match lookupN t alts with Some (_, c1) => canon c1 x | None => x end).
Proof.
  cbn [canon]. f_equal. induction alts as [|[t0 [t1 c1]] alts IH]; [reflexivity|].
  cbn [lookupN]. destruct (t0 =? t)%N; [reflexivity | exact IH].
Qed.

Fixpoint inv_go (fs : list (nat * conv)) (i : nat) (gs : list (nat * conv)) : bool :=
  match gs with
  | [] => true
  | (j, c1') :: gs' =>
      match nth_error fs j with
      | Some (i0, c1) => Nat.eqb i0 i && inverse_pair c1 c1'
      | None => false
      end && inv_go fs (S i) gs'
  end.
Fixpoint nodup_src (fs : list (nat * conv)) : bool :=
  match fs with
  | [] => true
  | (i0, _) :: fs' => negb (existsb (fun f => Nat.eqb (fst f) i0) fs') && nodup_src fs'
  end.

Lemma inverse_pair_struct n fs m gs :
  inverse_pair (Struct n fs) (Struct m gs) =
  Nat.eqb (length gs) n && Nat.eqb (length fs) m && inv_go fs 0 gs && nodup_src fs.
Proof.
  cbn [inverse_pair].
  assert (A : forall i,
    (fix go (i : nat) (gs0 : list (nat * conv)) {struct gs0} : bool :=
       match gs0 with
       | [] => true
       | (j, c1') :: gs' =>
           (fix at_j (k : nat) (fs0 : list (nat * conv)) {struct fs0} : bool :=
              match fs0 with
              | [] => false
              | (i0, c1) :: fs' => if Nat.eqb k j then Nat.eqb i0 i && inverse_pair c1 c1' else at_j (S k) fs'
              end) 0%nat fs && go (S i) gs'
       end) i gs = inv_go fs i gs).
  { induction gs as [|[j c1'] gs IH]; intros i; [reflexivity|].
    cbn [inv_go]. rewrite <- IH.
    (* at_j k fs0 = lookup of position j - k *)
    assert (H : forall fs0 k, (k <= j)%nat ->
      (fix at_j (k : nat) (fs0 : list (nat * conv)) {struct fs0} : bool :=
         match fs0 with
         | [] => false
         | (i0, c1) :: fs' => if Nat.eqb k j then Nat.eqb i0 i && inverse_pair c1 c1' else at_j (S k) fs'
         end) k fs0 =
      match nth_error fs0 (j - k) with Some (i0, c1) => Nat.eqb i0 i && inverse_pair c1 c1' | None => false end).
    { induction fs0 as [|[i0 c1] fs0 IHf]; intros k Hk.
      - destruct (j - k)%nat; reflexivity.
      - destruct (Nat.eqb k j) eqn:E.
        + apply Nat.eqb_eq in E. subst k. rewrite Nat.sub_diag. reflexivity.
        + apply Nat.eqb_neq in E. rewrite IHf by lia.
          replace (j - k)%nat with (S (j - S k)) by lia. reflexivity. }
    rewrite (H fs 0%nat) by lia. rewrite Nat.sub_0_r. reflexivity. }
  assert (B : (fix nodup (fs0 : list (nat * conv)) : bool :=
                 match fs0 with
                 | [] => true
                 | (i0, _) :: fs' => negb (existsb (fun f => Nat.eqb (fst f) i0) fs') && nodup fs'
                 end) fs = nodup_src fs).
  { clear A. induction fs as [|[i0 c0] fs IH]; [reflexivity|]. cbn [nodup_src]. rewrite <- IH. reflexivity. }
  rewrite A, B. reflexivity.
Qed.

Lemma inverse_pair_oneof alts alts' :
  inverse_pair (Oneof alts) (Oneof alts') =
  forallb (fun a => match lookupN (fst (snd a)) alts' with
                    | Some (u1, c1') => (u1 =? canon_tag alts (fst a))%N && inverse_pair (snd (snd a)) c1'
                    | None => false
                    end) alts.
Proof.
  cbn [inverse_pair].
  assert (L : forall (ct : N) t1 c1,
    (fix look (alts1 : list (N * (N * conv))) : bool :=
       match alts1 with
       | [] => false
       | (u0, (u1, c1')) :: rest' =>
           if (u0 =? t1)%N then (u1 =? ct)%N && inverse_pair c1 c1' else look rest'
       end) alts' =
    match lookupN t1 alts' with Some (u1, c1') => (u1 =? ct)%N && inverse_pair c1 c1' | None => false end).
  { intros ct t1 c1. induction alts' as [|[u0 [u1 c1']] rest' IH']; [reflexivity|].
    cbn [lookupN]. destruct (u0 =? t1)%N; [reflexivity | exact IH']. }
  (* the table of the canonical tags is the full [alts]; generalise the traversed suffix *)
  generalize alts at 1 3 as full. intros full.
  induction alts as [|[t0 [t1 c1]] rest IH]; [reflexivity|].
  cbn [forallb fst snd]. rewrite <- IH, <- L. reflexivity.
Qed.

(* ---------- primitive lemmas ---------- *)

Lemma wrap64s_id z : int64b z = true -> wrap64s z = z.
Proof. unfold int64b, wrap64s, two63, two64. intros H. lia. Qed.

Lemma u64_i64_roundtrip z : int64b z = true -> wrap64s (z mod two64) = z.
Proof. unfold int64b, wrap64s, two63, two64. intros H. lia. Qed.

Lemma u8_roundtrip z : 0 <= z < 256 -> z mod 256 = z.
Proof. intros. apply Z.mod_small. lia. Qed.

(* durations at second resolution: exact truncation in the modelled domain *)
Lemma dur_sec_roundtrip d : dur_sec_okb d = true -> (Z.quot d e9 mod two32) * e9 = d / e9 * e9.
Proof.
  unfold dur_sec_okb, e9, two32. intros H.
  assert (0 <= d) by lia. rewrite Z.quot_div_nonneg by lia.
  rewrite Z.mod_small; [reflexivity|]. split; [apply Z.div_pos; lia | lia].
Qed.
Lemma dur_sec_canon d : 0 <= d -> d / e9 * e9 = d - d mod e9.
Proof. unfold e9. intros. lia. Qed.

Lemma dur_ms_roundtrip d : dur_ms_okb d = true -> (Z.quot d e6 mod two32) * e6 = d / e6 * e6.
Proof.
  unfold dur_ms_okb, e6, two32. intros H.
  assert (0 <= d) by lia. rewrite Z.quot_div_nonneg by lia.
  rewrite Z.mod_small; [reflexivity|]. split; [apply Z.div_pos; lia | lia].
Qed.

(* uuid String / Parse *)
Open Scope N_scope.
Definition all_bytes : list N := map N.of_nat (seq 0 256).
Lemma xtob_hexd_all : forallb (fun b => match xtob (hexd (b / 16)) (hexd (b mod 16)) with Some x => x =? b | None => false end) all_bytes = true.
Proof. vm_compute. reflexivity. Qed.
Lemma in_all_bytes b : b < 256 -> In b all_bytes.
Proof.
  intros H. unfold all_bytes. apply in_map_iff. exists (N.to_nat b). split; [lia|].
  apply in_seq. lia.
Qed.
Lemma xtob_hexd b : b < 256 -> xtob (hexd (b / 16)) (hexd (b mod 16)) = Some b.
Proof.
  intros H. pose proof xtob_hexd_all as A. rewrite forallb_forall in A.
  specialize (A b (in_all_bytes b H)).
  destruct (xtob (hexd (b / 16)) (hexd (b mod 16))); [|discriminate].
  apply N.eqb_eq in A. now subst.
Qed.
Lemma unhex_hexs l : bytes_okb l = true -> unhex (hexs l) = Some l.
Proof.
  induction l as [|b l IH]; intros H; [reflexivity|].
  cbn [bytes_okb forallb] in H. apply andb_true_iff in H as [Hb Hl]. apply N.ltb_lt in Hb.
  cbn [hexs unhex]. rewrite (xtob_hexd b Hb). rewrite (IH Hl). reflexivity.
Qed.
Lemma hexd_not_dash n : n < 16 -> hexd n <> 45.
Proof. unfold hexd. intros H. destruct (n <? 10) eqn:E; lia. Qed.

Lemma parse_uuid_string u :
  length u = 16%nat -> bytes_okb u = true -> parse_uuid (uuid_string u) = Some u.
Proof.
  intros Hlen Hok.
  do 17 (destruct u as [|? u]; try discriminate Hlen). clear Hlen.
  cbn [bytes_okb forallb] in Hok. repeat rewrite andb_true_iff in Hok.
  repeat match goal with H : _ /\ _ |- _ => destruct H end.
  repeat match goal with H : (_ <? 256) = true |- _ => apply N.ltb_lt in H end.
  unfold parse_uuid, uuid_string.
  cbn [firstn skipn hexs app length Nat.eqb].
  unfold parse36. cbn [nth firstn skipn N.eqb Pos.eqb andb unhex].
  repeat (rewrite xtob_hexd by assumption). reflexivity.
Qed.
Open Scope Z_scope.

(* enum tables *)
Lemma lookupZ_In {V} k (m : list (Z * V)) v : lookupZ k m = Some v -> In (k, v) m.
Proof.
  induction m as [|[k' v'] m IH]; cbn [lookupZ]; [discriminate|].
  destruct (k' =? k) eqn:E; intros H.
  - apply Z.eqb_eq in E. injection H as ->. subst. now left.
  - right. auto.
Qed.

Lemma tbl_roundtrip t t' k w :
  tbl_inverse t t' = true -> lookupZ k t = Some w -> lookupZ w t' = Some (canon_key t k).
Proof.
  unfold tbl_inverse. intros H L. rewrite forallb_forall in H.
  specialize (H _ (lookupZ_In _ _ _ L)). cbn [fst snd] in H.
  destruct (lookupZ w t') as [k'|]; [|discriminate]. apply Z.eqb_eq in H. now subst.
Qed.

(* ---------- the generic round trip ---------- *)

Lemma oseq_ok_map {A B} (f : A -> outcome B) (g : A -> B) l :
  (forall x, In x l -> f x = Ok (g x)) -> oseq (map f l) = Ok (map g l).
Proof.
  induction l as [|x l IH]; intros H; [reflexivity|].
  cbn [map oseq]. rewrite (H x (or_introl eq_refl)). cbn [obind].
  rewrite IH by (intros; apply H; now right). reflexivity.
Qed.

(* forward conversion on its domain succeeds, and every backward partner brings the result to
   the canonical form *)
Definition rt_prop (c : conv) : Prop :=
  forall v, in_range c v = true ->
    exists p, eval c v = Ok p /\
      (is_struct c = true -> exists l, p = VStruct l) /\
      forall c', inverse_pair c c' = true -> eval c' p = Ok (canon c v).

Ltac inv_leaf c' := destruct c'; try discriminate.

Lemma rt_leaf c : is_leaf c = true -> rt_prop c.
Proof.
  intros Hl v Hr. destruct c; try discriminate Hl; cbn [in_range] in Hr; try discriminate Hr.
  - (* Copy *) exists v. split; [reflexivity|]. split; [discriminate|]. intros c' H; inv_leaf c'. reflexivity.
  - (* U8ToU32 *) destruct v; try discriminate. exists (VInt z). split; [reflexivity|]. split; [discriminate|].
    intros c' H; inv_leaf c'. cbn. rewrite u8_roundtrip by lia. reflexivity.
  - (* I64ToU64 *) destruct v; try discriminate. eexists. split; [reflexivity|]. split; [discriminate|].
    intros c' H; inv_leaf c'. cbn [eval eval_prim_int canon]. now rewrite u64_i64_roundtrip.
  - (* DurToSec *) destruct v; try discriminate. eexists. split; [reflexivity|]. split; [discriminate|].
    intros c' H; inv_leaf c'. cbn [eval eval_prim_int canon]. now rewrite dur_sec_roundtrip.
  - (* DurToMs *) destruct v; try discriminate. eexists. split; [reflexivity|]. split; [discriminate|].
    intros c' H; inv_leaf c'. cbn [eval eval_prim_int canon]. now rewrite dur_ms_roundtrip.
  - (* UuidToBytes *) destruct v; try discriminate. eexists. split; [reflexivity|]. split; [discriminate|].
    intros c' H; inv_leaf c'; cbn [eval canon]; now rewrite Hr.
  - (* UuidToString *) destruct v; try discriminate. apply andb_true_iff in Hr as [H1 H2]. apply Nat.eqb_eq in H1.
    eexists. split; [reflexivity|]. split; [discriminate|].
    intros c' H; inv_leaf c'. cbn [eval canon]. now rewrite parse_uuid_string.
  - (* TimeToNanos *) destruct v; try discriminate. eexists. split; [reflexivity|]. split; [discriminate|].
    intros c' H; inv_leaf c'. cbn [eval eval_prim_int canon]. now rewrite wrap64s_id.
  - (* TimeToNanosOrZero *) destruct v; try discriminate. eexists. split; [reflexivity|]. split; [discriminate|].
    intros c' H; inv_leaf c'. cbn [eval eval_prim_int canon].
    destruct (ns =? zero_time_ns) eqn:E; [reflexivity|].
    rewrite orb_false_r in Hr. now rewrite wrap64s_id.
  - (* EnumTbl *) destruct v; try discriminate. destruct (lookupZ z t) as [w|] eqn:L; [|discriminate].
    exists (VInt w). split; [cbn; now rewrite L|]. split; [discriminate|].
    intros c' H; inv_leaf c'. cbn [inverse_pair] in H. cbn [eval eval_prim_int canon].
    now rewrite (tbl_roundtrip _ _ _ _ H L).
Qed.

Lemma find_src_nth fs j i c1 :
  nodup_src fs = true -> nth_error fs j = Some (i, c1) -> find_src i fs = Some c1.
Proof.
  revert j. induction fs as [|[i0 c0] fs IH]; intros j Hn Hj; [destruct j; discriminate|].
  cbn [nodup_src] in Hn. apply andb_true_iff in Hn as [Hx Hn].
  cbn [find_src]. destruct j as [|j].
  - injection Hj as -> ->. now rewrite Nat.eqb_refl.
  - cbn [nth_error] in Hj. destruct (Nat.eqb i0 i) eqn:E.
    + apply Nat.eqb_eq in E. subst i0. apply negb_true_iff in Hx.
      assert (existsb (fun f => Nat.eqb (fst f) i) fs = true).
      { apply existsb_exists. exists (i, c1). split; [eapply nth_error_In; eauto | apply Nat.eqb_refl]. }
      congruence.
    + eauto.
Qed.

Lemma skipn_S_cons {A} i (ws : list A) w rest : skipn i ws = w :: rest -> skipn (S i) ws = rest.
Proof.
  revert ws. induction i as [|i IH]; intros ws H.
  - cbn [skipn] in H. subst ws. reflexivity.
  - destruct ws as [|x ws]; [discriminate|]. cbn [skipn] in H. apply IH in H. exact H.
Qed.

Lemma rt_struct n fs : Forall (fun ic => rt_prop (snd ic)) fs -> rt_prop (Struct n fs).
Proof.
  intros IH v Hr. destruct v; try discriminate Hr.
  rename fs0 into ws. rewrite in_range_struct in Hr. apply andb_true_iff in Hr as [Hlen Hr].
  apply Nat.eqb_eq in Hlen. rewrite forallb_forall in Hr. rewrite Forall_forall in IH.
  (* the forward results, field by field *)
  assert (Hfwd : forall ic, In ic fs -> exists p, eval (snd ic) (nth (fst ic) ws VNil) = Ok p /\
            forall c', inverse_pair (snd ic) c' = true -> eval c' p = Ok (canon (snd ic) (nth (fst ic) ws VNil))).
  { intros ic Hin. specialize (Hr ic Hin). apply andb_true_iff in Hr as [_ Hr].
    destruct (IH ic Hin _ Hr) as (p & E & _ & B). eauto. }
  assert (Hps : exists ps, oseq (map (fun ic => eval (snd ic) (nth (fst ic) ws VNil)) fs) = Ok ps /\
            length ps = length fs /\
            forall j ic, nth_error fs j = Some ic ->
              forall c', inverse_pair (snd ic) c' = true ->
                eval c' (nth j ps VNil) = Ok (canon (snd ic) (nth (fst ic) ws VNil))).
  { clear Hr IH. induction fs as [|ic fs IHf].
    - exists []. split; [reflexivity|]. split; [reflexivity|]. intros [|j] ? H; discriminate H.
    - destruct (Hfwd ic (or_introl eq_refl)) as (p & E & B).
      destruct IHf as (ps & E2 & L2 & B2); [intros; apply Hfwd; now right|].
      exists (p :: ps). cbn [map oseq]. rewrite E. cbn [obind]. rewrite E2. split; [reflexivity|].
      split; [cbn; now rewrite L2|].
      intros [|j] ic0 Hj c' Hinv; cbn [nth_error nth] in *.
      + injection Hj as <-. auto.
      + eauto. }
  destruct Hps as (ps & Eps & Lps & Bps).
  exists (VStruct ps). split; [rewrite eval_struct, Eps; reflexivity|].
  split; [eauto|].
  intros c' Hinv. destruct c' as [ | | | | | | | | | | | | | | | | | ? | ? | ? | ? ? | ? | ? | m gs | ?]; try discriminate Hinv.
  rewrite inverse_pair_struct in Hinv.
  repeat (apply andb_true_iff in Hinv; destruct Hinv as [Hinv ?]).
  rename H into Hnd. rename H0 into Hgo. rename H1 into Hlf. apply Nat.eqb_eq in Hinv.
  rewrite eval_struct, canon_struct.
  (* generalise over the suffix of the wire fields still to produce *)
  assert (G : forall gs0 i, inv_go fs i gs0 = true -> length (skipn i ws) = length gs0 ->
            oseq (map (fun jc => eval (snd jc) (nth (fst jc) ps VNil)) gs0) = Ok (canon_fields fs i (skipn i ws))).
  { induction gs0 as [|[j c1'] gs0 IHg]; intros i Hg Hl.
    - destruct (skipn i ws); [reflexivity | discriminate].
    - cbn [inv_go] in Hg. apply andb_true_iff in Hg as [Hj Hg].
      destruct (nth_error fs j) as [[i0 c1]|] eqn:Ej; [|discriminate].
      apply andb_true_iff in Hj as [Hi Hp]. apply Nat.eqb_eq in Hi. subst i0.
      destruct (skipn i ws) as [|w rest] eqn:Esk; [discriminate|].
      assert (Hw : nth i ws VNil = w).
      { rewrite <- (firstn_skipn i ws) at 1. rewrite Esk.
        assert (length (firstn i ws) = i).
        { apply firstn_length_le. assert (length (skipn i ws) = length ws - i)%nat by apply skipn_length.
          rewrite Esk in H. cbn in H. lia. }
        rewrite app_nth2 by lia. replace (i - length (firstn i ws))%nat with 0%nat by lia. reflexivity. }
      assert (Hrest : skipn (S i) ws = rest).
      { apply (skipn_S_cons _ _ _ _ Esk). }
      cbn [map oseq fst snd canon_fields].
      rewrite (Bps j (i, c1) Ej c1' Hp). cbn [obind fst snd].
      rewrite (find_src_nth fs j i c1 Hnd Ej). rewrite Hw.
      rewrite <- Hrest. rewrite (IHg (S i) Hg); [reflexivity|].
      rewrite Hrest. cbn in Hl. lia. }
  rewrite (G gs 0%nat Hgo); [reflexivity|]. cbn [skipn]. lia.
Qed.

Lemma lookupN_In {V} k (m : list (N * V)) v : lookupN k m = Some v -> In (k, v) m.
Proof.
  induction m as [|[k' v'] m IH]; cbn [lookupN]; [discriminate|].
  destruct (k' =? k)%N eqn:E; intros H.
  - apply N.eqb_eq in E. injection H as ->. subst. now left.
  - right. auto.
Qed.

Lemma rt_oneof alts : Forall (fun a => rt_prop (snd (snd a))) alts -> rt_prop (Oneof alts).
Proof.
  intros IH v Hr. destruct v; try discriminate Hr.
  rewrite in_range_oneof in Hr. destruct (lookupN tag alts) as [[t1 c1]|] eqn:L; [|discriminate].
  rewrite Forall_forall in IH. pose proof (lookupN_In _ _ _ L) as Hin.
  destruct (IH _ Hin _ Hr) as (p & E & _ & B). cbn [snd] in *.
  exists (VOneof t1 p). split; [rewrite eval_oneof, L, E; reflexivity|]. split; [discriminate|].
  intros c' Hinv. destruct c' as [ | | | | | | | | | | | | | | | | | ? | ? | ? | ? ? | ? | ? | ? ? | alts']; try discriminate Hinv.
  rewrite inverse_pair_oneof in Hinv. rewrite forallb_forall in Hinv.
  specialize (Hinv _ Hin). cbn [fst snd] in Hinv.
  destruct (lookupN t1 alts') as [[u1 c1']|] eqn:L'; [|discriminate].
  apply andb_true_iff in Hinv as [Hu Hp]. apply N.eqb_eq in Hu. subst u1.
  rewrite eval_oneof, L', (B _ Hp), canon_oneof, L. reflexivity.
Qed.

Lemma rt_maplist c : rt_prop c -> rt_prop (MapList c).
Proof.
  intros IH v Hr. destruct v; try discriminate Hr.
  - exists (VList []). split; [reflexivity|]. split; [discriminate|].
    intros c' H; destruct c'; try discriminate H. reflexivity.
  - cbn [in_range] in Hr. rewrite forallb_forall in Hr.
    assert (Hps : exists ps, oseq (map (eval c) l) = Ok ps /\
              forall c', inverse_pair c c' = true -> oseq (map (eval c') ps) = Ok (map (canon c) l)).
    { induction l as [|x l IHl].
      - exists []. split; [reflexivity|]. reflexivity.
      - destruct (IH x (Hr x (or_introl eq_refl))) as (p & E & _ & B).
        destruct IHl as (ps & E2 & B2); [intros; apply Hr; now right|].
        exists (p :: ps). cbn [map oseq]. rewrite E. cbn [obind]. rewrite E2. split; [reflexivity|].
        intros c' Hinv. rewrite (B _ Hinv). cbn [obind]. rewrite (B2 _ Hinv). reflexivity. }
    destruct Hps as (ps & E & B).
    exists (VList ps). split; [rewrite eval_maplist, E; reflexivity|]. split; [discriminate|].
    intros c' H; destruct c'; try discriminate H. cbn [inverse_pair] in H.
    rewrite eval_maplist, (B _ H). reflexivity.
Qed.

Lemma rt_mapvals c : rt_prop c -> rt_prop (MapVals c).
Proof.
  intros IH v Hr. destruct v; try discriminate Hr.
  - exists (VMap []). split; [reflexivity|]. split; [discriminate|].
    intros c' H; destruct c'; try discriminate H. reflexivity.
  - cbn [in_range] in Hr. rewrite forallb_forall in Hr.
    assert (Hps : exists ps, oseq (map (fun kx => omap (pair (fst kx)) (eval c (snd kx))) l) = Ok ps /\
              forall c', inverse_pair c c' = true ->
                oseq (map (fun kx => omap (pair (fst kx)) (eval c' (snd kx))) ps) =
                Ok (map (fun kx => (fst kx, canon c (snd kx))) l)).
    { induction l as [|[k x] l IHl].
      - exists []. split; reflexivity.
      - destruct (IH x (Hr (k, x) (or_introl eq_refl))) as (p & E & _ & B).
        destruct IHl as (ps & E2 & B2); [intros; apply Hr; now right|].
        exists ((k, p) :: ps). cbn [map oseq fst snd]. rewrite E. cbn [omap obind]. rewrite E2. split; [reflexivity|].
        intros c' Hinv. rewrite (B _ Hinv). cbn [omap obind]. rewrite (B2 _ Hinv). reflexivity. }
    destruct Hps as (ps & E & B).
    exists (VMap ps). split; [rewrite eval_mapvals, E; reflexivity|]. split; [discriminate|].
    intros c' H; destruct c'; try discriminate H. cbn [inverse_pair] in H.
    rewrite eval_mapvals, (B _ H). reflexivity.
Qed.

Lemma rt_opt c : rt_prop c -> rt_prop (Opt c).
Proof.
  intros IH v Hr. destruct (match v with VNil => true | _ => false end) eqn:Ev.
  - destruct v; try discriminate Ev. exists VNil. split; [reflexivity|]. split; [discriminate|].
    intros c' H; destruct c'; try discriminate H. reflexivity.
  - assert (Hr' : in_range c v = true) by (destruct v; try discriminate Ev; exact Hr).
    destruct (IH v Hr') as (p & E & S & B).
    exists p. split; [destruct v; try discriminate Ev; exact E|]. split; [discriminate|].
    intros c' H; destruct c'; try discriminate H. cbn [inverse_pair] in H.
    apply andb_true_iff in H as [Hs Hp]. destruct (S Hs) as (l & ->).
    cbn [eval]. rewrite (B _ Hp). destruct v; try discriminate Ev; reflexivity.
Qed.

Lemma rt_nilok c : rt_prop c -> rt_prop (NilOk c).
Proof.
  intros IH v Hr. destruct (match v with VNil => true | _ => false end) eqn:Ev.
  - destruct v; discriminate.
  - assert (Hr' : in_range c v = true) by (destruct v; try discriminate Ev; exact Hr).
    destruct (IH v Hr') as (p & E & S & B).
    exists p. split; [destruct v; try discriminate Ev; exact E|]. split; [discriminate|].
    intros c' H. cbn [inverse_pair] in H. rewrite (B _ H). destruct v; try discriminate Ev; reflexivity.
Qed.

Lemma rt_nilto z c : rt_prop c -> rt_prop (NilTo z c).
Proof.
  intros IH v Hr. destruct (match v with VNil => true | _ => false end) eqn:Ev.
  - destruct v; discriminate.
  - assert (Hr' : in_range c v = true) by (destruct v; try discriminate Ev; exact Hr).
    destruct (IH v Hr') as (p & E & S & B).
    exists p. split; [destruct v; try discriminate Ev; exact E|]. split; [discriminate|].
    intros c' H; destruct c'; try discriminate H; cbn [inverse_pair] in H.
    + apply andb_true_iff in H as [Hs Hp]. destruct (S Hs) as (l & ->).
      cbn [eval]. rewrite (B _ Hp). destruct v; try discriminate Ev; reflexivity.
    + (* the backward side is the plain struct conversion (nil rejected) *)
      apply andb_true_iff in H as [Hs Hp]. rewrite (B _ Hp). destruct v; try discriminate Ev; reflexivity.
Qed.

Lemma rt_all c : rt_prop c.
Proof.
  induction c using conv_ind'.
  - now apply rt_leaf.
  - now apply rt_opt.
  - now apply rt_nilok.
  - now apply rt_nilto.
  - now apply rt_maplist.
  - now apply rt_mapvals.
  - now apply rt_struct.
  - now apply rt_oneof.
Qed.

Theorem conv_roundtrip c c' v :
  inverse_pair c c' = true -> in_range c v = true ->
  obind (eval c v) (eval c') = Ok (canon c v).
Proof.
  intros Hinv Hr. destruct (rt_all c v Hr) as (p & E & _ & B).
  rewrite E. cbn [obind]. auto.
Qed.

Theorem conv_forward_total c v : in_range c v = true -> exists p, eval c v = Ok p.
Proof. intros Hr. destruct (rt_all c v Hr) as (p & E & _). eauto. Qed.

(* ---------- the converters of the source are an inverse pair ---------- *)

Lemma all_messages_inverse : inverse_pair w2p_msg p2w_msg = true.
Proof. vm_compute. reflexivity. Qed.

Theorem message_roundtrip m :
  in_range w2p_msg m = true -> obind (eval w2p_msg m) (eval p2w_msg) = Ok (canon w2p_msg m).
Proof. apply conv_roundtrip. exact all_messages_inverse. Qed.

Lemma model_roundtrip_canon m :
  in_range w2p_msg m = true -> model_roundtrip m = Ok (canon w2p_msg m).
Proof.
  intros Hr. unfold model_roundtrip. pose proof (message_roundtrip m Hr) as H.
  destruct (eval w2p_msg m) as [p| |]; try discriminate H. cbn [recovered obind] in *.
  rewrite H. reflexivity.
Qed.

(* ---------- codec wrappers over an abstract byte layer ---------- *)

Section CodecLayer.
  Variable marshal : value -> option (list N).
  Variable unmarshal : list N -> option value.
  (* the structures on which the third-party byte layer is specified (e.g. strings valid UTF-8) *)
  Variable wf : value -> Prop.
  Hypothesis unmarshal_marshal : forall p, wf p -> exists bs, marshal p = Some bs /\ unmarshal bs = Some p.

  Lemma codec_roundtrip re rd m :
    in_range w2p_msg m = true ->
    (forall p, eval w2p_msg m = Ok p -> wf p) ->
    exists bs, encode_to marshal re m = Ok (bs, Z.of_nat (length bs)) /\
               decode_from unmarshal rd bs = Ok (Z.of_nat (length bs), canon w2p_msg m).
  Proof.
    intros Hr Hwf. pose proof (message_roundtrip m Hr) as H.
    destruct (eval w2p_msg m) as [p| |] eqn:E; try discriminate H. cbn [obind] in H.
    destruct (unmarshal_marshal p (Hwf p eq_refl)) as (bs & M & U).
    exists bs. unfold encode_to, decode_from. rewrite E. cbn [obind]. rewrite M, U, H.
    cbn [recovered omap]. split; reflexivity.
  Qed.
End CodecLayer.

Lemma encode_count marshal re m bs n :
  encode_to marshal re m = Ok (bs, n) -> n = Z.of_nat (length bs).
Proof.
  unfold encode_to. destruct (eval w2p_msg m) as [p| |]; cbn [obind recovered].
  - destruct (marshal p); cbn [recovered]; intros H; [now injection H as <- <- | discriminate].
  - discriminate.
  - destruct re; discriminate.
Qed.

Lemma decode_count unmarshal rd bs n m :
  decode_from unmarshal rd bs = Ok (n, m) -> n = Z.of_nat (length bs).
Proof.
  unfold decode_from. destruct (unmarshal bs) as [p|]; [|discriminate].
  destruct (eval p2w_msg p); cbn [omap recovered]; intros H; try discriminate.
  - now injection H as <- _.
  - destruct rd; discriminate.
Qed.

(* two byte layers (protobuf, JSON): same decoded message *)
Lemma encodings_agree (m1 : value -> option (list N)) (u1 : list N -> option value) (wf1 : value -> Prop)
  (m2 : value -> option (list N)) (u2 : list N -> option value) (wf2 : value -> Prop) (re1 rd1 re2 rd2 : bool) m :
  (forall p, wf1 p -> exists bs, m1 p = Some bs /\ u1 bs = Some p) ->
  (forall p, wf2 p -> exists bs, m2 p = Some bs /\ u2 bs = Some p) ->
  in_range w2p_msg m = true ->
  (forall p, eval w2p_msg m = Ok p -> wf1 p /\ wf2 p) ->
  exists b1 b2 d,
    encode_to m1 re1 m = Ok (b1, Z.of_nat (length b1)) /\ decode_from u1 rd1 b1 = Ok (Z.of_nat (length b1), d) /\
    encode_to m2 re2 m = Ok (b2, Z.of_nat (length b2)) /\ decode_from u2 rd2 b2 = Ok (Z.of_nat (length b2), d) /\
    d = canon w2p_msg m.
Proof.
  intros H1 H2 Hr Hwf.
  destruct (codec_roundtrip m1 u1 wf1 H1 re1 rd1 m Hr (fun p E => proj1 (Hwf p E))) as (b1 & E1 & D1).
  destruct (codec_roundtrip m2 u2 wf2 H2 re2 rd2 m Hr (fun p E => proj2 (Hwf p E))) as (b2 & E2 & D2).
  exists b1, b2, (canon w2p_msg m). auto.
Qed.

(* ---------- C12 ---------- *)

Lemma recovered_no_panic {A} (o : outcome A) : recovered true o <> Panic.
Proof. destruct o; discriminate. Qed.

Lemma decode_no_panic unmarshal bs : decode_from unmarshal true bs <> Panic.
Proof. apply recovered_no_panic. Qed.
Lemma encode_no_panic marshal m : encode_to marshal true m <> Panic.
Proof. apply recovered_no_panic. Qed.

(* the recover is needed: the converter itself panics on structures the parsers can produce
   (JSON {"connect_request":null}: oneof wrapper with a nil inner message) *)
Lemma decode_panics_without_recover :
  exists p, eval p2w_msg p = Panic /\
    forall unmarshal bs, unmarshal bs = Some p -> decode_from unmarshal false bs = Panic.
Proof.
  exists (VOneof 0 VNil). split; [vm_compute; reflexivity|].
  intros um bs H. unfold decode_from. rewrite H. vm_compute. reflexivity.
Qed.

Lemma size_gate_spec max len :
  (max = 0 -> size_gate max len = false) /\
  (max <> 0 -> len > max -> size_gate max len = true) /\
  (max <> 0 -> len <= max -> size_gate max len = false).
Proof. unfold size_gate. destruct (max =? 0) eqn:E; lia. Qed.

(* re-encoding a decoded message: stable whenever the decoded message is in the forward domain *)
Lemma reencode_stable_in_range p m :
  eval p2w_msg p = Ok m -> in_range w2p_msg m = true -> model_roundtrip m = Ok (canon w2p_msg m).
Proof. intros _. apply model_roundtrip_canon. Qed.

(* F24 (repaired in the source; this is a statement about the FORMER conversion term, kept as a
   record): toDataPointGroup used to turn a nil group (JSON [null]) into an empty group without data
   id; the chunk then encoded and its encoding was rejected *)
Definition p_chunk_before_f24 : conv :=
  NilTo (VStruct [VInt 0; VNil]) (Struct 2 [(0%nat, Copy); (1%nat, MapList p_group_before_f24)]).
Definition f24_chunk : value := VStruct [VInt 0; VList [VNil]].
Lemma f24_former_term_refuted :
  exists m p', eval p_chunk_before_f24 f24_chunk = Ok m /\ eval w_chunk m = Ok p' /\
               eval p_chunk_before_f24 p' = Err /\ eval p_chunk p' = Err.
Proof. eexists. eexists. split; [vm_compute; reflexivity|]. split; [vm_compute; reflexivity|]. split; vm_compute; reflexivity. Qed.
(* the current term rejects the nil group *)
Lemma f24_now_rejected : eval p_chunk f24_chunk = Panic /\ model_decode true (Some (VOneof 20 (VStruct [VInt 0; f24_chunk; VList []; VNil]))) = Err.
Proof. split; vm_compute; reflexivity. Qed.

(* ---------- finite obligations over the generated tables ---------- *)
From Coq Require Import String.
Open Scope string_scope.

Fixpoint lookupS {V} (k : string) (m : list (string * V)) : option V :=
  match m with [] => None | (k', v) :: m' => if String.eqb k' k then Some v else lookupS k m' end.
Definition memS (s : string) (l : list string) : bool := existsb (String.eqb s) l.
Definition subsetS (a b : list string) : bool := forallb (fun s => memS s b) a.
(* every declared field of every struct occurs in the fact table (structs without fields may be absent) *)
Definition covered (decls facts : list (string * list string)) : bool :=
  forallb (fun d => match lookupS (fst d) facts with
                    | Some r => subsetS (snd d) r
                    | None => match snd d with [] => true | _ => false end
                    end) decls.
Definition nfields (name : string) (decls : list (string * list string)) : nat :=
  match lookupS name decls with Some l => List.length l | None => 0 end.
(* "message.X" -> "autogen.X" *)
Definition proto_of (w : string) : string := "autogen." ++ substring 8 (String.length w - 8) w.
Definition alts_of (c : conv) : list (N * (N * conv)) := match c with Oneof a => a | _ => [] end.
(* the hand-written terms have the arities of the declared structs, kind by kind *)
Definition arities_ok : bool :=
  Nat.eqb (List.length (alts_of w2p_msg)) (List.length w2p_cases) &&
  Nat.eqb (List.length (alts_of p2w_msg)) (List.length w2p_cases) &&
  forallb (fun a =>
    let w := nth (N.to_nat (fst a)) w2p_cases "" in
    match snd (snd a) with
    | Struct n fs => Nat.eqb n (nfields w wire_structs) && Nat.eqb (List.length fs) (nfields (proto_of w) proto_structs)
    | _ => false
    end) (alts_of w2p_msg) &&
  forallb (fun a =>
    let w := nth (N.to_nat (fst a)) w2p_cases "" in
    match snd (snd a) with
    | Struct n gs => Nat.eqb n (nfields (proto_of w) proto_structs) && Nat.eqb (List.length gs) (nfields w wire_structs)
    | _ => false
    end) (alts_of p2w_msg).

(* the conversion of every time.Duration field, as gen-conv recognised it in the source (exact known
   expressions only; anything else is "Unknown: ..."), is the one of the hand-written terms *)
Definition conv_name (c : conv) : string :=
  match c with
  | Copy => "Copy" | DurToSec => "DurToSec" | DurToMs => "DurToMs" | I64ToU64 => "I64ToU64"
  | SecToDur => "SecToDur" | MsToDur => "MsToDur" | U64ToI64 => "U64ToI64"
  | _ => ""
  end.
Fixpoint index_ofS (s : string) (l : list string) : option nat :=
  match l with
  | [] => None
  | x :: l' => if String.eqb x s then Some 0%nat else option_map S (index_ofS s l')
  end.
Definition strip_wrappers (c : conv) : conv :=
  match c with NilTo _ c0 => c0 | NilOk c0 => c0 | Opt c0 => c0 | _ => c end.
(* the struct conversion of a wire struct: a message (alternative of the top-level term) or a nested one *)
Definition struct_term (top : conv) (nested : list (string * conv)) (owner : string) : option conv :=
  match lookupS owner nested with
  | Some c => Some (strip_wrappers c)
  | None => match index_ofS owner w2p_cases with
            | Some k => option_map (fun a => strip_wrappers (snd a)) (lookupN (N.of_nat k) (alts_of top))
            | None => None
            end
  end.
Definition field_index (owner field : string) : option nat :=
  match lookupS owner wire_structs with Some fs => index_ofS field fs | None => None end.
(* forward: the conversion that READS wire field i *)
Definition dur_fact_fwd (f : string * (string * string)) : bool :=
  match struct_term w2p_msg [("message.BaseTime", w_base_time); ("message.DataPoint", w_point)] (fst f),
        field_index (fst f) (fst (snd f)) with
  | Some (Struct _ fs), Some i =>
      match find_src i fs with Some c => String.eqb (conv_name c) (snd (snd f)) | None => false end
  | _, _ => false
  end.
(* backward: the conversion that PRODUCES wire field i *)
Definition dur_fact_bwd (f : string * (string * string)) : bool :=
  match struct_term p2w_msg [("message.BaseTime", p_base_time); ("message.DataPoint", p_point)] (fst f),
        field_index (fst f) (fst (snd f)) with
  | Some (Struct _ gs), Some i =>
      match nth_error gs i with Some g => String.eqb (conv_name (snd g)) (snd (snd f)) | None => false end
  | _, _ => false
  end.
Definition dur_facts_ok : bool :=
  forallb dur_fact_fwd dur_conv_w2p && forallb dur_fact_bwd dur_conv_p2w &&
  Nat.eqb (List.length dur_conv_w2p) 7 && Nat.eqb (List.length dur_conv_p2w) 7.

Definition source_facts : bool :=
  covered wire_structs w2p_reads && covered wire_structs p2w_writes &&
  covered proto_structs w2p_writes && covered proto_structs p2w_reads &&
  subsetS message_impls w2p_cases && subsetS w2p_cases message_impls &&
  subsetS proto_message_wrappers p2w_cases && subsetS p2w_cases proto_message_wrappers &&
  subsetS (map (fun w => "autogen.Message_" ++ substring 8 (String.length w - 8) w) w2p_cases) p2w_cases &&
  arities_ok && dur_facts_ok.

Lemma source_facts_hold : source_facts = true.
Proof. vm_compute. reflexivity. Qed.

Definition wrapper_facts : bool :=
  has_recover_pb_enc && has_recover_pb_dec && has_recover_json_enc && has_recover_json_dec &&
  String.eqb count_pb_enc "wr.Write(buf.Bytes())" && String.eqb count_pb_dec "buffer.Len()" &&
  String.eqb count_json_enc "writtenBytes" && String.eqb count_json_dec "ird.ReadBytes" &&
  size_gate_zero_unlimited && String.eqb size_gate_op ">" && size_gate_before_decode.
Lemma wrapper_facts_hold : wrapper_facts = true.
Proof. vm_compute. reflexivity. Qed.

Lemma all_messages_inverse_and_covered :
  inverse_pair w2p_msg p2w_msg = true /\ source_facts = true.
Proof. split; [exact all_messages_inverse | exact source_facts_hold]. Qed.

Lemma no_panic_escapes_generated :
  has_recover_pb_dec = true /\ has_recover_json_dec = true /\ has_recover_pb_enc = true /\ has_recover_json_enc = true /\
  forall unmarshal bs marshal m,
    decode_from unmarshal has_recover_pb_dec bs <> Panic /\ decode_from unmarshal has_recover_json_dec bs <> Panic /\
    encode_to marshal has_recover_pb_enc m <> Panic /\ encode_to marshal has_recover_json_enc m <> Panic.
Proof.
  repeat split; try reflexivity; try apply decode_no_panic; apply encode_no_panic.
Qed.

Lemma size_gate_generated :
  size_gate_op = ">" /\ size_gate_zero_unlimited = true /\ size_gate_before_decode = true /\
  forall max len,
    (max = 0 -> size_gate max len = false) /\
    (max <> 0 -> len > max -> size_gate max len = true) /\
    (max <> 0 -> len <= max -> size_gate max len = false).
Proof. repeat split; try reflexivity; apply size_gate_spec. Qed.

(* enum tables *)
Open Scope Z_scope.
Definition vals (l : list (string * Z)) : list Z := map snd l.
Definition memZ (z : Z) (l : list Z) : bool := existsb (Z.eqb z) l.
Definition enum_total_b (lib wire : list (string * Z)) (w2p p2w : list (Z * Z)) : bool :=
  (* every library constant maps to a wire constant *)
  forallb (fun k => match lookupZ k w2p with Some w => memZ w (vals wire) | None => false end) (vals lib)
  (* every wire constant is the image of a library constant, and maps back to one that maps to it *)
  && forallb (fun w => existsb (fun k => match lookupZ k w2p with Some w' => w' =? w | None => false end) (vals lib)
                       && match lookupZ w p2w with
                          | Some k => memZ k (vals lib) && match lookupZ k w2p with Some w' => w' =? w | None => false end
                          | None => false
                          end) (vals wire)
  (* the tables mention declared constants only *)
  && forallb (fun kv => memZ (fst kv) (vals lib) && memZ (snd kv) (vals wire)) w2p
  && forallb (fun kv => memZ (fst kv) (vals wire) && memZ (snd kv) (vals lib)) p2w.
(* pairs of distinct library constants with the same wire value *)
Definition collisions (lib : list (string * Z)) (w2p : list (Z * Z)) : list (string * string) :=
  flat_map (fun a => flat_map (fun b =>
    if negb (snd a =? snd b) && match lookupZ (snd a) w2p, lookupZ (snd b) w2p with
                               | Some x, Some y => x =? y | _, _ => false end
    then [(fst a, fst b)] else []) lib) lib.

Lemma enum_total_rc : enum_total_b lib_result_codes wire_result_codes rc_w2p rc_p2w = true.
Proof. vm_compute. reflexivity. Qed.
Lemma enum_total_qos : enum_total_b lib_qos wire_qos qos_w2p qos_p2w = true.
Proof. vm_compute. reflexivity. Qed.
Lemma enum_collisions :
  collisions lib_result_codes rc_w2p =
    [("ResultCodeSucceeded", "ResultCodeNormalClosure"); ("ResultCodeNormalClosure", "ResultCodeSucceeded")]%string
  /\ lookupZ 1 rc_w2p = Some 0 /\ lookupZ 2 rc_w2p = Some 0
  /\ collisions lib_qos qos_w2p = [].
Proof. vm_compute. repeat split; reflexivity. Qed.

Lemma memZ_In z l : memZ z l = true <-> In z l.
Proof.
  unfold memZ. rewrite existsb_exists. split.
  - intros (x & Hin & E). apply Z.eqb_eq in E. now subst.
  - intros H. exists z. split; [exact H | apply Z.eqb_refl].
Qed.

(* the readable form of enum_total_b *)
Lemma enum_total_spec lib wire w2p p2w :
  enum_total_b lib wire w2p p2w = true ->
  (forall k, In k (vals lib) -> exists w, lookupZ k w2p = Some w /\ In w (vals wire)) /\
  (forall w, In w (vals wire) ->
     (exists k, In k (vals lib) /\ lookupZ k w2p = Some w) /\
     (exists k, lookupZ w p2w = Some k /\ In k (vals lib) /\ lookupZ k w2p = Some w)).
Proof.
  unfold enum_total_b. intros H.
  repeat (apply andb_true_iff in H; destruct H as [H ?]).
  rewrite forallb_forall in H, H2. clear H0 H1. split.
  - intros k Hk. specialize (H k Hk). destruct (lookupZ k w2p) as [w|]; [|discriminate].
    exists w. split; [reflexivity | now apply memZ_In].
  - intros w Hw. specialize (H2 w Hw). apply andb_true_iff in H2 as [A B]. split.
    + apply existsb_exists in A as (k & Hk & E). exists k. split; [exact Hk|].
      destruct (lookupZ k w2p) as [w'|]; [|discriminate]. apply Z.eqb_eq in E. now subst.
    + destruct (lookupZ w p2w) as [k|]; [|discriminate]. apply andb_true_iff in B as [B1 B2].
      exists k. split; [reflexivity|]. split; [now apply memZ_In|].
      destruct (lookupZ k w2p) as [w'|]; [|discriminate]. apply Z.eqb_eq in B2. now subst.
Qed.

Lemma enum_total :
  (* result codes *)
  ((forall k, In k (vals lib_result_codes) -> exists w, lookupZ k rc_w2p = Some w /\ In w (vals wire_result_codes)) /\
   (forall w, In w (vals wire_result_codes) ->
      (exists k, In k (vals lib_result_codes) /\ lookupZ k rc_w2p = Some w) /\
      (exists k, lookupZ w rc_p2w = Some k /\ In k (vals lib_result_codes) /\ lookupZ k rc_w2p = Some w))) /\
  (* QoS *)
  ((forall k, In k (vals lib_qos) -> exists w, lookupZ k qos_w2p = Some w /\ In w (vals wire_qos)) /\
   (forall w, In w (vals wire_qos) ->
      (exists k, In k (vals lib_qos) /\ lookupZ k qos_w2p = Some w) /\
      (exists k, lookupZ w qos_p2w = Some k /\ In k (vals lib_qos) /\ lookupZ k qos_w2p = Some w))) /\
  (* the only two library constants sharing a wire value are Succeeded and NormalClosure (wire 0) *)
  (collisions lib_result_codes rc_w2p =
     [("ResultCodeSucceeded", "ResultCodeNormalClosure"); ("ResultCodeNormalClosure", "ResultCodeSucceeded")]%string
   /\ lookupZ 1 rc_w2p = Some 0 /\ lookupZ 2 rc_w2p = Some 0 /\ collisions lib_qos qos_w2p = []).
Proof.
  split; [exact (enum_total_spec _ _ _ _ enum_total_rc)|].
  split; [exact (enum_total_spec _ _ _ _ enum_total_qos)|]. exact enum_collisions.
Qed.

(* ====================================================================================== *)
(* C12, continued: the correspondence predicate implies the safety part of the property;   *)
(* nil at every list / map position (systematic search for structures like F24).           *)
(* ====================================================================================== *)
Open Scope Z_scope.
Open Scope list_scope.

Lemma outcome_eqb_class a b : outcome_eqb a b = true -> class_of a = class_of b.
Proof. destruct a, b; cbn; intros H; try discriminate; reflexivity. Qed.

Lemma model_decode_no_panic parsed : class_of (model_decode true parsed) <> 2%N.
Proof.
  unfold model_decode. destruct parsed as [p|]; [|cbn; discriminate].
  destruct (eval p2w_msg p); cbn; discriminate.
Qed.

(* an observation that agrees with the model satisfies the safety part of the property: no panic
   escaped, and the too-large error is returned exactly above a non-zero maximum *)
Lemma fuzz_corr_safe c : fuzz_corr c = true -> fuzz_ok_safe c = true.
Proof.
  unfold fuzz_corr, fuzz_ok_safe. intros H.
  apply andb_true_iff in H as [H _]. apply andb_true_iff in H as [H Hgate].
  apply andb_true_iff in H as [Hdec _].
  apply outcome_eqb_class in Hdec.
  pose proof (model_decode_no_panic (fc_parsed c)) as Hnp. rewrite Hdec in Hnp.
  assert (Hsg : size_gate (fc_max c) (fc_len c) = negb (fc_max c =? 0) && (fc_len c >? fc_max c)).
  { unfold size_gate. destruct (fc_max c =? 0); reflexivity. }
  rewrite Hsg in Hgate. rewrite Hgate.
  assert (Hr : (fc_read c =? 3)%N = false).
  { destruct (negb (fc_max c =? 0) && (fc_len c >? fc_max c)).
    - apply N.eqb_eq in Hgate. rewrite Hgate. reflexivity.
    - apply N.eqb_eq in Hgate. rewrite Hgate. destruct (is_ok (fc_dec c)); reflexivity. }
  rewrite Hr. destruct (class_of (fc_dec c) =? 2)%N eqn:E; [apply N.eqb_eq in E; contradiction|].
  reflexivity.
Qed.

(* ---------- nil at every list element / map value ---------- *)

(* all structures obtained from v by replacing ONE list element or ONE map value, at any depth, by nil *)
Fixpoint nil_variants (v : value) {struct v} : list value :=
  match v with
  | VList l =>
      map VList ((fix go (l : list value) : list (list value) :=
                    match l with
                    | [] => []
                    | x :: l' => (VNil :: l') :: map (fun x' => x' :: l') (nil_variants x) ++ map (cons x) (go l')
                    end) l)
  | VMap l =>
      map VMap ((fix go (l : list (Z * value)) : list (list (Z * value)) :=
                   match l with
                   | [] => []
                   | (k, x) :: l' => ((k, VNil) :: l') :: map (fun x' => (k, x') :: l') (nil_variants x) ++ map (cons (k, x)) (go l')
                   end) l)
  | VStruct l =>
      map VStruct ((fix go (l : list value) : list (list value) :=
                      match l with
                      | [] => []
                      | x :: l' => map (fun x' => x' :: l') (nil_variants x) ++ map (cons x) (go l')
                      end) l)
  | VOneof t x => map (VOneof t) (nil_variants x)
  | _ => []
  end.

(* "full" proto structures accepted by a backward conversion, derived from the conversion term itself:
   every sub-message present, two elements in every list and map, one structure per oneof alternative *)
Definition uuid16 : list N := [1; 2; 3; 4; 5; 6; 7; 8; 9; 10; 11; 12; 13; 14; 15; 16]%N.
Definition nth_mod (l : list value) (k : nat) : value :=
  match l with [] => VNil | _ => nth (Nat.modulo k (List.length l)) l VNil end.
Fixpoint witness (c : conv) {struct c} : list value :=
  match c with
  | BytesToUuid | MustUuid => [VBytes uuid16]
  | ParseUuid => [VBytes (uuid_string uuid16)]
  | EnumTbl t => match t with (k, _) :: _ => [VInt k] | [] => [] end
  | Opt c1 | NilOk c1 | NilTo _ c1 => witness c1
  | MapList c1 => map (fun x => VList [x; x]) (witness c1)
  | MapVals c1 => map (fun x => VMap [(1, x); (2, x)]) (witness c1)
  | Struct n gs =>
      (* input field j is read by the output fields (j, c1) of gs *)
      let per_field := map (fun j => (fix pick (gs0 : list (nat * conv)) : list value :=
                                        match gs0 with
                                        | [] => [VNil]
                                        | (i, c1) :: gs' => if Nat.eqb i j then witness c1 else pick gs'
                                        end) gs) (seq 0 n) in
      let width := fold_right (fun l m => Nat.max (List.length l) m) 1%nat per_field in
      map (fun k => VStruct (map (fun l => nth_mod l k) per_field)) (seq 0 width)
  | Oneof alts =>
      (fix go (alts : list (N * (N * conv))) : list value :=
         match alts with
         | [] => []
         | (t0, (_, c1)) :: alts' => map (VOneof t0) (witness c1) ++ go alts'
         end) alts
  | _ => [VInt 1]
  end.

Definition full_protos : list value := witness p2w_msg.
Definition nil_enum : list value := flat_map nil_variants full_protos.

(* accepted by the decoder, but the produced message does not re-encode to itself *)
Definition reencodes (m : value) : bool :=
  match model_roundtrip m with Ok m' => value_eqb (nilnorm m') (nilnorm m) | _ => false end.
Definition accepted_unstable (p : value) : bool :=
  match eval p2w_msg p with Ok m => negb (reencodes m) | _ => false end.
Definition is_nil (v : value) : bool := match v with VNil => true | _ => false end.
(* a nil element in the data point groups of an upstream chunk (20) or a downstream chunk (22) *)
Definition has_nil_group (p : value) : bool :=
  match p with
  | VOneof 20 (VStruct [_; VStruct [_; VList l]; _; _]) => existsb is_nil l
  | VOneof 22 (VStruct [_; _; VStruct [_; VList l]; _]) => existsb is_nil l
  | _ => false
  end.

(* the full structures are accepted and stable; among ALL their nil variants (every list element and
   every map value of every message type, one at a time) none is accepted-but-unstable: the 8 nil data
   point groups are rejected (F24 repaired), the only accepted ones are nil values in the upstream alias
   table of a downstream chunk ack (they become all-zero upstream infos and are stable), every other
   nil element or value is rejected *)
Lemma nil_enumeration :
  forallb (fun p => match eval p2w_msg p with Ok m => reencodes m | _ => false end) full_protos = true /\
  List.length full_protos = 39%nat /\ List.length nil_enum = 62%nat /\
  forallb (fun p => negb (accepted_unstable p)) nil_enum = true /\
  List.length (filter has_nil_group nil_enum) = 8%nat /\
  forallb (fun p => negb (has_nil_group p) || negb (is_ok (eval p2w_msg p))) nil_enum = true /\
  forallb (fun p => match eval p2w_msg p with
                    | Ok _ => match p with VOneof 23 _ => true | _ => false end
                    | _ => true end) nil_enum = true.
Proof. vm_compute. repeat split; reflexivity. Qed.

(* ====================================================================================== *)
(* C12: re-encode stability for ALL parsed structures.                                     *)
(* A syntactic relation between a backward and a forward conversion term implies that     *)
(* everything the backward conversion produces lies in the forward domain and is canonical *)
(* (up to nil/empty collections); with the round-trip theorem this gives                   *)
(* decode (encode m) = m for every decoded message m.                                      *)
(* ====================================================================================== *)

(* what Go's types guarantee about a parsed proto structure (the value universe is untyped):
   uint32 seconds/milliseconds, int64 nanoseconds, and - for the uuid parsed from its textual form -
   that a uuid.UUID is a [16]byte *)
Fixpoint bdom (c' : conv) (p : value) {struct c'} : bool :=
  match c' with
  | SecToDur | MsToDur => match p with VInt z => (0 <=? z) && (z <? two32) | _ => true end
  | NanosToUtc => match p with VInt z => int64b z | _ => true end
  | ParseUuid => match p with
                 | VBytes s => match parse_uuid s with Some u => Nat.eqb (List.length u) 16 && bytes_okb u | None => true end
                 | _ => true end
  | Opt c1 | NilOk c1 | NilTo _ c1 => match p with VNil => true | _ => bdom c1 p end
  | MapList c1 => match p with VList l => forallb (bdom c1) l | _ => true end
  | MapVals c1 => match p with VMap l => forallb (fun kx => bdom c1 (snd kx)) l | _ => true end
  | Struct _ gs => match p with VStruct ws => forallb (fun g => bdom (snd g) (nth (fst g) ws VNil)) gs | _ => true end
  | Oneof alts => match p with
                  | VOneof t x => forallb (fun a => if (fst a =? t)%N then bdom (snd (snd a)) x else true) alts
                  | _ => true end
  | _ => true
  end.

Definition tbl_stable (t' t : list (Z * Z)) : bool :=
  forallb (fun kv => match lookupZ (snd kv) t with Some _ => canon_key t (snd kv) =? snd kv | None => false end) t'.

Definition strip_nilto (c : conv) : conv := match c with NilTo _ c0 => c0 | _ => c end.
Definition strip_nilok (c : conv) : conv := match c with NilOk c0 => c0 | _ => c end.

(* backward term c' against forward term c *)
Fixpoint back_pairP (c' c : conv) {struct c'} : Prop :=
  match c' with
  | Copy => c = Copy
  | U32ToU8 => c = U8ToU32
  | U64ToI64 => c = I64ToU64
  | SecToDur => c = DurToSec
  | MsToDur => c = DurToMs
  | BytesToUuid | MustUuid => c = UuidToBytes
  | ParseUuid => c = UuidToString
  | NanosToUtc => c = TimeToNanos \/ c = TimeToNanosOrZero
  | EnumTbl t' => match c with EnumTbl t => tbl_stable t' t = true | _ => False end
  | Opt c1' => match c with Opt c1 => back_pairP c1' c1 | _ => False end
  | NilTo z' c1' =>
      match c with
      | NilTo z c1 => is_struct c1' = true /\ back_pairP c1' c1 /\
                      in_range c z' = true /\ nilnorm (canon c z') = nilnorm z'
      | _ => False
      end
  | MapList c1' => match c with MapList c1 => back_pairP c1' c1 | _ => False end
  | MapVals c1' => match c with MapVals c1 => back_pairP c1' c1 | _ => False end
  | Struct _ gs =>
      match strip_nilto c with
      | Struct n fs =>
          List.length gs = n /\ forallb (fun f => Nat.ltb (fst f) n) fs = true /\
          (fix go (i : nat) (gs0 : list (nat * conv)) {struct gs0} : Prop :=
             match gs0 with
             | [] => True
             | g :: gs' =>
                 (fix each (fs0 : list (nat * conv)) : Prop :=
                    match fs0 with
                    | [] => True
                    | f :: fs' => (if Nat.eqb (fst f) i then back_pairP (snd g) (snd f) else True) /\ each fs'
                    end) fs /\ go (S i) gs'
             end) 0%nat gs
      | _ => False
      end
  | Oneof alts' =>
      match strip_nilok c with
      | Oneof alts =>
          (fix go (as0 : list (N * (N * conv))) : Prop :=
             match as0 with
             | [] => True
             | a :: as' =>
                 match lookupN (fst (snd a)) alts with
                 | Some (_, c1) => canon_tag alts (fst (snd a)) = fst (snd a) /\ back_pairP (snd (snd a)) c1
                 | None => False
                 end /\ go as'
             end) alts'
      | _ => False
      end
  | _ => False
  end.

Definition st_prop (c' c : conv) : Prop :=
  forall p m, bdom c' p = true -> eval c' p = Ok m ->
    in_range c m = true /\ nilnorm (canon c m) = nilnorm m.

(* ---- flat forms of the nested fixpoints ---- *)
Fixpoint bp_each (P : conv -> conv -> Prop) (i : nat) (c1' : conv) (fs : list (nat * conv)) : Prop :=
  match fs with
  | [] => True
  | f :: fs' => (if Nat.eqb (fst f) i then P c1' (snd f) else True) /\ bp_each P i c1' fs'
  end.
Fixpoint bp_go (P : conv -> conv -> Prop) (fs : list (nat * conv)) (i : nat) (gs : list (nat * conv)) : Prop :=
  match gs with
  | [] => True
  | g :: gs' => bp_each P i (snd g) fs /\ bp_go P fs (S i) gs'
  end.
Fixpoint bp_alts (P : conv -> conv -> Prop) (alts : list (N * (N * conv))) (as0 : list (N * (N * conv))) : Prop :=
  match as0 with
  | [] => True
  | a :: as' =>
      match lookupN (fst (snd a)) alts with
      | Some (_, c1) => canon_tag alts (fst (snd a)) = fst (snd a) /\ P (snd (snd a)) c1
      | None => False
      end /\ bp_alts P alts as'
  end.

Lemma back_pair_struct n' gs c :
  back_pairP (Struct n' gs) c =
  match strip_nilto c with
  | Struct n fs => List.length gs = n /\ forallb (fun f => Nat.ltb (fst f) n) fs = true /\ bp_go back_pairP fs 0 gs
  | _ => False
  end.
Proof.
  cbn [back_pairP]. destruct (strip_nilto c); try reflexivity.
  assert (E : forall i c1' fs0,
    (fix each (fs1 : list (nat * conv)) : Prop :=
       match fs1 with
       | [] => True
       | f :: fs' => (if Nat.eqb (fst f) i then back_pairP c1' (snd f) else True) /\ each fs'
       end) fs0 = bp_each back_pairP i c1' fs0).
  { intros i c1' fs0. induction fs0 as [|f fs0 IHf]; [reflexivity|]. cbn [bp_each]. rewrite <- IHf. reflexivity. }
  f_equal. f_equal. generalize 0%nat as i. induction gs as [|g gs IH]; intros i; [reflexivity|].
  cbn [bp_go]. rewrite <- IH, <- E. reflexivity.
Qed.

Lemma back_pair_oneof alts' c :
  back_pairP (Oneof alts') c =
  match strip_nilok c with Oneof alts => bp_alts back_pairP alts alts' | _ => False end.
Proof.
  cbn [back_pairP]. destruct (strip_nilok c); try reflexivity.
  induction alts' as [|a rest IH]; [reflexivity|]. cbn [bp_alts]. rewrite <- IH. reflexivity.
Qed.

Lemma bp_each_in P i c1' fs f : bp_each P i c1' fs -> In f fs -> fst f = i -> P c1' (snd f).
Proof.
  induction fs as [|f0 fs IH]; cbn [bp_each]; [intros _ []|]. intros [H1 H2] Hin E.
  destruct Hin as [->|Hin]; [|now apply IH].
  subst i. rewrite Nat.eqb_refl in H1. exact H1.
Qed.

Lemma bp_go_nth P fs gs : forall i0 k g, bp_go P fs i0 gs -> nth_error gs k = Some g -> bp_each P (i0 + k) (snd g) fs.
Proof.
  induction gs as [|g0 gs IH]; intros i0 k g H E; [destruct k; discriminate|].
  cbn [bp_go] in H. destruct H as [H1 H2]. destruct k as [|k].
  - cbn in E. injection E as <-. rewrite Nat.add_0_r. exact H1.
  - cbn [nth_error] in E. replace (i0 + S k)%nat with (S i0 + k)%nat by lia. now apply (IH (S i0) k g).
Qed.

Lemma bp_alts_in P alts as0 a : bp_alts P alts as0 -> In a as0 ->
  match lookupN (fst (snd a)) alts with
  | Some (_, c1) => canon_tag alts (fst (snd a)) = fst (snd a) /\ P (snd (snd a)) c1
  | None => False
  end.
Proof.
  induction as0 as [|a0 as0 IH]; cbn [bp_alts]; [intros _ []|]. intros [H1 H2] Hin.
  destruct Hin as [->|Hin]; [exact H1 | now apply IH].
Qed.

(* ---- oseq ---- *)
Lemma oseq_ok_forall2 {A} (l : list (outcome A)) ys : oseq l = Ok ys -> Forall2 (fun o y => o = Ok y) l ys.
Proof.
  revert ys. induction l as [|o l IH]; cbn [oseq]; intros ys H.
  - injection H as <-. constructor.
  - destruct o as [y| |]; cbn [obind] in H; try discriminate.
    destruct (oseq l) as [ys'| |]; cbn [omap] in H; try discriminate.
    injection H as <-. constructor; [reflexivity | now apply IH].
Qed.

Lemma forall2_map_nth {A B} (f : A -> outcome B) (l : list A) ys (d : B) :
  Forall2 (fun o y => o = Ok y) (map f l) ys ->
  List.length ys = List.length l /\ forall k a, nth_error l k = Some a -> f a = Ok (nth k ys d).
Proof.
  revert ys. induction l as [|a0 l IH]; cbn [map]; intros ys H; inversion H; subst.
  - split; [reflexivity|]. intros k a E. destruct k; discriminate.
  - destruct (IH _ H4) as [L N]. split; [cbn; now rewrite L|].
    intros k a E. destruct k as [|k]; cbn in *.
    + injection E as <-. assumption.
    + now apply N.
Qed.

(* ---- leaves ---- *)
Lemma st_leaf c' : is_leaf c' = true -> forall c, back_pairP c' c -> st_prop c' c.
Proof.
  intros Hl c Hb p m Hd He.
  destruct c'; try discriminate Hl; cbn [back_pairP] in Hb; try contradiction.
  - (* Copy *) subst c. cbn in He. injection He as <-. split; reflexivity.
  - (* U32ToU8 *) subst c. destruct p; try discriminate He. cbn in He. injection He as <-.
    cbn [in_range canon]. split; [|reflexivity].
    pose proof (Z.mod_pos_bound z 256 eq_refl). lia.
  - (* U64ToI64 *) subst c. destruct p; try discriminate He. cbn in He. injection He as <-.
    cbn [in_range canon]. split; [|reflexivity].
    unfold int64b, wrap64s. pose proof (Z.mod_pos_bound (z + two63) two64 eq_refl). unfold two63, two64 in *. lia.
  - (* SecToDur *) subst c. destruct p; try discriminate He. cbn in He. injection He as <-.
    cbn [bdom] in Hd. cbn [in_range canon nilnorm].
    assert (E : z * e9 / e9 = z) by (apply Z.div_mul; discriminate).
    assert (M : (z * e9) mod e9 = 0) by (apply Z.mod_mul; discriminate).
    unfold dur_sec_okb. rewrite E, M. split; [|reflexivity]. unfold two32, e9 in *. lia.
  - (* MsToDur *) subst c. destruct p; try discriminate He. cbn in He. injection He as <-.
    cbn [bdom] in Hd. cbn [in_range canon nilnorm].
    assert (E : z * e6 / e6 = z) by (apply Z.div_mul; discriminate).
    unfold dur_ms_okb. rewrite E. split; [|reflexivity]. unfold two32, e6 in *. lia.
  - (* BytesToUuid *) subst c. destruct p; try discriminate He. cbn in He.
    destruct (Nat.eqb (Datatypes.length l) 16) eqn:E; [|discriminate]. injection He as <-.
    cbn [in_range canon]. split; [exact E | reflexivity].
  - (* MustUuid *) subst c. destruct p; try discriminate He. cbn in He.
    destruct (Nat.eqb (Datatypes.length l) 16) eqn:E; [|discriminate]. injection He as <-.
    cbn [in_range canon]. split; [exact E | reflexivity].
  - (* ParseUuid *) subst c. destruct p; try discriminate He. cbn [eval] in He. cbn [bdom] in Hd.
    destruct (parse_uuid l) as [u|]; [|discriminate]. injection He as <-.
    cbn [in_range canon]. split; [exact Hd | reflexivity].
  - (* NanosToUtc *) destruct p; try discriminate He. cbn in He. injection He as <-. cbn [bdom] in Hd.
    destruct Hb as [-> | ->]; cbn [in_range canon nilnorm].
    + split; [exact Hd | reflexivity].
    + split; [rewrite Hd; reflexivity|].
      assert (z =? zero_time_ns = false) as ->; [|reflexivity].
      unfold int64b, zero_time_ns, two63 in *. lia.
  - (* EnumTbl *) destruct c; try contradiction. destruct p; try discriminate He. cbn in He.
    destruct (lookupZ z t) as [w|] eqn:L; [|discriminate]. injection He as <-.
    unfold tbl_stable in Hb. rewrite forallb_forall in Hb. specialize (Hb _ (lookupZ_In _ _ _ L)). cbn [snd] in Hb.
    cbn [in_range canon nilnorm]. destruct (lookupZ w t0); [|discriminate]. apply Z.eqb_eq in Hb. rewrite Hb.
    split; reflexivity.
Qed.

(* ---- wrappers ---- *)
Lemma eval_struct_shape n gs p m : eval (Struct n gs) p = Ok m -> exists ys, m = VStruct ys.
Proof.
  destruct p; try discriminate. rewrite eval_struct.
  destruct (oseq _) as [ys| |]; cbn [omap]; intros H; try discriminate. injection H as <-. eauto.
Qed.

Lemma st_opt c1' : (forall c, back_pairP c1' c -> st_prop c1' c) -> forall c, back_pairP (Opt c1') c -> st_prop (Opt c1') c.
Proof.
  intros IH c Hb p m Hd He. destruct c; try contradiction. cbn [back_pairP] in Hb.
  destruct p; cbn [eval bdom] in He, Hd;
    try (destruct (IH _ Hb _ _ Hd He) as [R C]; destruct m; cbn [in_range canon]; auto).
  injection He as <-. split; reflexivity.
Qed.

Lemma st_nilto z' c1' : (forall c, back_pairP c1' c -> st_prop c1' c) -> forall c, back_pairP (NilTo z' c1') c -> st_prop (NilTo z' c1') c.
Proof.
  intros IH c Hb p m Hd He. destruct c; try contradiction. cbn [back_pairP] in Hb.
  destruct Hb as (Hs & Hb & Rz & Cz).
  assert (G : p <> VNil -> in_range (NilTo z c) m = true /\ nilnorm (canon (NilTo z c) m) = nilnorm m).
  { intros Hp. assert (He' : eval c1' p = Ok m) by (destruct p; try contradiction; exact He).
    assert (Hd' : bdom c1' p = true) by (destruct p; try contradiction; exact Hd).
    destruct (IH _ Hb _ _ Hd' He') as [R C].
    destruct c1'; try discriminate Hs. destruct (eval_struct_shape _ _ _ _ He') as [ys ->].
    cbn [in_range canon]. auto. }
  destruct p; try (apply G; discriminate).
  cbn [eval] in He. injection He as <-. auto.
Qed.

Lemma nilnorm_list_map l l' : map nilnorm l = map nilnorm l' -> nilnorm (VList l) = nilnorm (VList l').
Proof.
  intros H. destruct l, l'; try discriminate H; [reflexivity|]. cbn [nilnorm]. now rewrite H.
Qed.

Lemma st_maplist c1' : (forall c, back_pairP c1' c -> st_prop c1' c) -> forall c, back_pairP (MapList c1') c -> st_prop (MapList c1') c.
Proof.
  intros IH c Hb p m Hd He. destruct c; try contradiction. cbn [back_pairP] in Hb. specialize (IH _ Hb).
  destruct p; try discriminate He.
  - cbn in He. injection He as <-. split; reflexivity.
  - rewrite eval_maplist in He. destruct (oseq _) as [ys| |] eqn:E; cbn [omap] in He; try discriminate.
    injection He as <-. apply oseq_ok_forall2 in E. cbn [bdom] in Hd. rewrite forallb_forall in Hd.
    assert (A : forallb (in_range c) ys = true /\ map nilnorm (map (canon c) ys) = map nilnorm ys).
    { clear -E IH Hd. revert ys E. induction l as [|x l IHl]; cbn [map]; intros ys E; inversion E; subst.
      - split; reflexivity.
      - destruct (IH x y (Hd x (or_introl eq_refl)) H1) as [R C].
        destruct (IHl (fun a Ha => Hd a (or_intror Ha)) _ H3) as [R' C'].
        cbn [forallb map]. rewrite R, R', C, C'. split; reflexivity. }
    destruct A as [R C]. cbn [in_range canon]. split; [exact R | now apply nilnorm_list_map].
Qed.

Lemma nilnorm_map_map (l l' : list (Z * value)) :
  map (fun kx => (fst kx, nilnorm (snd kx))) l = map (fun kx => (fst kx, nilnorm (snd kx))) l' ->
  nilnorm (VMap l) = nilnorm (VMap l').
Proof.
  intros H. destruct l, l'; try discriminate H; [reflexivity|]. cbn [nilnorm]. now rewrite H.
Qed.

Lemma st_mapvals c1' : (forall c, back_pairP c1' c -> st_prop c1' c) -> forall c, back_pairP (MapVals c1') c -> st_prop (MapVals c1') c.
Proof.
  intros IH c Hb p m Hd He. destruct c; try contradiction. cbn [back_pairP] in Hb. specialize (IH _ Hb).
  destruct p; try discriminate He.
  - cbn in He. injection He as <-. split; reflexivity.
  - rewrite eval_mapvals in He. destruct (oseq _) as [ys| |] eqn:E; cbn [omap] in He; try discriminate.
    injection He as <-. apply oseq_ok_forall2 in E. cbn [bdom] in Hd. rewrite forallb_forall in Hd.
    assert (A : forallb (fun kx => in_range c (snd kx)) ys = true /\
                map (fun kx => (fst kx, nilnorm (snd kx))) (map (fun kx => (fst kx, canon c (snd kx))) ys)
                = map (fun kx => (fst kx, nilnorm (snd kx))) ys).
    { clear -E IH Hd. revert ys E. induction l as [|[k x] l IHl]; cbn [map]; intros ys E; inversion E; subst.
      - split; reflexivity.
      - cbn [fst snd] in H1. destruct (eval c1' x) as [y0| |] eqn:Ex; cbn [omap] in H1; try discriminate.
        injection H1 as <-.
        destruct (IH x y0 (Hd (k, x) (or_introl eq_refl)) Ex) as [R C].
        destruct (IHl (fun a Ha => Hd a (or_intror Ha)) _ H3) as [R' C'].
        cbn [forallb map fst snd]. rewrite R, R', C, C'. split; reflexivity. }
    destruct A as [R C]. cbn [in_range canon]. split; [exact R | now apply nilnorm_map_map].
Qed.

(* ---- struct ---- *)
Lemma find_src_in i fs c1 : find_src i fs = Some c1 -> In (i, c1) fs.
Proof.
  induction fs as [|[j c0] fs IH]; cbn [find_src]; [discriminate|].
  destruct (Nat.eqb j i) eqn:E; intros H.
  - apply Nat.eqb_eq in E. injection H as <-. subst. now left.
  - right. auto.
Qed.

Lemma canon_fields_nilnorm fs ys : forall i0,
  (forall k y c1, nth_error ys k = Some y -> find_src (i0 + k) fs = Some c1 -> nilnorm (canon c1 y) = nilnorm y) ->
  map nilnorm (canon_fields fs i0 ys) = map nilnorm ys.
Proof.
  induction ys as [|y ys IH]; intros i0 H; [reflexivity|].
  cbn [canon_fields map]. f_equal.
  - destruct (find_src i0 fs) as [c1|] eqn:E; [|reflexivity].
    apply (H 0%nat y c1); [reflexivity | now rewrite Nat.add_0_r].
  - apply IH. intros k y0 c1 E1 E2. apply (H (S k) y0 c1); [exact E1|].
    now replace (i0 + S k)%nat with (S i0 + k)%nat by lia.
Qed.

Lemma st_struct n' gs :
  Forall (fun g => forall c, back_pairP (snd g) c -> st_prop (snd g) c) gs ->
  forall c, back_pairP (Struct n' gs) c -> st_prop (Struct n' gs) c.
Proof.
  intros IH c Hb p m Hd He. rewrite back_pair_struct in Hb.
  destruct (strip_nilto c) as [ | | | | | | | | | | | | | | | | | | | | | | | n fs | ] eqn:Ec; try contradiction.
  destruct Hb as (Hlen & Hlt & Hgo).
  destruct p; try discriminate He. rename fs0 into ws.
  rewrite eval_struct in He. destruct (oseq _) as [ys| |] eqn:E; cbn [omap] in He; try discriminate.
  injection He as <-. apply oseq_ok_forall2 in E.
  destruct (forall2_map_nth _ _ _ VNil E) as [Ly Ny].
  cbn [bdom] in Hd. rewrite forallb_forall in Hd. rewrite forallb_forall in Hlt. rewrite Forall_forall in IH.
  (* per forward field *)
  assert (F : forall i c1, In (i, c1) fs -> in_range c1 (nth i ys VNil) = true /\ nilnorm (canon c1 (nth i ys VNil)) = nilnorm (nth i ys VNil)).
  { intros i c1 Hin. pose proof (Hlt _ Hin) as Hi. cbn [fst] in Hi. apply Nat.ltb_lt in Hi.
    destruct (nth_error gs i) as [g|] eqn:Eg; [|apply nth_error_None in Eg; lia].
    pose proof (bp_go_nth _ _ _ 0%nat i g Hgo Eg) as He1. cbn [Nat.add] in He1.
    pose proof (bp_each_in _ _ _ _ _ He1 Hin eq_refl) as Hbp. cbn [snd] in Hbp.
    pose proof (nth_error_In _ _ Eg) as Hing.
    apply (IH g Hing c1 Hbp (nth (fst g) ws VNil)); [exact (Hd g Hing) | exact (Ny i g Eg)]. }
  assert (R : in_range (Struct n fs) (VStruct ys) = true).
  { rewrite in_range_struct. apply andb_true_iff. split; [apply Nat.eqb_eq; lia|].
    apply forallb_forall. intros [i c1] Hin. pose proof (Hlt _ Hin) as Hl. cbn [fst snd] in *. rewrite Hl. exact (proj1 (F i c1 Hin)). }
  assert (C : nilnorm (canon (Struct n fs) (VStruct ys)) = nilnorm (VStruct ys)).
  { rewrite canon_struct. cbn [nilnorm]. f_equal. apply canon_fields_nilnorm.
    intros k y c1 E1 E2. cbn [Nat.add] in E2. apply find_src_in in E2.
    destruct (F k c1 E2) as [_ Cc]. rewrite (nth_error_nth _ _ VNil E1) in Cc. exact Cc. }
  destruct c; cbn [strip_nilto] in Ec; try discriminate Ec.
  - subst c. cbn [in_range canon]. auto.
  - injection Ec as -> ->. auto.
Qed.

(* ---- oneof ---- *)
Lemma st_oneof alts' :
  Forall (fun a => forall c, back_pairP (snd (snd a)) c -> st_prop (snd (snd a)) c) alts' ->
  forall c, back_pairP (Oneof alts') c -> st_prop (Oneof alts') c.
Proof.
  intros IH c Hb p m Hd He. rewrite back_pair_oneof in Hb.
  destruct (strip_nilok c) as [ | | | | | | | | | | | | | | | | | | | | | | | | alts ] eqn:Ec; try contradiction.
  destruct p; try discriminate He. rewrite eval_oneof in He.
  destruct (lookupN tag alts') as [[u1 c1']|] eqn:L; [|discriminate].
  destruct (eval c1' p) as [y| |] eqn:Ey; cbn [omap] in He; try discriminate. injection He as <-.
  pose proof (lookupN_In _ _ _ L) as Hin. pose proof (bp_alts_in _ _ _ _ Hb Hin) as H. cbn [fst snd] in H.
  destruct (lookupN u1 alts) as [[t1 c1]|] eqn:L1; [|contradiction]. destruct H as [Ht Hbp].
  rewrite Forall_forall in IH. cbn [bdom] in Hd. rewrite forallb_forall in Hd.
  pose proof (Hd _ Hin) as Hd1. cbn [fst snd] in Hd1. rewrite N.eqb_refl in Hd1.
  destruct (IH _ Hin c1 Hbp p y Hd1 Ey) as [R C].
  assert (R' : in_range (Oneof alts) (VOneof u1 y) = true) by (rewrite in_range_oneof, L1; exact R).
  assert (C' : nilnorm (canon (Oneof alts) (VOneof u1 y)) = nilnorm (VOneof u1 y)).
  { rewrite canon_oneof, L1, Ht. cbn [nilnorm]. now rewrite C. }
  destruct c; cbn [strip_nilok] in Ec; try discriminate Ec.
  - subst c. cbn [in_range canon]. auto.
  - injection Ec as ->. auto.
Qed.

Theorem back_pair_sound c' : forall c, back_pairP c' c -> st_prop c' c.
Proof.
  induction c' using conv_ind'.
  - now apply st_leaf.
  - now apply st_opt.
  - intros c Hb. contradiction.
  - now apply st_nilto.
  - now apply st_maplist.
  - now apply st_mapvals.
  - now apply st_struct.
  - now apply st_oneof.
Qed.

(* ---- the converters of the source ---- *)

Ltac bp_solve :=
  repeat match goal with
         | |- _ /\ _ => split
         | |- True => exact I
         | |- _ = _ => reflexivity
         | |- _ \/ _ => first [left; reflexivity | right; reflexivity]
         end.

(* the two converters of the source are in the relation *)
Lemma back_pair_messages : back_pairP p2w_msg w2p_msg.
Proof. vm_compute. bp_solve. Qed.

(* re-encode stability, in full: every message the decoder produces from a (well-typed) parsed
   structure encodes, and the encoding decodes back to it (nil and empty collections identified) *)
Theorem reencode_stable p m :
  bdom p2w_msg p = true -> eval p2w_msg p = Ok m ->
  exists m', model_roundtrip m = Ok m' /\ nilnorm m' = nilnorm m.
Proof.
  intros Hd He. destruct (back_pair_sound _ _ back_pair_messages p m Hd He) as [R C].
  exists (canon w2p_msg m). split; [now apply model_roundtrip_canon | exact C].
Qed.

(* sanity of the relation, and record of F24: the FORMER chunk conversion (nil group -> empty group) is
   not in the relation with the forward chunk conversion - its nil default lies outside the forward domain *)
Lemma back_pair_former_term_fails : ~ back_pairP p_chunk_before_f24 w_chunk.
Proof.
  intros H. vm_compute in H. decompose [and] H. discriminate.
Qed.

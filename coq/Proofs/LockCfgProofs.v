(* Soundness of the dataflow checker of Model/LockCfg.v: if [balanced g = true] then along EVERY
   finite path of the graph from the entry (feasible or not) no lock operation faults, and at
   every exit node the multiset of held locks equals the multiset of deferred releases - so after
   the deferred calls have run nothing is held.  By induction on paths. *)
From Coq Require Import List String NArith Bool Arith Lia.
From Iscp Require Import Model.LockCfg.
Import ListNotations.

Lemma vec_eqb_eq a b : vec_eqb a b = true -> a = b.
Proof.
  revert b; induction a as [|x a IH]; intros [|y b]; cbn; try discriminate; [reflexivity|].
  intros H. apply andb_true_iff in H as [H1 H2]. apply Nat.eqb_eq in H1. apply IH in H2. congruence.
Qed.

Lemma vec_eqb_refl a : vec_eqb a a = true.
Proof. induction a as [|x a IH]; cbn; [reflexivity|]. now rewrite Nat.eqb_refl, IH. Qed.

Lemma lstate_eqb_eq a b : lstate_eqb a b = true -> a = b.
Proof.
  destruct a as [a1 a2], b as [b1 b2]. unfold lstate_eqb; cbn. intros H.
  apply andb_true_iff in H as [H1 H2]. apply vec_eqb_eq in H1, H2. congruence.
Qed.

Lemma check_from_nth L sl l : forall k i nd,
  check_from L sl k l = true -> nth_error l i = Some nd -> check_node L sl (k + i) nd = true.
Proof.
  induction l as [|x l IH]; intros k i nd H Hn.
  - destruct i; discriminate.
  - cbn in H. apply andb_true_iff in H as [H1 H2]. destruct i as [|i].
    + cbn in Hn. injection Hn as <-. now rewrite Nat.add_0_r.
    + cbn in Hn. replace (k + S i) with (S k + i) by lia. now apply IH.
Qed.

(* what the check of one node gives *)
Lemma check_node_spec L sl n nd st :
  check_node L sl n nd = true -> nth n sl None = Some st ->
  exists out, exec_events L (events nd) st = Some out /\
              (forall s, In s (succs nd) -> nth s sl None = Some out) /\
              (succs nd = [] -> fst out = snd out).
Proof.
  unfold check_node. intros H Hst. apply andb_true_iff in H as [_ H]. rewrite Hst in H.
  destruct (exec_events L (events nd) st) as [out|]; [|discriminate].
  exists out. split; [reflexivity|]. apply andb_true_iff in H as [H1 H2]. split.
  - intros s Hs. rewrite forallb_forall in H1. specialize (H1 s Hs).
    destruct (nth s sl None) as [st'|]; [|discriminate]. apply lstate_eqb_eq in H1. now subst.
  - intros He. unfold no_succs in H2. rewrite He in H2. now apply vec_eqb_eq.
Qed.

(* the invariant carried along a path: the state at the entry of a node is the solver's state *)
Lemma check_path L g sl : check_from L sl 0 g = true ->
  forall a p b, path g a p b -> forall st, nth a sl None = Some st ->
  forall nd, nth_error g b = Some nd ->
  exists s', run_path L g a p st = Some s' /\ (succs nd = [] -> fst s' = snd s').
Proof.
  intros Hc a p b Hp. induction Hp as [a | a b p c nda Ha Hin Hp IH]; intros st Hst nd Hnd.
  - pose proof (check_from_nth L sl g 0 a nd Hc Hnd) as Hn. cbn in Hn.
    destruct (check_node_spec L sl a nd st Hn Hst) as (out & He & _ & Hx).
    exists out. cbn. rewrite Hnd, He. auto.
  - pose proof (check_from_nth L sl g 0 a nda Hc Ha) as Hn. cbn in Hn.
    destruct (check_node_spec L sl a nda st Hn Hst) as (out & He & Hs & _).
    destruct (IH out (Hs b Hin) nd Hnd) as (s' & Hr & Hx).
    exists s'. split; [|exact Hx]. cbn. rewrite Ha, He. exact Hr.
Qed.

Lemma balanced_inv g : balanced g = true ->
  exists s0 sl, init_state (locks_of g) g = Some s0 /\ nth 0 sl None = Some s0 /\
                check_from (locks_of g) sl 0 (nodes g) = true.
Proof.
  unfold balanced. destruct (nodes g) as [|n0 ns] eqn:En; [discriminate|].
  destruct (init_state (locks_of g) g) as [s0|]; [|discriminate].
  unfold check. intros H. apply andb_true_iff in H as [H1 H2].
  exists s0, (solve (locks_of g) (n0 :: ns) s0). split; [reflexivity|]. split; [|exact H2].
  destruct (nth 0 (solve (locks_of g) (n0 :: ns) s0) None) as [s|]; [|discriminate].
  apply lstate_eqb_eq in H1. now subst.
Qed.

(* Main theorem. *)
Theorem balanced_sound g : balanced g = true ->
  exists s0, init_state (locks_of g) g = Some s0 /\
  forall p b nd, path (nodes g) 0 p b -> nth_error (nodes g) b = Some nd -> succs nd = [] ->
    exists s, run_path (locks_of g) (nodes g) 0 p s0 = Some s /\ fst s = snd s.
Proof.
  intros H. destruct (balanced_inv g H) as (s0 & sl & Hi & H0 & Hc).
  exists s0. split; [exact Hi|]. intros p b nd Hp Hnd Hx.
  destruct (check_path _ _ _ Hc 0 p b Hp s0 H0 nd Hnd) as (s & Hr & Hs). exists s. auto.
Qed.

(* the same, read as multisets: every lock identifier is held exactly as often as its release
   is deferred *)
Corollary balanced_sound_counts g : balanced g = true ->
  exists s0, init_state (locks_of g) g = Some s0 /\
  forall p b nd, path (nodes g) 0 p b -> nth_error (nodes g) b = Some nd -> succs nd = [] ->
    exists s, run_path (locks_of g) (nodes g) 0 p s0 = Some s /\
              forall k, count_of (locks_of g) (fst s) k = count_of (locks_of g) (snd s) k.
Proof.
  intros H. destruct (balanced_sound g H) as (s0 & Hi & Hp). exists s0. split; [exact Hi|].
  intros p b nd P N X. destruct (Hp p b nd P N X) as (s & Hr & He). exists s. split; [exact Hr|].
  intros k. now rewrite He.
Qed.

(* no lock operation faults on any path from the entry to any node (no unlock of a mutex that is
   not held, no cond.Wait without its mutex) *)
Theorem balanced_no_fault g : balanced g = true ->
  exists s0, init_state (locks_of g) g = Some s0 /\
  forall p b nd, path (nodes g) 0 p b -> nth_error (nodes g) b = Some nd ->
    exists s, run_path (locks_of g) (nodes g) 0 p s0 = Some s.
Proof.
  intros H. destruct (balanced_inv g H) as (s0 & sl & Hi & H0 & Hc).
  exists s0. split; [exact Hi|]. intros p b nd Hp Hnd.
  destruct (check_path _ _ _ Hc 0 p b Hp s0 H0 nd Hnd) as (s & Hr & _). now exists s.
Qed.

(* a function without an immediately-deferred-literal entry set starts with nothing held *)
Lemma init_state_empty g : entry_held g = [] ->
  init_state (locks_of g) g = Some (zero_vec (locks_of g), zero_vec (locks_of g)).
Proof. unfold init_state. now intros ->. Qed.

(* a [forallb balanced] obligation over a list gives the path property for each member *)
Lemma forallb_balanced gs : forallb balanced gs = true -> forall g, In g gs -> balanced g = true.
Proof. intros H g Hg. rewrite forallb_forall in H. now apply H. Qed.

Lemma last_cons_default {A} (p : list A) : forall a b, last (b :: p) a = last p b.
Proof.
  induction p as [|c p IH]; intros a b; [reflexivity|].
  change (last (b :: c :: p) a) with (last (c :: p) a). now rewrite !IH.
Qed.

Lemma is_path_sound g : forall p a, is_path g a p = true -> path g a p (last p a).
Proof.
  induction p as [|b p IH]; intros a H; cbn in H.
  - constructor.
  - destruct (nth_error g a) as [nd|] eqn:E; [|discriminate].
    apply andb_true_iff in H as [H1 H2]. apply existsb_exists in H1 as (x & Hx & Hb).
    apply Nat.eqb_eq in Hb. subst x.
    rewrite last_cons_default.
    econstructor; eauto.
Qed.

Lemma find_cfg_In name gs g : find_cfg name gs = Some g -> In g gs.
Proof.
  induction gs as [|x gs IH]; cbn; [discriminate|].
  destruct (String.eqb (fname x) name); [intros [= ->]; now left | intros H; right; auto].
Qed.

(* ---------- no re-acquisition, for all paths ---------- *)

Lemma nr_from_nth L sl l : forall k i nd st,
  nr_from L sl k l = true -> nth_error l i = Some nd -> nth (k + i) sl None = Some st ->
  no_reacq_events L (events nd) st = true.
Proof.
  induction l as [|x l IH]; intros k i nd st H Hn Hs.
  - destruct i; discriminate.
  - cbn in H. apply andb_true_iff in H as [H1 H2]. destruct i as [|i].
    + cbn in Hn. injection Hn as <-. rewrite Nat.add_0_r in Hs. rewrite Hs in H1. exact H1.
    + cbn in Hn. replace (k + S i) with (S k + i) in Hs by lia. eapply IH; eauto.
Qed.

Lemma nr_path L g sl : check_from L sl 0 g = true -> nr_from L sl 0 g = true ->
  forall a p b, path g a p b -> forall st, nth a sl None = Some st -> run_path_nr L g a p st = true.
Proof.
  intros Hc Hn a p b Hp. induction Hp as [a | a b p c nda Ha Hin Hp IH]; intros st Hst.
  - cbn. destruct (nth_error g a) as [nd|] eqn:E; [|reflexivity].
    rewrite (nr_from_nth L sl g 0 a nd st Hn E Hst). cbn. destruct (exec_events L (events nd) st); reflexivity.
  - cbn. rewrite Ha. rewrite (nr_from_nth L sl g 0 a nda st Hn Ha Hst). cbn.
    pose proof (check_from_nth L sl g 0 a nda Hc Ha) as Hk. cbn in Hk.
    destruct (check_node_spec L sl a nda st Hk Hst) as (out & He & Hs & _). rewrite He.
    apply IH. apply Hs. exact Hin.
Qed.

(* if [balanced g] and [no_reacq g] then on EVERY finite path of g from the entry - feasible or
   not - no Acq of a mutex happens while that mutex is held in any mode *)
Theorem no_reacq_sound g : balanced g = true -> no_reacq g = true ->
  exists s0, init_state (locks_of g) g = Some s0 /\
  forall p b, path (nodes g) 0 p b -> run_path_nr (locks_of g) (nodes g) 0 p s0 = true.
Proof.
  unfold balanced, no_reacq. destruct (nodes g) as [|n0 ns] eqn:En; [discriminate|].
  destruct (init_state (locks_of g) g) as [s0|]; [|discriminate].
  unfold check. intros H Hn. apply andb_true_iff in H as [H1 H2].
  exists s0. split; [reflexivity|]. intros p b Hp.
  eapply nr_path; eauto.
  destruct (nth 0 (solve (locks_of g) (n0 :: ns) s0) None) as [s|]; [|discriminate].
  apply lstate_eqb_eq in H1. now subst.
Qed.

(* Lemmas about Model/Storage.v: every operation reads and writes only the entry of the stream it
   is addressed to - except the former Clear (F3, fixed).  From this: relational non-interference
   and "projection = solo run" for all operation sequences of the code as it is (ClearRepaired), and
   for the former code on Clear-free sequences; refutation for the former Clear. *)
From Coq Require Import List NArith Bool Lia.
From Iscp Require Import Lib.ListMap Model.Upstream Model.Storage.
Import ListNotations.
Open Scope N_scope.

Definition is_clear (o : sop) : bool := match o with SClear _ => true | _ => false end.
Definition clear_free (ops : list sop) : bool := forallb (fun o => negb (is_clear o)) ops.

(* the variant/op combinations on which the code is local *)
Definition local_op (v : clear_variant) (o : sop) : Prop := v = ClearRepaired \/ is_clear o = false.

Lemma srun_cons v keep st o ops :
  srun v keep st (o :: ops) =
  (fst (srun v keep (fst (sstep v keep st o)) ops),
   snd (sstep v keep st o) :: snd (srun v keep (fst (sstep v keep st o)) ops)).
Proof. reflexivity. Qed.

(* frame: an operation addressed to another stream leaves this stream's entry alone *)
Lemma step_frame v keep st o b :
  local_op v o -> sop_stream o <> b -> lookup b (fst (sstep v keep st o)) = lookup b st.
Proof.
  intros Hl Hne. destruct o as [sid seq g|sid seq|sid|sid]; cbn [sstep sop_stream fst] in *.
  - unfold st_store. apply lookup_insert_other. congruence.
  - unfold st_remove. destruct (lookup sid st) as [m|]; [|reflexivity].
    destruct (lookup seq m); cbn [fst]; [|reflexivity].
    apply lookup_insert_other. congruence.
  - reflexivity.
  - destruct Hl as [-> | Hc]; [|discriminate Hc]. cbn [st_clear].
    apply lookup_remove_other. congruence.
Qed.

(* locality: result and new entry of the addressed stream depend only on its old entry *)
Lemma step_local v keep st1 st2 o :
  lookup (sop_stream o) st1 = lookup (sop_stream o) st2 ->
  snd (sstep v keep st1 o) = snd (sstep v keep st2 o) /\
  lookup (sop_stream o) (fst (sstep v keep st1 o)) = lookup (sop_stream o) (fst (sstep v keep st2 o)).
Proof.
  intros H. destruct o as [sid seq g|sid seq|sid|sid]; cbn [sstep sop_stream fst snd] in *.
  - split; [reflexivity|]. unfold st_store, stream_of. rewrite H.
    now rewrite !lookup_insert_same.
  - unfold st_remove. rewrite H. destruct (lookup sid st2) as [m|] eqn:E2; cbn [fst snd]; [|split; [reflexivity|congruence]].
    destruct (lookup seq m); cbn [fst snd]; [|split; [reflexivity|congruence]].
    split; [reflexivity|]. now rewrite !lookup_insert_same.
  - unfold st_list. rewrite H. now split.
  - split; [reflexivity|]. destruct v; cbn [st_clear]; [reflexivity|].
    now rewrite !lookup_remove_same.
Qed.

(* results of the operations addressed to b, in order *)
Fixpoint proj_res (b : N) (ops : list sop) (res : list sres) : list sres :=
  match ops, res with
  | o :: ops', r :: res' => if sop_stream o =? b then r :: proj_res b ops' res' else proj_res b ops' res'
  | _, _ => []
  end.
Definition proj_ops (b : N) (ops : list sop) : list sop := filter (fun o => sop_stream o =? b) ops.

Definition all_local (v : clear_variant) (ops : list sop) : Prop := v = ClearRepaired \/ clear_free ops = true.

Lemma all_local_cons v o ops : all_local v (o :: ops) -> local_op v o /\ all_local v ops.
Proof.
  intros [-> | H]; [split; left; reflexivity|].
  cbn [clear_free forallb] in H. apply andb_true_iff in H as [H1 H2].
  split; right; [now apply negb_true_iff in H1 | exact H2].
Qed.

(* projection = solo run, generalised over two start states that agree on b *)
Lemma run_projection v keep b : forall ops st1 st2,
  all_local v ops -> lookup b st1 = lookup b st2 ->
  lookup b (fst (srun v keep st1 ops)) = lookup b (fst (srun v keep st2 (proj_ops b ops))) /\
  proj_res b ops (snd (srun v keep st1 ops)) = snd (srun v keep st2 (proj_ops b ops)).
Proof.
  induction ops as [|o ops IH]; intros st1 st2 Hl Hag.
  - cbn. now split.
  - apply all_local_cons in Hl as [Hlo Hl].
    rewrite srun_cons. cbn [fst snd proj_res proj_ops filter].
    destruct (sop_stream o =? b) eqn:E.
    + apply N.eqb_eq in E. subst b.
      destruct (step_local v keep st1 st2 o Hag) as [Hr Hs].
      rewrite srun_cons. cbn [fst snd].
      destruct (IH _ _ Hl Hs) as [IH1 IH2]. split; [exact IH1|]. now rewrite Hr, IH2.
    + apply N.eqb_neq in E.
      apply IH; [exact Hl|]. now rewrite (step_frame v keep st1 o b Hlo E).
Qed.

(* relational form: two histories that agree on the operations addressed to b *)
Lemma run_noninterference v keep b ops1 ops2 :
  all_local v ops1 -> all_local v ops2 -> proj_ops b ops1 = proj_ops b ops2 ->
  st_list b (fst (srun v keep [] ops1)) = st_list b (fst (srun v keep [] ops2)) /\
  proj_res b ops1 (snd (srun v keep [] ops1)) = proj_res b ops2 (snd (srun v keep [] ops2)).
Proof.
  intros H1 H2 He.
  destruct (run_projection v keep b ops1 [] [] H1 eq_refl) as [A1 A2].
  destruct (run_projection v keep b ops2 [] [] H2 eq_refl) as [B1 B2].
  unfold st_list. rewrite A1, B1, A2, B2, He. now split.
Qed.

(* single step, as the property text says it: an operation on a leaves List b unchanged *)
Lemma step_list_unchanged v keep st o b :
  local_op v o -> sop_stream o <> b -> st_list b (fst (sstep v keep st o)) = st_list b st.
Proof. intros Hl Hne. unfold st_list. now rewrite (step_frame v keep st o b Hl Hne). Qed.

(* the observational predicate judged by the harness holds of every run of the local variants *)
Lemma sres_eqb_refl r : sres_eqb r r = true.
Proof.
  assert (Hp : forall p, pt_eqb p p = true).
  { intros [[a b] c]. unfold pt_eqb. cbn. now rewrite !N.eqb_refl. }
  assert (Hg : forall g, group_eqb g g = true).
  { intros [i ps]. unfold group_eqb, pts_eqb. cbn. rewrite N.eqb_refl. cbn. apply list_beq_refl, Hp. }
  assert (Hgl : forall g, group_list_eqb g g = true) by (intro; apply list_beq_refl, Hg).
  destruct r; cbn; try reflexivity; [apply Hgl|].
  apply list_beq_refl. intros [k g]. unfold entry_eqb. cbn. now rewrite N.eqb_refl, Hgl.
Qed.

Lemma unchanged_others_model v keep st o : local_op v o -> forall ids,
  unchanged_others ids (sop_stream o) (snap_all ids st) (snap_all ids (fst (sstep v keep st o))) = true.
Proof.
  intros Hl. induction ids as [|i ids IH]; [reflexivity|].
  cbn [snap_all map unchanged_others]. fold (snap_all ids st). fold (snap_all ids (fst (sstep v keep st o))).
  rewrite IH, andb_true_r.
  destruct (i =? sop_stream o) eqn:E; [reflexivity|]. apply N.eqb_neq in E. cbn [orb].
  rewrite (step_list_unchanged v keep st o i Hl) by congruence. apply sres_eqb_refl.
Qed.

Lemma walk_model v keep ids : forall ops st, all_local v ops ->
  c07_walk ids ops (snap_all ids st) (srun_snaps v keep ids st ops) = true.
Proof.
  induction ops as [|o ops IH]; intros st Hl; [reflexivity|].
  apply all_local_cons in Hl as [Hlo Hl]. cbn [srun_snaps c07_walk].
  rewrite (unchanged_others_model v keep st o Hlo ids). cbn [andb]. now apply IH.
Qed.

Lemma snap_all_empty ids : snap_all ids [] = map (fun _ => RNoStream) ids.
Proof. induction ids as [|i ids IH]; [reflexivity|]. unfold snap_all in *. cbn [map]. rewrite IH. reflexivity. Qed.

(* ------------------------------------------------------------------------------------------ *)
(* the FORMER Clear (before /repo 0f97a0d): refutation with a computed witness *)

Definition f3_ops : list sop := [SStore 1 1 [(1, [(1, 4038, 2)])]; SStore 2 1 [(2, [(2, 77, 1)])]; SClear 1].

Lemma clear_former_refuted :
  exists keep st o b,
    sop_stream o <> b /\ st_list b (fst (sstep ClearFormer keep st o)) <> st_list b st.
Proof.
  exists true, (fst (srun ClearFormer true [] [SStore 2 1 [(2, [(2, 77, 1)])]])), (SClear 1), 2.
  split; [discriminate|]. vm_compute. discriminate.
Qed.

(* the same on the observational predicate: a case whose observation is the former model's run
   and on which the predicate is false *)
Definition f3_case : st_case :=
  mkStCase true [1; 2] f3_ops
    (snd (srun ClearFormer true [] f3_ops)) (srun_snaps ClearFormer true [1; 2] [] f3_ops).

Lemma storage_ok_refuted :
  sc_res f3_case = snd (srun ClearFormer true [] (sc_ops f3_case)) /\
  sc_snaps f3_case = srun_snaps ClearFormer true (sc_ids f3_case) [] (sc_ops f3_case) /\
  c07_storage_ok f3_case = false.
Proof. vm_compute. repeat split; reflexivity. Qed.

(* what a stream stores is exactly what it was given (payload-keeping) / stripped (default) *)
Lemma store_then_lookup v keep st sid seq g :
  lookup seq (stream_of sid (fst (sstep v keep st (SStore sid seq g)))) =
  Some (if keep then g else strip_groups g).
Proof.
  cbn [sstep fst]. unfold st_store, stream_of at 1. rewrite lookup_insert_same. apply lookup_insert_same.
Qed.

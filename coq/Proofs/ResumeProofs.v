(* Invariants of Model/Resume.v for a payload-keeping storage: what is stored, queued for resend or
   received by the broker under a sequence number is the content that was cut under that number
   (seq |-> content is functional); every cut chunk is stored or was removed by a waiter; a waiter
   that obtained a result removes only what the broker received; conservation of accepted points
   (re-using the per-step lemmas of Proofs/UpstreamProofs); retransmission in the new incarnation;
   close totals; a refutation for the no-payload storage class (the former default, F1). *)
From Coq Require Import List NArith Bool Lia ZifyN ZifyNat ZifyBool.
From Iscp Require Import Lib.ListMap Model.Upstream Model.Storage Model.Resume Proofs.UpstreamProofs.
Import ListNotations.
Open Scope N_scope.

(* ---------- association-list facts ---------- *)

Lemma in_insert {V} k (v : V) k0 v0 m : In (k, v) (insert k0 v0 m) -> (k, v) = (k0, v0) \/ In (k, v) m.
Proof.
  induction m as [|[k1 v1] m IH]; cbn [insert].
  - intros [H|[]]; left; now symmetry.
  - destruct (k1 =? k0); cbn [In].
    + intros [H|H]; [left; now symmetry | right; now right].
    + intros [H|H]; [right; now left|]. destruct (IH H); [now left | right; now right].
Qed.

Lemma in_remove {V} (x : N * V) k m : In x (remove k m) -> In x m.
Proof.
  induction m as [|[k1 v1] m IH]; cbn [remove]; [auto|].
  destruct (k1 =? k); cbn [In]; [intros H; right; now apply IH|].
  intros [H|H]; [now left | right; now apply IH].
Qed.

Lemma lookup_none_remove {V} k (m : lmap V) : lookup k m = None -> remove k m = m.
Proof.
  induction m as [|[k1 v1] m IH]; cbn [lookup remove]; [reflexivity|].
  destruct (k1 =? k); [discriminate|]. intros H. now rewrite IH.
Qed.

Lemma lookup_in {V} k (v : V) m : lookup k m = Some v -> In (k, v) m.
Proof.
  induction m as [|[k1 v1] m IH]; cbn [lookup]; [discriminate|].
  destruct (k1 =? k) eqn:E; [intros [= ->]; apply N.eqb_eq in E; subst; now left | intros H; right; now apply IH].
Qed.

Lemma in_ins_sorted {V} (x : N * V) k v l : In x (ins_sorted k v l) -> x = (k, v) \/ In x l.
Proof.
  induction l as [|[k1 v1] l IH]; cbn [ins_sorted].
  - intros [H|[]]; left; now symmetry.
  - destruct (k <=? k1); cbn [In].
    + intros [H|H]; [left; now symmetry | now right].
    + intros [H|H]; [right; now left|]. destruct (IH H); [now left | right; now right].
Qed.

Lemma in_sort_map {V} (x : N * V) m : In x (sort_map m) -> In x m.
Proof.
  induction m as [|[k v] m IH]; cbn; [auto|].
  intros H. apply in_ins_sorted in H as [H|H]; [now left | right; now apply IH].
Qed.

(* ---------- storage facts for one stream ---------- *)

Lemma stream_store sid seq g st :
  stream_of sid (st_store true sid seq g st) = insert seq g (stream_of sid st).
Proof. unfold st_store, stream_of at 1. now rewrite lookup_insert_same. Qed.

Lemma stream_remove sid seq st :
  stream_of sid (fst (st_remove sid seq st)) = remove seq (stream_of sid st).
Proof.
  unfold st_remove, stream_of. destruct (lookup sid st) as [m|] eqn:E; cbn [fst]; [|now rewrite E].
  destruct (lookup seq m) eqn:E2; cbn [fst].
  - now rewrite lookup_insert_same.
  - rewrite E. now rewrite lookup_none_remove.
Qed.

(* ---------- the invariant ---------- *)

Definition cseq (c : chunkT) : N := fst (fst c).
Definition cpair (c : chunkT) : N * groups := (cseq c, decode_chunk c).
Definition cutpairs (s : rstate) : list (N * groups) := map cpair (z_cut s).

Record rinvN (b : N) (s : rstate) : Prop := {
  i_seq : forall c, In c (z_cut s) -> cseq c <= b;
  i_fun : forall seq g g', In (seq, g) (cutpairs s) -> In (seq, g') (cutpairs s) -> g = g';
  i_K : forall seq g, In (seq, g) (stream_of the_sid (z_sent s)) -> In (seq, g) (cutpairs s);
  i_Q : forall seq g, In (seq, g) (z_queue s) -> In (seq, g) (cutpairs s);
  i_L : forall i seq g, In (i, seq, g) (z_ledger s) -> In (seq, g) (cutpairs s);
  i_C : forall seq g, In (seq, g) (cutpairs s) ->
          lookup seq (stream_of the_sid (z_sent s)) = Some g \/ In seq (map fst (z_removed s));
  i_R : forall seq, In (seq, 0) (z_removed s) -> ledger_has seq (z_ledger s) = true
}.

Definition rinv (s : rstate) : Prop := inv (z_u s) /\ rinvN (u_seq (z_u s)) s.

Lemma rinvN_mono b b' s : b <= b' -> rinvN b s -> rinvN b' s.
Proof. intros Hb [A B C D E F G]. split; auto. intros c Hc. specialize (A c Hc). lia. Qed.

Lemma ledger_has_app seq l x : ledger_has seq l = true -> ledger_has seq (l ++ x) = true.
Proof. unfold ledger_has. rewrite existsb_app. now intros ->. Qed.

Lemma ledger_has_last seq i g l : ledger_has seq (l ++ [(i, seq, g)]) = true.
Proof. unfold ledger_has. rewrite existsb_app. cbn. now rewrite N.eqb_refl, orb_true_r. Qed.

(* frames: helpers that touch none of the fields the invariant reads *)
Lemma inv_set_status b s st : rinvN b s -> rinvN b (set_status s st).
Proof. intros [A B C D E F G]. split; auto. Qed.
Lemma inv_set_waiters b s w : rinvN b s -> rinvN b (set_waiters s w).
Proof. intros [A B C D E F G]. split; auto. Qed.
Lemma inv_set_queue_sub b s q : rinvN b s -> (forall x, In x q -> In x (z_queue s) \/ In x (stream_of the_sid (z_sent s))) ->
  rinvN b (set_queue s q).
Proof.
  intros [A B C D E F G] Hq. split; auto. intros seq g H. cbn in H.
  destruct (Hq _ H); [now apply D | now apply C].
Qed.

(* transmit: the content sent under seq is the content cut under seq *)
Lemma inv_transmit b s seq g : rinvN b s -> In (seq, g) (cutpairs s) -> rinvN b (transmit s seq g).
Proof.
  intros Hi Hin. unfold transmit. destruct (z_link s).
  - destruct Hi as [A B C D E F G]. split; cbn; auto.
    + intros i q g0 H. apply in_app_or in H as [H|[H|[]]]; [eauto|]. injection H as <- <- <-. exact Hin.
    + intros q H. apply ledger_has_app. now apply G.
  - exact Hi.
  - now apply inv_set_waiters.
Qed.

Lemma z_u_transmit s seq g : z_u (transmit s seq g) = z_u s.
Proof. unfold transmit. destruct (z_link s); reflexivity. Qed.
Lemma z_cut_transmit s seq g : z_cut (transmit s seq g) = z_cut s.
Proof. unfold transmit. destruct (z_link s); reflexivity. Qed.

(* a chunk cut with a fresh sequence number *)
Lemma inv_on_chunk keep_rel clr b s c : rinvN b s -> b < cseq c ->
  rinvN (cseq c) (on_chunk (mkCfg true keep_rel clr) s c).
Proof.
  intros Hi Hlt. unfold on_chunk. cbn [c_keep].
  apply inv_transmit; [|unfold cutpairs; cbn [z_cut]; rewrite map_app; apply in_or_app; right; now left].
  destruct Hi as [A B C D E F G].
  assert (Hfresh : forall g, ~ In (cseq c, g) (cutpairs s)).
  { intros g H. unfold cutpairs in H. apply in_map_iff in H as (c0 & Hc0 & Hin). injection Hc0 as Hs _.
    specialize (A c0 Hin). lia. }
  split; unfold cutpairs in *; cbn [z_cut z_sent z_queue z_ledger z_removed].
  - intros c0 H. apply in_app_or in H as [H|[<-|[]]]; [specialize (A c0 H); lia | lia].
  - intros seq g g' H1 H2. rewrite map_app in H1, H2. apply in_app_or in H1, H2.
    destruct H1 as [H1|[H1|[]]], H2 as [H2|[H2|[]]].
    + eauto.
    + exfalso. injection H2 as <- _. now apply (Hfresh g).
    + exfalso. injection H1 as <- _. now apply (Hfresh g').
    + unfold cpair in H1, H2. congruence.
  - intros seq g H. rewrite stream_store in H. rewrite map_app. apply in_or_app.
    apply in_insert in H as [H|H]; [right; left; now symmetry | left; now apply C].
  - intros seq g H. rewrite map_app. apply in_or_app. left. now apply D.
  - intros i seq g H. rewrite map_app. apply in_or_app. left. eauto.
  - intros seq g H. rewrite map_app in H. rewrite stream_store. apply in_app_or in H as [H|[H|[]]].
    + assert (Hne : seq <> fst (fst c)) by (intros ->; now apply (Hfresh g)).
      rewrite (lookup_insert_other _ _ _ _ Hne). now apply F.
    + injection H as <- <-. left. apply lookup_insert_same.
  - exact G.
Qed.

Lemma z_u_on_chunk cfg s c : z_u (on_chunk cfg s c) = z_u s.
Proof. unfold on_chunk. now rewrite z_u_transmit. Qed.
Lemma z_cut_on_chunk cfg s c : z_cut (on_chunk cfg s c) = z_cut s ++ [c].
Proof. unfold on_chunk. now rewrite z_cut_transmit. Qed.

Lemma fold_on_chunk_u cfg cs : forall s, z_u (fold_left (on_chunk cfg) cs s) = z_u s.
Proof. induction cs as [|c cs IH]; intros s; cbn; [reflexivity|]. now rewrite IH, z_u_on_chunk. Qed.
Lemma fold_on_chunk_cut cfg cs : forall s, z_cut (fold_left (on_chunk cfg) cs s) = z_cut s ++ cs.
Proof.
  induction cs as [|c cs IH]; intros s; cbn; [now rewrite app_nil_r|].
  rewrite IH, z_cut_on_chunk, <- app_assoc. reflexivity.
Qed.

Lemma inv_fold_on_chunk rel clr cs : forall b s, rinvN b s -> seqs_from (b + 1) cs = true ->
  rinvN (b + N.of_nat (length cs)) (fold_left (on_chunk (mkCfg true rel clr)) cs s).
Proof.
  induction cs as [|c cs IH]; intros b s Hi Hs; cbn [fold_left length].
  - now rewrite N.add_0_r.
  - cbn [seqs_from] in Hs. apply andb_true_iff in Hs as [H1 H2]. apply N.eqb_eq in H1.
    assert (Hc : cseq c = b + 1) by exact H1.
    replace (b + N.of_nat (S (length cs))) with (cseq c + N.of_nat (length cs)) by lia.
    apply IH; [apply (inv_on_chunk rel clr b); [exact Hi | lia] | now rewrite Hc].
Qed.

(* a waiter removes its chunk *)
Lemma inv_waiter_removes b s seq why : rinvN b s -> (why = 0 -> ledger_has seq (z_ledger s) = true) ->
  rinvN b (waiter_removes s seq why).
Proof.
  intros [A B C D E F G] Hw. split; unfold cutpairs in *; cbn; auto.
  - intros q g H. rewrite stream_remove in H. apply in_remove in H. now apply C.
  - intros q g H. rewrite stream_remove. destruct (N.eq_dec q seq) as [->|Hne]; [right; now left|].
    destruct (F q g H) as [H1|H1]; [left; now rewrite lookup_remove_other by congruence | right; now right].
  - intros q [H|H]; [injection H as H1 H2; subst q; now apply Hw | now apply G].
Qed.

Lemma inv_on_result b s r : rinvN b s -> rinvN b (on_result s r).
Proof.
  intros Hi. unfold on_result. destruct (z_link s); try exact Hi.
  destruct (ledger_has (fst r) (z_ledger s)) eqn:E; cbn [andb]; [|exact Hi].
  destruct (mem (fst r) (z_waiters s)); [|exact Hi]. apply inv_waiter_removes; auto.
Qed.

Lemma inv_fold_on_result b rs : forall s, rinvN b s -> rinvN b (fold_left on_result rs s).
Proof. induction rs as [|r rs IH]; intros s Hi; cbn; [exact Hi|]. apply IH. now apply inv_on_result. Qed.

Lemma z_u_on_result s r : z_u (on_result s r) = z_u s.
Proof. unfold on_result. destruct (z_link s); try reflexivity. now destruct (_ && _). Qed.
Lemma z_cut_on_result s r : z_cut (on_result s r) = z_cut s.
Proof. unfold on_result. destruct (z_link s); try reflexivity. now destruct (_ && _). Qed.
Lemma fold_on_result_u rs : forall s, z_u (fold_left on_result rs s) = z_u s.
Proof. induction rs as [|r rs IH]; intros s; cbn; [reflexivity|]. now rewrite IH, z_u_on_result. Qed.
Lemma fold_on_result_cut rs : forall s, z_cut (fold_left on_result rs s) = z_cut s.
Proof. induction rs as [|r rs IH]; intros s; cbn; [reflexivity|]. now rewrite IH, z_cut_on_result. Qed.

(* exec_u: one operation of the stream model *)
Lemma exec_u_u cfg s o : z_u (fst (exec_u cfg s o)) = fst (fst (ustep (z_u s) o)).
Proof. unfold exec_u. cbn [fst]. now rewrite fold_on_chunk_u. Qed.
Lemma exec_u_cut cfg s o : z_cut (fst (exec_u cfg s o)) = z_cut s ++ chunks_of (snd (fst (ustep (z_u s) o))).
Proof. unfold exec_u. cbn [fst]. now rewrite fold_on_chunk_cut. Qed.

Lemma inv_set_u b s u : rinvN b s -> rinvN b (set_u s u).
Proof. intros [A B C D E F G]. split; auto. Qed.

Lemma inv_exec_u rel clr s o : rinv s -> rinv (fst (exec_u (mkCfg true rel clr) s o)).
Proof.
  intros [Hu Hi]. split.
  - rewrite exec_u_u. now apply inv_step.
  - rewrite exec_u_u. pose proof (step_numbering (z_u s) o Hu) as Hn. cbn zeta in Hn.
    destruct Hn as (Hs & Hq & _). rewrite Hq. unfold exec_u. cbn [fst].
    apply inv_fold_on_chunk; [now apply inv_set_u | exact Hs].
Qed.

(* ---------- the invariant is preserved by every event ---------- *)

Definition keeping (cfg : rcfg) : Prop := c_keep cfg = true /\ c_reliable cfg = true.

Lemma inv_set_conn b s l i tx av : rinvN b s -> rinvN b (set_conn s l i tx av).
Proof. intros [A B C D E F G]. split; auto. Qed.
Lemma inv_set_reports b s cr ev n : rinvN b s -> rinvN b (set_reports s cr ev n).
Proof. intros [A B C D E F G]. split; auto. Qed.
Lemma inv_set_closing b s c : rinvN b s -> rinvN b (set_closing s c).
Proof. intros [A B C D E F G]. split; auto. Qed.
Lemma inv_close_err b s err : rinvN b s -> rinvN b (close_err s err).
Proof. intros H. unfold close_err. now apply inv_set_reports, inv_set_waiters, inv_set_status. Qed.

Lemma rinv_step cfg s e : keeping cfg -> rinv s -> rinv (fst (rstep cfg s e)).
Proof.
  destruct cfg as [k rel clr]. unfold keeping. cbn [c_keep c_reliable]. intros [-> ->] Hi. set (rel := true).
  assert (Hex : forall o, rinv (fst (exec_u (mkCfg true rel clr) s o))) by (intro; now apply inv_exec_u).
  pose proof Hi as [Hu HiN].
  assert (Hce : forall err, rinv (close_err s err)) by (intro; split; [exact Hu | now apply inv_close_err]).
  destruct e as [o| |seq|silent| | |r|seq]; cbn [rstep].
  - (* EApi *)
    destruct (z_status s).
    + destruct o; try apply Hex.
      * cbn [fst]. destruct (Hex (Results rs)) as [A B].
        split; rewrite fold_on_result_u; [exact A | now apply inv_fold_on_result].
      * cbn [fst]. destruct (Hex Flush) as [A B]. split; [exact A | now apply inv_set_closing, inv_set_status].
    + destruct o; try apply Hex; try exact Hi.
      cbn [fst]. destruct (Hex (Results rs)) as [A B].
      split; rewrite fold_on_result_u; [exact A | now apply inv_fold_on_result].
    + destruct o; cbn [fst]; try exact Hi. apply Hce.
    + destruct o; exact Hi.
    + destruct o; exact Hi.
  - (* ECloseEnd *)
    assert (Hcl : forall err, rinv (set_closing (close_err s err) false))
      by (intro; split; [exact Hu | now apply inv_set_closing, inv_close_err]).
    destruct (z_closing s); [|exact Hi].
    destruct (z_status s); try (destruct (z_link s)); cbn [fst]; try apply Hcl;
      try (split; [exact Hu | now apply inv_set_closing]);
      (split; [exact Hu | now apply inv_set_closing, inv_set_reports, inv_set_waiters, inv_set_status]).
  - (* EAckTimeout *)
    assert (Hx : rinv (fst (if mem seq (z_waiters s) then (waiter_removes s seq 1, 0) else (s, 0)))).
    { destruct (mem seq (z_waiters s)); cbn [fst]; [|exact Hi].
      split; [exact Hu | apply inv_waiter_removes; [exact HiN | discriminate]]. }
    destruct (z_status s); try exact Hi; exact Hx.
  - (* ELinkDown *)
    destruct (z_link s); cbn [fst]; (split; [exact Hu | now apply inv_set_conn]).
  - (* EDetect *)
    assert (Hx : rinv (set_queue (set_waiters (set_status (fst (exec_u (mkCfg true rel clr) s Tick)) SResuming) []) [])).
    { destruct (Hex Tick) as [A B]. split; [exact A|].
      cbn [z_u set_queue set_waiters set_status].
      apply inv_set_queue_sub; [|intros x []]. now apply inv_set_waiters, inv_set_status. }
    destruct (z_status s); try exact Hi; destruct (z_link s); try exact Hi; exact Hx.
  - (* ERedial *)
    destruct (z_link s); try exact Hi; cbn [fst]; (split; [exact Hu | now apply inv_set_conn]).
  - (* EResume *)
    destruct (z_status s); try exact Hi.
    set (s0 := set_reports s (z_closereqs s) (z_closedev s) (z_resumes s + 1)).
    assert (H0 : rinvN (u_seq (z_u s)) s0) by now apply inv_set_reports.
    assert (Hc0 : forall err, rinv (close_err s0 err)) by (intro; split; [exact Hu | now apply inv_close_err]).
    destruct r, (z_avail s); try apply Hc0; cbn [c_reliable fst].
    + (* ROk *) split; [exact Hu|]. apply inv_set_queue_sub; [now apply inv_set_conn, inv_set_status|].
      intros x Hx. right. apply in_sort_map in Hx. exact Hx.
    + split; [exact Hu | exact H0].
    + split; [exact Hu|]. now apply inv_set_reports, inv_set_waiters, inv_set_status.
  - (* EResend *)
    assert (Hx : forall g, lookup seq (z_queue s) = Some g -> rinv (transmit (set_queue s (remove seq (z_queue s))) seq g)).
    { intros g E. split; [now rewrite z_u_transmit|]. rewrite z_u_transmit. cbn [z_u set_queue].
      apply inv_transmit.
      - apply inv_set_queue_sub; [exact HiN|]. intros x Hx. left. now apply in_remove in Hx.
      - unfold cutpairs. cbn [z_cut set_queue]. apply (i_Q _ _ HiN). now apply lookup_in. }
    destruct (z_status s); try exact Hi; (destruct (lookup seq (z_queue s)) as [g|] eqn:E; [|exact Hi]); cbn [fst]; now apply Hx.
Qed.

(* ---------- runs ---------- *)

Lemma rrun_cons cfg s e evs :
  rrun cfg s (e :: evs) =
  (fst (rrun cfg (fst (rstep cfg s e)) evs), snd (rstep cfg s e) :: snd (rrun cfg (fst (rstep cfg s e)) evs)).
Proof. reflexivity. Qed.

Lemma rinv_init pol rev0 : rinv (rinit pol rev0).
Proof.
  split; [apply inv_init|]. split; cbn; try (intros; contradiction); try (intros ? ? []); try (intros ? []);
    try (intros ? ? ? []).
Qed.

Lemma rinv_run cfg evs : forall s, keeping cfg -> rinv s -> rinv (fst (rrun cfg s evs)).
Proof.
  induction evs as [|e evs IH]; intros s Hk Hi; [exact Hi|].
  rewrite rrun_cons. cbn [fst]. apply IH; [exact Hk | now apply rinv_step].
Qed.

(* ---------- clean histories: no ack timeout ---------- *)

Definition clean_ev (e : revt) : bool := match e with EAckTimeout _ => false | _ => true end.
Definition clean (evs : list revt) : bool := forallb clean_ev evs.

Definition only0 (s : rstate) : Prop := forall seq why, In (seq, why) (z_removed s) -> why = 0.

Lemma z_removed_transmit s seq g : z_removed (transmit s seq g) = z_removed s.
Proof. unfold transmit. destruct (z_link s); reflexivity. Qed.
Lemma z_removed_fold_chunk cfg cs : forall s, z_removed (fold_left (on_chunk cfg) cs s) = z_removed s.
Proof.
  induction cs as [|c cs IH]; intros s; cbn; [reflexivity|]. rewrite IH. unfold on_chunk. now rewrite z_removed_transmit.
Qed.
Lemma z_removed_exec_u cfg s o : z_removed (fst (exec_u cfg s o)) = z_removed s.
Proof. unfold exec_u. cbn [fst]. now rewrite z_removed_fold_chunk. Qed.
Lemma only0_on_result s r : only0 s -> only0 (on_result s r).
Proof.
  intros H. unfold on_result. destruct (z_link s); try exact H. destruct (_ && _); [|exact H].
  intros q w [E|E]; [now injection E as _ <- | eauto].
Qed.
Lemma only0_fold_result rs : forall s, only0 s -> only0 (fold_left on_result rs s).
Proof. induction rs as [|r rs IH]; intros s H; cbn; [exact H|]. apply IH. now apply only0_on_result. Qed.

Lemma only0_step cfg s e : clean_ev e = true -> only0 s -> only0 (fst (rstep cfg s e)).
Proof.
  intros Hc H0.
  assert (Hex : forall o, only0 (fst (exec_u cfg s o))) by (intros o q w; rewrite z_removed_exec_u; apply H0).
  destruct e as [o| |seq|silent| | |r|seq]; cbn [rstep]; try discriminate Hc.
  - destruct (z_status s); destruct o; cbn [fst]; try apply Hex; try exact H0;
      try (apply only0_fold_result; apply Hex).
  - destruct (z_closing s); [|exact H0]. destruct (z_status s); try (destruct (z_link s)); exact H0.
  - destruct (z_link s); exact H0.
  - destruct (z_status s); try exact H0; destruct (z_link s); try exact H0; cbn [fst]; exact (Hex Tick).
  - destruct (z_link s); exact H0.
  - destruct (z_status s); try exact H0. destruct r, (z_avail s); cbn [fst]; try exact H0.
    destruct (c_reliable cfg); exact H0.
  - destruct (z_status s); try exact H0; destruct (lookup seq (z_queue s)); try exact H0; cbn [fst];
      intros q w Hq; rewrite z_removed_transmit in Hq; eauto.
Qed.

Lemma only0_run cfg evs : forall s, clean evs = true -> only0 s -> only0 (fst (rrun cfg s evs)).
Proof.
  induction evs as [|e evs IH]; intros s Hc H0; [exact H0|].
  cbn [clean forallb] in Hc. apply andb_true_iff in Hc as [H1 H2].
  rewrite rrun_cons. cbn [fst]. apply IH; [exact H2 | now apply only0_step].
Qed.

(* ---------- conservation of accepted points ---------- *)

Lemma chunk_pts_decode id c : chunk_pts id c = buf_pts id (decode_chunk c).
Proof. unfold chunk_pts, buf_pts, decode_chunk. rewrite map_map. reflexivity. Qed.

Definition ev_pts (id : N) (e : revt) (ret : N) : list pt :=
  match e with EApi (Write k ps) => if (k =? id) && (ret =? 0) then ps else [] | _ => [] end.

Lemma racc_pts_cons id e evs r rets : racc_pts id (e :: evs) (r :: rets) = ev_pts id e r ++ racc_pts id evs rets.
Proof. destruct e as [o| | | | | | |]; try reflexivity. destruct o; reflexivity. Qed.

Definition held (id : N) (s : rstate) : list pt := chunks_pts id (z_cut s) ++ buf_pts id (u_buf (z_u s)).

Lemma exec_u_conserves cfg id s o : inv (z_u s) ->
  held id (fst (exec_u cfg s o)) = held id s ++ op_pts id o (snd (exec_u cfg s o)).
Proof.
  intros Hu. unfold held. rewrite exec_u_u, exec_u_cut, chunks_pts_app, <- app_assoc.
  pose proof (step_conserves id (z_u s) o Hu) as H. cbn zeta in H. unfold exec_u. cbn [snd].
  rewrite H. now rewrite app_assoc.
Qed.

(* what the stream part does in one event: at most one operation of Model/Upstream *)
Definition uop_of (s : rstate) (e : revt) : option uop :=
  match e with
  | EApi o =>
      match z_status s with
      | SConnected => match o with Close => Some Flush | _ => Some o end
      | SDraining => match o with Write _ _ | Close => None | _ => Some o end
      | _ => None
      end
  | EDetect =>
      match z_status s, z_link s with
      | (SConnected | SDraining), (LDownLoud | LDownSilent) => Some Tick
      | _, _ => None
      end
  | _ => None
  end.

Lemma step_shape cfg s e :
  match uop_of s e with
  | Some o => z_u (fst (rstep cfg s e)) = z_u (fst (exec_u cfg s o)) /\ z_cut (fst (rstep cfg s e)) = z_cut (fst (exec_u cfg s o))
  | None => z_u (fst (rstep cfg s e)) = z_u s /\ z_cut (fst (rstep cfg s e)) = z_cut s
  end.
Proof.
  destruct e as [o| |seq|silent| | |r|seq]; cbn [rstep uop_of].
  - destruct (z_status s); destruct o; cbn [fst]; try (split; reflexivity);
      split; rewrite ?fold_on_result_u, ?fold_on_result_cut; reflexivity.
  - destruct (z_closing s); [|split; reflexivity]. destruct (z_status s); try (destruct (z_link s)); split; reflexivity.
  - destruct (z_status s); try (split; reflexivity); destruct (mem seq (z_waiters s)); split; reflexivity.
  - destruct (z_link s); split; reflexivity.
  - destruct (z_status s); try (split; reflexivity); destruct (z_link s); split; reflexivity.
  - destruct (z_link s); split; reflexivity.
  - destruct (z_status s); try (split; reflexivity). destruct r, (z_avail s); try (split; reflexivity).
    destruct (c_reliable cfg); split; reflexivity.
  - destruct (z_status s); try (split; reflexivity); destruct (lookup seq (z_queue s)); try (split; reflexivity);
      cbn [fst]; split; rewrite ?z_u_transmit, ?z_cut_transmit; reflexivity.
Qed.

(* the return code of an event that runs a stream operation is that operation's, except Close(begin) *)
Lemma step_ret_pts cfg id s e :
  ev_pts id e (snd (rstep cfg s e)) =
  match uop_of s e with Some o => op_pts id o (snd (exec_u cfg s o)) | None => [] end.
Proof.
  destruct e as [o| |seq|silent| | |r|seq]; cbn [rstep uop_of ev_pts]; try reflexivity.
  - destruct (z_status s); destruct o; cbn [snd op_pts]; try reflexivity;
      try (change (1 =? 0) with false; now rewrite andb_false_r);
      try (change (2 =? 0) with false; now rewrite andb_false_r).
  - destruct (z_status s); try reflexivity; destruct (z_link s); reflexivity.
Qed.

Lemma step_conserves_r cfg id s e : inv (z_u s) ->
  held id (fst (rstep cfg s e)) = held id s ++ ev_pts id e (snd (rstep cfg s e)).
Proof.
  intros Hu. rewrite step_ret_pts. pose proof (step_shape cfg s e) as H. unfold held at 1.
  destruct (uop_of s e) as [o|]; destruct H as [-> ->].
  - now apply exec_u_conserves.
  - now rewrite app_nil_r.
Qed.

Lemma inv_u_step cfg s e : inv (z_u s) -> inv (z_u (fst (rstep cfg s e))).
Proof.
  intros Hu. pose proof (step_shape cfg s e) as H. destruct (uop_of s e) as [o|]; destruct H as [-> _].
  - rewrite exec_u_u. now apply inv_step.
  - exact Hu.
Qed.

Lemma run_conserves cfg id evs : forall s, inv (z_u s) ->
  held id (fst (rrun cfg s evs)) = held id s ++ racc_pts id evs (snd (rrun cfg s evs)).
Proof.
  induction evs as [|e evs IH]; intros s Hu.
  - cbn. now rewrite app_nil_r.
  - rewrite rrun_cons. cbn [fst snd]. rewrite racc_pts_cons.
    rewrite (IH _ (inv_u_step cfg s e Hu)), (step_conserves_r cfg id s e Hu). now rewrite app_assoc.
Qed.

(* ---------- the C02 statements on reachable states ---------- *)

Definition settled (s : rstate) : Prop := forall seq, lookup seq (stream_of the_sid (z_sent s)) = None.

Lemma ledger_has_in seq l : ledger_has seq l = true -> exists i g, In (i, seq, g) l.
Proof.
  unfold ledger_has. intros H. apply existsb_exists in H as ([[i q] g] & Hin & Hq).
  cbn in Hq. apply N.eqb_eq in Hq. subst q. eauto.
Qed.

Lemma seq_functional_inv s : rinv s -> forall i i' seq g g',
  In (i, seq, g) (z_ledger s) -> In (i', seq, g') (z_ledger s) -> g = g'.
Proof. intros [_ Hi] i i' seq g g' H1 H2. eapply (i_fun _ _ Hi); eapply (i_L _ _ Hi); eauto. Qed.

Lemma delivered_inv s : rinv s -> only0 s -> settled s ->
  forall c, In c (z_cut s) -> exists i, In (i, cseq c, decode_chunk c) (z_ledger s).
Proof.
  intros [_ Hi] H0 Hs c Hc.
  assert (Hp : In (cseq c, decode_chunk c) (cutpairs s)) by (unfold cutpairs; apply in_map_iff; exists c; split; auto).
  destruct (i_C _ _ Hi _ _ Hp) as [H|H]; [rewrite Hs in H; discriminate|].
  apply in_map_iff in H as ([q w] & Hq & Hin). cbn in Hq. subst q.
  pose proof (H0 _ _ Hin) as ->.
  apply (i_R _ _ Hi), ledger_has_in in Hin as (i & g & Hl).
  exists i. pose proof (i_L _ _ Hi _ _ _ Hl) as Hg. now rewrite (i_fun _ _ Hi _ _ _ Hp Hg).
Qed.

(* ---------- control-state frames ---------- *)

(* the fields that only rstep itself (not the chunk/result helpers) changes *)
Definition same_ctl (s s' : rstate) : Prop :=
  z_link s' = z_link s /\ z_inc s' = z_inc s /\ z_status s' = z_status s /\ z_queue s' = z_queue s /\
  z_closereqs s' = z_closereqs s /\ z_avail s' = z_avail s.

Lemma same_ctl_refl s : same_ctl s s.
Proof. unfold same_ctl. repeat split. Qed.
Lemma same_ctl_trans a b c : same_ctl a b -> same_ctl b c -> same_ctl a c.
Proof. unfold same_ctl. intros (A1&A2&A3&A4&A5&A6) (B1&B2&B3&B4&B5&B6). repeat split; congruence. Qed.
Lemma ctl_transmit s seq g : same_ctl s (transmit s seq g).
Proof. unfold transmit, same_ctl. destruct (z_link s) eqn:E; cbn; rewrite ?E; repeat split. Qed.
Lemma ctl_on_chunk cfg s c : same_ctl s (on_chunk cfg s c).
Proof. unfold on_chunk. eapply same_ctl_trans; [|apply ctl_transmit]. unfold same_ctl. repeat split. Qed.
Lemma ctl_fold_chunk cfg cs : forall s, same_ctl s (fold_left (on_chunk cfg) cs s).
Proof.
  induction cs as [|c cs IH]; intros s; cbn; [apply same_ctl_refl|].
  eapply same_ctl_trans; [apply ctl_on_chunk | apply IH].
Qed.
Lemma ctl_exec_u cfg s o : same_ctl s (fst (exec_u cfg s o)).
Proof. unfold exec_u. cbn [fst]. eapply same_ctl_trans; [|apply ctl_fold_chunk]. unfold same_ctl. repeat split. Qed.
Lemma ctl_on_result s r : same_ctl s (on_result s r).
Proof. unfold on_result. destruct (z_link s); try apply same_ctl_refl. destruct (_ && _); unfold same_ctl; repeat split. Qed.
Lemma ctl_fold_result rs : forall s, same_ctl s (fold_left on_result rs s).
Proof.
  induction rs as [|r rs IH]; intros s; cbn; [apply same_ctl_refl|].
  eapply same_ctl_trans; [apply ctl_on_result | apply IH].
Qed.

(* ---------- close totals ---------- *)

Definition qinv (s : rstate) : Prop :=
  u_total (z_u s) = sum_counts (z_cut s) /\ u_seq (z_u s) = N.of_nat (length (z_cut s)) /\
  (forall tq, In tq (z_closereqs s) -> is_closed (z_status s) = true /\ tq = (u_total (z_u s), u_seq (z_u s))).

(* once closed, nothing moves the stream part, the status or the close requests *)
Lemma closed_step cfg s e : is_closed (z_status s) = true ->
  uop_of s e = None /\ z_status (fst (rstep cfg s e)) = z_status s /\ z_closereqs (fst (rstep cfg s e)) = z_closereqs s.
Proof.
  intros Hc. destruct e as [o| |seq|silent| | |r|seq]; cbn [rstep uop_of];
    destruct (z_status s) eqn:Es; try discriminate Hc; try (destruct o); try (destruct (z_closing s)); try (destruct (z_link s)); cbn; rewrite ?Es; repeat split.
Qed.

(* an open stream: the close requests grow only by the current totals, and then the stream is closed *)
Lemma open_step_reports cfg s e : is_closed (z_status s) = false ->
  z_closereqs (fst (rstep cfg s e)) = z_closereqs s \/
  (z_closereqs (fst (rstep cfg s e)) = z_closereqs s ++ [(u_total (z_u s), u_seq (z_u s))] /\
   is_closed (z_status (fst (rstep cfg s e))) = true /\ uop_of s e = None).
Proof.
  intros Ho.
  assert (Hex : forall o, z_closereqs (fst (exec_u cfg s o)) = z_closereqs s) by (intro; apply (ctl_exec_u cfg s o)).
  destruct e as [o| |seq|silent| | |r|seq]; cbn [rstep uop_of].
  - destruct (z_status s); try discriminate Ho; destruct o; cbn [fst]; left; try apply Hex; try reflexivity;
      try (rewrite (proj1 (proj2 (proj2 (proj2 (proj2 (ctl_fold_result rs _)))))); apply Hex).
  - destruct (z_closing s); [|left; reflexivity].
    destruct (z_status s); try discriminate Ho; try (left; reflexivity);
      (destruct (z_link s); [right; repeat split | left; reflexivity | left; reflexivity]).
  - destruct (z_status s); try discriminate Ho; try (left; reflexivity); destruct (mem seq (z_waiters s)); left; reflexivity.
  - destruct (z_link s); left; reflexivity.
  - destruct (z_status s); try discriminate Ho; try (left; reflexivity); destruct (z_link s); left; try reflexivity;
      cbn [fst z_closereqs set_queue set_waiters set_status]; apply Hex.
  - destruct (z_link s); left; reflexivity.
  - destruct (z_status s); try discriminate Ho; try (left; reflexivity).
    destruct r, (z_avail s); try (left; reflexivity); [destruct (c_reliable cfg); left; reflexivity|].
    right. repeat split.
  - destruct (z_status s); try discriminate Ho; try (left; reflexivity);
      destruct (lookup seq (z_queue s)) as [g|]; try (left; reflexivity); left; cbn [fst];
      apply (ctl_transmit (set_queue s (remove seq (z_queue s))) seq g).
Qed.

Lemma length_app_N {A} (a b : list A) : N.of_nat (length (a ++ b)) = N.of_nat (length a) + N.of_nat (length b).
Proof. rewrite app_length. lia. Qed.

Lemma qinv_step cfg s e : inv (z_u s) -> qinv s -> qinv (fst (rstep cfg s e)).
Proof.
  intros Hu (Ht & Hq & Hr).
  pose proof (step_shape cfg s e) as Hsh.
  destruct (is_closed (z_status s)) eqn:Hc.
  - destruct (closed_step cfg s e Hc) as (Hn & Hst & Hcr). rewrite Hn in Hsh. destruct Hsh as [Eu Ec].
    unfold qinv. rewrite Eu, Ec, Hst, Hcr. repeat split; auto; now apply Hr.
  - assert (Hnone : z_closereqs s = []).
    { destruct (z_closereqs s) as [|tq l] eqn:E; [reflexivity|]. destruct (Hr tq (or_introl eq_refl)) as [H _]. congruence. }
    assert (Hnum : u_total (z_u (fst (rstep cfg s e))) = sum_counts (z_cut (fst (rstep cfg s e))) /\
                   u_seq (z_u (fst (rstep cfg s e))) = N.of_nat (length (z_cut (fst (rstep cfg s e))))).
    { destruct (uop_of s e) as [o|]; destruct Hsh as [-> ->].
      - rewrite exec_u_u, exec_u_cut. pose proof (step_numbering (z_u s) o Hu) as Hn. cbn zeta in Hn.
        destruct Hn as (_ & H2 & H3 & _). rewrite H2, H3, sum_counts_app, length_app_N, Ht, Hq. split; reflexivity.
      - now split. }
    destruct Hnum as [N1 N2]. split; [exact N1 | split; [exact N2|]].
    destruct (open_step_reports cfg s e Hc) as [E | (E & Hcl & Hn)]; rewrite E, Hnone.
    + intros tq [].
    + rewrite Hn in Hsh. destruct Hsh as [Eu _]. intros tq [<-|[]]. now rewrite Eu.
Qed.

Lemma qinv_run cfg evs : forall s, inv (z_u s) -> qinv s -> qinv (fst (rrun cfg s evs)).
Proof.
  induction evs as [|e evs IH]; intros s Hu Hq; [exact Hq|].
  rewrite rrun_cons. cbn [fst]. apply IH; [now apply inv_u_step | now apply qinv_step].
Qed.

(* accepted point count = points in the chunks cut + points still buffered *)
Definition ev_count (e : revt) (ret : N) : N :=
  match e with EApi (Write _ ps) => if ret =? 0 then N.of_nat (length ps) else 0 | _ => 0 end.
Lemma racc_count_cons e evs r rets : racc_count (e :: evs) (r :: rets) = ev_count e r + racc_count evs rets.
Proof. destruct e as [o| | | | | | |]; try reflexivity. destruct o; reflexivity. Qed.

Lemma step_count cfg s e : inv (z_u s) ->
  u_total (z_u (fst (rstep cfg s e))) + u_count (z_u (fst (rstep cfg s e))) =
  u_total (z_u s) + u_count (z_u s) + ev_count e (snd (rstep cfg s e)).
Proof.
  intros Hu. pose proof (step_shape cfg s e) as Hsh.
  assert (Hret : ev_count e (snd (rstep cfg s e)) =
                 match uop_of s e with
                 | Some o => match o with Write _ ps => if snd (ustep (z_u s) o) =? 0 then N.of_nat (length ps) else 0 | _ => 0 end
                 | None => 0 end).
  { destruct e as [o| |seq|silent| | |r|seq]; cbn [rstep uop_of ev_count]; try reflexivity;
      try (destruct (z_status s); try reflexivity; destruct (z_link s); reflexivity).
    destruct (z_status s); destruct o; cbn [snd]; reflexivity. }
  rewrite Hret. destruct (uop_of s e) as [o|]; destruct Hsh as [-> _].
  - rewrite exec_u_u. pose proof (step_state_conservation (z_u s) o Hu) as H. cbn zeta in H. exact H.
  - lia.
Qed.

Lemma run_count cfg evs : forall s, inv (z_u s) ->
  u_total (z_u (fst (rrun cfg s evs))) + u_count (z_u (fst (rrun cfg s evs))) =
  u_total (z_u s) + u_count (z_u s) + racc_count evs (snd (rrun cfg s evs)).
Proof.
  induction evs as [|e evs IH]; intros s Hu; [cbn; lia|].
  rewrite rrun_cons. cbn [fst snd]. rewrite racc_count_cons, (IH _ (inv_u_step cfg s e Hu)), (step_count cfg s e Hu). lia.
Qed.

Lemma inv_u_run cfg evs : forall s, inv (z_u s) -> inv (z_u (fst (rrun cfg s evs))).
Proof. induction evs as [|e evs IH]; intros s Hu; [exact Hu|]. rewrite rrun_cons. cbn [fst]. apply IH. now apply inv_u_step. Qed.

(* ---------- retransmission in the new incarnation ---------- *)

Lemma in_ins_sorted_rev {V} (x : N * V) k v l : x = (k, v) \/ In x l -> In x (ins_sorted k v l).
Proof.
  induction l as [|[k1 v1] l IH]; cbn [ins_sorted].
  - intros [->|[]]. now left.
  - destruct (k <=? k1); cbn [In].
    + intros [->|H]; [now left | now right].
    + intros [->|[H|H]]; [right; apply IH; now left | now left | right; apply IH; now right].
Qed.
Lemma in_sort_map_rev {V} (x : N * V) m : In x m -> In x (sort_map m).
Proof.
  induction m as [|[k v] m IH]; cbn; [auto|].
  intros [<-|H]; apply in_ins_sorted_rev; [now left | right; now apply IH].
Qed.
Lemma in_lookup {V} k (v : V) l : In (k, v) l -> lookup k l <> None.
Proof.
  induction l as [|[k1 v1] l IH]; cbn [In lookup]; [intros []|].
  intros [H|H]; [injection H as -> ->; now rewrite N.eqb_refl | destruct (k1 =? k); [discriminate | now apply IH]].
Qed.
Lemma lookup_sort_map {V} k (v : V) m : lookup k m = Some v -> lookup k (sort_map m) <> None.
Proof. intros H. apply (in_lookup k v). apply in_sort_map_rev. now apply lookup_in. Qed.

Lemma lookup_remove_some {V} k k' (v : V) m : lookup k' (remove k m) = Some v -> k' <> k /\ lookup k' m = Some v.
Proof.
  intros H. destruct (N.eq_dec k' k) as [->|Hne].
  - now rewrite lookup_remove_same in H.
  - split; [exact Hne|]. now rewrite lookup_remove_other in H by exact Hne.
Qed.

Record tinv (s : rstate) : Prop := {
  t_1 : z_link s = LUp -> forall seq g, lookup seq (stream_of the_sid (z_sent s)) = Some g ->
          lookup seq (z_queue s) <> None \/ In seq (z_txinc s);
  t_2 : forall seq, In seq (z_txinc s) -> exists g, In (z_inc s, seq, g) (z_ledger s)
}.

Definition t2 (s : rstate) : Prop := forall seq, In seq (z_txinc s) -> exists g, In (z_inc s, seq, g) (z_ledger s).

Lemma tinv_transmit s seq g : t2 s ->
  (z_link s = LUp -> forall q h, lookup q (stream_of the_sid (z_sent s)) = Some h ->
     q = seq \/ lookup q (z_queue s) <> None \/ In q (z_txinc s)) ->
  tinv (transmit s seq g).
Proof.
  intros T2 T1'. unfold transmit. destruct (z_link s) eqn:E.
  - split; cbn.
    + intros _ q h H. destruct (T1' eq_refl q h H) as [->|[H1|H1]]; [right; now left | now left | right; now right].
    + intros q [<-|H]; [exists g; apply in_or_app; right; now left|].
      destruct (T2 q H) as [h Hh]. exists h. apply in_or_app. now left.
  - split; [cbn; congruence | exact T2].
  - split; [cbn; congruence | exact T2].
Qed.

Lemma tinv_on_chunk rel clr s c : tinv s -> tinv (on_chunk (mkCfg true rel clr) s c).
Proof.
  intros [T1 T2]. unfold on_chunk. cbn [c_keep]. apply tinv_transmit; [exact T2|].
  cbn. intros Hl q h H. rewrite stream_store in H.
  destruct (N.eq_dec q (fst (fst c))) as [->|Hne]; [now left|].
  right. rewrite lookup_insert_other in H by exact Hne. exact (T1 Hl q h H).
Qed.

Lemma tinv_fold_chunk rel clr cs : forall s, tinv s -> tinv (fold_left (on_chunk (mkCfg true rel clr)) cs s).
Proof. induction cs as [|c cs IH]; intros s H; cbn; [exact H|]. apply IH. now apply tinv_on_chunk. Qed.

Lemma tinv_exec_u rel clr s o : tinv s -> tinv (fst (exec_u (mkCfg true rel clr) s o)).
Proof. intros [T1 T2]. unfold exec_u. cbn [fst]. apply tinv_fold_chunk. split; [exact T1 | exact T2]. Qed.

Lemma tinv_waiter_removes s seq why : tinv s -> tinv (waiter_removes s seq why).
Proof.
  intros [T1 T2]. split; cbn; [|exact T2].
  intros Hl q h H. rewrite stream_remove in H. apply lookup_remove_some in H as [_ H]. exact (T1 Hl q h H).
Qed.
Lemma tinv_on_result s r : tinv s -> tinv (on_result s r).
Proof.
  intros H. unfold on_result. destruct (z_link s); try exact H. destruct (_ && _); [|exact H]. now apply tinv_waiter_removes.
Qed.
Lemma tinv_fold_result rs : forall s, tinv s -> tinv (fold_left on_result rs s).
Proof. induction rs as [|r rs IH]; intros s H; cbn; [exact H|]. apply IH. now apply tinv_on_result. Qed.

(* setters that touch neither link, storage, queue, txinc, inc nor ledger *)
Lemma tinv_set_status s st : tinv s -> tinv (set_status s st).
Proof. intros [T1 T2]. split; [exact T1 | exact T2]. Qed.
Lemma tinv_set_waiters s w : tinv s -> tinv (set_waiters s w).
Proof. intros [T1 T2]. split; [exact T1 | exact T2]. Qed.
Lemma tinv_set_reports s cr ev n : tinv s -> tinv (set_reports s cr ev n).
Proof. intros [T1 T2]. split; [exact T1 | exact T2]. Qed.
Lemma tinv_set_closing s c : tinv s -> tinv (set_closing s c).
Proof. intros [T1 T2]. split; [exact T1 | exact T2]. Qed.
Lemma tinv_close_err s err : tinv s -> tinv (close_err s err).
Proof. intros H. unfold close_err. now apply tinv_set_reports, tinv_set_waiters, tinv_set_status. Qed.

Lemma tinv_step cfg s e : keeping cfg -> tinv s -> tinv (fst (rstep cfg s e)).
Proof.
  destruct cfg as [k rel clr]. unfold keeping. cbn [c_keep c_reliable]. intros [-> ->] Hi. set (rel := true).
  assert (Hex : forall o, tinv (fst (exec_u (mkCfg true rel clr) s o))) by (intro; now apply tinv_exec_u).
  pose proof Hi as [T1 T2].
  destruct e as [o| |seq|silent| | |r|seq]; cbn [rstep].
  - destruct (z_status s); destruct o; cbn [fst]; try apply Hex; try exact Hi;
      try (apply tinv_fold_result; apply Hex); try (apply tinv_set_closing, tinv_set_status; apply Hex); try (now apply tinv_close_err).
  - destruct (z_closing s); [|exact Hi].
    destruct (z_status s); try (destruct (z_link s)); cbn [fst]; try (now apply tinv_set_closing, tinv_close_err);
      try (now apply tinv_set_closing);
      now apply tinv_set_closing, tinv_set_reports, tinv_set_waiters, tinv_set_status.
  - destruct (z_status s); try exact Hi; destruct (mem seq (z_waiters s)); try exact Hi; cbn [fst]; now apply tinv_waiter_removes.
  - destruct (z_link s) eqn:El; cbn [fst]; (split; [cbn; try (destruct silent; discriminate); congruence | exact T2]).
  - (* EDetect: the stream's link is down and stays down *)
    destruct (z_status s); try exact Hi; destruct (z_link s) eqn:El; try exact Hi; cbn [fst];
      destruct (Hex Tick) as [_ X2]; (split; [|exact X2]);
      intros Hl; exfalso; change (z_link (fst (exec_u (mkCfg true rel clr) s Tick)) = LUp) in Hl;
      rewrite (proj1 (ctl_exec_u (mkCfg true rel clr) s Tick)), El in Hl; discriminate Hl.
  - (* ERedial *)
    destruct (z_link s) eqn:El; try exact Hi; cbn [fst]; (split; [cbn; congruence | intros q []]).
  - (* EResume *)
    destruct (z_status s); try exact Hi.
    destruct r, (z_avail s); cbn [c_reliable fst]; try (now apply tinv_close_err, tinv_set_reports).
    + split; cbn; [|intros q []]. intros _ q h H. left. now apply (lookup_sort_map q h).
    + now apply tinv_set_reports.
    + now apply tinv_set_reports, tinv_set_waiters, tinv_set_status.
  - (* EResend *)
    assert (Hx : forall g, lookup seq (z_queue s) = Some g -> tinv (transmit (set_queue s (remove seq (z_queue s))) seq g)).
    { intros g E. apply tinv_transmit; [exact T2|]. cbn. intros Hl q h H.
      destruct (N.eq_dec q seq) as [->|Hne]; [now left|]. right.
      destruct (T1 Hl q h H) as [H1|H1]; [left; now rewrite lookup_remove_other by exact Hne | now right]. }
    destruct (z_status s); try exact Hi; (destruct (lookup seq (z_queue s)) as [g|] eqn:E; [|exact Hi]); cbn [fst]; now apply Hx.
Qed.

Lemma tinv_init pol rev0 : tinv (rinit pol rev0).
Proof. split; cbn; [intros _ q h H; discriminate H | intros q []]. Qed.

Lemma tinv_run cfg evs : forall s, keeping cfg -> tinv s -> tinv (fst (rrun cfg s evs)).
Proof.
  induction evs as [|e evs IH]; intros s Hk Hi; [exact Hi|].
  rewrite rrun_cons. cbn [fst]. apply IH; [exact Hk | now apply tinv_step].
Qed.

(* ---------- the no-payload storage class (the connection's default before /repo f1380ca: F1) ---------- *)

(* with inmemSentStorageNoPayload the chunk retransmitted after a resume carries stripped points:
   the broker holds two different contents under sequence number 1 *)
Definition f1_evs : list revt :=
  [EApi (Write 1 [(1, 4038, 2)]); EApi Flush; ELinkDown false; EDetect; ERedial; EResume ROk; EResend 1;
   EApi (Results [(1, 1)])].
Definition cfg_nopayload : rcfg := mkCfg false true ClearRepaired.
Definition cfg_keep : rcfg := mkCfg true true ClearRepaired.

Lemma f1_nopayload_refuted :
  let s := fst (rrun cfg_nopayload (rinit PNone []) f1_evs) in
  z_ledger s = [(0, 1, [(1, [(1, 4038, 2)])]); (1, 1, [(1, [(1, 0, 0)])])] /\ settled s.
Proof. vm_compute. split; [reflexivity | intros seq; reflexivity]. Qed.

(* ---------- the statements of Props/C02.v ---------- *)

Lemma reach_inv cfg pol rev0 evs : keeping cfg ->
  let s := fst (rrun cfg (rinit pol rev0) evs) in rinv s /\ tinv s /\ qinv s /\ inv (z_u s).
Proof.
  intros Hk s. split; [|split; [|split]].
  - apply (rinv_run cfg evs _ Hk (rinv_init pol rev0)).
  - apply (tinv_run cfg evs _ Hk (tinv_init pol rev0)).
  - apply (qinv_run cfg evs (rinit pol rev0) (inv_init pol rev0)). split; [reflexivity | split; [reflexivity | intros tq []]].
  - apply (inv_u_run cfg evs (rinit pol rev0) (inv_init pol rev0)).
Qed.

Lemma c02_no_loss_l : forall cfg pol rev0 evs id,
  keeping cfg -> clean evs = true ->
  let r := rrun cfg (rinit pol rev0) evs in
  settled (fst r) ->
  racc_pts id evs (snd r) = chunks_pts id (z_cut (fst r)) ++ buf_pts id (u_buf (z_u (fst r))) /\
  forall c, In c (z_cut (fst r)) -> exists i, In (i, cseq c, decode_chunk c) (z_ledger (fst r)).
Proof.
  intros cfg pol rev0 evs id Hk Hc r Hs. split.
  - pose proof (run_conserves cfg id evs (rinit pol rev0) (inv_init pol rev0)) as H.
    unfold held in H. cbn [rinit z_cut z_u uinit u_buf chunks_pts buf_pts map concat app] in H. symmetry. exact H.
  - apply delivered_inv; [apply rinv_run; [exact Hk | apply rinv_init] | | exact Hs].
    apply only0_run; [exact Hc | intros ? ? []].
Qed.

Lemma c02_seq_functional_l : forall cfg pol rev0 evs i i' seq g g',
  keeping cfg ->
  let s := fst (rrun cfg (rinit pol rev0) evs) in
  In (i, seq, g) (z_ledger s) -> In (i', seq, g') (z_ledger s) -> g = g'.
Proof.
  intros cfg pol rev0 evs i i' seq g g' Hk s. apply seq_functional_inv. apply rinv_run; [exact Hk | apply rinv_init].
Qed.

Lemma c02_stored_invariant_l : forall cfg pol rev0 evs,
  keeping cfg ->
  let s := fst (rrun cfg (rinit pol rev0) evs) in
  (forall seq g, In (seq, g) (stream_of the_sid (z_sent s)) -> In (seq, g) (cutpairs s)) /\
  (forall seq g, In (seq, g) (cutpairs s) ->
     lookup seq (stream_of the_sid (z_sent s)) = Some g \/ In seq (map fst (z_removed s))) /\
  (forall seq, In (seq, 0) (z_removed s) -> ledger_has seq (z_ledger s) = true) /\
  (clean evs = true -> forall seq why, In (seq, why) (z_removed s) -> why = 0).
Proof.
  intros cfg pol rev0 evs Hk s.
  destruct (rinv_run cfg evs (rinit pol rev0) Hk (rinv_init pol rev0)) as [_ Hi].
  repeat split; [apply (i_K _ _ Hi) | apply (i_C _ _ Hi) | apply (i_R _ _ Hi) |].
  intros Hc. apply only0_run; [exact Hc | intros ? ? []].
Qed.

Lemma c02_retransmit_content_l : forall cfg pol rev0 evs,
  keeping cfg ->
  let s := fst (rrun cfg (rinit pol rev0) evs) in
  (forall seq g, In (seq, g) (z_queue s) -> In (seq, g) (cutpairs s)) /\
  (forall i seq g, In (i, seq, g) (z_ledger s) -> In (seq, g) (cutpairs s)).
Proof.
  intros cfg pol rev0 evs Hk s.
  destruct (rinv_run cfg evs (rinit pol rev0) Hk (rinv_init pol rev0)) as [_ Hi].
  split; [apply (i_Q _ _ Hi) | apply (i_L _ _ Hi)].
Qed.

Lemma c02_retransmit_l : forall cfg pol rev0 evs,
  keeping cfg ->
  let s := fst (rrun cfg (rinit pol rev0) evs) in
  z_link s = LUp -> z_queue s = [] ->
  forall seq g, lookup seq (stream_of the_sid (z_sent s)) = Some g -> In (z_inc s, seq, g) (z_ledger s).
Proof.
  intros cfg pol rev0 evs Hk s Hl Hq seq g H.
  destruct (reach_inv cfg pol rev0 evs Hk) as ([_ Hi] & [T1 T2] & _). fold s in Hi, T1, T2.
  destruct (T1 Hl seq g H) as [Hx|Hx]; [rewrite Hq in Hx; now contradiction Hx|].
  destruct (T2 seq Hx) as [g' Hg'].
  pose proof (i_L _ _ Hi _ _ _ Hg') as H1. pose proof (i_K _ _ Hi _ _ (lookup_in _ _ _ H)) as H2.
  now rewrite (i_fun _ _ Hi _ _ _ H2 H1).
Qed.

Lemma c02_resume_queues_all_l : forall cfg pol rev0 evs,
  keeping cfg ->
  let s := fst (rrun cfg (rinit pol rev0) evs) in
  z_status s = SResuming -> z_avail s = true ->
  let s' := fst (rstep cfg s (EResume ROk)) in
  z_link s' = LUp /\ z_status s' = SConnected /\ z_resumes s' = z_resumes s + 1 /\
  forall seq g, lookup seq (stream_of the_sid (z_sent s')) = Some g -> lookup seq (z_queue s') <> None.
Proof.
  intros [k rel clr] pol rev0 evs [Hk Hr] s Hs Ha. cbn [c_keep c_reliable] in Hk, Hr. subst k rel.
  cbn [rstep]. rewrite Hs, Ha. cbn [c_reliable fst]. repeat split.
  intros seq g H. cbn in H |- *. now apply (lookup_sort_map seq g).
Qed.

Lemma c02_totals_l : forall cfg pol rev0 evs,
  let r := rrun cfg (rinit pol rev0) evs in
  (forall t q, In (t, q) (z_closereqs (fst r)) ->
     is_closed (z_status (fst r)) = true /\ t = sum_counts (z_cut (fst r)) /\ q = N.of_nat (length (z_cut (fst r)))) /\
  racc_count evs (snd r) = sum_counts (z_cut (fst r)) + buf_count (u_buf (z_u (fst r))).
Proof.
  intros cfg pol rev0 evs r.
  assert (Hq : qinv (fst r)) by (apply (qinv_run cfg evs (rinit pol rev0) (inv_init pol rev0)); split; [reflexivity | split; [reflexivity | intros tq []]]).
  pose proof (inv_u_run cfg evs (rinit pol rev0) (inv_init pol rev0)) as Hu.
  pose proof (run_count cfg evs (rinit pol rev0) (inv_init pol rev0)) as Hc.
  destruct Hq as (Ht & Hs & Hr). split.
  - intros t q H. destruct (Hr _ H) as [H1 H2]. injection H2 as -> ->. fold r in Ht, Hs. now rewrite Ht, Hs.
  - fold r in Hc, Hu. destruct Hu as [_ Hcnt _]. cbn in Hc. fold r in Ht. lia.
Qed.

Lemma c02_seq_functional_refuted_nopayload_storage_l :
  exists evs g g', g <> g' /\
    let s := fst (rrun cfg_nopayload (rinit PNone []) evs) in
    In (0, 1, g) (z_ledger s) /\ In (1, 1, g') (z_ledger s) /\ settled s.
Proof.
  exists f1_evs, [(1, [(1, 4038, 2)])], [(1, [(1, 0, 0)])]. split; [discriminate|].
  destruct f1_nopayload_refuted as [H1 H2]. cbn zeta. rewrite H1. split; [now left | split; [right; now left | exact H2]].
Qed.

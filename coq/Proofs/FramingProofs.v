(* Lemmas about Model/Framing.v: length-prefix framing round trip, counters, datagram sequence
   numbers. *)
From Coq Require Import List NArith Bool Lia ZArith ZifyN ZifyNat ZifyBool Arith.
From Iscp Require Import Lib.ListMap Lib.Bytes Model.Segment Proofs.SegmentProofs Model.Framing.
Import ListNotations.
Open Scope N_scope.
Ltac Zify.zify_post_hook ::= Z.div_mod_to_equations.

Lemma lenN_app {A} (a b : list A) : lenN (a ++ b) = lenN a + lenN b.
Proof. unfold lenN. rewrite app_length. lia. Qed.

Lemma frame_length p : lenN (frame p) = 4 + lenN p.
Proof. unfold frame, be32. rewrite lenN_app. unfold lenN at 1. cbn [length]. lia. Qed.

Lemma firstn_app_exact {A} (a b : list A) : firstn (length a) (a ++ b) = a.
Proof.
  rewrite firstn_app, firstn_all, Nat.sub_diag. cbn [firstn]. now rewrite app_nil_r.
Qed.
Lemma skipn_app_exact {A} (a b : list A) : skipn (length a) (a ++ b) = b.
Proof.
  rewrite skipn_app, skipn_all, Nat.sub_diag. reflexivity.
Qed.

(* one decodeFrom step on a stream that starts with a frame *)
Lemma parse1_frame m rest : lenN m < two32 -> parse1 (frame m ++ rest) = Some (m, rest).
Proof.
  intros Hlen. unfold frame, be32. cbn [app]. unfold parse1.
  rewrite (N.mod_small (lenN m) two32) by exact Hlen.
  rewrite rd32_be32 by exact Hlen.
  assert (E : lenN m <=? lenN (m ++ rest) = true).
  { apply N.leb_le. rewrite lenN_app. lia. }
  rewrite E. unfold lenN. rewrite Nat2N.id.
  now rewrite firstn_app_exact, skipn_app_exact.
Qed.

Lemma frame_nonempty m rest : exists a s, frame m ++ rest = a :: s.
Proof. unfold frame, be32. cbn [app]. eauto. Qed.

Lemma parse_fuel_frames ms : Forall (fun m => lenN m < two32) ms ->
  forall fuel, (length (concat (map frame ms)) <= fuel)%nat ->
  parse_fuel fuel (concat (map frame ms)) = (ms, true).
Proof.
  induction 1 as [|m ms Hm Hms IH]; intros fuel Hf.
  - cbn. destruct fuel; reflexivity.
  - cbn [map concat] in *.
    destruct (frame_nonempty m (concat (map frame ms))) as (a & s & Es).
    assert (Hl : (4 + length m + length (concat (map frame ms)) <= fuel)%nat).
    { rewrite app_length in Hf. pose proof (frame_length m) as Fl. unfold lenN in Fl. lia. }
    destruct fuel as [|f]; [lia|].
    cbn [parse_fuel]. rewrite Es. rewrite <- Es.
    rewrite (parse1_frame m _ Hm). cbn [fst snd].
    rewrite IH by lia. reflexivity.
Qed.

(* the whole stream parses back to the messages, one per step, ending on a frame boundary *)
Lemma frames_roundtrip ms : Forall (fun m => lenN m < two32) ms ->
  parse_all (concat (map frame ms)) = (ms, true).
Proof. intros H. unfold parse_all. now apply parse_fuel_frames. Qed.

(* a stream cut strictly inside a frame yields nothing for that frame *)
Lemma parse1_truncated m k : lenN m < two32 -> (k < length (frame m))%nat ->
  parse1 (firstn k (frame m)) = None.
Proof.
  intros Hlen Hk. unfold frame, be32 in *. cbn [app] in *.
  destruct k as [|[|[|[|k]]]]; try reflexivity.
  cbn [firstn]. unfold parse1.
  rewrite (N.mod_small (lenN m) two32) by exact Hlen. rewrite rd32_be32 by exact Hlen.
  cbn [length] in Hk.
  assert (E : lenN m <=? lenN (firstn k m) = false).
  { apply N.leb_gt. unfold lenN. rewrite firstn_length. lia. }
  now rewrite E.
Qed.

(* ---------- counters ---------- *)

Lemma add64_mod a b : add64 (a mod two64) b = (a + b) mod two64.
Proof. unfold add64. now rewrite N.add_mod_idemp_l by (unfold two64; lia). Qed.

Lemma q_write_all_stream ps : forall s,
  q_stream (q_write_all s ps) = q_stream s ++ concat (map frame ps).
Proof.
  unfold q_write_all. induction ps as [|p ps IH]; intros s; cbn [fold_left map concat].
  - now rewrite app_nil_r.
  - rewrite IH. unfold q_write. cbn [q_stream]. now rewrite app_assoc.
Qed.

Lemma q_write_all_tx ps : forall s a, q_tx s = a mod two64 ->
  q_tx (q_write_all s ps) = (a + lenN (concat (map frame ps))) mod two64.
Proof.
  unfold q_write_all. induction ps as [|p ps IH]; intros s a Hs; cbn [fold_left map concat].
  - unfold lenN. cbn [length]. rewrite Hs. f_equal. lia.
  - rewrite (IH _ (a + (4 + lenN p))).
    + rewrite lenN_app, frame_length. f_equal. lia.
    + unfold q_write. cbn [q_tx]. rewrite Hs. apply add64_mod.
Qed.

(* tx counter = bytes put on the stream (mod 2^64), stream = concatenation of the frames *)
Lemma q_counters ps :
  let s := q_write_all (mkQtx [] 0) ps in
  q_stream s = concat (map frame ps) /\ q_tx s = lenN (q_stream s) mod two64.
Proof.
  cbn zeta. split.
  - now rewrite q_write_all_stream.
  - rewrite q_write_all_stream. cbn [q_stream app].
    rewrite (q_write_all_tx ps _ 0) by reflexivity. f_equal.
Qed.

Lemma q_rx_fold frames : forall a,
  fold_left (fun a p => add64 a (4 + lenN p)) frames (a mod two64) =
  (a + lenN (concat (map frame frames))) mod two64.
Proof.
  induction frames as [|p ps IH]; intros a; cbn [fold_left map concat].
  - unfold lenN. cbn [length]. f_equal. lia.
  - rewrite add64_mod, IH, lenN_app, frame_length. f_equal. lia.
Qed.

(* rx counter after decoding the frames = bytes taken off the stream (mod 2^64) *)
Lemma q_rx_counter frames : q_rx_count frames = lenN (concat (map frame frames)) mod two64.
Proof.
  unfold q_rx_count. change 0 with (0 mod two64) at 1. now rewrite q_rx_fold.
Qed.

Lemma counters_stream ps :
  let s := q_write_all (mkQtx [] 0) ps in
  q_stream s = concat (map frame ps) /\
  q_tx s = lenN (q_stream s) mod two64 /\
  q_rx_count ps = lenN (q_stream s) mod two64.
Proof.
  destruct (q_counters ps) as [H1 H2]. cbn zeta. repeat split; auto.
  rewrite H1. apply q_rx_counter.
Qed.

(* ---------- datagram sequence numbers ---------- *)

Lemma d_write_seq P s p : d_seqctr (d_write P s p) = seq_next (d_seqctr s).
Proof. unfold d_write. destruct (split P (seq_next (d_seqctr s)) p); reflexivity. Qed.

Lemma d_write_all_seq P ps : forall s,
  d_seqctr (d_write_all P s ps) = Nat.iter (length ps) seq_next (d_seqctr s).
Proof.
  unfold d_write_all. induction ps as [|p ps IH]; intros s; cbn [fold_left length].
  - reflexivity.
  - rewrite IH, d_write_seq. generalize (d_seqctr s) as x. clear.
    induction (length ps) as [|n IHn]; intros x; [reflexivity|].
    change (Nat.iter (S n) seq_next (seq_next x)) with (seq_next (Nat.iter n seq_next (seq_next x))).
    rewrite IHn. reflexivity.
Qed.

(* the sequence number used by the k-th unreliable write (k = 0, 1, ...) on one transport,
   whichever handle issued it *)
Definition nth_seq (k : nat) : N := Nat.iter (S k) seq_next seq_init.

Lemma nth_seq_used P ps p : d_seqctr (d_write P (d_write_all P d_init ps) p) = nth_seq (length ps).
Proof. rewrite d_write_seq, d_write_all_seq. reflexivity. Qed.

Lemma nth_seq_first : nth_seq 0 = 0.
Proof. reflexivity. Qed.

Lemma nth_seq_distinct i j : (i < j)%nat -> N.of_nat j - N.of_nat i < 4294967296 ->
  nth_seq i <> nth_seq j.
Proof.
  intros Hij Hw. unfold nth_seq.
  apply seq_injective_window; [reflexivity | lia | lia].
Qed.

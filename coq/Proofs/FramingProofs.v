(* Lemmas about Model/Framing.v: length-prefix framing round trip, counters, datagram sequence
   numbers. *)
From Coq Require Import List NArith Bool Lia ZArith ZifyN ZifyNat ZifyBool Arith.
From Iscp Require Import Lib.ListMap Lib.Bytes Model.Segment Proofs.SegmentProofs Model.Framing.
Import ListNotations.
Open Scope N_scope.
Ltac Zify.zify_post_hook ::= Z.div_mod_to_equations.

Lemma lenN_app {A} (a b : list A) : lenN (a ++ b) = lenN a + lenN b.
Proof. unfold lenN. rewrite app_length. lia. Qed.

Lemma frame_length p : lenN (frame p) = 4 + lenN p.
Proof. unfold frame, be32. rewrite lenN_app. unfold lenN at 1. cbn [length]. lia. Qed.

Lemma firstn_app_exact {A} (a b : list A) : firstn (length a) (a ++ b) = a.
Proof.
  rewrite firstn_app, firstn_all, Nat.sub_diag. cbn [firstn]. now rewrite app_nil_r.
Qed.
Lemma skipn_app_exact {A} (a b : list A) : skipn (length a) (a ++ b) = b.
Proof.
  rewrite skipn_app, skipn_all, Nat.sub_diag. reflexivity.
Qed.

(* one decodeFrom step on a stream that starts with a frame *)
Lemma parse1_frame m rest : lenN m < two32 -> parse1 (frame m ++ rest) = Some (m, rest).
Proof.
  intros Hlen. unfold frame, be32. cbn [app]. unfold parse1.
  rewrite (N.mod_small (lenN m) two32) by exact Hlen.
  rewrite rd32_be32 by exact Hlen.
  assert (E : lenN m <=? lenN (m ++ rest) = true).
  { apply N.leb_le. rewrite lenN_app. lia. }
  rewrite E. unfold lenN. rewrite Nat2N.id.
  now rewrite firstn_app_exact, skipn_app_exact.
Qed.

Lemma frame_nonempty m rest : exists a s, frame m ++ rest = a :: s.
Proof. unfold frame, be32. cbn [app]. eauto. Qed.

Lemma parse_fuel_frames ms : Forall (fun m => lenN m < two32) ms ->
  forall fuel, (length (concat (map frame ms)) <= fuel)%nat ->
  parse_fuel fuel (concat (map frame ms)) = (ms, true).
Proof.
  induction 1 as [|m ms Hm Hms IH]; intros fuel Hf.
  - cbn. destruct fuel; reflexivity.
  - cbn [map concat] in *.
    destruct (frame_nonempty m (concat (map frame ms))) as (a & s & Es).
    assert (Hl : (4 + length m + length (concat (map frame ms)) <= fuel)%nat).
    { rewrite app_length in Hf. pose proof (frame_length m) as Fl. unfold lenN in Fl. lia. }
    destruct fuel as [|f]; [lia|].
    cbn [parse_fuel]. rewrite Es. rewrite <- Es.
    rewrite (parse1_frame m _ Hm). cbn [fst snd].
    rewrite IH by lia. reflexivity.
Qed.

(* the whole stream parses back to the messages, one per step, ending on a frame boundary *)
Lemma frames_roundtrip ms : Forall (fun m => lenN m < two32) ms ->
  parse_all (concat (map frame ms)) = (ms, true).
Proof. intros H. unfold parse_all. now apply parse_fuel_frames. Qed.

(* a stream cut strictly inside a frame yields nothing for that frame *)
Lemma parse1_truncated m k : lenN m < two32 -> (k < length (frame m))%nat ->
  parse1 (firstn k (frame m)) = None.
Proof.
  intros Hlen Hk. unfold frame, be32 in *. cbn [app] in *.
  destruct k as [|[|[|[|k]]]]; try reflexivity.
  cbn [firstn]. unfold parse1.
  rewrite (N.mod_small (lenN m) two32) by exact Hlen. rewrite rd32_be32 by exact Hlen.
  cbn [length] in Hk.
  assert (E : lenN m <=? lenN (firstn k m) = false).
  { apply N.leb_gt. unfold lenN. rewrite firstn_length. lia. }
  now rewrite E.
Qed.

(* ---------- counters ---------- *)

Lemma add64_mod a b : add64 (a mod two64) b = (a + b) mod two64.
Proof. unfold add64. now rewrite N.add_mod_idemp_l by (unfold two64; lia). Qed.

Lemma q_write_all_stream ps : forall s,
  q_stream (q_write_all s ps) = q_stream s ++ concat (map frame ps).
Proof.
  unfold q_write_all. induction ps as [|p ps IH]; intros s; cbn [fold_left map concat].
  - now rewrite app_nil_r.
  - rewrite IH. unfold q_write. cbn [q_stream]. now rewrite app_assoc.
Qed.

Lemma q_write_all_tx ps : forall s a, q_tx s = a mod two64 ->
  q_tx (q_write_all s ps) = (a + lenN (concat (map frame ps))) mod two64.
Proof.
  unfold q_write_all. induction ps as [|p ps IH]; intros s a Hs; cbn [fold_left map concat].
  - unfold lenN. cbn [length]. rewrite Hs. f_equal. lia.
  - rewrite (IH _ (a + (4 + lenN p))).
    + rewrite lenN_app, frame_length. f_equal. lia.
    + unfold q_write. cbn [q_tx]. rewrite Hs. apply add64_mod.
Qed.

(* tx counter = bytes put on the stream (mod 2^64), stream = concatenation of the frames *)
Lemma q_counters ps :
  let s := q_write_all (mkQtx [] 0) ps in
  q_stream s = concat (map frame ps) /\ q_tx s = lenN (q_stream s) mod two64.
Proof.
  cbn zeta. split.
  - now rewrite q_write_all_stream.
  - rewrite q_write_all_stream. cbn [q_stream app].
    rewrite (q_write_all_tx ps _ 0) by reflexivity. f_equal.
Qed.

Lemma q_rx_fold frames : forall a,
  fold_left (fun a p => add64 a (4 + lenN p)) frames (a mod two64) =
  (a + lenN (concat (map frame frames))) mod two64.
Proof.
  induction frames as [|p ps IH]; intros a; cbn [fold_left map concat].
  - unfold lenN. cbn [length]. f_equal. lia.
  - rewrite add64_mod, IH, lenN_app, frame_length. f_equal. lia.
Qed.

(* rx counter after decoding the frames = bytes taken off the stream (mod 2^64) *)
Lemma q_rx_counter frames : q_rx_count frames = lenN (concat (map frame frames)) mod two64.
Proof.
  unfold q_rx_count. change 0 with (0 mod two64) at 1. now rewrite q_rx_fold.
Qed.

Lemma counters_stream ps :
  let s := q_write_all (mkQtx [] 0) ps in
  q_stream s = concat (map frame ps) /\
  q_tx s = lenN (q_stream s) mod two64 /\
  q_rx_count ps = lenN (q_stream s) mod two64.
Proof.
  destruct (q_counters ps) as [H1 H2]. cbn zeta. repeat split; auto.
  rewrite H1. apply q_rx_counter.
Qed.

(* ---------- datagram sequence numbers ---------- *)

Lemma d_write_seq P s p : d_seqctr (d_write P s p) = seq_next (d_seqctr s).
Proof. unfold d_write. destruct (split P (seq_next (d_seqctr s)) p); reflexivity. Qed.

Lemma d_write_all_seq P ps : forall s,
  d_seqctr (d_write_all P s ps) = Nat.iter (length ps) seq_next (d_seqctr s).
Proof.
  unfold d_write_all. induction ps as [|p ps IH]; intros s; cbn [fold_left length].
  - reflexivity.
  - rewrite IH, d_write_seq. generalize (d_seqctr s) as x. clear.
    induction (length ps) as [|n IHn]; intros x; [reflexivity|].
    change (Nat.iter (S n) seq_next (seq_next x)) with (seq_next (Nat.iter n seq_next (seq_next x))).
    rewrite IHn. reflexivity.
Qed.

(* the sequence number used by the k-th unreliable write (k = 0, 1, ...) on one transport,
   whichever handle issued it *)
Definition nth_seq (k : nat) : N := Nat.iter (S k) seq_next seq_init.

Lemma nth_seq_used P ps p : d_seqctr (d_write P (d_write_all P d_init ps) p) = nth_seq (length ps).
Proof. rewrite d_write_seq, d_write_all_seq. reflexivity. Qed.

Lemma nth_seq_first : nth_seq 0 = 0.
Proof. reflexivity. Qed.

Lemma nth_seq_distinct i j : (i < j)%nat -> N.of_nat j - N.of_nat i < 4294967296 ->
  nth_seq i <> nth_seq j.
Proof.
  intros Hij Hw. unfold nth_seq.
  apply seq_injective_window; [reflexivity | lia | lia].
Qed.

(* ---------- cleaner ticks before a message's deadline are harmless (C14, real-time arrival) ---------- *)

(* [timely s ex last evs]: every cleaner tick of the history comes no later than [ex] after the
   latest datagram of sequence number s received before it ([last]; no constraint before the
   first one).  Other traffic, malformed datagrams and the fate of other messages are arbitrary. *)
Fixpoint timely (s ex : N) (last : option N) (evs : list sev) : Prop :=
  match evs with
  | [] => True
  | Recv t raw :: r => timely s ex (if is_mine s raw then Some t else last) r
  | Expire t :: r => match last with Some l => t <= l + ex | None => True end /\ timely s ex last r
  end.

(* the same history without the ticks *)
Fixpoint strip (evs : list sev) : list (N * list N) :=
  match evs with
  | [] => []
  | Recv t raw :: r => (t, raw) :: strip r
  | Expire _ :: r => strip r
  end.

Lemma expire_keeps t (bs : buffers) s :
  (forall b, lookup s bs = Some b -> t <= r_exp b) -> lookup s (expire t bs) = lookup s bs.
Proof.
  unfold expire. induction bs as [|[k v] bs IH]; intros H; [reflexivity|].
  cbn [filter lookup snd] in *. destruct (k =? s) eqn:E.
  - assert (r_exp v <? t = false) as -> by (apply N.ltb_ge, H; reflexivity).
    cbn [negb lookup]. now rewrite E.
  - destruct (negb (r_exp v <? t)); cbn [lookup]; rewrite ?E; apply IH; exact H.
Qed.

Lemma outs_for_other s s' m : s' <> s -> outs_for s [Some (s', m)] = [].
Proof. intros H. unfold outs_for. cbn. destruct (N.eqb_spec s' s); [congruence | reflexivity]. Qed.

(* one datagram, two buffer tables that agree on s: they still agree, and say the same about s *)
Lemma receive_agree ex t s (bs1 bs2 : buffers) raw : lookup s bs1 = lookup s bs2 ->
  lookup s (fst (receive ex t bs1 raw)) = lookup s (fst (receive ex t bs2 raw)) /\
  outs_for s [snd (receive ex t bs1 raw)] = outs_for s [snd (receive ex t bs2 raw)].
Proof.
  intros H. unfold receive. destruct (decode_dgram raw) as [d|]; [|split; [exact H | reflexivity]].
  unfold receive_d. destruct (N.eq_dec (d_seq d) s) as [E|E].
  - rewrite E, H.
    repeat match goal with |- context [if ?c then _ else _] => destruct c end; cbn [fst snd];
      rewrite ?lookup_insert_same, ?lookup_remove_same; split; reflexivity.
  - repeat match goal with |- context [if ?c then _ else _] => destruct c end; cbn [fst snd];
      rewrite ?lookup_insert_other, ?lookup_remove_other by congruence;
      rewrite ?outs_for_other by exact E; split; solve [exact H | reflexivity].
Qed.

(* the deadline of s's buffer is always [ex] after s's latest datagram *)
Definition armed (s ex : N) (bs : buffers) (last : option N) : Prop :=
  forall b, lookup s bs = Some b -> exists l, last = Some l /\ r_exp b = l + ex.

Lemma receive_armed ex t s (bs : buffers) raw last : armed s ex bs last ->
  armed s ex (fst (receive ex t bs raw)) (if is_mine s raw then Some t else last).
Proof.
  intros HA. unfold receive, is_mine. destruct (decode_dgram raw) as [d|]; [|exact HA].
  unfold receive_d. destruct (N.eqb_spec (d_seq d) s) as [E|E].
  - rewrite E.
    repeat match goal with |- context [if ?c then _ else _] => destruct c end; cbn [fst snd];
      intros b; rewrite ?lookup_insert_same, ?lookup_remove_same; intros Hb; try discriminate;
      injection Hb as <-; exists t; split; reflexivity.
  - repeat match goal with |- context [if ?c then _ else _] => destruct c end; cbn [fst snd];
      intros b; rewrite ?lookup_insert_other, ?lookup_remove_other by congruence; apply HA.
Qed.

Lemma timely_ticks_harmless_gen s ex evs : forall (bs1 bs2 : buffers) last,
  lookup s bs1 = lookup s bs2 -> armed s ex bs1 last -> timely s ex last evs ->
  outs_for s (snd (srun ex bs1 evs)) = outs_for s (snd (srun ex bs2 (recv_events (strip evs)))).
Proof.
  induction evs as [|e evs IH]; intros bs1 bs2 last HL HA HT; [reflexivity|].
  destruct e as [t raw|t]; cbn [timely strip] in *.
  - cbn [recv_events map srun snd fst sstep].
    rewrite outs_for_cons, (outs_for_cons s (snd (receive ex t bs2 raw))).
    destruct (receive_agree ex t s bs1 bs2 raw HL) as [HL' HO]. rewrite HO. f_equal.
    apply (IH _ _ (if is_mine s raw then Some t else last)); [exact HL' | | exact HT].
    now apply receive_armed.
  - destruct HT as [Ht HT]. cbn [srun snd fst sstep]. rewrite outs_for_cons.
    change (outs_for s [None]) with (@nil (list N)). cbn [app].
    assert (K : lookup s (expire t bs1) = lookup s bs1).
    { apply expire_keeps. intros b Hb. destruct (HA b Hb) as (l & -> & ->). exact Ht. }
    apply (IH _ _ last); [now rewrite K | | exact HT].
    intros b Hb. rewrite K in Hb. now apply HA.
Qed.

(* Whatever else happens, as long as every cleaner tick comes within [ex] of s's latest datagram,
   what is handed up for s is what the history WITHOUT the ticks hands up for s ... *)
Theorem timely_ticks_harmless s ex evs : timely s ex None evs ->
  outs_for s (snd (srun ex [] evs)) = outs_for s (snd (srun ex [] (recv_events (strip evs)))).
Proof.
  intros HT. apply (timely_ticks_harmless_gen s ex evs [] [] None); [reflexivity | | exact HT].
  intros b Hb. discriminate.
Qed.

(* ... hence, with [reassembly]: for every payload size, message and history of datagrams AND
   cleaner ticks (any order, interleaving, other traffic, arrival times) in which each segment
   occurs at most once and every tick comes within the expiry of the message's latest segment,
   the message is handed up exactly once when all its segments are in, and nothing otherwise. *)
Theorem reassembly_with_timely_ticks P ex s m ds :
  0 < P -> s < 4294967296 -> split P s m = Some ds ->
  forall evs : list sev, timely s ex None evs ->
    NoDup (mine_raws s (strip evs)) ->
    incl (mine_raws s (strip evs)) (map encode_dgram ds) ->
    outs_for s (snd (srun ex [] evs)) =
      if (length (mine_raws s (strip evs)) =? length ds)%nat then [m] else [].
Proof.
  intros HP Hs Hsplit evs HT Hnd Hincl. rewrite timely_ticks_harmless by exact HT.
  now apply (reassembly P ex s m ds).
Qed.

(* the ticks the judge inserts (one at the time of each datagram, [timed_events]) are timely for s
   whenever every gap between two datagrams of s is at most the expiry *)
Example timely_example :
  let ds := match split 2 7 [1;2;3;4;5] with Some ds => map encode_dgram ds | None => [] end in
  let evs := [Expire 0; Recv 0 (nth 0 ds []); Expire 1200; Recv 1200 (encode_dgram (mkD 9 1 0 [42]));
              Expire 1900; Recv 1900 (nth 2 ds []); Expire 3800; Recv 3800 (nth 1 ds [])] in
  timely 7 2000 None evs /\ outs_for 7 (snd (srun 2000 [] evs)) = [[1;2;3;4;5]]
  /\ outs_for 7 (snd (srun 1000 [] evs)) = [].
Proof. cbn [timely]. vm_compute. repeat split; try reflexivity; try (intro H; discriminate H). Qed.

(* ---------- a datagram for an OPEN buffer whose index lies beyond that buffer ---------- *)

(* The buffer of a sequence number is sized by the FIRST datagram received for it.  A later
   datagram with the same sequence number whose index is not below the buffer's size - whatever
   max index that datagram itself announces - is discarded: nothing is handed up, slots and count
   are untouched (only the deadline is re-armed).  (bad_index_no_output is the fresh-buffer case.) *)
Theorem open_buffer_bad_index_discarded ex now (bs : buffers) d b :
  lookup (d_seq d) bs = Some b -> N.of_nat (length (r_slots b)) <= d_idx d ->
  receive_d ex now bs d = (insert (d_seq d) (mkR (r_cnt b) (r_slots b) (now + ex)) bs, None).
Proof.
  intros Hl Hi. unfold receive_d. rewrite Hl. cbn [r_cnt r_slots r_exp].
  apply N.leb_le in Hi. now rewrite Hi.
Qed.

(* in particular for a hostile datagram that announces a LARGER max index than the buffer was opened with *)
Example open_buffer_larger_max_example :
  let ds := match split 2 7 [1;2;3;4;5] with Some ds => map encode_dgram ds | None => [] end in
  let hostile := encode_dgram (mkD 7 9 5 [99]) in
  map (option_map snd) (snd (srun 100 [] [Recv 0 (nth 0 ds []); Recv 1 hostile; Recv 2 (nth 2 ds []); Recv 3 (nth 1 ds [])]))
  = [None; None; None; Some [1;2;3;4;5]].
Proof. vm_compute. reflexivity. Qed.

(* Lemmas about Model/Upstream.v; the property theorems are restated in Props/C01.v, C20.v *)
From Coq Require Import List NArith Bool Lia Sorted ZArith ZifyN ZifyNat ZifyBool.
From Iscp Require Import Lib.ListMap Model.Upstream.
Import ListNotations.
Open Scope N_scope.

(* ---------- the buffer as a strictly sorted association list ---------- *)

Definition keys_lt (k : N) (b : list (N * list pt)) : Prop := Forall (fun g => k < fst g) b.
Inductive sorted_buf : list (N * list pt) -> Prop :=
| sb_nil : sorted_buf []
| sb_cons k v b : keys_lt k b -> sorted_buf b -> sorted_buf ((k, v) :: b).

Lemma keys_lt_add k id ps b : k < id -> keys_lt k b -> keys_lt k (buf_add id ps b).
Proof.
  intros Hk H. induction H as [|[k' v'] b Hx Hb IH]; cbn [buf_add].
  - constructor; [exact Hk | constructor].
  - cbn [fst] in Hx. destruct (id <? k') eqn:E1; [constructor; [exact Hk|constructor; auto]|].
    destruct (id =? k') eqn:E2; constructor; auto.
Qed.

Lemma sorted_add id ps b : sorted_buf b -> sorted_buf (buf_add id ps b).
Proof.
  intros H. induction H as [|k v b Hk Hb IH]; cbn [buf_add].
  - constructor; constructor.
  - destruct (id <? k) eqn:E1.
    + apply N.ltb_lt in E1. constructor; [|constructor; auto].
      constructor; [exact E1|]. eapply Forall_impl; [|exact Hk]. cbn. intros; lia.
    + destruct (id =? k) eqn:E2.
      * constructor; auto.
      * constructor; [|exact IH]. apply N.ltb_ge in E1. apply N.eqb_neq in E2.
        apply keys_lt_add; [lia | exact Hk].
Qed.

Lemma buf_pts_notin id b : keys_lt id b -> buf_pts id b = [].
Proof.
  intros H. induction H as [|[k v] b Hx Hb IH]; [reflexivity|].
  unfold buf_pts in *. cbn [map concat fst snd]. cbn [fst] in Hx.
  destruct (k =? id) eqn:E; [apply N.eqb_eq in E; lia|]. exact IH.
Qed.

Lemma buf_pts_cons id k v b :
  buf_pts id ((k, v) :: b) = (if k =? id then v else []) ++ buf_pts id b.
Proof. reflexivity. Qed.

Lemma buf_pts_add id k ps b : sorted_buf b ->
  buf_pts id (buf_add k ps b) = buf_pts id b ++ (if k =? id then ps else []).
Proof.
  intros H. induction H as [|k' v b Hk Hb IH]; cbn [buf_add].
  - rewrite buf_pts_cons. unfold buf_pts; cbn. now rewrite app_nil_r.
  - destruct (k <? k') eqn:E1.
    + apply N.ltb_lt in E1. rewrite !buf_pts_cons.
      destruct (k =? id) eqn:Ek; [|now rewrite app_nil_r].
      apply N.eqb_eq in Ek; subst k.
      destruct (k' =? id) eqn:E2; [apply N.eqb_eq in E2; lia|].
      rewrite (buf_pts_notin id b); [now rewrite app_nil_r|].
      eapply Forall_impl; [|exact Hk]. cbn; intros; lia.
    + destruct (k =? k') eqn:E2.
      * apply N.eqb_eq in E2; subst k'. rewrite !buf_pts_cons.
        destruct (k =? id) eqn:Ek.
        -- apply N.eqb_eq in Ek; subst k.
           rewrite (buf_pts_notin id b Hk). now rewrite !app_nil_r.
        -- now rewrite app_nil_r.
      * rewrite !buf_pts_cons, IH. now rewrite app_assoc.
Qed.

Lemma buf_count_cons k v b : buf_count ((k, v) :: b) = N.of_nat (length v) + buf_count b.
Proof. reflexivity. Qed.
Lemma buf_count_nil : buf_count [] = 0.
Proof. reflexivity. Qed.

Lemma buf_count_add k ps b : buf_count (buf_add k ps b) = buf_count b + N.of_nat (length ps).
Proof.
  induction b as [|[k' v] b IH]; cbn [buf_add].
  - rewrite buf_count_cons, !buf_count_nil. lia.
  - destruct (k <? k'); [rewrite !buf_count_cons; lia|].
    destruct (k =? k').
    + rewrite !buf_count_cons, app_length, Nat2N.inj_add. lia.
    + rewrite !buf_count_cons, IH. lia.
Qed.

Definition buf_size (b : list (N * list pt)) : N := fold_right (fun g a => sum_len (snd g) + a) 0 b.
Lemma buf_size_cons k v b : buf_size ((k, v) :: b) = sum_len v + buf_size b.
Proof. reflexivity. Qed.
Lemma buf_size_nil : buf_size [] = 0.
Proof. reflexivity. Qed.

Lemma sum_len_cons x a : sum_len (x :: a) = pt_len x + sum_len a.
Proof. reflexivity. Qed.
Lemma sum_len_app a b : sum_len (a ++ b) = sum_len a + sum_len b.
Proof.
  induction a as [|x a IH]; [reflexivity|].
  change ((x :: a) ++ b) with (x :: (a ++ b)). rewrite !sum_len_cons, IH. lia.
Qed.

Lemma buf_size_add k ps b : buf_size (buf_add k ps b) = buf_size b + sum_len ps.
Proof.
  induction b as [|[k' v] b IH]; cbn [buf_add].
  - rewrite buf_size_cons, !buf_size_nil. lia.
  - destruct (k <? k'); [rewrite !buf_size_cons; lia|].
    destruct (k =? k').
    + rewrite !buf_size_cons, sum_len_app. lia.
    + rewrite !buf_size_cons, IH. lia.
Qed.

Lemma buf_add_nonempty k ps b : buf_add k ps b <> [].
Proof. destruct b as [|[k' v] b]; cbn; [discriminate|]. destruct (k <? k'); [discriminate|]. destruct (k =? k'); discriminate. Qed.

(* ---------- projections of traces ---------- *)

Lemma chunks_of_app a b : chunks_of (a ++ b) = chunks_of a ++ chunks_of b.
Proof. unfold chunks_of. now rewrite map_app, concat_app. Qed.
Lemma sendhooks_of_app a b : sendhooks_of (a ++ b) = sendhooks_of a ++ sendhooks_of b.
Proof. unfold sendhooks_of. now rewrite map_app, concat_app. Qed.
Lemma ackhooks_of_app a b : ackhooks_of (a ++ b) = ackhooks_of a ++ ackhooks_of b.
Proof. unfold ackhooks_of. now rewrite map_app, concat_app. Qed.
Lemma closereq_of_app a b : closereq_of (a ++ b) = closereq_of a ++ closereq_of b.
Proof. unfold closereq_of. now rewrite map_app, concat_app. Qed.
Lemma chunks_pts_app id a b : chunks_pts id (a ++ b) = chunks_pts id a ++ chunks_pts id b.
Proof. unfold chunks_pts. now rewrite map_app, concat_app. Qed.

Lemma chunk_pts_of_buf id seq rev b ids :
  chunk_pts id (seq, map (to_wgroup rev) b, ids) = buf_pts id b.
Proof.
  unfold chunk_pts, buf_pts. cbn [fst snd]. rewrite map_map. f_equal. apply map_ext.
  intros [k v]. unfold to_wgroup; cbn [fst snd]. destruct (lookup k rev); reflexivity.
Qed.

Lemma chunk_count_of_buf seq rev b ids :
  chunk_count (seq, map (to_wgroup rev) b, ids) = buf_count b.
Proof.
  unfold chunk_count, buf_count. cbn [fst snd]. induction b as [|[k v] b IH]; [reflexivity|].
  cbn [map fold_right]. rewrite IH. unfold to_wgroup; cbn [fst snd]. destruct (lookup k rev); reflexivity.
Qed.

(* ---------- flush ---------- *)

Definition flush_fails (s : ustate) : bool :=
  (two64 <=? u_total s + u_count s) || (u_seq s =? max_u32).

Lemma flush_empty s : u_buf s = [] -> flush s = (s, []).
Proof. unfold flush. now intros ->. Qed.

Lemma flush_cut s : u_buf s <> [] -> flush_fails s = false ->
  flush s = (mkU [] 0 0 (u_seq s + 1) (u_total s + u_count s) (u_rev s) (u_pol s) (u_closed s) (u_failed s),
             [OChunk (u_seq s + 1) (map (to_wgroup (u_rev s)) (u_buf s)) (unaliased_ids (u_rev s) (u_buf s));
              OHookSend (u_seq s + 1) (u_buf s)]).
Proof.
  unfold flush, flush_fails. intros Hb Hf. destruct (u_buf s) eqn:E; [congruence|]. now rewrite Hf.
Qed.

Lemma flush_fail s : u_buf s <> [] -> flush_fails s = true ->
  flush s = (mkU (u_buf s) (u_size s) (u_count s) (u_seq s) (u_total s) (u_rev s) (u_pol s) true true, []).
Proof.
  unfold flush, flush_fails. intros Hb Hf. destruct (u_buf s) eqn:E; [congruence|]. now rewrite Hf.
Qed.

(* the three cases of flush, as one disjunction *)
Lemma flush_cases s :
  (u_buf s = [] /\ flush s = (s, [])) \/
  (u_buf s <> [] /\ flush_fails s = true /\ u_failed (fst (flush s)) = true /\ snd (flush s) = [] /\
     u_buf (fst (flush s)) = u_buf s /\ u_seq (fst (flush s)) = u_seq s /\ u_total (fst (flush s)) = u_total s /\
     u_count (fst (flush s)) = u_count s /\ u_size (fst (flush s)) = u_size s /\ u_rev (fst (flush s)) = u_rev s /\
     u_pol (fst (flush s)) = u_pol s /\ u_closed (fst (flush s)) = true) \/
  (u_buf s <> [] /\ flush_fails s = false /\
     flush s = (mkU [] 0 0 (u_seq s + 1) (u_total s + u_count s) (u_rev s) (u_pol s) (u_closed s) (u_failed s),
                [OChunk (u_seq s + 1) (map (to_wgroup (u_rev s)) (u_buf s)) (unaliased_ids (u_rev s) (u_buf s));
                 OHookSend (u_seq s + 1) (u_buf s)])).
Proof.
  destruct (u_buf s) eqn:E.
  - left. split; [reflexivity|]. now apply flush_empty.
  - right. assert (u_buf s <> []) as Hne by (rewrite E; discriminate).
    destruct (flush_fails s) eqn:F.
    + left. rewrite <- E. split; [exact Hne|]. split; [reflexivity|]. rewrite (flush_fail s Hne F). cbn. repeat split; reflexivity.
    + right. rewrite <- E. split; [exact Hne|]. split; [reflexivity|]. now apply flush_cut.
Qed.

(* ---------- the invariant ---------- *)

Record inv (s : ustate) : Prop := {
  inv_sorted : sorted_buf (u_buf s);
  inv_count : u_count s = buf_count (u_buf s);
  inv_size : u_size s = buf_size (u_buf s)
}.

Lemma inv_init p rev0 : inv (uinit p rev0).
Proof. split; cbn; [constructor | reflexivity | reflexivity]. Qed.

Lemma inv_flush s : inv s -> inv (fst (flush s)).
Proof.
  intros H. destruct (flush_cases s) as [[_ ->] | [(_ & _ & _ & _ & Hb & _ & _ & Hc & Hs & _) | (_ & _ & ->)]]; cbn [fst].
  - exact H.
  - destruct H as [H1 H2 H3]. split; rewrite ?Hb, ?Hc, ?Hs; auto.
  - split; cbn; [constructor | reflexivity | reflexivity].
Qed.

Lemma inv_step s o : inv s -> inv (fst (fst (ustep s o))).
Proof.
  intros H. destruct o as [id ps| | |m|rs|]; cbn [ustep].
  - destruct (u_closed s); [exact H|].
    set (s1 := mkU _ _ _ _ _ _ _ _ _).
    assert (inv s1) as H1.
    { destruct H as [Ha Hb Hc]. split; cbn.
      - now apply sorted_add.
      - rewrite buf_count_add. lia.
      - rewrite buf_size_add. lia. }
    destruct (is_flush (u_pol s) (u_size s1)); cbn [fst]; [now apply inv_flush | exact H1].
  - destruct (u_closed s); cbn [fst]; [exact H | now apply inv_flush].
  - destruct (u_closed s); cbn [fst]; [exact H | now apply inv_flush].
  - cbn [fst]. destruct H as [Ha Hb Hc]. split; cbn; auto.
  - exact H.
  - destruct (u_closed s); cbn [fst]; [exact H|].
    pose proof (inv_flush s H) as [Ha Hb Hc]. split; cbn; auto.
Qed.

(* ---------- run equations ---------- *)

Lemma urun_cons s o ops :
  let r := ustep s o in let rest := urun (fst (fst r)) ops in
  r_outs (urun s (o :: ops)) = snd (fst r) ++ r_outs rest /\
  r_rets (urun s (o :: ops)) = snd r :: r_rets rest /\
  r_snaps (urun s (o :: ops)) = snap (fst (fst r)) :: r_snaps rest /\
  r_state (urun s (o :: ops)) = r_state rest.
Proof. cbn. repeat split. Qed.

(* ---------- C01: conservation ---------- *)

Definition op_pts (id : N) (o : uop) (ret : N) : list pt :=
  match o with Write k ps => if (k =? id) && (ret =? 0) then ps else [] | _ => [] end.

Lemma accepted_pts_cons id o ops r rets :
  accepted_pts id (o :: ops) (r :: rets) = op_pts id o r ++ accepted_pts id ops rets.
Proof. destruct o; reflexivity. Qed.

Lemma flush_conserves id s : inv s ->
  chunks_pts id (chunks_of (snd (flush s))) ++ buf_pts id (u_buf (fst (flush s))) = buf_pts id (u_buf s).
Proof.
  intros H. destruct (flush_cases s) as [[_ ->] | [(_ & _ & _ & -> & -> & _) | (_ & _ & ->)]]; cbn [fst snd].
  - reflexivity.
  - reflexivity.
  - unfold chunks_of, chunks_pts; cbn [map concat app]. rewrite chunk_pts_of_buf.
    unfold buf_pts at 2; cbn. now rewrite !app_nil_r.
Qed.

Lemma step_conserves id s o : inv s ->
  let r := ustep s o in
  chunks_pts id (chunks_of (snd (fst r))) ++ buf_pts id (u_buf (fst (fst r))) =
  buf_pts id (u_buf s) ++ op_pts id o (snd r).
Proof.
  intros H. destruct o as [k ps| | |m|rs|]; cbn [ustep op_pts].
  - destruct (u_closed s); cbn [fst snd].
    + change (1 =? 0) with false. rewrite andb_false_r. now rewrite app_nil_r.
    + set (s1 := mkU _ _ _ _ _ _ _ _ _).
      assert (inv s1) as H1.
      { pose proof (inv_step s (Write k ps) H) as Hs. cbn [ustep] in Hs.
        destruct H as [Ha Hb Hc]. split; cbn; [now apply sorted_add | rewrite buf_count_add; lia | rewrite buf_size_add; lia]. }
      assert (buf_pts id (u_buf s1) = buf_pts id (u_buf s) ++ (if k =? id then ps else [])) as Hadd
        by (cbn; apply buf_pts_add; apply H).
      destruct (is_flush (u_pol s) (u_size s1)); cbn [fst snd]; change (0 =? 0) with true; rewrite andb_true_r.
      * rewrite flush_conserves by exact H1. exact Hadd.
      * exact Hadd.
  - destruct (u_closed s); cbn [fst snd]; rewrite app_nil_r; [reflexivity | now apply flush_conserves].
  - destruct (u_closed s); cbn [fst snd]; rewrite app_nil_r; [reflexivity | now apply flush_conserves].
  - cbn. now rewrite app_nil_r.
  - cbn [fst snd]. rewrite app_nil_r.
    assert (chunks_of (map (fun r => OHookAck (fst r) (snd r)) rs) = []) as ->.
    { induction rs as [|x rs IH]; [reflexivity|]. unfold chunks_of in *; cbn. exact IH. }
    reflexivity.
  - destruct (u_closed s); cbn [fst snd]; rewrite app_nil_r; [reflexivity|].
    rewrite chunks_of_app. unfold chunks_of at 2; cbn [map concat]. rewrite app_nil_r.
    now apply flush_conserves.
Qed.

Lemma conservation id ops : forall s, inv s ->
  let r := urun s ops in
  chunks_pts id (chunks_of (r_outs r)) ++ buf_pts id (u_buf (r_state r)) =
  buf_pts id (u_buf s) ++ accepted_pts id ops (r_rets r).
Proof.
  induction ops as [|o ops IH]; intros s H; cbn zeta.
  - cbn. now rewrite app_nil_r.
  - destruct (urun_cons s o ops) as (-> & -> & _ & ->).
    rewrite accepted_pts_cons, chunks_of_app, chunks_pts_app, <- app_assoc.
    rewrite (IH _ (inv_step s o H)). rewrite !app_assoc. f_equal.
    now apply step_conserves.
Qed.

(* ---------- C01: numbering, totals, close ---------- *)

Fixpoint sum_counts (cs : list (N * list wgroup * list N)) : N :=
  match cs with [] => 0 | c :: cs' => chunk_count c + sum_counts cs' end.
Lemma sum_counts_app a b : sum_counts (a ++ b) = sum_counts a + sum_counts b.
Proof. induction a as [|x a IH]; cbn; [reflexivity | rewrite IH; lia]. Qed.

Lemma seqs_from_app n a b :
  seqs_from n (a ++ b) = seqs_from n a && seqs_from (n + N.of_nat (length a)) b.
Proof.
  revert n; induction a as [|x a IH]; intros n; cbn [app seqs_from length].
  - now rewrite N.add_0_r.
  - rewrite IH, andb_assoc. do 2 f_equal. lia.
Qed.

(* what one flush contributes *)
Lemma flush_numbering s : inv s ->
  let r := flush s in
  seqs_from (u_seq s + 1) (chunks_of (snd r)) = true /\
  u_seq (fst r) = u_seq s + N.of_nat (length (chunks_of (snd r))) /\
  u_total (fst r) = u_total s + sum_counts (chunks_of (snd r)) /\
  closereq_of (snd r) = [] /\
  (u_closed (fst r) = false -> u_closed s = false) /\
  (u_closed s = true -> u_closed (fst r) = true) /\
  (u_failed (fst r) = false -> u_buf (fst r) = []).
Proof.
  intros H. cbn zeta.
  destruct (flush_cases s) as [[Hb ->] | [(_ & _ & Hf & -> & _ & Hs & Ht & _ & _ & _ & _ & Hc) | (_ & _ & ->)]]; cbn [fst snd].
  - cbn. rewrite !N.add_0_r. repeat split; auto.
  - cbn. rewrite Hs, Ht, Hc, Hf, !N.add_0_r. repeat split; auto; discriminate.
  - unfold chunks_of; cbn [map concat app length seqs_from sum_counts fst snd closereq_of].
    rewrite chunk_count_of_buf, N.eqb_refl. destruct H as [_ Hc _]. rewrite Hc.
    cbn [u_seq u_total u_closed u_failed u_buf]. repeat split; auto; lia.
Qed.

Definition no_chunks (outs : list uout) : Prop := chunks_of outs = [].

(* once closed, no step emits a chunk or a close request, and the state stays closed *)
Lemma hookacks_silent rs :
  chunks_of (map (fun r => OHookAck (fst r) (snd r)) rs) = [] /\
  closereq_of (map (fun r => OHookAck (fst r) (snd r)) rs) = [] /\
  sendhooks_of (map (fun r => OHookAck (fst r) (snd r)) rs) = [].
Proof.
  induction rs as [|x rs (I1 & I2 & I3)]; [repeat split; reflexivity|].
  unfold chunks_of, closereq_of, sendhooks_of in *; cbn [map concat app]. auto.
Qed.

Lemma closed_step s o : u_closed s = true ->
  chunks_of (snd (fst (ustep s o))) = [] /\ closereq_of (snd (fst (ustep s o))) = [] /\
  u_closed (fst (fst (ustep s o))) = true /\ u_seq (fst (fst (ustep s o))) = u_seq s /\
  u_total (fst (fst (ustep s o))) = u_total s.
Proof.
  intros Hc. destruct o as [k ps| | |m|rs|]; cbn [ustep]; rewrite ?Hc; cbn [fst snd];
    try (repeat split; auto; reflexivity).
  destruct (hookacks_silent rs) as (-> & -> & _). repeat split; auto.
Qed.

Lemma closed_run ops : forall s, u_closed s = true ->
  chunks_of (r_outs (urun s ops)) = [] /\ closereq_of (r_outs (urun s ops)) = [] /\
  u_seq (r_state (urun s ops)) = u_seq s /\ u_total (r_state (urun s ops)) = u_total s.
Proof.
  induction ops as [|o ops IH]; intros s Hc; [cbn; auto|].
  destruct (urun_cons s o ops) as (-> & _ & _ & ->).
  destruct (closed_step s o Hc) as (H1 & H2 & H3 & H4 & H5).
  destruct (IH _ H3) as (I1 & I2 & I3 & I4).
  rewrite chunks_of_app, closereq_of_app, H1, H2, I1, I2, I3, I4. auto.
Qed.

(* one step of an open stream *)
Lemma step_numbering s o : inv s ->
  let r := ustep s o in let s' := fst (fst r) in let outs := snd (fst r) in
  seqs_from (u_seq s + 1) (chunks_of outs) = true /\
  u_seq s' = u_seq s + N.of_nat (length (chunks_of outs)) /\
  u_total s' = u_total s + sum_counts (chunks_of outs) /\
  (u_closed s = true -> u_closed s' = true) /\
  (closereq_of outs = [] \/
   (u_closed s = false /\ u_closed s' = true /\
    closereq_of outs = [(u_total s', u_seq s')] /\ (u_failed s' = false -> u_buf s' = []))).
Proof.
  intros H. cbn zeta.
  assert (forall rs, chunks_of (map (fun r => OHookAck (fst r) (snd r)) rs) = [] /\
                     closereq_of (map (fun r => OHookAck (fst r) (snd r)) rs) = []) as Hrs.
  { induction rs as [|x rs [I1 I2]]; [split; reflexivity|]. unfold chunks_of, closereq_of in *; cbn. auto. }
  destruct o as [k ps| | |m|rs|]; cbn [ustep].
  - destruct (u_closed s) eqn:Ec; cbn [fst snd].
    + cbn. rewrite !N.add_0_r. repeat split; auto.
    + set (s1 := mkU _ _ _ _ _ _ _ _ _).
      assert (inv s1) as H1.
      { destruct H as [Ha Hb Hc]. split; cbn; [now apply sorted_add | rewrite buf_count_add; lia | rewrite buf_size_add; lia]. }
      destruct (is_flush (u_pol s) (u_size s1)); cbn [fst snd].
      * destruct (flush_numbering s1 H1) as (F1 & F2 & F3 & F4 & F5 & F6 & F7). cbn [u_seq u_total s1] in *.
        repeat split; auto; try (intros; discriminate).
      * cbn. rewrite !N.add_0_r. repeat split; auto.
  - destruct (u_closed s) eqn:Ec; cbn [fst snd].
    + cbn. rewrite !N.add_0_r. repeat split; auto.
    + destruct (flush_numbering s H) as (F1 & F2 & F3 & F4 & F5 & F6 & F7). repeat split; auto; try (intros; discriminate).
  - destruct (u_closed s) eqn:Ec; cbn [fst snd].
    + cbn. rewrite !N.add_0_r. repeat split; auto.
    + destruct (flush_numbering s H) as (F1 & F2 & F3 & F4 & F5 & F6 & F7). repeat split; auto; try (intros; discriminate).
  - cbn. rewrite !N.add_0_r. repeat split; auto.
  - cbn [fst snd]. destruct (Hrs rs) as [-> ->]. cbn. rewrite !N.add_0_r. repeat split; auto.
  - destruct (u_closed s) eqn:Ec; cbn [fst snd].
    + cbn. rewrite !N.add_0_r. repeat split; auto.
    + destruct (flush_numbering s H) as (F1 & F2 & F3 & F4 & F5 & F6 & F7).
      rewrite chunks_of_app, closereq_of_app. unfold chunks_of at 2 4 6, closereq_of at 2; cbn [map concat app].
      rewrite !app_nil_r, F4. cbn [u_seq u_total u_closed u_failed u_buf app].
      split; [exact F1|]. split; [exact F2|]. split; [exact F3|]. split; [auto|]. right. repeat split; auto.
Qed.

(* numbering and totals over a whole run *)
Lemma run_numbering ops : forall s, inv s ->
  let r := urun s ops in
  seqs_from (u_seq s + 1) (chunks_of (r_outs r)) = true /\
  u_seq (r_state r) = u_seq s + N.of_nat (length (chunks_of (r_outs r))) /\
  u_total (r_state r) = u_total s + sum_counts (chunks_of (r_outs r)).
Proof.
  induction ops as [|o ops IH]; intros s H; cbn zeta.
  - cbn. rewrite !N.add_0_r. auto.
  - destruct (urun_cons s o ops) as (-> & _ & _ & ->).
    destruct (step_numbering s o H) as (S1 & S2 & S3 & _).
    destruct (IH _ (inv_step s o H)) as (I1 & I2 & I3).
    rewrite chunks_of_app, seqs_from_app, app_length, sum_counts_app, S1, I2, I3, S2, S3. cbn [andb].
    rewrite S2 in I1. replace (u_seq s + 1 + N.of_nat (length (chunks_of (snd (fst (ustep s o))))))
      with (u_seq s + N.of_nat (length (chunks_of (snd (fst (ustep s o))))) + 1) by lia.
    rewrite I1. repeat split; lia.
Qed.

(* the close request: at most one; it reports the chunk count and point total of everything
   cut so far; no chunk follows it; the buffer was empty unless the stream had failed *)
Lemma run_close ops : forall s, inv s -> u_closed s = false ->
  let r := urun s ops in
  closereq_of (r_outs r) = [] \/
  exists pre post t q,
    r_outs r = pre ++ post /\ closereq_of pre = [(t, q)] /\ closereq_of post = [] /\
    chunks_of post = [] /\
    q = u_seq s + N.of_nat (length (chunks_of pre)) /\
    t = u_total s + sum_counts (chunks_of pre) /\
    closereq_of (r_outs r) = [(t, q)].
Proof.
  induction ops as [|o ops IH]; intros s H Hc; cbn zeta; [left; reflexivity|].
  destruct (urun_cons s o ops) as (-> & _ & _ & _).
  destruct (step_numbering s o H) as (S1 & S2 & S3 & _ & [Hno | (_ & Hcl & Hreq & _)]).
  - destruct (u_closed (fst (fst (ustep s o)))) eqn:Ec'.
    + left. rewrite closereq_of_app, Hno.
      destruct (closed_run ops _ Ec') as (_ & -> & _). reflexivity.
    + destruct (IH _ (inv_step s o H) Ec') as [Hn | (pre & post & t & q & E & P1 & P2 & P3 & P4 & P5 & P6)].
      * left. now rewrite closereq_of_app, Hno, Hn.
      * right. exists (snd (fst (ustep s o)) ++ pre), post, t, q.
        rewrite E, app_assoc, !closereq_of_app, chunks_of_app, Hno, P1, P2, app_length, sum_counts_app.
        cbn [app]. repeat split; auto; lia.
  - right. exists (snd (fst (ustep s o))), (r_outs (urun (fst (fst (ustep s o))) ops)),
      (u_total (fst (fst (ustep s o)))), (u_seq (fst (fst (ustep s o)))).
    destruct (closed_run ops _ Hcl) as (C1 & C2 & _).
    rewrite closereq_of_app, Hreq, C2. repeat split; auto.
Qed.

(* ---------- C01: hooks ---------- *)

Lemma ack_hooks ops : forall s, ackhooks_of (r_outs (urun s ops)) = results_of_ops ops.
Proof.
  induction ops as [|o ops IH]; intros s; [reflexivity|].
  destruct (urun_cons s o ops) as (-> & _). rewrite ackhooks_of_app, IH.
  unfold results_of_ops; cbn [map concat]. f_equal.
  assert (forall s0, ackhooks_of (snd (flush s0)) = []) as Hf.
  { intros s0. destruct (flush_cases s0) as [[_ ->] | [(_ & _ & _ & -> & _) | (_ & _ & ->)]]; reflexivity. }
  destruct o as [k ps| | |m|rs|]; cbn [ustep].
  - destruct (u_closed s); cbn [fst snd]; [reflexivity|].
    match goal with |- context [if ?c then _ else _] => destruct c end; cbn [fst snd]; [apply Hf | reflexivity].
  - destruct (u_closed s); cbn [fst snd]; [reflexivity | apply Hf].
  - destruct (u_closed s); cbn [fst snd]; [reflexivity | apply Hf].
  - reflexivity.
  - cbn [fst snd]. induction rs as [|[a b] rs IHr]; [reflexivity|].
    unfold ackhooks_of in *; cbn [map concat app fst snd]. now rewrite IHr.
  - destruct (u_closed s); cbn [fst snd]; [reflexivity|].
    rewrite ackhooks_of_app, Hf. reflexivity.
Qed.

Definition hook_of_chunk (c : N * list wgroup * list N) : N * list (N * list pt) :=
  (fst (fst c), map (fun g : wgroup => (fst (fst g), snd g)) (snd (fst c))).

Lemma send_hooks ops : forall s, sendhooks_of (r_outs (urun s ops)) = map hook_of_chunk (chunks_of (r_outs (urun s ops))).
Proof.
  assert (forall s0, sendhooks_of (snd (flush s0)) = map hook_of_chunk (chunks_of (snd (flush s0)))) as Hf.
  { intros s0. destruct (flush_cases s0) as [[_ ->] | [(_ & _ & _ & -> & _) | (_ & _ & ->)]]; try reflexivity.
    unfold sendhooks_of, chunks_of, hook_of_chunk; cbn [snd fst map concat app]. do 2 f_equal.
    rewrite map_map. rewrite <- (map_id (u_buf s0)) at 1. apply map_ext.
    intros [k v]. unfold to_wgroup; cbn. destruct (lookup k (u_rev s0)); reflexivity. }
  induction ops as [|o ops IH]; intros s; [reflexivity|].
  destruct (urun_cons s o ops) as (-> & _). rewrite sendhooks_of_app, chunks_of_app, map_app, IH. f_equal.
  destruct o as [k ps| | |m|rs|]; cbn [ustep].
  - destruct (u_closed s); cbn [fst snd]; [reflexivity|].
    match goal with |- context [if ?c then _ else _] => destruct c end; cbn [fst snd]; [apply Hf | reflexivity].
  - destruct (u_closed s); cbn [fst snd]; [reflexivity | apply Hf].
  - destruct (u_closed s); cbn [fst snd]; [reflexivity | apply Hf].
  - reflexivity.
  - cbn [fst snd]. induction rs as [|x rs IHr]; [reflexivity|].
    unfold sendhooks_of, chunks_of in *; cbn [map concat app]. exact IHr.
  - destruct (u_closed s); cbn [fst snd]; [reflexivity|].
    rewrite sendhooks_of_app, chunks_of_app, map_app, Hf. reflexivity.
Qed.

(* ---------- C01: alias forms only use aliases the broker handed out ---------- *)

Definition handed (rev0 : list (N * N)) (ops : list uop) : list (N * N) :=
  rev0 ++ concat (map (fun o => match o with Alias m => map (fun ai => (snd ai, fst ai)) m | _ => [] end) ops).

Definition rev_sound (tbl : list (N * N)) (rev : lmap N) : Prop :=
  forall id a, lookup id rev = Some a -> In (id, a) tbl.

Lemma apply_aliases_sound m : forall tbl rev, rev_sound tbl rev ->
  rev_sound (tbl ++ map (fun ai => (snd ai, fst ai)) m) (apply_aliases m rev).
Proof.
  induction m as [|[a id] m IH]; intros tbl rev H; cbn [apply_aliases map].
  - rewrite app_nil_r. exact H.
  - cbn [fst snd].
    assert (forall l, tbl ++ (id, a) :: l = (tbl ++ [(id, a)]) ++ l) as Heq by (intros; now rewrite <- app_assoc).
    rewrite Heq.
    destruct (lookup id rev) eqn:E; apply IH.
    + intros i x Hl. apply in_or_app. left. now apply H.
    + intros i x Hl. destruct (N.eq_dec i id) as [->|Hne].
      * rewrite lookup_insert_same in Hl. injection Hl as <-. apply in_or_app. right. now left.
      * rewrite lookup_insert_other in Hl by exact Hne. apply in_or_app. left. now apply H.
Qed.

Definition groups_sound (tbl : list (N * N)) (gs : list wgroup) : Prop :=
  forall g, In g gs -> fst (snd (fst g)) = true -> In (fst (fst g), snd (snd (fst g))) tbl.

Lemma to_wgroup_sound tbl rev b : rev_sound tbl rev -> groups_sound tbl (map (to_wgroup rev) b).
Proof.
  intros H g Hin Ha. apply in_map_iff in Hin as ([k v] & <- & _).
  unfold to_wgroup in *; cbn [fst snd] in *. destruct (lookup k rev) eqn:E; cbn [fst snd] in *; [|discriminate].
  now apply H.
Qed.

Lemma rev_sound_mono tbl tbl' rev : rev_sound tbl rev -> incl tbl tbl' -> rev_sound tbl' rev.
Proof. intros H Hi id a Hl. apply Hi. now apply H. Qed.

Lemma flush_rev s : u_rev (fst (flush s)) = u_rev s.
Proof. destruct (flush_cases s) as [[_ ->] | [(_ & _ & _ & _ & _ & _ & _ & _ & _ & -> & _) | (_ & _ & ->)]]; reflexivity. Qed.

Lemma flush_sound tbl s : rev_sound tbl (u_rev s) ->
  forall c, In c (chunks_of (snd (flush s))) -> groups_sound tbl (snd (fst c)).
Proof.
  intros H c Hin.
  destruct (flush_cases s) as [[_ E] | [(_ & _ & _ & E & _) | (_ & _ & E)]]; rewrite E in Hin; cbn in Hin; try contradiction.
  destruct Hin as [<-|[]]. cbn [fst snd]. now apply to_wgroup_sound.
Qed.

Lemma alias_sound ops : forall tbl s, rev_sound tbl (u_rev s) ->
  forall c, In c (chunks_of (r_outs (urun s ops))) ->
    groups_sound (tbl ++ concat (map (fun o => match o with Alias m => map (fun ai => (snd ai, fst ai)) m | _ => [] end) ops))
                 (snd (fst c)).
Proof.
  induction ops as [|o ops IH]; intros tbl s H c Hin; [destruct Hin|].
  destruct (urun_cons s o ops) as (E & _). rewrite E in Hin. clear E.
  rewrite chunks_of_app in Hin. apply in_app_or in Hin.
  cbn [map concat].
  set (here := match o with Alias m => map (fun ai => (snd ai, fst ai)) m | _ => [] end).
  set (rest := concat (map _ ops)).
  assert (rev_sound (tbl ++ here) (u_rev (fst (fst (ustep s o))))) as Hnext.
  { destruct o as [k ps| | |m|rs|]; cbn [ustep]; subst here; rewrite ?app_nil_r.
    - destruct (u_closed s); cbn [fst]; [exact H|].
      match goal with |- context [if ?c then _ else _] => destruct c end; cbn [fst]; rewrite ?flush_rev; exact H.
    - destruct (u_closed s); cbn [fst]; rewrite ?flush_rev; exact H.
    - destruct (u_closed s); cbn [fst]; rewrite ?flush_rev; exact H.
    - cbn [fst u_rev]. now apply apply_aliases_sound.
    - exact H.
    - destruct (u_closed s); cbn [fst u_rev]; rewrite ?flush_rev; exact H. }
  destruct Hin as [Hin|Hin].
  - (* emitted by this step: uses the table before the step *)
    assert (groups_sound tbl (snd (fst c))) as Hs.
    { destruct o as [k ps| | |m|rs|]; cbn [ustep] in Hin.
      - destruct (u_closed s); cbn [fst snd] in Hin; [destruct Hin|].
        match type of Hin with context [if ?c then _ else _] => destruct c end; cbn [fst snd] in Hin; [|destruct Hin].
        eapply flush_sound; [|exact Hin]. exact H.
      - destruct (u_closed s); cbn [fst snd] in Hin; [destruct Hin|]. eapply flush_sound; eauto.
      - destruct (u_closed s); cbn [fst snd] in Hin; [destruct Hin|]. eapply flush_sound; eauto.
      - destruct Hin.
      - cbn [fst snd] in Hin. destruct (hookacks_silent rs) as (E & _). rewrite E in Hin. destruct Hin.
      - destruct (u_closed s); cbn [fst snd] in Hin; [destruct Hin|].
        rewrite chunks_of_app in Hin. apply in_app_or in Hin as [Hin|Hin]; [|destruct Hin].
        eapply flush_sound; eauto. }
    intros g Hg Ha. apply in_or_app. left. now apply Hs.
  - rewrite app_assoc. eapply IH; [exact Hnext | exact Hin].
Qed.

(* ---------- C20 ---------- *)

(* a successful Flush leaves the buffer empty *)
Lemma flush_barrier_step s : u_closed s = false ->
  snd (ustep s Flush) = 0 -> u_buf (fst (fst (ustep s Flush))) = [].
Proof.
  intros Hc. cbn [ustep]. rewrite Hc. cbn [fst snd].
  destruct (flush_cases s) as [[Hb ->] | [(_ & _ & Hf & _) | (_ & _ & ->)]]; cbn [fst].
  - now destruct (u_failed s).
  - rewrite Hf. discriminate.
  - reflexivity.
Qed.

(* after a tick nothing stays buffered (unless the stream failed) *)
Lemma tick_empties s : u_closed s = false ->
  u_failed (fst (fst (ustep s Tick))) = false -> u_buf (fst (fst (ustep s Tick))) = [].
Proof.
  intros Hc. cbn [ustep]. rewrite Hc. cbn [fst].
  destruct (flush_cases s) as [[Hb ->] | [(_ & _ & Hf & _) | (_ & _ & ->)]]; cbn [fst]; auto.
  rewrite Hf. discriminate.
Qed.

(* a Write is cut exactly when the policy says so; the chunk holds everything buffered *)
Lemma write_cut s k ps : inv s -> u_closed s = false ->
  let r := ustep s (Write k ps) in
  let b1 := buf_add k ps (u_buf s) in
  let size1 := buf_size (u_buf s) + sum_len ps in
  (is_flush (u_pol s) size1 = false -> snd (fst r) = [] /\ u_buf (fst (fst r)) = b1) /\
  (is_flush (u_pol s) size1 = true -> flush_fails (mkU b1 size1 (u_count s + N.of_nat (length ps)) (u_seq s) (u_total s) (u_rev s) (u_pol s) false (u_failed s)) = false ->
     u_buf (fst (fst r)) = [] /\
     chunks_of (snd (fst r)) = [(u_seq s + 1, map (to_wgroup (u_rev s)) b1, unaliased_ids (u_rev s) b1)]).
Proof.
  intros H Hc. cbn zeta. cbn [ustep]. rewrite Hc. destruct H as [_ _ Hs]. rewrite Hs. cbn [u_size].
  split; intros Hf.
  - rewrite Hf. cbn [fst snd]. split; reflexivity.
  - intros Hff. rewrite Hf. cbn [fst snd].
    rewrite flush_cut; cbn [u_buf u_seq u_total u_count u_rev u_pol u_closed u_failed fst snd].
    + split; reflexivity.
    + apply buf_add_nonempty.
    + rewrite <- Hs in Hff. exact Hff.
Qed.

(* state conservation: total + buffered = initial total + initial buffered + accepted *)
Lemma step_state_conservation s o : inv s ->
  let r := ustep s o in
  u_total (fst (fst r)) + u_count (fst (fst r)) =
  u_total s + u_count s + (match o with Write _ ps => if snd r =? 0 then N.of_nat (length ps) else 0 | _ => 0 end).
Proof.
  intros H. cbn zeta.
  assert (forall s0, u_total (fst (flush s0)) + u_count (fst (flush s0)) = u_total s0 + u_count s0) as Hf.
  { intros s0. destruct (flush_cases s0) as [[_ ->] | [(_ & _ & _ & _ & _ & _ & -> & -> & _) | (_ & _ & ->)]]; cbn; lia. }
  destruct o as [k ps| | |m|rs|]; cbn [ustep].
  - destruct (u_closed s); cbn [fst snd]; [cbn; lia|].
    match goal with |- context [if ?c then _ else _] => destruct c end; cbn [fst snd]; rewrite ?Hf; cbn; lia.
  - destruct (u_closed s); cbn [fst snd]; rewrite ?Hf; lia.
  - destruct (u_closed s); cbn [fst snd]; rewrite ?Hf; lia.
  - cbn. lia.
  - cbn. lia.
  - destruct (u_closed s); cbn [fst snd u_total u_count]; rewrite ?Hf; lia.
Qed.

Lemma accepted_count_cons o ops r rets :
  accepted_count (o :: ops) (r :: rets) =
  (match o with Write _ ps => if r =? 0 then N.of_nat (length ps) else 0 | _ => 0 end) + accepted_count ops rets.
Proof. destruct o; cbn; lia. Qed.

Lemma state_conservation ops : forall s, inv s ->
  let r := urun s ops in
  u_total (r_state r) + buf_count (u_buf (r_state r)) =
  u_total s + buf_count (u_buf s) + accepted_count ops (r_rets r).
Proof.
  induction ops as [|o ops IH]; intros s H; cbn zeta; [cbn; lia|].
  destruct (urun_cons s o ops) as (_ & -> & _ & ->).
  rewrite accepted_count_cons. rewrite (IH _ (inv_step s o H)).
  pose proof (step_state_conservation s o H) as Hs. cbn zeta in Hs.
  destruct (inv_step s o H) as [_ Hc' _]. destruct H as [_ Hc _].
  rewrite <- Hc', <- Hc. lia.
Qed.

(* every prefix: sent + buffered <= accepted (they are equal in the model) *)

(* no chunk is ever cut empty *)
Lemma no_empty_chunk ops : forall s c, In c (chunks_of (r_outs (urun s ops))) -> snd (fst c) <> [].
Proof.
  assert (forall s0 c, In c (chunks_of (snd (flush s0))) -> snd (fst c) <> []) as Hf.
  { intros s0 c Hin.
    destruct (flush_cases s0) as [[_ E] | [(_ & _ & _ & E & _) | (Hne & _ & E)]]; rewrite E in Hin; cbn in Hin; try contradiction.
    destruct Hin as [<-|[]]. cbn [fst snd]. destruct (u_buf s0); [congruence | discriminate]. }
  induction ops as [|o ops IH]; intros s c Hin; [destruct Hin|].
  destruct (urun_cons s o ops) as (E & _). rewrite E in Hin. clear E.
  rewrite chunks_of_app in Hin. apply in_app_or in Hin as [Hin|Hin]; [|eapply IH; eauto].
  destruct o as [k ps| | |m|rs|]; cbn [ustep] in Hin.
  - destruct (u_closed s); cbn [fst snd] in Hin; [destruct Hin|].
    match type of Hin with context [if ?c then _ else _] => destruct c end; cbn [fst snd] in Hin; [eapply Hf; eauto | destruct Hin].
  - destruct (u_closed s); cbn [fst snd] in Hin; [destruct Hin | eapply Hf; eauto].
  - destruct (u_closed s); cbn [fst snd] in Hin; [destruct Hin | eapply Hf; eauto].
  - destruct Hin.
  - cbn [fst snd] in Hin. destruct (hookacks_silent rs) as (E & _). rewrite E in Hin. destruct Hin.
  - destruct (u_closed s); cbn [fst snd] in Hin; [destruct Hin|].
    rewrite chunks_of_app in Hin. apply in_app_or in Hin as [Hin|Hin]; [eapply Hf; eauto | destruct Hin].
Qed.

(* a chunk is cut only in response to: a write the policy selects, a tick, Flush, Close *)
Lemma none_policy_silent s k ps : (u_pol s = PNone \/ u_pol s = PInterval) ->
  snd (fst (ustep s (Write k ps))) = [].
Proof.
  intros Hp. cbn [ustep]. destruct (u_closed s); [reflexivity|].
  assert (forall z, is_flush (u_pol s) z = false) as Hz by (intros z; destruct Hp as [-> | ->]; reflexivity).
  now rewrite Hz.
Qed.

Lemma immediate_cuts s k ps : inv s -> u_pol s = PImmediate -> u_closed s = false ->
  flush_fails (mkU (buf_add k ps (u_buf s)) (u_size s + sum_len ps) (u_count s + N.of_nat (length ps)) (u_seq s) (u_total s) (u_rev s) (u_pol s) false (u_failed s)) = false ->
  length (chunks_of (snd (fst (ustep s (Write k ps))))) = 1%nat /\ u_buf (fst (fst (ustep s (Write k ps)))) = [].
Proof.
  intros H Hp Hc Hf. cbn [ustep]. rewrite Hc, Hp. cbn [is_flush fst snd].
  rewrite flush_cut; cbn [u_buf u_seq u_total u_count fst snd]; [split; reflexivity | apply buf_add_nonempty|].
  rewrite Hp in Hf. exact Hf.
Qed.

Lemma rev_sound_self (rev0 : list (N * N)) : rev_sound rev0 rev0.
Proof.
  intros id a Hl. induction rev0 as [|[k v] rev0 IH]; [discriminate|]. cbn [lookup] in Hl.
  destruct (k =? id) eqn:E.
  - apply N.eqb_eq in E. injection Hl as Hv. subst. left. reflexivity.
  - right. now apply IH.
Qed.

Lemma alias_sound_init pol rev0 ops c :
  In c (chunks_of (r_outs (urun (uinit pol rev0) ops))) -> groups_sound (handed rev0 ops) (snd (fst c)).
Proof. intros Hin. unfold handed. exact (alias_sound ops rev0 (uinit pol rev0) (rev_sound_self rev0) c Hin). Qed.

(* ---------- C20: the interval bound on the model clock (ticks as events) ---------- *)

(* state, outputs and return codes of a history extended by one event *)
Lemma urun_snoc ops : forall s o,
  let r := urun s ops in let st := ustep (r_state r) o in
  r_state (urun s (ops ++ [o])) = fst (fst st) /\
  r_outs (urun s (ops ++ [o])) = r_outs r ++ snd (fst st) /\
  r_rets (urun s (ops ++ [o])) = r_rets r ++ [snd st].
Proof.
  induction ops as [|a ops IH]; intros s o; cbn zeta.
  - cbn. rewrite app_nil_r. repeat split.
  - rewrite <- app_comm_cons.
    destruct (urun_cons s a (ops ++ [o])) as (-> & -> & _ & ->).
    destruct (urun_cons s a ops) as (-> & -> & _ & ->).
    destruct (IH (fst (fst (ustep s a))) o) as (-> & -> & ->).
    rewrite app_assoc. repeat split.
Qed.

(* a tick on a closed stream changes nothing, so a stream that is open after a tick was open before it *)
Lemma tick_open_before s : u_closed (fst (fst (ustep s Tick))) = false -> u_closed s = false.
Proof. cbn [ustep]. destruct (u_closed s) eqn:E; cbn [fst]; [rewrite E; auto | reflexivity]. Qed.

(* on the model clock: after any history that ends with a tick and leaves the stream open and not
   failed, every point accepted so far is in a chunk *)
Lemma interval_hold pol rev0 ops id :
  let r := urun (uinit pol rev0) (ops ++ [Tick]) in
  u_closed (r_state r) = false -> u_failed (r_state r) = false ->
  u_buf (r_state r) = [] /\
  chunks_pts id (chunks_of (r_outs r)) = accepted_pts id (ops ++ [Tick]) (r_rets r).
Proof.
  intros r Hc Hf.
  assert (Hb : u_buf (r_state r) = []).
  { subst r. destruct (urun_snoc ops (uinit pol rev0) Tick) as (E & _ & _). cbn zeta in E.
    rewrite E in *. apply tick_empties; [now apply tick_open_before | exact Hf]. }
  split; [exact Hb|].
  pose proof (conservation id (ops ++ [Tick]) (uinit pol rev0) (inv_init pol rev0)) as H.
  cbn zeta in H. fold r in H. rewrite Hb in H. cbn in H. now rewrite app_nil_r in H.
Qed.


(* ---------- C20: sent-storage failures ---------- *)

Lemma urun_sf_cons F s o ops :
  let r := ustep s o in let rest := urun_sf F (fst (fst r)) ops in
  r_outs (urun_sf F s (o :: ops)) = sf_outs F (snd (fst r)) ++ r_outs rest /\
  r_rets (urun_sf F s (o :: ops)) = sf_ret F o (snd (fst r)) (snd r) :: r_rets rest /\
  r_snaps (urun_sf F s (o :: ops)) = snap (fst (fst r)) :: r_snaps rest /\
  r_state (urun_sf F s (o :: ops)) = r_state rest.
Proof. cbn. repeat split. Qed.

(* a failing Store changes neither the state nor any State() snapshot *)
Lemma urun_sf_state F ops : forall s,
  r_state (urun_sf F s ops) = r_state (urun s ops) /\ r_snaps (urun_sf F s ops) = r_snaps (urun s ops).
Proof.
  induction ops as [|o ops IH]; intros s; [split; reflexivity|].
  destruct (urun_sf_cons F s o ops) as (_ & _ & -> & ->).
  destruct (urun_cons s o ops) as (_ & _ & -> & ->).
  destruct (IH (fst (fst (ustep s o)))) as (-> & ->). split; reflexivity.
Qed.

(* ... nor which writes were accepted *)
Lemma sf_accepted F ops : forall s,
  accepted_count ops (r_rets (urun_sf F s ops)) = accepted_count ops (r_rets (urun s ops)) /\
  forall id, accepted_pts id ops (r_rets (urun_sf F s ops)) = accepted_pts id ops (r_rets (urun s ops)).
Proof.
  induction ops as [|o ops IH]; intros s; [split; reflexivity|].
  destruct (urun_sf_cons F s o ops) as (_ & -> & _ & _).
  destruct (urun_cons s o ops) as (_ & -> & _ & _).
  destruct (IH (fst (fst (ustep s o)))) as (Hc & Hp).
  split.
  - rewrite !accepted_count_cons, Hc. destruct o; reflexivity.
  - intros id. rewrite !accepted_pts_cons, Hp. destruct o; reflexivity.
Qed.

Lemma filter_all A (f : A -> bool) l : (forall x, f x = true) -> filter f l = l.
Proof. intros H. induction l as [|x l IH]; [reflexivity|]. cbn [filter]. rewrite H. now f_equal. Qed.
Lemma existsb_none A (f : A -> bool) l : (forall x, f x = false) -> existsb f l = false.
Proof. intros H. induction l as [|x l IH]; [reflexivity|]. cbn [existsb]. now rewrite H. Qed.
Lemma sf_outs_nil outs : sf_outs [] outs = outs.
Proof. apply filter_all. intros [ | | | ]; reflexivity. Qed.
Lemma sf_lost_nil outs : sf_lost [] outs = false.
Proof. apply existsb_none. intros [ | | | ]; reflexivity. Qed.

(* no failing Store: the plain model *)
Lemma urun_sf_nil ops : forall s, urun_sf [] s ops = urun s ops.
Proof.
  induction ops as [|o ops IH]; intros s; [reflexivity|]. cbn [urun_sf urun]. rewrite IH, sf_outs_nil.
  unfold sf_ret. rewrite sf_lost_nil. destruct o; reflexivity.
Qed.

(* sent + buffered = accepted whatever Store does: a lost chunk is reported as sent *)
Lemma state_conservation_sf F pol rev0 ops :
  let r := urun_sf F (uinit pol rev0) ops in
  u_total (r_state r) + buf_count (u_buf (r_state r)) = accepted_count ops (r_rets r).
Proof.
  cbn zeta. destruct (urun_sf_state F ops (uinit pol rev0)) as (-> & _).
  destruct (sf_accepted F ops (uinit pol rev0)) as (-> & _).
  pose proof (state_conservation ops (uinit pol rev0) (inv_init pol rev0)) as H. cbn zeta in H. exact H.
Qed.

(* transmitted chunks are a sub-multiset: what reaches the wire under failures is what the plain
   model transmits minus the chunks whose Store failed *)
Lemma sf_outs_app F a b : sf_outs F (a ++ b) = sf_outs F a ++ sf_outs F b.
Proof. unfold sf_outs. apply filter_app. Qed.
Lemma urun_sf_outs F ops : forall s, r_outs (urun_sf F s ops) = sf_outs F (r_outs (urun s ops)).
Proof.
  induction ops as [|o ops IH]; intros s; [reflexivity|].
  destruct (urun_sf_cons F s o ops) as (-> & _). destruct (urun_cons s o ops) as (-> & _).
  now rewrite sf_outs_app, IH.
Qed.

(* FINDING (code as it is): the chunk of a cut whose Store failed is dropped silently when the cut
   was made by the flush loop (size trigger or tick): a later Flush returns nil with an empty
   buffer although an accepted point never reached the wire (it is counted in TotalDataPoints and
   its sequence number is used). *)
Lemma store_failure_drops_chunk :
  let ops := [Write 1 [(1,1,5)]; Write 1 [(2,2,1)]; Flush] in
  let r := urun_sf [1] (uinit (PSize 4) []) ops in
  r_rets r = [0; 0; 0] /\ u_buf (r_state r) = [] /\ u_total (r_state r) = 2 /\ u_seq (r_state r) = 2 /\
  chunks_pts 1 (chunks_of (r_outs r)) = [(2,2,1)] /\
  accepted_pts 1 ops (r_rets r) = [(1,1,5); (2,2,1)].
Proof. vm_compute. repeat split. Qed.

(* ---------- C20: the Flush barrier per data id, for any linearised history ---------- *)

Lemma flush_barrier_per_id pol rev0 ops id :
  let s := r_state (urun (uinit pol rev0) ops) in
  let r := urun (uinit pol rev0) (ops ++ [Flush]) in
  snd (ustep s Flush) = 0 ->
  buf_pts id (u_buf (r_state r)) = [] /\
  chunks_pts id (chunks_of (r_outs r)) = accepted_pts id (ops ++ [Flush]) (r_rets r).
Proof.
  intros s r Hret.
  assert (Hc : u_closed s = false).
  { destruct (u_closed s) eqn:E; [|reflexivity]. cbn [ustep] in Hret. rewrite E in Hret. discriminate. }
  assert (Hb : u_buf (r_state r) = []).
  { subst r. destruct (urun_snoc ops (uinit pol rev0) Flush) as (E & _ & _). cbn zeta in E. rewrite E.
    now apply flush_barrier_step. }
  split; [rewrite Hb; reflexivity|].
  pose proof (conservation id (ops ++ [Flush]) (uinit pol rev0) (inv_init pol rev0)) as H.
  cbn zeta in H. fold r in H. rewrite Hb in H. cbn in H. now rewrite app_nil_r in H.
Qed.


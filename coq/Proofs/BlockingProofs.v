(* C08 part B - lemmas about Model/Blocking.v *)
From Coq Require Import List NArith Bool Arith Lia ZifyN ZifyNat ZifyBool.
From Iscp Require Import Model.Blocking.
Import ListNotations.
Open Scope N_scope.

(* ---------- lists ---------- *)

Lemma set_nth_length {A} n (x : A) l : List.length (set_nth n x l) = List.length l.
Proof. revert n; induction l; destruct n; simpl; auto. Qed.

Lemma nth_set_nth_eq {A} n (x d : A) l : (n < List.length l)%nat -> nth n (set_nth n x l) d = x.
Proof. revert n; induction l; destruct n; simpl; intros; try lia; auto. apply IHl; lia. Qed.

Lemma nth_set_nth_neq {A} n m (x d : A) l : n <> m -> nth m (set_nth n x l) d = nth m l d.
Proof. revert n m; induction l; destruct n, m; simpl; intros; try congruence; auto. Qed.

Lemma In_set_nth {A} n (x y : A) l : In y (set_nth n x l) -> y = x \/ In y l.
Proof.
  revert n; induction l; destruct n; simpl; intros; auto.
  - destruct H; auto.
  - destruct H; auto. apply IHl in H. tauto.
Qed.

Lemma last_nth {A} (l : list A) d : last l d = nth (List.length l - 1) l d.
Proof.
  induction l; [reflexivity|]. destruct l; [reflexivity|].
  change (last (a :: a0 :: l) d) with (last (a0 :: l) d). rewrite IHl.
  simpl. rewrite Nat.sub_0_r. reflexivity.
Qed.

Lemma total_size_set_nth i x l : (i < List.length l)%nat ->
  (total_size (set_nth i x l) + psize (code (nth i l dummy)) = total_size l + psize (code x))%nat.
Proof.
  revert i; induction l; destruct i; simpl; intros; try lia.
  specialize (IHl i ltac:(lia)). lia.
Qed.

(* ---------- ready alternatives ---------- *)

Lemma ready_size nw fs p q : In q (ready nw fs p) -> (psize q <= psize p)%nat.
Proof.
  revert q; induction p; simpl; intros q H;
    try (destruct H as [<-|[]]; simpl; lia); try contradiction.
  apply in_app_or in H. destruct H as [H|H].
  - destruct (guard_on nw fs g); simpl in H; [destruct H as [<-|[]]; lia | contradiction].
  - apply IHp2 in H. lia.
Qed.

Lemma ready_size_alt nw fs g k rest q : In q (ready nw fs (Alt g k rest)) -> (psize q < psize (Alt g k rest))%nat.
Proof.
  simpl. intros H. apply in_app_or in H. destruct H as [H|H].
  - destruct (guard_on nw fs g); simpl in H; [destruct H as [<-|[]]; lia | contradiction].
  - apply ready_size in H. lia.
Qed.

Lemma nth_mod_In {A} (l : list A) c d : l <> [] -> In (nth (c mod List.length l)%nat l d) l.
Proof.
  intros H. apply nth_In. apply Nat.mod_upper_bound. destruct l; simpl; congruence.
Qed.

Lemma enabled_alt_ready w p g k rest : code p = Alt g k rest -> enabled w p = true ->
  ready (now w) (flags w) (Alt g k rest) <> [].
Proof.
  unfold enabled. intros -> H E. rewrite E in H. simpl in H. discriminate.
Qed.

(* ---------- firing decreases the size ---------- *)

Lemma mark_code nw c h r : code (mark nw c h r) = c.
Proof. reflexivity. Qed.
Lemma mark_held nw c h r : held (mark nw c h r) = h.
Proof. reflexivity. Qed.

Lemma fire_size w c p : enabled w p = true -> (psize (code (fst (fire w c p))) < psize (code p))%nat.
Proof.
  intros E. unfold fire. destruct (code p) eqn:C; try (unfold enabled in E; rewrite C in E; discriminate);
    cbn [fst code mark]; try (simpl; lia).
  - pose proof (enabled_alt_ready w p _ _ _ C E) as NE.
    apply ready_size_alt with (nw := now w) (fs := flags w). apply nth_mod_In. exact NE.
  - destruct (fl_mem f (flags w)); simpl; lia.
Qed.

Lemma find_enabled_some w ps i0 i : find_enabled w ps i0 = Some i ->
  (i0 <= i)%nat /\ (i - i0 < List.length ps)%nat /\ enabled w (nth (i - i0) ps dummy) = true.
Proof.
  revert i0; induction ps; simpl; intros i0 H; [discriminate|].
  destruct (enabled w a) eqn:E.
  - inversion H; subst. replace (i - i)%nat with 0%nat by lia. repeat split; auto; lia.
  - apply IHps in H. destruct H as (H1 & H2 & H3).
    replace (i - i0)%nat with (S (i - S i0)) by lia. repeat split; auto; lia.
Qed.

Lemma find_enabled_none w ps i0 : find_enabled w ps i0 = None -> forall p, In p ps -> enabled w p = false.
Proof.
  revert i0; induction ps; simpl; intros i0 H p Hin; [contradiction|].
  destruct (enabled w a) eqn:E; [discriminate|]. destruct Hin as [<-|Hin]; eauto.
Qed.

Lemma fire_at_size w c i : (i < List.length (procs w))%nat -> enabled w (nth i (procs w) dummy) = true ->
  (total_size (procs (fire_at w c i)) < total_size (procs w))%nat.
Proof.
  intros Hi E. unfold fire_at. simpl.
  pose proof (total_size_set_nth i (fst (fire w c (nth i (procs w) dummy))) (procs w) Hi).
  pose proof (fire_size w c _ E). lia.
Qed.

Definition quiescent (w : world) : Prop := forall p, In p (procs w) -> enabled w p = false.

Lemma settle_quiescent fuel c w : (total_size (procs w) < fuel)%nat -> quiescent (settle fuel c w).
Proof.
  revert w; induction fuel; intros w H; [lia|]. simpl.
  destruct (find_enabled w (procs w) 0) eqn:F.
  - apply find_enabled_some in F. destruct F as (_ & F2 & F3). rewrite Nat.sub_0_r in *.
    apply IHfuel. pose proof (fire_at_size w c n F2 F3). lia.
  - intros p Hp. eapply find_enabled_none; eauto.
Qed.

Lemma step_quiescent w ec : quiescent (step w ec).
Proof. unfold step. apply settle_quiescent. lia. Qed.

Lemma init_quiescent kaval fs ps : quiescent (init kaval fs ps).
Proof. unfold init. apply settle_quiescent. lia. Qed.

(* ---------- a generic invariant: a predicate on (held, code) that firing preserves ---------- *)

Section Pres.
  Variable G : option (N * lmode) -> proc -> bool.
  Hypothesis G_ret : forall h r, G h (Ret r) = true -> h = None.
  Hypothesis G_acq : forall h m md k, G h (Acq m md k) = true -> h = None /\ G (Some (m, md)) k = true.
  Hypothesis G_rel : forall h m k, G h (Rel m k) = true -> G None k = true.
  Hypothesis G_set : forall h f v k, G h (SetF f v k) = true -> G h k = true.
  Hypothesis G_if : forall h f a b, G h (IfF f a b) = true -> G h a = true /\ G h b = true.
  Hypothesis G_ready : forall h nw fs g k rest q, G h (Alt g k rest) = true ->
    In q (ready nw fs (Alt g k rest)) -> G h q = true.

  Definition allG (w : world) : Prop := forall p, In p (procs w) -> G (held p) (code p) = true.

  Lemma fire_G w c p : enabled w p = true -> G (held p) (code p) = true ->
    G (held (fst (fire w c p))) (code (fst (fire w c p))) = true.
  Proof.
    intros E H. unfold fire. destruct (code p) eqn:C; try (unfold enabled in E; rewrite C in E; discriminate);
      cbn [fst code held mark].
    - pose proof (enabled_alt_ready w p _ _ _ C E) as NE.
      eapply G_ready; [exact H|]. apply nth_mod_In. exact NE.
    - apply G_acq in H. tauto.
    - eapply G_rel; eauto.
    - eapply G_set; eauto.
    - apply G_if in H. destruct (fl_mem f (flags w)); tauto.
  Qed.

  Lemma fire_at_G w c i : (i < List.length (procs w))%nat -> enabled w (nth i (procs w) dummy) = true ->
    allG w -> allG (fire_at w c i).
  Proof.
    intros Hi E H p Hp. unfold fire_at in Hp. simpl in Hp. apply In_set_nth in Hp. destruct Hp as [->|Hp]; auto.
    apply fire_G; auto. apply H. apply nth_In. exact Hi.
  Qed.

  Lemma settle_G fuel c w : allG w -> allG (settle fuel c w).
  Proof.
    revert w; induction fuel; intros w H; simpl; auto.
    destruct (find_enabled w (procs w) 0) eqn:F; auto.
    apply find_enabled_some in F. destruct F as (_ & F2 & F3). rewrite Nat.sub_0_r in *.
    apply IHfuel. apply fire_at_G; auto.
  Qed.

  Lemma apply_event_G e w : (match e with ESpawn p => G None p = true | _ => True end) -> allG w -> allG (apply_event e w).
  Proof.
    intros He H. destruct e; simpl; unfold allG; simpl; auto.
    intros q Hq. apply in_app_or in Hq. destruct Hq as [Hq|[<-|[]]]; auto.
  Qed.

  Lemma step_G w ec : ev_ok (G None) ec = true -> allG w -> allG (step w ec).
  Proof.
    intros He H. unfold step. apply settle_G. apply apply_event_G; auto.
    unfold ev_ok in He. destruct (fst ec); auto.
  Qed.

  Lemma run_G evs : forall w, forallb (ev_ok (G None)) evs = true -> allG w -> allG (run w evs).
  Proof.
    induction evs; simpl; intros w He H; auto.
    apply andb_true_iff in He. destruct He. apply IHevs; auto. apply step_G; auto.
  Qed.

  Lemma init_G kaval fs ps : forallb (G None) ps = true -> allG (init kaval fs ps).
  Proof.
    intros H. unfold init. apply settle_G. unfold allG. simpl. intros p Hp.
    apply in_map_iff in Hp. destruct Hp as (q & <- & Hq). simpl.
    rewrite forallb_forall in H. auto.
  Qed.

  Lemma run_quiescent evs : forall w, quiescent w -> quiescent (run w evs).
  Proof.
    induction evs; simpl; intros w H; auto. apply IHevs. apply step_quiescent.
  Qed.
End Pres.

(* ---------- wf and lwf are such invariants ---------- *)

Lemma wf_ready D h p : wf D h p = true -> forall nw fs q, In q (ready nw fs p) -> wf D h q = true.
Proof.
  induction p; intros H nw fs q Hq; simpl in Hq;
    try (destruct Hq as [<-|[]]; exact H); try contradiction.
  simpl in H. apply andb_true_iff in H. destruct H as [Hk Hr].
  apply in_app_or in Hq. destruct Hq as [Hq|Hq].
  - destruct (guard_on nw fs g); simpl in Hq; [destruct Hq as [<-|[]]; auto | contradiction].
  - destruct p2; try (eapply IHp2; eauto; fail); try (simpl in Hq; contradiction).
Qed.

Lemma lwf_ready FL h p : lwf FL h p = true -> forall nw fs q, In q (ready nw fs p) -> lwf FL h q = true.
Proof.
  induction p; intros H nw fs q Hq; simpl in Hq;
    try (destruct Hq as [<-|[]]; exact H); try contradiction.
  simpl in H. apply andb_true_iff in H. destruct H as [H Hr]. apply andb_true_iff in H. destruct H as [_ Hk].
  apply in_app_or in Hq. destruct Hq as [Hq|Hq].
  - destruct (guard_on nw fs g); simpl in Hq; [destruct Hq as [<-|[]]; auto | contradiction].
  - eapply IHp2; eauto.
Qed.

Section WF.
  Variable D : N.
  Lemma wf_ret h r : wf D h (Ret r) = true -> h = None.
  Proof. simpl. destruct h; congruence. Qed.
  Lemma wf_acq h m md k : wf D h (Acq m md k) = true -> h = None /\ wf D (Some (m, md)) k = true.
  Proof. simpl. destruct h; [discriminate|auto]. Qed.
  Lemma wf_rel h m k : wf D h (Rel m k) = true -> wf D None k = true.
  Proof. simpl. destruct h as [[m' md]|]; [|discriminate]. intros H. apply andb_true_iff in H. tauto. Qed.
  Lemma wf_set h f v k : wf D h (SetF f v k) = true -> wf D h k = true.
  Proof. auto. Qed.
  Lemma wf_if h f a b : wf D h (IfF f a b) = true -> wf D h a = true /\ wf D h b = true.
  Proof. simpl. intros H. apply andb_true_iff in H. tauto. Qed.
  Lemma wf_rdy h nw fs g k rest q : wf D h (Alt g k rest) = true -> In q (ready nw fs (Alt g k rest)) -> wf D h q = true.
  Proof. intros. eapply wf_ready; eauto. Qed.
End WF.

Section LWF.
  Variable FL : N -> bool.
  Lemma lwf_ret h r : lwf FL h (Ret r) = true -> h = None.
  Proof. simpl. destruct h; congruence. Qed.
  Lemma lwf_acq h m md k : lwf FL h (Acq m md k) = true -> h = None /\ lwf FL (Some (m, md)) k = true.
  Proof. simpl. destruct h; [discriminate|auto]. Qed.
  Lemma lwf_rel h m k : lwf FL h (Rel m k) = true -> lwf FL None k = true.
  Proof. simpl. destruct h as [[m' md]|]; [|discriminate]. intros H. apply andb_true_iff in H. tauto. Qed.
  Lemma lwf_set h f v k : lwf FL h (SetF f v k) = true -> lwf FL h k = true.
  Proof. auto. Qed.
  Lemma lwf_if h f a b : lwf FL h (IfF f a b) = true -> lwf FL h a = true /\ lwf FL h b = true.
  Proof. simpl. intros H. apply andb_true_iff in H. tauto. Qed.
  Lemma lwf_rdy h nw fs g k rest q : lwf FL h (Alt g k rest) = true -> In q (ready nw fs (Alt g k rest)) -> lwf FL h q = true.
  Proof. intros. eapply lwf_ready; eauto. Qed.
End LWF.

(* ---------- the clock ---------- *)

Lemma settle_now fuel c w : now (settle fuel c w) = now w.
Proof.
  revert w; induction fuel; intros; simpl; auto.
  destruct (find_enabled w (procs w) 0); auto. rewrite IHfuel. reflexivity.
Qed.

(* ---------- a blocked lock request has a holder ---------- *)

Lemma lock_blocked m md ps : lock_ok m md ps = false ->
  exists q md', In q ps /\ held q = Some (m, md').
Proof.
  unfold lock_ok. intros H.
  assert (exists q, In q ps /\ (match held q with
             | Some (m', md') => negb (m' =? m) || match md, md' with LR, LR => true | _, _ => false end
             | None => true end) = false) as (q & Hq & Hb).
  { induction ps; simpl in H; [discriminate|]. apply andb_false_iff in H. destruct H as [H|H].
    - exists a. split; [left; auto|exact H].
    - destruct (IHps H) as (q & ? & ?). exists q. split; [right; auto|auto]. }
  destruct (held q) as [[m' md']|] eqn:Hh; [|discriminate].
  apply orb_false_iff in Hb. destruct Hb as [Hb _]. apply negb_false_iff in Hb. apply N.eqb_eq in Hb. subst.
  exists q, md'. auto.
Qed.

(* under wf, a select whose clock guard is due has a ready alternative *)
Lemma wf_chain_ready D h p nw fs : wf D h p = true -> is_chain p = true -> D <= nw -> ready nw fs p <> [].
Proof.
  induction p; intros H C Hn; simpl in C; try discriminate C.
  - simpl in H. discriminate H.
  - simpl in H. apply andb_true_iff in H. destruct H as [Hk Hr]. simpl.
    destruct p2; try (destruct (guard_on nw fs g); simpl; congruence).
    + (* last alternative: a clock guard <= D *)
      destruct g; simpl in Hr; [|discriminate]. simpl.
      assert (d <=? nw = true) as -> by lia. simpl. congruence.
    + intros E. apply app_eq_nil in E. destruct E as [_ E]. revert E. apply IHp2; auto.
Qed.

(* a wf process that holds a lock is enabled once the clock has reached D *)
Lemma wf_holder_enabled D w q l : wf D (held q) (code q) = true -> held q = Some l -> D <= now w -> enabled w q = true.
Proof.
  intros H Hh Hn. unfold enabled. destruct (code q) eqn:C; try reflexivity.
  - apply wf_ret in H. congruence.
  - simpl in H. discriminate H.
  - assert (ready (now w) (flags w) (Alt g p1 p2) <> []) as NE.
    { eapply wf_chain_ready; eauto. }
    destruct (ready (now w) (flags w) (Alt g p1 p2)); [congruence|reflexivity].
  - apply wf_acq in H. destruct H. congruence.
Qed.

(* THE BOUND: in a quiescent world whose clock has reached D, every wf process has returned *)
Lemma wf_quiescent_returned D w : allG (wf D) w -> quiescent w -> D <= now w ->
  forall p, In p (procs w) -> returned p = true.
Proof.
  intros HG HQ Hn p Hp. pose proof (HG p Hp) as Hw. pose proof (HQ p Hp) as He.
  unfold returned. unfold enabled in He. destruct (code p) eqn:C; try reflexivity; try discriminate He.
  - simpl in Hw. discriminate Hw.
  - exfalso. assert (ready (now w) (flags w) (Alt g p0_1 p0_2) <> []) as NE by (eapply wf_chain_ready; eauto).
    destruct (ready (now w) (flags w) (Alt g p0_1 p0_2)); [congruence|discriminate He].
  - exfalso. apply wf_acq in Hw. destruct Hw as [Hh _]. rewrite Hh in He.
    apply lock_blocked in He. destruct He as (q & md' & Hq & Hhq).
    pose proof (wf_holder_enabled D w q _ (HG q Hq) Hhq Hn) as E. rewrite (HQ q Hq) in E. discriminate E.
Qed.

Theorem bounded : forall D kaval fs ps evs,
  forallb (wf D None) ps = true -> forallb (ev_ok (wf D None)) evs = true ->
  let w := run (init kaval fs ps) evs in
  D <= now w -> forall p, In p (procs w) -> returned p = true.
Proof.
  intros D kaval fs ps evs Hps Hev w Hn p Hp.
  eapply (wf_quiescent_returned D w); eauto.
  - apply (run_G (wf D) (wf_acq D) (wf_rel D) (wf_set D) (wf_if D) (wf_rdy D)); auto.
    apply (init_G (wf D) (wf_acq D) (wf_rel D) (wf_set D) (wf_if D) (wf_rdy D)); auto.
  - apply run_quiescent. apply init_quiescent.
Qed.

(* THE MIN: in every reachable state a waiting process has none of its guards due: the clock is
   below EVERY clock guard of its select, and none of its flags is raised *)
Lemma quiescent_chain w p : quiescent w -> In p (procs w) -> is_chain (code p) = true ->
  (forall d, In d (chain_times (code p)) -> now w < d) /\
  (forall f, In f (chain_flags (code p)) -> fl_mem f (flags w) = false).
Proof.
  intros HQ Hp C. pose proof (HQ p Hp) as He. unfold enabled in He.
  assert (ready (now w) (flags w) (code p) = []) as R.
  { destruct (code p); simpl in C; try discriminate; auto.
    destruct (ready (now w) (flags w) (Alt g p0_1 p0_2)); [auto|discriminate]. }
  clear He C. induction (code p); simpl in *; try (split; intros; contradiction).
  apply app_eq_nil in R. destruct R as [R1 R2]. destruct (IHp0_2 R2) as [I1 I2].
  destruct g; simpl in *.
  - destruct (d <=? now w) eqn:E; [discriminate|]. split; auto.
    intros d' [<-|H]; [lia|auto].
  - destruct (fl_mem f (flags w)) eqn:E; [discriminate|]. split; auto.
    intros f' [<-|H]; auto.
Qed.

Theorem wait_min : forall kaval fs ps evs p,
  let w := run (init kaval fs ps) evs in
  In p (procs w) -> is_chain (code p) = true ->
  (forall d, In d (chain_times (code p)) -> now w < d) /\
  (forall f, In f (chain_flags (code p)) -> fl_mem f (flags w) = false).
Proof.
  intros. apply quiescent_chain; auto. apply run_quiescent. apply init_quiescent.
Qed.

(* keepalive: once the clock has reached (link death + ka), FWClosed is up - unless a new wire
   connection has replaced the dead one *)
Lemma settle_dead fuel c w : dead_since (settle fuel c w) = dead_since w /\ ka (settle fuel c w) = ka w.
Proof.
  revert w; induction fuel; intros; simpl; auto.
  destruct (find_enabled w (procs w) 0); auto. destruct (IHfuel (fire_at w c n)) as [-> ->]. auto.
Qed.

(* ---------- never stuck: dispatcher steps complete whatever the rest of the system does ---------- *)

Lemma lwf_holder_enabled FL w q m md : lwf FL (held q) (code q) = true -> held q = Some (m, md) -> FL m = true ->
  enabled w q = true.
Proof.
  intros H Hh Hf. unfold enabled. destruct (code q) eqn:C; try reflexivity.
  - apply lwf_ret in H. congruence.
  - simpl in H. rewrite Hh in H. simpl in H. rewrite Hf in H. discriminate H.
  - simpl in H. rewrite Hh in H. simpl in H. rewrite Hf in H. discriminate H.
  - apply lwf_acq in H. destruct H. congruence.
Qed.

Lemma lwf_quiescent_nowait FL w : allG (lwf FL) w -> quiescent w ->
  forall p, In p (procs w) -> nowait FL (code p) = true -> returned p = true.
Proof.
  intros HG HQ p Hp Hn. pose proof (HG p Hp) as Hw. pose proof (HQ p Hp) as He.
  unfold returned. unfold enabled in He. destruct (code p) eqn:C; try reflexivity; try discriminate He; try discriminate Hn.
  exfalso. simpl in Hn. apply andb_true_iff in Hn. destruct Hn as [Hf _].
  apply lwf_acq in Hw. destruct Hw as [Hh _]. rewrite Hh in He.
  apply lock_blocked in He. destruct He as (q & md' & Hq & Hhq).
  pose proof (lwf_holder_enabled FL w q _ _ (HG q Hq) Hhq Hf) as E. rewrite (HQ q Hq) in E. discriminate E.
Qed.

Theorem never_stuck : forall FL kaval fs ps evs,
  forallb (lwf FL None) ps = true -> forallb (ev_ok (lwf FL None)) evs = true ->
  let w := run (init kaval fs ps) evs in
  forall p, In p (procs w) -> nowait FL (code p) = true -> returned p = true.
Proof.
  intros FL kaval fs ps evs Hps Hev w p Hp Hn.
  eapply (lwf_quiescent_nowait FL w); eauto.
  - apply (run_G (lwf FL) (lwf_acq FL) (lwf_rel FL) (lwf_set FL) (lwf_if FL) (lwf_rdy FL)); auto.
    apply (init_G (lwf FL) (lwf_acq FL) (lwf_rel FL) (lwf_set FL) (lwf_if FL) (lwf_rdy FL)); auto.
  - apply run_quiescent. apply init_quiescent.
Qed.

(* the code of a dispatcher step stays a dispatcher step, so a step that is started (ESpawn)
   in any reachable state has returned by the end of that very event *)
Lemma nowait_fire FL w c p : enabled w p = true -> nowait FL (code p) = true ->
  nowait FL (code (fst (fire w c p))) = true.
Proof.
  intros E H. unfold fire.
  destruct (code p) eqn:C; try (unfold enabled in E; rewrite C in E; discriminate E);
    cbn [fst code mark]; simpl in H; try discriminate H; try exact H.
  - apply andb_true_iff in H. tauto.
  - apply andb_true_iff in H. destruct (fl_mem f (flags w)); tauto.
Qed.

Lemma settle_length fuel c w : List.length (procs (settle fuel c w)) = List.length (procs w).
Proof.
  revert w; induction fuel; intros; simpl; auto.
  destruct (find_enabled w (procs w) 0); auto. rewrite IHfuel. unfold fire_at. simpl. apply set_nth_length.
Qed.

Lemma settle_nowait FL fuel c w i : (i < List.length (procs w))%nat ->
  nowait FL (code (nth i (procs w) dummy)) = true ->
  nowait FL (code (nth i (procs (settle fuel c w)) dummy)) = true.
Proof.
  revert w; induction fuel; intros w Hi H; simpl; auto.
  destruct (find_enabled w (procs w) 0) eqn:F; auto.
  apply find_enabled_some in F. destruct F as (_ & F2 & F3). rewrite Nat.sub_0_r in *.
  apply IHfuel.
  - unfold fire_at. simpl. rewrite set_nth_length. exact Hi.
  - unfold fire_at. simpl. destruct (Nat.eq_dec n i) as [->|Hne].
    + rewrite nth_set_nth_eq by exact Hi. apply nowait_fire; auto.
    + rewrite nth_set_nth_neq by exact Hne. exact H.
Qed.

Theorem dispatch_completes : forall FL kaval fs ps evs d c,
  forallb (lwf FL None) ps = true -> forallb (ev_ok (lwf FL None)) evs = true ->
  lwf FL None d = true -> nowait FL d = true ->
  let w := run (init kaval fs ps) (evs ++ [(ESpawn d, c)]) in
  returned (last (procs w) dummy) = true.
Proof.
  intros FL kaval fs ps evs d c Hps Hev Hd Hn w.
  assert (forall w0 l, run w0 (l ++ [(ESpawn d, c)]) = step (run w0 l) (ESpawn d, c)) as RA.
  { intros w0 l; revert w0; induction l; simpl; auto. }
  unfold w. rewrite RA. set (w1 := run (init kaval fs ps) evs).
  assert (allG (lwf FL) w1) as HG.
  { apply (run_G (lwf FL) (lwf_acq FL) (lwf_rel FL) (lwf_set FL) (lwf_if FL) (lwf_rdy FL)); auto.
    apply (init_G (lwf FL) (lwf_acq FL) (lwf_rel FL) (lwf_set FL) (lwf_if FL) (lwf_rdy FL)); auto. }
  set (w2 := step w1 (ESpawn d, c)).
  assert (allG (lwf FL) w2) as HG2.
  { apply (step_G (lwf FL) (lwf_acq FL) (lwf_rel FL) (lwf_set FL) (lwf_if FL) (lwf_rdy FL)); auto. }
  assert (quiescent w2) as HQ by apply step_quiescent.
  set (i := List.length (procs w1)).
  assert (List.length (procs w2) = S i) as HL.
  { unfold w2, step. rewrite settle_length. simpl. rewrite app_length. simpl. unfold i. lia. }
  assert (nowait FL (code (nth i (procs w2) dummy)) = true) as HN.
  { unfold w2, step. apply settle_nowait.
    - simpl. rewrite app_length. simpl. unfold i. lia.
    - simpl. rewrite app_nth2 by (unfold i; lia). unfold i. rewrite Nat.sub_diag. simpl. exact Hn. }
  assert (last (procs w2) dummy = nth i (procs w2) dummy) as ->.
  { rewrite last_nth. rewrite HL. simpl. rewrite Nat.sub_0_r. reflexivity. }
  apply (lwf_quiescent_nowait FL w2 HG2 HQ); auto.
  apply nth_In. lia.
Qed.

(* ================= the modelled calls satisfy the hypotheses ================= *)

Lemma wf_tg D h d k : d <= D -> wf D h k = true -> wf D h (tg (Some d) k) = true.
Proof. intros Hd Hk. simpl. rewrite Hk. simpl. apply N.leb_le. exact Hd. Qed.

Lemma wf_alt_tg D h g k d k' : d <= D -> wf D h k = true -> wf D h k' = true ->
  wf D h (Alt g k (tg (Some d) k')) = true.
Proof. intros Hd Hk Hk'. simpl. rewrite Hk, Hk'. simpl. apply N.leb_le. exact Hd. Qed.

Lemma wf_alt2_tg D h g1 k1 g2 k2 d k' : d <= D -> wf D h k1 = true -> wf D h k2 = true -> wf D h k' = true ->
  wf D h (Alt g1 k1 (Alt g2 k2 (tg (Some d) k'))) = true.
Proof. intros Hd H1 H2 H'. simpl. rewrite H1, H2, H'. simpl. apply N.leb_le. exact Hd. Qed.

Lemma wf_sendRequest D h d id k : d <= D -> (forall r, wf D h (k r) = true) ->
  wf D h (sendRequest (Some d) id k) = true.
Proof. intros. unfold sendRequest. apply wf_alt2_tg; auto. Qed.

Lemma wf_waitUntil D h d t k : d <= D -> (forall r, wf D h (k r) = true) -> wf D h (waitUntil (Some d) t k) = true.
Proof. intros. unfold waitUntil. apply wf_alt_tg; auto. Qed.

Lemma wf_waitUntilOrClosed D h d t k : d <= D -> (forall r, wf D h (k r) = true) ->
  wf D h (waitUntilOrClosed (Some d) t k) = true.
Proof. intros. unfold waitUntilOrClosed. apply wf_alt2_tg; auto. Qed.

Lemma wf_set_status D h s k : wf D h k = true -> wf D h (set_status s k) = true.
Proof. auto. Qed.

Lemma wf_connRequest_with D wu d :
  (forall h t k, (forall r, wf D h (k r) = true) -> wf D h (wu (Some d) t k) = true) ->
  d <= D -> forall n id, wf D None (connRequest_with wu n (Some d) id) = true.
Proof.
  intros Hwu Hd. induction n; intros id; cbn [connRequest_with]; apply Hwu; intros r; destruct r; try reflexivity;
    cbn [wf]; (apply wf_sendRequest; [exact Hd|]); intros r'; destruct r'; try reflexivity.
  cbn [wf]. rewrite N.eqb_refl. cbn [andb wf set_status]. apply IHn.
Qed.

Lemma wf_connRequest D d n id : d <= D -> wf D None (connRequest n (Some d) id) = true.
Proof. intros. apply wf_connRequest_with; auto. intros. apply wf_waitUntilOrClosed; auto. Qed.
Lemma wf_connRequest_F5 D d n id : d <= D -> wf D None (connRequest_F5 n (Some d) id) = true.
Proof. intros. apply wf_connRequest_with; auto. intros. apply wf_waitUntil; auto. Qed.

Lemma wf_openDownstream D d : d <= D -> forall n id, wf D None (openDownstream n (Some d) id) = true.
Proof.
  intros Hd. induction n; intros id; cbn [openDownstream]; apply wf_waitUntilOrClosed; auto; intros r; destruct r; try reflexivity;
    cbn [wf]; rewrite N.eqb_refl; cbn [andb]; (apply wf_sendRequest; [exact Hd|]); intros r'; destruct r'; try reflexivity.
  cbn [wf andb set_status]. apply IHn.
Qed.

Lemma wf_upFlush D h d k : d <= D -> (forall r, wf D h (k r) = true) -> wf D h (upFlush (Some d) k) = true.
Proof.
  intros Hd Hk. unfold upFlush.
  change (wf D h (k OStreamClosed) &&
          wf D h (Alt (GFlag FFlushReady)
                      (Alt (GFlag FFlushRes) (k ONil) (Alt (GFlag FSctx) (k OStreamClosed) (tg (Some d) (k OCtx))))
                      (Alt (GFlag FSctx) (k OStreamClosed) (tg (Some d) (k OCtx)))) = true).
  rewrite Hk. simpl. rewrite !Hk. simpl. assert (d <=? D = true) as -> by (apply N.leb_le; exact Hd). reflexivity.
Qed.

Lemma wf_upCloseRequest D d id : d <= D -> wf D None (upCloseRequest (Some d) id) = true.
Proof.
  intros Hd. unfold upCloseRequest. simpl. rewrite ?N.eqb_refl. simpl.
  assert (d <=? D = true) as -> by (apply N.leb_le; exact Hd). reflexivity.
Qed.

Lemma wf_upClose D d cto id : d <= D -> wf D None (upClose (Some d) cto id) = true.
Proof.
  intros Hd. unfold upClose. cbn [wf]. apply wf_upFlush; auto. intros _.
  pose proof (wf_upCloseRequest D d id Hd) as H. cbn [wf tg]. rewrite !H. simpl. apply N.leb_le. exact Hd.
Qed.

Lemma wf_downClose D d id : d <= D -> wf D None (downClose (Some d) id) = true.
Proof.
  intros Hd. unfold downClose, sendRequest. simpl. rewrite ?N.eqb_refl. simpl.
  assert (d <=? D = true) as -> by (apply N.leb_le; exact Hd). reflexivity.
Qed.

Lemma wf_simple_calls D d : d <= D ->
  forallb (wf D None) [upWrite (Some d); readDP (Some d); readMeta (Some d); e2eCall (Some d) (Ret ONil);
                       e2eCallAndWait (Some d); connClose; upState; upFlushInternal; processResult; dispatchMeta;
                       dispatchChunk; dispatchAck; dispatchReply 1] = true.
Proof.
  intros Hd. simpl. rewrite ?N.eqb_refl. simpl.
  assert (d <=? D = true) as -> by (apply N.leb_le; exact Hd). reflexivity.
Qed.

(* lock discipline of the same calls, for every context (deadline or not) *)
Lemma lwf_connRequest_with wu ctx :
  (forall h t k, holds_fast fast_lock h = false -> (forall r, lwf fast_lock h (k r) = true) -> lwf fast_lock h (wu ctx t k) = true) ->
  forall n id, lwf fast_lock None (connRequest_with wu n ctx id) = true.
Proof.
  intros Hwu. induction n; intros id; simpl; apply Hwu; auto; intros r; destruct r; try reflexivity;
    simpl; destruct ctx; simpl; rewrite ?IHn; reflexivity.
Qed.

Lemma lwf_connRequest ctx n id : lwf fast_lock None (connRequest n ctx id) = true.
Proof.
  apply lwf_connRequest_with. intros h t k Hh Hk. unfold waitUntilOrClosed. simpl. rewrite Hh. simpl.
  destruct ctx; simpl; rewrite ?Hh, !Hk; reflexivity.
Qed.

Lemma lwf_openDownstream ctx : forall n id, lwf fast_lock None (openDownstream n ctx id) = true.
Proof.
  induction n; intros id; simpl; destruct ctx; simpl; rewrite ?IHn; reflexivity.
Qed.

Lemma lwf_simple_calls ctx cto id :
  forallb (lwf fast_lock None) [upWrite ctx; upFlush ctx (fun r => Ret r); upClose ctx cto id; downClose ctx id;
                                readDP ctx; readMeta ctx; e2eCall ctx (Ret ONil); e2eCallAndWait ctx; connClose;
                                upState; upFlushInternal; processResult; dispatchMeta; dispatchChunk; dispatchAck; dispatchReply id] = true.
Proof. destruct ctx; reflexivity. Qed.

Lemma nowait_dispatch id :
  forallb (nowait fast_lock) [dispatchMeta; dispatchChunk; dispatchAck; dispatchReply id; upState; upFlushInternal; processResult] = true.
Proof. reflexivity. Qed.

(* ---------- the clock after a final tick ---------- *)

Lemma run_app w l1 l2 : run w (l1 ++ l2) = run (run w l1) l2.
Proof. revert w; induction l1; simpl; auto. Qed.

Lemma step_tick_now w t c : t <= now (step w (ETick t, c)).
Proof. unfold step. rewrite settle_now. simpl. lia. Qed.

(* keepalive rule: a tick that reaches (death + ka) closes the wire connection *)
Lemma tick_detects w t t0 : dead_since w = Some t0 -> t0 + ka w <= t ->
  fl_mem FWClosed (flags (apply_event (ETick t) w)) = true.
Proof.
  intros Hd Ht. simpl. rewrite Hd. assert (t0 + ka w <=? N.max (now w) t = true) as -> by lia.
  unfold fl_set. destruct (fl_mem FWClosed (flags w)) eqn:E; [exact E|]. simpl. reflexivity.
Qed.

(* ---------- broker behaviours as event lists ---------- *)

(* one behaviour applied to the exchange completed by flag f (untimed: the clock moves by d for a delay) *)
Definition beh_events (b : beh) (f : flag) (t d kaval : N) : list (event * nat) :=
  match b with
  | BAnswer | BDup => [(ESet f true, 0%nat)]
  | BDelay => [(ETick (t + d), 0%nat); (ESet f true, 0%nat)]
  | BDrop => []
  | BMisaddr => [(ESet (f + 1000) true, 0%nat)]      (* a reply nobody waits for *)
  | BDisconnect => [(ELinkDies, 0%nat); (ETick (t + kaval), 0%nat); (ESet FStConnected false, 0%nat);
                    (ESet FStReconnecting true, 0%nat); (ELinkUp, 0%nat); (ESet FStReconnecting false, 0%nat);
                    (ESet FStConnected true, 0%nat)]
  end.

Fixpoint script_events (bs : list (beh * flag * N * N)) (kaval : N) : list (event * nat) :=
  match bs with
  | [] => []
  | (b, f, t, d) :: r => beh_events b f t d kaval ++ script_events r kaval
  end.

Lemma script_no_spawn P bs kaval : forallb (ev_ok P) (script_events bs kaval) = true.
Proof.
  induction bs as [|[[[b f] t] d] r IH]; simpl; auto.
  rewrite forallb_app. rewrite IH. destruct b; reflexivity.
Qed.

Theorem bounded_behaviours : forall D kaval fs ps bs c,
  forallb (wf D None) ps = true ->
  let w := run (init kaval fs ps) (script_events bs kaval ++ [(ETick D, c)]) in
  forall p, In p (procs w) -> returned p = true.
Proof.
  intros D kaval fs ps bs c Hps w p Hp.
  eapply (bounded D kaval fs ps); eauto.
  - rewrite forallb_app. rewrite script_no_spawn. reflexivity.
  - fold w. unfold w. rewrite run_app. simpl. apply step_tick_now.
Qed.

(* ================= refutations ================= *)

Definition blocked_forever (w : world) (i : nat) : Prop :=
  returned (nth i (procs (run w [(ETick far, 0%nat)])) dummy) = false.

(* former F5 (repaired, 9b8bda8): a request issued after Close.  With the former waitUntil it never
   returns without a deadline although the status is Closed from the start, and with a deadline
   returns only at the deadline, with the context error; the code as it is returns the
   connection-closed error at once, deadline or not *)
Lemma F5_former_refuted :
  blocked_forever (init 60 [FStClosed; FWClosed] [connRequest_F5 2 None 1]) 0 /\
  (let p := nth 0 (procs (run (init 60 [FStClosed; FWClosed] [connRequest_F5 2 (Some 300) 1]) [(ETick 300, 0%nat)])) dummy in
   result p = OCtx /\ ret_at p = Some 300) /\
  (let p := nth 0 (procs (init 60 [FStClosed; FWClosed] [connRequest 2 None 1])) dummy in
   result p = OConnClosed /\ ret_at p = Some 0).
Proof. vm_compute. repeat split; reflexivity. Qed.

(* former F13 (repaired, 611d2de): after an ack timeout the waiter entry was still registered and
   nobody received; the late result made processResult wait with the stream lock held; State()
   and Upstream.Close behind it never returned.  The code as it is: everybody returns at once *)
Lemma F13_former_refuted :
  lwf fast_lock None processResult_F13 = false /\ wf 300 None processResult_F13 = false /\
  blocked_forever (init 60 [FStConnected; FWaiterEntry] [processResult_F13; upState]) 1 /\
  blocked_forever (init 60 [FStConnected; FWaiterEntry; FFlushReady] [processResult_F13; upClose (Some 300) 200 1]) 1 /\
  (let w := init 60 [FStConnected; FWaiterEntry] [processResult; upState] in
   forallb returned (procs w) = true).
Proof. vm_compute. repeat split; reflexivity. Qed.

(* former F6 (repaired, 900bd4c): metadata for a subscribed stream alias from a source node that
   is not subscribed: the dispatcher step returned with the read lock held; the next writer of the
   table (here Downstream.Close after its request was ANSWERED) never returned.  As it is: fine *)
Lemma F6_former_refuted :
  lwf fast_lock None dispatchMeta_F6 = false /\
  (let w := init 60 [FStConnected; FAliasSub; FFinalAck; FReply 1] [dispatchMeta_F6; downClose (Some 300) 1] in
   held (nth 0 (procs w) dummy) = Some (LDmu, LR) /\ returned (nth 0 (procs w) dummy) = true /\ blocked_forever w 1) /\
  (let w := init 60 [FStConnected; FAliasSub; FFinalAck; FReply 1] [dispatchMeta; downClose (Some 300) 1] in
   forallb returned (procs w) = true).
Proof. vm_compute. repeat split; reflexivity. Qed.

(* Conn.Close does not watch its context: it waits for wireConnMu, which SendMetadata /
   OpenUpstream hold for their whole round trip.  With a request of another goroutine in flight
   whose reply the broker withholds, Close returns only when THAT request's context ends - never,
   if it has no deadline (the link is alive, pings are answered) *)
Lemma conn_close_refuted :
  blocked_forever (init 60 [FStConnected] [connRequest 2 None 1; connClose]) 1 /\
  (let p := nth 1 (procs (run (init 60 [FStConnected] [connRequest 2 (Some 3000) 1; connClose])
                               [(ETick 100, 0%nat); (ETick 3000, 0%nat)])) dummy in
   result p = ONil /\ ret_at p = Some 3000).
Proof. vm_compute. repeat split; reflexivity. Qed.

(* F7 (repaired in /repo; kept as a regression guard): the old drain loop has no clock guard *)
Lemma F7_old_refuted :
  wf 300 None (upClose_F7 (Some 300) 200 1) = false /\
  blocked_forever (init 60 [FStConnected; FFlushReady; FFlushRes; FReply 1] [upClose_F7 (Some 300) 200 1]) 0 /\
  (let p := nth 0 (procs (run (init 60 [FStConnected; FFlushReady; FFlushRes; FReply 1] [upClose (Some 300) 200 1])
                               [(ETick 200, 0%nat)])) dummy in
   result p = ONil /\ ret_at p = Some 200).
Proof. vm_compute. repeat split; reflexivity. Qed.

(* ================= Conn.Close against the redial loop (wireConnMu) ================= *)

(* a process that has returned stays returned, whatever happens next *)
Lemma enabled_not_returned w p : enabled w p = true -> returned p = false.
Proof. unfold enabled, returned. destruct (code p); intros H; try reflexivity; discriminate H. Qed.

Lemma settle_returned fuel c w i : (i < List.length (procs w))%nat ->
  returned (nth i (procs w) dummy) = true -> returned (nth i (procs (settle fuel c w)) dummy) = true.
Proof.
  revert w; induction fuel; intros w Hi H; simpl; auto.
  destruct (find_enabled w (procs w) 0) eqn:F; auto.
  apply find_enabled_some in F. destruct F as (_ & F2 & F3). rewrite Nat.sub_0_r in *.
  apply IHfuel.
  - unfold fire_at. simpl. rewrite set_nth_length. exact Hi.
  - unfold fire_at. simpl. destruct (Nat.eq_dec n i) as [->|Hne].
    + apply enabled_not_returned in F3. rewrite H in F3. discriminate F3.
    + rewrite nth_set_nth_neq by exact Hne. exact H.
Qed.

Lemma apply_event_procs e w i : (i < List.length (procs w))%nat ->
  nth i (procs (apply_event e w)) dummy = nth i (procs w) dummy /\ (i < List.length (procs (apply_event e w)))%nat.
Proof.
  intros Hi. destruct e; simpl; auto. split; [apply app_nth1; exact Hi|rewrite app_length; simpl; lia].
Qed.

Lemma step_returned w ec i : (i < List.length (procs w))%nat ->
  returned (nth i (procs w) dummy) = true ->
  returned (nth i (procs (step w ec)) dummy) = true /\ (i < List.length (procs (step w ec)))%nat.
Proof.
  intros Hi H. unfold step. destruct (apply_event_procs (fst ec) w i Hi) as [E L]. split.
  - apply settle_returned; [exact L|rewrite E; exact H].
  - rewrite settle_length. exact L.
Qed.

Lemma run_returned evs : forall w i, (i < List.length (procs w))%nat ->
  returned (nth i (procs w) dummy) = true -> returned (nth i (procs (run w evs)) dummy) = true.
Proof.
  induction evs; simpl; intros w i Hi H; auto.
  destruct (step_returned w a i Hi H) as [H' L]. apply IHevs; auto.
Qed.

(* every subset of the flags the two processes look at or set *)
Fixpoint powerset {A} (l : list A) : list (list A) :=
  match l with
  | [] => [[]]
  | x :: r => let ps := powerset r in ps ++ map (cons x) ps
  end.
Definition outage_flags : list flag := [FStConnected; FStReconnecting; FStClosed; FWClosed; FDialOk].

(* Conn.Close during an outage: for EVERY initial valuation of the status / wire / dial flags,
   with the redial loop holding wireConnMu, both the loop and Close have returned as soon as the
   system settles - because Close publishes Closed BEFORE it asks for wireConnMu, which is the
   loop's exit condition - ... *)
Lemma close_during_outage_init :
  forallb (fun fs => forallb returned (procs (init 60 fs [reconnectHold; connClose]))) (powerset outage_flags) = true.
Proof. vm_compute. reflexivity. Qed.

(* ... and stay returned under every later event list *)
Lemma close_during_outage fs evs : In fs (powerset outage_flags) ->
  let w := run (init 60 fs [reconnectHold; connClose]) evs in
  returned (nth 0 (procs w) dummy) = true /\ returned (nth 1 (procs w) dummy) = true.
Proof.
  intros Hin w. pose proof close_during_outage_init as H. rewrite forallb_forall in H. specialize (H fs Hin).
  assert (List.length (procs (init 60 fs [reconnectHold; connClose])) = 2%nat) as L.
  { unfold init. rewrite settle_length. reflexivity. }
  rewrite forallb_forall in H. split; apply run_returned; try (rewrite L; lia); apply H; apply nth_In; rewrite L; lia.
Qed.

(* the other order (wireConnMu first, then the status swap): while the redials fail Close never
   returns, whatever the clock says; it returns only if a dial succeeds *)
Lemma close_lockfirst_refuted :
  blocked_forever (init 60 [FStConnected] [reconnectHold; connClose_lockfirst]) 1 /\
  blocked_forever (init 60 [FStReconnecting; FWClosed] [reconnectHold; connClose_lockfirst]) 1 /\
  forallb returned (procs (run (init 60 [FStConnected] [reconnectHold; connClose_lockfirst]) [(ESet FDialOk true, 0%nat)])) = true /\
  lwf fast_lock None reconnectHold = true /\ lwf fast_lock None connClose_lockfirst = true.
Proof. vm_compute. repeat split; reflexivity. Qed.

(* Upstream.Close whose deadlines expire while the drain loop is inside sent.List (until tL):
   bounded by max(ctx, tL) *)
Lemma wf_upClose_slow D d cto tL id : d <= D -> tL <= D -> wf D None (upClose_slow (Some d) cto tL id) = true.
Proof.
  intros Hd Ht. unfold upClose_slow. cbn [wf]. apply wf_upFlush; auto. intros _.
  pose proof (wf_upCloseRequest D d id Hd) as H. cbn [wf tg time_le]. rewrite !H. simpl.
  assert (d <=? D = true) as -> by (apply N.leb_le; exact Hd).
  assert (tL <=? D = true) as -> by (apply N.leb_le; exact Ht). reflexivity.
Qed.

(* ================= the explicit-flush handshake ================= *)

(* every resolution of the selects (c ranges over all residues mod 2 and mod 3), every deadline
   situation of the caller - context already done (Some 0), done later, none - and every consistent
   valuation of the stream / run contexts (the run context is derived from the stream context) *)
Definition flush_ctxs : list (option N) := [Some 0; Some 300; None].
Definition flush_flagsets : list (list flag) := [[]; [FRunCtx]; [FSctx; FRunCtx]].

(* the loop is back at its select (or has ended with its run context) *)
Definition loop_idle (p : pst) : bool :=
  match code p with
  | Ret _ => true
  | Alt (GFlag f) _ _ => N.eqb f FHanded
  | _ => false
  end.

(* after any one Flush call the flush loop is back at its select, and a caller with a deadline has
   returned once the deadline has passed *)
Lemma flush_handshake_returns :
  forallb (fun fs => forallb (fun ctx => forallb (fun c =>
     let w := run (init 60 fs [flushServe]) [(ESpawn (upFlushCaller ctx), c); (ETick 300, c)] in
     loop_idle (nth 0 (procs w) dummy) &&
     (returned (nth 1 (procs w) dummy) || match ctx with None => true | Some _ => false end))
     (seq 0 6)) flush_ctxs) flush_flagsets = true.
Proof. vm_compute. reflexivity. Qed.

(* the window: u.flush inside the loop's turn takes time (stream lock, sent-storage Store) - here
   the stream lock is held by somebody until flag 99 - and the caller's context ends meanwhile *)
Definition lockHolder : proc := Acq LUmu LW (Alt (GFlag 99) (Rel LUmu (Ret ONil)) Block).
Definition window_events (ctx : option N) (c : nat) : list (event * nat) :=
  [(ESpawn (upFlushCaller ctx), c); (ETick 300, c); (ESet 99 true, c)].

Lemma flush_handshake_window :
  forallb (fun fs => forallb (fun ctx => forallb (fun c =>
     let w := run (init 60 fs [lockHolder; flushServe]) (window_events ctx c) in
     loop_idle (nth 1 (procs w) dummy) &&
     (returned (nth 2 (procs w) dummy) || match ctx with None => true | Some _ => false end))
     (seq 0 6)) flush_ctxs) flush_flagsets = true.
Proof. vm_compute. reflexivity. Qed.

(* without the remoteDone arm: the caller hands its request over, its context ends while the loop
   is still inside u.flush, it leaves; the loop then offers the result for ever (never idle again),
   and the stream is wedged: the loop no longer takes writes or flushes *)
Lemma flush_noRemoteDone_refuted :
  (let w := run (init 60 [] [lockHolder; flushServe_noRemoteDone]) (window_events (Some 100) 0 ++ [(ETick far, 0%nat)]) in
   loop_idle (nth 1 (procs w) dummy) = false /\ result (nth 2 (procs w) dummy) = OCtx /\
   fl_mem FFlushReady (flags w) = false) /\
  (let w := run (init 60 [] [lockHolder; flushServe]) (window_events (Some 100) 0 ++ [(ETick far, 0%nat)]) in
   loop_idle (nth 1 (procs w) dummy) = true /\ result (nth 2 (procs w) dummy) = OCtx).
Proof. vm_compute. repeat split; reflexivity. Qed.

(* ================= the dispatch goroutine and the call inbox ================= *)

(* 1100 uncollected calls, then the reply of a pending request: as it is the reply is delivered
   at once; with a wait for room in the inbox the dispatcher stops behind the first call that does
   not fit and the request (answered by the broker!) runs into its deadline *)
Fixpoint flood (callK : proc -> proc) (n : nat) (k : proc) : proc :=
  match n with O => k | S n' => callK (flood callK n' k) end.

Lemma call_inbox_flood :
  (let w := run (init 60 [FStConnected] [connRequest 2 (Some 300) 1; flood dispatchCallK 1100 (dispatchReplyK 1 (Ret ONil))]) [(ETick 300, 0%nat)] in
   map result (procs w) = [ONil; ONil] /\ map ret_at (procs w) = [Some 0; Some 0]) /\
  (let w := run (init 60 [FStConnected] [connRequest 2 (Some 300) 1; flood dispatchCallK_wait 10 (dispatchReplyK 1 (Ret ONil))]) [(ETick 300, 0%nat); (ETick far, 0%nat)] in
   result (nth 0 (procs w) dummy) = OCtx /\ returned (nth 1 (procs w) dummy) = false) /\
  nowait fast_lock (flood dispatchCallK 1100 (dispatchReplyK 1 (Ret ONil))) = true /\
  nowait fast_lock (dispatchCallK_wait (Ret ONil)) = false.
Proof. vm_compute. repeat split; reflexivity. Qed.

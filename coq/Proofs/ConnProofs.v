(* Lemmas about Model/Conn.v: status machine, run loop, send() wrapper, stream supervisors, Close. *)
From Coq Require Import List NArith Bool Arith Lia ZifyN ZifyNat ZifyBool.
From Iscp Require Import Model.Conn.
Import ListNotations.
Open Scope N_scope.

(* ------------------------------------------------------------------------------------------ *)
(* generic *)

Lemma run_cons : forall c e evs,
  run c (e :: evs) = (fst (run (fst (step c e)) evs), snd (step c e) ++ snd (run (fst (step c e)) evs)).
Proof. reflexivity. Qed.

Lemma run_app : forall a b c,
  run c (a ++ b) = (fst (run (fst (run c a)) b), snd (run c a) ++ snd (run (fst (run c a)) b)).
Proof.
  induction a as [|e a IH]; intros b c.
  - simpl. destruct (run c b); reflexivity.
  - rewrite <- app_comm_cons. rewrite !run_cons. rewrite IH. cbn [fst snd]. rewrite app_assoc. reflexivity.
Qed.

Lemma cs_eqb_eq : forall a b, cs_eqb a b = true <-> a = b.
Proof. destruct a, b; simpl; split; intro H; try reflexivity; try discriminate. Qed.

Ltac dm :=
  repeat match goal with
         | |- context [match ?x with _ => _ end] => destruct x eqn:?
         end.

(* innermost scrutinee first, so that no scrutinee is abstracted while it still contains a match *)
Ltac dmi :=
  repeat match goal with
         | |- context [match ?x with _ => _ end] =>
             lazymatch x with
             | context [match _ with _ => _ end] => fail
             | _ => destruct x eqn:?
             end
         end.

Ltac unf :=
  unfold step, loop_step, dial_step, watch_step, sup_step, resume_resp_step, start_step, wake_step, resp_step,
    fail_step, ctx_step, write_step, stream_close_step, stream_close_resp_step, close_call_step, close_disc_step, close_wire_step,
    st_cas, st_cas_not, st_swap, wait_until, closed_hooker, is_closed, writable,
    set_status, set_up, set_wclosed, set_loop, set_counts, set_streams, set_reqs, set_close, set_wire in *.

(* the configuration never changes *)
Lemma cfg_step : forall c e, c_cfg (fst (step c e)) = c_cfg c.
Proof. intros c e. destruct e; unf; dmi; reflexivity. Qed.
Lemma cfg_run : forall evs c, c_cfg (fst (run c evs)) = c_cfg c.
Proof. induction evs as [|e evs IH]; intro c; [reflexivity|]. rewrite run_cons. cbn [fst]. rewrite IH. apply cfg_step. Qed.

(* ------------------------------------------------------------------------------------------ *)
(* frame: every event except the run loop's own two (ELoop, EDial) leaves the loop phase and the
   token / dial counters alone and emits neither handshakes nor connection events nor a panic *)

Definition nreconn (o : list out) : nat := length (filter (fun x => match x with OReconnected => true | _ => false end) o).
Definition ndisc (o : list out) : nat := length (filter (fun x => match x with ODisconnected => true | _ => false end) o).

Definition loop_event (e : ev) : bool := match e with ELoop | EDial _ => true | _ => false end.
Definition plain_out (x : out) : bool :=
  match x with OToken _ | OConnect _ _ | ODisconnected | OReconnected | OPanic => false | _ => true end.

Lemma frame_step : forall c e, loop_event e = false ->
  (c_loop (fst (step c e)), c_tokens (fst (step c e)), c_dials (fst (step c e)), forallb plain_out (snd (step c e)))
  = (c_loop c, c_tokens c, c_dials c, true).
Proof. intros c e H. destruct e; try discriminate; unf; cbn; dmi; cbn; congruence. Qed.

Lemma plain_outs : forall o, forallb plain_out o = true ->
  connects_of o = [] /\ tokens_of o = [] /\ ndisc o = 0%nat /\ nreconn o = 0%nat /\ has_panic o = false.
Proof.
  induction o as [|x o IH]; intro H; [cbn; auto|].
  cbn in H. apply andb_prop in H. destruct H as [Hx Ho]. destruct (IH Ho) as (A & B & C & D & E).
  unfold connects_of, tokens_of, ndisc, nreconn, has_panic in *. destruct x; try discriminate; cbn; auto.
Qed.

Lemma loop_event_cases : forall e, loop_event e = true -> e = ELoop \/ exists ok, e = EDial ok.
Proof. destruct e; try discriminate; eauto. Qed.

(* ------------------------------------------------------------------------------------------ *)
(* C05: one Token() call per dial attempt, attempt k carries token k *)

Lemma iota_pairs_app : forall n m k, iota_pairs (n + m) k = iota_pairs n k ++ iota_pairs m (k + N.of_nat n).
Proof.
  induction n as [|n IH]; intros m k.
  - cbn [plus iota_pairs app N.of_nat]. rewrite N.add_0_r. reflexivity.
  - cbn [plus iota_pairs app]. rewrite IH. rewrite Nat2N.inj_succ.
    replace (k + N.succ (N.of_nat n)) with (k + 1 + N.of_nat n) by lia. reflexivity.
Qed.

Lemma connects_app : forall a b, connects_of (a ++ b) = connects_of a ++ connects_of b.
Proof. intros. unfold connects_of. rewrite map_app, concat_app. reflexivity. Qed.
Lemma tokens_app : forall a b, tokens_of (a ++ b) = tokens_of a ++ tokens_of b.
Proof. intros. unfold tokens_of. rewrite map_app, concat_app. reflexivity. Qed.

Lemma step_tokens_loop_events : forall c e, loop_event e = true ->
  (connects_of (snd (step c e)) = [] /\ tokens_of (snd (step c e)) = [] /\
   c_tokens (fst (step c e)) = c_tokens c /\ c_dials (fst (step c e)) = c_dials c)
  \/
  (connects_of (snd (step c e)) = [(c_dials c, c_tokens c)] /\ tokens_of (snd (step c e)) = [c_tokens c] /\
   c_tokens (fst (step c e)) = c_tokens c + 1 /\ c_dials (fst (step c e)) = c_dials c + 1).
Proof.
  intros c e L. destruct (loop_event_cases e L) as [->|[ok ->]]; cbn [step].
  - unfold loop_step, st_cas_not; destruct (c_loop c); [|left; cbn; auto ..];
    destruct (is_closed c); [left; cbn; auto|];
    destruct (cs_eqb (c_status c) Reconnecting || c_wclosed c); [|left; cbn; auto];
    destruct (cs_eqb (c_status c) Closed); left; cbn; auto.
  - unfold dial_step, st_cas; destruct (c_loop c); [left; cbn; auto| |left; cbn; auto ..];
    destruct ok; [destruct (cs_eqb (c_status c) Reconnecting); [|destruct (fix_f10 (c_cfg c))]|destruct (is_closed c)];
    right; cbn; auto.
Qed.

Lemma step_tokens : forall c e,
  (connects_of (snd (step c e)) = [] /\ tokens_of (snd (step c e)) = [] /\
   c_tokens (fst (step c e)) = c_tokens c /\ c_dials (fst (step c e)) = c_dials c)
  \/
  (connects_of (snd (step c e)) = [(c_dials c, c_tokens c)] /\ tokens_of (snd (step c e)) = [c_tokens c] /\
   c_tokens (fst (step c e)) = c_tokens c + 1 /\ c_dials (fst (step c e)) = c_dials c + 1).
Proof.
  intros c e. destruct (loop_event e) eqn:L.
  - apply step_tokens_loop_events, L.
  - pose proof (frame_step c e L) as F. injection F as F1 F2 F3 F4.
    destruct (plain_outs _ F4) as (A & B & _). left. rewrite A, B, F2, F3. auto.
Qed.

Lemma run_tokens : forall evs c, c_tokens c = c_dials c ->
  let r := run c evs in
  connects_of (snd r) = iota_pairs (length (connects_of (snd r))) (c_tokens c) /\
  tokens_of (snd r) = map fst (connects_of (snd r)) /\
  c_tokens (fst r) = c_tokens c + N.of_nat (length (connects_of (snd r))) /\
  c_dials (fst r) = c_tokens (fst r).
Proof.
  induction evs as [|e evs IH]; intros c Heq; cbn zeta.
  - cbn. repeat split; try lia; auto.
  - rewrite run_cons. cbn [fst snd]. rewrite connects_app, tokens_app, app_length, map_app.
    destruct (step_tokens c e) as [(H1 & H2 & H3 & H4) | (H1 & H2 & H3 & H4)].
    + assert (Heq' : c_tokens (fst (step c e)) = c_dials (fst (step c e))) by congruence.
      specialize (IH _ Heq'). cbn zeta in IH. destruct IH as (I1 & I2 & I3 & I4).
      rewrite H1, H2. cbn [app length plus map]. rewrite <- H3. repeat split; auto.
    + assert (Heq' : c_tokens (fst (step c e)) = c_dials (fst (step c e))) by congruence.
      specialize (IH _ Heq'). cbn zeta in IH. destruct IH as (I1 & I2 & I3 & I4).
      rewrite H1, H2. cbn [app length plus map fst iota_pairs]. rewrite <- Heq.
      repeat split; auto.
      * f_equal. rewrite I1 at 1. rewrite H3. reflexivity.
      * f_equal. exact I2.
      * rewrite I3, H3. lia.
Qed.

(* ------------------------------------------------------------------------------------------ *)
(* list helpers for streams *)

Lemma find_upd_same : forall l i f s, (forall s, s_id (f s) = s_id s) ->
  find_s i l = Some s -> find_s i (upd_s i f l) = Some (f s).
Proof.
  induction l as [|x l IH]; intros i f s Hf H; [discriminate|].
  cbn in *. destruct (s_id x =? i) eqn:E.
  - inversion H; subst. cbn. rewrite Hf, E. reflexivity.
  - cbn. rewrite E. auto.
Qed.
Lemma find_upd_none : forall l i f, find_s i l = None -> upd_s i f l = l.
Proof.
  induction l as [|x l IH]; intros i f H; [reflexivity|].
  cbn in *. destruct (s_id x =? i); [discriminate|]. f_equal. auto.
Qed.
Lemma find_upd_other : forall l i j f, (forall s, s_id (f s) = s_id s) -> i <> j ->
  find_s j (upd_s i f l) = find_s j l.
Proof.
  induction l as [|x l IH]; intros i j f Hf Hne; [reflexivity|].
  cbn. destruct (s_id x =? i) eqn:E.
  - cbn. rewrite Hf. apply N.eqb_eq in E. rewrite E.
    destruct (i =? j) eqn:E2; [apply N.eqb_eq in E2; contradiction|reflexivity].
  - cbn. destruct (s_id x =? j); auto.
Qed.
Lemma find_app_some : forall l l' i s, find_s i l = Some s -> find_s i (l ++ l') = Some s.
Proof.
  induction l as [|x l IH]; intros l' i s H; [discriminate|].
  cbn in *. destruct (s_id x =? i); auto.
Qed.
Lemma find_s_in : forall l i s, find_s i l = Some s -> In s l /\ s_id s = i.
Proof.
  induction l as [|x l IH]; intros i s H; [discriminate|].
  cbn in H. destruct (s_id x =? i) eqn:E.
  - inversion H; subst. split; [left; reflexivity|apply N.eqb_eq; exact E].
  - destruct (IH _ _ H). split; [right|]; auto.
Qed.

Lemma Forall_upd : forall (P : stream -> Prop) l i f,
  Forall P l -> (forall s, In s l -> P s -> P (f s)) -> Forall P (upd_s i f l).
Proof.
  induction l as [|x l IH]; intros i f H Hf; [constructor|].
  inversion H; subst. cbn. destruct (s_id x =? i).
  - constructor; [apply Hf; [left; reflexivity|assumption]|assumption].
  - constructor; [assumption|]. apply IH; [assumption|]. intros s Hin. apply Hf. right; assumption.
Qed.



(* ------------------------------------------------------------------------------------------ *)
(* C10: Closed is absorbing; reconnect refuses; no Connected, no event, no dial afterwards *)

Lemma closed_step : forall c e, c_status c = Closed -> c_status (fst (step c e)) = Closed.
Proof. intros c e H. destruct e; unf; rewrite ?H; cbn; dmi; cbn; auto. Qed.

Lemma closed_run : forall evs c, c_status c = Closed -> c_status (fst (run c evs)) = Closed.
Proof. induction evs as [|e evs IH]; intros c H; [exact H|]. rewrite run_cons. cbn [fst]. apply IH, closed_step, H. Qed.

Lemma close_call_closes : forall c, c_status (fst (step c ECloseCall)) = Closed.
Proof. intro c. unf. cbn. dm; reflexivity. Qed.

Lemma closed_after_close_call : forall pre post c,
  c_status (fst (run c (pre ++ ECloseCall :: post))) = Closed.
Proof.
  intros. rewrite run_app. cbn [fst]. rewrite run_cons. cbn [fst]. apply closed_run, close_call_closes.
Qed.

Lemma nreconn_app : forall a b, nreconn (a ++ b) = (nreconn a + nreconn b)%nat.
Proof. intros. unfold nreconn. rewrite filter_app, app_length. reflexivity. Qed.
Lemma ndisc_app : forall a b, ndisc (a ++ b) = (ndisc a + ndisc b)%nat.
Proof. intros. unfold ndisc. rewrite filter_app, app_length. reflexivity. Qed.
Lemma has_panic_app : forall a b, has_panic (a ++ b) = has_panic a || has_panic b.
Proof. intros. unfold has_panic. apply existsb_app. Qed.

(* once Closed: never Reconnected again, whatever the loop was doing *)
Lemma closed_step_noreconn : forall c e, c_status c = Closed -> nreconn (snd (step c e)) = 0%nat.
Proof. intros c e H. destruct e; unf; rewrite ?H; cbn; dmi; cbn; auto. Qed.

Lemma closed_run_noreconn : forall evs c, c_status c = Closed -> nreconn (snd (run c evs)) = 0%nat.
Proof.
  induction evs as [|e evs IH]; intros c H; [reflexivity|].
  rewrite run_cons. cbn [snd]. rewrite nreconn_app, closed_step_noreconn by exact H.
  rewrite IH; [reflexivity|]. apply closed_step, H.
Qed.

(* reconnect refuses: Closed and not inside reconnect() => no token, no dial, no panic, ever *)
Definition quiet_loop (c : conn) : Prop := c_status c = Closed /\ c_loop c <> LDial.

Lemma quiet_step : forall c e, quiet_loop c ->
  quiet_loop (fst (step c e)) /\ connects_of (snd (step c e)) = [] /\ tokens_of (snd (step c e)) = [] /\
  has_panic (snd (step c e)) = false.
Proof.
  intros c e [H L]. unfold quiet_loop.
  destruct e; unf; rewrite ?H; cbn; dmi; cbn; repeat split; auto; try congruence.
Qed.

Lemma quiet_run : forall evs c, quiet_loop c ->
  quiet_loop (fst (run c evs)) /\ connects_of (snd (run c evs)) = [] /\ tokens_of (snd (run c evs)) = [] /\
  has_panic (snd (run c evs)) = false.
Proof.
  induction evs as [|e evs IH]; intros c Q; [cbn; auto|].
  rewrite run_cons. cbn [fst snd]. destruct (quiet_step c e Q) as (Q1 & A & B & C).
  destruct (IH _ Q1) as (Q2 & A2 & B2 & C2).
  rewrite connects_app, tokens_app, has_panic_app, A, B, C, A2, B2, C2. auto.
Qed.

(* F10 (FORMER code, before b47e52f): a Close that arrives while reconnect() is dialling *)
Lemma close_while_dialling_panics :
  has_panic (snd (run (init former) [ELinkDown; EDetect; ELoop; ECloseCall; EDial true])) = true.
Proof. vm_compute. reflexivity. Qed.

Lemma no_panic_step : forall c e, fix_f10 (c_cfg c) = true -> has_panic (snd (step c e)) = false.
Proof. intros c e H. destruct e; unf; rewrite ?H; cbn; dmi; cbn; auto. Qed.
Lemma no_panic_run : forall evs c, fix_f10 (c_cfg c) = true -> has_panic (snd (run c evs)) = false.
Proof.
  induction evs as [|e evs IH]; intros c H; [reflexivity|].
  rewrite run_cons. cbn [snd]. rewrite has_panic_app, no_panic_step by exact H.
  apply IH. rewrite cfg_step. exact H.
Qed.

(* at most one dial attempt is still made after Close (the one retry.Do had not yet checked) *)
Lemma closed_dial_budget : forall evs c, c_status c = Closed ->
  (length (connects_of (snd (run c evs))) <= 1)%nat.
Proof.
  induction evs as [|e evs IH]; intros c H; [cbn; lia|].
  rewrite run_cons. cbn [snd]. rewrite connects_app, app_length.
  destruct (c_loop c) eqn:L.
  - (* LRun *) assert (Q : quiet_loop c) by (split; [exact H|congruence]).
    destruct (quiet_step c e Q) as (Q1 & A & _). destruct (quiet_run evs _ Q1) as (_ & A2 & _).
    rewrite A, A2. cbn. lia.
  - (* LDial: either this step is the attempt (then the loop has left reconnect), or nothing happened *)
    assert (S : (connects_of (snd (step c e)) = [] /\ c_status (fst (step c e)) = Closed) \/
                (length (connects_of (snd (step c e))) = 1%nat /\ quiet_loop (fst (step c e)))).
    { unfold quiet_loop. destruct e; unf; rewrite ?H, ?L; cbn; dmi; cbn; auto; right; repeat split; auto; congruence. }
    destruct S as [[A B] | [A Q]].
    + rewrite A. cbn. apply IH, B.
    + destruct (quiet_run evs _ Q) as (_ & A2 & _). rewrite A, A2. cbn. lia.
  - assert (Q : quiet_loop c) by (split; [exact H|congruence]).
    destruct (quiet_step c e Q) as (Q1 & A & _). destruct (quiet_run evs _ Q1) as (_ & A2 & _).
    rewrite A, A2. cbn. lia.
  - assert (Q : quiet_loop c) by (split; [exact H|congruence]).
    destruct (quiet_step c e Q) as (Q1 & A & _). destruct (quiet_run evs _ Q1) as (_ & A2 & _).
    rewrite A, A2. cbn. lia.
Qed.



(* ------------------------------------------------------------------------------------------ *)
(* C05 / C10: Disconnected and Reconnected alternate, tied to the run loop's phase *)

Definition ev_inv (c : conn) (d r : nat) : Prop :=
  match c_loop c with
  | LRun => d = r
  | LDial => d = S r
  | _ => d = r \/ d = S r
  end.

Lemma ev_step : forall c e d r, ev_inv c d r ->
  ev_inv (fst (step c e)) (d + ndisc (snd (step c e))) (r + nreconn (snd (step c e))).
Proof.
  intros c e d r. destruct (loop_event e) eqn:L.
  - unfold ev_inv. destruct (loop_event_cases e L) as [->|[ok ->]]; unf; cbn; dmi; cbn in *; intros; try congruence; try lia.
  - pose proof (frame_step c e L) as F. injection F as F1 F2 F3 F4. destruct (plain_outs _ F4) as (_ & _ & C & D & _).
    unfold ev_inv. rewrite F1, C, D, <- !plus_n_O. auto.
Qed.

Lemma ev_run : forall evs c d r, ev_inv c d r ->
  ev_inv (fst (run c evs)) (d + ndisc (snd (run c evs))) (r + nreconn (snd (run c evs))).
Proof.
  induction evs as [|e evs IH]; intros c d r H.
  - cbn. rewrite <- !plus_n_O. exact H.
  - rewrite run_cons. cbn [fst snd]. rewrite ndisc_app, nreconn_app, !Nat.add_assoc. apply IH, ev_step, H.
Qed.

Lemma events_alternate : forall f evs,
  let o := snd (run (init f) evs) in
  (nreconn o <= ndisc o <= S (nreconn o))%nat /\
  (c_loop (fst (run (init f) evs)) = LRun -> ndisc o = nreconn o) /\
  (c_loop (fst (run (init f) evs)) = LDial -> ndisc o = S (nreconn o)).
Proof.
  intros f evs o. assert (H := ev_run evs (init f) 0 0 eq_refl). cbn [plus] in H. fold o in H.
  unfold ev_inv in H. destruct (c_loop (fst (run (init f) evs))); repeat split; intros; try discriminate; lia.
Qed.

(* after Close: at most one more Disconnected *)
Definition dbudget (c : conn) : nat := match c_loop c with LRun => 1 | _ => 0 end.
Lemma closed_disc_step : forall c e, c_status c = Closed ->
  (ndisc (snd (step c e)) + dbudget (fst (step c e)) <= dbudget c)%nat.
Proof.
  intros c e H. unfold dbudget. destruct e; unf; rewrite ?H; cbn; dmi; cbn in *; try congruence; try lia.
Qed.
Lemma closed_disc_run : forall evs c, c_status c = Closed -> (ndisc (snd (run c evs)) <= dbudget c)%nat.
Proof.
  induction evs as [|e evs IH]; intros c H; [cbn; lia|].
  rewrite run_cons. cbn [snd]. rewrite ndisc_app.
  pose proof (closed_disc_step c e H). pose proof (IH _ (closed_step c e H)). lia.
Qed.
Lemma dbudget_le1 : forall c, (dbudget c <= 1)%nat.
Proof. intro c. unfold dbudget. destruct (c_loop c); lia. Qed.

(* ------------------------------------------------------------------------------------------ *)
(* C05: requests go through send(): never a connection error while the user has not closed *)

Definition is_connclosed_ret (x : out) : bool := match x with ORet _ RConnClosed => true | _ => false end.
Definition no_close_call (evs : list ev) : Prop := ~ In ECloseCall evs.

Lemma open_step : forall c e, c_status c <> Closed -> e <> ECloseCall ->
  c_status (fst (step c e)) <> Closed /\ filter is_connclosed_ret (snd (step c e)) = [].
Proof.
  intros c e H Hne. destruct e; try congruence; unf; destruct (c_status c) eqn:S; try congruence; cbn; dmi; cbn in *; split; auto; try congruence.
  all: match goal with H : _ && false = true |- _ => rewrite andb_false_r in H; discriminate end.
Qed.

Lemma open_run : forall evs c, c_status c <> Closed -> no_close_call evs ->
  c_status (fst (run c evs)) <> Closed /\ filter is_connclosed_ret (snd (run c evs)) = [].
Proof.
  induction evs as [|e evs IH]; intros c H N; [cbn; auto|].
  rewrite run_cons. cbn [fst snd]. rewrite filter_app.
  assert (Hne : e <> ECloseCall) by (intro; subst; apply N; left; reflexivity).
  destruct (open_step c e H Hne) as [H1 F1].
  assert (N' : no_close_call evs) by (intro X; apply N; right; exact X).
  destruct (IH _ H1 N') as [H2 F2]. rewrite F1, F2. auto.
Qed.

(* a request waiting in send() is written again as soon as the connection is back *)
Lemma request_rewritten : forall c k q, find_q k (c_reqs c) = Some q -> q_phase q = QWait ->
  c_status c = Connected -> writable c = true ->
  snd (step c (EWake k)) = [OReq (c_gen c) k (q_kind q)].
Proof. intros c k q F P S W. cbn. unfold wake_step, is_closed. rewrite F, P, S. cbn. rewrite W. reflexivity. Qed.

(* a request whose exchange was cut goes back to waiting: neither returned nor dropped *)
Lemma find_updq_same : forall l k f q, (forall q, q_id (f q) = q_id q) ->
  find_q k l = Some q -> find_q k (upd_q k f l) = Some (f q).
Proof.
  induction l as [|x l IH]; intros k f q Hf H; [discriminate|].
  cbn in *. destruct (q_id x =? k) eqn:E.
  - inversion H; subst. cbn. rewrite Hf, E. reflexivity.
  - cbn. rewrite E. auto.
Qed.

Lemma request_cut_waits_again : forall c k q g, find_q k (c_reqs c) = Some q -> q_phase q = QFlight g ->
  c_status c <> Closed -> (g <> c_gen c \/ c_wclosed c = true) ->
  snd (step c (EFail k)) = [] /\
  exists q', find_q k (c_reqs (fst (step c (EFail k)))) = Some q' /\ q_phase q' = QWait /\ q_kind q' = q_kind q /\
  c_status (fst (step c (EFail k))) = Reconnecting.
Proof.
  intros c k q g F P S D. cbn. unfold fail_step. rewrite F, P.
  assert (X : negb (g =? c_gen c) || c_wclosed c = true).
  { destruct D as [D|D]; [apply N.eqb_neq in D; rewrite D; reflexivity|rewrite D; apply orb_true_r]. }
  rewrite X. unfold st_cas_not. destruct (c_status c) eqn:E; try congruence; cbn; split; auto;
    eexists; (split; [apply find_updq_same; [reflexivity|exact F]|cbn; auto]).
Qed.

(* ------------------------------------------------------------------------------------------ *)
(* C10: after-close API matrix *)

Definition conn_level (a : api) : bool :=
  match a with AOpenUp | AOpenDown | AMeta | ACall | AReplyCall | ACallWait | ARecvCall | ARecvReply => true | _ => false end.

Lemma matrix_repaired : forall c a, c_status c = Closed -> fix_f5 (c_cfg c) = true -> ctx_first (c_cfg c) = false ->
  conn_level a = true -> conn_api c a = RConnClosed.
Proof.
  intros c a H F X L. destruct a; try discriminate; unfold conn_api, send_entry, wait_until, closed_hooker, is_closed;
    rewrite ?H, ?F, ?X; reflexivity.
Qed.

(* the order inside waitUntil's loop matters: were the context consulted before the closed-status hook, the
   entries that wait on a WithCloseStatus context (cancelled by a watcher as soon as the status is Closed)
   would return context.Canceled - not a library sentinel - whenever the watcher has already run *)
Lemma ctx_first_misclassifies : forall c, c_status c = Closed -> ctx_first (c_cfg c) = true ->
  conn_api c ACallWait = RCanceled.
Proof.
  intros c H X. unfold conn_api, send_entry, wait_until, closed_hooker, is_closed. rewrite H, X. reflexivity.
Qed.

Lemma matrix_faithful : forall c a, c_status c = Closed -> fix_f5 (c_cfg c) = false -> conn_level a = true ->
  conn_api c a = match a with AMeta => RDeadline | ACallWait => RCanceled | _ => RConnClosed end.
Proof.
  intros c a H F L. destruct a; try discriminate; unfold conn_api, send_entry, wait_until, closed_hooker, is_closed;
    rewrite ?H, ?F; destruct (ctx_first (c_cfg c)); reflexivity.
Qed.

Lemma stream_cancelled_by_close : forall c i s, c_status c = Closed -> find_s i (c_streams c) = Some s -> s_phase s = SWatch ->
  exists s', find_s i (c_streams (fst (step c (EWatch i)))) = Some s' /\ s_phase s' = SClosed false false.
Proof.
  intros c i s H F P. cbn. unfold watch_step, is_closed. rewrite F, P, H. cbn.
  eexists. split; [apply find_upd_same; [reflexivity|exact F]|reflexivity].
Qed.

(* ------------------------------------------------------------------------------------------ *)
(* C10: silence *)

Definition silent (c : conn) : Prop := c_status c = Closed /\ c_wclosed c = true /\ c_loop c <> LDial.

Lemma silent_step : forall c e, silent c -> silent (fst (step c e)) /\ filter is_wire (snd (step c e)) = [] /\ filter is_disconnect (snd (step c e)) = [].
Proof.
  intros c e (H & W & L). unfold silent.
  destruct e; unf; rewrite ?H, ?W; cbn; rewrite ?andb_false_r; dmi; cbn in *; repeat split; auto; try congruence.
  all: repeat match goal with H : context [_ && false] |- _ => rewrite andb_false_r in H end; try discriminate.
Qed.

Lemma silent_run : forall evs c, silent c -> silent (fst (run c evs)) /\ filter is_wire (snd (run c evs)) = [] /\ filter is_disconnect (snd (run c evs)) = [].
Proof.
  induction evs as [|e evs IH]; intros c Q; [cbn; auto|].
  rewrite run_cons. cbn [fst snd]. rewrite !filter_app. destruct (silent_step c e Q) as (Q1 & A & B).
  destruct (IH _ Q1) as (Q2 & A2 & B2). rewrite A, A2, B, B2. auto.
Qed.

Lemma after_disconnect_none : forall o, filter is_disconnect o = [] -> after_disconnect o = [].
Proof.
  induction o as [|x o IH]; intro H; [reflexivity|].
  cbn in *. destruct (is_disconnect x); [discriminate|auto].
Qed.

Lemma filter_after_disconnect : forall o, filter is_wire o = [] -> filter is_wire (after_disconnect o) = [].
Proof.
  induction o as [|x o IH]; intro H; [reflexivity|].
  cbn in *. destruct (is_wire x) eqn:E; [discriminate|]. destruct (is_disconnect x); auto.
Qed.

(* Disconnect handed to the transport and the wire connection closed with no other goroutine in between *)
Lemma silence_atomic : forall c post, c_status c = Closed -> c_close c = CSwapped -> c_loop c <> LDial ->
  wire_after_disconnect (snd (run c (ECloseDisc :: ECloseWire :: post))) = [].
Proof.
  intros c post H C L. unfold wire_after_disconnect.
  destruct (writable c) eqn:W.
  - (* the Disconnect is written; then the wire connection is closed *)
    assert (S1 : step c ECloseDisc = (set_close c CDisc, [ODisconnect (c_gen c)])).
    { cbn. unfold close_disc_step. rewrite C, W. destruct (c_loop c); try congruence; reflexivity. }
    rewrite run_cons, S1. cbn [fst snd app after_disconnect is_disconnect].
    assert (S2 : step (set_close c CDisc) ECloseWire = (set_close (set_wclosed (set_close c CDisc) true) CDone, [])) by reflexivity.
    rewrite run_cons, S2. cbn [fst snd app].
    match goal with |- context [run ?c1 post] => destruct (silent_run post c1) as (_ & A & _) end.
    { unfold silent. cbn. repeat split; auto. }
    exact A.
  - (* the transport was already dead: nothing is written at all *)
    assert (S1 : step c ECloseDisc = (set_close (set_wclosed c true) CDone, [])).
    { cbn. unfold close_disc_step. rewrite C, W. destruct (c_loop c); try congruence; reflexivity. }
    rewrite run_cons, S1. cbn [fst snd app].
    match goal with |- context [run ?c1 ?l] => destruct (silent_run l c1) as (_ & A & B) end.
    { unfold silent. cbn. repeat split; auto. }
    rewrite (after_disconnect_none _ B). reflexivity.
Qed.

(* F11 (code as it is - not repaired, known finding): a stream's final flush between the Disconnect
   and wireConn.Close() *)
Lemma silence_refuted :
  wire_after_disconnect (snd (run (init faithful)
    [EStart 0 KOpenUp; EWake 0; EResp 0; EWrite 0; ECloseCall; ECloseDisc; EWatch 0; ECloseWire])) = [OChunk 0 0].
Proof. vm_compute. reflexivity. Qed.



(* ------------------------------------------------------------------------------------------ *)
(* C05: every stream resumes *)

Definition attached (c : conn) (s : stream) : Prop := s_phase s = SWatch -> s_held s = c_gen c.
Definition attached_inv (c : conn) : Prop := Forall (attached c) (c_streams c).

(* the schedule premise: when a redial completes, no watcher is still waiting to see Reconnecting,
   i.e. every watcher goroutine was scheduled at least once while the status was Reconnecting *)
Definition all_observed (c : conn) : bool :=
  forallb (fun s => match s_phase s with SWatch => false | _ => true end) (c_streams c).
Definition redial_completes (c : conn) : bool :=
  match c_loop c with LDial => cs_eqb (c_status c) Reconnecting | _ => false end.
Fixpoint every_watcher_observes_each_outage (c : conn) (evs : list ev) : bool :=
  match evs with
  | [] => true
  | e :: evs' =>
      (match e with EDial true => if redial_completes c then all_observed c else true | _ => true end)
      && every_watcher_observes_each_outage (fst (step c e)) evs'
  end.

Lemma Forall_upd_found : forall (P : stream -> Prop) l i f s0,
  find_s i l = Some s0 -> Forall P l -> P (f s0) -> Forall P (upd_s i f l).
Proof.
  induction l as [|x l IH]; intros i f s0 F H Hf; [constructor|].
  inversion H; subst. cbn in *. destruct (s_id x =? i).
  - inversion F; subst. constructor; assumption.
  - constructor; [assumption|]. eapply IH; eauto.
Qed.

Lemma all_observed_attached : forall c g, all_observed c = true ->
  Forall (fun s => s_phase s = SWatch -> s_held s = g) (c_streams c).
Proof.
  intros c g H. unfold all_observed in H. rewrite forallb_forall in H. apply Forall_forall.
  intros s Hin P. specialize (H s Hin). rewrite P in H. discriminate.
Qed.

Lemma attached_step : forall c e, attached_inv c ->
  (e = EDial true -> redial_completes c = true -> all_observed c = true) ->
  attached_inv (fst (step c e)).
Proof.
  intros c e A P. unfold attached_inv, attached in *.
  destruct e; unf; cbn; dmi; cbn in *; auto;
    try (eapply Forall_upd_found; [eassumption|assumption|cbn; intros; try congruence; try discriminate]).
  all: try (apply all_observed_attached; apply P; [reflexivity|unfold redial_completes; rewrite Heql; assumption]).
  all: try (apply Forall_app; split; [assumption|constructor; [cbn; intros _|constructor]]).
  all: repeat match goal with H : _ && _ = true |- _ => apply andb_prop in H; destruct H end.
  all: try (apply N.eqb_eq; assumption).
  all: try discriminate.
  destruct (find_s_in _ _ _ Heqo) as [Hin _]. rewrite Forall_forall in A. apply (A s Hin H).
Qed.

Lemma attached_run : forall evs c, attached_inv c -> every_watcher_observes_each_outage c evs = true ->
  attached_inv (fst (run c evs)).
Proof.
  induction evs as [|e evs IH]; intros c A F; [exact A|].
  rewrite run_cons. cbn [fst]. cbn [every_watcher_observes_each_outage] in F.
  apply andb_prop in F. destruct F as [F1 F2]. apply IH; [|exact F2].
  apply attached_step; [exact A|]. intros E R. subst e. rewrite R in F1. exact F1.
Qed.

Lemma attached_init : forall f, attached_inv (init f).
Proof. intro f. constructor. Qed.

(* F9 (FORMER code, before 741ede2): the watcher looks at the status only after Reconnecting ->
   Connected has happened.  The stream keeps the dead wire connection and none of its own goroutines
   can ever change that. *)
Definition f9_schedule : list ev :=
  [EStart 0 KOpenUp; EWake 0; EResp 0; ELinkDown; EDetect; ELoop; EDial true; EWatch 0; ESup 0; EWatch 0].

Lemma streams_resume_refuted :
  let r := run (init former) f9_schedule in
  (c_status (fst r) = Connected) /\ (writable (fst r) = true) /\
  (finals_of (fst r) = [(0, 1)]) /\ (resumereqs_of (snd r) = []) /\
  (every_watcher_observes_each_outage (init former) f9_schedule = false).
Proof. vm_compute. repeat split. Qed.

Lemma detached_is_stuck : forall c i s, fix_f9 (c_cfg c) = false -> c_status c = Connected ->
  find_s i (c_streams c) = Some s -> s_phase s = SWatch ->
  step c (EWatch i) = (c, []) /\ step c (ESup i) = (c, []) /\ step c (EResumeResp i RespOk) = (c, []).
Proof.
  intros c i s F S Fi P. cbn. unfold watch_step, sup_step, resume_resp_step, is_closed.
  rewrite Fi, P, S, F. cbn. auto.
Qed.

(* repaired watcher (fires also when the connection's wire incarnation is not the stream's):
   a detached stream is picked up at its watcher's next wake-up, whatever happened before *)
Lemma repaired_watcher_fires : forall c i s, fix_f9 (c_cfg c) = true -> c_status c <> Closed ->
  find_s i (c_streams c) = Some s -> s_phase s = SWatch -> s_held s <> c_gen c ->
  exists s', find_s i (c_streams (fst (step c (EWatch i)))) = Some s' /\ s_phase s' = SWaitConn /\
             s_down s' = s_down s /\ c_status (fst (step c (EWatch i))) = c_status c /\
             c_gen (fst (step c (EWatch i))) = c_gen c /\ writable (fst (step c (EWatch i))) = writable c.
Proof.
  intros c i s F S Fi P D. cbn. unfold watch_step, is_closed. rewrite Fi, P, F.
  apply N.eqb_neq in D. rewrite D.
  destruct (c_status c) eqn:E; try congruence; cbn;
    (eexists; split; [apply find_upd_same; [reflexivity|exact Fi]|cbn; auto]).
Qed.

Lemma supervisor_resumes : forall c i s, c_status c = Connected -> writable c = true ->
  find_s i (c_streams c) = Some s -> s_phase s = SWaitConn ->
  snd (step c (ESup i)) = [OResumeReq (c_gen c) i (s_down s)] /\
  exists s', find_s i (c_streams (fst (step c (ESup i)))) = Some s' /\ s_phase s' = SResuming /\ s_held s' = c_gen c.
Proof.
  intros c i s S W Fi P. cbn. unfold sup_step. rewrite Fi, P, S, W. cbn. split; [reflexivity|].
  eexists; split; [apply find_upd_same; [reflexivity|exact Fi]|cbn; auto].
Qed.

Lemma resume_answer : forall c i s r, c_up c = true -> c_wclosed c = false ->
  find_s i (c_streams c) = Some s -> s_phase s = SResuming -> s_held s = c_gen c ->
  match r with
  | RespOk => snd (step c (EResumeResp i r)) = [OResumed i]
  | RespRefused => snd (step c (EResumeResp i r)) = [OCloseReq (c_gen c) i; OStreamClosed i true]
  | RespConflict => snd (step c (EResumeResp i r)) =
                      (if s_down s && negb (fix_f46 (c_cfg c)) then [OCloseReq (c_gen c) i; OStreamClosed i true]
                       else [OResumeReq (c_gen c) i (s_down s)])
  end /\
  (* only that stream changes *)
  forall j, j <> i -> find_s j (c_streams (fst (step c (EResumeResp i r)))) = find_s j (c_streams c).
Proof.
  intros c i s r U W Fi P H. cbn. unfold resume_resp_step. rewrite Fi, P, H, N.eqb_refl, W, U. cbn.
  destruct r; cbn; try (split; [reflexivity|intros j Hj; apply find_upd_other; [reflexivity|congruence]]).
  destruct (s_down s && negb (fix_f46 (c_cfg c))); cbn.
  - split; [reflexivity|intros j Hj; apply find_upd_other; [reflexivity|congruence]].
  - split; reflexivity.
Qed.




(* ------------------------------------------------------------------------------------------ *)
(* C10: a stream's closed event fires at most once *)

Definition nsclosed (i : N) (o : list out) : nat :=
  length (filter (fun x => match x with OStreamClosed j _ => j =? i | _ => false end) o).
Definition bp (p : sphase) : nat := match p with SClosed _ _ => 0 | _ => 1 end.
Definition sbl (l : list stream) (i : N) : nat :=
  match find_s i l with Some s => bp (s_phase s) | None => 1 end.

Lemma nsclosed_app : forall i a b, nsclosed i (a ++ b) = (nsclosed i a + nsclosed i b)%nat.
Proof. intros. unfold nsclosed. rewrite filter_app, app_length. reflexivity. Qed.

Lemma sbl_le1 : forall l i, (sbl l i <= 1)%nat.
Proof. intros. unfold sbl. destruct (find_s i l) as [s|]; [destruct (s_phase s); cbn; lia|lia]. Qed.

Lemma sbl_upd : forall l i j f s0, find_s j l = Some s0 -> (forall s, s_id (f s) = s_id s) ->
  sbl (upd_s j f l) i = if j =? i then bp (s_phase (f s0)) else sbl l i.
Proof.
  intros l i j f s0 F Hf. unfold sbl. destruct (j =? i) eqn:E.
  - apply N.eqb_eq in E. subst. rewrite (find_upd_same _ _ _ _ Hf F). reflexivity.
  - apply N.eqb_neq in E. rewrite find_upd_other by assumption. reflexivity.
Qed.

Lemma sbl_found : forall l j s0, find_s j l = Some s0 -> sbl l j = bp (s_phase s0).
Proof. intros l j s0 F. unfold sbl. rewrite F. reflexivity. Qed.

Lemma sbl_app_le : forall l l' i, (sbl (l ++ l') i <= sbl l i)%nat.
Proof.
  intros. unfold sbl at 2. destruct (find_s i l) as [s|] eqn:F.
  - unfold sbl. rewrite (find_app_some _ l' _ _ F). lia.
  - apply sbl_le1.
Qed.

Lemma sclosed_step : forall c e i,
  (nsclosed i (snd (step c e)) + sbl (c_streams (fst (step c e))) i <= sbl (c_streams c) i)%nat.
Proof.
  intros c e i. unfold nsclosed.
  destruct e; unf; cbn; dmi; cbn in *; try lia;
    try (pose proof (sbl_app_le (c_streams c)); cbn in *; auto; fail);
    try (erewrite sbl_upd by (try eassumption; reflexivity);
         match goal with |- context [?j =? i] => destruct (j =? i) eqn:E end;
         [apply N.eqb_eq in E; subst; erewrite sbl_found by eassumption;
          repeat match goal with H : s_phase _ = _ |- _ => rewrite H end; cbn; lia
         |cbn; lia]).
  all: erewrite sbl_upd by (try eassumption; reflexivity);
       destruct (i0 =? i) eqn:E; [apply N.eqb_eq in E; subst; erewrite sbl_found by eassumption; cbn; lia|lia].
Qed.

Lemma sclosed_run : forall evs c i, (nsclosed i (snd (run c evs)) <= sbl (c_streams c) i)%nat.
Proof.
  induction evs as [|e evs IH]; intros c i; [cbn; lia|].
  rewrite run_cons. cbn [snd]. rewrite nsclosed_app.
  pose proof (sclosed_step c e i). pose proof (IH (fst (step c e)) i). lia.
Qed.


(* ------------------------------------------------------------------------------------------ *)
(* from the state right after Connect *)

Lemma tokens_from_init : forall f evs,
  let r := run (init f) evs in
  let o := init_outs ++ snd r in
  connects_of o = iota_pairs (length (connects_of o)) 0 /\
  tokens_of o = map fst (connects_of o) /\
  c_tokens (fst r) = N.of_nat (length (connects_of o)).
Proof.
  intros f evs r o. destruct (run_tokens evs (init f) eq_refl) as (A & B & C & _). fold r in A, B, C.
  unfold o. rewrite connects_app, tokens_app, app_length.
  change (connects_of init_outs) with [(0, 0)]. change (tokens_of init_outs) with [0].
  change (c_tokens (init f)) with 1 in *.
  cbn [app length plus iota_pairs map fst].
  repeat split.
  - f_equal. exact A.
  - f_equal. exact B.
  - rewrite C. rewrite Nat2N.inj_succ. rewrite N.add_1_l. reflexivity.
Qed.

Lemma closed_events_once : forall evs c, c_status c = Closed ->
  (ndisc (snd (run c evs)) <= 1)%nat /\ nreconn (snd (run c evs)) = 0%nat.
Proof.
  intros evs c H. split; [|exact (closed_run_noreconn evs c H)].
  pose proof (closed_disc_run evs c H). pose proof (dbudget_le1 c). lia.
Qed.


(* ------------------------------------------------------------------------------------------ *)
(* the code as it is now ([faithful]: every repair in) *)

Lemma faithful_flags : forall evs,
  let c := fst (run (init faithful) evs) in
  fix_f5 (c_cfg c) = true /\ fix_f9 (c_cfg c) = true /\ fix_f10 (c_cfg c) = true /\
  fix_leak (c_cfg c) = true /\ fix_f19 (c_cfg c) = true.
Proof. intro evs. cbn zeta. rewrite cfg_run. cbn. auto. Qed.

(* every stream resumes, for EVERY schedule: take any state with the generation-comparing watcher in
   which the connection is up.  A stream that is waiting (attached, detached, or already handed to
   its supervisor) is, after one wake-up of its watcher, one of its supervisor and the broker's
   answer, attached to the CURRENT wire connection; unless it already was, exactly one resume request
   with its own id and direction went out on the current wire connection and one resumed event fired. *)
Definition settle (i : N) : list ev := [EWatch i; ESup i; EResumeResp i RespOk].

Lemma streams_resume_any_state : forall c i s, fix_f9 (c_cfg c) = true ->
  c_status c = Connected -> writable c = true ->
  find_s i (c_streams c) = Some s -> (s_phase s = SWatch \/ s_phase s = SWaitConn) ->
  exists s', find_s i (c_streams (fst (run c (settle i)))) = Some s' /\
             s_phase s' = SWatch /\ s_held s' = c_gen c /\ s_down s' = s_down s /\
             snd (run c (settle i)) =
               (if match s_phase s with SWatch => s_held s =? c_gen c | _ => false end then []
                else [OResumeReq (c_gen c) i (s_down s); OResumed i]).
Proof.
  intros c i s F S W Fi P. pose proof W as W0. unfold writable in W. apply andb_prop in W. destruct W as [U Wc].
  apply negb_true_iff in Wc.
  unfold settle. rewrite !run_cons. cbn [run fst snd]. rewrite !app_nil_r.
  (* step 1: the watcher *)
  assert (H1 : exists s1, find_s i (c_streams (fst (step c (EWatch i)))) = Some s1 /\
            s_down s1 = s_down s /\ c_status (fst (step c (EWatch i))) = Connected /\
            c_gen (fst (step c (EWatch i))) = c_gen c /\ writable (fst (step c (EWatch i))) = true /\
            snd (step c (EWatch i)) = [] /\
            ((s_phase s1 = SWatch /\ s_held s1 = c_gen c /\ s_phase s = SWatch /\ (s_held s =? c_gen c) = true) \/
             (s_phase s1 = SWaitConn /\ match s_phase s with SWatch => s_held s =? c_gen c | _ => false end = false))).
  { cbn [step]. unfold watch_step, is_closed. rewrite Fi. destruct P as [P|P]; rewrite P.
    - rewrite S, F. cbn. destruct (s_held s =? c_gen c) eqn:E; cbn.
      + exists s. apply N.eqb_eq in E. repeat split; auto.
      + eexists. split; [apply find_upd_same; [reflexivity|exact Fi]|]. cbn. repeat split; auto.
    - exists s. cbn. repeat split; auto. }
  destruct H1 as (s1 & F1 & D1 & S1 & G1 & W1 & O1 & C1). rewrite O1. cbn [app].
  set (c1 := fst (step c (EWatch i))) in *.
  destruct C1 as [(P1 & Hh & Ps & E)|(P1 & E)].
  - (* attached: nothing happens *)
    rewrite Ps, E.
    assert (X2 : step c1 (ESup i) = (c1, [])) by (cbn [step]; unfold sup_step; rewrite F1, P1; reflexivity).
    rewrite X2. cbn [fst snd app].
    assert (X3 : step c1 (EResumeResp i RespOk) = (c1, [])) by (cbn [step]; unfold resume_resp_step; rewrite F1, P1; reflexivity).
    rewrite X3. cbn [fst snd]. exists s1. auto.
  - rewrite E.
    destruct (supervisor_resumes c1 i s1 S1 W1 F1 P1) as (O2 & s2 & F2 & P2 & H2). rewrite O2.
    set (c2 := fst (step c1 (ESup i))) in *.
    assert (K2 : c_up c2 = true /\ c_wclosed c2 = false /\ c_gen c2 = c_gen c1).
    { unfold c2. cbn [step]. unfold sup_step. rewrite F1, P1, S1, W1. cbn.
      unfold writable in W1. apply andb_prop in W1. destruct W1 as [A B]. apply negb_true_iff in B. auto. }
    destruct K2 as (U2 & Wc2 & G2).
    assert (H2' : s_held s2 = c_gen c2) by congruence.
    destruct (resume_answer c2 i s2 RespOk U2 Wc2 F2 P2 H2') as (O3 & _). rewrite O3. cbn [app].
    assert (D2 : s_down s2 = s_down s1 /\ s_id s2 = s_id s1).
    { unfold c2 in F2. cbn [step] in F2. unfold sup_step in F2. rewrite F1, P1, S1, W1 in F2. cbn in F2.
      erewrite find_upd_same in F2; [|reflexivity|exact F1]. inversion F2; subst. cbn. auto. }
    assert (X3 : exists s3, find_s i (c_streams (fst (step c2 (EResumeResp i RespOk)))) = Some s3 /\
                 s_phase s3 = SWatch /\ s_held s3 = s_held s2 /\ s_down s3 = s_down s2).
    { cbn [step]. unfold resume_resp_step. rewrite F2, P2, H2', N.eqb_refl, Wc2, U2. cbn.
      eexists. split; [apply find_upd_same; [reflexivity|exact F2]|]. cbn. auto. }
    destruct X3 as (s3 & F3 & P3 & H3 & D3). exists s3.
    rewrite G1 in *. destruct D2 as [D2 _].
    repeat split; try congruence.
Qed.

Lemma streams_resume_now : forall evs i s,
  let c := fst (run (init faithful) evs) in
  c_status c = Connected -> writable c = true ->
  find_s i (c_streams c) = Some s -> (s_phase s = SWatch \/ s_phase s = SWaitConn) ->
  exists s', find_s i (c_streams (fst (run c (settle i)))) = Some s' /\
             s_phase s' = SWatch /\ s_held s' = c_gen c /\ s_down s' = s_down s /\
             snd (run c (settle i)) =
               (if match s_phase s with SWatch => s_held s =? c_gen c | _ => false end then []
                else [OResumeReq (c_gen c) i (s_down s); OResumed i]).
Proof.
  intros evs i s c. apply streams_resume_any_state. destruct (faithful_flags evs) as (_ & A & _). exact A.
Qed.

(* a resume whose exchange is cut (or whose request cannot even be written) is reported: closed event
   with the error, that stream only *)
Lemma cut_resume_reported : forall c i s, fix_f19 (c_cfg c) = true -> c_status c <> Closed ->
  find_s i (c_streams c) = Some s -> s_phase s = SResuming -> (s_held s <> c_gen c \/ c_wclosed c = true) ->
  snd (step c (EResumeResp i RespOk)) = [OStreamClosed i true] /\
  (exists s', find_s i (c_streams (fst (step c (EResumeResp i RespOk)))) = Some s' /\ s_phase s' = SClosed true false) /\
  forall j, j <> i -> find_s j (c_streams (fst (step c (EResumeResp i RespOk)))) = find_s j (c_streams c).
Proof.
  intros c i s F S Fi P D. cbn. unfold resume_resp_step, is_closed. rewrite Fi, P, F.
  assert (X : (s_held s =? c_gen c) && negb (c_wclosed c) = false).
  { destruct D as [D|D]; [apply N.eqb_neq in D; rewrite D; reflexivity|rewrite D; apply andb_false_r]. }
  rewrite X. destruct (c_status c) eqn:E; try congruence; cbn;
    (split; [reflexivity|split; [eexists; split; [apply find_upd_same; [reflexivity|exact Fi]|reflexivity]
                               |intros j Hj; apply find_upd_other; [reflexivity|congruence]]]).
Qed.

(* no history of the code as it is panics; after any history containing a Close every connection-level
   entry returns the connection-closed sentinel *)
Lemma no_panic_now : forall evs, has_panic (snd (run (init faithful) evs)) = false.
Proof. intro evs. apply no_panic_run. reflexivity. Qed.

Lemma after_close_now : forall pre post a, conn_level a = true ->
  conn_api (fst (run (init faithful) (pre ++ ECloseCall :: post))) a = RConnClosed.
Proof.
  intros pre post a L. apply matrix_repaired; [apply closed_after_close_call| | |exact L];
    rewrite cfg_run; reflexivity.
Qed.

(* a supervisor waiting for the connection returns once the connection is closed (no leak) *)
Lemma supervisor_returns_on_close : forall c i s, fix_leak (c_cfg c) = true -> c_status c = Closed ->
  find_s i (c_streams c) = Some s -> s_phase s = SWaitConn ->
  exists s', find_s i (c_streams (fst (step c (ESup i)))) = Some s' /\ s_phase s' = SClosed false false.
Proof.
  intros c i s F S Fi P. cbn. unfold sup_step. rewrite Fi, P, S, F.
  eexists. split; [apply find_upd_same; [reflexivity|exact Fi]|reflexivity].
Qed.

(* FORMER code (before 0d5b8e3): Close during an outage left the supervisor waiting for ever *)
Lemma supervisor_leak_former :
  let r := run (init former) [EStart 0 KOpenUp; EWake 0; EResp 0; ELinkDown; EDetect; ELoop; EWatch 0;
                              ECloseCall; EDial false; ECloseDisc; ECloseWire; EWatch 0; ESup 0; ESup 0] in
  leaked_sups (fst r) = 1 /\ c_status (fst r) = Closed /\ c_loop (fst r) = LExit.
Proof. vm_compute. repeat split. Qed.
Lemma supervisor_no_leak_now :
  let r := run (init faithful) [EStart 0 KOpenUp; EWake 0; EResp 0; ELinkDown; EDetect; ELoop; EWatch 0;
                                ECloseCall; EDial false; ECloseDisc; ECloseWire; EWatch 0; ESup 0; ESup 0] in
  leaked_sups (fst r) = 0 /\ c_status (fst r) = Closed /\ c_loop (fst r) = LExit.
Proof. vm_compute. repeat split. Qed.

(* FORMER code (before eca7266): the cut resume closed the stream without any event *)
Lemma cut_resume_silent_former :
  let r := run (init former) [EStart 0 KOpenUp; EWake 0; EResp 0; ELinkDown; EDetect; ELoop; EWatch 0; EDial true;
                              ESup 0; ELinkDown; EDetect; ELoop; EResumeResp 0 RespOk] in
  sclosed_of (snd r) = [] /\ finals_of (fst r) = [(0, 3)].
Proof. vm_compute. repeat split. Qed.

(* ------------------------------------------------------------------------------------------ *)
(* a stream is reported closed WITH AN ERROR only out of a resume: the broker refused it, its exchange
   was cut, or its request could not be written - never for a stream whose resume was neither *)

Lemma closed_with_error_only_by_resume : forall c e i, In (OStreamClosed i true) (snd (step c e)) ->
  exists s, find_s i (c_streams c) = Some s /\
    ((exists r, e = EResumeResp i r /\ s_phase s = SResuming /\
                (r = RespRefused \/ (r = RespConflict /\ s_down s = true /\ fix_f46 (c_cfg c) = false) \/ s_held s <> c_gen c \/ c_wclosed c = true)) \/
     (e = ESup i /\ s_phase s = SWaitConn /\ c_status c = Connected /\ writable c = false)).
Proof.
  intros c e i H.
  destruct e; try (exfalso; revert H; unf; cbn; dmi; cbn; intuition discriminate).
  - (* ESup *)
    revert H. cbn [step]. unfold sup_step.
    destruct (find_s i0 (c_streams c)) as [s|] eqn:F; [|cbn; tauto].
    destruct (s_phase s) eqn:P; try (cbn; tauto).
    destruct (c_status c) eqn:S; [|cbn; tauto|destruct (fix_leak (c_cfg c)); cbn; tauto].
    destruct (writable c) eqn:W; [cbn; intuition discriminate|].
    destruct (fix_f19 (c_cfg c)); cbn; [|tauto].
    intros [H|[]]. inversion H; subst. exists s. split; [exact F|right; auto].
  - (* EResumeResp *)
    revert H. cbn [step]. unfold resume_resp_step.
    destruct (find_s i0 (c_streams c)) as [s|] eqn:F; [|cbn; tauto].
    destruct (s_phase s) eqn:P; try (cbn; tauto).
    destruct ((s_held s =? c_gen c) && negb (c_wclosed c)) eqn:X.
    + destruct (c_up c); [|cbn; tauto]. destruct r; cbn; [intuition discriminate| |].
      * intros [H|[H|[]]]; [discriminate|]. inversion H; subst. exists s. split; [exact F|left; exists RespRefused; auto].
      * destruct (s_down s) eqn:Dn; cbn; [|intuition discriminate].
        destruct (fix_f46 (c_cfg c)) eqn:F46; cbn; [intuition discriminate|].
        intros [H|[H|[]]]; [discriminate|]. inversion H; subst. exists s. split; [exact F|left; exists RespConflict; split; [reflexivity|split; [auto|right; left; auto]]].
    + destruct (fix_f19 (c_cfg c) && negb (is_closed c)); cbn; [|tauto].
      intros [H|[]]. inversion H; subst. exists s. split; [exact F|left; exists r].
      repeat split; auto. right. right. apply andb_false_iff in X. destruct X as [X|X].
      * left. apply N.eqb_neq. exact X.
      * right. apply negb_false_iff. exact X.
Qed.

(* ------------------------------------------------------------------------------------------ *)
(* C10: at most one close request per stream over any history, however many Close calls overlap *)

Definition ncloseReq (i : N) (o : list out) : nat :=
  length (filter (fun x => match x with OCloseReq _ j => j =? i | _ => false end) o).
Definition bq (p : sphase) : nat := match p with SClosed _ _ | SDraining => 0 | _ => 1 end.
Definition sql (l : list stream) (i : N) : nat :=
  match find_s i l with Some s => bq (s_phase s) | None => 1 end.

Lemma ncloseReq_app : forall i a b, ncloseReq i (a ++ b) = (ncloseReq i a + ncloseReq i b)%nat.
Proof. intros. unfold ncloseReq. rewrite filter_app, app_length. reflexivity. Qed.
Lemma sql_le1 : forall l i, (sql l i <= 1)%nat.
Proof. intros. unfold sql. destruct (find_s i l) as [s|]; [destruct (s_phase s); cbn; lia|lia]. Qed.
Lemma sql_upd : forall l i j f s0, find_s j l = Some s0 -> (forall s, s_id (f s) = s_id s) ->
  sql (upd_s j f l) i = if j =? i then bq (s_phase (f s0)) else sql l i.
Proof.
  intros l i j f s0 F Hf. unfold sql. destruct (j =? i) eqn:E.
  - apply N.eqb_eq in E. subst. rewrite (find_upd_same _ _ _ _ Hf F). reflexivity.
  - apply N.eqb_neq in E. rewrite find_upd_other by assumption. reflexivity.
Qed.
Lemma sql_found : forall l j s0, find_s j l = Some s0 -> sql l j = bq (s_phase s0).
Proof. intros l j s0 F. unfold sql. rewrite F. reflexivity. Qed.
Lemma sql_app_le : forall l l' i, (sql (l ++ l') i <= sql l i)%nat.
Proof.
  intros. unfold sql at 2. destruct (find_s i l) as [s|] eqn:F.
  - unfold sql. rewrite (find_app_some _ l' _ _ F). lia.
  - apply sql_le1.
Qed.

Lemma closereq_step : forall c e i,
  (ncloseReq i (snd (step c e)) + sql (c_streams (fst (step c e))) i <= sql (c_streams c) i)%nat.
Proof.
  intros c e i. unfold ncloseReq.
  destruct e; unf; cbn; dmi; cbn in *; try lia;
    try (pose proof (sql_app_le (c_streams c)); cbn in *; auto; fail);
    try (erewrite sql_upd by (try eassumption; reflexivity);
         match goal with |- context [?j =? i] => destruct (j =? i) eqn:E end;
         [apply N.eqb_eq in E; subst; erewrite sql_found by eassumption;
          repeat match goal with H : s_phase _ = _ |- _ => rewrite H end; cbn; lia
         |cbn; lia]).
  all: erewrite sql_upd by (try eassumption; reflexivity);
       destruct (i0 =? i) eqn:E; [apply N.eqb_eq in E; subst; erewrite sql_found by eassumption; cbn; lia|lia].
Qed.

Lemma closereq_run : forall evs c i, (ncloseReq i (snd (run c evs)) <= sql (c_streams c) i)%nat.
Proof.
  induction evs as [|e evs IH]; intros c i; [cbn; lia|].
  rewrite run_cons. cbn [snd]. rewrite ncloseReq_app.
  pose proof (closereq_step c e i). pose proof (IH (fst (step c e)) i). lia.
Qed.

(* three overlapping Close calls of one stream, the response withheld until all three were issued *)
Lemma overlapping_close_once :
  let r := run (init faithful) [EStart 0 KOpenUp; EWake 0; EResp 0; EWrite 0;
                                EStreamClose 0; EStreamClose 0; EStreamClose 0; EStreamCloseResp 0; EStreamCloseResp 0;
                                EStreamClose 0] in
  closereqs_of (snd r) = [0] /\ sclosed_of (snd r) = [(0, false)] /\ finals_of (fst r) = [(0, 2)].
Proof. vm_compute. repeat split. Qed.

(* ------------------------------------------------------------------------------------------ *)
(* C10: stream calls that are PENDING when the connection is closed - writers blocked in WriteDataPoints
   (no flush loop exists during an outage), Flush callers, consumers blocked in ReadDataPoints /
   ReadMetadata - return the stream-closed sentinel once the stream's own goroutines have been scheduled *)

Lemma pending_stream_calls_return : forall c i s a, fix_leak (c_cfg c) = true -> c_status c = Closed ->
  find_s i (c_streams c) = Some s -> (s_phase s = SWatch \/ s_phase s = SWaitConn) -> data_path a = true ->
  pending_stream_call (fst (run c [EWatch i; ESup i])) i a = RStreamClosed.
Proof.
  intros c i s a F H Fi P D. rewrite !run_cons. cbn [run fst snd step].
  unfold pending_stream_call. destruct P as [P|P].
  - (* the close watcher cancels the stream context *)
    unfold watch_step, is_closed. rewrite Fi, P, H. cbn.
    unfold sup_step. cbn. erewrite find_upd_same; [|reflexivity|exact Fi]. cbn.
    erewrite find_upd_same; [|reflexivity|exact Fi]. cbn. destruct a; try discriminate; reflexivity.
  - (* outage in progress: the stream is with its supervisor, which returns on Closed *)
    unfold watch_step. rewrite Fi, P. cbn.
    unfold sup_step. rewrite Fi, P, H, F. cbn.
    erewrite find_upd_same; [|reflexivity|exact Fi]. cbn. destruct a; try discriminate; reflexivity.
Qed.

Lemma pending_stream_calls_return_now : forall pre post i s a,
  let c := fst (run (init faithful) (pre ++ ECloseCall :: post)) in
  find_s i (c_streams c) = Some s -> (s_phase s = SWatch \/ s_phase s = SWaitConn) -> data_path a = true ->
  pending_stream_call (fst (run c [EWatch i; ESup i])) i a = RStreamClosed.
Proof.
  intros pre post i s a c. apply pending_stream_calls_return.
  - unfold c. rewrite cfg_run. reflexivity.
  - apply closed_after_close_call.
Qed.

(* before the stream context is cancelled such a call is still blocked: nothing else ends it *)
Lemma pending_stream_call_blocked_until_cancel : forall c i s a, find_s i (c_streams c) = Some s ->
  (forall e b, s_phase s <> SClosed e b) -> pending_stream_call c i a = RBlocked.
Proof.
  intros c i s a Fi N. unfold pending_stream_call. rewrite Fi. destruct (s_phase s); try reflexivity.
  exfalso. eapply N. reflexivity.
Qed.


(* ------------------------------------------------------------------------------------------ *)
(* event_dispatcher.go: the FIFO is drained before the loop exits; RESUME_REQUEST_CONFLICT is retried *)


Definition dinv (s : dstate) (A : list N) : Prop :=
  d_delivered s ++ d_batch s ++ d_q s = A /\ (d_running s = false -> d_batch s = []).

Lemma dstep_inv : forall s e A, dinv s A ->
  dinv (dstep false s e) (A ++ match e with DAdd h => [h] | _ => [] end).
Proof.
  intros s e A [H R]. unfold dinv.
  destruct s as [q b rn dl cx ex]. cbn in *. destruct e; cbn.
  - split; [rewrite <- H, <- !app_assoc; reflexivity|exact R].
  - rewrite app_nil_r. auto.
  - rewrite app_nil_r. destruct ex; cbn; [auto|]. destruct rn; cbn; [auto|].
    rewrite (R eq_refl) in *. cbn in H.
    destruct q; [destruct cx; cbn; auto|]. cbn. split; [rewrite app_nil_r; exact H|discriminate].
  - rewrite app_nil_r. destruct rn; cbn; [|auto].
    split; [rewrite <- H, <- app_assoc; reflexivity|reflexivity].
Qed.

Lemma drun_inv : forall evs s A, dinv s A -> dinv (drun false s evs) (A ++ dadds evs).
Proof.
  induction evs as [|e evs IH]; intros s A H; [cbn; rewrite app_nil_r; exact H|].
  cbn [drun fold_left]. change (fold_left (dstep false) evs (dstep false s e)) with (drun false (dstep false s e) evs).
  unfold dadds. cbn [map concat]. rewrite app_assoc. apply IH, dstep_inv, H.
Qed.

Lemma dinit_inv : dinv dinit []. Proof. split; [reflexivity|reflexivity]. Qed.

Lemma dispatcher_drains_before_exit : forall pre e,
  let s := drun false dinit pre in
  d_exited s = false -> d_exited (dstep false s e) = true ->
  e = DTake /\ d_delivered (dstep false s e) = dadds pre /\ d_q (dstep false s e) = [].
Proof.
  intros pre e s X Y. destruct (drun_inv pre dinit [] dinit_inv) as [H R]. fold s in H, R. cbn [app] in H.
  destruct s as [q b rn dl cx ex]. cbn in *. subst ex.
  destruct e; cbn in *; try congruence.
  - destruct rn; cbn in *; [congruence|]. rewrite (R eq_refl) in H. cbn in H.
    destruct q; [|cbn in Y; discriminate]. destruct cx; cbn in *; [|congruence].
    rewrite app_nil_r in H. auto.
  - destruct rn; cbn in Y; congruence.
Qed.

Lemma dispatcher_delivers : forall evs,
  let s := drun false dinit evs in d_exited s = false ->
  let s' := drun false s [DDone; DTake; DDone] in
  d_delivered s' = dadds evs /\ d_q s' = [] /\ d_batch s' = [].
Proof.
  intros evs s X. destruct (drun_inv evs dinit [] dinit_inv) as [H R]. fold s in H, R. cbn [app] in H.
  destruct s as [q b rn dl cx ex]. cbn in *. subst ex.
  destruct rn; cbn.
  - destruct q; cbn.
    + destruct cx; cbn; rewrite <- H, ?app_nil_r; auto.
    + rewrite <- H, <- app_assoc. auto.
  - rewrite (R eq_refl) in H. cbn in H.
    destruct q; cbn.
    + destruct cx; cbn; rewrite <- H, ?app_nil_r; auto.
    + rewrite <- H. auto.
Qed.

Lemma hasty_dispatcher_drops :
  let s := drun true dinit [DAdd 1; DTake; DAdd 2; DCancel; DDone; DTake; DDone] in
  d_exited s = true /\ d_delivered s = [1] /\ d_q s = [2].
Proof. vm_compute. repeat split. Qed.

Lemma resume_conflict_retries : forall c i s, fix_f46 (c_cfg c) = true -> c_up c = true -> c_wclosed c = false ->
  find_s i (c_streams c) = Some s -> s_phase s = SResuming -> s_held s = c_gen c ->
  step c (EResumeResp i RespConflict) = (c, [OResumeReq (c_gen c) i (s_down s)]).
Proof.
  intros c i s X U W Fi P H. cbn. unfold resume_resp_step. rewrite Fi, P, H, N.eqb_refl, W, U, X.
  rewrite andb_false_r. reflexivity.
Qed.

Lemma resume_conflict_retries_now : forall evs i s,
  let c := fst (run (init faithful) evs) in
  c_up c = true -> c_wclosed c = false ->
  find_s i (c_streams c) = Some s -> s_phase s = SResuming -> s_held s = c_gen c ->
  step c (EResumeResp i RespConflict) = (c, [OResumeReq (c_gen c) i (s_down s)]).
Proof. intros evs i s c. apply resume_conflict_retries. unfold c. rewrite cfg_run. reflexivity. Qed.

(* FORMER code (before 110718a, finding F46 - fixed): a DOWNSTREAM whose resume was answered
   RESUME_REQUEST_CONFLICT was closed with an error instead of retrying (the retried attempt re-subscribed
   its alias: "already subscribed") *)
Lemma downstream_conflict_closes :
  let r := run (init former) [EStart 0 KOpenDown; EWake 0; EResp 0; ELinkDown; EDetect; ELoop; EWatch 0; EDial true;
                              ESup 0; EResumeResp 0 RespConflict] in
  sclosed_of (snd r) = [(0, true)] /\ finals_of (fst r) = [(0, 2)].
Proof. vm_compute. repeat split. Qed.
Lemma downstream_conflict_retried_now :
  let r := run (init faithful) [EStart 0 KOpenDown; EWake 0; EResp 0; ELinkDown; EDetect; ELoop; EWatch 0; EDial true;
                                ESup 0; EResumeResp 0 RespConflict; EResumeResp 0 RespOk] in
  sclosed_of (snd r) = [] /\ finals_of (fst r) = [(0, 0)] /\ resumereqs_of (snd r) = [(1, 0, true); (1, 0, true)].
Proof. vm_compute. repeat split. Qed.

(* ------------------------------------------------------------------------------------------ *)
(* C10: a stream Close is final whatever the broker answers to the close request *)

Lemma stream_close_final_whatever_the_answer : forall c i s, find_s i (c_streams c) = Some s ->
  s_phase s = SDraining -> s_held s = c_gen c -> writable c = true ->
  forall e, e = EStreamCloseResp i \/ e = EStreamCloseRefused i ->
  snd (step c e) = [OStreamClosed i false] /\
  (exists s', find_s i (c_streams (fst (step c e))) = Some s' /\ s_phase s' = SClosed true true) /\
  (* and a later Close of the same stream writes nothing *)
  snd (step (fst (step c e)) (EStreamClose i)) = [].
Proof.
  intros c i s Fi P H W e [-> | ->]; cbn [step]; unfold stream_close_resp_step; rewrite Fi, P, H, N.eqb_refl, W; cbn;
    (split; [reflexivity|]); (split; [eexists; split; [apply find_upd_same; [reflexivity|exact Fi]|reflexivity]|]);
    unfold stream_close_step; cbn; erewrite find_upd_same; [|reflexivity|exact Fi| |reflexivity|exact Fi]; reflexivity.
Qed.

(* Lemmas about Model/Negotiation.v (C17). *)
From Coq Require Import String Ascii List NArith ZArith Bool Lia Permutation ZifyN ZifyNat ZifyBool.
From Iscp Require Import Lib.ListMap Lib.Bytes Lib.Decimal Model.Negotiation.
Import ListNotations.
Open Scope N_scope.
Ltac Zify.zify_post_hook ::= Z.div_mod_to_equations.

(* ---------- byte strings ---------- *)

Lemma bytes_eqb_eq a b : bytes_eqb a b = true <-> a = b.
Proof. apply list_beq_N_eq. Qed.

Lemma bytes_eqb_refl a : bytes_eqb a a = true.
Proof. now apply bytes_eqb_eq. Qed.

Lemma bytes_eqb_neq a b : bytes_eqb a b = false <-> a <> b.
Proof.
  split; intros H.
  - intros E. apply bytes_eqb_eq in E. congruence.
  - destruct (bytes_eqb a b) eqn:E; [apply bytes_eqb_eq in E; congruence | reflexivity].
Qed.

Lemma is_nil_true {A} (l : list A) : is_nil l = true <-> l = [].
Proof. destruct l; cbn; split; congruence. Qed.

(* ---------- UTF-8 ---------- *)

Definition ascii_bytes (l : bytes) : bool := forallb (fun c => c <? 128) l.

Lemma sanitize_valid_aux n : forall l, (length l <= n)%nat -> utf8_valid l = true -> sanitize l = l.
Proof.
  induction n as [|n IH]; intros l Hl Hv.
  - destruct l; [reflexivity | cbn in Hl; lia].
  - destruct l as [|b0 r0]; [reflexivity|].
    cbn [utf8_valid sanitize] in *. cbn [length] in Hl.
    destruct (b0 <? 128). { f_equal. apply IH; [lia | exact Hv]. }
    destruct r0 as [|b1 r1]; [discriminate|]. cbn [length] in Hl.
    destruct (is2 b0 b1). { do 2 f_equal. apply IH; [lia | exact Hv]. }
    destruct r1 as [|b2 r2]; [discriminate|]. cbn [length] in Hl.
    destruct (is3 b0 b1 b2). { do 3 f_equal. apply IH; [lia | exact Hv]. }
    destruct r2 as [|b3 r3]; [discriminate|]. cbn [length] in Hl.
    destruct (is4 b0 b1 b2 b3); [|discriminate]. do 4 f_equal. apply IH; [lia | exact Hv].
Qed.

(* valid UTF-8 passes through encoding/json unchanged *)
Lemma sanitize_valid l : utf8_valid l = true -> sanitize l = l.
Proof. apply (sanitize_valid_aux (length l)). lia. Qed.

Lemma ascii_valid l : ascii_bytes l = true -> utf8_valid l = true.
Proof.
  induction l as [|c l IH]; [reflexivity|]. unfold ascii_bytes. cbn [forallb utf8_valid].
  intros H. apply andb_true_iff in H as [Hc Hl]. rewrite Hc. apply IH, Hl.
Qed.

Lemma digits_ascii l : forallb is_digit l = true -> ascii_bytes l = true.
Proof.
  unfold ascii_bytes. induction l as [|c l IH]; [reflexivity|]. cbn [forallb].
  intros H. apply andb_true_iff in H as [Hc Hl]. rewrite (IH Hl), andb_true_r.
  unfold is_digit in Hc. lia.
Qed.

(* ---------- integers ---------- *)

Lemma print_int_ascii z : ascii_bytes (print_int z) = true.
Proof.
  unfold print_int. destruct (z <? 0)%Z.
  - unfold ascii_bytes. cbn [forallb]. apply andb_true_iff. split; [reflexivity|].
    apply digits_ascii, dec_print_digits.
  - apply digits_ascii, dec_print_digits.
Qed.

Lemma print_int_sanitize z : sanitize (print_int z) = print_int z.
Proof. apply sanitize_valid, ascii_valid, print_int_ascii. Qed.

Lemma dec_print_head n : exists c r, dec_print n = c :: r /\ is_digit c = true.
Proof.
  pose proof (dec_print_not_nil n) as Hn. pose proof (dec_print_digits n) as Hd.
  destruct (dec_print n) as [|c r]; [congruence|]. exists c, r. split; [reflexivity|].
  cbn [forallb] in Hd. now apply andb_true_iff in Hd as [Hc _].
Qed.

(* printing then parsing a machine integer gives it back *)
Lemma parse_print_int z : in_int64 z = true -> parse_int (print_int z) = Some z.
Proof.
  unfold in_int64, int64_min, int64_max. intros H. apply andb_true_iff in H as [H1 H2].
  unfold print_int. destruct (z <? 0)%Z eqn:Hz.
  - cbn [parse_int]. change (45 =? 45) with true. cbv iota. rewrite dec_parse_print.
    replace (- Z.of_N (Z.abs_N z))%Z with z by lia.
    unfold int64_min. destruct (-9223372036854775808 <=? z)%Z eqn:E; [reflexivity | lia].
  - destruct (dec_print_head (Z.to_N z)) as (c & r & E & Hc). unfold parse_int. rewrite E.
    assert (c =? 45 = false) as -> by (unfold is_digit in Hc; lia).
    rewrite <- E, dec_parse_print. replace (Z.of_N (Z.to_N z)) with z by lia.
    unfold int64_max. destruct (z <=? 9223372036854775807)%Z eqn:E2; [reflexivity | lia].
Qed.

Lemma print_int_not_null z : bytes_eqb (print_int z) b_null = false.
Proof.
  apply bytes_eqb_neq. unfold print_int. destruct (z <? 0)%Z; [discriminate|].
  destruct (dec_print_head (Z.to_N z)) as (c & r & E & Hc). rewrite E. unfold b_null.
  intros [= -> _]. discriminate Hc.
Qed.

Lemma store_ptr_print z : in_int64 z = true -> store_ptr (print_int z) = Some (Some z).
Proof. intros H. unfold store_ptr. now rewrite print_int_not_null, parse_print_int. Qed.

Lemma store_int_print old z : in_int64 z = true -> store_int old (print_int z) = Some z.
Proof. intros H. unfold store_int. now rewrite print_int_not_null, parse_print_int. Qed.

(* what the number reader accepts: an optional '-' and one or more decimal digits *)
Lemma parse_int_some b z : parse_int b = Some z ->
  in_int64 z = true /\
  ((exists r, b = 45 :: r /\ r <> [] /\ forallb is_digit r = true) \/ (b <> [] /\ forallb is_digit b = true)).
Proof.
  unfold parse_int. destruct b as [|c r]; [discriminate|].
  destruct (c =? 45) eqn:Ec.
  - apply N.eqb_eq in Ec; subst c. destruct (dec_parse r) as [n|] eqn:E; [|discriminate].
    destruct (int64_min <=? - Z.of_N n)%Z eqn:E2; [|discriminate]. intros [= <-].
    apply dec_parse_some in E as [E3 E4]. split.
    + unfold in_int64, int64_max, int64_min in *. lia.
    + left. eauto.
  - destruct (dec_parse (c :: r)) as [n|] eqn:E; [|discriminate].
    destruct (Z.of_N n <=? int64_max)%Z eqn:E2; [|discriminate]. intros [= <-].
    apply dec_parse_some in E as [E3 E4]. split.
    + unfold in_int64, int64_max, int64_min in *. lia.
    + right. eauto.
Qed.

(* ---------- Validate ---------- *)

Definition enc_known (p : params) : Prop := p_enc p = [] \/ p_enc p = enc_json \/ p_enc p = enc_proto.
Definition comp_named (p : params) : Prop := p_comp p = comp_pm \/ p_comp p = comp_cto.

Lemma known_enc_iff p : known_enc (p_enc p) = true <-> enc_known p.
Proof.
  unfold known_enc, enc_known. rewrite !orb_true_iff, is_nil_true, !bytes_eqb_eq. tauto.
Qed.

Lemma named_comp_iff p : named_comp (p_comp p) = true <-> comp_named p.
Proof. unfold named_comp, comp_named. rewrite orb_true_iff, !bytes_eqb_eq. tauto. Qed.

(* ----- Validate AS IT IS NOW: it accepts exactly the property's valid sets ----- *)

Lemma text_utf8_valid_text p : text_utf8 p = valid_text p.
Proof. reflexivity. Qed.

Lemma validate_spec p :
  validate p = if valid_set p then Some (validated_spec p) else None.
Proof.
  unfold validate, valid_set, validated_spec, valid_text, text_utf8, known_enc, named_comp, level_out, bits_out, in_range.
  destruct p as [enc comp lv bt tid rc tgid cnt idx];
    cbn [p_enc p_comp p_level p_bits p_tid p_tgid set_level].
  destruct (utf8_valid enc && utf8_valid comp && utf8_valid tid && utf8_valid tgid); cbn [negb];
    [rewrite andb_true_r | rewrite andb_false_r; reflexivity].
  destruct (is_nil enc || bytes_eqb enc enc_json || bytes_eqb enc enc_proto); cbn [negb andb]; [|reflexivity].
  destruct (is_nil comp) eqn:Ec; cbn [orb].
  - apply is_nil_true in Ec; subst comp. change (bytes_eqb [] comp_pm || bytes_eqb [] comp_cto) with false.
    destruct lv as [l|]; destruct bt as [w|];
      repeat match goal with
             | |- context [(?a <? ?b)%Z] => destruct (Z.ltb_spec a b)
             | |- context [(?a <=? ?b)%Z] => destruct (Z.leb_spec a b)
             end; cbn; try reflexivity; try lia.
  - destruct (bytes_eqb comp comp_pm || bytes_eqb comp comp_cto);
    destruct lv as [l|]; destruct bt as [w|];
      repeat match goal with
             | |- context [(?a <? ?b)%Z] => destruct (Z.ltb_spec a b)
             | |- context [(?a <=? ?b)%Z] => destruct (Z.leb_spec a b)
             end; cbn; try reflexivity; try lia.
Qed.

(* unconditionally: Validate rejects iff the set is not valid *)
Lemma validate_rejects_iff_invalid p : validate p = None <-> valid_set p = false.
Proof. rewrite validate_spec. destruct (valid_set p); split; congruence. Qed.

Lemma validate_accepts p : valid_set p = true -> validate p = Some (validated_spec p).
Proof. intros H. now rewrite validate_spec, H. Qed.

Lemma in_range_false lo hi o : in_range lo hi o = false <-> exists z, o = Some z /\ (z < lo \/ hi < z)%Z.
Proof.
  unfold in_range. destruct o as [z|].
  - rewrite andb_false_iff, !Z.leb_gt. split.
    + intros H. exists z. split; [reflexivity | tauto].
    + intros (z' & E & H). injection E as <-. tauto.
  - split; [discriminate | intros (z & E & _); discriminate].
Qed.

(* the same, spelled out defect by defect *)
Lemma validate_rejects_iff p :
  validate p = None <->
  valid_text p = false \/ (~ enc_known p) \/ (p_comp p <> [] /\ ~ comp_named p)
  \/ (exists l, p_level p = Some l /\ (l < 0 \/ 9 < l)%Z)
  \/ (exists w, p_bits p = Some w /\ (w < 0 \/ 32 < w)%Z).
Proof.
  rewrite validate_rejects_iff_invalid. unfold valid_set.
  rewrite !andb_false_iff, !in_range_false, <- known_enc_iff, <- named_comp_iff.
  assert (C : is_nil (p_comp p) || named_comp (p_comp p) = false <->
              p_comp p <> [] /\ named_comp (p_comp p) <> true).
  { destruct (is_nil (p_comp p)) eqn:E1; destruct (named_comp (p_comp p)) eqn:E2; cbn [orb].
    - apply is_nil_true in E1. split; [discriminate | intros [H _]; congruence].
    - apply is_nil_true in E1. split; [discriminate | intros [H _]; congruence].
    - split; [discriminate | intros [_ H]; congruence].
    - split; [intros _ | reflexivity]. split; [intros E; rewrite E in E1; discriminate | discriminate]. }
  rewrite C, <- (not_true_iff_false (known_enc (p_enc p))). tauto.
Qed.

(* what Validate lets through is in range: CompressConfig can no longer be handed a level
   outside 0..9 or window bits outside 0..32 by a validated set *)
Lemma validated_in_range p p' : validate p = Some p' ->
  in_range 0 9 (p_level p') = true /\ in_range 0 32 (p_bits p') = true /\ valid_set p' = true.
Proof.
  destruct p as [enc comp lv bt tid rc tgid cnt idx]. rewrite validate_spec.
  destruct (valid_set _) eqn:V; [|discriminate]. intros H; injection H as <-.
  unfold valid_set, valid_text in V |- *. unfold validated_spec, set_level.
  cbn [p_enc p_comp p_level p_bits p_tid p_tgid] in *.
  rewrite !andb_true_iff in V. destruct V as [[[[Ha Hc] Hr] Hw] Ht].
  destruct (named_comp comp) eqn:Hn; [destruct lv as [l|]|]; rewrite ?Hn in Hc;
    cbn [p_enc p_comp p_level p_bits p_tid p_tgid];
    rewrite ?Ha, ?Hn, ?Hc, ?Hr, ?Hw, ?orb_true_r; cbn;
    destruct Ht as [[[H1 H2] H3] H4]; rewrite H1, H2, H3, H4; auto.
Qed.

(* ----- the FORMER Validate (findings F26, F27) ----- *)

Lemma validate_former_spec p :
  validate_former p = if valid_spec p then Some (validated_spec p) else None.
Proof.
  unfold validate_former, valid_spec, validated_spec, known_enc, named_comp, check_bits, in_range.
  destruct p as [enc comp lv bt tid rc tgid cnt idx]; cbn [p_enc p_comp p_level p_bits set_level].
  destruct (is_nil enc || bytes_eqb enc enc_json || bytes_eqb enc enc_proto); cbn [negb andb]; [|reflexivity].
  destruct (is_nil comp) eqn:Ec; cbn [orb].
  - apply is_nil_true in Ec; subst comp. reflexivity.
  - destruct (bytes_eqb comp comp_pm || bytes_eqb comp comp_cto); cbn [andb]; [|reflexivity].
    destruct lv as [l|]; destruct bt as [w|]; cbn [p_bits];
      repeat match goal with
             | |- context [(?a <? ?b)%Z] => destruct (Z.ltb_spec a b)
             | |- context [(?a <=? ?b)%Z] => destruct (Z.leb_spec a b)
             end; cbn; try reflexivity; try lia.
Qed.

(* rejection by the former Validate, as an exact characterisation *)
Lemma validate_former_rejects_iff p :
  validate_former p = None <->
  (~ enc_known p) \/ (p_comp p <> [] /\ ~ comp_named p)
  \/ (comp_named p /\ exists l, p_level p = Some l /\ (l < 0 \/ 9 < l)%Z)
  \/ (comp_named p /\ exists w, p_bits p = Some w /\ (w < 0 \/ 32 < w)%Z).
Proof.
  rewrite validate_former_spec. unfold valid_spec.
  rewrite <- known_enc_iff, <- named_comp_iff.
  destruct (known_enc (p_enc p)); cbn [andb].
  2:{ split; [intros _; left; congruence | reflexivity]. }
  destruct (is_nil (p_comp p)) eqn:Ec; cbn [orb].
  - apply is_nil_true in Ec. split; [discriminate|]. rewrite Ec.
    change (named_comp []) with false. intros [H|[[H _]|[[H _]|[H _]]]]; congruence.
  - assert (p_comp p <> []) by (intros E; rewrite E in Ec; discriminate).
    destruct (named_comp (p_comp p)); cbn [andb].
    2:{ split; [intros _; right; left; split; [assumption | congruence] | reflexivity]. }
    unfold in_range.
    destruct (p_level p) as [l|]; destruct (p_bits p) as [w|];
      repeat match goal with
             | |- context [(?a <=? ?b)%Z] => destruct (Z.leb_spec a b)
             end; cbn [andb];
      (split; [ try discriminate; intros _ | try reflexivity; intros [Hx|[[_ Hx]|[[_ (x & Hx & Hy)]|[_ (x & Hx & Hy)]]]];
                                   try congruence; try (injection Hx as ->; lia) ]).
    all: try (right; right; left; split; [reflexivity|]; eexists; split; [reflexivity|]; lia).
    all: try (right; right; right; split; [reflexivity|]; eexists; split; [reflexivity|]; lia).
Qed.

Lemma validate_former_accepts p : valid_spec p = true -> validate_former p = Some (validated_spec p).
Proof. intros H. now rewrite validate_former_spec, H. Qed.

(* ---------- CompressConfig ---------- *)

Lemma config_function p l w base :
  comp_named p -> p_level p = Some l -> p_bits p = Some w ->
  effective (compress_config p base) = eff_spec (p_comp p) l w.
Proof.
  intros Hc Hl Hw. unfold compress_config, eff_spec, effective. rewrite Hl, Hw.
  destruct (l =? 0)%Z; [reflexivity|]. cbn [c_enable c_dct c_level c_bits].
  destruct Hc as [-> | ->]; reflexivity.
Qed.

Lemma config_independent_of_base p l w base1 base2 :
  comp_named p -> p_level p = Some l -> p_bits p = Some w ->
  effective (compress_config p base1) = effective (compress_config p base2).
Proof. intros. now rewrite !(config_function p l w). Qed.

(* with a non-zero level even the whole Config value is independent of the base *)
Lemma config_independent_full p l w base1 base2 :
  comp_named p -> p_level p = Some l -> p_bits p = Some w -> l <> 0%Z ->
  compress_config p base1 = compress_config p base2.
Proof.
  intros Hc Hl Hw Hn. unfold compress_config. rewrite Hl, Hw.
  destruct (Z.eqb_spec l 0); [congruence|]. destruct Hc as [-> | ->]; reflexivity.
Qed.

Lemma dial_params_named dc :
  comp_named (dial_params dc) /\ p_level (dial_params dc) = Some (c_level (dc_comp dc))
  /\ p_bits (dial_params dc) = Some (c_bits (dc_comp dc)).
Proof.
  unfold dial_params, comp_named, ctype; cbn. destruct (c_dct (dc_comp dc)); auto.
Qed.

(* ---------- key/value round trip ---------- *)

Lemma insert_by_perm {V} (kv : bytes * V) l : Permutation (insert_by kv l) (kv :: l).
Proof.
  induction l as [|h t IH]; cbn [insert_by]; [reflexivity|].
  destruct (bytes_leb (fst kv) (fst h)); [reflexivity|].
  rewrite IH. apply perm_swap.
Qed.

Lemma sort_by_perm {V} (l : list (bytes * V)) : Permutation (sort_by l) l.
Proof.
  induction l as [|h t IH]; cbn; [reflexivity|].
  unfold sort_by in *. cbn [fold_right]. rewrite insert_by_perm. now constructor.
Qed.

(* a fold over commuting steps does not depend on the order *)
Lemma fold_left_perm {A B} (f : A -> B -> A) l l' :
  Permutation l l' ->
  (forall x y, In x l -> In y l -> forall s, f (f s x) y = f (f s y) x) ->
  forall s, fold_left f l s = fold_left f l' s.
Proof.
  induction 1 as [|x l l' HP IH|x y l|l l' l'' HP1 IH1 HP2 IH2]; intros Hc s.
  - reflexivity.
  - cbn [fold_left]. apply IH. intros a b Ha Hb. apply Hc; now right.
  - cbn [fold_left]. rewrite (Hc y x) by (cbn; auto). reflexivity.
  - rewrite IH1 by exact Hc. apply IH2. intros a b Ha Hb.
    apply Hc; (eapply Permutation_in; [apply Permutation_sym; exact HP1 | assumption]).
Qed.

Lemma fold_kv_none l : fold_left kv_step l None = None.
Proof. induction l; cbn; auto. Qed.

Definition bind {A B} (o : option A) (f : A -> option B) : option B :=
  match o with Some a => f a | None => None end.

(* stores into different fields commute *)
Lemma store_comm f1 f2 e1 e2 s v1 v2 : f1 <> f2 ->
  bind (store_field f1 e1 s v1) (fun s' => store_field f2 e2 s' v2) =
  bind (store_field f2 e2 s v2) (fun s' => store_field f1 e1 s' v1).
Proof.
  intros Hne. destruct s as [enc comp lv bt tid rc tgid cnt idx].
  Local Ltac red_store :=
    cbn [store_field bind option_map upd_enc upd_comp upd_level upd_bits upd_tid upd_reconnect upd_tgid
         upd_tgcount upd_tgidx set_level p_enc p_comp p_level p_bits p_tid p_reconnect p_tgid p_tgcount p_tgidx].
  destruct f1, f2; try congruence; destruct e1, e2; red_store;
    repeat (match goal with
            | H : ?t = _ |- context [?t] => rewrite H
            | |- context [store_ptr ?v] => destruct (store_ptr v) eqn:?
            | |- context [store_int ?o ?v] => destruct (store_int o v) eqn:?
            | |- context [parse_bool ?v] => destruct (parse_bool v) eqn:?
            end; red_store); reflexivity.
Qed.

Definition key_field (kv : bytes * bytes) := field_of_key (sanitize (fst kv)).

Lemma kv_step_comm x y s :
  (forall f1 e1 f2 e2, key_field x = Some (f1, e1) -> key_field y = Some (f2, e2) -> f1 <> f2) ->
  kv_step (kv_step s x) y = kv_step (kv_step s y) x.
Proof.
  intros H. destruct s as [s|]; [|reflexivity]. unfold key_field in H. cbn [kv_step].
  destruct (field_of_key (sanitize (fst x))) as [[f1 e1]|] eqn:E1;
  destruct (field_of_key (sanitize (fst y))) as [[f2 e2]|] eqn:E2.
  - specialize (H _ _ _ _ eq_refl eq_refl).
    pose proof (store_comm f1 f2 e1 e2 s (sanitize (snd x)) (sanitize (snd y)) H) as C.
    unfold bind in C.
    destruct (store_field f1 e1 s (sanitize (snd x))) as [s1|] eqn:S1;
    destruct (store_field f2 e2 s (sanitize (snd y))) as [s2|] eqn:S2; cbn [kv_step].
    + rewrite E1, E2. exact C.
    + rewrite E2. exact C.
    + rewrite E1. first [exact C | symmetry; exact C].
    + reflexivity.
  - destruct (store_field f1 e1 s (sanitize (snd x))) as [s1|] eqn:S1; cbn [kv_step]; rewrite ?E1, ?E2, ?S1; reflexivity.
  - destruct (store_field f2 e2 s (sanitize (snd y))) as [s2|] eqn:S2; cbn [kv_step]; rewrite ?E1, ?E2, ?S2; reflexivity.
  - cbn [kv_step]. now rewrite E1, E2.
Qed.

(* the pairs MarshalKeyValues can emit *)
Definition emitted (p : params) (x : bytes * bytes) : Prop :=
  x = (k_enc, sanitize (p_enc p)) \/ x = (k_comp, sanitize (p_comp p))
  \/ (exists z, p_level p = Some z /\ x = (k_clevel, print_int z))
  \/ (exists z, p_bits p = Some z /\ x = (k_cwinbits, print_int z))
  \/ x = (k_tid, sanitize (p_tid p)) \/ x = (k_reconnect, b_true)
  \/ x = (k_tgid, sanitize (p_tgid p)) \/ x = (k_tgcount, print_int (p_tgcount p))
  \/ x = (k_tgidx, print_int (p_tgidx p)).

Lemma marshal_kv_emitted p x : In x (kv_pairs p) -> emitted p x.
Proof.
  unfold kv_pairs, emitted. rewrite !in_app_iff.
  intros [H|[H|[H|[H|[H|[H|[H|[H|H]]]]]]]].
  - destruct (is_nil (p_enc p)); cbn in H; intuition.
  - destruct (is_nil (p_comp p)); cbn in H; intuition.
  - destruct (p_level p) as [z|]; cbn in H; [|tauto]. destruct H as [<-|[]]. right; right; left. eauto.
  - destruct (p_bits p) as [z|]; cbn in H; [|tauto]. destruct H as [<-|[]]. right; right; right; left. eauto.
  - destruct (is_nil (p_tid p)); cbn in H; intuition.
  - destruct (p_reconnect p); cbn in H; intuition.
  - destruct (is_nil (p_tgid p)); cbn in H; intuition.
  - destruct (p_tgcount p =? 0)%Z; cbn in H; intuition.
  - destruct (p_tgidx p =? 0)%Z; cbn in H; intuition.
Qed.

(* field reached by each emitted pair *)
Definition emitted_field (p : params) (x : bytes * bytes) (f : field) : Prop :=
  key_field x = Some (f, true).

Lemma emitted_key_field p x : emitted p x ->
  (key_field x = Some (FEnc, true) /\ x = (k_enc, sanitize (p_enc p)))
  \/ (key_field x = Some (FComp, true) /\ x = (k_comp, sanitize (p_comp p)))
  \/ (key_field x = Some (FLevel, true) /\ exists z, p_level p = Some z /\ x = (k_clevel, print_int z))
  \/ (key_field x = Some (FBits, true) /\ exists z, p_bits p = Some z /\ x = (k_cwinbits, print_int z))
  \/ (key_field x = Some (FTid, true) /\ x = (k_tid, sanitize (p_tid p)))
  \/ (key_field x = Some (FReconnect, true) /\ x = (k_reconnect, b_true))
  \/ (key_field x = Some (FTgid, true) /\ x = (k_tgid, sanitize (p_tgid p)))
  \/ (key_field x = Some (FTgcount, true) /\ x = (k_tgcount, print_int (p_tgcount p)))
  \/ (key_field x = Some (FTgidx, true) /\ x = (k_tgidx, print_int (p_tgidx p))).
Proof.
  intros [H|[H|[(z & Hz & H)|[(z & Hz & H)|[H|[H|[H|[H|H]]]]]]]]; subst x.
  - left. split; reflexivity.
  - right; left. split; reflexivity.
  - right; right; left. split; [reflexivity | eauto].
  - right; right; right; left. split; [reflexivity | eauto].
  - right; right; right; right; left. split; reflexivity.
  - right; right; right; right; right; left. split; reflexivity.
  - right; right; right; right; right; right; left. split; reflexivity.
  - right; right; right; right; right; right; right; left. split; reflexivity.
  - right; right; right; right; right; right; right; right. split; reflexivity.
Qed.

Lemma emitted_comm p x y s : emitted p x -> emitted p y ->
  kv_step (kv_step s x) y = kv_step (kv_step s y) x.
Proof.
  intros Hx Hy.
  assert (D : x = y \/ forall f1 e1 f2 e2, key_field x = Some (f1, e1) -> key_field y = Some (f2, e2) -> f1 <> f2).
  { apply emitted_key_field in Hx, Hy.
    repeat (destruct Hx as [Hx|Hx]); repeat (destruct Hy as [Hy|Hy]);
      destruct Hx as [Fx Ex]; destruct Hy as [Fy Ey];
      try (right; intros f1 e1 f2 e2 H1 H2; rewrite Fx in H1; rewrite Fy in H2;
           injection H1 as <- <-; injection H2 as <- <-; discriminate);
      left.
    - congruence.
    - congruence.
    - destruct Ex as (z & Hz & ->), Ey as (z' & Hz' & ->). congruence.
    - destruct Ex as (z & Hz & ->), Ey as (z' & Hz' & ->). congruence.
    - congruence.
    - congruence.
    - congruence.
    - congruence.
    - congruence. }
  destruct D as [-> | D]; [reflexivity | now apply kv_step_comm].
Qed.

Lemma emitted_not_bad_reconnect p x : emitted p x -> bad_reconnect x = false.
Proof.
  intros [H|[H|[(z & Hz & H)|[(z & Hz & H)|[H|[H|[H|[H|H]]]]]]]]; subst x; reflexivity.
Qed.

(* the set of parameter sets the round trip is proved for *)
Definition transportable_p (p : params) : Prop :=
  utf8_valid (p_enc p) = true /\ utf8_valid (p_comp p) = true
  /\ utf8_valid (p_tid p) = true /\ utf8_valid (p_tgid p) = true
  /\ (forall z, p_level p = Some z -> in_int64 z = true)
  /\ (forall z, p_bits p = Some z -> in_int64 z = true)
  /\ in_int64 (p_tgcount p) = true /\ in_int64 (p_tgidx p) = true.

Lemma transportable_iff p : transportable p = true <-> transportable_p p.
Proof.
  unfold transportable, transportable_p, oz_int64. rewrite !andb_true_iff.
  destruct (p_level p), (p_bits p); intuition; try congruence;
    match goal with H : forall z, Some ?a = Some z -> _ |- _ => apply H; reflexivity end.
Qed.

Lemma kv_step_name s f v k :
  field_of_key k = Some (f, true) -> sanitize k = k ->
  kv_step (Some s) (k, v) = store_field f true s (sanitize v).
Proof. intros H1 H2. cbn [kv_step fst snd]. now rewrite H2, H1. Qed.

(* in struct order, starting from the zero value, the fold rebuilds the set *)
Lemma fold_marshal_kv p : transportable_p p ->
  fold_left kv_step (kv_pairs p) (Some p0) = Some p.
Proof.
  intros (He & Hc & Ht & Hg & Hl & Hb & Hn & Hi).
  destruct p as [enc comp lv bt tid rc tgid cnt idx].
  cbn [p_enc p_comp p_level p_bits p_tid p_reconnect p_tgid p_tgcount p_tgidx] in *.
  unfold kv_pairs. cbn [p_enc p_comp p_level p_bits p_tid p_reconnect p_tgid p_tgcount p_tgidx].
  rewrite !fold_left_app.
  assert (S1 : fold_left kv_step (if is_nil enc then [] else [(k_enc, sanitize enc)]) (Some p0)
               = Some (mkP enc [] None None [] false [] 0 0)).
  { destruct enc as [|c e]; [reflexivity|]. cbn [is_nil fold_left].
    rewrite (kv_step_name _ FEnc) by reflexivity. rewrite !(sanitize_valid _ He). reflexivity. }
  rewrite S1; clear S1.
  assert (S2 : forall s, s = mkP enc [] None None [] false [] 0 0 ->
               fold_left kv_step (if is_nil comp then [] else [(k_comp, sanitize comp)]) (Some s)
               = Some (mkP enc comp None None [] false [] 0 0)).
  { intros s ->. destruct comp as [|c e]; [reflexivity|]. cbn [is_nil fold_left].
    rewrite (kv_step_name _ FComp) by reflexivity. rewrite !(sanitize_valid _ Hc). reflexivity. }
  rewrite (S2 _ eq_refl); clear S2.
  assert (S3 : forall s, s = mkP enc comp None None [] false [] 0 0 ->
               fold_left kv_step (match lv with None => [] | Some z => [(k_clevel, print_int z)] end) (Some s)
               = Some (mkP enc comp lv None [] false [] 0 0)).
  { intros s ->. destruct lv as [z|]; [|reflexivity]. cbn [fold_left].
    rewrite (kv_step_name _ FLevel) by reflexivity. rewrite print_int_sanitize.
    cbn [store_field]. rewrite store_ptr_print by auto. reflexivity. }
  rewrite (S3 _ eq_refl); clear S3.
  assert (S4 : forall s, s = mkP enc comp lv None [] false [] 0 0 ->
               fold_left kv_step (match bt with None => [] | Some z => [(k_cwinbits, print_int z)] end) (Some s)
               = Some (mkP enc comp lv bt [] false [] 0 0)).
  { intros s ->. destruct bt as [z|]; [|reflexivity]. cbn [fold_left].
    rewrite (kv_step_name _ FBits) by reflexivity. rewrite print_int_sanitize.
    cbn [store_field]. rewrite store_ptr_print by auto. reflexivity. }
  rewrite (S4 _ eq_refl); clear S4.
  assert (S5 : forall s, s = mkP enc comp lv bt [] false [] 0 0 ->
               fold_left kv_step (if is_nil tid then [] else [(k_tid, sanitize tid)]) (Some s)
               = Some (mkP enc comp lv bt tid false [] 0 0)).
  { intros s ->. destruct tid as [|c e]; [reflexivity|]. cbn [is_nil fold_left].
    rewrite (kv_step_name _ FTid) by reflexivity. rewrite !(sanitize_valid _ Ht). reflexivity. }
  rewrite (S5 _ eq_refl); clear S5.
  assert (S6 : forall s, s = mkP enc comp lv bt tid false [] 0 0 ->
               fold_left kv_step (if rc then [(k_reconnect, b_true)] else []) (Some s)
               = Some (mkP enc comp lv bt tid rc [] 0 0)).
  { intros s ->. destruct rc; reflexivity. }
  rewrite (S6 _ eq_refl); clear S6.
  assert (S7 : forall s, s = mkP enc comp lv bt tid rc [] 0 0 ->
               fold_left kv_step (if is_nil tgid then [] else [(k_tgid, sanitize tgid)]) (Some s)
               = Some (mkP enc comp lv bt tid rc tgid 0 0)).
  { intros s ->. destruct tgid as [|c e]; [reflexivity|]. cbn [is_nil fold_left].
    rewrite (kv_step_name _ FTgid) by reflexivity. rewrite !(sanitize_valid _ Hg). reflexivity. }
  rewrite (S7 _ eq_refl); clear S7.
  assert (S8 : forall s, s = mkP enc comp lv bt tid rc tgid 0 0 ->
               fold_left kv_step (if (cnt =? 0)%Z then [] else [(k_tgcount, print_int cnt)]) (Some s)
               = Some (mkP enc comp lv bt tid rc tgid cnt 0)).
  { intros s ->. destruct (Z.eqb_spec cnt 0) as [->|]; [reflexivity|]. cbn [fold_left].
    rewrite (kv_step_name _ FTgcount) by reflexivity. rewrite print_int_sanitize.
    cbn [store_field]. rewrite store_int_print by auto. reflexivity. }
  rewrite (S8 _ eq_refl); clear S8.
  destruct (Z.eqb_spec idx 0) as [->|]; [reflexivity|]. cbn [fold_left].
  rewrite (kv_step_name _ FTgidx) by reflexivity. rewrite print_int_sanitize.
  cbn [store_field]. rewrite store_int_print by auto. reflexivity.
Qed.

(* every emitted pair is UTF-8 text when the set's text is *)
Lemma emitted_utf8 p x : transportable_p p -> emitted p x ->
  utf8_valid (fst x) && utf8_valid (snd x) = true.
Proof.
  intros (He & Hc & Ht & Hg & _) Hx.
  assert (V : forall z, utf8_valid (print_int z) = true) by (intros; apply ascii_valid, print_int_ascii).
  destruct Hx as [H|[H|[(z & Hz & H)|[(z & Hz & H)|[H|[H|[H|[H|H]]]]]]]]; subst x; cbn [fst snd];
    rewrite ?V, ?sanitize_valid by assumption; rewrite ?He, ?Hc, ?Ht, ?Hg; reflexivity.
Qed.

(* key/value round trip, for every order of the emitted pairs *)
Lemma kv_roundtrip p q : transportable_p p -> Permutation q (kv_pairs p) ->
  unmarshal_kv q = Some p.
Proof.
  intros Ht HP. unfold unmarshal_kv, unmarshal_kv_into.
  assert (Hem : forall x, In x q -> emitted p x).
  { intros x Hx. apply marshal_kv_emitted. eapply Permutation_in; eauto. }
  assert (kv_text_ok q = true) as ->.
  { apply forallb_forall. intros x Hx. apply (emitted_utf8 p); auto. }
  cbn [negb]. unfold unmarshal_kv_into_former.
  assert (existsb bad_reconnect q = false) as ->.
  { destruct (existsb bad_reconnect q) eqn:E; [|reflexivity].
    apply existsb_exists in E as (x & Hx & Hb). rewrite (emitted_not_bad_reconnect p x) in Hb by auto. discriminate. }
  rewrite <- (fold_marshal_kv p Ht).
  apply fold_left_perm.
  - unfold sort_kv. rewrite sort_by_perm. exact HP.
  - intros x y Hx Hy s. apply (emitted_comm p); apply Hem.
    + eapply Permutation_in; [apply sort_by_perm | exact Hx].
    + eapply Permutation_in; [apply sort_by_perm | exact Hy].
Qed.

(* URL values: same text, one value per key *)
Lemma url_to_kv_singletons l : (forall kv, In kv l -> fst kv <> []) -> url_to_kv (singletons l) = Some l.
Proof.
  induction l as [|[k v] l IH]; intros H; [reflexivity|].
  cbn [singletons map url_to_kv] in *. unfold url_entry at 1. cbn [fst snd].
  destruct k as [|c k]; [exfalso; apply (H ([], v)); [now left | reflexivity]|].
  cbn [is_nil]. fold (singletons l). rewrite IH; [reflexivity|]. intros kv Hk. apply H. now right.
Qed.

Lemma emitted_key_nonempty p x : emitted p x -> fst x <> [].
Proof.
  intros [H|[H|[(z & Hz & H)|[(z & Hz & H)|[H|[H|[H|[H|H]]]]]]]]; subst x; discriminate.
Qed.

Lemma url_roundtrip p q : transportable_p p -> Permutation q (kv_pairs p) ->
  unmarshal_url (singletons q) = Some p.
Proof.
  intros Ht HP. unfold unmarshal_url, unmarshal_url_into. rewrite url_to_kv_singletons.
  - now apply kv_roundtrip.
  - intros kv Hk. apply (emitted_key_nonempty p), marshal_kv_emitted. eapply Permutation_in; eauto.
Qed.

Lemma url_of_kv_singletons l : url_of_kv l = singletons l.
Proof. reflexivity. Qed.

(* ---------- binary form ---------- *)

Definition entry_ok (kv : bytes * bytes) : Prop :=
  fst kv <> [] /\ N.of_nat (length (fst kv)) < 65536 /\ N.of_nat (length (snd kv)) < 65536
  /\ utf8_valid (fst kv) = true /\ utf8_valid (snd kv) = true.

Lemma firstn_app_exact {A} (a b : list A) : firstn (length a) (a ++ b) = a.
Proof. induction a; cbn; [now destruct b | now f_equal]. Qed.

Lemma skipn_app_exact {A} (a b : list A) : skipn (length a) (a ++ b) = b.
Proof. induction a; cbn; auto. Qed.

Lemma has_key_false k l : has_key k l = false <-> ~ In k (map fst l).
Proof.
  unfold has_key. induction l as [|[k' v] l IH]; cbn [existsb map In fst]; [tauto|].
  rewrite orb_false_iff, IH, bytes_eqb_neq. intuition.
Qed.

Lemma has_key_true k l : has_key k l = true <-> In k (map fst l).
Proof.
  destruct (has_key k l) eqn:E.
  - split; [intros _|reflexivity]. destruct (in_dec (list_eq_dec N.eq_dec) k (map fst l)) as [H|H]; [exact H|].
    apply has_key_false in H. congruence.
  - apply has_key_false in E. split; [discriminate | tauto].
Qed.

(* one iteration of the reader on a well-formed pair *)
Lemma read_loop_step fuel k v rest acc : entry_ok (k, v) ->
  read_loop (S fuel) (frame (k, v) ++ rest) acc =
  if has_key k acc then None else read_loop fuel rest (acc ++ [(k, v)]).
Proof.
  intros (Hk & Hlk & Hlv & Huk & Huv). cbn [fst snd] in *.
  unfold frame, len16, be16. cbn [fst snd]. rewrite <- !app_assoc. cbn [app read_loop].
  rewrite rd16_be16 by lia.
  assert (N.of_nat (length k) =? 0 = false) as -> by (destruct k; [congruence | cbn [length]; lia]).
  rewrite Nat2N.id, firstn_app_exact, N.ltb_irrefl, Huk. cbn [negb].
  rewrite skipn_app_exact. cbn [app].
  rewrite rd16_be16 by lia.
  rewrite Nat2N.id, firstn_app_exact, N.ltb_irrefl, Huv. cbn [negb].
  now rewrite skipn_app_exact.
Qed.

Definition keys_ok (acc l : kvs) : Prop :=
  NoDup (map fst l) /\ forall k, In k (map fst l) -> ~ In k (map fst acc).

(* the reader consumes a well-formed prefix pair by pair *)
Lemma read_loop_prefix l : forall fuel acc rest,
  Forall entry_ok l -> keys_ok acc l ->
  read_loop (length l + fuel) (frames l ++ rest) acc = read_loop fuel rest (acc ++ l).
Proof.
  induction l as [|[k v] l IH]; intros fuel acc rest Hf [Hnd Hfr].
  - cbn. now rewrite app_nil_r.
  - inversion Hf as [|? ? He Hf']; subst. cbn [map fst] in Hnd, Hfr. inversion Hnd as [|? ? Hnk Hnd']; subst.
    unfold frames. cbn [map concat length plus]. rewrite <- app_assoc.
    rewrite read_loop_step by exact He.
    assert (has_key k acc = false) as -> by (apply has_key_false, Hfr; now left).
    fold (frames l). rewrite IH; [now rewrite <- app_assoc | exact Hf' |].
    split; [exact Hnd'|]. intros k' Hk'. rewrite map_app, in_app_iff. cbn [map fst In].
    intros [H|[H|[]]]; [apply (Hfr k'); [now right | exact H] | subst; contradiction].
Qed.

Lemma frame_length kv : (1 <= length (frame kv))%nat.
Proof. unfold frame, len16, be16. rewrite app_length. cbn [length]. lia. Qed.

Lemma frames_length l : (length l <= length (frames l))%nat.
Proof.
  induction l as [|kv l IH]; [cbn; lia|]. unfold frames in *. cbn [map concat length].
  rewrite app_length. pose proof (frame_length kv). lia.
Qed.

(* the reader returns exactly the pairs of a well-formed framing *)
Lemma read_bin_frames l : Forall entry_ok l -> NoDup (map fst l) -> read_bin (frames l) = Some l.
Proof.
  intros Hf Hnd. unfold read_bin. pose proof (frames_length l) as HL.
  replace (S (length (frames l))) with (length l + S (length (frames l) - length l))%nat by lia.
  rewrite <- (app_nil_r (frames l)) at 2. rewrite read_loop_prefix; [reflexivity | exact Hf |].
  split; [exact Hnd | intros k _ []].
Qed.

(* emitted pairs are well-formed entries when the values fit the 16-bit length prefix *)
Definition short_values (p : params) : Prop :=
  forall kv, In kv (kv_pairs p) -> N.of_nat (length (snd kv)) < 65536.

Lemma sanitize_idem_valid l : utf8_valid l = true -> utf8_valid (sanitize l) = true.
Proof. intros H. now rewrite sanitize_valid. Qed.

Lemma emitted_entry_ok p x : transportable_p p -> emitted p x -> N.of_nat (length (snd x)) < 65536 -> entry_ok x.
Proof.
  intros (He & Hc & Ht & Hg & _) Hx Hlen. unfold entry_ok.
  assert (V : forall z, utf8_valid (print_int z) = true) by (intros; apply ascii_valid, print_int_ascii).
  destruct Hx as [H|[H|[(z & Hz & H)|[(z & Hz & H)|[H|[H|[H|[H|H]]]]]]]]; subst x; cbn [fst snd] in *;
    (split; [discriminate|]); (split; [cbn; lia|]); (split; [exact Hlen|]); (split; [reflexivity|]);
    auto using sanitize_idem_valid.
Qed.

Lemma emitted_keys_nodup p : NoDup (map fst (kv_pairs p)).
Proof.
  unfold kv_pairs.
  destruct (is_nil (p_enc p)), (is_nil (p_comp p)), (p_level p), (p_bits p), (is_nil (p_tid p)),
    (p_reconnect p), (is_nil (p_tgid p)), (p_tgcount p =? 0)%Z, (p_tgidx p =? 0)%Z;
    cbn [app map fst];
    repeat (constructor; [cbn [In]; intros H; repeat (destruct H as [H|H]; [discriminate H|]); exact H|]);
    constructor.
Qed.

(* binary round trip, for every order in which the pairs may be written *)
Lemma bin_roundtrip p q : transportable_p p -> short_values p -> Permutation q (kv_pairs p) ->
  unmarshal_bin (frames q) = Some p.
Proof.
  intros Ht Hs HP. unfold unmarshal_bin, unmarshal_bin_into. rewrite read_bin_frames.
  - now apply kv_roundtrip.
  - apply Forall_forall. intros x Hx.
    assert (In x (kv_pairs p)) by (eapply Permutation_in; eauto).
    apply (emitted_entry_ok p); auto using marshal_kv_emitted.
  - eapply Permutation_NoDup; [apply Permutation_sym, Permutation_map, HP | apply emitted_keys_nodup].
Qed.

(* ----- what the reader accepts is a well-formed framing (so everything else is rejected) ----- *)

Lemma bytes_ok_skipn n l : bytes_ok l = true -> bytes_ok (skipn n l) = true.
Proof.
  unfold bytes_ok. revert l; induction n as [|n IH]; intros l H; [exact H|].
  destruct l as [|x l]; [reflexivity|]. cbn [skipn]. cbn [forallb] in H.
  apply andb_true_iff in H as [_ H]. now apply IH.
Qed.

Lemma firstn_full {A} n (r : list A) :
  N.of_nat (length (firstn n r)) <? N.of_nat n = false -> length (firstn n r) = n.
Proof. intros H. pose proof (firstn_le_length n r). lia. Qed.

Lemma read_loop_inv fuel h lo r acc l :
  read_loop (S fuel) (h :: lo :: r) acc = Some l ->
  exists key h2 l2 val r3,
    rd16 h lo <> 0 /\ N.of_nat (length key) = rd16 h lo /\ utf8_valid key = true
    /\ r = key ++ h2 :: l2 :: val ++ r3
    /\ N.of_nat (length val) = rd16 h2 l2 /\ utf8_valid val = true /\ has_key key acc = false
    /\ read_loop fuel r3 (acc ++ [(key, val)]) = Some l.
Proof.
  cbn [read_loop]. set (klen := rd16 h lo). set (key := firstn (N.to_nat klen) r).
  destruct (klen =? 0) eqn:E0; [discriminate|].
  destruct (N.of_nat (length key) <? klen) eqn:E1; [discriminate|].
  destruct (utf8_valid key) eqn:E2; cbn [negb]; [|discriminate].
  destruct (skipn (N.to_nat klen) r) as [|h2 [|l2 r2]] eqn:Esk; try discriminate.
  set (vlen := rd16 h2 l2). set (val := firstn (N.to_nat vlen) r2).
  destruct (N.of_nat (length val) <? vlen) eqn:E3; [discriminate|].
  destruct (utf8_valid val) eqn:E4; cbn [negb]; [|discriminate].
  destruct (has_key key acc) eqn:E5; [discriminate|]. intros H.
  exists key, h2, l2, val, (skipn (N.to_nat vlen) r2).
  assert (Lk : length key = N.to_nat klen).
  { apply firstn_full. subst key. rewrite N2Nat.id. exact E1. }
  assert (Lv : length val = N.to_nat vlen).
  { apply firstn_full. subst val. rewrite N2Nat.id. exact E3. }
  repeat split; auto; try lia.
  rewrite <- (firstn_skipn (N.to_nat klen) r) at 1. fold key. rewrite Esk. do 3 f_equal.
  symmetry. apply (firstn_skipn (N.to_nat vlen) r2).
Qed.

Lemma bytes_ok_cons x l : bytes_ok (x :: l) = true <-> x < 256 /\ bytes_ok l = true.
Proof. unfold bytes_ok, byte_ok. cbn [forallb]. rewrite andb_true_iff, N.ltb_lt. tauto. Qed.

Lemma bytes_ok_app a b : bytes_ok (a ++ b) = true <-> bytes_ok a = true /\ bytes_ok b = true.
Proof. unfold bytes_ok. rewrite forallb_app, andb_true_iff. tauto. Qed.

Lemma read_loop_sound fuel : forall b acc l, bytes_ok b = true -> read_loop fuel b acc = Some l ->
  exists l2, l = acc ++ l2 /\ b = frames l2 /\ Forall entry_ok l2 /\ keys_ok acc l2.
Proof.
  induction fuel as [|fuel IH]; intros b acc l Hb H; [discriminate|].
  destruct b as [|h [|lo r]].
  - cbn in H. injection H as <-. exists []. rewrite app_nil_r. repeat split; auto; try constructor; try (intros k []).
  - discriminate.
  - apply read_loop_inv in H as (key & h2 & l2 & val & r3 & K0 & Lk & Uk & Er & Lv & Uv & Hk & Hrec).
    subst r. apply bytes_ok_cons in Hb as [Hh Hb]. apply bytes_ok_cons in Hb as [Hlo Hb].
    apply bytes_ok_app in Hb as [_ Hb]. apply bytes_ok_cons in Hb as [Hh2 Hb]. apply bytes_ok_cons in Hb as [Hl2 Hb].
    apply bytes_ok_app in Hb as [_ Hb].
    destruct (IH _ _ _ Hb Hrec) as (l3 & -> & -> & Hf & Hnd & Hfr).
    exists ((key, val) :: l3). split; [now rewrite <- app_assoc|]. split; [|split; [|split]].
    + change (frames ((key, val) :: l3)) with (frame (key, val) ++ frames l3). unfold frame, len16. cbn [fst snd].
      rewrite Lk, Lv, !be16_rd16 by assumption. cbn [app]. rewrite <- !app_assoc. reflexivity.
    + constructor; [|exact Hf]. unfold entry_ok. cbn [fst snd]. rewrite Lk, Lv. unfold rd16 in *.
      repeat split; auto; try lia. intros ->. cbn in Lk. lia.
    + cbn [map fst]. constructor; [|exact Hnd]. intros Hin. apply (Hfr key Hin).
      rewrite map_app, in_app_iff. right. now left.
    + intros k [<-|Hin]; [now apply has_key_false|]. intros Hacc. apply (Hfr k Hin).
      rewrite map_app, in_app_iff. now left.
Qed.

(* exact characterisation of the binary reader on byte strings *)
Lemma read_bin_iff b l : bytes_ok b = true ->
  (read_bin b = Some l <-> b = frames l /\ Forall entry_ok l /\ NoDup (map fst l)).
Proof.
  intros Hb. split.
  - intros H. apply read_loop_sound in H as (l2 & -> & -> & Hf & Hnd & _); auto.
  - intros (-> & Hf & Hnd). now apply read_bin_frames.
Qed.

Lemma read_bin_rejects b : bytes_ok b = true ->
  (forall l, b = frames l -> Forall entry_ok l -> NoDup (map fst l) -> False) -> read_bin b = None.
Proof.
  intros Hb H. destruct (read_bin b) as [l|] eqn:E; [|reflexivity].
  apply read_bin_iff in E as (E1 & E2 & E3); [|exact Hb]. exfalso. eauto.
Qed.

(* the named defects, each after any well-formed prefix [l] already read *)
Lemma read_loop_stop l rest acc fuel :
  Forall entry_ok l -> keys_ok acc l ->
  read_loop (length l + fuel) (frames l ++ rest) acc = read_loop fuel rest (acc ++ l).
Proof. intros. now apply read_loop_prefix. Qed.

Lemma read_bin_prefix_then l rest :
  Forall entry_ok l -> NoDup (map fst l) ->
  exists fuel, read_bin (frames l ++ rest) = read_loop (S fuel) rest l /\ (length rest <= fuel)%nat.
Proof.
  intros Hf Hnd. unfold read_bin. rewrite app_length. pose proof (frames_length l).
  exists (length (frames l) - length l + length rest)%nat. split; [|lia].
  replace (S (length (frames l) + length rest)) with
    (length l + S (length (frames l) - length l + length rest))%nat by lia.
  rewrite read_loop_prefix; [reflexivity | exact Hf |]. split; [exact Hnd | intros k _ []].
Qed.

Lemma reject_empty_key l rest : Forall entry_ok l -> NoDup (map fst l) ->
  read_bin (frames l ++ 0 :: 0 :: rest) = None.
Proof. intros Hf Hnd. destruct (read_bin_prefix_then l (0 :: 0 :: rest) Hf Hnd) as (fuel & -> & _). reflexivity. Qed.

Lemma reject_duplicate l k v rest : Forall entry_ok l -> NoDup (map fst l) -> entry_ok (k, v) ->
  In k (map fst l) -> read_bin (frames l ++ frame (k, v) ++ rest) = None.
Proof.
  intros Hf Hnd He Hin. destruct (read_bin_prefix_then l (frame (k, v) ++ rest) Hf Hnd) as (fuel & -> & _).
  rewrite read_loop_step by exact He. apply has_key_true in Hin. now rewrite Hin.
Qed.

Lemma reject_lone_byte l x : Forall entry_ok l -> NoDup (map fst l) -> read_bin (frames l ++ [x]) = None.
Proof. intros Hf Hnd. destruct (read_bin_prefix_then l [x] Hf Hnd) as (fuel & -> & _). reflexivity. Qed.

(* a key that is not UTF-8 (of the announced length) *)
Lemma reject_bad_key l k rest : Forall entry_ok l -> NoDup (map fst l) ->
  k <> [] -> N.of_nat (length k) < 65536 -> utf8_valid k = false ->
  read_bin (frames l ++ len16 k ++ k ++ rest) = None.
Proof.
  intros Hf Hnd Hk Hl Hu. destruct (read_bin_prefix_then l (len16 k ++ k ++ rest) Hf Hnd) as (fuel & -> & _).
  unfold len16, be16. cbn [app read_loop]. rewrite rd16_be16 by lia.
  assert (N.of_nat (length k) =? 0 = false) as -> by (destruct k; [congruence | cbn [length]; lia]).
  now rewrite Nat2N.id, firstn_app_exact, N.ltb_irrefl, Hu.
Qed.

(* a value that is not UTF-8 *)
Lemma reject_bad_value l k v rest : Forall entry_ok l -> NoDup (map fst l) ->
  k <> [] -> N.of_nat (length k) < 65536 -> utf8_valid k = true ->
  N.of_nat (length v) < 65536 -> utf8_valid v = false ->
  read_bin (frames l ++ frame (k, v) ++ rest) = None.
Proof.
  intros Hf Hnd Hk Hl Hu Hlv Huv.
  destruct (read_bin_prefix_then l (frame (k, v) ++ rest) Hf Hnd) as (fuel & -> & _).
  unfold frame, len16, be16. cbn [fst snd]. rewrite <- !app_assoc. cbn [app read_loop].
  rewrite rd16_be16 by lia.
  assert (N.of_nat (length k) =? 0 = false) as -> by (destruct k; [congruence | cbn [length]; lia]).
  rewrite Nat2N.id, firstn_app_exact, N.ltb_irrefl, Hu. cbn [negb].
  rewrite skipn_app_exact. cbn [app]. rewrite rd16_be16 by lia.
  now rewrite Nat2N.id, firstn_app_exact, N.ltb_irrefl, Huv.
Qed.

(* truncation: the bytes end inside a key or inside a value *)
Lemma reject_short_key l h lo r : Forall entry_ok l -> NoDup (map fst l) ->
  N.of_nat (length r) < rd16 h lo -> read_bin (frames l ++ h :: lo :: r) = None.
Proof.
  intros Hf Hnd Hs. destruct (read_bin_prefix_then l (h :: lo :: r) Hf Hnd) as (fuel & -> & _).
  cbn [read_loop]. destruct (rd16 h lo =? 0); [reflexivity|].
  assert (N.of_nat (length (firstn (N.to_nat (rd16 h lo)) r)) <? rd16 h lo = true) as ->
    by (rewrite firstn_length; lia). reflexivity.
Qed.

Lemma reject_short_value l k h lo r : Forall entry_ok l -> NoDup (map fst l) ->
  k <> [] -> N.of_nat (length k) < 65536 ->
  N.of_nat (length r) < rd16 h lo -> read_bin (frames l ++ len16 k ++ k ++ h :: lo :: r) = None.
Proof.
  intros Hf Hnd Hk Hl Hs.
  destruct (read_bin_prefix_then l (len16 k ++ k ++ h :: lo :: r) Hf Hnd) as (fuel & -> & _).
  unfold len16, be16. cbn [app read_loop]. rewrite rd16_be16 by lia.
  assert (N.of_nat (length k) =? 0 = false) as -> by (destruct k; [congruence | cbn [length]; lia]).
  rewrite Nat2N.id, firstn_app_exact, N.ltb_irrefl.
  destruct (utf8_valid k); cbn [negb]; [|reflexivity].
  rewrite skipn_app_exact.
  assert (N.of_nat (length (firstn (N.to_nat (rd16 h lo)) r)) <? rd16 h lo = true) as ->
    by (rewrite firstn_length; lia). reflexivity.
Qed.

(* ---------- rejections of the key/value reader ---------- *)

Lemma fold_kv_hits l : forall st x, In x l -> (forall s, kv_step (Some s) x = None) ->
  fold_left kv_step l st = None.
Proof.
  induction l as [|y l IH]; intros st x Hin Hx; [destruct Hin|].
  destruct Hin as [->|Hin]; cbn [fold_left].
  - destruct st as [s|]; [rewrite Hx | cbn [kv_step]]; apply fold_kv_none.
  - eapply IH; eauto.
Qed.

Definition numeric_key (k : bytes) : Prop := k = k_clevel \/ k = k_cwinbits \/ k = k_tgcount \/ k = k_tgidx.

(* a numeric field whose text is neither a decimal int64 nor the word null *)
Lemma kv_rejects_bad_number init l k v :
  In (k, v) l -> numeric_key k -> utf8_valid v = true -> v <> b_null -> parse_int v = None ->
  unmarshal_kv_into init l = None.
Proof.
  intros Hin Hk Hu Hn Hp. unfold unmarshal_kv_into. destruct (kv_text_ok l); cbn [negb]; [|reflexivity]. unfold unmarshal_kv_into_former.
  destruct (existsb bad_reconnect l); [reflexivity|].
  apply (fold_kv_hits _ _ (k, v)).
  - eapply Permutation_in; [apply Permutation_sym, sort_by_perm | exact Hin].
  - intros s. apply bytes_eqb_neq in Hn.
    destruct Hk as [-> | [-> | [-> | ->]]];
      [ rewrite (kv_step_name s FLevel v k_clevel eq_refl eq_refl)
      | rewrite (kv_step_name s FBits v k_cwinbits eq_refl eq_refl)
      | rewrite (kv_step_name s FTgcount v k_tgcount eq_refl eq_refl)
      | rewrite (kv_step_name s FTgidx v k_tgidx eq_refl eq_refl) ];
      rewrite (sanitize_valid _ Hu); cbn [store_field];
      unfold store_ptr, store_int; now rewrite Hn, Hp.
Qed.

(* a reconnect flag that is not exactly true or false *)
Lemma kv_rejects_bad_bool init l v :
  In (k_reconnect, v) l -> v <> b_true -> v <> b_false -> unmarshal_kv_into init l = None.
Proof.
  intros Hin H1 H2. unfold unmarshal_kv_into. destruct (kv_text_ok l); cbn [negb]; [|reflexivity]. unfold unmarshal_kv_into_former.
  assert (existsb bad_reconnect l = true) as ->; [|reflexivity].
  apply existsb_exists. exists (k_reconnect, v). split; [exact Hin|].
  unfold bad_reconnect. cbn [fst snd]. apply bytes_eqb_neq in H1, H2. now rewrite H1, H2.
Qed.

(* any other spelling of the reconnect key carries a string, which the bool field refuses *)
Lemma kv_rejects_folded_reconnect init l k v :
  In (k, v) l -> field_of_key (sanitize k) = Some (FReconnect, false) -> unmarshal_kv_into init l = None.
Proof.
  intros Hin Hk. unfold unmarshal_kv_into. destruct (kv_text_ok l); cbn [negb]; [|reflexivity]. unfold unmarshal_kv_into_former. destruct (existsb bad_reconnect l); [reflexivity|].
  apply (fold_kv_hits _ _ (k, v)).
  - eapply Permutation_in; [apply Permutation_sym, sort_by_perm | exact Hin].
  - intros s. cbn [kv_step fst snd]. now rewrite Hk.
Qed.

(* unknown keys are ignored *)
Lemma kv_step_unknown s k v : field_of_key (sanitize k) = None -> kv_step (Some s) (k, v) = Some s.
Proof. intros H. cbn [kv_step fst snd]. now rewrite H. Qed.

(* ---------- the URL readers' own checks ---------- *)

Lemma url_rejects_empty_key init vals vs : In ([], vs) vals -> unmarshal_url_into init vals = None.
Proof.
  intros Hin. unfold unmarshal_url_into.
  assert (url_to_kv vals = None) as ->; [|reflexivity].
  induction vals as [|e vals IH]; [destruct Hin|]. cbn [url_to_kv].
  destruct Hin as [->|Hin]; [reflexivity|]. rewrite (IH Hin). now destruct (url_entry e).
Qed.

Lemma url_rejects_multi init vals k vs : In (k, vs) vals -> length vs <> 1%nat -> unmarshal_url_into init vals = None.
Proof.
  intros Hin Hl. unfold unmarshal_url_into.
  assert (url_to_kv vals = None) as ->; [|reflexivity].
  induction vals as [|e vals IH]; [destruct Hin|]. cbn [url_to_kv].
  destruct Hin as [->|Hin].
  - unfold url_entry. cbn [fst snd]. destruct (is_nil k); [reflexivity|].
    destruct vs as [|a [|b vs]]; cbn in Hl; try reflexivity. congruence.
  - rewrite (IH Hin). now destruct (url_entry e).
Qed.

(* ---------- the two peers ---------- *)

(* what the client transport computes from its own dial configuration, and what a peer
   computes from the transmitted parameters with any local base, are the same settings *)
Lemma peers_agree dc q base :
  transportable_p (dial_params dc) -> Permutation q (kv_pairs (dial_params dc)) ->
  exists p', unmarshal_kv q = Some p' /\
    effective (compress_config p' base) = effective (compress_config (dial_params dc) (dc_comp dc)).
Proof.
  intros Ht HP. exists (dial_params dc). split; [now apply kv_roundtrip|].
  destruct (dial_params_named dc) as (Hc & Hl & Hb). eapply config_independent_of_base; eauto.
Qed.

(* ---------- findings: sets that do not survive ---------- *)

(* F25, about the FORMER writer [marshal_bin_former] = [frames] without any check (repaired in
   /repo by d2e00d7; the writer as it is now is [marshal_bin_checked], see the end of this file).
   The former binary writer truncates lengths to 16 bits: a 65536-byte transport id that is itself a
   sequence of three well-formed pairs is read back as the empty id plus three unknown keys *)
Definition long_tid : bytes :=
  [0; 1; 97; 127; 127] ++ repeat 120 (N.to_nat 32639) ++ [0; 1; 98; 127; 0] ++ repeat 120 (N.to_nat 32512)
  ++ [0; 1; 99; 1; 114] ++ repeat 120 (N.to_nat 370).
Definition long_p : params := mkP enc_json [] None None long_tid false [] 0 0.

Lemma Z_opt_eqb_eq a b : Z_opt_eqb a b = true -> a = b.
Proof. destruct a, b; cbn; try discriminate; [intros H; apply Z.eqb_eq in H; congruence | reflexivity]. Qed.

Lemma params_eqb_eq a b : params_eqb a b = true -> a = b.
Proof.
  destruct a as [a1 a2 a3 a4 a5 a6 a7 a8 a9], b as [b1 b2 b3 b4 b5 b6 b7 b8 b9]. unfold params_eqb. cbn [p_enc p_comp p_level p_bits p_tid p_reconnect p_tgid p_tgcount p_tgidx].
  rewrite !andb_true_iff. intros [[[[[[[[H1 H2] H3] H4] H5] H6] H7] H8] H9].
  apply bytes_eqb_eq in H1, H2, H5, H7. apply Z_opt_eqb_eq in H3, H4. apply eqb_prop in H6.
  apply Z.eqb_eq in H8, H9. congruence.
Qed.

Lemma oparams_eqb_eq a b : oparams_eqb a b = true -> a = b.
Proof.
  destruct a, b; cbn; try discriminate; [intros H; apply params_eqb_eq in H; congruence | reflexivity].
Qed.

Lemma long_value_misread_b :
  oparams_eqb (validate long_p) (Some long_p) && transportable long_p
  && (N.of_nat (length long_tid) =? 65536)
  && oparams_eqb (unmarshal_bin (frames (kv_pairs long_p))) (Some (mkP enc_json [] None None [] false [] 0 0)) = true.
Proof. vm_compute. reflexivity. Qed.

Lemma long_value_misread :
  exists p p', validate p = Some p /\ transportable_p p /\
               unmarshal_bin (frames (kv_pairs p)) = Some p' /\ p_tid p' <> p_tid p.
Proof.
  exists long_p, (mkP enc_json [] None None [] false [] 0 0).
  pose proof long_value_misread_b as H.
  apply andb_prop in H. destruct H as [H H4]. apply andb_prop in H. destruct H as [H _].
  apply andb_prop in H. destruct H as [H1 H2].
  split; [exact (oparams_eqb_eq _ _ H1)|]. split; [apply transportable_iff; exact H2|].
  split; [exact (oparams_eqb_eq _ _ H4)|].
  unfold long_p, long_tid. cbn [p_tid app]. discriminate.
Qed.

(* F26, about the FORMER code (repaired in /repo by 1a00ab3): text that is not UTF-8 was accepted by
   Validate and silently replaced by U+FFFD on the way out (every carrier) ... *)
Lemma former_non_utf8_altered :
  let p := mkP [] [] None None [255] false [] 0 0 in
  validate_former p = Some p /\
  unmarshal_kv_into_former p0 (marshal_kv_former p) = Some (mkP [] [] None None [239; 191; 189] false [] 0 0).
Proof. vm_compute. split; reflexivity. Qed.
(* ... as it is now, the same set is refused by Validate and by every writer *)
Lemma non_utf8_now_refused :
  let p := mkP [] [] None None [255] false [] 0 0 in
  validate p = None /\ marshal_kv p = None /\ marshal_url p = None /\ marshal_bin_checked (fun l => l) p = None.
Proof. vm_compute. repeat split; reflexivity. Qed.

(* F27, about the FORMER Validate (repaired in /repo by 20ec58b): it did not look at level or
   window bits when no compression type was named, yet CompressConfig enables compression from
   the level alone *)
Lemma former_level_unchecked_without_type :
  let p := mkP [] [] (Some 99%Z) (Some 77%Z) [] false [] 0 0 in
  validate_former p = Some p /\ forall base, effective (compress_config p base) = Enabled (c_dct base) 99%Z 77%Z.
Proof. split; [reflexivity | intros base; reflexivity]. Qed.
Lemma level_without_type_now_refused :
  validate (mkP [] [] (Some 99%Z) (Some 77%Z) [] false [] 0 0) = None
  /\ validate (mkP [] [] (Some 5%Z) (Some (-1)%Z) [] false [] 0 0) = None.
Proof. split; reflexivity. Qed.

(* ---------- the property's notion of a valid set ([valid_set]) against Validate ---------- *)

Lemma valid_set_valid_spec p : valid_set p = true -> valid_spec p = true.
Proof.
  unfold valid_set, valid_spec. rewrite !andb_true_iff, !orb_true_iff.
  intros [[[[Ha Hc] Hr] Hw] _]. split; [exact Ha|].
  destruct Hc as [Hc|Hc]; [now left | right]. now rewrite Hc, Hr, Hw.
Qed.

(* every valid set is accepted; the only change Validate makes is filling in level 6 *)
Lemma valid_set_accepted p : valid_set p = true -> validate p = Some (validated_spec p).
Proof. exact (validate_accepts p). Qed.

Lemma in_range_int64 lo hi o : (int64_min <= lo)%Z -> (hi <= int64_max)%Z ->
  in_range lo hi o = true -> forall z, o = Some z -> in_int64 z = true.
Proof.
  intros Hlo Hhi H z ->. unfold in_range in H. unfold in_int64.
  apply andb_true_iff in H as [H1 H2]. apply Z.leb_le in H1, H2.
  apply andb_true_iff; split; apply Z.leb_le; lia.
Qed.

(* valid sets (with machine-int group fields) are inside the domain of the round-trip lemmas *)
Lemma valid_set_transportable p :
  valid_set p = true -> in_int64 (p_tgcount p) = true -> in_int64 (p_tgidx p) = true -> transportable_p p.
Proof.
  unfold valid_set, valid_text, transportable_p. rewrite !andb_true_iff.
  intros [[[[_ _] Hr] Hw] [[[H1 H2] H3] H4]] Hc Hi.
  repeat split; auto.
  - apply (in_range_int64 0 9); [unfold int64_min | unfold int64_max |]; auto; lia.
  - apply (in_range_int64 0 32); [unfold int64_min | unfold int64_max |]; auto; lia.
Qed.

(* invalid sets are rejected by Validate - every one of them (no exception any more: F26 and F27
   are repaired) *)
Lemma invalid_rejected p : validate p = None <-> valid_set p = false.
Proof. exact (validate_rejects_iff_invalid p). Qed.

(* the former Validate rejected invalid sets only outside the shapes of F26 and F27 *)
Lemma former_invalid_rejected p :
  valid_text p = true ->
  (p_comp p = [] -> in_range 0 9 (p_level p) && in_range 0 32 (p_bits p) = true) ->
  (validate_former p = None <-> valid_set p = false).
Proof.
  intros Ht Hn. rewrite validate_former_spec.
  assert (E : valid_spec p = valid_set p).
  { unfold valid_spec, valid_set. rewrite Ht, andb_true_r.
    destruct (known_enc (p_enc p)); cbn [andb]; [|reflexivity].
    destruct (is_nil (p_comp p)) eqn:En; cbn [orb].
    - apply is_nil_true in En. specialize (Hn En). apply andb_true_iff in Hn as [-> ->]. reflexivity.
    - cbn [andb orb]. first [reflexivity | now rewrite !andb_assoc]. }
  rewrite E. destruct (valid_set p); split; congruence.
Qed.

(* ---------- MarshalKeyValues / UnmarshalKeyValues as they are now (UTF-8 checks) ---------- *)

Lemma transportable_text p : transportable_p p -> text_utf8 p = true.
Proof. intros (He & Hc & Ht & Hg & _). unfold text_utf8. now rewrite He, Hc, Ht, Hg. Qed.

Lemma marshal_kv_some p : transportable_p p -> marshal_kv p = Some (kv_pairs p).
Proof. intros H. unfold marshal_kv. now rewrite transportable_text. Qed.

(* the writer refuses exactly the sets whose text is not UTF-8 *)
Lemma marshal_kv_refuses_iff p : marshal_kv p = None <-> valid_text p = false.
Proof. unfold marshal_kv. rewrite text_utf8_valid_text. destruct (valid_text p); split; congruence. Qed.

(* key/value round trip through the writer as it is now, every order of the emitted pairs *)
Lemma kv_roundtrip_now p l q : transportable_p p -> marshal_kv p = Some l -> Permutation q l ->
  unmarshal_kv q = Some p.
Proof. intros Ht E HP. rewrite marshal_kv_some in E by exact Ht. injection E as <-. now apply kv_roundtrip. Qed.

Lemma url_roundtrip_now p u q : transportable_p p -> marshal_url p = Some u -> Permutation q u ->
  unmarshal_url q = Some p.
Proof.
  intros Ht E HP. unfold marshal_url in E. rewrite marshal_kv_some in E by exact Ht. cbn in E. injection E as <-.
  unfold url_of_kv in HP. apply Permutation_map_inv in HP as (q' & -> & HP').
  apply (url_roundtrip p q' Ht). now apply Permutation_sym.
Qed.

(* the readers refuse a map in which any key or value is not UTF-8 - whatever else it holds *)
Lemma kv_rejects_non_utf8 init l : kv_text_ok l = false -> unmarshal_kv_into init l = None.
Proof. intros H. unfold unmarshal_kv_into. now rewrite H. Qed.

Lemma url_rejects_non_utf8 init vals k v :
  In (k, [v]) vals -> utf8_valid k && utf8_valid v = false -> unmarshal_url_into init vals = None.
Proof.
  intros Hin Hu. unfold unmarshal_url_into. destruct (url_to_kv vals) as [l|] eqn:E; [|reflexivity].
  apply kv_rejects_non_utf8.
  assert (Hl : In (k, v) l).
  { revert l E. induction vals as [|e vals IH]; intros l E; [destruct Hin|]. cbn [url_to_kv] in E.
    destruct (url_entry e) as [kv|] eqn:Ee; [|discriminate]. destruct (url_to_kv vals) as [l'|]; [|discriminate].
    injection E as <-. destruct Hin as [->|Hin].
    - unfold url_entry in Ee. cbn [fst snd] in Ee. destruct (is_nil k); [discriminate|]. injection Ee as <-. now left.
    - right. now apply IH. }
  unfold kv_text_ok. destruct (forallb _ l) eqn:F; [|reflexivity].
  rewrite forallb_forall in F. specialize (F _ Hl). cbn [fst snd] in F. congruence.
Qed.

(* F25 stated on the former writer by name *)
Lemma former_writer_long_value_misread :
  exists p p', validate p = Some p /\ transportable_p p /\
               unmarshal_bin (marshal_bin_former (fun l => l) p) = Some p' /\ p_tid p' <> p_tid p.
Proof. exact long_value_misread. Qed.

(* ---------- the binary writer as it is now (checks the 16-bit bound; fix of F25) ---------- *)

Lemma fits16_short kv : fits16 kv = true -> N.of_nat (length (snd kv)) < 65536.
Proof. unfold fits16. rewrite andb_true_iff, !N.ltb_lt. tauto. Qed.

(* whatever order the pairs are written in: if the checked writer produces bytes, the reader
   returns the set; it refuses exactly when some key or value does not fit 16 bits *)
Lemma bin_roundtrip_checked p order b :
  transportable_p p -> (forall l, Permutation (order l) l) ->
  marshal_bin_checked order p = Some b -> unmarshal_bin b = Some p.
Proof.
  intros Ht Ho. unfold marshal_bin_checked. rewrite marshal_kv_some by exact Ht.
  destruct (forallb fits16 (order (kv_pairs p))) eqn:E; [|discriminate].
  intros H; injection H as <-. apply bin_roundtrip; [exact Ht | | apply Ho].
  intros kv Hin. apply fits16_short. rewrite forallb_forall in E. apply E.
  eapply Permutation_in; [apply Permutation_sym, Ho | exact Hin].
Qed.

(* the writer refuses iff the text is not UTF-8 or some key/value does not fit 16 bits *)
Lemma bin_checked_refuses_iff p order : (forall l, Permutation (order l) l) ->
  (marshal_bin_checked order p = None <->
   valid_text p = false \/ exists kv, In kv (kv_pairs p) /\ fits16 kv = false).
Proof.
  intros Ho. unfold marshal_bin_checked, marshal_kv. rewrite text_utf8_valid_text.
  destruct (valid_text p); [|split; [now left | reflexivity]].
  destruct (forallb fits16 (order (kv_pairs p))) eqn:E; split; try discriminate; try reflexivity.
  - intros [H|(kv & Hin & Hf)]; [discriminate|]. rewrite forallb_forall in E.
    rewrite E in Hf; [discriminate|]. eapply Permutation_in; [apply Permutation_sym, Ho | exact Hin].
  - intros _. right. destruct (forallb fits16 (kv_pairs p)) eqn:E2.
    + rewrite forallb_forall in E2. assert (forallb fits16 (order (kv_pairs p)) = true); [|congruence].
      apply forallb_forall. intros x Hx. apply E2. eapply Permutation_in; [apply Ho | exact Hx].
    + clear E. induction (kv_pairs p) as [|x l IH]; [discriminate|]. cbn [forallb] in E2.
      destruct (fits16 x) eqn:Ex.
      * destruct (IH E2) as (kv & Hin & Hf). exists kv. split; [now right | exact Hf].
      * exists x. split; [now left | exact Ex].
Qed.

(* the F25 witness is refused by the writer as it is now *)
Lemma long_value_refused_when_checked : marshal_bin_checked (fun l => l) long_p = None.
Proof. vm_compute. reflexivity. Qed.

(* and a set whose longest text is 65535 bytes is still carried (the bound is tight) *)
Lemma longest_value_carried :
  let p := mkP enc_json [] None None (repeat 121 (N.to_nat 65535)) false [] 0 0 in
  match marshal_bin_checked (fun l => l) p with
  | Some b => oparams_eqb (unmarshal_bin b) (Some p)
  | None => false
  end = true.
Proof. vm_compute. reflexivity. Qed.

(* NOT a finding: the property's third clause speaks of sets that NAME their type.  A valid set
   without a type (level and window in range) is accepted, and then the mode comes from the local
   default - the hypothesis "names its compression type" of config_function is necessary. *)
Lemma config_needs_named_type :
  let p := mkP [] [] (Some 5%Z) (Some 8%Z) [] false [] 0 0 in
  validate p = Some p /\
  effective (compress_config p (mkC false 0 true 0)) <> effective (compress_config p (mkC false 0 false 0)).
Proof. split; [reflexivity | discriminate]. Qed.

(* F26 through the FORMER readers: a key/value map (e.g. a URL query) holding a byte string that
   is not UTF-8 was accepted, with U+FFFD in its place ... *)
Lemma former_non_utf8_accepted_by_kv_reader :
  unmarshal_kv_into_former p0 [(k_tid, [255])] = Some (mkP [] [] None None [239; 191; 189] false [] 0 0).
Proof. vm_compute. reflexivity. Qed.
(* ... as they are now, all three readers refuse it *)
Lemma non_utf8_now_refused_by_readers :
  unmarshal_kv [(k_tid, [255])] = None /\ unmarshal_url [(k_tid, [[255]])] = None
  /\ unmarshal_bin (frames [(k_tid, [255])]) = None.
Proof. vm_compute. repeat split; reflexivity. Qed.

(* a key that occurs more than once in the URL form is an error WHATEVER its values - also when
   they are byte-identical (the carrier is a list of value LISTS, nothing is deduplicated) *)
Lemma url_rejects_repeated_key init vals k v n :
  In (k, repeat v (S (S n))) vals -> unmarshal_url_into init vals = None.
Proof.
  intros Hin. apply (url_rejects_multi init vals k (repeat v (S (S n))) Hin).
  rewrite repeat_length. discriminate.
Qed.

Lemma repeated_key_rejected_example :
  unmarshal_url [(k_enc, [enc_json; enc_json]); (k_clevel, [s2b "6"])] = None
  /\ unmarshal_url [(k_cwinbits, [s2b "15"; s2b "15"; s2b "15"])] = None
  /\ unmarshal_url [(s2b "foo", [s2b "bar"; s2b "bar"])] = None
  /\ unmarshal_url [(k_enc, [enc_json]); (k_clevel, [s2b "6"])] = Some (mkP enc_json [] (Some 6%Z) None [] false [] 0 0).
Proof. vm_compute. repeat split; reflexivity. Qed.

(* ---------- programs over several sets: the model has value semantics ---------- *)

Lemma Z_opt_eqb_refl a : Z_opt_eqb a a = true.
Proof. destruct a; cbn; [apply Z.eqb_refl | reflexivity]. Qed.
Lemma params_eqb_refl a : params_eqb a a = true.
Proof.
  unfold params_eqb. now rewrite !bytes_eqb_refl, !Z_opt_eqb_refl, eqb_reflx, !Z.eqb_refl.
Qed.
Lemma env_eqb_refl e : env_eqb e e = true.
Proof. apply list_beq_refl, params_eqb_refl. Qed.
Lemma eff_eqb_refl e : eff_eqb e e = true.
Proof. destruct e; cbn; [reflexivity | now rewrite eqb_reflx, !Z.eqb_refl]. Qed.

Lemma others_same_none e : others_same_at None e e = true.
Proof. induction e as [|x e IH]; cbn; [reflexivity | now rewrite params_eqb_refl]. Qed.
Lemma others_same_refl i e : others_same_at (Some i) e e = true.
Proof.
  revert i; induction e as [|x e IH]; intros i; cbn; [reflexivity|].
  destruct i; [apply others_same_none | now rewrite params_eqb_refl, IH].
Qed.
Lemma others_same_set i v e : others_same_at (Some i) e (env_set_nat i v e) = true.
Proof.
  revert i; induction e as [|x e IH]; intros i; [destruct i; reflexivity|].
  destruct i; cbn; [apply others_same_none | now rewrite params_eqb_refl, IH].
Qed.

Lemma env_get_set_same i v e : (i < length e)%nat -> nth i (env_set_nat i v e) p0 = v.
Proof.
  revert i; induction e as [|x e IH]; intros i H; [cbn in H; lia|].
  destruct i; cbn; [reflexivity | apply IH; cbn in H; lia].
Qed.
(* a step on slot i does not touch slot j <> i: no set can be seen through another *)
Lemma env_get_set_other i j v e : i <> j -> nth j (env_set_nat i v e) p0 = nth j e p0.
Proof.
  revert i j; induction e as [|x e IH]; intros i j H; [destruct i; reflexivity|].
  destruct i, j; cbn; try reflexivity; [congruence | apply IH; congruence].
Qed.
Lemma env_set_length i v e : length (env_set_nat i v e) = length e.
Proof. revert i; induction e as [|x e IH]; intros i; [destruct i; reflexivity|]. destruct i; cbn; auto. Qed.

Theorem prog_step_isolated env st j : j <> pstep_slot st ->
  env_get j (fst (prog_step env st)) = env_get j env.
Proof.
  intros H. unfold env_get.
  assert (Hn : N.to_nat (pstep_slot st) <> N.to_nat j) by lia.
  destruct st; cbn [prog_step pstep_slot] in *; unfold read_into, env_set;
    repeat match goal with |- context [match ?x with _ => _ end] => destruct x end; cbn [fst];
    rewrite ?env_get_set_other by exact Hn; reflexivity.
Qed.

(* what the model observes, step by step *)
Fixpoint prog_obs (env : list params) (steps : list pstep) : list pobs :=
  match steps with
  | [] => []
  | st :: steps' =>
      let r := prog_step env st in
      mkPO (fst (snd r)) (snd (snd r)) (fst r) :: prog_obs (fst r) steps'
  end.

Lemma prog_step_length env st : length (fst (prog_step env st)) = length env.
Proof.
  destruct st; cbn [prog_step]; unfold read_into, env_set;
    repeat match goal with |- context [match ?x with _ => _ end] => destruct x end; cbn [fst];
    rewrite ?env_set_length; reflexivity.
Qed.

Lemma pstep_ok_model env st : (N.to_nat (pstep_slot st) < length env)%nat ->
  pstep_ok env st (mkPO (fst (snd (prog_step env st))) (snd (snd (prog_step env st))) (fst (prog_step env st))) = true.
Proof.
  intros Hi. unfold pstep_ok. cbv zeta. cbn [po_env po_ok po_cfg]. unfold env_get.
  assert (G : forall v, params_eqb (nth (N.to_nat (pstep_slot st)) (env_set_nat (N.to_nat (pstep_slot st)) v env) p0) v = true)
    by (intros v; rewrite env_get_set_same by exact Hi; apply params_eqb_refl).
  destruct st as [i p|i|i l|i vals|i vals|i b|i base]; cbn [prog_step pstep_slot] in *; unfold env_get.
  - unfold env_set. cbn [fst snd]. apply andb_true_intro; split; [apply others_same_set | apply G].
  - rewrite validate_spec. destruct (valid_set (nth (N.to_nat i) env p0)) eqn:V; cbn [fst snd].
    + unfold env_set. apply andb_true_intro; split; [apply others_same_set | apply G].
    + now rewrite others_same_refl, params_eqb_refl.
  - unfold read_into, env_set. destruct (unmarshal_kv_into _ l); cbn [fst snd];
      (apply andb_true_intro; split; [apply others_same_set | first [reflexivity | apply G]]).
  - unfold read_into, env_set. destruct (unmarshal_url_into _ vals); cbn [fst snd];
      (apply andb_true_intro; split; [apply others_same_set | first [reflexivity | apply G]]).
  - unfold read_into, env_set. destruct (unmarshal_url_into _ vals); cbn [fst snd];
      (apply andb_true_intro; split; [apply others_same_set | first [reflexivity | apply G]]).
  - unfold read_into, env_set. destruct (unmarshal_bin_into _ b); cbn [fst snd];
      (apply andb_true_intro; split; [apply others_same_set | first [reflexivity | apply G]]).
  - cbn [fst snd]. rewrite others_same_refl, env_eqb_refl. cbn [andb].
    set (a := nth (N.to_nat i) env p0).
    destruct (p_level a) as [lv|] eqn:El; [|reflexivity]. destruct (p_bits a) as [w|] eqn:Ew; [|reflexivity].
    destruct (named_comp (p_comp a)) eqn:Hn; [|reflexivity].
    rewrite (config_function a lv w base); [apply eff_eqb_refl | now apply named_comp_iff | exact El | exact Ew].
Qed.

(* For EVERY program (any steps, any inputs to the readers, any slots in range) the model - a fold
   over an environment of values - satisfies the predicate [prog_ok]: a step never changes another
   slot, Validate is the function [validated_spec] of its receiver alone, the derived config of a
   set naming type, level and window is [eff_spec] of those whatever happened before. *)
Theorem prog_value_semantics steps : forall env,
  Forall (fun st => (N.to_nat (pstep_slot st) < length env)%nat) steps ->
  prog_ok env steps (prog_obs env steps) = true.
Proof.
  induction steps as [|st steps IH]; intros env H; [reflexivity|].
  inversion H as [|? ? H1 H2]; subst. cbn [prog_obs prog_ok po_env].
  rewrite pstep_ok_model by exact H1. cbn [andb]. apply IH.
  eapply Forall_impl; [|exact H2]. intros st' Hs. now rewrite prog_step_length.
Qed.

(* and the judge's correspondence function accepts exactly the model's observations *)
Lemma prog_corr_model steps : forall env, prog_corr env steps (prog_obs env steps) = true.
Proof.
  induction steps as [|st steps IH]; intros env; [reflexivity|].
  cbn [prog_obs prog_corr po_ok po_cfg po_env]. rewrite eqb_reflx, env_eqb_refl, IH.
  destruct (snd (snd (prog_step env st))) as [c|]; cbn; [|reflexivity].
  unfold cconfig_eqb. now rewrite !eqb_reflx, !Z.eqb_refl.
Qed.

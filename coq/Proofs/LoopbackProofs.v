(* Lemmas about Model/Loopback.v (the judge of h-loopback):
   - the trace that Model/Framing.v's frame/parse produce for one sequential writer satisfies
     lb_ok and lb_corr (so the predicate asks for nothing the framing model does not deliver);
   - what lb_ok = true means: stream cases - the reads attributed to a writer are exactly that
     writer's messages 0,1,2,... in order (an interleaving, each message once, none invented);
     datagram cases - every read is a written message and no message is read twice. *)
From Coq Require Import List NArith Bool Lia ZArith ZifyN ZifyNat ZifyBool Arith.
From Iscp Require Import Lib.ListMap Lib.Bytes Model.Segment Proofs.SegmentProofs Model.Framing
  Proofs.FramingProofs Model.Loopback.
Import ListNotations.
Open Scope N_scope.
Ltac Zify.zify_post_hook ::= Z.div_mod_to_equations.

(* ---------- small facts ---------- *)

Lemma bytes_eqb_refl m : bytes_eqb m m = true.
Proof. unfold bytes_eqb. apply list_beq_refl. apply N.eqb_refl. Qed.

Lemma desc_eqb_refl d : desc_eqb d d = true.
Proof. unfold desc_eqb. now rewrite !N.eqb_refl. Qed.

Lemma lenN_snoc {A} (l : list A) x : lenN (l ++ [x]) = lenN l + 1.
Proof. unfold lenN. rewrite app_length. cbn [length]. lia. Qed.

Lemma to_nat_lenN {A} (l : list A) : N.to_nat (lenN l) = length l.
Proof. unfold lenN. apply Nat2N.id. Qed.

Lemma fold_add_acc l : forall a, fold_left N.add l a = a + fold_left N.add l 0.
Proof.
  induction l as [|x l IH]; intros a; cbn [fold_left]; [lia|].
  rewrite IH, (IH (0 + x)). lia.
Qed.
Lemma sumN_cons x l : sumN (x :: l) = x + sumN l.
Proof. unfold sumN. cbn [fold_left]. rewrite fold_add_acc. lia. Qed.

Lemma fold_left_map {A B C} (f : A -> B -> A) (g : C -> B) l : forall a,
  fold_left f (map g l) a = fold_left (fun a x => f a (g x)) l a.
Proof. induction l as [|x l IH]; intros a; cbn [map fold_left]; [reflexivity | apply IH]. Qed.

(* ---------- the Framing model's trace satisfies the predicates ---------- *)

Lemma attribute_length k ms : length (attribute k ms ms) = length ms.
Proof. revert k; induction ms as [|m ms IH]; intros k; cbn [attribute length]; [reflexivity | now rewrite IH]. Qed.

Lemma attribute_atts ms : forall k,
  atts_eqb (attribute k ms ms) (map (fun i => (0, i)) (countup k (length ms))) = true.
Proof.
  induction ms as [|m ms IH]; intros k; cbn [attribute length countup map atts_eqb]; [reflexivity|].
  rewrite bytes_eqb_refl. cbn [rd_att att_eqb]. unfold pair_eqb. cbn [fst snd].
  rewrite !N.eqb_refl. cbn [andb]. apply IH.
Qed.

Lemma desc_at_single pre m rest :
  desc_at [map lb_desc (pre ++ m :: rest)] 0 (lenN pre) = Some (lb_desc m).
Proof.
  unfold desc_at. change (N.to_nat 0) with O. cbn [nth]. rewrite to_nat_lenN.
  rewrite map_app. rewrite nth_error_app2 by (rewrite map_length; lia).
  rewrite map_length, Nat.sub_diag. reflexivity.
Qed.

Lemma in_order_self rest : forall pre,
  in_order [map lb_desc (pre ++ rest)] [lenN pre] (attribute (lenN pre) rest rest)
  = Some [lenN (pre ++ rest)].
Proof.
  induction rest as [|m rest IH]; intros pre.
  - cbn [attribute in_order]. now rewrite app_nil_r.
  - cbn [attribute]. rewrite bytes_eqb_refl. cbn [in_order rd_att fst snd].
    change (N.to_nat 0) with O. cbn [nth_error]. rewrite N.eqb_refl. cbn [andb].
    unfold read_wf. cbn [rd_att fst snd rd_len rd_dig]. rewrite desc_at_single.
    unfold lb_desc at 1. rewrite desc_eqb_refl. cbn [bump].
    rewrite <- (lenN_snoc pre m).
    replace (pre ++ m :: rest) with ((pre ++ [m]) ++ rest) by (rewrite <- app_assoc; reflexivity).
    apply IH.
Qed.

Lemma all_lens_single ms : all_lens [map lb_desc ms] = map lenN ms.
Proof.
  unfold all_lens. cbn [concat]. rewrite app_nil_r, map_map. apply map_ext. reflexivity.
Qed.

Lemma q_rx_count_lens ms : q_rx_count ms = framed_bytes (map lenN ms).
Proof. unfold q_rx_count, framed_bytes. now rewrite fold_left_map. Qed.

Lemma lenN_frames ms : lenN (concat (map frame ms)) = sumN (map (fun l => l + 4) (map lenN ms)).
Proof.
  induction ms as [|m ms IH]; cbn [map concat]; [reflexivity|].
  rewrite lenN_app, frame_length, sumN_cons, IH. lia.
Qed.

(* for every list of messages shorter than 2^32 bytes: writing them with q_write_all and decoding
   the stream with parse_all gives a trace on which the property predicate and the
   correspondence predicate of h-loopback both hold *)
Lemma model_trace_ok ms : Forall (fun m => lenN m < two32) ms ->
  lb_ok (lb_of_model ms) = true /\ lb_corr (lb_of_model ms) = true.
Proof.
  intros Hlen. unfold lb_of_model.
  destruct (counters_stream ms) as (Hs & Htx & Hrx). cbn zeta in Hs, Htx, Hrx.
  rewrite Hs in *. rewrite (frames_roundtrip ms Hlen). cbn [fst snd negb].
  assert (Hq : q_tx (q_write_all (mkQtx [] 0) ms) = q_rx_count ms) by (rewrite Htx, Hrx; reflexivity).
  rewrite Hq.
  split.
  - unfold lb_ok. cbn [lb_k lb_writers lb_werrs lb_rerr lb_reads lb_tx lb_rx lb_comp map negb].
    change (0 =? 0) with true. cbn [andb].
    pose proof (in_order_self ms []) as Hio. cbn [app] in Hio.
    change (lenN (@nil (list N))) with 0 in Hio. rewrite Hio.
    cbn [list_beq]. unfold lenN at 1 2. rewrite map_length, N.eqb_refl. cbn [andb].
    rewrite N.eqb_refl. cbn [andb].
    rewrite all_lens_single. apply N.eqb_eq.
    rewrite Hrx. now rewrite lenN_frames.
  - unfold lb_corr. cbn [lb_k lb_writers lb_werrs lb_rerr lb_reads lb_tx lb_rx lb_comp lb_conc negb].
    change (0 =? 0) with true. cbn [andb].
    rewrite all_lens_single.
    assert (E : lenN (attribute 0 ms ms) =? lenN (map lenN ms) = true).
    { apply N.eqb_eq. unfold lenN. now rewrite attribute_length, map_length. }
    rewrite E. cbn [andb seq_atts_from]. rewrite app_nil_r, map_length.
    rewrite attribute_atts. cbn [andb].
    rewrite q_rx_count_lens. now rewrite N.eqb_refl.
Qed.

(* ---------- what lb_ok means: datagram cases ---------- *)

Definition read_atts (reads : list lb_read) : list (N * N) :=
  concat (map (fun r => match rd_att r with Some x => [x] | None => [] end) reads).

Lemma pair_eqb_eq a b : pair_eqb a b = true <-> a = b.
Proof.
  destruct a as [a1 a2], b as [b1 b2]. unfold pair_eqb. cbn [fst snd].
  rewrite andb_true_iff, !N.eqb_eq. split; [intros [-> ->]; reflexivity | intros [= -> ->]; auto].
Qed.

Lemma nodup_pairs_NoDup l : nodup_pairs l = true -> NoDup l.
Proof.
  induction l as [|x l IH]; cbn [nodup_pairs]; intros H; [constructor|].
  apply andb_true_iff in H as [H1 H2]. constructor; [|auto].
  intros Hin. apply negb_true_iff in H1.
  assert (existsb (pair_eqb x) l = true) as E.
  { apply existsb_exists. exists x. split; [assumption | now apply pair_eqb_eq]. }
  congruence.
Qed.

Lemma read_wf_spec writers r : read_wf writers r = true ->
  exists w i, rd_att r = Some (w, i) /\ desc_at writers w i = Some (rd_len r, rd_dig r).
Proof.
  unfold read_wf. destruct (rd_att r) as [[w i]|]; [|discriminate]. cbn [fst snd].
  destruct (desc_at writers w i) as [[l d]|] eqn:E; [|discriminate].
  unfold desc_eqb. cbn [fst snd]. intros H. apply andb_true_iff in H as [H1 H2].
  apply N.eqb_eq in H1, H2. subst. eauto.
Qed.

(* a datagram case accepted by lb_ok: every message the peer handed up has the length and digest
   of the written message the harness matched it with byte for byte, no written message was
   handed up twice (so none of the injected malformed datagrams was handed up), and the reader did
   not count more datagram bytes than were sent *)
Lemma lb_ok_dgram_sound c P : lb_k c = LbDgram P -> lb_ok c = true ->
  (forall r, In r (lb_reads c) ->
     exists w i, rd_att r = Some (w, i) /\ desc_at (lb_writers c) w i = Some (rd_len r, rd_dig r))
  /\ NoDup (read_atts (lb_reads c))
  /\ lb_rx c <= lb_tx c + lb_injb c.
Proof.
  intros Hk. unfold lb_ok. rewrite Hk. intros H.
  repeat (apply andb_true_iff in H as [H ?]).
  split; [|split].
  - intros r Hr. apply read_wf_spec. rewrite forallb_forall in H3. now apply H3.
  - now apply nodup_pairs_NoDup.
  - now apply N.leb_le.
Qed.

(* ---------- what lb_ok means: stream cases ---------- *)

(* indices of the reads attributed to writer w, in read order *)
Definition reads_of (w : N) (reads : list lb_read) : list N :=
  concat (map (fun r => match rd_att r with
                        | Some wi => if fst wi =? w then [snd wi] else []
                        | None => []
                        end) reads).

Lemma nth_error_bump_same w next n : nth_error next w = Some n ->
  nth_error (bump w next) w = Some (n + 1).
Proof.
  revert next; induction w as [|w IH]; intros [|x next]; cbn [nth_error bump]; try discriminate.
  - now intros [= ->].
  - apply IH.
Qed.
Lemma nth_error_bump_other w w' next : w <> w' ->
  nth_error (bump w next) w' = nth_error next w'.
Proof.
  revert w' next; induction w as [|w IH]; intros [|w'] [|x next] Hne; cbn [nth_error bump]; try reflexivity; try congruence.
  apply IH. congruence.
Qed.
Lemma bump_length w next : length (bump w next) = length next.
Proof. revert next; induction w as [|w IH]; intros [|x next]; cbn [bump length]; auto. Qed.

(* invariant of in_order: from counters [next] to counters [fin], the reads attributed to writer w
   are exactly next_w, next_w + 1, ..., fin_w - 1, in this order *)
Lemma in_order_spec writers reads : forall next fin,
  in_order writers next reads = Some fin ->
  length fin = length next /\
  forall w n, nth_error next w = Some n ->
    exists k, nth_error fin w = Some (n + N.of_nat k) /\ reads_of (N.of_nat w) reads = countup n k.
Proof.
  induction reads as [|r reads IH]; intros next fin H.
  - cbn [in_order] in H. injection H as <-. split; [reflexivity|].
    intros w n Hn. exists O. cbn [countup]. split; [rewrite Hn; f_equal; lia | reflexivity].
  - cbn [in_order] in H. destruct (rd_att r) as [[w0 i0]|] eqn:Ea; [|discriminate].
    cbn [fst snd] in H.
    destruct (nth_error next (N.to_nat w0)) as [n0|] eqn:En; [|discriminate].
    destruct ((n0 =? i0) && read_wf writers r) eqn:Ec; [|discriminate].
    apply andb_true_iff in Ec as [Ei _]. apply N.eqb_eq in Ei. subst i0.
    destruct (IH _ _ H) as [Hl Hw]. rewrite bump_length in Hl. split; [exact Hl|].
    intros w n Hn. unfold reads_of. cbn [map concat]. rewrite Ea. cbn [fst snd].
    fold (reads_of (N.of_nat w) reads).
    destruct (N.eq_dec w0 (N.of_nat w)) as [Ew|Ew].
    + subst w0. rewrite Nat2N.id in *. rewrite N.eqb_refl.
      assert (n0 = n) by congruence. subst n0.
      destruct (Hw w (n + 1) (nth_error_bump_same _ _ _ Hn)) as [k [Hf Hr]].
      exists (S k). split.
      * rewrite Hf. f_equal. lia.
      * cbn [app countup]. now rewrite Hr.
    + assert (Hneq : (w0 =? N.of_nat w) = false) by now apply N.eqb_neq.
      rewrite Hneq. cbn [app].
      assert (N.to_nat w0 <> w) by (intros <-; apply Ew; now rewrite N2Nat.id).
      rewrite <- (nth_error_bump_other (N.to_nat w0) w next) in Hn by assumption.
      destruct (Hw w n Hn) as [k [Hf Hr]]. exists k. auto.
Qed.

(* a stream case accepted by lb_ok: no failed call; for every writer w the reads attributed to w
   are exactly its messages 0, 1, ..., n_w - 1 in this order (so the read sequence is an
   interleaving of the writers' sequences, every message once); every read is attributed and has
   the length and digest of its message; the two counters agree *)
Lemma lb_ok_stream_sound c : (forall P, lb_k c <> LbDgram P) -> lb_ok c = true ->
  lb_werrs c = 0 /\ lb_rerr c = false /\ lb_tx c = lb_rx c /\
  (forall w ms, nth_error (lb_writers c) w = Some ms ->
     reads_of (N.of_nat w) (lb_reads c) = countup 0 (length ms)).
Proof.
  intros Hk. unfold lb_ok.
  destruct (lb_k c) eqn:Ek; try (exfalso; eapply Hk; reflexivity);
  intros H; repeat (apply andb_true_iff in H as [H ?]);
  apply N.eqb_eq in H; apply negb_true_iff in H3; apply N.eqb_eq in H1;
  (repeat split; try assumption);
  (destruct (in_order (lb_writers c) (map (fun _ => 0) (lb_writers c)) (lb_reads c)) as [fin|] eqn:Eo; [|discriminate]);
  apply list_beq_N_eq in H2; subst fin;
  destruct (in_order_spec _ _ _ _ Eo) as [_ Hw];
  intros w ms Hms;
  (assert (Hn : nth_error (map (fun _ : list (N * N) => 0) (lb_writers c)) w = Some 0)
     by (rewrite nth_error_map, Hms; reflexivity));
  destruct (Hw w 0 Hn) as [k [Hf Hr]];
  rewrite nth_error_map, Hms in Hf; cbn [option_map] in Hf; injection Hf as Hf;
  (assert (k = length ms) by (unfold lenN in Hf; lia)); subst k; exact Hr.
Qed.

(* Lemmas about Model/Downstream.v; the property theorems are restated in Props/C03.v, C04.v *)
From Coq Require Import List NArith Bool Lia ZifyN ZifyNat ZifyBool.
From Iscp Require Import Lib.ListMap Model.Downstream.
Import ListNotations.
Open Scope N_scope.

(* ---------- generic list / map facts ---------- *)

Lemma insert_fresh {V} (k : N) (v : V) (m : lmap V) :
  ~ In k (keys m) -> insert k v m = m ++ [(k, v)].
Proof.
  induction m as [|[k' v'] m IH]; cbn [insert keys map fst app In]; intros H; [reflexivity|].
  destruct (k' =? k) eqn:E.
  - apply N.eqb_eq in E. exfalso; apply H; now left.
  - f_equal. apply IH. intros Hin. apply H. now right.
Qed.

Lemma keys_app {V} (a b : lmap V) : keys (a ++ b) = keys a ++ keys b.
Proof. unfold keys. apply map_app. Qed.

Lemma lookup_notin {V} (k : N) (m : lmap V) : ~ In k (keys m) -> lookup k m = None.
Proof.
  induction m as [|[k' v'] m IH]; cbn [lookup keys map fst In]; intros H; [reflexivity|].
  destruct (k' =? k) eqn:E; [apply N.eqb_eq in E; exfalso; apply H; now left|].
  apply IH. intros Hin; apply H; now right.
Qed.

Lemma lookup_in {V} (k : N) (v : V) (m : lmap V) : lookup k m = Some v -> In (k, v) m.
Proof.
  induction m as [|[k' v'] m IH]; cbn [lookup In]; intros H; [discriminate|].
  destruct (k' =? k) eqn:E.
  - apply N.eqb_eq in E. injection H as <-. left. now subst.
  - right. now apply IH.
Qed.

Lemma lookup_some_key {V} (k : N) (v : V) (m : lmap V) : lookup k m = Some v -> In k (keys m).
Proof. intros H. apply lookup_in in H. unfold keys. now apply (in_map fst) in H. Qed.

Lemma lookup_none_notin {V} (k : N) (m : lmap V) : lookup k m = None -> ~ In k (keys m).
Proof.
  induction m as [|[k' v'] m IH]; cbn [lookup keys map fst In]; intros H; [tauto|].
  destruct (k' =? k) eqn:E; [discriminate|]. apply N.eqb_neq in E. intros [Hk|Hk]; [congruence|].
  now apply IH.
Qed.

Lemma lookup_app_l {V} (k : N) (v : V) (a b : lmap V) : lookup k a = Some v -> lookup k (a ++ b) = Some v.
Proof.
  induction a as [|[k' v'] a IH]; cbn [lookup app]; intros H; [discriminate|].
  destruct (k' =? k); [exact H | now apply IH].
Qed.

Lemma NoDup_app_fresh (l : list N) (x : N) : NoDup l -> ~ In x l -> NoDup (l ++ [x]).
Proof.
  intros Hn Hx. induction Hn as [|y l Hy Hn IH]; cbn [app].
  - constructor; [tauto | constructor].
  - constructor.
    + rewrite in_app_iff. cbn [In]. intros [H|[H|[]]]; [tauto|]. subst. apply Hx. now left.
    + apply IH. intros H; apply Hx; now right.
Qed.

Lemma NoDup_app_r (a b : list N) : NoDup (a ++ b) -> NoDup b.
Proof. induction a as [|x a IH]; cbn [app]; intros H; [exact H|]. inversion H; auto. Qed.

Lemma NoDup_app_l (a b : list N) : NoDup (a ++ b) -> NoDup a.
Proof.
  induction a as [|x a IH]; cbn [app]; intros H; [constructor|]. inversion H as [|? ? Hx Hn]; subst.
  constructor; [|auto]. intros Hin. apply Hx. rewrite in_app_iff. now left.
Qed.

(* ---------- generators ---------- *)

Lemma alias_next_small g : g + 1 < two32 -> alias_next g = g + 1.
Proof.
  intros H. unfold alias_next. rewrite N.mod_small by exact H.
  destruct (g + 1 =? 0) eqn:E; [apply N.eqb_eq in E; lia | reflexivity].
Qed.

Lemma seq_next_small g : g + 1 < two32 -> seq_next g = g + 1.
Proof. intros H. unfold seq_next. now rewrite N.mod_small. Qed.

(* ---------- projections distribute over append ---------- *)

Ltac proj_app :=
  let a := fresh "a" in let IH := fresh "IH" in let o := fresh "o" in
  intros a; induction a as [|o a IH]; intros; cbn; [reflexivity|];
  destruct o as [c r e nu ni| | |sn ai u i r|]; cbn; rewrite ?IH; try reflexivity.

Lemma reads_of_app : forall a b, reads_of (a ++ b) = reads_of a ++ reads_of b.
Proof. proj_app. Qed.
Lemma consumed_of_app : forall a b, consumed_of (a ++ b) = consumed_of a ++ consumed_of b.
Proof. proj_app. destruct c; reflexivity. Qed.
Lemma read_results_app : forall a b, read_results (a ++ b) = read_results a ++ read_results b.
Proof. proj_app. destruct r; reflexivity. Qed.
Lemma minted_ups_app : forall a b, minted_ups (a ++ b) = minted_ups a ++ minted_ups b.
Proof. proj_app. now rewrite app_assoc. Qed.
Lemma minted_ids_app : forall a b, minted_ids (a ++ b) = minted_ids a ++ minted_ids b.
Proof. proj_app. now rewrite app_assoc. Qed.
Lemma acks_of_app : forall a b, acks_of (a ++ b) = acks_of a ++ acks_of b.
Proof. proj_app. Qed.
Lemma sent_acks_of_app : forall a b, sent_acks_of (a ++ b) = sent_acks_of a ++ sent_acks_of b.
Proof. proj_app. destruct sn; reflexivity. Qed.
Lemma metas_of_app : forall a b, metas_of (a ++ b) = metas_of a ++ metas_of b.
Proof. proj_app. Qed.
Lemma metaacks_of_app : forall a b, metaacks_of (a ++ b) = metaacks_of a ++ metaacks_of b.
Proof. proj_app. Qed.
Lemma closereqs_of_app : forall a b, closereqs_of (a ++ b) = closereqs_of a + closereqs_of b.
Proof.
  intros a b. induction a as [|o a IH]; [reflexivity|].
  destruct o; cbn [app closereqs_of]; rewrite ?IH; lia.
Qed.

Lemma ack_results_app a b : ack_results (a ++ b) = ack_results a ++ ack_results b.
Proof. unfold ack_results. now rewrite map_app, concat_app. Qed.
Lemma ack_ups_app a b : ack_ups (a ++ b) = ack_ups a ++ ack_ups b.
Proof. unfold ack_ups. now rewrite map_app, concat_app. Qed.
Lemma ack_ids_app a b : ack_ids (a ++ b) = ack_ids a ++ ack_ids b.
Proof. unfold ack_ids. now rewrite map_app, concat_app. Qed.

(* ---------- runs ---------- *)

Lemma drun_cons s e evs :
  drun s (e :: evs) = (fst (drun (fst (dstep s e)) evs), snd (dstep s e) ++ snd (drun (fst (dstep s e)) evs)).
Proof. reflexivity. Qed.

Lemma drun_app s a b :
  drun s (a ++ b) = (fst (drun (fst (drun s a)) b), snd (drun s a) ++ snd (drun (fst (drun s a)) b)).
Proof.
  revert s. induction a as [|e a IH]; intros s; cbn [app].
  - cbn [drun fst snd app]. now destruct (drun s b).
  - rewrite !drun_cons, IH. cbn [fst snd]. now rewrite app_assoc.
Qed.

(* ---------- the tables and buffers: invariant ---------- *)

Definition proj_up (m : lmap (N * N)) : lmap N := map (fun e : N * (N * N) => (fst e, fst (snd e))) m.
Definition keys_le {V} (m : lmap V) (g : N) : Prop := forall k, In k (keys m) -> k <= g.

Lemma keys_proj_up m : keys (proj_up m) = keys m.
Proof. unfold keys, proj_up. rewrite map_map. reflexivity. Qed.

Lemma lookup_proj_up a m :
  lookup a (proj_up m) = match lookup a m with Some e => Some (fst e) | None => None end.
Proof.
  induction m as [|[k v] m IH]; cbn [proj_up map lookup fst snd]; [reflexivity|].
  destruct (k =? a); [reflexivity | exact IH].
Qed.

Lemma keys_le_app {V} (a b : lmap V) g : keys_le a g -> keys_le b g -> keys_le (a ++ b) g.
Proof. intros Ha Hb k. rewrite keys_app, in_app_iff. intros [H|H]; auto. Qed.

Lemma keys_le_mono {V} (a : lmap V) g g' : g <= g' -> keys_le a g -> keys_le a g'.
Proof. intros Hg Ha k Hk. specialize (Ha k Hk). lia. Qed.

Lemma keys_le_notin {V} (a : lmap V) g k : keys_le a g -> g < k -> ~ In k (keys a).
Proof. intros Ha Hk Hin. specialize (Ha k Hin). lia. Qed.

Record tinv (t : dtabs) : Prop := mkTinv {
  ti_al_le : keys_le (t_aliases t) (t_idgen t);
  ti_al_nd : NoDup (keys (t_aliases t));
  ti_up_le : keys_le (t_upinfos t) (t_upgen t);
  ti_up_nd : NoDup (keys (t_upinfos t)) }.

Definition binv (t : dtabs) (b : dbufs) : Prop :=
  keys_le (b_up b) (t_upgen t) /\ keys_le (b_id b) (t_idgen t).

Definition dinv (s : dstate) : Prop := tinv (d_tabs s) /\ binv (d_tabs s) (d_bufs s).

Lemma assign_up_spec fx t info ptr :
  keys_le (t_upinfos t) (t_upgen t) -> NoDup (keys (t_upinfos t)) -> t_upgen t + 1 < two32 ->
  let r := assign_up fx t info ptr in
  t_aliases (fst r) = t_aliases t /\ t_rev (fst r) = t_rev t /\ t_idgen (fst r) = t_idgen t /\
  proj_up (t_upinfos (fst r)) = proj_up (t_upinfos t) ++ snd r /\
  keys_le (t_upinfos (fst r)) (t_upgen (fst r)) /\ NoDup (keys (t_upinfos (fst r))) /\
  t_upgen t <= t_upgen (fst r) <= t_upgen t + 1 /\
  (forall k, In k (keys (snd r)) -> t_upgen t < k <= t_upgen (fst r)) /\
  NoDup (keys (snd r)).
Proof.
  intros Hle Hnd Hg. unfold assign_up.
  destruct (existsb _ (t_upinfos t)); cbn [fst snd t_aliases t_rev t_idgen t_upinfos t_upgen].
  - rewrite app_nil_r. repeat apply conj; auto; try lia; try (intros k []). constructor.
  - rewrite (alias_next_small _ Hg).
    assert (Hf : ~ In (t_upgen t + 1) (keys (t_upinfos t))) by (apply (keys_le_notin _ (t_upgen t)); [exact Hle | lia]).
    rewrite (insert_fresh _ _ _ Hf). unfold proj_up. rewrite map_app. cbn [map fst snd].
    repeat apply conj; auto; try lia.
    + apply keys_le_app; [eapply keys_le_mono; [|exact Hle]; lia|]. intros k [<-|[]]. cbn. lia.
    + rewrite keys_app. cbn [keys map fst]. now apply NoDup_app_fresh.
    + intros k H. cbn [keys map fst In] in H. destruct H as [<-|[]]. lia.
    + cbn [keys map fst]. constructor; [intros []|constructor].
Qed.

Lemma full_ids_len gs : N.of_nat (length (full_ids gs)) <= N.of_nat (length gs).
Proof.
  induction gs as [|[[id|a] ps] gs IH]; cbn [full_ids length]; lia.
Qed.

Lemma assign_ids_spec : forall ids t res,
  keys_le (t_aliases t) (t_idgen t) -> NoDup (keys (t_aliases t)) ->
  keys_le res (t_idgen t) ->
  t_idgen t + N.of_nat (length ids) < two32 ->
  let r := assign_ids ids t res in
  t_upinfos (fst r) = t_upinfos t /\ t_upgen (fst r) = t_upgen t /\
  exists ni, t_aliases (fst r) = t_aliases t ++ ni /\ snd r = res ++ ni /\
    keys_le (t_aliases (fst r)) (t_idgen (fst r)) /\ NoDup (keys (t_aliases (fst r))) /\
    t_idgen t <= t_idgen (fst r) <= t_idgen t + N.of_nat (length ids) /\
    (forall k, In k (keys ni) -> t_idgen t < k <= t_idgen (fst r)) /\ NoDup (keys ni).
Proof.
  induction ids as [|id ids IH]; intros t res Hle Hnd Hres Hg; cbn [assign_ids].
  - cbn [fst snd length]. repeat apply conj; auto. exists []. rewrite !app_nil_r.
    repeat apply conj; auto; try lia; try (intros k []). constructor.
  - cbn [length] in Hg. destruct (lookup id (t_rev t)).
    + destruct (IH t res Hle Hnd Hres ltac:(lia)) as (H1 & H2 & ni & H3 & H4 & H5 & H6 & H7 & H8 & H9).
      repeat apply conj; auto. exists ni. repeat apply conj; auto; try (cbn [length]; lia).
    + assert (Hs : t_idgen t + 1 < two32) by lia.
      rewrite (alias_next_small _ Hs).
      assert (Hf1 : ~ In (t_idgen t + 1) (keys (t_aliases t))) by (apply (keys_le_notin _ (t_idgen t)); [exact Hle | lia]).
      assert (Hf2 : ~ In (t_idgen t + 1) (keys res)) by (apply (keys_le_notin _ (t_idgen t)); [exact Hres | lia]).
      rewrite (insert_fresh _ _ _ Hf1), (insert_fresh _ _ _ Hf2).
      set (t1 := mkT _ _ _ _ _).
      assert (Hle1 : keys_le (t_aliases t1) (t_idgen t1)).
      { unfold t1; cbn [t_aliases t_idgen]. apply keys_le_app; [eapply keys_le_mono; [|exact Hle]; lia|]. intros k [<-|[]]. cbn [fst]. lia. }
      assert (Hnd1 : NoDup (keys (t_aliases t1))).
      { unfold t1; cbn [t_aliases t_idgen]. rewrite keys_app. cbn [keys map fst]. now apply NoDup_app_fresh. }
      assert (Hres1 : keys_le (res ++ [(t_idgen t + 1, id)]) (t_idgen t1)).
      { unfold t1; cbn [t_aliases t_idgen]. apply keys_le_app; [eapply keys_le_mono; [|exact Hres]; lia|]. intros k [<-|[]]. cbn [fst]. lia. }
      assert (Hg1 : t_idgen t1 + N.of_nat (length ids) < two32) by (unfold t1; cbn [t_idgen]; lia).
      destruct (IH t1 _ Hle1 Hnd1 Hres1 Hg1) as (H1 & H2 & ni & H3 & H4 & H5 & H6 & H7 & H8 & H9).
      repeat apply conj; auto. exists ((t_idgen t + 1, id) :: ni).
      cbn [t_aliases t_idgen t1] in *.
      rewrite H3, H4, <- !app_assoc. cbn [app].
      rewrite H3, <- app_assoc in H5, H6. cbn [app] in H5, H6.
      repeat apply conj; auto; try (cbn [length]; lia).
      * intros k H. cbn [keys map fst In] in H. destruct H as [<-|H]; [lia|]. specialize (H8 k H). lia.
      * cbn [keys map fst]. constructor; [|exact H9]. intros Hin. specialize (H8 _ Hin). lia.
Qed.

Lemma push_fresh : forall m buf,
  NoDup (keys m) -> (forall k, In k (keys m) -> ~ In k (keys buf)) -> push m buf = buf ++ m.
Proof.
  unfold push. induction m as [|[k v] m IH]; intros buf Hnd Hf; cbn [fold_left fst snd].
  - now rewrite app_nil_r.
  - cbn [keys map fst] in Hnd. inversion Hnd as [|? ? Hk Hnd']; subst.
    rewrite (insert_fresh k v buf) by (apply Hf; now left).
    rewrite IH; [now rewrite <- app_assoc | exact Hnd' |].
    intros k' Hk'. rewrite keys_app, in_app_iff. cbn [keys map fst In].
    intros [H|[H|[]]]; [apply (Hf k'); [now right | exact H] | subst; contradiction].
Qed.

Lemma process_up_spec fx t c :
  keys_le (t_upinfos t) (t_upgen t) -> NoDup (keys (t_upinfos t)) -> t_upgen t + 1 < two32 ->
  let r := process_up fx t c in
  t_aliases (fst r) = t_aliases t /\ t_rev (fst r) = t_rev t /\ t_idgen (fst r) = t_idgen t /\
  proj_up (t_upinfos (fst r)) = proj_up (t_upinfos t) ++ snd r /\
  keys_le (t_upinfos (fst r)) (t_upgen (fst r)) /\ NoDup (keys (t_upinfos (fst r))) /\
  t_upgen t <= t_upgen (fst r) <= t_upgen t + 1 /\
  (forall k, In k (keys (snd r)) -> t_upgen t < k <= t_upgen (fst r)) /\
  NoDup (keys (snd r)).
Proof.
  intros Hle Hnd Hg. unfold process_up. destruct (ck_up c).
  - now apply assign_up_spec.
  - cbn [fst snd]. rewrite app_nil_r. repeat apply conj; auto; try lia; try (intros k []). constructor.
Qed.

(* the value ReadDataPoints computes is the resolution through the tables after the assignment *)
Lemma resolve_spec t c :
  match resolve_up t (ck_up c) with
  | None => None
  | Some info =>
      match resolve_groups (t_aliases t) (ck_groups c) with
      | None => None
      | Some gs => Some (ck_seq c, info, gs)
      end
  end = spec_resolve (proj_up (t_upinfos t)) (t_aliases t) c.
Proof.
  unfold spec_resolve, resolve_up. destruct (ck_up c) as [i|a]; [reflexivity|].
  rewrite lookup_proj_up. destruct (lookup a (t_upinfos t)); reflexivity.
Qed.

Definition res_pair (res : option rchunk) : list (N * N) :=
  match res with Some rc => [(snd (fst rc), fst (fst rc))] | None => [] end.

Lemma do_read_spec s c rest :
  dinv s ->
  t_upgen (d_tabs s) + 1 < two32 ->
  t_idgen (d_tabs s) + N.of_nat (length (ck_groups c)) < two32 ->
  exists nu ni res err t',
    do_read s c rest =
      (mkD (d_var s) (d_subs s) (d_cap s) t'
           (mkB (b_up (d_bufs s) ++ nu) (b_id (d_bufs s) ++ ni) (b_res (d_bufs s) ++ res_pair res) (b_ackid (d_bufs s)))
           rest (d_metabox s) (d_closed s),
       [ORead (Some c) res err nu ni]) /\
    proj_up (t_upinfos t') = proj_up (t_upinfos (d_tabs s)) ++ nu /\
    t_aliases t' = t_aliases (d_tabs s) ++ ni /\
    res = spec_resolve (proj_up (t_upinfos t')) (t_aliases t') c /\
    match res with Some _ => err = 0 | None => err = 1 \/ err = 2 end /\
    tinv t' /\
    t_upgen (d_tabs s) <= t_upgen t' <= t_upgen (d_tabs s) + 1 /\
    t_idgen (d_tabs s) <= t_idgen t' <= t_idgen (d_tabs s) + N.of_nat (length (ck_groups c)) /\
    keys_le (b_up (d_bufs s) ++ nu) (t_upgen t') /\ keys_le (b_id (d_bufs s) ++ ni) (t_idgen t') /\
    t' = fst (assign_ids (full_ids (ck_groups c)) (fst (process_up (d_fx s) (d_tabs s) c)) []).
Proof.
  intros [[Hal Hand Hul Hund] [Hbu Hbi]] Hgu Hgi.
  destruct (process_up_spec (d_fx s) (d_tabs s) c Hul Hund Hgu) as (P1 & P2 & P3 & P4 & P5 & P6 & P7 & P8 & P9).
  set (r1 := process_up (d_fx s) (d_tabs s) c) in *.
  assert (Hal1 : keys_le (t_aliases (fst r1)) (t_idgen (fst r1))) by (rewrite P1, P3; exact Hal).
  assert (Hand1 : NoDup (keys (t_aliases (fst r1)))) by (rewrite P1; exact Hand).
  assert (Hres1 : keys_le (@nil (N * N)) (t_idgen (fst r1))) by (intros k []).
  assert (Hg1 : t_idgen (fst r1) + N.of_nat (length (full_ids (ck_groups c))) < two32).
  { rewrite P3. pose proof (full_ids_len (ck_groups c)). lia. }
  destruct (assign_ids_spec (full_ids (ck_groups c)) (fst r1) [] Hal1 Hand1 Hres1 Hg1)
    as (Q1 & Q2 & ni & Q3 & Q4 & Q5 & Q6 & Q7 & Q8 & Q9).
  set (r2 := assign_ids (full_ids (ck_groups c)) (fst r1) []) in *.
  cbn [app] in Q4.
  assert (Hpu : push (snd r1) (b_up (d_bufs s)) = b_up (d_bufs s) ++ snd r1).
  { apply push_fresh; [exact P9|]. intros k Hk. apply (keys_le_notin _ (t_upgen (d_tabs s))); [exact Hbu|].
    specialize (P8 k Hk). lia. }
  assert (Hpi : push (snd r2) (b_id (d_bufs s)) = b_id (d_bufs s) ++ ni).
  { rewrite Q4. apply push_fresh; [exact Q9|]. intros k Hk. apply (keys_le_notin _ (t_idgen (d_tabs s))); [exact Hbi|].
    specialize (Q8 k Hk). lia. }
  pose proof (resolve_spec (fst r2) c) as Hrs.
  assert (Ht' : tinv (fst r2)).
  { constructor; auto; [rewrite Q1, Q2; exact P5 | rewrite Q1; exact P6]. }
  assert (Hku : keys_le (b_up (d_bufs s) ++ snd r1) (t_upgen (fst r2))).
  { rewrite Q2. apply keys_le_app; [eapply keys_le_mono; [|exact Hbu]; lia|]. intros k Hk. specialize (P8 k Hk). lia. }
  assert (Hki : keys_le (b_id (d_bufs s) ++ ni) (t_idgen (fst r2))).
  { apply keys_le_app; [eapply keys_le_mono; [|exact Hbi]; lia|]. intros k Hk. specialize (Q8 k Hk). lia. }
  assert (Htu : proj_up (t_upinfos (fst r2)) = proj_up (t_upinfos (d_tabs s)) ++ snd r1) by (rewrite Q1; exact P4).
  assert (Hti : t_aliases (fst r2) = t_aliases (d_tabs s) ++ ni) by (rewrite Q3, P1; reflexivity).
  assert (Hgu' : t_upgen (d_tabs s) <= t_upgen (fst r2) <= t_upgen (d_tabs s) + 1) by (rewrite Q2; exact P7).
  assert (Hgi' : t_idgen (d_tabs s) <= t_idgen (fst r2) <= t_idgen (d_tabs s) + N.of_nat (length (ck_groups c))).
  { pose proof (full_ids_len (ck_groups c)). rewrite P3 in Q7. lia. }
  unfold do_read. fold r1. fold r2. cbv zeta. rewrite Hpu, Hpi.
  destruct (resolve_up (fst r2) (ck_up c)) as [info|] eqn:Eu.
  - destruct (resolve_groups (t_aliases (fst r2)) (ck_groups c)) as [gs|] eqn:Eg.
    + exists (snd r1), ni, (Some (ck_seq c, info, gs)), 0, (fst r2).
      unfold set_bufs. cbn [d_fx d_cap d_tabs d_bufs d_inbox d_metabox d_closed b_up b_id b_res b_ackid res_pair fst snd].
      rewrite Q4. repeat apply conj; auto; lia.
    + exists (snd r1), ni, None, 2, (fst r2).
      cbn [res_pair]. rewrite app_nil_r, Q4. repeat apply conj; auto; lia.
  - exists (snd r1), ni, None, 1, (fst r2).
    cbn [res_pair]. rewrite app_nil_r, Q4. repeat apply conj; auto; lia.
Qed.

(* ---------- trace predicates used in the theorem statements ---------- *)

(* position-wise resolution: every ReadDataPoints answer is the resolution of the chunk it consumed
   through the tables announced so far (those of this very call included: the aliases are assigned
   before the chunk is resolved) *)
Fixpoint resolved (tu ti : lmap N) (outs : list dout) : Prop :=
  match outs with
  | [] => True
  | ORead c res err nu ni :: o =>
      match c with
      | Some ch => res = spec_resolve (tu ++ nu) (ti ++ ni) ch /\
                   match res with Some _ => err = 0 | None => err = 1 \/ err = 2 end
      | None => res = None /\ (err = 3 \/ err = 4) /\ nu = [] /\ ni = []
      end /\ resolved (tu ++ nu) (ti ++ ni) o
  | _ :: o => resolved tu ti o
  end.

Lemma resolved_app : forall a b tu ti,
  resolved tu ti a -> resolved (tu ++ minted_ups a) (ti ++ minted_ids a) b -> resolved tu ti (a ++ b).
Proof.
  induction a as [|o a IH]; intros b tu ti Ha Hb; cbn [app minted_ups minted_ids] in *.
  - now rewrite !app_nil_r in Hb.
  - destruct o; cbn [resolved minted_ups minted_ids] in *; try (apply IH; assumption).
    destruct Ha as [H1 H2]. split; [exact H1|]. apply IH; [exact H2|]. now rewrite <- !app_assoc.
Qed.

Fixpoint nseq (n : N) (k : nat) : list N :=
  match k with O => [] | S k' => n :: nseq (n + 1) k' end.

Lemma nseq_app : forall a b n, nseq n (a + b) = nseq n a ++ nseq (n + N.of_nat a) b.
Proof.
  induction a as [|a IH]; intros b n; cbn [nseq Nat.add app].
  - replace (n + N.of_nat 0) with n by lia. reflexivity.
  - rewrite IH. replace (n + 1 + N.of_nat a) with (n + N.of_nat (S a)) by lia. reflexivity.
Qed.

Lemma seq_from_nseq : forall k n, seq_from n (nseq n k) = true.
Proof. induction k as [|k IH]; intros n; cbn [nseq seq_from]; [reflexivity|]. now rewrite N.eqb_refl, IH. Qed.

Lemma nseq_nodup : forall k n, NoDup (nseq n k).
Proof.
  assert (H : forall k n x, In x (nseq n k) -> n <= x).
  { induction k as [|k IH]; intros n x; cbn [nseq In]; [tauto|]. intros [<-|Hx]; [lia|]. specialize (IH _ _ Hx). lia. }
  induction k as [|k IH]; intros n; cbn [nseq]; constructor; [|apply IH].
  intros Hin. specialize (H _ _ _ Hin). lia.
Qed.

Definition Tu (s : dstate) : lmap N := proj_up (t_upinfos (d_tabs s)).
Definition Ti (s : dstate) : lmap N := t_aliases (d_tabs s).

(* the acks that count: those the transport accepted when failed sends keep their buffers (code as
   it is), every ack handed over for the former code (a failed send lost its buffers) *)
Definition eff_acks (keep : bool) (outs : list dout) : list ackobs :=
  if keep then sent_acks_of outs else acks_of outs.
Lemma eff_acks_app keep a b : eff_acks keep (a ++ b) = eff_acks keep a ++ eff_acks keep b.
Proof. unfold eff_acks. destruct keep; [apply sent_acks_of_app | apply acks_of_app]. Qed.
Definition d_keep (s : dstate) : bool := v_keep (d_var s).
Lemma eff_acks_quiet keep outs : acks_of outs = [] -> eff_acks keep outs = [].
Proof.
  unfold eff_acks. destruct keep; [|auto]. induction outs as [|o outs IH]; [reflexivity|].
  destruct o as [| | |sn a u i r|]; cbn [acks_of sent_acks_of]; try exact IH. discriminate.
Qed.

Record rel (s s' : dstate) (outs : list dout) : Prop := mkRel {
  r_tu : Tu s' = Tu s ++ minted_ups outs;
  r_ti : Ti s' = Ti s ++ minted_ids outs;
  r_bu : b_up (d_bufs s) ++ minted_ups outs = ack_ups (eff_acks (d_keep s) outs) ++ b_up (d_bufs s');
  r_bi : b_id (d_bufs s) ++ minted_ids outs = ack_ids (eff_acks (d_keep s) outs) ++ b_id (d_bufs s');
  r_br : b_res (d_bufs s) ++ read_results outs = ack_results (eff_acks (d_keep s) outs) ++ b_res (d_bufs s');
  r_res : resolved (Tu s) (Ti s) outs;
  r_ack : b_ackid (d_bufs s') = b_ackid (d_bufs s) + N.of_nat (length (acks_of outs));
  r_ackids : map ack_id (acks_of outs) = nseq (b_ackid (d_bufs s) + 1) (length (acks_of outs));
  r_var : d_var s' = d_var s;
  r_cap : d_cap s' = d_cap s }.

Lemma rel_refl s : rel s s [].
Proof.
  constructor; rewrite ?(eff_acks_quiet _ [] eq_refl);
    cbn [minted_ups minted_ids acks_of read_results ack_ups ack_ids ack_results map concat app length nseq resolved];
    rewrite ?app_nil_r; auto. lia.
Qed.

Lemma rel_trans s s1 s2 o1 o2 : rel s s1 o1 -> rel s1 s2 o2 -> rel s s2 (o1 ++ o2).
Proof.
  intros [A1 A2 A3 A4 A5 A6 A7 A8 A9 A10] [B1 B2 B3 B4 B5 B6 B7 B8 B9 B10].
  assert (Ek : d_keep s1 = d_keep s) by (unfold d_keep; now rewrite A9).
  rewrite Ek in B3, B4, B5.
  constructor; rewrite ?minted_ups_app, ?minted_ids_app, ?read_results_app, ?acks_of_app, ?eff_acks_app,
    ?ack_ups_app, ?ack_ids_app, ?ack_results_app.
  - now rewrite B1, A1, app_assoc.
  - now rewrite B2, A2, app_assoc.
  - rewrite app_assoc, A3, <- app_assoc, B3. now rewrite app_assoc.
  - rewrite app_assoc, A4, <- app_assoc, B4. now rewrite app_assoc.
  - rewrite app_assoc, A5, <- app_assoc, B5. now rewrite app_assoc.
  - apply resolved_app; [exact A6|]. rewrite <- A1, <- A2. exact B6.
  - rewrite B7, A7, app_length. lia.
  - rewrite map_app, app_length, nseq_app, A8, B8, A7. do 2 f_equal. lia.
  - congruence.
  - congruence.
Qed.

(* ---------- budget: no generator wraps within the history ---------- *)

Definition wt (l : list chunk) : N := fold_right (fun c a => N.of_nat (length (ck_groups c)) + a) 0 l.
Fixpoint wte (evs : list dev) : N :=
  match evs with
  | [] => 0
  | Arrive c :: r => N.of_nat (length (ck_groups c)) + wte r
  | _ :: r => wte r
  end.

Lemma wt_app a b : wt (a ++ b) = wt a + wt b.
Proof. induction a as [|c a IH]; cbn [app wt fold_right]; [reflexivity|]. fold (wt (a ++ b)). fold (wt a). rewrite IH. lia. Qed.

Definition budget (s : dstate) (evs : list dev) : Prop :=
  t_upgen (d_tabs s) + N.of_nat (length evs) < two32 /\
  t_idgen (d_tabs s) + wt (d_inbox s) + wte evs < two32 /\
  b_ackid (d_bufs s) + N.of_nat (length evs) < two32.

Ltac flush_cases s :=
  unfold flush;
  destruct (b_id (d_bufs s)); [destruct (b_res (d_bufs s)); [destruct (b_up (d_bufs s))|]|];
  try destruct (_ || negb (v_keep (d_var s))).

Lemma flush_spec sent s :
  b_ackid (d_bufs s) + 1 < two32 ->
  (flush sent s = (s, []) /\ b_up (d_bufs s) = [] /\ b_id (d_bufs s) = [] /\ b_res (d_bufs s) = []) \/
  ((sent = true \/ d_keep s = false) /\
   flush sent s = (set_bufs s (mkB [] [] [] (b_ackid (d_bufs s) + 1)),
                   [OAck sent (b_ackid (d_bufs s) + 1) (b_up (d_bufs s)) (b_id (d_bufs s)) (b_res (d_bufs s))])) \/
  (sent = false /\ d_keep s = true /\
   flush sent s = (set_bufs s (mkB (b_up (d_bufs s)) (b_id (d_bufs s)) (b_res (d_bufs s)) (b_ackid (d_bufs s) + 1)),
                   [OAck false (b_ackid (d_bufs s) + 1) (b_up (d_bufs s)) (b_id (d_bufs s)) (b_res (d_bufs s))])).
Proof.
  intros H. unfold flush, d_keep. rewrite (seq_next_small _ H).
  destruct (b_id (d_bufs s)); [destruct (b_res (d_bufs s)); [destruct (b_up (d_bufs s))|]|]; auto;
    destruct sent, (v_keep (d_var s)); cbn [orb negb]; auto 10.
Qed.

Lemma flush_rel sent s :
  dinv s -> b_ackid (d_bufs s) + 1 < two32 ->
  dinv (fst (flush sent s)) /\ rel s (fst (flush sent s)) (snd (flush sent s)) /\
  d_tabs (fst (flush sent s)) = d_tabs s /\ d_inbox (fst (flush sent s)) = d_inbox s /\
  d_metabox (fst (flush sent s)) = d_metabox s /\ d_closed (fst (flush sent s)) = d_closed s /\
  (sent = true ->
   b_up (d_bufs (fst (flush sent s))) = [] /\ b_id (d_bufs (fst (flush sent s))) = [] /\
   b_res (d_bufs (fst (flush sent s))) = []) /\
  b_ackid (d_bufs (fst (flush sent s))) <= b_ackid (d_bufs s) + 1.
Proof.
  intros Hinv Hg. destruct (flush_spec sent s Hg) as [(-> & E1 & E2 & E3)|[(Hc & ->)|(-> & Hk & ->)]]; cbn [fst snd].
  - split; [exact Hinv|]. split; [apply rel_refl|]. repeat apply conj; auto. lia.
  - unfold set_bufs. cbn [d_tabs d_bufs d_inbox d_metabox d_closed b_up b_id b_res b_ackid].
    split; [split; [exact (proj1 Hinv) | split; intros k []]|].
    split; [|repeat apply conj; auto; lia].
    assert (Ee : eff_acks (d_keep s) [OAck sent (b_ackid (d_bufs s) + 1) (b_up (d_bufs s)) (b_id (d_bufs s)) (b_res (d_bufs s))]
                 = [(b_ackid (d_bufs s) + 1, b_up (d_bufs s), b_id (d_bufs s), b_res (d_bufs s))]).
    { unfold eff_acks. destruct Hc as [-> | ->]; [destruct (d_keep s)|]; reflexivity. }
    constructor; rewrite ?Ee; unfold Tu, Ti, ack_ups, ack_ids, ack_results;
      cbn [minted_ups minted_ids acks_of read_results map concat app length nseq resolved d_tabs d_bufs
           b_up b_id b_res b_ackid ack_ups_of ack_ids_of ack_res_of ack_id fst snd d_var d_cap];
      rewrite ?app_nil_r; auto.
  - unfold set_bufs. cbn [d_tabs d_bufs d_inbox d_metabox d_closed b_up b_id b_res b_ackid].
    split; [exact Hinv|]. split; [|repeat apply conj; auto; try lia; discriminate].
    assert (Ee : eff_acks (d_keep s) [OAck false (b_ackid (d_bufs s) + 1) (b_up (d_bufs s)) (b_id (d_bufs s)) (b_res (d_bufs s))] = []).
    { unfold eff_acks. rewrite Hk. reflexivity. }
    constructor; rewrite ?Ee; unfold Tu, Ti, ack_ups, ack_ids, ack_results;
      cbn [minted_ups minted_ids acks_of read_results map concat app length nseq resolved d_tabs d_bufs
           b_up b_id b_res b_ackid ack_ups_of ack_ids_of ack_res_of ack_id fst snd d_var d_cap];
      rewrite ?app_nil_r; auto.
Qed.

Definition quiet_out (o : dout) : bool :=
  match o with ORead _ _ _ _ _ | OAck _ _ _ _ _ => false | _ => true end.

Lemma rel_quiet s s' outs :
  d_tabs s' = d_tabs s -> d_bufs s' = d_bufs s -> d_var s' = d_var s -> d_cap s' = d_cap s ->
  forallb quiet_out outs = true -> rel s s' outs.
Proof.
  intros Ht Hb Hf Hc Hq.
  assert (E : minted_ups outs = [] /\ minted_ids outs = [] /\ acks_of outs = [] /\ read_results outs = []
              /\ forall tu ti, resolved tu ti outs).
  { induction outs as [|o outs IH]; [cbn; auto|]. cbn [forallb] in Hq. apply andb_true_iff in Hq as [Ho Hq].
    specialize (IH Hq). destruct IH as (I1 & I2 & I3 & I4 & I5).
    destruct o; try discriminate Ho; cbn [minted_ups minted_ids acks_of read_results resolved]; auto. }
  destruct E as (E1 & E2 & E3 & E4 & E5).
  constructor; unfold Tu, Ti; rewrite ?(eff_acks_quiet _ _ E3), ?E1, ?E2, ?E3, ?E4, ?Ht, ?Hb; unfold ack_ups, ack_ids, ack_results;
    cbn [map concat length nseq app]; rewrite ?app_nil_r; auto. lia.
Qed.

Lemma rel_noread s e : e = 3 \/ e = 4 -> rel s s [ORead None None e [] []].
Proof.
  intros He. constructor; rewrite ?(eff_acks_quiet _ [ORead None None e [] []] eq_refl);
    unfold Tu, Ti, ack_ups, ack_ids, ack_results;
    cbn [minted_ups minted_ids acks_of read_results map concat app length nseq resolved];
    rewrite ?app_nil_r; auto. lia.
Qed.

Lemma step_main s e evs :
  dinv s -> budget s (e :: evs) ->
  dinv (fst (dstep s e)) /\ budget (fst (dstep s e)) evs /\ rel s (fst (dstep s e)) (snd (dstep s e)).
Proof.
  intros Hinv (Bu & Bi & Ba). cbn [length] in Bu, Ba.
  assert (Bs : budget s evs).
  { unfold budget. destruct e; cbn [wte] in Bi; repeat apply conj; lia. }
  destruct e as [c|m|pick|pick|sent| |csent]; cbn [dstep wte] in *.
  - (* Arrive *)
    destruct (d_closed s); [cbn [fst snd]; auto using rel_refl|].
    destruct (N.of_nat (length (d_inbox s)) <? d_cap s); [|cbn [fst snd]; auto using rel_refl].
    cbn [fst snd]. unfold set_inbox. split; [exact Hinv|]. split.
    + unfold budget. cbn [d_tabs d_inbox d_bufs]. rewrite wt_app. cbn [wt fold_right]. repeat apply conj; lia.
    + apply rel_quiet; reflexivity.
  - (* ArriveMeta *)
    destruct (d_closed s); [cbn [fst snd]; auto using rel_refl|].
    destruct (subscribed _ _ && _); [|cbn [fst snd]; auto using rel_refl].
    cbn [fst snd]. unfold set_metabox. split; [exact Hinv|]. split; [exact Bs|]. apply rel_quiet; reflexivity.
  - (* Read *)
    destruct (d_closed s && (v_strict (d_var s) || negb pick)).
    { cbn [fst snd]. split; [exact Hinv|]. split; [exact Bs|]. apply rel_noread. now right. }
    destruct (d_inbox s) as [|c rest] eqn:Ein.
    { cbn [fst snd]. split; [exact Hinv|]. split; [exact Bs|]. apply rel_noread. destruct (d_closed s); auto. }
    cbn [wt fold_right] in Bi. fold (wt rest) in Bi.
    destruct (do_read_spec s c rest Hinv ltac:(lia) ltac:(lia))
      as (nu & ni & res & err & t' & -> & S1 & S2 & S3 & S4 & S5 & S6 & S7 & S8 & S9 & _).
    cbn [fst snd]. split; [split; [exact S5 | split; assumption]|]. split.
    + unfold budget. cbn [d_tabs d_inbox d_bufs b_ackid]. repeat apply conj; lia.
    + constructor; rewrite ?(eff_acks_quiet _ [ORead (Some c) res err nu ni] eq_refl);
        unfold Tu, Ti, ack_ups, ack_ids, ack_results;
        cbn [minted_ups minted_ids acks_of read_results map concat app length nseq resolved d_tabs d_bufs
             b_up b_id b_res b_ackid d_var d_cap]; rewrite ?app_nil_r; auto; try lia.
      all: try (destruct res; reflexivity).
      split; [|exact I]. split; [|exact S4]. rewrite <- S1, <- S2. exact S3.
  - (* ReadMeta *)
    destruct (d_closed s && (v_strict (d_var s) || negb pick)).
    { cbn [fst snd]. split; [exact Hinv|]. split; [exact Bs|]. apply rel_quiet; reflexivity. }
    destruct (d_metabox s) as [|m rest].
    { cbn [fst snd]. split; [exact Hinv|]. split; [exact Bs|]. apply rel_quiet; reflexivity. }
    cbn [fst snd]. unfold set_metabox. split; [exact Hinv|]. split; [exact Bs|]. apply rel_quiet; reflexivity.
  - (* AckTick *)
    destruct (d_closed s); [cbn [fst snd]; auto using rel_refl|].
    destruct (flush_rel sent s Hinv ltac:(lia)) as (F1 & F2 & F3 & F4 & F5 & F6 & F7 & F10).
    split; [exact F1|]. split; [|exact F2].
    unfold budget. rewrite F3, F4. repeat apply conj; lia.
  - (* Close *)
    destruct (d_closed s); [cbn [fst snd]; auto using rel_refl|].
    destruct (flush_rel true s Hinv ltac:(lia)) as (F1 & F2 & F3 & F4 & F5 & F6 & F7 & F10).
    cbn [fst snd]. unfold set_closed. split; [exact F1|]. split.
    + unfold budget. cbn [d_tabs d_inbox d_bufs]. rewrite F3, F4. repeat apply conj; lia.
    + eapply rel_trans; [exact F2|]. apply rel_quiet; reflexivity.
  - (* ConnClose *)
    destruct (d_closed s); [cbn [fst snd]; auto using rel_refl|].
    destruct (flush_rel csent s Hinv ltac:(lia)) as (F1 & F2 & F3 & F4 & F5 & F6 & F7 & F10).
    cbn [fst snd]. unfold set_closed. split; [exact F1|]. split.
    + unfold budget. cbn [d_tabs d_inbox d_bufs]. rewrite F3, F4. repeat apply conj; lia.
    + rewrite <- (app_nil_r (snd (flush csent s))). eapply rel_trans; [exact F2|]. apply rel_quiet; reflexivity.
Qed.

Lemma run_main : forall evs s,
  dinv s -> budget s evs ->
  dinv (fst (drun s evs)) /\ rel s (fst (drun s evs)) (snd (drun s evs)).
Proof.
  induction evs as [|e evs IH]; intros s Hinv Hb.
  - cbn [drun fst snd]. split; [exact Hinv | apply rel_refl].
  - rewrite drun_cons. cbn [fst snd].
    destruct (step_main s e evs Hinv Hb) as (H1 & H2 & H3).
    destruct (IH _ H1 H2) as (H4 & H5).
    split; [exact H4 | eapply rel_trans; eassumption].
Qed.

(* ---------- the initial state ---------- *)

Definition small_history (pre : list N) (evs : list dev) : Prop :=
  N.of_nat (length evs) < two32 /\ N.of_nat (length pre) + wte evs < two32.

Lemma prereg_spec : forall ids t,
  keys_le (t_aliases t) (t_idgen t) -> NoDup (keys (t_aliases t)) ->
  t_idgen t + N.of_nat (length ids) < two32 ->
  t_aliases (prereg ids t) = t_aliases t ++ prereg_table (t_idgen t) ids /\
  t_idgen (prereg ids t) = t_idgen t + N.of_nat (length ids) /\
  keys_le (t_aliases (prereg ids t)) (t_idgen (prereg ids t)) /\ NoDup (keys (t_aliases (prereg ids t))) /\
  t_upinfos (prereg ids t) = t_upinfos t /\ t_upgen (prereg ids t) = t_upgen t.
Proof.
  induction ids as [|id ids IH]; intros t Hle Hnd Hg; cbn [prereg prereg_table length] in *.
  - rewrite app_nil_r. repeat apply conj; auto. lia.
  - assert (Hs : t_idgen t + 1 < two32) by lia. rewrite (alias_next_small _ Hs).
    assert (Hf : ~ In (t_idgen t + 1) (keys (t_aliases t))) by (apply (keys_le_notin _ (t_idgen t)); [exact Hle | lia]).
    rewrite (insert_fresh _ _ _ Hf).
    set (t1 := mkT _ _ _ _ _).
    assert (Hle1 : keys_le (t_aliases t1) (t_idgen t1)).
    { unfold t1; cbn [t_aliases t_idgen]. apply keys_le_app; [eapply keys_le_mono; [|exact Hle]; lia|]. intros k [<-|[]]. cbn [fst]. lia. }
    assert (Hnd1 : NoDup (keys (t_aliases t1))).
    { unfold t1; cbn [t_aliases t_idgen]. rewrite keys_app. cbn [keys map fst]. now apply NoDup_app_fresh. }
    destruct (IH t1 Hle1 Hnd1 ltac:(unfold t1; cbn [t_idgen]; lia)) as (H1 & H2 & H3 & H4 & H5 & H6).
    rewrite H1 in H3, H4 |- *. rewrite H2 in H3 |- *. rewrite H5, H6.
    subst t1. cbn [t_aliases t_idgen t_upinfos t_upgen] in *.
    rewrite <- app_assoc in H3, H4 |- *. cbn [app] in *.
    repeat apply conj; auto. lia.
Qed.

Lemma init_ok v fl cap pre evs :
  small_history pre evs ->
  dinv (dinit v fl cap pre) /\ budget (dinit v fl cap pre) evs /\
  Tu (dinit v fl cap pre) = [] /\ Ti (dinit v fl cap pre) = prereg_table 0 pre.
Proof.
  intros [H1 H2]. unfold dinit, Tu, Ti, dinv, budget.
  cbn [d_tabs d_bufs d_inbox b_up b_id b_res b_ackid wt fold_right].
  set (t0 := mkT [] [] 0 [] 0).
  destruct (prereg_spec pre t0) as (P1 & P2 & P3 & P4 & P5 & P6).
  { intros k []. } { constructor. } { cbn [t0 t_idgen]. lia. }
  rewrite P2, P5, P6, P1. cbn [t0 t_aliases t_idgen t_upinfos t_upgen proj_up map app].
  repeat apply conj; auto; try lia.
  - constructor; auto; rewrite ?P5, ?P6; cbn [t0 t_upinfos t_upgen]; [intros k [] | constructor].
  - intros k [].
  - intros k [].
Qed.

(* the statement every run satisfies, from the initial state *)
Lemma run_init v fl cap pre evs :
  small_history pre evs ->
  let s0 := dinit v fl cap pre in
  dinv (fst (drun s0 evs)) /\ rel s0 (fst (drun s0 evs)) (snd (drun s0 evs)).
Proof.
  intros H. destruct (init_ok v fl cap pre evs H) as (H1 & H2 & _). now apply run_main.
Qed.

(* ---------- C03 resolution ---------- *)

Lemma resolution v fl cap pre evs :
  small_history pre evs ->
  resolved [] (prereg_table 0 pre) (snd (drun (dinit v fl cap pre) evs)).
Proof.
  intros H. destruct (init_ok v fl cap pre evs H) as (H1 & H2 & H3 & H4).
  destruct (run_main evs _ H1 H2) as (_ & R). pose proof (r_res _ _ _ R) as Hr. now rewrite H3, H4 in Hr.
Qed.

(* every alias a chunk uses is a key of the given tables *)
Definition aliases_known (tu ti : lmap N) (c : chunk) : Prop :=
  match ck_up c with UAlias a => In a (keys tu) | UFull _ => True end /\
  forall a ps, In (DAlias a, ps) (ck_groups c) -> In a (keys ti).

Lemma resolve_groups_known ti : forall gs r,
  resolve_groups ti gs = Some r -> forall a ps, In (DAlias a, ps) gs -> In a (keys ti).
Proof.
  induction gs as [|[d ps0] gs IH]; intros r Hr a ps Hin; cbn [In resolve_groups] in *; [tauto|].
  destruct d as [id|a0].
  - destruct (resolve_groups ti gs) eqn:E; [|discriminate]. destruct Hin as [Hin|Hin]; [discriminate|]. eapply IH; eauto.
  - destruct (lookup a0 ti) eqn:El; [|discriminate].
    destruct (resolve_groups ti gs) eqn:E; [|discriminate].
    destruct Hin as [Hin|Hin]; [injection Hin as -> _; eapply lookup_some_key; eauto | eapply IH; eauto].
Qed.

Lemma spec_resolve_known tu ti c rc : spec_resolve tu ti c = Some rc -> aliases_known tu ti c.
Proof.
  unfold spec_resolve, aliases_known. intros H. split.
  - destruct (ck_up c) as [i|a]; [exact I|]. destruct (lookup a tu) eqn:E; [|discriminate]. eapply lookup_some_key; eauto.
  - destruct (match ck_up c with UFull i => Some i | UAlias a => lookup a tu end); [|discriminate].
    destruct (resolve_groups ti (ck_groups c)) eqn:E; [|discriminate]. eapply resolve_groups_known; eauto.
Qed.

Lemma aliases_known_mono tu ti tu' ti' c :
  aliases_known tu ti c -> aliases_known (tu ++ tu') (ti ++ ti') c.
Proof.
  intros [H1 H2]. split.
  - destruct (ck_up c); [exact I|]. rewrite keys_app, in_app_iff. now left.
  - intros a ps Hin. rewrite keys_app, in_app_iff. left. eapply H2; eauto.
Qed.

Lemma resolved_in c rc err nu ni : forall outs tu ti,
  resolved tu ti outs -> In (ORead (Some c) (Some rc) err nu ni) outs ->
  aliases_known (tu ++ minted_ups outs) (ti ++ minted_ids outs) c /\ err = 0.
Proof.
  induction outs as [|o outs IH]; intros tu ti Hr Hin; [destruct Hin|].
  destruct Hin as [->|Hin].
  - cbn [resolved minted_ups minted_ids] in *. destruct Hr as [[H1 H2] _]. split; [|exact H2].
    rewrite !app_assoc. apply aliases_known_mono. eapply spec_resolve_known. symmetry; exact H1.
  - destruct o; cbn [resolved minted_ups minted_ids] in *; try (apply IH; assumption).
    destruct Hr as [_ Hr]. rewrite !app_assoc. apply IH; assumption.
Qed.

Lemma delivered_known v fl cap pre evs c rc err nu ni :
  small_history pre evs ->
  let outs := snd (drun (dinit v fl cap pre) evs) in
  In (ORead (Some c) (Some rc) err nu ni) outs ->
  aliases_known (minted_ups outs) (prereg_table 0 pre ++ minted_ids outs) c /\ err = 0.
Proof.
  intros H outs Hin. pose proof (resolution v fl cap pre evs H) as Hr.
  exact (resolved_in c rc err nu ni _ _ _ Hr Hin).
Qed.

(* ---------- C03 once, in order ---------- *)

Fixpoint arrived_chunks (evs : list dev) : list chunk :=
  match evs with
  | [] => []
  | Arrive c :: r => c :: arrived_chunks r
  | _ :: r => arrived_chunks r
  end.

Lemma do_read_shape s c rest :
  exists res err nu ni s',
    do_read s c rest = (s', [ORead (Some c) res err nu ni]) /\
    d_inbox s' = rest /\ d_metabox s' = d_metabox s /\ d_closed s' = d_closed s /\ d_cap s' = d_cap s /\
    d_subs s' = d_subs s.
Proof.
  unfold do_read.
  destruct (resolve_up _ _); [destruct (resolve_groups _ _)|]; repeat eexists.
Qed.

Definition meta_pub (m : meta) : N * N := (m_src m, m_body m).

Lemma flush_frame sent s :
  consumed_of (snd (flush sent s)) = [] /\ metas_of (snd (flush sent s)) = [] /\
  metaacks_of (snd (flush sent s)) = [] /\
  d_inbox (fst (flush sent s)) = d_inbox s /\ d_metabox (fst (flush sent s)) = d_metabox s /\
  d_closed (fst (flush sent s)) = d_closed s /\ d_cap (fst (flush sent s)) = d_cap s /\
  d_subs (fst (flush sent s)) = d_subs s.
Proof.
  flush_cases s;
    cbn [fst snd consumed_of metas_of metaacks_of set_bufs d_inbox d_metabox d_closed d_cap d_subs]; repeat split.
Qed.

Lemma fifo_order : forall evs s q qm,
  (d_closed s = false -> q = N.of_nat (length (d_inbox s)) /\ qm = N.of_nat (length (d_metabox s))) ->
  keeps_up (d_subs s) (d_cap s) q qm (d_closed s) evs = true ->
  let r := drun s evs in
  d_inbox s ++ arrived_chunks evs = consumed_of (snd r) ++ d_inbox (fst r) /\
  map meta_pub (d_metabox s) ++ map meta_pub (arrived_metas (d_subs s) evs) =
    returned_metas (metas_of (snd r)) ++ map meta_pub (d_metabox (fst r)) /\
  map m_req (d_metabox s) ++ map m_req (arrived_metas (d_subs s) evs) =
    metaacks_of (snd r) ++ map m_req (d_metabox (fst r)).
Proof.
  induction evs as [|e evs IH]; intros s q qm Hq Hk.
  - cbn [drun fst snd arrived_chunks arrived_metas consumed_of metas_of returned_metas metaacks_of map app].
    rewrite !app_nil_r. auto.
  - rewrite drun_cons. cbn [fst snd].
    destruct e as [c|m|pick|pick|sent| |csent]; cbn [keeps_up] in Hk; cbn [dstep arrived_chunks arrived_metas].
    + (* Arrive *)
      apply andb_true_iff in Hk as [Hk1 Hk]. apply andb_true_iff in Hk1 as [Hc Hlt].
      apply negb_true_iff in Hc. destruct (Hq Hc) as [-> ->]. rewrite Hc in *. rewrite Hlt.
      cbn [fst snd app]. unfold set_inbox. rewrite ?Hc.
      specialize (IH (mkD (d_var s) (d_subs s) (d_cap s) (d_tabs s) (d_bufs s) (d_inbox s ++ [c]) (d_metabox s) false)
                     (N.of_nat (length (d_inbox s)) + 1) (N.of_nat (length (d_metabox s)))).
      cbn [d_closed d_cap d_subs d_inbox d_metabox] in IH.
      destruct IH as (I1 & I2 & I3); [intros _; rewrite app_length; cbn [length]; split; lia | exact Hk |].
      rewrite <- app_assoc in I1. cbn [app] in I1. auto.
    + (* ArriveMeta *)
      apply andb_true_iff in Hk as [Hc Hk]. apply negb_true_iff in Hc.
      destruct (Hq Hc) as [-> ->]. rewrite Hc in *.
      destruct (subscribed (d_subs s) (m_src m)) eqn:Esub; cbn [andb].
      2:{ cbn [fst snd app]. apply (IH s (N.of_nat (length (d_inbox s))) (N.of_nat (length (d_metabox s)))); [intros _; auto | rewrite Hc; exact Hk]. }
      apply andb_true_iff in Hk as [Hlt Hk]. rewrite Hlt.
      cbn [fst snd app]. unfold set_metabox. rewrite ?Hc.
      specialize (IH (mkD (d_var s) (d_subs s) (d_cap s) (d_tabs s) (d_bufs s) (d_inbox s) (d_metabox s ++ [m]) false)
                     (N.of_nat (length (d_inbox s))) (N.of_nat (length (d_metabox s)) + 1)).
      cbn [d_closed d_cap d_subs d_inbox d_metabox] in IH.
      destruct IH as (I1 & I2 & I3); [intros _; rewrite app_length; cbn [length]; split; lia | exact Hk |].
      rewrite map_app, <- app_assoc in I2, I3. cbn [app map] in I2, I3. auto.
    + (* Read *)
      destruct (d_closed s && (v_strict (d_var s) || negb pick)) eqn:Ecp.
      { cbn [fst snd app consumed_of metas_of metaacks_of].
        apply andb_true_iff in Ecp as [Ec _]. apply (IH s (q - 1) qm); [rewrite Ec; discriminate | exact Hk]. }
      destruct (d_inbox s) as [|c rest] eqn:Ein.
      { cbn [fst snd app consumed_of metas_of metaacks_of].
        destruct (IH s (q - 1) qm) as (I1 & I2 & I3); [|exact Hk|].
        { intros Hc. destruct (Hq Hc) as [-> ->]. rewrite ?Ein. cbn [length]. split; lia. }
        rewrite Ein in I1. cbn [app] in I1. auto. }
      destruct (do_read_shape s c rest) as (res & err & nu & ni & s' & -> & S1 & S2 & S3 & S4 & S5).
      cbn [fst snd app consumed_of metas_of metaacks_of].
      specialize (IH s' (q - 1) qm). rewrite S1, S2, S3, S4, S5 in IH.
      destruct IH as (I1 & I2 & I3); [|exact Hk|].
      { intros Hc. destruct (Hq Hc) as [-> ->]. rewrite ?Ein. cbn [length]. split; lia. }
      rewrite <- I1. auto.
    + (* ReadMeta *)
      destruct (d_closed s && (v_strict (d_var s) || negb pick)) eqn:Ecp.
      { cbn [fst snd app consumed_of metas_of returned_metas metaacks_of].
        apply andb_true_iff in Ecp as [Ec _]. apply (IH s q (qm - 1)); [rewrite Ec; discriminate | exact Hk]. }
      destruct (d_metabox s) as [|m rest] eqn:Ein.
      { cbn [fst snd app consumed_of metas_of returned_metas metaacks_of].
        destruct (IH s q (qm - 1)) as (I1 & I2 & I3); [|exact Hk|].
        { intros Hc. destruct (Hq Hc) as [-> ->]. rewrite ?Ein. cbn [length]. split; lia. }
        rewrite Ein in I2, I3. cbn [app map] in I2, I3. auto. }
      cbn [fst snd app consumed_of metas_of returned_metas metaacks_of map]. unfold set_metabox.
      specialize (IH (mkD (d_var s) (d_subs s) (d_cap s) (d_tabs s) (d_bufs s) (d_inbox s) rest (d_closed s)) q (qm - 1)).
      cbn [d_closed d_cap d_subs d_inbox d_metabox] in IH.
      destruct IH as (I1 & I2 & I3); [|exact Hk|].
      { intros Hc. destruct (Hq Hc) as [-> ->]. rewrite ?Ein. cbn [length]. split; lia. }
      rewrite <- I2, <- I3. auto.
    + (* AckTick *)
      destruct (d_closed s) eqn:Ec.
      { cbn [fst snd app]. apply (IH s q qm); [rewrite Ec; discriminate | rewrite Ec; exact Hk]. }
      destruct (flush_frame sent s) as (E2 & E3 & E4 & E5 & E6 & E7 & E8 & E9).
      rewrite consumed_of_app, metas_of_app, metaacks_of_app, E2, E3, E4. cbn [app].
      rewrite <- E5, <- E6, <- E9. apply (IH _ q qm); rewrite ?E5, ?E6, ?E7, ?E8, ?E9, ?Ec; assumption.
    + (* Close *)
      destruct (d_closed s) eqn:Ec.
      { cbn [fst snd app]. apply (IH s q qm); [rewrite Ec; discriminate | rewrite Ec; exact Hk]. }
      destruct (flush_frame true s) as (E2 & E3 & E4 & E5 & E6 & E7 & E8 & E9).
      cbn [fst snd].
      rewrite !consumed_of_app, !metas_of_app, !metaacks_of_app, E2, E3, E4.
      cbn [app consumed_of metas_of metaacks_of]. unfold set_closed.
      set (s' := fst (flush true s)) in *.
      specialize (IH (mkD (d_var s') (d_subs s') (d_cap s') (d_tabs s') (d_bufs s') (d_inbox s') (d_metabox s') true) q qm).
      cbn [d_closed d_cap d_subs d_inbox d_metabox] in IH. rewrite E5, E6, E8, E9 in IH. rewrite E5, E6, E8, E9.
      apply IH; [discriminate | exact Hk].
    + (* ConnClose *)
      destruct (d_closed s) eqn:Ec.
      { cbn [fst snd app]. apply (IH s q qm); [rewrite Ec; discriminate | rewrite Ec; exact Hk]. }
      destruct (flush_frame csent s) as (E2 & E3 & E4 & E5 & E6 & E7 & E8 & E9).
      cbn [fst snd].
      rewrite !consumed_of_app, !metas_of_app, !metaacks_of_app, E2, E3, E4.
      cbn [app consumed_of metas_of metaacks_of]. unfold set_closed.
      set (s' := fst (flush csent s)) in *.
      specialize (IH (mkD (d_var s') (d_subs s') (d_cap s') (d_tabs s') (d_bufs s') (d_inbox s') (d_metabox s') true) q qm).
      cbn [d_closed d_cap d_subs d_inbox d_metabox] in IH. rewrite E5, E6, E8, E9 in IH. rewrite E5, E6, E8, E9.
      apply IH; [discriminate | exact Hk].
Qed.

Lemma once_in_order v fl cap pre evs :
  keeps_up fl cap 0 0 false evs = true ->
  let r := drun (dinit v fl cap pre) evs in
  arrived_chunks evs = consumed_of (snd r) ++ d_inbox (fst r) /\
  map meta_pub (arrived_metas fl evs) = returned_metas (metas_of (snd r)) ++ map meta_pub (d_metabox (fst r)) /\
  map m_req (arrived_metas fl evs) = metaacks_of (snd r) ++ map m_req (d_metabox (fst r)).
Proof.
  intros Hk. apply (fifo_order evs (dinit v fl cap pre) 0 0); [cbn; auto | exact Hk].
Qed.

(* ---------- C04: acknowledgements and announcements ---------- *)

Lemma conservation v fl cap pre evs :
  small_history pre evs ->
  let r := drun (dinit v fl cap pre) evs in
  ack_results (eff_acks (v_keep v) (snd r)) ++ b_res (d_bufs (fst r)) = read_results (snd r) /\
  ack_ups (eff_acks (v_keep v) (snd r)) ++ b_up (d_bufs (fst r)) = minted_ups (snd r) /\
  ack_ids (eff_acks (v_keep v) (snd r)) ++ b_id (d_bufs (fst r)) = minted_ids (snd r).
Proof.
  intros H r. destruct (run_init v fl cap pre evs H) as (_ & R).
  pose proof (r_br _ _ _ R) as H1. pose proof (r_bu _ _ _ R) as H2. pose proof (r_bi _ _ _ R) as H3.
  unfold d_keep in H1, H2, H3. cbn [dinit d_bufs b_res b_up b_id app d_var] in H1, H2, H3. subst r. auto.
Qed.

Lemma ack_numbering v fl cap pre evs :
  small_history pre evs ->
  let r := drun (dinit v fl cap pre) evs in
  map ack_id (acks_of (snd r)) = nseq 1 (length (acks_of (snd r))) /\
  b_ackid (d_bufs (fst r)) = N.of_nat (length (acks_of (snd r))).
Proof.
  intros H r. destruct (run_init v fl cap pre evs H) as (_ & R).
  pose proof (r_ackids _ _ _ R) as H1. pose proof (r_ack _ _ _ R) as H2.
  cbn [dinit d_bufs b_ackid] in H1, H2. subst r. split; [exact H1 | rewrite H2; lia].
Qed.

Lemma alias_injective v fl cap pre evs :
  small_history pre evs ->
  let outs := snd (drun (dinit v fl cap pre) evs) in
  NoDup (keys (minted_ups outs)) /\ NoDup (keys (prereg_table 0 pre ++ minted_ids outs)).
Proof.
  intros H outs. destruct (init_ok v fl cap pre evs H) as (H1 & H2 & H3 & H4).
  destruct (run_main evs _ H1 H2) as ([[_ And _ Und] _] & R).
  pose proof (r_tu _ _ _ R) as Etu. pose proof (r_ti _ _ _ R) as Eti. rewrite H3 in Etu. rewrite H4 in Eti.
  cbn [app] in Etu. fold outs in Etu, Eti. split.
  - rewrite <- Etu. unfold Tu. now rewrite keys_proj_up.
  - rewrite <- Eti. exact And.
Qed.

Fixpoint all_sent (evs : list dev) : bool :=
  match evs with
  | [] => true
  | AckTick false :: _ => false
  | ConnClose false :: _ => false
  | _ :: r => all_sent r
  end.

Lemma flush_sent s : sent_acks_of (snd (flush true s)) = acks_of (snd (flush true s)).
Proof.
  flush_cases s; reflexivity.
Qed.

Lemma sent_all : forall evs s, all_sent evs = true ->
  sent_acks_of (snd (drun s evs)) = acks_of (snd (drun s evs)).
Proof.
  induction evs as [|e evs IH]; intros s H; [reflexivity|].
  rewrite drun_cons. cbn [snd]. rewrite sent_acks_of_app, acks_of_app.
  assert (Hs : sent_acks_of (snd (dstep s e)) = acks_of (snd (dstep s e)) /\ all_sent evs = true).
  { destruct e as [c|m|pick|pick|sent| |csent]; cbn [all_sent dstep] in *.
    - split; [|exact H]. destruct (d_closed s); [reflexivity|]. destruct (_ <? _); reflexivity.
    - split; [|exact H]. destruct (d_closed s); [reflexivity|]. destruct (subscribed _ _ && _); reflexivity.
    - split; [|exact H]. destruct (d_closed s && (v_strict (d_var s) || negb pick)); [reflexivity|]. destruct (d_inbox s) as [|c rest]; [reflexivity|].
      destruct (do_read_shape s c rest) as (res & err & nu & ni & s' & -> & _). reflexivity.
    - split; [|exact H]. destruct (d_closed s && (v_strict (d_var s) || negb pick)); [reflexivity|]. destruct (d_metabox s); reflexivity.
    - destruct sent; [|discriminate]. split; [|exact H]. destruct (d_closed s); [reflexivity|]. apply flush_sent.
    - split; [|exact H]. destruct (d_closed s); [reflexivity|]. cbn [snd].
      rewrite sent_acks_of_app, acks_of_app, flush_sent. reflexivity.
    - destruct csent; [|discriminate]. split; [|exact H]. destruct (d_closed s); [reflexivity|]. cbn [snd]. apply flush_sent. }
  destruct Hs as [-> Hs]. now rewrite IH.
Qed.

(* Close *)

Lemma closed_stays : forall evs s, d_closed s = true ->
  acks_of (snd (drun s evs)) = [] /\ closereqs_of (snd (drun s evs)) = 0 /\ d_closed (fst (drun s evs)) = true.
Proof.
  induction evs as [|e evs IH]; intros s Hc; [cbn; auto|].
  rewrite drun_cons. cbn [fst snd]. rewrite acks_of_app, closereqs_of_app.
  assert (Hs : acks_of (snd (dstep s e)) = [] /\ closereqs_of (snd (dstep s e)) = 0 /\ d_closed (fst (dstep s e)) = true).
  { destruct e as [c|m|pick|pick|sent| |csent]; cbn [dstep]; rewrite ?Hc; cbn [fst snd acks_of closereqs_of]; auto.
    - destruct (true && _); [cbn; auto|]. destruct (d_inbox s) as [|c rest]; [cbn; auto|].
      destruct (do_read_shape s c rest) as (res & err & nu & ni & s' & -> & _ & _ & S3 & _).
      cbn [fst snd acks_of closereqs_of]. rewrite S3. auto.
    - destruct (true && _); [cbn; auto|]. destruct (d_metabox s); cbn; auto. }
  destruct Hs as (-> & -> & Hs). destruct (IH _ Hs) as (-> & -> & ->). auto.
Qed.

Lemma open_stays : forall evs s, has_closing evs = false -> d_closed s = false ->
  closereqs_of (snd (drun s evs)) = 0 /\ d_closed (fst (drun s evs)) = false.
Proof.
  induction evs as [|e evs IH]; intros s Hh Hc; [cbn; auto|].
  unfold has_closing in Hh. cbn [existsb] in Hh. apply orb_false_iff in Hh as [He Hh].
  rewrite drun_cons. cbn [fst snd]. rewrite closereqs_of_app.
  assert (Hs : closereqs_of (snd (dstep s e)) = 0 /\ d_closed (fst (dstep s e)) = false).
  { destruct e as [c|m|pick|pick|sent| |csent]; try discriminate He; cbn [dstep]; rewrite ?Hc; cbn [fst snd closereqs_of]; auto.
    - destruct (_ <? _); cbn; auto.
    - destruct (subscribed _ _ && _); cbn; auto.
    - cbn [andb]. destruct (d_inbox s) as [|c rest]; [cbn; auto|].
      destruct (do_read_shape s c rest) as (res & err & nu & ni & s' & -> & _ & _ & S3 & _).
      cbn [fst snd acks_of closereqs_of]. rewrite S3. auto.
    - cbn [andb]. destruct (d_metabox s); cbn; auto.
    - destruct (flush_frame sent s) as (_ & _ & _ & _ & _ & -> & _). split; [|exact Hc].
      flush_cases s; reflexivity. }
  destruct Hs as (-> & Hs). destruct (IH _ Hh Hs) as (-> & ->). auto.
Qed.

Lemma wte_app a b : wte (a ++ b) = wte a + wte b.
Proof. induction a as [|e a IH]; [reflexivity|]. destruct e; cbn [app wte]; rewrite ?IH; lia. Qed.

Lemma small_prefix pre a b : small_history pre (a ++ b) -> small_history pre a.
Proof. intros [H1 H2]. rewrite app_length in H1. rewrite wte_app in H2. split; lia. Qed.

Lemma close_order v fl cap pre evs post :
  small_history pre (evs ++ Close :: post) -> has_closing evs = false ->
  let s0 := dinit v fl cap pre in
  let o1 := snd (drun s0 evs) in
  exists mid tail,
    snd (drun s0 (evs ++ Close :: post)) = o1 ++ mid ++ [OCloseReq] ++ tail /\
    closereqs_of o1 = 0 /\ closereqs_of mid = 0 /\ closereqs_of tail = 0 /\ acks_of tail = [] /\
    sent_acks_of mid = acks_of mid /\
    ack_results (eff_acks (v_keep v) (o1 ++ mid)) = read_results o1 /\
    ack_ups (eff_acks (v_keep v) (o1 ++ mid)) = minted_ups o1 /\
    ack_ids (eff_acks (v_keep v) (o1 ++ mid)) = minted_ids o1.
Proof.
  intros Hs Hh s0 o1.
  assert (Hs1 : small_history pre (evs ++ [Close])).
  { replace (evs ++ Close :: post) with ((evs ++ [Close]) ++ post) in Hs by (now rewrite <- app_assoc).
    eapply small_prefix; exact Hs. }
  destruct (init_ok v fl cap pre _ Hs1) as (I1 & I2 & _).
  pose proof (small_prefix _ _ _ Hs1) as Hs0.
  destruct (conservation v fl cap pre evs Hs0) as (C1 & C2 & C3).
  destruct (run_init v fl cap pre evs Hs0) as (Hinv1 & R1).
  destruct (open_stays evs s0 Hh eq_refl) as (K1 & K2).
  fold s0 in C1, C2, C3, Hinv1, R1. set (s1 := fst (drun s0 evs)) in *. fold o1 in C1, C2, C3, K1, R1.
  (* the budget at s1 leaves room for one more ack id *)
  assert (Hb : b_ackid (d_bufs s1) + 1 < two32).
  { destruct (ack_numbering v fl cap pre evs Hs0) as (_ & Ea). fold s0 in Ea. fold s1 in Ea. fold o1 in Ea.
    destruct (run_init v fl cap pre (evs ++ [Close]) Hs1) as (_ & R2).
    destruct Hs1 as [Hl _]. rewrite app_length in Hl. cbn [length] in Hl.
    assert (N.of_nat (length (acks_of o1)) <= N.of_nat (length evs)); [|lia].
    clear -o1. subst o1. generalize s0. induction evs as [|e evs IH]; intros s; [cbn; lia|].
    rewrite drun_cons. cbn [snd]. rewrite acks_of_app, app_length. cbn [length].
    assert (length (acks_of (snd (dstep s e))) <= 1)%nat.
    { destruct e as [c|m|pick|pick|sent| |csent]; cbn [dstep].
      - destruct (d_closed s); [cbn; lia|]. destruct (_ <? _); cbn; lia.
      - destruct (d_closed s); [cbn; lia|]. destruct (subscribed _ _ && _); cbn; lia.
      - destruct (d_closed s && (v_strict (d_var s) || negb pick)); [cbn; lia|]. destruct (d_inbox s) as [|c rest]; [cbn; lia|].
        destruct (do_read_shape s c rest) as (res & err & nu & ni & s' & -> & _). cbn; lia.
      - destruct (d_closed s && (v_strict (d_var s) || negb pick)); [cbn; lia|]. destruct (d_metabox s); cbn; lia.
      - destruct (d_closed s); [cbn; lia|]. flush_cases s; cbn; lia.
      - destruct (d_closed s); [cbn; lia|]. cbn [snd]. rewrite acks_of_app, app_length. flush_cases s; cbn; lia.
      - destruct (d_closed s); [cbn; lia|]. cbn [snd]. flush_cases s; cbn; lia. }
    specialize (IH (fst (dstep s e))). lia. }
  destruct (flush_rel true s1 Hinv1 Hb) as (F1 & F2 & F3 & F4 & F5 & F6 & F7 & F10).
  destruct (F7 eq_refl) as (F7a & F8 & F9).
  exists (snd (flush true s1)), (snd (drun (set_closed (fst (flush true s1))) post)).
  rewrite drun_app. cbn [snd]. fold s1. fold o1. rewrite drun_cons. cbn [dstep]. rewrite K2. cbn [fst snd].
  destruct (closed_stays post (set_closed (fst (flush true s1))) eq_refl) as (T1 & T2 & _).
  assert (Ek : d_keep s1 = v_keep v).
  { unfold d_keep. rewrite (r_var _ _ _ R1). reflexivity. }
  pose proof (r_br _ _ _ F2) as G1. pose proof (r_bu _ _ _ F2) as G2. pose proof (r_bi _ _ _ F2) as G3.
  rewrite Ek in G1, G2, G3.
  rewrite F7a in G2. rewrite F8 in G3. rewrite F9 in G1. rewrite app_nil_r in G1, G2, G3.
  assert (Q : minted_ups (snd (flush true s1)) = [] /\ minted_ids (snd (flush true s1)) = [] /\
              read_results (snd (flush true s1)) = [] /\ closereqs_of (snd (flush true s1)) = 0).
  { flush_cases s1; cbn; auto. }
  destruct Q as (Q1 & Q2 & Q3 & Q4). rewrite Q1 in G2. rewrite Q2 in G3. rewrite Q3 in G1. rewrite app_nil_r in G1, G2, G3.
  rewrite <- !app_assoc. cbn [app].
  repeat apply conj; auto.
  - apply flush_sent.
  - rewrite eff_acks_app, ack_results_app, <- G1. exact C1.
  - rewrite eff_acks_app, ack_ups_app, <- G2. exact C2.
  - rewrite eff_acks_app, ack_ids_app, <- G3. exact C3.
Qed.

(* ---------- C04: one alias per upstream / data id (value comparison), completeness ---------- *)

Lemma keys_insert {V} (k0 : N) (v : V) (m : lmap V) (k : N) :
  In k (keys (insert k0 v m)) <-> k = k0 \/ In k (keys m).
Proof.
  induction m as [|[k' v'] m IH]; cbn [insert keys map fst In].
  - intuition.
  - destruct (k' =? k0) eqn:E; cbn [keys map fst In].
    + apply N.eqb_eq in E. subst. intuition.
    + fold (keys (insert k0 v m)). fold (keys m). rewrite IH. intuition.
Qed.

Definition vals (m : lmap N) : list N := map snd m.

Lemma vals_app a b : vals (a ++ b) = vals a ++ vals b.
Proof. apply map_app. Qed.

Definition rinv (t : dtabs) : Prop :=
  (forall id, In id (keys (t_rev t)) -> In id (vals (t_aliases t))) /\
  (forall id, In id (vals (t_aliases t)) -> In id (keys (t_rev t))).

Lemma rinv_add t id :
  rinv t -> t_idgen t + 1 < two32 -> keys_le (t_aliases t) (t_idgen t) ->
  rinv (mkT (insert (t_idgen t + 1) id (t_aliases t)) (insert id (t_idgen t + 1) (t_rev t)) (t_idgen t + 1) (t_upinfos t) (t_upgen t)) /\
  insert (t_idgen t + 1) id (t_aliases t) = t_aliases t ++ [(t_idgen t + 1, id)].
Proof.
  intros [R1 R2] Hs Hle.
  assert (Hf : ~ In (t_idgen t + 1) (keys (t_aliases t))) by (apply (keys_le_notin _ (t_idgen t)); [exact Hle | lia]).
  rewrite (insert_fresh _ _ _ Hf). split; [|reflexivity]. split; cbn [t_aliases t_rev]; intros x.
  - rewrite keys_insert, vals_app, in_app_iff. cbn [vals map snd In]. intros [->|H]; auto.
  - rewrite keys_insert, vals_app, in_app_iff. cbn [vals map snd In]. intros [H|[<-|[]]]; auto.
Qed.

Lemma assign_ids_func : forall ids t res,
  keys_le (t_aliases t) (t_idgen t) -> t_idgen t + N.of_nat (length ids) < two32 -> rinv t ->
  let r := assign_ids ids t res in
  rinv (fst r) /\
  (NoDup (vals (t_aliases t)) -> NoDup (vals (t_aliases (fst r)))) /\
  (forall id, In id ids -> In id (vals (t_aliases (fst r)))) /\
  (forall x, In x (vals (t_aliases t)) -> In x (vals (t_aliases (fst r)))).
Proof.
  induction ids as [|id ids IH]; intros t res Hle Hg Hr; cbn [assign_ids length] in *.
  - cbn [fst]. split; [exact Hr|]. split; [auto|]. split; [intros id []|auto].
  - destruct (lookup id (t_rev t)) eqn:El.
    + destruct (IH t res Hle ltac:(lia) Hr) as (I1 & I2 & I3 & I4).
      split; [exact I1|]. split; [exact I2|]. split; [|exact I4]. intros x [<-|Hx]; [|auto].
      apply I4. apply (proj1 Hr). eapply lookup_some_key; eauto.
    + assert (Hs : t_idgen t + 1 < two32) by lia. rewrite (alias_next_small _ Hs).
      destruct (rinv_add t id Hr Hs Hle) as (Hr1 & Ein).
      set (t1 := mkT _ _ _ _ _) in *.
      assert (Hle1 : keys_le (t_aliases t1) (t_idgen t1)).
      { unfold t1; cbn [t_aliases t_idgen]. rewrite Ein. apply keys_le_app; [eapply keys_le_mono; [|exact Hle]; lia|].
        intros k [<-|[]]. cbn [fst]. lia. }
      destruct (IH t1 (insert (t_idgen t + 1) id res) Hle1 ltac:(unfold t1; cbn [t_idgen]; lia) Hr1) as (I1 & I2 & I3 & I4).
      assert (Ev : vals (t_aliases t1) = vals (t_aliases t) ++ [id]).
      { unfold t1; cbn [t_aliases]. rewrite Ein, vals_app. reflexivity. }
      split; [exact I1|]. split; [|split].
      * intros Hnd. apply I2. rewrite Ev. apply NoDup_app_fresh; [exact Hnd|].
        intros Hin. apply (proj2 Hr) in Hin. apply lookup_none_notin in El. contradiction.
      * intros x [<-|Hx]; [|auto]. apply I4. rewrite Ev, in_app_iff. right. now left.
      * intros x Hx. apply I4. rewrite Ev, in_app_iff. now left.
Qed.

Lemma vals_proj_up m : vals (proj_up m) = map (fun e : N * (N * N) => fst (snd e)) m.
Proof. unfold vals, proj_up. rewrite map_map. reflexivity. Qed.

Lemma process_up_func t c :
  keys_le (t_upinfos t) (t_upgen t) -> t_upgen t + 1 < two32 ->
  let r := process_up true t c in
  (NoDup (vals (proj_up (t_upinfos t))) -> NoDup (vals (proj_up (t_upinfos (fst r))))) /\
  (forall i, ck_up c = UFull i -> In i (vals (proj_up (t_upinfos (fst r))))).
Proof.
  intros Hle Hg. unfold process_up. destruct (ck_up c) as [info|a]; [|cbn [fst]; split; [auto | discriminate]].
  unfold assign_up. destruct (existsb _ (t_upinfos t)) eqn:E; cbn [fst t_upinfos].
  - split; [auto|]. intros i [= <-]. apply existsb_exists in E as (e & He & Hi). apply N.eqb_eq in Hi.
    rewrite vals_proj_up. apply in_map_iff. exists e. auto.
  - rewrite (alias_next_small _ Hg).
    assert (Hf : ~ In (t_upgen t + 1) (keys (t_upinfos t))) by (apply (keys_le_notin _ (t_upgen t)); [exact Hle | lia]).
    rewrite (insert_fresh _ _ _ Hf). rewrite !vals_proj_up, map_app. cbn [map fst snd]. split.
    + intros Hnd. apply NoDup_app_fresh; [exact Hnd|]. intros Hin. apply in_map_iff in Hin as (e & He & Hi).
      assert (Ht : existsb (fun e0 : N * (N * N) => fst (snd e0) =? info) (t_upinfos t) = true).
      { apply existsb_exists. exists e. split; [exact Hi | now apply N.eqb_eq]. }
      congruence.
    + intros i [= <-]. rewrite in_app_iff. right. now left.
Qed.

Lemma process_up_aliases fx t c : t_aliases (fst (process_up fx t c)) = t_aliases t /\
  t_rev (fst (process_up fx t c)) = t_rev t /\ t_idgen (fst (process_up fx t c)) = t_idgen t.
Proof.
  unfold process_up. destruct (ck_up c); [|auto]. unfold assign_up. destruct (existsb _ _); auto.
Qed.

Lemma assign_ids_upinfos : forall ids t res, t_upinfos (fst (assign_ids ids t res)) = t_upinfos t.
Proof.
  induction ids as [|id ids IH]; intros t res; cbn [assign_ids]; [reflexivity|].
  destruct (lookup id (t_rev t)); [apply IH|]. rewrite IH. reflexivity.
Qed.

(* which steps touch the tables *)
Lemma step_tabs_frame s e :
  (exists pick c rest, e = Read pick /\ d_inbox s = c :: rest /\ dstep s e = do_read s c rest) \/
  (d_tabs (fst (dstep s e)) = d_tabs s /\ consumed_of (snd (dstep s e)) = []).
Proof.
  destruct e as [c|m|pick|pick|sent| |csent]; cbn [dstep].
  - right. destruct (d_closed s); [auto|]. destruct (_ <? _); auto.
  - right. destruct (d_closed s); [auto|]. destruct (subscribed _ _ && _); auto.
  - destruct (d_closed s && (v_strict (d_var s) || negb pick)); [right; auto|]. destruct (d_inbox s) as [|c rest]; [right; auto|].
    left. exists pick, c, rest. auto.
  - right. destruct (d_closed s && (v_strict (d_var s) || negb pick)); [auto|]. destruct (d_metabox s); auto.
  - right. destruct (d_closed s); [auto|]. flush_cases s; auto.
  - right. destruct (d_closed s); [auto|]. cbn [fst snd]. rewrite consumed_of_app. flush_cases s; auto.
  - right. destruct (d_closed s); [auto|]. cbn [fst snd]. flush_cases s; auto.
Qed.

Definition covered (s : dstate) (c : chunk) : Prop :=
  (forall id, In id (full_ids (ck_groups c)) -> In id (vals (Ti s))) /\
  (d_fx s = true -> forall i, ck_up c = UFull i -> In i (vals (Tu s))).

Lemma step_func s e evs :
  dinv s -> budget s (e :: evs) -> rinv (d_tabs s) ->
  let s' := fst (dstep s e) in
  rinv (d_tabs s') /\
  (NoDup (vals (Ti s)) -> NoDup (vals (Ti s'))) /\
  (d_fx s = true -> NoDup (vals (Tu s)) -> NoDup (vals (Tu s'))) /\
  (forall c, In c (consumed_of (snd (dstep s e))) -> covered s' c).
Proof.
  intros Hinv Hb Hr s'. subst s'.
  destruct (step_tabs_frame s e) as [(pick & c & rest & -> & Ein & ->)|[Et Ec]].
  2:{ unfold Ti, Tu. rewrite Et, Ec. split; [exact Hr|]. split; [auto|]. split; [auto|]. intros c []. }
  destruct Hb as (Bu & Bi & _). cbn [length wte] in Bu, Bi. rewrite Ein in Bi. cbn [wt fold_right] in Bi. fold (wt rest) in Bi.
  destruct (do_read_spec s c rest Hinv ltac:(lia) ltac:(lia))
    as (nu & ni & res & err & t' & -> & S1 & S2 & S3 & S4 & S5 & S6 & S7 & S8 & S9 & St).
  cbn [fst snd consumed_of d_tabs]. unfold covered, Ti, Tu, d_fx. cbn [d_tabs d_var]. fold (d_fx s).
  destruct Hinv as [[Hal Hand Hul Hund] _].
  destruct (process_up_aliases (d_fx s) (d_tabs s) c) as (A1 & A2 & A3).
  set (t1 := fst (process_up (d_fx s) (d_tabs s) c)) in *.
  assert (Hr1 : rinv t1) by (unfold rinv; rewrite A1, A2; exact Hr).
  assert (Hle1 : keys_le (t_aliases t1) (t_idgen t1)) by (rewrite A1, A3; exact Hal).
  assert (Hg1 : t_idgen t1 + N.of_nat (length (full_ids (ck_groups c))) < two32).
  { rewrite A3. pose proof (full_ids_len (ck_groups c)). lia. }
  destruct (assign_ids_func (full_ids (ck_groups c)) t1 [] Hle1 Hg1 Hr1) as (I1 & I2 & I3 & I4).
  rewrite <- St in I1, I2, I3, I4. rewrite A1 in I2.
  assert (Eup : t_upinfos t' = t_upinfos t1) by (rewrite St; apply assign_ids_upinfos).
  split; [exact I1|]. split; [exact I2|]. split.
  - intros Hfx. rewrite Eup. unfold t1. rewrite Hfx. apply process_up_func; [exact Hul | lia].
  - intros c0 [<-|[]]. split; [exact I3|]. intros Hfx. rewrite Eup. unfold t1. rewrite Hfx.
    apply process_up_func; [exact Hul | lia].
Qed.

Lemma covered_mono s s' outs c : rel s s' outs -> covered s c -> covered s' c.
Proof.
  intros R [C1 C2]. split.
  - intros id Hid. rewrite (r_ti _ _ _ R), vals_app, in_app_iff. left. auto.
  - unfold d_fx. rewrite (r_var _ _ _ R). intros Hfx i Hi. rewrite (r_tu _ _ _ R), vals_app, in_app_iff. left. auto.
Qed.

Lemma run_func : forall evs s,
  dinv s -> budget s evs -> rinv (d_tabs s) ->
  let s' := fst (drun s evs) in
  rinv (d_tabs s') /\
  (NoDup (vals (Ti s)) -> NoDup (vals (Ti s'))) /\
  (d_fx s = true -> NoDup (vals (Tu s)) -> NoDup (vals (Tu s'))) /\
  (forall c, In c (consumed_of (snd (drun s evs))) -> covered s' c).
Proof.
  induction evs as [|e evs IH]; intros s Hinv Hb Hr.
  - cbn [drun fst snd consumed_of]. split; [exact Hr|]. split; [auto|]. split; [auto|]. intros c [].
  - rewrite drun_cons. cbn [fst snd].
    destruct (step_main s e evs Hinv Hb) as (M1 & M2 & M3).
    destruct (step_func s e evs Hinv Hb Hr) as (F1 & F2 & F3 & F4).
    destruct (IH _ M1 M2 F1) as (I1 & I2 & I3 & I4).
    destruct (run_main evs _ M1 M2) as (_ & R).
    split; [exact I1|]. split; [auto|]. split.
    + intros Hfx Hnd. apply I3; [unfold d_fx; rewrite (r_var _ _ _ M3); exact Hfx | auto].
    + intros c. rewrite consumed_of_app, in_app_iff. intros [Hc|Hc]; [|auto].
      eapply covered_mono; [exact R | auto].
Qed.

Lemma vals_prereg_table : forall ids g, vals (prereg_table g ids) = ids.
Proof. induction ids as [|id ids IH]; intros g; cbn [prereg_table vals map snd]; [reflexivity|]. f_equal. apply IH. Qed.

Lemma prereg_rinv : forall ids t,
  rinv t -> keys_le (t_aliases t) (t_idgen t) -> t_idgen t + N.of_nat (length ids) < two32 -> rinv (prereg ids t).
Proof.
  induction ids as [|id ids IH]; intros t Hr Hle Hg; cbn [prereg length] in *; [exact Hr|].
  assert (Hs : t_idgen t + 1 < two32) by lia. rewrite (alias_next_small _ Hs).
  destruct (rinv_add t id Hr Hs Hle) as (Hr1 & Ein). apply IH; [exact Hr1 | | cbn [t_idgen]; lia].
  cbn [t_aliases t_idgen]. rewrite Ein. apply keys_le_app; [eapply keys_le_mono; [|exact Hle]; lia|].
  intros k [<-|[]]. cbn [fst]. lia.
Qed.

Lemma func_init v fl cap pre evs :
  small_history pre evs ->
  let s0 := dinit v fl cap pre in
  let r := drun s0 evs in
  (NoDup pre -> NoDup (vals (prereg_table 0 pre ++ minted_ids (snd r)))) /\
  (v_fx v = true -> NoDup (vals (minted_ups (snd r)))) /\
  (forall c, In c (consumed_of (snd r)) ->
     (forall id, In id (full_ids (ck_groups c)) -> In id (vals (prereg_table 0 pre ++ minted_ids (snd r)))) /\
     (v_fx v = true -> forall i, ck_up c = UFull i -> In i (vals (minted_ups (snd r))))).
Proof.
  intros H s0 r. destruct (init_ok v fl cap pre evs H) as (H1 & H2 & H3 & H4).
  assert (Hr0 : rinv (d_tabs s0)).
  { unfold s0, dinit. cbn [d_tabs]. apply prereg_rinv.
    - split; intros id [].
    - intros k [].
    - cbn [t_idgen]. destruct H as [_ H]. lia. }
  destruct (run_func evs s0 H1 H2 Hr0) as (F1 & F2 & F3 & F4).
  destruct (run_main evs s0 H1 H2) as (_ & R).
  pose proof (r_tu _ _ _ R) as Etu. pose proof (r_ti _ _ _ R) as Eti.
  fold s0 in H3, H4. rewrite H3 in Etu. rewrite H4 in Eti. cbn [app] in Etu. fold r in Etu, Eti, F2, F3, F4.
  rewrite H4 in F2. rewrite H3 in F3. rewrite Eti in F2. rewrite Etu in F3.
  split; [|split].
  - intros Hnd. apply F2. now rewrite vals_prereg_table.
  - intros Hfx. apply F3; [exact Hfx | constructor].
  - intros c Hc. destruct (F4 c Hc) as [C1 C2]. rewrite Eti in C1. rewrite Etu in C2. split; [exact C1|].
    intros Hfx. apply C2. unfold r, d_fx. rewrite (r_var _ _ _ R). exact Hfx.
Qed.

(* ---------- the code as it is: failed sends keep their buffers, reads fail once closed ---------- *)

Lemma flush_true_empty s :
  b_up (d_bufs (fst (flush true s))) = [] /\ b_id (d_bufs (fst (flush true s))) = [] /\
  b_res (d_bufs (fst (flush true s))) = [].
Proof.
  unfold flush. destruct (b_id (d_bufs s)) eqn:E1; [destruct (b_res (d_bufs s)) eqn:E2; [destruct (b_up (d_bufs s)) eqn:E3|]|];
    cbn [orb fst set_bufs d_bufs b_up b_id b_res]; auto.
Qed.

Lemma ack_exactly_once v fl cap pre evs :
  small_history pre evs -> v_keep v = true ->
  let r := drun (dinit v fl cap pre) evs in
  ack_results (sent_acks_of (snd r)) ++ b_res (d_bufs (fst r)) = read_results (snd r) /\
  ack_ups (sent_acks_of (snd r)) ++ b_up (d_bufs (fst r)) = minted_ups (snd r) /\
  ack_ids (sent_acks_of (snd r)) ++ b_id (d_bufs (fst r)) = minted_ids (snd r).
Proof.
  intros H Hk r. pose proof (conservation v fl cap pre evs H) as C. rewrite Hk in C. exact C.
Qed.

(* after a flush that succeeds nothing is pending: every chunk returned so far has been
   acknowledged and every alias issued so far announced - including what earlier failed sends
   had handed over in vain *)
Lemma acked_after_flush v fl cap pre evs :
  small_history pre (evs ++ [AckTick true]) -> v_keep v = true -> has_closing evs = false ->
  let r := drun (dinit v fl cap pre) (evs ++ [AckTick true]) in
  ack_results (sent_acks_of (snd r)) = read_results (snd r) /\
  ack_ups (sent_acks_of (snd r)) = minted_ups (snd r) /\
  ack_ids (sent_acks_of (snd r)) = minted_ids (snd r).
Proof.
  intros H Hk Hh r. destruct (ack_exactly_once v fl cap pre _ H Hk) as (C1 & C2 & C3). fold r in C1, C2, C3.
  assert (E : b_up (d_bufs (fst r)) = [] /\ b_id (d_bufs (fst r)) = [] /\ b_res (d_bufs (fst r)) = []).
  { unfold r. rewrite drun_app. cbn [fst]. rewrite drun_cons. cbn [fst drun dstep].
    destruct (open_stays evs (dinit v fl cap pre) Hh eq_refl) as (_ & ->). apply flush_true_empty. }
  destruct E as (E1 & E2 & E3). rewrite E1 in C2. rewrite E2 in C3. rewrite E3 in C1.
  rewrite app_nil_r in C1, C2, C3. auto.
Qed.

Lemma closed_no_read : forall evs s, d_closed s = true -> v_strict (d_var s) = true ->
  read_results (snd (drun s evs)) = [] /\ consumed_of (snd (drun s evs)) = [] /\
  returned_metas (metas_of (snd (drun s evs))) = [].
Proof.
  induction evs as [|e evs IH]; intros s Hc Hs; [cbn; auto|].
  rewrite drun_cons. cbn [fst snd]. rewrite read_results_app, consumed_of_app, metas_of_app.
  assert (Hst : fst (dstep s e) = s /\ read_results (snd (dstep s e)) = [] /\ consumed_of (snd (dstep s e)) = [] /\
                metas_of (snd (dstep s e)) = [] \/
                fst (dstep s e) = s /\ read_results (snd (dstep s e)) = [] /\ consumed_of (snd (dstep s e)) = [] /\
                metas_of (snd (dstep s e)) = [(None, 4)]).
  { destruct e as [c|m|pick|pick|sent| |csent]; cbn [dstep]; rewrite ?Hc, ?Hs; cbn [andb orb fst snd]; auto. }
  destruct Hst as [(-> & -> & -> & ->)|(-> & -> & -> & ->)]; destruct (IH s Hc Hs) as (-> & -> & I3); cbn [app returned_metas]; auto.
Qed.

Lemma drun_var : forall l s, d_var (fst (drun s l)) = d_var s.
Proof.
  induction l as [|e l IH]; intros s; [reflexivity|]. rewrite drun_cons. cbn [fst]. rewrite IH.
  destruct e as [c|m|pick|pick|sent| |csent]; cbn [dstep].
  - destruct (d_closed s); [reflexivity|]. destruct (_ <? _); reflexivity.
  - destruct (d_closed s); [reflexivity|]. destruct (subscribed _ _ && _); reflexivity.
  - destruct (d_closed s && _); [reflexivity|]. destruct (d_inbox s) as [|c rest]; [reflexivity|].
    unfold do_read. destruct (resolve_up _ _); [destruct (resolve_groups _ _)|]; reflexivity.
  - destruct (d_closed s && _); [reflexivity|]. destruct (d_metabox s); reflexivity.
  - destruct (d_closed s); [reflexivity|]. flush_cases s; reflexivity.
  - destruct (d_closed s); [reflexivity|]. cbn [fst]. flush_cases s; reflexivity.
  - destruct (d_closed s); [reflexivity|]. cbn [fst]. flush_cases s; reflexivity.
Qed.

Lemma no_read_after_close v fl cap pre evs post :
  v_strict v = true ->
  let s1 := fst (drun (dinit v fl cap pre) (evs ++ [Close])) in
  read_results (snd (drun s1 post)) = [] /\ consumed_of (snd (drun s1 post)) = [] /\
  returned_metas (metas_of (snd (drun s1 post))) = [].
Proof.
  intros Hs s1. apply closed_no_read.
  - unfold s1. rewrite drun_app. cbn [fst]. rewrite drun_cons. cbn [fst drun dstep].
    destruct (d_closed (fst (drun (dinit v fl cap pre) evs))) eqn:Ec; [exact Ec | reflexivity].
  - unfold s1. rewrite drun_var. exact Hs.
Qed.

(* the same when the CONNECTION is closed under the stream (no close request): whatever is still
   queued, no read hands anything out afterwards, so nothing can stay unacknowledged *)
Lemma no_read_after_conn_close v fl cap pre evs b post :
  v_strict v = true ->
  let s1 := fst (drun (dinit v fl cap pre) (evs ++ [ConnClose b])) in
  read_results (snd (drun s1 post)) = [] /\ consumed_of (snd (drun s1 post)) = [] /\
  returned_metas (metas_of (snd (drun s1 post))) = [] /\ acks_of (snd (drun s1 post)) = [] /\
  closereqs_of (snd (drun s1 post)) = 0.
Proof.
  intros Hs s1.
  assert (Hc : d_closed s1 = true).
  { unfold s1. rewrite drun_app. cbn [fst]. rewrite drun_cons. cbn [fst drun dstep].
    destruct (d_closed (fst (drun (dinit v fl cap pre) evs))) eqn:Ec; [exact Ec | reflexivity]. }
  assert (Hv : v_strict (d_var s1) = true) by (unfold s1; rewrite drun_var; exact Hs).
  destruct (closed_no_read post s1 Hc Hv) as (R1 & R2 & R3).
  destruct (closed_stays post s1 Hc) as (K1 & K2 & _). auto.
Qed.

(* ---------- refutations for the FORMER code variants (computed witnesses) ---------- *)

Definition former_f4 : variant := mkV false true true.    (* pointer comparison *)
Definition former_f14 : variant := mkV true false true.   (* buffers lost when the send fails *)
Definition former_f32 : variant := mkV true true false.   (* queued item handed out after Close *)

(* F4 (former code): the same upstream sent twice in full form receives two aliases *)
Definition f4_witness : list dev :=
  [Arrive (mkChunk 1 (UFull 7) 1 []); Arrive (mkChunk 2 (UFull 7) 2 []); Read false; Read false; AckTick true].

Lemma f4_two_aliases :
  ack_ups (sent_acks_of (snd (drun (dinit former_f4 [] inbox_cap []) f4_witness))) = [(1, 7); (2, 7)].
Proof. vm_compute. reflexivity. Qed.

Lemma f4_repaired :
  ack_ups (sent_acks_of (snd (drun (dinit current [] inbox_cap []) f4_witness))) = [(1, 7)].
Proof. vm_compute. reflexivity. Qed.

(* F14 (former code): flushAck emptied the buffers before the send; when the send failed the
   results were gone.  Code as it is: the next successful flush carries them, under the next id *)
Definition f14_witness : list dev :=
  [Arrive (mkChunk 1 (UFull 7) 1 []); Read false; AckTick false; AckTick true; Close].

Lemma f14_result_lost :
  let r := drun (dinit former_f14 [] inbox_cap []) f14_witness in
  read_results (snd r) = [(7, 1)] /\ ack_results (sent_acks_of (snd r)) = [] /\ b_res (d_bufs (fst r)) = [].
Proof. vm_compute. repeat split. Qed.

Lemma f14_repaired :
  let r := drun (dinit current [] inbox_cap []) f14_witness in
  read_results (snd r) = [(7, 1)] /\ sent_acks_of (snd r) = [(2, [(1, 7)], [], [(7, 1)])] /\ b_res (d_bufs (fst r)) = [].
Proof. vm_compute. repeat split. Qed.

(* F32 (former code): a chunk handed out by ReadDataPoints after Close (the select could take the
   queue although the stream context was done) was never acknowledged: the flush loop had ended *)
Definition rac_witness : list dev :=
  [Arrive (mkChunk 1 (UFull 7) 1 []); Arrive (mkChunk 2 (UAlias 1) 2 []); Read false; Close; Read true].

Lemma read_after_close_unacked : forall later,
  let r := drun (dinit former_f32 [] inbox_cap []) (rac_witness ++ later) in
  exists tail, read_results (snd r) = [(7, 1); (7, 2)] ++ tail /\ ack_results (acks_of (snd r)) = [(7, 1)].
Proof.
  intros later r. subst r. rewrite drun_app.
  set (r1 := drun (dinit former_f32 [] inbox_cap []) rac_witness).
  assert (E1 : read_results (snd r1) = [(7, 1); (7, 2)]) by (vm_compute; reflexivity).
  assert (E2 : ack_results (acks_of (snd r1)) = [(7, 1)]) by (vm_compute; reflexivity).
  assert (E3 : d_closed (fst r1) = true) by (vm_compute; reflexivity).
  destruct (closed_stays later (fst r1) E3) as (K1 & _).
  cbn [snd]. exists (read_results (snd (drun (fst r1) later))).
  rewrite read_results_app, acks_of_app, ack_results_app, E1, E2, K1. split; reflexivity.
Qed.

Lemma rac_repaired :
  reads_of (snd (drun (dinit current [] inbox_cap []) rac_witness)) =
    [(Some (1, 7, []), 0, [(1, 7)], []); (None, 4, [], [])].
Proof. vm_compute. reflexivity. Qed.

(* ---------- statement forms used by Props/C03.v and Props/C04.v ---------- *)

Lemma resolved_in_none c err nu ni : forall outs tu ti,
  resolved tu ti outs -> In (ORead (Some c) None err nu ni) outs -> err = 1 \/ err = 2.
Proof.
  induction outs as [|o outs IH]; intros tu ti Hr Hin; [destruct Hin|].
  destruct Hin as [->|Hin].
  - cbn [resolved] in Hr. destruct Hr as [[_ H2] _]. exact H2.
  - destruct o; cbn [resolved] in Hr; try (eapply IH; eassumption).
    destruct Hr as [_ Hr]. eapply IH; eassumption.
Qed.

Lemma unknown_alias_error v fl cap pre evs c res err nu ni :
  small_history pre evs ->
  let outs := snd (drun (dinit v fl cap pre) evs) in
  In (ORead (Some c) res err nu ni) outs ->
  ~ aliases_known (minted_ups outs) (prereg_table 0 pre ++ minted_ids outs) c ->
  res = None /\ (err = 1 \/ err = 2).
Proof.
  intros H outs Hin Hk. destruct res as [rc|].
  - exfalso. apply Hk. exact (proj1 (delivered_known v fl cap pre evs c rc err nu ni H Hin)).
  - split; [reflexivity|]. eapply resolved_in_none; [exact (resolution v fl cap pre evs H) | exact Hin].
Qed.

Lemma meta_per_source v fl cap pre evs src :
  keeps_up fl cap 0 0 false evs = true ->
  let r := drun (dinit v fl cap pre) evs in
  filter (fun x : N * N => fst x =? src) (map meta_pub (arrived_metas fl evs)) =
  filter (fun x : N * N => fst x =? src) (returned_metas (metas_of (snd r))) ++
  filter (fun x : N * N => fst x =? src) (map meta_pub (d_metabox (fst r))).
Proof.
  intros Hk r. destruct (once_in_order v fl cap pre evs Hk) as (_ & E & _). fold r in E.
  rewrite E. apply filter_app.
Qed.

(* former code (failed sends lose their buffers): exactly once as long as no send fails *)
Lemma ack_exactly_once_former v fl cap pre evs :
  small_history pre evs -> all_sent evs = true ->
  let r := drun (dinit v fl cap pre) evs in
  ack_results (sent_acks_of (snd r)) ++ b_res (d_bufs (fst r)) = read_results (snd r).
Proof.
  intros H Hs r. subst r. pose proof (proj1 (conservation v fl cap pre evs H)) as C.
  unfold eff_acks in C. rewrite (sent_all evs _ Hs). destruct (v_keep v); [rewrite (sent_all evs _ Hs) in C|]; exact C.
Qed.

(* ack ids: every ack handed to the transport takes the next id; the accepted ones therefore carry
   strictly increasing ids (a failed send consumes its id) *)
Lemma ack_ids_seq v fl cap pre evs :
  small_history pre evs ->
  let r := drun (dinit v fl cap pre) evs in
  seq_from 1 (map ack_id (acks_of (snd r))) = true /\
  map ack_id (acks_of (snd r)) = nseq 1 (length (acks_of (snd r))) /\
  NoDup (map ack_id (acks_of (snd r))) /\
  b_ackid (d_bufs (fst r)) = N.of_nat (length (acks_of (snd r))).
Proof.
  intros H r. destruct (ack_numbering v fl cap pre evs H) as (E1 & E2). fold r in E1, E2.
  rewrite E1. repeat apply conj; auto; [apply seq_from_nseq | apply nseq_nodup].
Qed.

Lemma sent_sub_acks : forall outs, exists keep : list bool,
  length keep = length (acks_of outs) /\
  sent_acks_of outs = map snd (filter fst (combine keep (acks_of outs))).
Proof.
  induction outs as [|o outs (k & IH1 & IH2)]; [exists []; auto|].
  destruct o as [| | |sn a u i r|]; cbn [acks_of sent_acks_of]; try (exists k; auto; fail).
  exists (sn :: k). cbn [length combine filter fst map snd]. split; [now rewrite IH1|].
  destruct sn; cbn [fst map snd]; now rewrite IH2.
Qed.

Lemma strictly_inc_filter : forall (l : list (bool * ackobs)) n,
  strictly_inc n (map (fun x => ack_id (snd x)) l) = true ->
  strictly_inc n (map (fun x => ack_id (snd x)) (filter fst l)) = true.
Proof.
  induction l as [|[b a] l IH]; intros n H; [reflexivity|]. cbn [map snd strictly_inc filter fst] in *.
  apply andb_true_iff in H as [H1 H2]. destruct b; cbn [map snd strictly_inc].
  - rewrite H1. now apply IH.
  - apply IH. clear IH. revert H2. generalize (map (fun x : bool * ackobs => ack_id (snd x)) l). intros l0.
    destruct l0 as [|y l0]; [auto|]. cbn [strictly_inc]. intros H. apply andb_true_iff in H as [H3 H4].
    rewrite H4, andb_true_r. apply N.ltb_lt in H1, H3. apply N.ltb_lt. lia.
Qed.

Lemma strictly_inc_nseq : forall k n m, m < n -> strictly_inc m (nseq n k) = true.
Proof.
  induction k as [|k IH]; intros n m H; cbn [nseq strictly_inc]; [reflexivity|].
  apply andb_true_iff. split; [now apply N.ltb_lt | apply IH; lia].
Qed.

Lemma sent_ids_increase v fl cap pre evs :
  small_history pre evs ->
  strictly_inc 0 (map ack_id (sent_acks_of (snd (drun (dinit v fl cap pre) evs)))) = true.
Proof.
  intros H. destruct (ack_numbering v fl cap pre evs H) as (E1 & _).
  set (outs := snd (drun (dinit v fl cap pre) evs)) in *.
  destruct (sent_sub_acks outs) as (k & K1 & K2). rewrite K2, map_map.
  apply strictly_inc_filter.
  assert (E : map (fun x : bool * ackobs => ack_id (snd x)) (combine k (acks_of outs)) = map ack_id (acks_of outs)).
  { rewrite <- (map_map snd ack_id). f_equal. clear -K1. revert k K1.
    induction (acks_of outs) as [|a l IH]; intros [|b k] Hk; try discriminate; [reflexivity|].
    cbn [combine map snd]. f_equal. apply IH. now injection Hk. }
  rewrite E, E1. apply strictly_inc_nseq. lia.
Qed.

(* metadata of any kind never touches the alias tables, the generators or the ack buffers: the
   model has no event by which a metadata item could release or change an alias *)
Lemma meta_keeps_tables s e :
  (exists m, e = ArriveMeta m) \/ (exists p, e = ReadMeta p) ->
  d_tabs (fst (dstep s e)) = d_tabs s /\ d_bufs (fst (dstep s e)) = d_bufs s /\
  d_inbox (fst (dstep s e)) = d_inbox s /\
  reads_of (snd (dstep s e)) = [] /\ acks_of (snd (dstep s e)) = [].
Proof.
  intros [[m ->]|[p ->]]; cbn [dstep].
  - destruct (d_closed s); [auto|]. destruct (subscribed _ _ && _); auto.
  - destruct (d_closed s && _); [auto|]. destruct (d_metabox s); auto.
Qed.

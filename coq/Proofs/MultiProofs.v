(* Lemmas about Model/Multi.v.  Property theorems are restated in Props/C19.v. *)
From Coq Require Import List NArith Bool Lia Arith Permutation ZArith ZifyN ZifyNat ZifyBool.
From Iscp Require Import Lib.ListMap Model.Multi.
Import ListNotations.
Open Scope N_scope.

(* ---------- runs ---------- *)

Lemma mrun_cons st e evs :
  mrun st (e :: evs) = (fst (mrun (fst (mstep st e)) evs), snd (mstep st e) :: snd (mrun (fst (mstep st e)) evs)).
Proof. reflexivity. Qed.

Lemma mrun_app st h1 h2 :
  mrun st (h1 ++ h2) =
  (fst (mrun (fst (mrun st h1)) h2), snd (mrun st h1) ++ snd (mrun (fst (mrun st h1)) h2)).
Proof.
  revert st; induction h1 as [|e h1 IH]; intros st.
  - cbn [app mrun fst snd]. now destruct (mrun st h2).
  - rewrite <- app_comm_cons, !mrun_cons, IH. cbn [fst snd]. reflexivity.
Qed.

Lemma mrun_length st h : length (snd (mrun st h)) = length h.
Proof. revert st; induction h as [|e h IH]; intros st; [reflexivity|]. rewrite mrun_cons; cbn [snd length]. now rewrite IH. Qed.

(* ---------- members: lookups and pointwise updates ---------- *)

Definition ids (st : mstate) : list N := map m_id (s_members st).

Lemma find_m_id id ms m : find_m id ms = Some m -> m_id m = id.
Proof.
  induction ms as [|x ms IH]; cbn [find_m]; [discriminate|].
  destruct (m_id x =? id) eqn:E; [intros [= <-]; now apply N.eqb_eq | exact IH].
Qed.

Lemma find_m_in id ms m : find_m id ms = Some m -> In m ms.
Proof.
  induction ms as [|x ms IH]; cbn [find_m]; [discriminate|].
  destruct (m_id x =? id); [intros [= <-]; now left | right; auto].
Qed.

Lemma find_m_memb id ms :
  memb id (map m_id ms) = match find_m id ms with Some _ => true | None => false end.
Proof.
  induction ms as [|x ms IH]; cbn [map memb existsb find_m]; [reflexivity|].
  rewrite (N.eqb_sym id). destruct (m_id x =? id); [reflexivity | exact IH].
Qed.

Lemma find_m_none_iff id ms : find_m id ms = None <-> ~ In id (map m_id ms).
Proof.
  induction ms as [|x ms IH]; cbn [find_m map In]; [tauto|].
  destruct (m_id x =? id) eqn:E.
  - apply N.eqb_eq in E. split; [discriminate | tauto].
  - apply N.eqb_neq in E. rewrite IH. tauto.
Qed.

Lemma map_upd_m {B} (g : member -> B) id f ms :
  (forall m, g (f m) = g m) -> map g (upd_m id f ms) = map g ms.
Proof.
  intros H. induction ms as [|x ms IH]; cbn [upd_m map]; [reflexivity|].
  destruct (m_id x =? id); cbn [map]; [now rewrite H | now rewrite IH].
Qed.

Lemma find_upd_m id id' f ms :
  (forall m, m_id (f m) = m_id m) ->
  find_m id' (upd_m id f ms) = if id' =? id then option_map f (find_m id ms) else find_m id' ms.
Proof.
  intros Hf. induction ms as [|x ms IH]; cbn [upd_m find_m option_map].
  - now destruct (id' =? id).
  - destruct (m_id x =? id) eqn:E; cbn [find_m].
    + rewrite Hf. apply N.eqb_eq in E. destruct (id' =? id) eqn:E2.
      * apply N.eqb_eq in E2. subst. now rewrite N.eqb_refl.
      * apply N.eqb_neq in E2. destruct (m_id x =? id') eqn:E3; [apply N.eqb_eq in E3; congruence | reflexivity].
    + destruct (id' =? id) eqn:E2.
      * apply N.eqb_eq in E2; subst id'. rewrite E. rewrite IH. now rewrite ?N.eqb_refl.
      * destruct (m_id x =? id'); [reflexivity|]. rewrite IH. now rewrite ?E2.
Qed.

Lemma find_map_m id f ms :
  (forall m, m_id (f m) = m_id m) -> find_m id (map f ms) = option_map f (find_m id ms).
Proof.
  intros Hf. induction ms as [|x ms IH]; cbn [map find_m option_map]; [reflexivity|].
  rewrite Hf. destruct (m_id x =? id); [reflexivity | exact IH].
Qed.

(* the static part of a member never changes *)
Definition static (m : member) := (m_id m, m_closer m, m_unrel m, m_wfail m, m_cerr m).
Definition static_spec (s : mspec) := (ms_id s, ms_closer s, ms_unrel s, ms_wfail s, ms_cerr s).

Lemma apply_select_members st id : s_members (apply_select st id) = s_members st.
Proof.
  unfold apply_select. destruct (s_closed st); [reflexivity|].
  destruct (find_m id (s_members st)); [|reflexivity]. now destruct (s_cur st =? id).
Qed.

Lemma mstep_static st e : map static (s_members (fst (mstep st e))) = map static (s_members st).
Proof.
  destruct e; cbn [mstep]; try reflexivity.
  - cbn [fst]. now rewrite apply_select_members.
  - cbn [fst]. now rewrite apply_select_members.
  - destruct (s_closed st); [reflexivity|]. destruct (s_poller st); cbn [fst]; try reflexivity;
      now rewrite apply_select_members.
  - destruct (find_m (s_cur st) (s_members st)) as [m|]; [|reflexivity].
    destruct (m_wfail m || m_is_closed m); [reflexivity|]. cbn [fst set_members s_members].
    now apply map_upd_m.
  - destruct (find_m i (s_members st)) as [m|]; [|reflexivity].
    destruct (m_dead m || m_is_closed m || s_closed st); [reflexivity|]. cbn [fst s_members].
    now apply map_upd_m.
  - cbn [fst set_members s_members]. now apply map_upd_m.
  - destruct (s_queue st); [reflexivity|]. now destruct (s_closed st && negb take).
  - now destruct (find_m (s_cur st) (s_members st)).
  - now destruct (find_m (s_cur st) (s_members st)).
  - cbn [fst s_members]. rewrite map_map. now apply map_ext.
Qed.

Lemma static_ids ms ms' : map static ms = map static ms' -> map m_id ms = map m_id ms'.
Proof.
  intros H. assert (E : forall l, map m_id l = map (fun t => fst (fst (fst (fst t)))) (map static l)).
  { intros l. rewrite map_map. now apply map_ext. }
  now rewrite !E, H.
Qed.

Lemma mstep_ids st e : ids (fst (mstep st e)) = ids st.
Proof. apply static_ids, mstep_static. Qed.

Lemma mrun_static st h : map static (s_members (fst (mrun st h))) = map static (s_members st).
Proof.
  revert st; induction h as [|e h IH]; intros st; [reflexivity|].
  rewrite mrun_cons; cbn [fst]. now rewrite IH, mstep_static.
Qed.

Lemma mrun_ids st h : ids (fst (mrun st h)) = ids st.
Proof. apply static_ids, mrun_static. Qed.

(* ---------- the selected id is always a member: no step panics ---------- *)

Definition Inv (st : mstate) : Prop := In (s_cur st) (ids st).

Lemma apply_select_cur st id :
  s_cur (apply_select st id) =
  if negb (s_closed st) && memb id (ids st) then id else s_cur st.
Proof.
  unfold apply_select, ids. rewrite find_m_memb.
  destruct (s_closed st); [reflexivity|]. cbn [negb andb].
  destruct (find_m id (s_members st)); [|reflexivity].
  destruct (s_cur st =? id) eqn:E; [now apply N.eqb_eq in E | reflexivity].
Qed.

Lemma apply_select_closed st id : s_closed (apply_select st id) = s_closed st.
Proof.
  unfold apply_select. destruct (s_closed st) eqn:E; [exact E|].
  destruct (find_m id (s_members st)); [|exact E]. now destruct (s_cur st =? id).
Qed.

Lemma memb_In x l : memb x l = true <-> In x l.
Proof.
  unfold memb. rewrite existsb_exists. split.
  - intros (y & Hy & E). apply N.eqb_eq in E. now subst.
  - intros H. exists x. split; [exact H | apply N.eqb_refl].
Qed.

Lemma apply_select_inv st id : Inv st -> Inv (apply_select st id).
Proof.
  unfold Inv, ids at 2. rewrite apply_select_members, apply_select_cur. fold (ids st).
  destruct (negb (s_closed st) && memb id (ids st)) eqn:E; [|auto].
  intros _. apply andb_true_iff in E as [_ E]. now apply memb_In.
Qed.

(* route_step: how one observed step moves (selected id, closed) - used to state routing *)
Definition route_step (mids : list N) (cc : N * bool) (eo : mev * mout) : N * bool :=
  match fst eo with
  | Close _ => (fst cc, true)
  | _ => match snd eo with
         | OSel id => if negb (snd cc) && memb id mids then (id, snd cc) else cc
         | _ => cc
         end
  end.
Definition route (mids : list N) (cc : N * bool) (tr : list (mev * mout)) : N * bool :=
  fold_left (route_step mids) tr cc.

Lemma mstep_route st e :
  (s_cur (fst (mstep st e)), s_closed (fst (mstep st e))) =
  route_step (ids st) (s_cur st, s_closed st) (e, snd (mstep st e)).
Proof.
  unfold route_step; destruct e; cbn [mstep fst snd].
  - rewrite apply_select_cur, apply_select_closed.
    now destruct (negb (s_closed st) && memb id (ids st)).
  - rewrite apply_select_cur, apply_select_closed.
    now destruct (negb (s_closed st) && memb (nic_emit (s_nic st) name) (ids st)).
  - destruct (s_closed st) eqn:Ec; [cbn [fst snd]; now rewrite Ec|].
    destruct (s_poller st) eqn:Ep; cbn [fst snd]; try now rewrite Ec.
    + rewrite apply_select_cur, apply_select_closed. cbn [set_poller s_closed s_cur]. unfold ids; cbn [set_poller s_members].
      rewrite Ec. fold (ids st). now destruct (negb false && memb (fst (rr_get ids0 cur)) (ids st)).
    + rewrite apply_select_cur, apply_select_closed, Ec.
      now destruct (negb false && memb (lu_get st) (ids st)).
  - destruct (find_m (s_cur st) (s_members st)) as [m|]; [|reflexivity].
    now destruct (m_wfail m || m_is_closed m).
  - destruct (find_m i (s_members st)) as [m|]; [|reflexivity].
    now destruct (m_dead m || m_is_closed m || s_closed st).
  - reflexivity.
  - destruct (s_queue st); [destruct (s_closed st) eqn:Ec; cbn [fst snd]; now rewrite Ec|].
    now destruct (s_closed st && negb take).
  - now destruct (find_m (s_cur st) (s_members st)).
  - now destruct (find_m (s_cur st) (s_members st)).
  - reflexivity.
  - reflexivity.
Qed.

Lemma mrun_route st h :
  (s_cur (fst (mrun st h)), s_closed (fst (mrun st h))) =
  route (ids st) (s_cur st, s_closed st) (combine h (snd (mrun st h))).
Proof.
  revert st; induction h as [|e h IH]; intros st; [reflexivity|].
  rewrite mrun_cons; cbn [fst snd combine]. unfold route; cbn [fold_left].
  rewrite IH, mstep_ids, mstep_route. reflexivity.
Qed.

Lemma mstep_inv st e : Inv st -> Inv (fst (mstep st e)).
Proof.
  intros H. unfold Inv. rewrite mstep_ids.
  pose proof (mstep_route st e) as R. apply (f_equal fst) in R. cbn [fst] in R. rewrite R.
  unfold route_step. cbn [fst snd].
  assert (D : forall o, In (fst match o with
              | OSel id => if negb (s_closed st) && memb id (ids st) then (id, s_closed st) else (s_cur st, s_closed st)
              | _ => (s_cur st, s_closed st) end) (ids st)).
  { intros o. destruct o; try exact H.
    destruct (negb (s_closed st) && memb id (ids st)) eqn:E; [|exact H].
    apply andb_true_iff in E as [_ E]. now apply memb_In. }
  destruct e; try apply D. exact H.
Qed.

Lemma mrun_inv st h : Inv st -> Inv (fst (mrun st h)).
Proof.
  revert st; induction h as [|e h IH]; intros st H; [exact H|].
  rewrite mrun_cons; cbn [fst]. now apply IH, mstep_inv.
Qed.

Lemma inv_find st : Inv st -> exists m, find_m (s_cur st) (s_members st) = Some m.
Proof.
  unfold Inv, ids. intros H. destruct (find_m (s_cur st) (s_members st)) eqn:E; [eauto|].
  now apply find_m_none_iff in E.
Qed.

Lemma mstep_no_panic st e : Inv st -> snd (mstep st e) <> OPanic.
Proof.
  intros H. destruct (inv_find st H) as [m Hm].
  destruct e; cbn [mstep snd]; try discriminate.
  - destruct (s_closed st); [discriminate|]. now destruct (s_poller st).
  - rewrite Hm. now destruct (m_wfail m || m_is_closed m).
  - destruct (find_m i (s_members st)) as [m'|]; [|discriminate].
    now destruct (m_dead m' || m_is_closed m' || s_closed st).
  - destruct (s_queue st); [now destruct (s_closed st)|]. now destruct (s_closed st && negb take).
  - now rewrite Hm.
  - now rewrite Hm.
Qed.

Lemma mrun_no_panic st h : Inv st -> ~ In OPanic (snd (mrun st h)).
Proof.
  revert st; induction h as [|e h IH]; intros st H; [now intros []|].
  rewrite mrun_cons; cbn [snd]. intros [E|E].
  - now apply (mstep_no_panic st e H).
  - now apply (IH _ (mstep_inv st e H)).
Qed.

(* ---------- the constructor ---------- *)

Lemma has_id_In id ms : has_id id ms = true <-> In id (map ms_id ms).
Proof.
  unfold has_id. rewrite existsb_exists, in_map_iff. split.
  - intros (m & Hm & E). apply N.eqb_eq in E. eauto.
  - intros (m & E & Hm). exists m. split; [exact Hm | now apply N.eqb_eq].
Qed.

Lemma mt_new_some c st :
  mt_new c = Some st ->
  new_class c = 0 /\
  st = mkS (map mk_member (c_members c)) (c_initial c) false [] 0 (init_nic c) (init_poller c).
Proof.
  unfold mt_new. destruct (new_class c =? 0) eqn:E; [|discriminate].
  apply N.eqb_eq in E. now intros [= <-].
Qed.

Lemma new_class_0 c : new_class c = 0 -> c_members c <> [] /\ has_id (c_initial c) (c_members c) = true
                                          /\ group_ok (c_members c) = true.
Proof.
  unfold new_class. destruct (c_members c) as [|m ms] eqn:Em; [discriminate|].
  destruct (has_id (c_initial c) (m :: ms)) eqn:E1; cbn [negb]; [|discriminate].
  destruct (group_ok (m :: ms)) eqn:E2; cbn [negb]; [|discriminate].
  intros _. repeat split; congruence.
Qed.

Lemma mk_member_ids ms : map m_id (map mk_member ms) = map ms_id ms.
Proof. rewrite map_map. now apply map_ext. Qed.

Lemma mt_new_inv c st : mt_new c = Some st -> Inv st /\ ids st = map ms_id (c_members c).
Proof.
  intros H. apply mt_new_some in H as [H0 ->]. apply new_class_0 in H0 as (_ & H1 & _).
  unfold Inv, ids; cbn [s_cur s_members]. rewrite mk_member_ids. split; [now apply has_id_In | reflexivity].
Qed.

Lemma new_rejects_non_member c :
  has_id (c_initial c) (c_members c) = false -> mt_new c = None /\ (new_class c = 1 \/ new_class c = 2).
Proof.
  intros H. unfold mt_new, new_class. destruct (c_members c) as [|m ms]; [split; [reflexivity | now left]|].
  rewrite H; cbn [negb]. split; [reflexivity | now right].
Qed.

Lemma no_panic_from_new c st h : mt_new c = Some st -> ~ In OPanic (snd (mrun st h)).
Proof. intros H. apply mrun_no_panic. now apply mt_new_inv in H. Qed.

Lemma select_unknown_ignored st id : ~ In id (ids st) -> apply_select st id = st.
Proof.
  intros H. apply find_m_none_iff in H. unfold apply_select. rewrite H. now destruct (s_closed st).
Qed.

Lemma select_idempotent st id : apply_select (apply_select st id) id = apply_select st id.
Proof.
  destruct (s_closed st) eqn:Ec; destruct (find_m id (s_members st)) eqn:Ef;
    destruct (s_cur st =? id) eqn:E; unfold apply_select; rewrite ?Ec, ?Ef, ?E;
    cbn [set_cur s_closed s_members s_cur]; rewrite ?Ec, ?Ef, ?E, ?N.eqb_refl; reflexivity.
Qed.

(* ---------- routing ---------- *)

Definition wlog_of (id : N) (st : mstate) : list (list N) :=
  match find_m id (s_members st) with Some m => m_wlog m | None => [] end.

Lemma write_routed st bs :
  Inv st ->
  exists ok, snd (mstep st (Write bs)) = OWrite (s_cur st) ok /\
    forall id, wlog_of id (fst (mstep st (Write bs))) =
               wlog_of id st ++ (if (id =? s_cur st) && ok then [bs] else []).
Proof.
  intros H. destruct (inv_find st H) as [m Hm]. pose proof (find_m_id _ _ _ Hm) as Hid.
  cbn [mstep]. rewrite Hm. destruct (m_wfail m || m_is_closed m).
  - exists false. cbn [fst snd]. rewrite Hid. split; [reflexivity|].
    intros id. now rewrite andb_false_r, app_nil_r.
  - exists true. cbn [fst snd]. rewrite Hid. split; [reflexivity|].
    intros id. unfold wlog_of; cbn [set_members s_members].
    rewrite find_upd_m by reflexivity. rewrite andb_true_r.
    destruct (id =? s_cur st) eqn:E.
    + apply N.eqb_eq in E; subst id. now rewrite Hm.
    + now rewrite app_nil_r.
Qed.

Lemma routing c st h bs :
  mt_new c = Some st ->
  exists ok,
    snd (mstep (fst (mrun st h)) (Write bs)) =
    OWrite (fst (route (map ms_id (c_members c)) (c_initial c, false) (combine h (snd (mrun st h))))) ok.
Proof.
  intros Hn. destruct (mt_new_inv c st Hn) as [Hi Hids].
  destruct (write_routed (fst (mrun st h)) bs (mrun_inv st h Hi)) as (ok & E & _).
  exists ok. rewrite E. f_equal.
  pose proof (mrun_route st h) as R. apply (f_equal fst) in R; cbn [fst] in R.
  rewrite R, Hids. apply mt_new_some in Hn as [_ ->]. reflexivity.
Qed.

Lemma lookup_routed st :
  Inv st ->
  snd (mstep st Neg) = ONeg (s_cur st) /\ exists ok, snd (mstep st Unrel) = OUnrel (s_cur st) ok.
Proof.
  intros H. destruct (inv_find st H) as [m Hm]. pose proof (find_m_id _ _ _ Hm) as Hid.
  cbn [mstep]. rewrite Hm; cbn [snd]. rewrite Hid. eauto.
Qed.

(* ---------- logs: what each member accepted is exactly what was routed to it ---------- *)

Lemma mstep_wlog st e id :
  wlog_of id (fst (mstep st e)) = wlog_of id st ++ expected_log id [(e, snd (mstep st e))].
Proof.
  unfold expected_log; cbn [map concat]. rewrite app_nil_r.
  assert (Hsel : forall x, wlog_of id (apply_select st x) = wlog_of id st).
  { intros x. unfold wlog_of. now rewrite apply_select_members. }
  destruct e; cbn [mstep fst snd]; rewrite ?app_nil_r; try reflexivity; try apply Hsel.
  - destruct (s_closed st); [cbn [fst snd]; now rewrite ?app_nil_r|].
    destruct (s_poller st); cbn [fst snd]; rewrite ?app_nil_r; try reflexivity.
    + unfold wlog_of. now rewrite apply_select_members.
    + apply Hsel.
  - destruct (find_m (s_cur st) (s_members st)) as [m|] eqn:Hm; [|cbn [fst snd]; now rewrite ?app_nil_r].
    pose proof (find_m_id _ _ _ Hm) as Hid.
    destruct (m_wfail m || m_is_closed m); cbn [fst snd]; [now rewrite ?app_nil_r|].
    unfold wlog_of; cbn [set_members s_members]. rewrite find_upd_m by reflexivity.
    rewrite Hid, (N.eqb_sym (s_cur st) id).
    destruct (id =? s_cur st) eqn:E.
    + apply N.eqb_eq in E; subst id. now rewrite Hm.
    + now rewrite ?app_nil_r.
  - destruct (find_m i (s_members st)) as [m|] eqn:Hm; [|cbn [fst snd]; now rewrite ?app_nil_r].
    destruct (m_dead m || m_is_closed m || s_closed st); cbn [fst snd]; rewrite ?app_nil_r; [reflexivity|].
    unfold wlog_of; cbn [s_members]. rewrite find_upd_m by reflexivity.
    destruct (id =? i) eqn:E; [|reflexivity].
    apply N.eqb_eq in E; subst i. now rewrite Hm.
  - unfold wlog_of; cbn [set_members s_members]. rewrite find_upd_m by reflexivity.
    destruct (id =? i) eqn:E; [|reflexivity].
    apply N.eqb_eq in E; subst i. now destruct (find_m id (s_members st)).
  - destruct (s_queue st); [cbn [fst snd]; now rewrite ?app_nil_r|].
    destruct (s_closed st && negb take); cbn [fst snd]; now rewrite ?app_nil_r.
  - destruct (find_m (s_cur st) (s_members st)); cbn [fst snd]; now rewrite ?app_nil_r.
  - destruct (find_m (s_cur st) (s_members st)); cbn [fst snd]; now rewrite ?app_nil_r.
  - unfold wlog_of; cbn [s_members]. rewrite find_map_m by reflexivity.
    now destruct (find_m id (s_members st)).
Qed.

Lemma expected_log_app id t1 t2 : expected_log id (t1 ++ t2) = expected_log id t1 ++ expected_log id t2.
Proof. unfold expected_log. now rewrite map_app, concat_app. Qed.

Lemma mrun_wlog st h id :
  wlog_of id (fst (mrun st h)) = wlog_of id st ++ expected_log id (combine h (snd (mrun st h))).
Proof.
  revert st; induction h as [|e h IH]; intros st.
  - cbn. now rewrite app_nil_r.
  - rewrite mrun_cons; cbn [fst snd combine]. rewrite IH, mstep_wlog.
    change ((e, snd (mstep st e)) :: combine h (snd (mrun (fst (mstep st e)) h)))
      with ([(e, snd (mstep st e))] ++ combine h (snd (mrun (fst (mstep st e)) h))).
    now rewrite expected_log_app, app_assoc.
Qed.

(* ---------- simulation of the trace specification (spec_step) by the model ---------- *)

Definition sum_map (f : member -> N) (ms : list member) : N := fold_right N.add 0 (map f ms).
Lemma sum_rx_map ms : sum_rx ms = sum_map m_rx ms.
Proof. unfold sum_rx, sum_map. induction ms as [|x ms IH]; cbn; [reflexivity | now rewrite IH]. Qed.
Lemma sum_tx_map ms : sum_tx ms = sum_map m_tx ms.
Proof. unfold sum_tx, sum_map. induction ms as [|x ms IH]; cbn; [reflexivity | now rewrite IH]. Qed.

Lemma sum_map_upd_same g id f ms : (forall m, g (f m) = g m) -> sum_map g (upd_m id f ms) = sum_map g ms.
Proof. intros H. unfold sum_map. now rewrite map_upd_m. Qed.

Lemma sum_map_upd_add g id f d ms m0 :
  (forall m, g (f m) = g m + d) -> find_m id ms = Some m0 ->
  sum_map g (upd_m id f ms) = sum_map g ms + d.
Proof.
  intros H. unfold sum_map. induction ms as [|x ms IH]; cbn [find_m upd_m]; [discriminate|].
  destruct (m_id x =? id); cbn [map fold_right].
  - intros _. rewrite H. lia.
  - intros Hf. rewrite (IH Hf). lia.
Qed.

Lemma in_upd_m id f ms m : In m (upd_m id f ms) -> In m ms \/ exists m0, In m0 ms /\ m = f m0.
Proof.
  induction ms as [|x ms IH]; cbn [upd_m]; [tauto|].
  destruct (m_id x =? id).
  - intros [<-|H]; [right; exists x; split; [now left | reflexivity] | left; now right].
  - intros [<-|H]; [left; now left|]. destruct (IH H) as [H1|(m0 & H1 & H2)].
    + left; now right.
    + right; exists m0; split; [now right | exact H2].
Qed.

Lemma has_id_memb id ms : has_id id ms = memb id (map ms_id ms).
Proof.
  unfold has_id, memb. induction ms as [|x ms IH]; cbn [existsb map]; [reflexivity|].
  now rewrite IH, (N.eqb_sym id).
Qed.

Lemma static_find ms : forall members t m,
  map static members = map static_spec ms -> find_m t members = Some m ->
  exists s, spec_of t ms = Some s /\ static_spec s = static m.
Proof.
  unfold spec_of. induction ms as [|s ms IH]; intros [|x members] t m; cbn [map find_m find]; try discriminate.
  intros [= H1 H2 H3 H4 H5 H6]. rewrite <- H1.
  destruct (m_id x =? t).
  - intros [= <-]. exists s. split; [reflexivity|]. unfold static_spec, static. congruence.
  - now apply IH.
Qed.

Lemma static_cerr ms : forall members,
  map static members = map static_spec ms -> existsb m_cerr members = existsb ms_cerr ms.
Proof.
  induction ms as [|s ms IH]; intros [|x members]; cbn [map existsb]; try discriminate; [reflexivity|].
  intros [= H1 H2 H3 H4 H5 H6]. rewrite H5. f_equal. now apply IH.
Qed.

Record R (ms : list mspec) (st : mstate) (sp : spec) : Prop := mkR {
  r_static : map static (s_members st) = map static_spec ms;
  r_cur : s_cur st = sp_cur sp;
  r_closed : s_closed st = sp_closed sp;
  r_arr : map snd (s_queue st) = sp_arr sp;
  r_dead : forall i m, find_m i (s_members st) = Some m -> m_dead m = memb i (sp_dead sp);
  r_mclosed : forall m, In m (s_members st) -> m_is_closed m = s_closed st;
  r_rx : sum_rx (s_members st) = sp_rx sp;
  r_tx : sum_tx (s_members st) = sp_tx sp;
  r_inv : Inv st
}.

Lemma R_has_id ms st sp id : R ms st sp -> has_id id ms = memb id (ids st).
Proof.
  intros H. rewrite has_id_memb. unfold ids. f_equal. symmetry.
  rewrite (static_ids (s_members st) (map mk_member ms)).
  - apply mk_member_ids.
  - rewrite (r_static _ _ _ H), map_map. now apply map_ext.
Qed.

(* selection against the specification *)
Lemma R_select ms st sp id :
  R ms st sp ->
  R ms (apply_select st id)
    (if negb (sp_closed sp) && has_id id ms
     then mkSp id (sp_closed sp) (sp_arr sp) (sp_dead sp) (sp_rx sp) (sp_tx sp) else sp).
Proof.
  intros H. pose proof (R_has_id ms st sp id H) as Hh.
  pose proof (apply_select_cur st id) as Hc. pose proof (apply_select_closed st id) as Hcl.
  pose proof (apply_select_members st id) as Hm.
  assert (Hq : s_queue (apply_select st id) = s_queue st).
  { unfold apply_select. destruct (s_closed st); [reflexivity|].
    destruct (find_m id (s_members st)); [|reflexivity]. now destruct (s_cur st =? id). }
  rewrite Hh, <- (r_closed _ _ _ H).
  destruct H as [H1 H2 H3 H4 H5 H6 H7 H8 H9].
  destruct (negb (s_closed st) && memb id (ids st)) eqn:E.
  - constructor; cbn [sp_cur sp_closed sp_arr sp_dead sp_rx sp_tx]; rewrite ?Hm, ?Hq, ?Hcl; auto.
    now apply apply_select_inv.
  - constructor; rewrite ?Hm, ?Hq, ?Hcl; auto; try congruence. now apply apply_select_inv.
Qed.

Lemma R_set_poller ms st sp p : R ms st sp -> R ms (set_poller st p) sp.
Proof. intros [H1 H2 H3 H4 H5 H6 H7 H8 H9]. constructor; auto. Qed.

Lemma spec_sim ms st sp e :
  R ms st sp ->
  exists sp', spec_step ms sp (e, snd (mstep st e)) = Some sp' /\ R ms (fst (mstep st e)) sp'.
Proof.
  intros H. destruct e.
  - (* Select *)
    cbn [mstep fst snd spec_step]. rewrite N.eqb_refl. eexists; split; [reflexivity|]. now apply R_select.
  - (* Nic *)
    cbn [mstep fst snd spec_step]. eexists; split; [reflexivity|]. now apply R_select.
  - (* Tick *)
    cbn [mstep]. destruct (s_closed st) eqn:Ec; [exists sp; split; [reflexivity | exact H]|].
    destruct (s_poller st) eqn:Ep; cbn [fst snd spec_step].
    + exists sp; split; [reflexivity | exact H].
    + eexists; split; [reflexivity|]. now apply R_select, R_set_poller.
    + eexists; split; [reflexivity|]. now apply R_select.
  - (* Write *)
    destruct (inv_find st (r_inv _ _ _ H)) as [m Hm]. pose proof (find_m_id _ _ _ Hm) as Hid.
    destruct (static_find ms _ _ _ (r_static _ _ _ H) Hm) as (s & Hs & Hst).
    assert (Hcl : m_is_closed m = sp_closed sp).
    { rewrite <- (r_closed _ _ _ H). apply (r_mclosed _ _ _ H). eapply find_m_in; eauto. }
    assert (Hwf : ms_wfail s = m_wfail m) by (unfold static_spec, static in Hst; congruence).
    cbn [mstep]. rewrite Hm.
    destruct (m_wfail m || m_is_closed m) eqn:E; cbn [fst snd spec_step]; rewrite Hid, (r_cur _ _ _ H) in *;
      rewrite Hs, N.eqb_refl, Hwf; cbn [andb].
    + replace (Bool.eqb false (negb (m_wfail m) && negb (sp_closed sp))) with true
        by (rewrite <- Hcl; destruct (m_wfail m), (m_is_closed m); cbn in *; congruence).
      eexists; split; [reflexivity|]. destruct H as [H1 H2 H3 H4 H5 H6 H7 H8 H9].
      constructor; auto; cbn [sp_cur sp_closed sp_arr sp_dead sp_rx sp_tx]; congruence.
    + replace (Bool.eqb true (negb (m_wfail m) && negb (sp_closed sp))) with true
        by (rewrite <- Hcl; destruct (m_wfail m), (m_is_closed m); cbn in *; congruence).
      eexists; split; [reflexivity|]. destruct H as [H1 H2 H3 H4 H5 H6 H7 H8 H9].
      constructor; cbn [set_members s_members s_cur s_closed s_queue sp_cur sp_closed sp_arr sp_dead sp_rx sp_tx]; auto.
      * now rewrite map_upd_m.
      * intros i m'. rewrite find_upd_m by reflexivity. destruct (i =? sp_cur sp) eqn:Ei.
        -- apply N.eqb_eq in Ei; subst i. rewrite Hm. cbn [option_map]. intros [= <-].
           cbn [m_add_write m_dead]. now apply H5.
        -- apply H5.
      * intros m' Hin. apply in_upd_m in Hin as [Hin|(m0 & Hin & ->)]; [now apply H6|].
        unfold m_is_closed, m_add_write; cbn [m_closes]. now apply H6.
      * rewrite sum_rx_map, sum_map_upd_same by reflexivity. now rewrite <- sum_rx_map.
      * rewrite sum_tx_map. rewrite <- H2 in *.
        rewrite (sum_map_upd_add m_tx (s_cur st) (m_add_write bs) (N.of_nat (length bs)) _ m) by (auto; reflexivity).
        now rewrite <- sum_tx_map, H8.
      * unfold Inv, ids in *. cbn [set_members s_cur s_members]. now rewrite map_upd_m.
  - (* MemberRead *)
    cbn [mstep]. pose proof (R_has_id ms st sp i H) as Hh. unfold ids in Hh. rewrite find_m_memb in Hh.
    destruct (find_m i (s_members st)) as [m|] eqn:Hm.
    + assert (Hcl : m_is_closed m = sp_closed sp).
      { rewrite <- (r_closed _ _ _ H). apply (r_mclosed _ _ _ H). eapply find_m_in; eauto. }
      pose proof (r_dead _ _ _ H i m Hm) as Hd. pose proof (r_closed _ _ _ H) as Hc.
      cbn [spec_step]. rewrite Hh, <- Hd, <- Hc. cbn [andb].
      destruct (m_dead m || m_is_closed m || s_closed st) eqn:E; cbn [fst snd].
      * replace (negb (m_dead m) && negb (s_closed st)) with false
          by (rewrite Hcl, <- Hc in E; destruct (m_dead m), (s_closed st); cbn in *; congruence).
        exists sp; split; [reflexivity | exact H].
      * replace (negb (m_dead m) && negb (s_closed st)) with true
          by (destruct (m_dead m), (s_closed st); cbn in *; try congruence; now rewrite orb_true_r in E).
        eexists; split; [reflexivity|]. destruct H as [H1 H2 H3 H4 H5 H6 H7 H8 H9].
        constructor; cbn [s_members s_cur s_closed s_queue sp_cur sp_closed sp_arr sp_dead sp_rx sp_tx]; auto.
        -- now rewrite map_upd_m.
        -- rewrite map_app, H4. reflexivity.
        -- intros i' m'. rewrite find_upd_m by reflexivity. destruct (i' =? i) eqn:Ei.
           ++ apply N.eqb_eq in Ei; subst i'. rewrite Hm. cbn [option_map]. intros [= <-].
              cbn [m_add_read m_dead]. now apply H5.
           ++ apply H5.
        -- intros m' Hin. apply in_upd_m in Hin as [Hin|(m0 & Hin & ->)]; [now apply H6|].
           unfold m_is_closed, m_add_read; cbn [m_closes]. now apply H6.
        -- rewrite sum_rx_map.
           rewrite (sum_map_upd_add m_rx i (m_add_read bs) (N.of_nat (length bs)) _ m) by (auto; reflexivity).
           now rewrite <- sum_rx_map, H7.
        -- rewrite sum_tx_map, sum_map_upd_same by reflexivity. now rewrite <- sum_tx_map.
        -- unfold Inv, ids in *. cbn [set_members s_cur s_members]. now rewrite map_upd_m.
    + cbn [fst snd spec_step]. rewrite Hh. cbn [andb]. exists sp; split; [reflexivity | exact H].
  - (* MemberFail *)
    cbn [mstep fst snd spec_step]. eexists; split; [reflexivity|].
    destruct H as [H1 H2 H3 H4 H5 H6 H7 H8 H9].
    constructor; cbn [set_members s_members s_cur s_closed s_queue sp_cur sp_closed sp_arr sp_dead sp_rx sp_tx]; auto.
    + now rewrite map_upd_m.
    + intros i' m'. rewrite find_upd_m by reflexivity. cbn [memb existsb]. destruct (i' =? i) eqn:Ei.
      * destruct (find_m i (s_members st)); cbn [option_map]; [|discriminate]. now intros [= <-].
      * intros Hf. cbn [orb]. now apply H5.
    + intros m' Hin. apply in_upd_m in Hin as [Hin|(m0 & Hin & ->)]; [now apply H6|].
      unfold m_is_closed, m_set_dead; cbn [m_closes]. now apply H6.
    + rewrite sum_rx_map, sum_map_upd_same by reflexivity. now rewrite <- sum_rx_map.
    + rewrite sum_tx_map, sum_map_upd_same by reflexivity. now rewrite <- sum_tx_map.
    + unfold Inv, ids in *. cbn [set_members s_cur s_members]. now rewrite map_upd_m.
  - (* Read *)
    cbn [mstep]. pose proof (r_arr _ _ _ H) as Ha. pose proof (r_closed _ _ _ H) as Hc.
    destruct (s_queue st) as [|x q] eqn:Eq.
    + cbn [map] in Ha. destruct (s_closed st) eqn:Ec; cbn [fst snd spec_step]; rewrite <- ?Hc, <- ?Ha.
      * exists sp; split; [reflexivity | exact H].
      * exists sp; split; [reflexivity | exact H].
    + cbn [map] in Ha. destruct (s_closed st && negb take) eqn:E; cbn [fst snd spec_step].
      * apply andb_true_iff in E as [E _]. rewrite <- Hc, E. exists sp; split; [reflexivity | exact H].
      * rewrite <- Ha. unfold list_N_eqb. rewrite (proj2 (list_beq_N_eq _ _) eq_refl).
        eexists; split; [reflexivity|]. destruct H as [H1 H2 H3 H4 H5 H6 H7 H8 H9].
        constructor; cbn [set_queue s_members s_cur s_closed s_queue sp_cur sp_closed sp_arr sp_dead sp_rx sp_tx]; auto.
  - (* Neg *)
    destruct (inv_find st (r_inv _ _ _ H)) as [m Hm]. pose proof (find_m_id _ _ _ Hm) as Hid.
    cbn [mstep]. rewrite Hm. cbn [fst snd spec_step]. rewrite Hid, (r_cur _ _ _ H), N.eqb_refl.
    exists sp; split; [reflexivity | exact H].
  - (* Unrel *)
    destruct (inv_find st (r_inv _ _ _ H)) as [m Hm]. pose proof (find_m_id _ _ _ Hm) as Hid.
    destruct (static_find ms _ _ _ (r_static _ _ _ H) Hm) as (s & Hs & Hst).
    assert (Hu : ms_unrel s = m_unrel m) by (unfold static_spec, static in Hst; congruence).
    cbn [mstep]. rewrite Hm. cbn [fst snd spec_step]. rewrite Hid in *. rewrite Hs, (r_cur _ _ _ H), N.eqb_refl, Hu.
    rewrite Bool.eqb_reflx. exists sp; split; [reflexivity | exact H].
  - (* Counters *)
    cbn [mstep fst snd spec_step]. rewrite (r_rx _ _ _ H), (r_tx _ _ _ H), !N.eqb_refl.
    exists sp; split; [reflexivity | exact H].
  - (* Close *)
    cbn [mstep fst snd spec_step]. rewrite (static_cerr ms _ (r_static _ _ _ H)), Bool.eqb_reflx.
    eexists; split; [reflexivity|]. destruct H as [H1 H2 H3 H4 H5 H6 H7 H8 H9].
    constructor; cbn [s_members s_cur s_closed s_queue sp_cur sp_closed sp_arr sp_dead sp_rx sp_tx]; auto.
    + rewrite map_map. rewrite <- H1. now apply map_ext.
    + intros i m'. rewrite find_map_m by reflexivity.
      destruct (find_m i (s_members st)) eqn:Ef; cbn [option_map]; [|discriminate].
      intros [= <-]. cbn [m_add_close m_dead]. now apply H5.
    + intros m' Hin. apply in_map_iff in Hin as (m0 & <- & _).
      unfold m_is_closed, m_add_close; cbn [m_closes]. now destruct (m_closes m0).
    + rewrite sum_rx_map. unfold sum_map. rewrite map_map. cbn [m_add_close m_rx].
      rewrite <- H7, sum_rx_map. reflexivity.
    + rewrite sum_tx_map. unfold sum_map. rewrite map_map. cbn [m_add_close m_tx].
      rewrite <- H8, sum_tx_map. reflexivity.
    + unfold Inv, ids in *. cbn [set_members s_cur s_members]. rewrite map_map. cbn [m_add_close m_id]. exact H9.
Qed.

Lemma spec_sim_run ms st sp h :
  R ms st sp ->
  exists sp', spec_run ms sp (combine h (snd (mrun st h))) = Some sp' /\ R ms (fst (mrun st h)) sp'.
Proof.
  revert st sp; induction h as [|e h IH]; intros st sp H.
  - exists sp. split; [reflexivity | exact H].
  - rewrite mrun_cons; cbn [fst snd combine spec_run].
    destruct (spec_sim ms st sp e H) as (sp1 & E1 & H1). rewrite E1. now apply IH.
Qed.

Lemma R_init c st : mt_new c = Some st -> R (c_members c) st (mkSp (c_initial c) false [] [] 0 0).
Proof.
  intros Hn. destruct (mt_new_inv c st Hn) as [Hi _]. apply mt_new_some in Hn as [_ ->].
  constructor; cbn [s_members s_cur s_closed s_queue sp_cur sp_closed sp_arr sp_dead sp_rx sp_tx map]; auto.
  - rewrite map_map. now apply map_ext.
  - intros i m Hf. apply find_m_in, in_map_iff in Hf as (s & <- & _). reflexivity.
  - intros m Hin. apply in_map_iff in Hin as (s & <- & _). reflexivity.
  - clear Hi. induction (c_members c) as [|s l IH]; [reflexivity|].
    unfold sum_rx in *. cbn [map fold_right mk_member m_rx]. now rewrite IH.
  - clear Hi. induction (c_members c) as [|s l IH]; [reflexivity|].
    unfold sum_tx in *. cbn [map fold_right mk_member m_tx]. now rewrite IH.
Qed.

(* close calls *)
Definition cproj (m : member) := (m_id m, m_closer m, m_closes m).
Definition cadd (tr : list (mev * mout)) (t : N * bool * list N) : N * bool * list N :=
  (fst (fst t), snd (fst t), snd t ++ expected_closes (snd (fst t)) tr).

Lemma expected_closes_app c t1 t2 : expected_closes c (t1 ++ t2) = expected_closes c t1 ++ expected_closes c t2.
Proof. unfold expected_closes. now rewrite map_app, concat_app. Qed.

Lemma cadd_nil_id l : (forall t, In t l -> True) -> map (fun t : N * bool * list N => (fst (fst t), snd (fst t), snd t ++ [])) l = l.
Proof.
  intros _. induction l as [|[[a b] c] l IH]; cbn [map fst snd]; [reflexivity|]. now rewrite app_nil_r, IH.
Qed.

Lemma mstep_cproj st e :
  map cproj (s_members (fst (mstep st e))) = map (cadd [(e, snd (mstep st e))]) (map cproj (s_members st)).
Proof.
  assert (Hid : forall ms o, (forall s, e <> Close s) ->
            map (cadd [(e, o)]) (map cproj ms) = map cproj ms).
  { intros ms o Hne. unfold cadd, expected_closes; cbn [map concat fst].
    destruct e; try (now apply cadd_nil_id). now specialize (Hne status). }
  destruct e; try (rewrite Hid by discriminate); cbn [mstep]; try reflexivity.
  - cbn [fst]. now rewrite apply_select_members.
  - cbn [fst]. now rewrite apply_select_members.
  - destruct (s_closed st); [reflexivity|]. destruct (s_poller st); cbn [fst]; try reflexivity;
      now rewrite apply_select_members.
  - destruct (find_m (s_cur st) (s_members st)) as [m|]; [|reflexivity].
    destruct (m_wfail m || m_is_closed m); [reflexivity|]. cbn [fst set_members s_members].
    now apply map_upd_m.
  - destruct (find_m i (s_members st)) as [m|]; [|reflexivity].
    destruct (m_dead m || m_is_closed m || s_closed st); [reflexivity|]. cbn [fst s_members].
    now apply map_upd_m.
  - cbn [fst set_members s_members]. now apply map_upd_m.
  - destruct (s_queue st); [reflexivity|]. now destruct (s_closed st && negb take).
  - now destruct (find_m (s_cur st) (s_members st)).
  - now destruct (find_m (s_cur st) (s_members st)).
  - cbn [fst snd s_members]. rewrite !map_map. apply map_ext. intros m.
    unfold cadd, cproj, expected_closes; cbn [m_add_close m_id m_closer m_closes fst snd map concat].
    now rewrite app_nil_r.
Qed.

Lemma mrun_cproj st h :
  map cproj (s_members (fst (mrun st h))) = map (cadd (combine h (snd (mrun st h)))) (map cproj (s_members st)).
Proof.
  revert st; induction h as [|e h IH]; intros st.
  - cbn [mrun fst snd combine]. unfold cadd, expected_closes; cbn [map concat]. symmetry. now apply cadd_nil_id.
  - rewrite mrun_cons; cbn [fst snd combine]. rewrite IH, mstep_cproj, map_map. apply map_ext.
    intros [[a b] cl]. unfold cadd; cbn [fst snd].
    change ((e, snd (mstep st e)) :: combine h (snd (mrun (fst (mstep st e)) h)))
      with ([(e, snd (mstep st e))] ++ combine h (snd (mrun (fst (mstep st e)) h))).
    now rewrite expected_closes_app, app_assoc.
Qed.

Lemma find_m_self ms m : NoDup (map m_id ms) -> In m ms -> find_m (m_id m) ms = Some m.
Proof.
  induction ms as [|x ms IH]; cbn [map find_m]; [intros _ []|].
  intros Hnd [<-|Hin]; [now rewrite N.eqb_refl|].
  inversion Hnd as [|? ? Hx Hnd']; subst.
  destruct (m_id x =? m_id m) eqn:E; [|now apply IH].
  apply N.eqb_eq in E. exfalso. apply Hx. rewrite E. now apply in_map.
Qed.

Lemma logs_eqb_refl l : logs_eqb l l = true.
Proof.
  unfold logs_eqb. apply list_beq_refl. intros [a b]; cbn [fst snd]. rewrite N.eqb_refl. cbn [andb].
  apply list_beq_refl. intros x. unfold list_N_eqb. now apply list_beq_N_eq.
Qed.
Lemma closes_eqb_refl l : closes_eqb l l = true.
Proof.
  unfold closes_eqb. apply list_beq_refl. intros [a b]; cbn [fst snd]. rewrite N.eqb_refl. cbn [andb].
  unfold list_N_eqb. now apply list_beq_N_eq.
Qed.

(* the observation the model itself produces for configuration c and history h *)
Definition model_case (c : mcfg) (h : list mev) : multi_case :=
  match mt_new c with
  | None => mkMultiCase c (new_class c) [] [] [] []
  | Some st =>
      let r := mrun st h in
      mkMultiCase c 0 h (snd r)
        (map (fun m => (m_id m, m_wlog m)) (s_members (fst r)))
        (map (fun m => (m_id m, m_closes m)) (s_members (fst r)))
  end.

Lemma final_logs c st h :
  mt_new c = Some st -> NoDup (map ms_id (c_members c)) ->
  map (fun m => (m_id m, m_wlog m)) (s_members (fst (mrun st h))) =
  map (fun s => (ms_id s, expected_log (ms_id s) (combine h (snd (mrun st h))))) (c_members c).
Proof.
  intros Hn Hnd. destruct (mt_new_inv c st Hn) as [_ Hids].
  pose proof (mrun_ids st h) as Hids'. unfold ids in *.
  set (fin := fst (mrun st h)) in *.
  transitivity (map (fun id => (id, wlog_of id fin)) (map m_id (s_members fin))).
  - rewrite map_map. apply map_ext_in. intros m Hin. unfold wlog_of.
    rewrite find_m_self; [reflexivity | now rewrite Hids', Hids | exact Hin].
  - rewrite Hids', Hids, map_map. apply map_ext. intros s. unfold fin. rewrite mrun_wlog.
    replace (wlog_of (ms_id s) st) with (@nil (list N)); [reflexivity|].
    apply mt_new_some in Hn as [_ ->]. unfold wlog_of; cbn [s_members].
    destruct (find_m (ms_id s) (map mk_member (c_members c))) eqn:E; [|reflexivity].
    apply find_m_in, in_map_iff in E as (s' & <- & _). reflexivity.
Qed.

Lemma final_closes c st h :
  mt_new c = Some st ->
  map (fun m => (m_id m, m_closes m)) (s_members (fst (mrun st h))) =
  map (fun s => (ms_id s, expected_closes (ms_closer s) (combine h (snd (mrun st h))))) (c_members c).
Proof.
  intros Hn.
  transitivity (map (fun t : N * bool * list N => (fst (fst t), snd t)) (map cproj (s_members (fst (mrun st h))))).
  - rewrite map_map. now apply map_ext.
  - rewrite mrun_cproj. apply mt_new_some in Hn as [_ ->]. cbn [s_members]. rewrite !map_map.
    apply map_ext. intros s. reflexivity.
Qed.

Lemma model_satisfies_predicate c h :
  NoDup (map ms_id (c_members c)) -> multi_ok (model_case c h) = true.
Proof.
  intros Hnd. unfold model_case. destruct (mt_new c) as [st|] eqn:Hn.
  - unfold multi_ok; cbn [mc_new mc_cfg mc_evs mc_outs mc_logs mc_closes]. cbn [N.eqb negb].
    pose proof Hn as Hn'. apply mt_new_some in Hn' as [H0 _]. apply new_class_0 in H0 as (Hne & Hh & _).
    destruct (c_members c) as [|s0 l] eqn:Em; [congruence|]. rewrite <- Em in *. rewrite Hh. cbn [negb andb].
    rewrite mrun_length, Nat.eqb_refl. cbn [andb].
    destruct (spec_sim_run (c_members c) st _ h (R_init c st Hn)) as (sp' & E & _). rewrite E.
    rewrite (final_logs c st h Hn Hnd), (final_closes c st h Hn), logs_eqb_refl, closes_eqb_refl. reflexivity.
  - unfold multi_ok; cbn [mc_new]. unfold mt_new in Hn. destruct (new_class c =? 0) eqn:E; [discriminate|].
    reflexivity.
Qed.

(* ---------- what the predicate entails: reads are merged first-in first-out ---------- *)

Fixpoint arrivals (ms : list mspec) (dead : list N) (closed : bool) (h : list mev) : list (N * list N) :=
  match h with
  | [] => []
  | e :: h' =>
      match e with
      | MemberRead i bs =>
          (if has_id i ms && negb (memb i dead) && negb closed then [(i, bs)] else [])
          ++ arrivals ms dead closed h'
      | MemberFail i => arrivals ms (i :: dead) closed h'
      | Close _ => arrivals ms dead true h'
      | _ => arrivals ms dead closed h'
      end
  end.
Definition reads_of (outs : list mout) : list (list N) :=
  concat (map (fun o => match o with ORead (Some b) => [b] | _ => [] end) outs).

Lemma spec_step_reads ms sp e o sp' :
  spec_step ms sp (e, o) = Some sp' ->
  sp_arr sp ++ map snd (arrivals ms (sp_dead sp) (sp_closed sp) [e]) = reads_of [o] ++ sp_arr sp' /\
  arrivals ms (sp_dead sp') (sp_closed sp') = arrivals ms
     (match e with MemberFail i => i :: sp_dead sp | _ => sp_dead sp end)
     (match e with Close _ => true | _ => sp_closed sp end).
Proof.
  unfold reads_of.
  destruct e, o; cbn [spec_step arrivals map concat app snd]; try discriminate;
    repeat match goal with
           | |- context [match ?r with Some _ => _ | None => _ end] => destruct r eqn:?
           | |- context [match ?r with [] => _ | _ :: _ => _ end] => destruct r eqn:?
           | |- context [if ?b then _ else _] => destruct b eqn:?
           end; try discriminate; intros [= <-];
    cbn [sp_arr sp_dead sp_closed map snd app]; rewrite ?app_nil_r; auto.
  - split; [|reflexivity]. f_equal. now apply list_beq_N_eq.
  - split; [reflexivity|]. match goal with H : sp_closed sp = _ |- _ => now rewrite H end.
  - split; [congruence|]. match goal with H : sp_closed sp = _ |- _ => now rewrite H end.
Qed.

Lemma arrivals_cons ms dead closed e h :
  arrivals ms dead closed (e :: h) =
  arrivals ms dead closed [e] ++
  arrivals ms (match e with MemberFail i => i :: dead | _ => dead end)
              (match e with Close _ => true | _ => closed end) h.
Proof. destruct e; cbn [arrivals app]; rewrite ?app_nil_r; reflexivity. Qed.

Lemma reads_of_cons o l : reads_of (o :: l) = reads_of [o] ++ reads_of l.
Proof. unfold reads_of. cbn [map concat]. now rewrite app_nil_r. Qed.

Lemma spec_run_reads ms tr : forall sp sp',
  spec_run ms sp tr = Some sp' ->
  sp_arr sp ++ map snd (arrivals ms (sp_dead sp) (sp_closed sp) (map fst tr)) =
  reads_of (map snd tr) ++ sp_arr sp'.
Proof.
  induction tr as [|[e o] tr IH]; intros sp sp'; cbn [spec_run map fst snd].
  - intros [= <-]. cbn. now rewrite app_nil_r.
  - destruct (spec_step ms sp (e, o)) as [sp1|] eqn:E; [|discriminate]. intros Hr.
    apply IH in Hr. apply spec_step_reads in E as [E1 E2].
    rewrite arrivals_cons, reads_of_cons, map_app, app_assoc, E1, <- !app_assoc.
    f_equal. rewrite <- Hr, E2. reflexivity.
Qed.

Lemma combine_fst {A B} (l : list A) (l' : list B) : length l = length l' -> map fst (combine l l') = l.
Proof.
  revert l'; induction l as [|x l IH]; intros [|y l']; cbn; try discriminate; [reflexivity|].
  intros [= H]. now rewrite IH.
Qed.
Lemma combine_snd {A B} (l : list A) (l' : list B) : length l = length l' -> map snd (combine l l') = l'.
Proof.
  revert l'; induction l as [|x l IH]; intros [|y l']; cbn; try discriminate; [reflexivity|].
  intros [= H]. now rewrite IH.
Qed.

(* the model: messages returned by Read, then what is still queued, are exactly the arrivals in order *)
Lemma reads_fifo c st h :
  mt_new c = Some st ->
  reads_of (snd (mrun st h)) ++ map snd (s_queue (fst (mrun st h))) =
  map snd (arrivals (c_members c) [] false h).
Proof.
  intros Hn. destruct (spec_sim_run (c_members c) st _ h (R_init c st Hn)) as (sp' & E & HR).
  apply spec_run_reads in E. cbn [sp_arr sp_dead sp_closed app] in E.
  assert (L : length h = length (snd (mrun st h))) by now rewrite mrun_length.
  rewrite (combine_fst _ _ L), (combine_snd _ _ L) in E.
  now rewrite (r_arr _ _ _ HR), E.
Qed.

(* any observation the predicate accepts has the same property *)
Lemma ok_reads_fifo ms init tr sp' :
  spec_run ms (mkSp init false [] [] 0 0) tr = Some sp' ->
  exists rest, map snd (arrivals ms [] false (map fst tr)) = reads_of (map snd tr) ++ rest.
Proof. intros H. apply spec_run_reads in H. cbn [sp_arr sp_dead sp_closed app] in H. eauto. Qed.

Lemma reads_fifo_tagged c st h :
  mt_new c = Some st ->
  exists ret q,
    arrivals (c_members c) [] false h = ret ++ q /\
    map snd ret = reads_of (snd (mrun st h)) /\
    map snd q = map snd (s_queue (fst (mrun st h))) /\
    (forall i, filter (fun x => fst x =? i) (arrivals (c_members c) [] false h) =
               filter (fun x => fst x =? i) ret ++ filter (fun x => fst x =? i) q) /\
    Permutation (arrivals (c_members c) [] false h) (ret ++ q).
Proof.
  intros Hn. pose proof (reads_fifo c st h Hn) as E. symmetry in E.
  apply map_eq_app in E as (ret & q & E & E1 & E2). exists ret, q.
  repeat split; auto.
  - intros i. rewrite E. apply filter_app.
  - now rewrite E.
Qed.

(* ---------- close reaches every member ---------- *)

Definition close_statuses (h : list mev) : list N :=
  concat (map (fun e => match e with Close s => [s] | _ => [] end) h).

Lemma expected_closes_statuses closer h : forall outs,
  length h = length outs ->
  expected_closes closer (combine h outs) = map (close_code closer) (close_statuses h).
Proof.
  unfold expected_closes, close_statuses.
  induction h as [|e h IH]; intros [|o outs]; cbn [length combine map concat]; try discriminate; [reflexivity|].
  intros [= L]. rewrite (IH _ L), map_app. f_equal. now destruct e.
Qed.

Lemma close_all st h m' :
  In m' (s_members (fst (mrun st h))) ->
  exists m, In m (s_members st) /\ m_id m = m_id m' /\ m_closer m = m_closer m' /\
            m_closes m' = m_closes m ++ map (close_code (m_closer m)) (close_statuses h).
Proof.
  intros Hin. apply (in_map cproj) in Hin. rewrite mrun_cproj in Hin.
  apply in_map_iff in Hin as (t & Et & Hin). apply in_map_iff in Hin as (m & <- & Hin).
  exists m. unfold cadd, cproj in Et; cbn [fst snd] in Et. injection Et as E1 E2 E3.
  rewrite expected_closes_statuses in E3 by (now rewrite mrun_length). auto.
Qed.

Lemma close_all_from_new c st h s m' :
  mt_new c = Some st -> In (Close s) h -> In m' (s_members (fst (mrun st h))) ->
  m_closes m' = map (close_code (m_closer m')) (close_statuses h) /\ m_closes m' <> [].
Proof.
  intros Hn Hc Hin. destruct (close_all st h m' Hin) as (m & Hm & _ & Hcl & E).
  apply mt_new_some in Hn as [_ ->]. cbn [s_members] in Hm. apply in_map_iff in Hm as (sp & <- & _).
  cbn [mk_member m_closes m_closer app] in *. rewrite Hcl in E. split; [exact E|].
  rewrite E. assert (In s (close_statuses h)).
  { unfold close_statuses. apply in_concat. exists [s]. split; [|now left].
    apply in_map_iff. exists (Close s). auto. }
  destruct (close_statuses h); [contradiction | discriminate].
Qed.

(* ---------- counters ---------- *)

Definition CI (st : mstate) : Prop :=
  forall m, In m (s_members st) -> m_tx m = total_len (m_wlog m) /\ m_rx m = total_len (m_rlog m).

Lemma total_len_snoc l b : total_len (l ++ [b]) = total_len l + N.of_nat (length b).
Proof. unfold total_len. induction l as [|x l IH]; cbn [app fold_right]; [lia | rewrite IH; lia]. Qed.

Lemma mstep_ci st e : CI st -> CI (fst (mstep st e)).
Proof.
  intros H. unfold CI.
  assert (Hupd : forall id f, (forall m0, (m_tx m0 = total_len (m_wlog m0) /\ m_rx m0 = total_len (m_rlog m0)) ->
                   m_tx (f m0) = total_len (m_wlog (f m0)) /\ m_rx (f m0) = total_len (m_rlog (f m0))) ->
            forall m, In m (upd_m id f (s_members st)) -> m_tx m = total_len (m_wlog m) /\ m_rx m = total_len (m_rlog m)).
  { intros id f Hf m Hin. apply in_upd_m in Hin as [Hin|(m0 & Hin & ->)]; [now apply H | apply Hf, H, Hin]. }
  destruct e; cbn [mstep]; try exact H.
  - cbn [fst]. now rewrite apply_select_members.
  - cbn [fst]. now rewrite apply_select_members.
  - destruct (s_closed st); [exact H|]. destruct (s_poller st); cbn [fst]; try exact H;
      now rewrite apply_select_members.
  - destruct (find_m (s_cur st) (s_members st)) as [m|]; [|exact H].
    destruct (m_wfail m || m_is_closed m); [exact H|]. cbn [fst set_members s_members].
    apply Hupd. intros m0 [E1 E2]. cbn [m_add_write m_tx m_wlog m_rx m_rlog]. rewrite total_len_snoc. split; congruence.
  - destruct (find_m i (s_members st)) as [m|]; [|exact H].
    destruct (m_dead m || m_is_closed m || s_closed st); [exact H|]. cbn [fst s_members].
    apply Hupd. intros m0 [E1 E2]. cbn [m_add_read m_tx m_wlog m_rx m_rlog]. rewrite total_len_snoc. split; congruence.
  - cbn [fst set_members s_members]. apply Hupd. intros m0 [E1 E2]. now cbn.
  - destruct (s_queue st); [exact H|]. now destruct (s_closed st && negb take).
  - now destruct (find_m (s_cur st) (s_members st)).
  - now destruct (find_m (s_cur st) (s_members st)).
  - cbn [fst s_members]. intros m Hin. apply in_map_iff in Hin as (m0 & <- & Hin). cbn. now apply H.
Qed.

Lemma mrun_ci st h : CI st -> CI (fst (mrun st h)).
Proof.
  revert st; induction h as [|e h IH]; intros st H; [exact H|].
  rewrite mrun_cons; cbn [fst]. now apply IH, mstep_ci.
Qed.

Lemma sum_map_ext_in f g ms : (forall m, In m ms -> f m = g m) -> sum_map f ms = sum_map g ms.
Proof. intros H. unfold sum_map. f_equal. now apply map_ext_in. Qed.

Lemma counters_sum c st h :
  mt_new c = Some st ->
  let fin := fst (mrun st h) in
  snd (mstep fin Counters) =
  OCounters (sum_map (fun m => total_len (m_rlog m)) (s_members fin))
            (sum_map (fun m => total_len (m_wlog m)) (s_members fin)).
Proof.
  intros Hn fin. assert (Hci : CI fin).
  { apply mrun_ci. apply mt_new_some in Hn as [_ ->]. intros m Hin. cbn [s_members] in Hin.
    apply in_map_iff in Hin as (s & <- & _). now cbn. }
  cbn [mstep snd]. rewrite sum_rx_map, sum_tx_map. f_equal; apply sum_map_ext_in; intros m Hin; now apply Hci.
Qed.

(* ---------- the pollers, as written ---------- *)

Fixpoint rr_outs (ids : list N) (cur : nat) (k : nat) : list N :=
  match k with
  | O => []
  | S k' => fst (rr_get ids cur) :: rr_outs ids (snd (rr_get ids cur)) k'
  end.

Lemma rr_get_nonempty ids cur : ids <> [] -> rr_get ids cur = (nth cur ids 0, Nat.modulo (S cur) (length ids)).
Proof. destruct ids; [congruence | reflexivity]. Qed.

Lemma rr_round_robin ids cur k :
  (cur < length ids)%nat ->
  rr_outs ids cur k = map (fun j => nth ((cur + j) mod length ids) ids 0) (seq 0 k).
Proof.
  revert cur; induction k as [|k IH]; intros cur Hc; [reflexivity|].
  assert (Hne : ids <> []) by (destruct ids; [cbn in Hc; lia | discriminate]).
  assert (Hn : length ids <> 0%nat) by (destruct ids; [congruence | cbn; lia]).
  cbn [rr_outs seq map]. rewrite rr_get_nonempty by exact Hne. cbn [fst snd].
  rewrite Nat.add_0_r, (Nat.mod_small cur) by exact Hc. f_equal.
  rewrite IH by (apply Nat.mod_upper_bound; exact Hn).
  rewrite <- seq_shift, map_map. apply map_ext. intros j. f_equal.
  rewrite Nat.add_mod_idemp_l by exact Hn. f_equal. lia.
Qed.

Lemma rr_empty cur : rr_get [] cur = (0, cur).
Proof. reflexivity. Qed.

(* LastUsedPoller.Get returns the current id or the empty id: it never moves the selection
   (unless the empty id itself is a member) *)
Lemma last_used_inert st : ~ In 0 (ids st) -> apply_select st (lu_get st) = st.
Proof.
  intros H0. unfold lu_get. destruct (negb (s_lastread st =? 0)) eqn:E.
  - unfold apply_select. destruct (s_closed st); [reflexivity|].
    destruct (find_m (s_cur st) (s_members st)); [|reflexivity]. now rewrite N.eqb_refl.
  - apply negb_false_iff, N.eqb_eq in E. rewrite E. now apply select_unknown_ignored.
Qed.

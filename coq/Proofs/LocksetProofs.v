(* Eraser-style soundness of the lockset discipline for the interleaving semantics of
   Model/Lockset.v: in every execution in which each access holds the guard of its variable
   (write mode for writes), two conflicting accesses of different threads are never enabled in
   the same state, and whenever they both occur the first thread releases the guard and the
   second acquires it in between - they are ordered by the lock's release/acquire edge. *)
From Coq Require Import List String NArith Bool Arith Lia.
From Iscp Require Import Model.LockCfg Model.Lockset.
Import ListNotations.
Open Scope list_scope.

Definition excl (s : locks) : Prop := forall l t, fst (s l) = Some t -> snd (s l) = [].

Lemma excl_init : excl init_locks.
Proof. intros l t H. discriminate. Qed.

Lemma upd_same s l v : upd s l v l = v.
Proof. unfold upd. now rewrite Nat.eqb_refl. Qed.
Lemma upd_other s l v l' : l' <> l -> upd s l v l' = s l'.
Proof. unfold upd. intros H. apply Nat.eqb_neq in H. now rewrite H. Qed.

Lemma step_excl s ta s' : excl s -> step s ta = Some s' -> excl s'.
Proof.
  intros E H. destruct ta as [t a]. unfold step in H; cbn [fst snd] in H.
  destruct a as [l md|l md|x|x]; try (injection H as <-; exact E).
  - destruct md.
    + destruct (s l) as [[w|] rs] eqn:Es; try discriminate. injection H as <-.
      intros l' t' H'. destruct (Nat.eq_dec l' l) as [->|N].
      * rewrite upd_same in H'. discriminate.
      * rewrite upd_other in * by exact N. eauto.
    + destruct (s l) as [[w|] [|r rs]] eqn:Es; try discriminate. injection H as <-.
      intros l' t' H'. destruct (Nat.eq_dec l' l) as [->|N].
      * now rewrite upd_same.
      * rewrite upd_other in * by exact N. eauto.
  - destruct md.
    + destruct (s l) as [w rs] eqn:Es. destruct (memb t rs); try discriminate. injection H as <-.
      intros l' t' H'. destruct (Nat.eq_dec l' l) as [->|N].
      * rewrite upd_same in *. cbn in *. specialize (E l t'). rewrite Es in E. cbn in E.
        rewrite (E H'). reflexivity.
      * rewrite upd_other in * by exact N. eauto.
    + destruct (s l) as [[w|] rs] eqn:Es; try discriminate. destruct (Nat.eqb w t); try discriminate.
      injection H as <-. intros l' t' H'. destruct (Nat.eq_dec l' l) as [->|N].
      * rewrite upd_same in H'. discriminate.
      * rewrite upd_other in * by exact N. eauto.
Qed.

Lemma run_excl tr : forall s s', excl s -> run s tr = Some s' -> excl s'.
Proof.
  induction tr as [|ta r IH]; intros s s' E H; cbn in H.
  - now injection H as <-.
  - destruct (step s ta) as [s1|] eqn:Es; [|discriminate]. eapply IH; [|exact H]. eapply step_excl; eauto.
Qed.

Lemma memb_cons t t' rs : memb t (t' :: rs) = Nat.eqb t t' || memb t rs.
Proof. reflexivity. Qed.
Lemma memb_nil t : memb t [] = false.
Proof. reflexivity. Qed.

Lemma memb_true t l : memb t l = true -> l <> [].
Proof. destruct l; [discriminate | congruence]. Qed.

(* mutual exclusion: a write-mode holder excludes every other holder *)
Lemma holds_exclusive s l t1 t2 m1 m2 :
  excl s -> t1 <> t2 -> (m1 = W \/ m2 = W) ->
  holdsb s t1 l m1 = true -> holdsb s t2 l m2 = true -> False.
Proof.
  intros E N C H1 H2. unfold holdsb in *.
  destruct m1, m2; destruct C as [C|C]; try discriminate.
  - destruct (fst (s l)) as [w|] eqn:Ew; [|discriminate]. apply Nat.eqb_eq in H2; subst w.
    apply memb_true in H1. apply H1. eapply E; eauto.
  - destruct (fst (s l)) as [w|] eqn:Ew; [|discriminate]. apply Nat.eqb_eq in H1; subst w.
    apply memb_true in H2. apply H2. eapply E; eauto.
  - destruct (fst (s l)) as [w|]; [|discriminate]. apply Nat.eqb_eq in H1, H2. congruence.
  - destruct (fst (s l)) as [w|]; [|discriminate]. apply Nat.eqb_eq in H1, H2. congruence.
Qed.

(* what an access that obeys the discipline holds *)
Lemma access_ok_holds guard s t a x :
  accesses a x -> access_ok guard s (t, a) = true ->
  exists m, holdsb s t (guard x) m = true /\ (a = AWr x -> m = W).
Proof.
  intros [-> | ->]; unfold access_ok; cbn [fst snd]; intros H.
  - apply orb_true_iff in H as [H|H]; [exists R | exists W]; split; auto; discriminate.
  - exists W. auto.
Qed.

(* ---------- theorem 1: conflicting accesses are never enabled together ---------- *)
Theorem lockset_no_simultaneous guard tr s t1 t2 a1 a2 x :
  run init_locks tr = Some s -> t1 <> t2 -> conflicting a1 a2 x ->
  access_ok guard s (t1, a1) = true -> access_ok guard s (t2, a2) = true -> False.
Proof.
  intros Hr N (A1 & A2 & C) H1 H2.
  destruct (access_ok_holds _ _ _ _ _ A1 H1) as (m1 & Hm1 & W1).
  destruct (access_ok_holds _ _ _ _ _ A2 H2) as (m2 & Hm2 & W2).
  eapply (holds_exclusive s (guard x) t1 t2 m1 m2); eauto.
  - eapply run_excl; [apply excl_init | exact Hr].
  - destruct C as [C|C]; [left | right]; auto.
Qed.

(* ---------- single-step facts about who holds what ---------- *)

Local Arguments memb : simpl never.

Lemma memb_remove_one_other t t' rs : t <> t' -> memb t (remove_one t' rs) = memb t rs.
Proof.
  intros N. induction rs as [|r rs IH]; cbn [remove_one]; [reflexivity|].
  destruct (Nat.eqb r t') eqn:E.
  - apply Nat.eqb_eq in E; subst r. rewrite memb_cons.
    destruct (Nat.eqb t t') eqn:E2; [apply Nat.eqb_eq in E2; congruence | reflexivity].
  - rewrite !memb_cons. now rewrite IH.
Qed.

Lemma memb_remove_one_false t t' rs : memb t rs = false -> memb t (remove_one t' rs) = false.
Proof.
  induction rs as [|r rs IH]; cbn [remove_one]; [reflexivity|]. rewrite memb_cons. intros H.
  apply orb_false_iff in H as [H1 H2].
  destruct (Nat.eqb r t'); [exact H2|]. rewrite memb_cons, H1. now apply IH.
Qed.

Lemma holdsb_upd_other s l v l' t md : l' <> l -> holdsb (upd s l v) t l' md = holdsb s t l' md.
Proof. intros N. unfold holdsb. now rewrite upd_other. Qed.

(* a holder keeps holding until it releases in that mode itself *)
Lemma step_holds_preserved s ta s' t l md :
  step s ta = Some s' -> ta <> (t, ARel l md) -> holdsb s t l md = true -> holdsb s' t l md = true.
Proof.
  intros H N Hh. destruct ta as [t' a]. unfold step in H; cbn [fst snd] in H.
  destruct a as [l' md'|l' md'|x|x]; try (injection H as <-; exact Hh);
    (destruct (Nat.eq_dec l l') as [<-|Nl]; [|]).
  - (* Acq on l *) destruct md'.
    + destruct (s l) as [[w|] rs] eqn:Es; try discriminate. injection H as <-.
      unfold holdsb in *. rewrite upd_same, Es in *. cbn in *. destruct md; [|discriminate].
      rewrite memb_cons, Hh. apply orb_true_r.
    + destruct (s l) as [[w|] [|r rs]] eqn:Es; try discriminate.
      unfold holdsb in Hh. rewrite Es in Hh. destruct md; discriminate.
  - destruct md'.
    + destruct (s l') as [[w|] rs]; try discriminate. injection H as <-. now rewrite holdsb_upd_other.
    + destruct (s l') as [[w|] [|r rs]]; try discriminate. injection H as <-. now rewrite holdsb_upd_other.
  - (* Rel on l *) destruct md'.
    + destruct (s l) as [w rs] eqn:Es. destruct (memb t' rs); try discriminate. injection H as <-.
      unfold holdsb in *. rewrite upd_same, Es in *. cbn in *. destruct md; [|exact Hh].
      rewrite memb_remove_one_other; [exact Hh|]. intros ->. now apply N.
    + destruct (s l) as [[w|] rs] eqn:Es; try discriminate. destruct (Nat.eqb w t') eqn:Ew; try discriminate.
      injection H as <-. apply Nat.eqb_eq in Ew; subst w.
      unfold holdsb in *. rewrite upd_same, Es in *. cbn in *. destruct md; [exact Hh|].
      apply Nat.eqb_eq in Hh. subst t'. now contradiction N.
  - destruct md'.
    + destruct (s l') as [w rs]. destruct (memb t' rs); try discriminate. injection H as <-. now rewrite holdsb_upd_other.
    + destruct (s l') as [[w|] rs]; try discriminate. destruct (Nat.eqb w t'); try discriminate.
      injection H as <-. now rewrite holdsb_upd_other.
Qed.

(* a thread starts holding only by acquiring in that mode itself *)
Lemma step_not_holds_preserved s ta s' t l md :
  step s ta = Some s' -> ta <> (t, AAcq l md) -> holdsb s t l md = false -> holdsb s' t l md = false.
Proof.
  intros H N Hh. destruct ta as [t' a]. unfold step in H; cbn [fst snd] in H.
  destruct a as [l' md'|l' md'|x|x]; try (injection H as <-; exact Hh);
    (destruct (Nat.eq_dec l l') as [<-|Nl]; [|]).
  - destruct md'.
    + destruct (s l) as [[w|] rs] eqn:Es; try discriminate. injection H as <-.
      unfold holdsb in *. rewrite upd_same, Es in *. cbn in *. destruct md; [|reflexivity].
      rewrite memb_cons, Hh. destruct (Nat.eqb t t') eqn:E; [|reflexivity].
      apply Nat.eqb_eq in E. subst t'. now contradiction N.
    + destruct (s l) as [[w|] [|r rs]] eqn:Es; try discriminate. injection H as <-.
      unfold holdsb in *. rewrite upd_same in *. cbn in *. destruct md; [reflexivity|].
      destruct (Nat.eqb t' t) eqn:E; [|reflexivity]. apply Nat.eqb_eq in E. subst t'. now contradiction N.
  - destruct md'.
    + destruct (s l') as [[w|] rs]; try discriminate. injection H as <-. now rewrite holdsb_upd_other.
    + destruct (s l') as [[w|] [|r rs]]; try discriminate. injection H as <-. now rewrite holdsb_upd_other.
  - destruct md'.
    + destruct (s l) as [w rs] eqn:Es. destruct (memb t' rs); try discriminate. injection H as <-.
      unfold holdsb in *. rewrite upd_same, Es in *. cbn in *. destruct md; [|exact Hh].
      now apply memb_remove_one_false.
    + destruct (s l) as [[w|] rs] eqn:Es; try discriminate. destruct (Nat.eqb w t'); try discriminate.
      injection H as <-. unfold holdsb in *. rewrite upd_same, Es in *. cbn in *. destruct md; [exact Hh | reflexivity].
  - destruct md'.
    + destruct (s l') as [w rs]. destruct (memb t' rs); try discriminate. injection H as <-. now rewrite holdsb_upd_other.
    + destruct (s l') as [[w|] rs]; try discriminate. destruct (Nat.eqb w t'); try discriminate.
      injection H as <-. now rewrite holdsb_upd_other.
Qed.

Lemma mode_eq_dec (a b : mode) : {a = b} + {a <> b}.
Proof. decide equality. Defined.
Lemma action_eq_dec (a b : action) : {a = b} + {a <> b}.
Proof. decide equality; try apply Nat.eq_dec; apply mode_eq_dec. Defined.
Lemma ta_eq_dec (a b : tid * action) : {a = b} + {a <> b}.
Proof. decide equality; [apply action_eq_dec | apply Nat.eq_dec]. Defined.

Lemma holds_persists mid : forall s s' t l md,
  holdsb s t l md = true -> run s mid = Some s' -> ~ In (t, ARel l md) mid -> holdsb s' t l md = true.
Proof.
  induction mid as [|ta r IH]; intros s s' t l md Hh Hr Hn; cbn in Hr.
  - now injection Hr as <-.
  - destruct (step s ta) as [s1|] eqn:Es; [|discriminate].
    eapply IH; [| exact Hr | intros Hin; apply Hn; now right].
    eapply step_holds_preserved; eauto. intros ->. apply Hn. now left.
Qed.

Lemma first_acquire mid : forall s s' t l md,
  holdsb s t l md = false -> run s mid = Some s' -> holdsb s' t l md = true ->
  exists A B sA sA', mid = A ++ (t, AAcq l md) :: B /\ run s A = Some sA /\ step sA (t, AAcq l md) = Some sA'.
Proof.
  induction mid as [|ta r IH]; intros s s' t l md Hh Hr Hs; cbn in Hr.
  - injection Hr as <-. congruence.
  - destruct (step s ta) as [s1|] eqn:Es; [|discriminate].
    destruct (ta_eq_dec ta (t, AAcq l md)) as [->|N].
    + exists [], r, s, s1. cbn. auto.
    + pose proof (step_not_holds_preserved _ _ _ _ _ _ Es N Hh) as H1.
      destruct (IH s1 s' t l md H1 Hr Hs) as (A & B & sA & sA' & -> & HA & HS).
      exists (ta :: A), B, sA, sA'. cbn. rewrite Es. auto.
Qed.

(* an acquire that is enabled shows that nobody holds the lock in a conflicting mode *)
Lemma acquire_enabled s t2 l m2 s' t1 m1 :
  step s (t2, AAcq l m2) = Some s' -> (m1 = W \/ m2 = W) -> holdsb s t1 l m1 = false.
Proof.
  unfold step; cbn [fst snd]. intros H C. destruct m2.
  - destruct C as [->|C]; [|discriminate].
    destruct (s l) as [[w|] rs] eqn:Es; try discriminate. unfold holdsb. now rewrite Es.
  - destruct (s l) as [[w|] [|r rs]] eqn:Es; try discriminate. unfold holdsb. rewrite Es. now destruct m1.
Qed.

Lemma disciplined_app guard A : forall s B,
  disciplined guard s (A ++ B) = true ->
  exists s', run s A = Some s' /\ disciplined guard s' B = true.
Proof.
  induction A as [|ta A IH]; intros s B H; cbn in *.
  - eauto.
  - apply andb_true_iff in H as [_ H]. destruct (step s ta) as [s1|]; [|discriminate]. now apply IH.
Qed.

(* ---------- theorem 2: conflicting accesses are ordered by release -> acquire of the guard ---------- *)
Theorem lockset_sound guard pre t1 a1 mid t2 a2 post x :
  disciplined guard init_locks (pre ++ (t1, a1) :: mid ++ (t2, a2) :: post) = true ->
  t1 <> t2 -> conflicting a1 a2 x ->
  exists A B C m1 m2, mid = A ++ (t1, ARel (guard x) m1) :: B ++ (t2, AAcq (guard x) m2) :: C.
Proof.
  intros D N (A1 & A2 & C).
  destruct (disciplined_app _ _ _ _ D) as (s1 & Hpre & D1).
  cbn [disciplined] in D1. apply andb_true_iff in D1 as [Ok1 D1].
  assert (St1 : step s1 (t1, a1) = Some s1) by (destruct A1 as [-> | ->]; reflexivity).
  rewrite St1 in D1.
  destruct (disciplined_app _ _ _ _ D1) as (s2 & Hmid & D2).
  cbn [disciplined] in D2. apply andb_true_iff in D2 as [Ok2 _].
  destruct (access_ok_holds _ _ _ _ _ A1 Ok1) as (m1 & Hm1 & W1).
  destruct (access_ok_holds _ _ _ _ _ A2 Ok2) as (m2 & Hm2 & W2).
  assert (Cm : m1 = W \/ m2 = W) by (destruct C as [C|C]; [left | right]; auto).
  assert (E1 : excl s1) by (eapply run_excl; [apply excl_init | exact Hpre]).
  (* t2 does not hold the guard in mode m2 at the first access *)
  assert (H2 : holdsb s1 t2 (guard x) m2 = false).
  { destruct (holdsb s1 t2 (guard x) m2) eqn:E; [|reflexivity].
    exfalso. eapply (holds_exclusive s1 (guard x) t1 t2 m1 m2); eauto. }
  destruct (first_acquire _ _ _ _ _ _ H2 Hmid Hm2) as (A & B & sA & sA' & -> & HA & HS).
  pose proof (acquire_enabled _ _ _ _ _ t1 m1 HS Cm) as Hn.
  destruct (in_dec ta_eq_dec (t1, ARel (guard x) m1) A) as [Hin|Hnin].
  - apply in_split in Hin as (P & Q & ->). exists P, Q, B, m1, m2. now rewrite <- app_assoc.
  - rewrite (holds_persists _ _ _ _ _ _ Hm1 HA Hnin) in Hn. discriminate.
Qed.

(* a disciplined trace is in particular a valid one *)
Lemma disciplined_valid guard tr : forall s, disciplined guard s tr = true -> exists s', run s tr = Some s'.
Proof.
  intros s H. rewrite <- (app_nil_r tr) in H. destruct (disciplined_app _ _ _ _ H) as (s' & Hr & _). eauto.
Qed.

(* Association-list finite maps keyed by N, with the handful of lemmas the models need. *)
From Coq Require Import List NArith Bool Lia.
Import ListNotations.
Open Scope N_scope.

Section ListMap.
  Context {V : Type}.
  Definition lmap := list (N * V).

  Fixpoint lookup (k : N) (m : lmap) : option V :=
    match m with
    | [] => None
    | (k', v) :: m' => if k' =? k then Some v else lookup k m'
    end.

  Fixpoint remove (k : N) (m : lmap) : lmap :=
    match m with
    | [] => []
    | (k', v) :: m' => if k' =? k then remove k m' else (k', v) :: remove k m'
    end.

  (* insert = overwrite in place if present, else append at the end *)
  Fixpoint insert (k : N) (v : V) (m : lmap) : lmap :=
    match m with
    | [] => [(k, v)]
    | (k', v') :: m' => if k' =? k then (k, v) :: m' else (k', v') :: insert k v m'
    end.

  Definition keys (m : lmap) : list N := map fst m.

  Lemma lookup_insert_same k v m : lookup k (insert k v m) = Some v.
  Proof.
    induction m as [|[k' v'] m IH]; cbn [insert lookup].
    - now rewrite N.eqb_refl.
    - destruct (k' =? k) eqn:E; cbn [lookup]; [now rewrite N.eqb_refl | now rewrite E].
  Qed.

  Lemma lookup_insert_other k k' v m : k' <> k -> lookup k' (insert k v m) = lookup k' m.
  Proof.
    intros Hne. induction m as [|[k2 v2] m IH]; cbn [insert lookup].
    - destruct (k =? k') eqn:E; [apply N.eqb_eq in E; congruence | reflexivity].
    - destruct (k2 =? k) eqn:E; cbn [lookup].
      + apply N.eqb_eq in E; subst k2.
        destruct (k =? k') eqn:E2; [apply N.eqb_eq in E2; congruence | reflexivity].
      + destruct (k2 =? k'); [reflexivity | exact IH].
  Qed.

  Lemma lookup_remove_same k m : lookup k (remove k m) = None.
  Proof.
    induction m as [|[k' v'] m IH]; cbn [remove lookup]; [reflexivity|].
    destruct (k' =? k) eqn:E; [exact IH | cbn [lookup]; now rewrite E].
  Qed.

  Lemma lookup_remove_other k k' m : k' <> k -> lookup k' (remove k m) = lookup k' m.
  Proof.
    intros Hne. induction m as [|[k2 v2] m IH]; cbn [remove lookup]; [reflexivity|].
    destruct (k2 =? k) eqn:E.
    - apply N.eqb_eq in E; subst k2.
      destruct (k =? k') eqn:E2; [apply N.eqb_eq in E2; congruence | exact IH].
    - cbn [lookup]. destruct (k2 =? k'); [reflexivity | exact IH].
  Qed.
End ListMap.
Arguments lmap : clear implicits.

(* boolean list equality *)
Fixpoint list_beq (A : Type) (eq : A -> A -> bool) (l1 l2 : list A) : bool :=
  match l1, l2 with
  | [], [] => true
  | x :: l1', y :: l2' => eq x y && list_beq A eq l1' l2'
  | _, _ => false
  end.

Lemma list_beq_refl A eq l : (forall x, eq x x = true) -> list_beq A eq l l = true.
Proof. intros H. induction l as [|x l IH]; cbn; [reflexivity | now rewrite H, IH]. Qed.

Lemma list_beq_N_eq l1 l2 : list_beq N N.eqb l1 l2 = true <-> l1 = l2.
Proof.
  revert l2; induction l1 as [|x l1 IH]; intros [|y l2]; cbn; split; try congruence; try discriminate.
  - intros H. apply andb_true_iff in H as [H1 H2]. apply N.eqb_eq in H1. apply IH in H2. congruence.
  - intros [= -> ->]. rewrite N.eqb_refl. now apply IH.
Qed.

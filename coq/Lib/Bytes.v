(* Big-endian 16/32-bit fields as lists of byte values (N in 0..255). *)
From Coq Require Import List NArith Bool Lia ZArith ZifyN ZifyBool.
Import ListNotations.
Open Scope N_scope.
Ltac Zify.zify_post_hook ::= Z.div_mod_to_equations.

Definition byte_ok (b : N) : bool := b <? 256.
Definition bytes_ok (l : list N) : bool := forallb byte_ok l.

Definition be16 (n : N) : list N := [n / 256 mod 256; n mod 256].
Definition be32 (n : N) : list N :=
  [n / 16777216 mod 256; n / 65536 mod 256; n / 256 mod 256; n mod 256].
Definition rd16 (a b : N) : N := a * 256 + b.
Definition rd32 (a b c d : N) : N := ((a * 256 + b) * 256 + c) * 256 + d.

Lemma rd16_be16 n : n < 65536 -> rd16 (n / 256 mod 256) (n mod 256) = n.
Proof. unfold rd16. intros. lia. Qed.

Lemma rd32_be32 n : n < 4294967296 ->
  rd32 (n / 16777216 mod 256) (n / 65536 mod 256) (n / 256 mod 256) (n mod 256) = n.
Proof. unfold rd32. intros. lia. Qed.

Lemma be16_bytes_ok n : bytes_ok (be16 n) = true.
Proof. unfold bytes_ok, be16, byte_ok; cbn [forallb]. rewrite !andb_true_iff, !N.ltb_lt. lia. Qed.

Lemma be32_bytes_ok n : bytes_ok (be32 n) = true.
Proof. unfold bytes_ok, be32, byte_ok; cbn [forallb]. rewrite !andb_true_iff, !N.ltb_lt. lia. Qed.

Lemma be16_rd16 a b : a < 256 -> b < 256 -> be16 (rd16 a b) = [a; b].
Proof. unfold be16, rd16. intros. f_equal; [lia | f_equal; lia]. Qed.

Lemma be32_rd32 a b c d : a < 256 -> b < 256 -> c < 256 -> d < 256 ->
  be32 (rd32 a b c d) = [a; b; c; d].
Proof. unfold be32, rd32. intros. repeat (f_equal; try lia). Qed.

(* Decimal text (as a list of byte values) <-> N, on top of the standard library's
   N.to_uint / N.of_uint, with the round-trip lemma.  Printing is what strconv.AppendInt /
   FormatUint produce for a non-negative value (no sign, no leading zeros, "0" for zero);
   parsing is the digit loop of strconv.ParseUint in base 10 without the range check
   (leading zeros accepted, the empty string and any non-digit refused). *)
From Coq Require Import List NArith Bool Lia DecimalN.
Import ListNotations.
Open Scope N_scope.

Fixpoint uint_to_bytes (u : Decimal.uint) : list N :=
  match u with
  | Decimal.Nil => []
  | Decimal.D0 u => 48 :: uint_to_bytes u
  | Decimal.D1 u => 49 :: uint_to_bytes u
  | Decimal.D2 u => 50 :: uint_to_bytes u
  | Decimal.D3 u => 51 :: uint_to_bytes u
  | Decimal.D4 u => 52 :: uint_to_bytes u
  | Decimal.D5 u => 53 :: uint_to_bytes u
  | Decimal.D6 u => 54 :: uint_to_bytes u
  | Decimal.D7 u => 55 :: uint_to_bytes u
  | Decimal.D8 u => 56 :: uint_to_bytes u
  | Decimal.D9 u => 57 :: uint_to_bytes u
  end.

Definition digit_cons (c : N) : option (Decimal.uint -> Decimal.uint) :=
  if c =? 48 then Some Decimal.D0 else if c =? 49 then Some Decimal.D1
  else if c =? 50 then Some Decimal.D2 else if c =? 51 then Some Decimal.D3
  else if c =? 52 then Some Decimal.D4 else if c =? 53 then Some Decimal.D5
  else if c =? 54 then Some Decimal.D6 else if c =? 55 then Some Decimal.D7
  else if c =? 56 then Some Decimal.D8 else if c =? 57 then Some Decimal.D9
  else None.

Fixpoint uint_of_bytes (b : list N) : option Decimal.uint :=
  match b with
  | [] => Some Decimal.Nil
  | c :: b' =>
      match digit_cons c, uint_of_bytes b' with
      | Some d, Some u => Some (d u)
      | _, _ => None
      end
  end.

Definition dec_print (n : N) : list N := uint_to_bytes (N.to_uint n).

Definition dec_parse (b : list N) : option N :=
  match b with
  | [] => None
  | _ => option_map N.of_uint (uint_of_bytes b)
  end.

Definition is_digit (c : N) : bool := (48 <=? c) && (c <=? 57).

Lemma uint_of_to_bytes u : uint_of_bytes (uint_to_bytes u) = Some u.
Proof. induction u; cbn [uint_to_bytes uint_of_bytes]; try reflexivity; rewrite IHu; reflexivity. Qed.

Lemma uint_to_bytes_digits u : forallb is_digit (uint_to_bytes u) = true.
Proof. induction u; cbn [uint_to_bytes forallb]; try reflexivity; rewrite IHu; reflexivity. Qed.

Lemma to_uint_not_nil n : N.to_uint n <> Decimal.Nil.
Proof.
  intros H. pose proof (Unsigned.of_to n) as E. rewrite H in E. cbn in E. subst n. discriminate H.
Qed.

Lemma dec_print_not_nil n : dec_print n <> [].
Proof.
  unfold dec_print. pose proof (to_uint_not_nil n). destruct (N.to_uint n); cbn; congruence.
Qed.

Lemma dec_print_digits n : forallb is_digit (dec_print n) = true.
Proof. apply uint_to_bytes_digits. Qed.

(* the round trip *)
Lemma dec_parse_print n : dec_parse (dec_print n) = Some n.
Proof.
  unfold dec_parse. pose proof (dec_print_not_nil n) as Hn.
  destruct (dec_print n) eqn:E; [congruence|]. rewrite <- E. unfold dec_print.
  rewrite uint_of_to_bytes. cbn [option_map]. now rewrite Unsigned.of_to.
Qed.

(* parsing accepts only non-empty all-digit texts *)
Lemma uint_of_bytes_some b u : uint_of_bytes b = Some u -> forallb is_digit b = true.
Proof.
  revert u; induction b as [|c b IH]; intros u; cbn [uint_of_bytes forallb]; [reflexivity|].
  destruct (digit_cons c) eqn:D; [|discriminate].
  destruct (uint_of_bytes b) eqn:U; [|discriminate]. intros _.
  rewrite (IH _ eq_refl), andb_true_r. unfold digit_cons in D. unfold is_digit.
  repeat match type of D with
         | (if ?c =? ?k then _ else _) = _ =>
             let E := fresh in destruct (c =? k) eqn:E;
             [apply N.eqb_eq in E; subst; reflexivity|]
         end. discriminate.
Qed.

Lemma dec_parse_some b n : dec_parse b = Some n -> b <> [] /\ forallb is_digit b = true.
Proof.
  unfold dec_parse. destruct b as [|c b]; [discriminate|]. intros H. split; [congruence|].
  destruct (uint_of_bytes (c :: b)) eqn:U; [|discriminate]. eapply uint_of_bytes_some; eauto.
Qed.

Lemma uint_of_bytes_digits b : forallb is_digit b = true -> exists u, uint_of_bytes b = Some u.
Proof.
  induction b as [|c b IH]; cbn [forallb uint_of_bytes]; [eauto|].
  intros H. apply andb_true_iff in H as [Hc Hb]. destruct (IH Hb) as [u ->].
  unfold is_digit in Hc. apply andb_true_iff in Hc as [H1 H2].
  apply N.leb_le in H1, H2.
  assert (C : c = 48 \/ c = 49 \/ c = 50 \/ c = 51 \/ c = 52 \/ c = 53 \/ c = 54 \/ c = 55 \/ c = 56 \/ c = 57) by lia.
  repeat (destruct C as [-> | C]; [cbn; eauto|]). subst; cbn; eauto.
Qed.

(* ... and refuses everything else *)
Lemma dec_parse_none b : (b = [] \/ forallb is_digit b = false) -> dec_parse b = None.
Proof.
  intros [-> | H]; [reflexivity|]. destruct (dec_parse b) eqn:E; [|reflexivity].
  apply dec_parse_some in E as [_ E]. congruence.
Qed.

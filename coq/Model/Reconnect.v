(* Model of transport/reconnect/transport.go (Dial, writeReqRes/Write, writeLoop, readLoop,
   pingLoop, reconnect, Read, CloseWithStatus) as repaired by the fix: commit for F8 (the write
   loop cancels the transport when its redial budget is exhausted).  Executable; no proofs here.

   The underlying transports are scripted incarnations: an incarnation accepts a write iff its
   Write returns nil, keeps what it accepted in order, and accepts nothing once closed or once
   its capacity is used up (this is the transport_fifo assumption made concrete).  The dialer is
   a script of outcomes consumed one per attempt; when it runs out every attempt fails.

   Granularity: one event is run to quiescence (the harness sequences events the same way);
   the mutex r.mu serialises reconnect rounds, so rounds are atomic here.  Write callers are
   processes whose outcome is WOk | WErr | WBlocked: a caller is blocked for ever exactly when
   the write loop has returned and the context is not cancelled. *)
From Coq Require Import List NArith Bool Arith.
From Iscp Require Import Lib.ListMap.
Import ListNotations.
Open Scope N_scope.

Definition ping : list N := [112; 105; 110; 103].   (* "ping" *)
Definition pong : list N := [112; 111; 110; 103].   (* "pong" *)
Definition list_N_eqb := list_beq N N.eqb.
Definition is_ping (bs : list N) : bool := list_N_eqb bs ping.

(* ---------- configuration ---------- *)

(* one dial attempt: fails, or yields a transport with write capacity [cap] (None = unlimited)
   whose first Read (the handshake read of reconnect) succeeds iff [hs] *)
Inductive dial := DFail | DOk (hs : bool) (cap : option N).

Record rcfg := mkRC {
  rc_budget : nat;           (* MaxReconnectAttempts (>= 1; 0 means 30 in the code, not generated) *)
  rc_tid : N;                (* 1 = DialConfig.TransportID configured, 2 = empty (uuid generated) *)
  rc_script : list dial
}.

(* ---------- state ---------- *)

Record sinc := mkI {
  i_cap : option N;              (* writes it will still accept *)
  i_log : list (list N);         (* writes it accepted, oldest first *)
  i_closed : bool;               (* Close or CloseWithStatus was called on it *)
  i_status : list N              (* statuses of the CloseWithStatus calls it received *)
}.

Record rstate := mkRS {
  rs_incs : list sinc;           (* every transport the dialer handed out, in creation order *)
  rs_cur : nat;                  (* index of r.transport *)
  rs_script : list dial;
  rs_budget : nat;
  rs_tid : N;
  rs_dials : list (N * bool);    (* (transport id code, Reconnect flag) of every attempt so far *)
  rs_cancel : bool;              (* r.ctx cancelled *)
  rs_wloop : bool;               (* the write loop is running *)
  rs_readq : list (option (list N));   (* readResCh: Some message | None = the reconnect error *)
  rs_rdead : bool                (* the read loop has returned (readResCh closed) *)
}.

Definition set_incs st l := mkRS l (rs_cur st) (rs_script st) (rs_budget st) (rs_tid st) (rs_dials st) (rs_cancel st) (rs_wloop st) (rs_readq st) (rs_rdead st).
Definition set_cur st c := mkRS (rs_incs st) c (rs_script st) (rs_budget st) (rs_tid st) (rs_dials st) (rs_cancel st) (rs_wloop st) (rs_readq st) (rs_rdead st).
Definition set_script st s := mkRS (rs_incs st) (rs_cur st) s (rs_budget st) (rs_tid st) (rs_dials st) (rs_cancel st) (rs_wloop st) (rs_readq st) (rs_rdead st).
Definition add_dial st (flag : bool) := mkRS (rs_incs st) (rs_cur st) (rs_script st) (rs_budget st) (rs_tid st) (rs_dials st ++ [(rs_tid st, flag)]) (rs_cancel st) (rs_wloop st) (rs_readq st) (rs_rdead st).
Definition set_cancel st := mkRS (rs_incs st) (rs_cur st) (rs_script st) (rs_budget st) (rs_tid st) (rs_dials st) true false (rs_readq st) (rs_rdead st).
Definition set_readq st q := mkRS (rs_incs st) (rs_cur st) (rs_script st) (rs_budget st) (rs_tid st) (rs_dials st) (rs_cancel st) (rs_wloop st) q (rs_rdead st).
Definition set_rdead st := mkRS (rs_incs st) (rs_cur st) (rs_script st) (rs_budget st) (rs_tid st) (rs_dials st) (rs_cancel st) (rs_wloop st) (rs_readq st) true.

Fixpoint upd_nth {A} (n : nat) (f : A -> A) (l : list A) : list A :=
  match l, n with
  | [], _ => []
  | x :: l', O => f x :: l'
  | x :: l', S n' => x :: upd_nth n' f l'
  end.

Definition new_inc (cap : option N) : sinc := mkI cap [] false [].
Definition inc_accepts (i : sinc) : bool :=
  negb (i_closed i) && match i_cap i with Some 0 => false | _ => true end.
Definition inc_write (bs : list N) (i : sinc) : sinc :=
  mkI (match i_cap i with Some n => Some (n - 1) | None => None end) (i_log i ++ [bs]) (i_closed i) (i_status i).
Definition inc_close (i : sinc) : sinc := mkI (i_cap i) (i_log i) true (i_status i).
Definition inc_close_status (s : N) (i : sinc) : sinc := mkI (i_cap i) (i_log i) true (i_status i ++ [s]).

(* ---------- Dial: up to budget attempts, Reconnect flag clear, no handshake read ---------- *)

Fixpoint dial0 (fuel : nat) (st : rstate) : rstate * bool :=
  match fuel with
  | O => (st, false)
  | S f =>
      let st1 := add_dial st false in
      match rs_script st with
      | [] => dial0 f st1
      | DFail :: s => dial0 f (set_script st1 s)
      | DOk _ cap :: s => (set_cur (set_incs (set_script st1 s) (rs_incs st ++ [new_inc cap])) (length (rs_incs st)), true)
      end
  end.

Definition rc_new (c : rcfg) : option rstate :=
  let r := dial0 (rc_budget c) (mkRS [] 0 (rc_script c) (rc_budget c) (rc_tid c) [] false true [] false) in
  if snd r then Some (fst r) else None.

(* ---------- reconnect(old) with old = r.transport, called with r.mu held ---------- *)

Fixpoint redial (fuel : nat) (st : rstate) : rstate * bool :=
  match fuel with
  | O => (st, false)
  | S f =>
      let st1 := add_dial st true in
      match rs_script st with
      | [] => redial f st1
      | DFail :: s => redial f (set_script st1 s)
      | DOk hs cap :: s =>
          let st2 := set_incs (set_script st1 s) (rs_incs st ++ [new_inc cap]) in
          if hs then (set_cur st2 (length (rs_incs st)), true)
          else redial f st2                       (* handshake read failed: counted, transport abandoned *)
      end
  end.

Definition reconnect (st : rstate) : rstate * bool :=
  redial (rs_budget st) (set_incs st (upd_nth (rs_cur st) inc_close (rs_incs st))).

(* ---------- the write loop on one request ---------- *)

Inductive wres := WOk | WErr | WBlocked.

(* fuel bounds the number of reconnect rounds; every successful round consumes a script entry *)
Fixpoint wloop_one (fuel : nat) (st : rstate) (bs : list N) : rstate * wres :=
  match nth_error (rs_incs st) (rs_cur st) with
  | None => (st, WErr)
  | Some i =>
      if inc_accepts i
      then (set_incs st (upd_nth (rs_cur st) (inc_write bs) (rs_incs st)), WOk)
      else match fuel with
           | O => (set_cancel st, WErr)
           | S f =>
               let r := reconnect st in
               if snd r then wloop_one f (fst r) bs
               else (set_cancel (fst r), WErr)     (* budget exhausted: reply, cancel, return *)
           end
  end.

(* Write(bs) by a caller, run to completion *)
Definition write_one (st : rstate) (bs : list N) : rstate * wres :=
  if rs_cancel st then (st, WErr)                  (* ErrConnectionClosed *)
  else if negb (rs_wloop st) then (st, WBlocked)   (* nobody serves the queue, nothing wakes the caller *)
  else wloop_one (S (length (rs_script st))) st bs.

Fixpoint write_batch (st : rstate) (ws : list (N * list N)) : rstate * list wres :=
  match ws with
  | [] => (st, [])
  | w :: ws' =>
      let r := write_one st (snd w) in
      let r' := write_batch (fst r) ws' in
      (fst r', snd r :: snd r')
  end.

(* ---------- events ---------- *)

Inductive rev :=
| Batch (ws : list (N * list N))             (* writes (writer, payload) handed to the queue in this order *)
| BatchClose (ws : list (N * list N)) (status : N)
                                             (* the same, the first held in flight; then CloseWithStatus *)
| Deliver (bs : list N)                      (* the current transport's Read returns bs to the read loop *)
| ReadFail                                   (* the current transport's Read returns an error *)
| ReadE (take : bool)                        (* Transport.Read; [take] resolves the select race after cancel *)
| CloseE (status : N).

Inductive rres := ROk (bs : list N) | RErr | RBlocked.
Inductive rout :=
| OBatch (rs : list wres)
| OUnit
| OPong (ok : bool)                          (* a ping was answered; the pong was accepted *)
| OReadFail (alive : bool)                   (* the read loop survived the failure (redial succeeded) *)
| ORead (r : rres).

Definition reading (st : rstate) : bool := negb (rs_cancel st) && negb (rs_rdead st).

Definition do_close (st : rstate) (status : N) : rstate :=
  set_cancel (set_incs st (upd_nth (rs_cur st) (inc_close_status status) (rs_incs st))).

Definition rstep (st : rstate) (e : rev) : rstate * rout :=
  match e with
  | Batch ws => let r := write_batch st ws in (fst r, OBatch (snd r))
  | BatchClose ws status =>
      if rs_cancel st then (st, OBatch (map (fun _ => WErr) ws))
      else (do_close st status, OBatch (map (fun _ => WErr) ws))
  | Deliver bs =>
      if reading st then
        if is_ping bs
        then let r := write_one st pong in
             (fst r, OPong (match snd r with WOk => true | _ => false end))
        else (set_readq st (rs_readq st ++ [Some bs]), OUnit)
      else (st, OUnit)
  | ReadFail =>
      if reading st then
        let r := reconnect st in
        if snd r then (fst r, OReadFail true)
        else (set_rdead (set_readq (fst r) (rs_readq (fst r) ++ [None])), OReadFail false)
      else (st, OReadFail false)
  | ReadE take =>
      match rs_readq st with
      | x :: q =>
          if rs_cancel st && negb take then (st, ORead RErr)
          else (set_readq st q, ORead (match x with Some bs => ROk bs | None => RErr end))
      | [] =>
          if rs_cancel st || rs_rdead st then (st, ORead RErr) else (st, ORead RBlocked)
      end
  | CloseE status => (do_close st status, OUnit)
  end.

Fixpoint rrun (st : rstate) (evs : list rev) : rstate * list rout :=
  match evs with
  | [] => (st, [])
  | e :: evs' =>
      let r := rstep st e in
      let r' := rrun (fst r) evs' in
      (fst r', snd r :: snd r')
  end.

(* ---------- the correspondence case ---------- *)

Record rc_case := mkRcCase {
  rk_cfg : rcfg;
  rk_new : bool;                                  (* observed: Dial succeeded *)
  rk_evs : list rev;
  rk_outs : list rout;                            (* observed: one outcome per event *)
  rk_incs : list (list (list N) * bool * list N); (* observed: per transport handed out: accepted log, closed, statuses *)
  rk_dials : list (N * bool)                      (* observed: (id code, Reconnect flag) per attempt; code 0 = wrong id *)
}.

Definition wres_eqb (a b : wres) : bool :=
  match a, b with WOk, WOk | WErr, WErr | WBlocked, WBlocked => true | _, _ => false end.
Definition rres_eqb (a b : rres) : bool :=
  match a, b with
  | ROk x, ROk y => list_N_eqb x y
  | RErr, RErr | RBlocked, RBlocked => true
  | _, _ => false
  end.
Definition rout_eqb (a b : rout) : bool :=
  match a, b with
  | OBatch x, OBatch y => list_beq _ wres_eqb x y
  | OUnit, OUnit => true
  | OPong x, OPong y => Bool.eqb x y
  | OReadFail x, OReadFail y => Bool.eqb x y
  | ORead x, ORead y => rres_eqb x y
  | _, _ => false
  end.
Definition dial_eqb (a b : N * bool) : bool := (fst a =? fst b) && Bool.eqb (snd a) (snd b).
Definition inc_obs (i : sinc) := (i_log i, i_closed i, i_status i).
Definition inc_obs_eqb (a b : list (list N) * bool * list N) : bool :=
  list_beq _ list_N_eqb (fst (fst a)) (fst (fst b)) && Bool.eqb (snd (fst a)) (snd (fst b))
  && list_N_eqb (snd a) (snd b).

Fixpoint prefix_beq {A} (eq : A -> A -> bool) (p l : list A) : bool :=
  match p, l with
  | [], _ => true
  | x :: p', y :: l' => eq x y && prefix_beq eq p' l'
  | _ :: _, [] => false
  end.

(* when the write loop exhausts its budget the read loop may race it with one more round of
   attempts before it sees the cancellation, so after a cancellation only a prefix of the
   attempts is determined *)
Definition rc_corr (c : rc_case) : bool :=
  match rc_new (rk_cfg c) with
  | None =>
      negb (rk_new c) &&
      match rk_evs c, rk_outs c with [], [] => true | _, _ => false end
  | Some st =>
      rk_new c &&
      (let r := rrun st (rk_evs c) in
       list_beq _ rout_eqb (snd r) (rk_outs c)
       && list_beq _ inc_obs_eqb (map inc_obs (rs_incs (fst r))) (rk_incs c)
       && (if rs_cancel (fst r)
           then prefix_beq dial_eqb (rs_dials (fst r)) (rk_dials c)
           else list_beq _ dial_eqb (rs_dials (fst r)) (rk_dials c)))
  end.

(* ---------- the property predicate: input and the implementation's observation only ---------- *)

(* payloads of the writes whose Write returned nil, in the order they were handed to the queue,
   and the pongs that were accepted, in event order *)
Fixpoint oks (ws : list (N * list N)) (rs : list wres) : list (list N) :=
  match ws, rs with
  | w :: ws', WOk :: rs' => snd w :: oks ws' rs'
  | _ :: ws', _ :: rs' => oks ws' rs'
  | _, _ => []
  end.
Definition accepted_of (eo : rev * rout) : list (list N) :=
  match eo with
  | (Batch ws, OBatch rs) => oks ws rs
  | (BatchClose ws _, OBatch rs) => oks ws rs
  | (Deliver _, OPong true) => [pong]
  | _ => []
  end.
Definition accepted_stream (tr : list (rev * rout)) : list (list N) := concat (map accepted_of tr).

Definition all_payloads (tr : list (rev * rout)) : list (list N) :=
  concat (map (fun eo => match fst eo with
                         | Batch ws => map snd ws
                         | BatchClose ws _ => map snd ws
                         | _ => [] end) tr).
Fixpoint nodupb (l : list (list N)) : bool :=
  match l with
  | [] => true
  | x :: l' => negb (existsb (list_N_eqb x) l') && nodupb l'
  end.
Definition memb_bs (x : list N) (l : list (list N)) : bool := existsb (list_N_eqb x) l.

(* failure and read discipline, judged on the outcomes alone.  State: cz = the transport is
   over (Close was called, or a Write failed, i.e. the write side exhausted its budget);
   ra = the read loop is alive; q = what was delivered and not yet handed out (None = the
   reconnect error of an exhausted read side).  No outcome may be Blocked unless nothing at all
   can be read yet on a live transport; once the transport is over or the read side has
   exhausted its budget every Write must fail (the property text: "pending and later Reads and
   Writes fail with an error"); Read hands out exactly the delivered messages in order, never a
   ping; a ping on a live transport is answered. *)
Record disc := mkDi { d_cz : bool; d_ra : bool; d_q : list (option (list N)) }.

Fixpoint wres_all (cz ra : bool) (rs : list wres) : option bool :=   (* Some cz' | None = violation *)
  match rs with
  | [] => Some cz
  | WBlocked :: _ => None
  | WOk :: rs' => if negb cz && ra then wres_all cz ra rs' else None
  | WErr :: rs' => wres_all true ra rs'
  end.

Definition disc_step (st : disc) (eo : rev * rout) : option disc :=
  let live := negb (d_cz st) && d_ra st in
  match eo with
  | (Batch ws, OBatch rs) =>
      if Nat.eqb (length ws) (length rs)
      then match wres_all (d_cz st) (d_ra st) rs with
           | Some cz' => Some (mkDi cz' (d_ra st) (d_q st))
           | None => None
           end
      else None
  | (BatchClose ws _, OBatch rs) =>
      if Nat.eqb (length ws) (length rs) && forallb (fun r => match r with WErr => true | _ => false end) rs
      then Some (mkDi true (d_ra st) (d_q st)) else None
  | (Deliver bs, OUnit) =>
      if is_ping bs then (if live then None else Some st)
      else Some (if live then mkDi (d_cz st) (d_ra st) (d_q st ++ [Some bs]) else st)
  | (Deliver bs, OPong _) => if is_ping bs && live then Some st else None
  | (ReadFail, OReadFail alive) =>
      if live then Some (if alive then st else mkDi (d_cz st) false (d_q st ++ [None]))
      else if alive then None else Some st
  | (ReadE take, ORead (ROk bs)) =>
      match d_q st with
      | Some x :: q => if list_N_eqb x bs && negb (is_ping bs) && (negb (d_cz st) || take)
                       then Some (mkDi (d_cz st) (d_ra st) q) else None
      | _ => None
      end
  | (ReadE take, ORead RErr) =>
      if d_cz st then
        match d_q st with
        | None :: q => Some (if take then mkDi (d_cz st) (d_ra st) q else st)
        | _ => if take then None else Some st
        end
      else match d_q st with
           | None :: q => Some (mkDi (d_cz st) (d_ra st) q)
           | [] => if d_ra st then None else Some st
           | _ => None
           end
  | (ReadE _, ORead RBlocked) =>
      match d_q st with [] => if live then Some st else None | _ => None end
  | (CloseE _, OUnit) => Some (mkDi true (d_ra st) (d_q st))
  | _ => None
  end.
Fixpoint disc_run (st : disc) (tr : list (rev * rout)) : bool :=
  match tr with
  | [] => true
  | eo :: tr' => match disc_step st eo with None => false | Some st' => disc_run st' tr' end
  end.

(* redial parameters: every attempt carries the one transport id; the Reconnect flag is clear
   up to and including the first successful attempt (Dial) and set on every later one.
   [n0] = number of attempts Dial made = failures at the head of the script + 1. *)
Fixpoint head_fails (s : list dial) : nat :=
  match s with DFail :: s' => S (head_fails s') | _ => O end.
Fixpoint dials_ok (tid : N) (n0 : nat) (ds : list (N * bool)) : bool :=
  match ds with
  | [] => true
  | d :: ds' =>
      (fst d =? tid) &&
      match n0 with
      | O => snd d && dials_ok tid O ds'
      | S n => negb (snd d) && dials_ok tid n ds'
      end
  end.

Definition rc_ok (c : rc_case) : bool :=
  if negb (rk_new c) then true
  else
    let tr := combine (rk_evs c) (rk_outs c) in
    let acc := concat (map (fun x => fst (fst x)) (rk_incs c)) in
    let okw := accepted_stream tr in
    Nat.eqb (length (rk_evs c)) (length (rk_outs c))
    (* exactly once, in order: the accepted writes, restricted to those whose Write returned nil
       (and the answered pings), are exactly those writes in issue order *)
    && (if nodupb (all_payloads tr) && negb (memb_bs pong (all_payloads tr))
        then list_beq _ list_N_eqb (filter (fun b => memb_bs b okw) acc) okw
        else true)
    && disc_run (mkDi false true []) tr
    && dials_ok (rc_tid (rk_cfg c)) (S (head_fails (rc_script (rk_cfg c)))) (rk_dials c).

Definition rc_judge (c : rc_case) : N :=
  (if rc_corr c then 0 else 1) + (if rc_ok c then 0 else 2).
